(** Decoder completeness beyond deserialize_any (slice mode):
    - [de_ignored_complete]        skipping a value (serde::de::IgnoredAny) consumes exactly its encoding
    - [ignored_consumes_as_any]    ... which is what reading it with deserialize_any consumes
    - [struct_missing_field_skips] a struct target that lacks fields skips exactly those fields
    - [de_typed_complete]          round trip for ordinary Rust data types (typed_target) *)
From Coq Require Import NArith ZArith List Lia Bool.
From Coq Require Import ZifyN ZifyBool ZifyNat.
Require Import Base Kinds Schema Varint Utf8 Sval Target Reader Text De.
Require Import AvroValue Encoding Denote Wf VarintProofs.
Require Import DeProofs.
Import ListNotations.
Open Scope N_scope.

Ltac Zify.zify_post_hook ::= Z.to_euclidean_division_equations.

Arguments N.add : simpl never.
Arguments N.sub : simpl never.
Arguments N.mul : simpl never.
Arguments N.div : simpl never.
Arguments N.modulo : simpl never.
Arguments N.pow : simpl never.
Arguments N.shiftl : simpl never.
Arguments N.shiftr : simpl never.
Arguments N.land : simpl never.
Arguments N.lor : simpl never.
Arguments N.ltb : simpl never.
Arguments N.leb : simpl never.
Arguments N.eqb : simpl never.
Arguments N.of_nat : simpl never.
Arguments N.to_nat : simpl never.
Arguments N.min : simpl never.
Arguments Z.of_nat : simpl never.
Arguments Z.of_N : simpl never.
Arguments Z.to_N : simpl never.
Arguments Z.add : simpl never.
Arguments Z.sub : simpl never.
Arguments Z.mul : simpl never.
Arguments Z.pow : simpl never.
Arguments Z.ltb : simpl never.
Arguments Z.leb : simpl never.
Arguments Z.eqb : simpl never.
Arguments Z.opp : simpl never.
Arguments Z.abs : simpl never.
Arguments Z.modulo : simpl never.

(* ------------------------------------------------------------------ *)
(** * 1. One-step unfolding equations, generic in the target *)

Section UnfoldG.
Variable Sc : fschema.
Variable cfg : dcfg.

(* the [any] arms of [de] for a target [t] *)
Definition any_g (t : dtarget) (f : nat) (n : fnode) (depth : nat) : RM dval :=
  match n with
  | FNull => sret (leaf t DUnit)
  | FBoolean => do* e <- read_bool; sret (leaf t e)
  | FInt | FDate | FTimeMillis => do* z <- read_varint VI32; sret (leaf t (DInt true W32 z))
  | FLong | FTimeMicros | FTimestampMillis | FTimestampMicros =>
      do* z <- read_varint VI64; sret (leaf t (DInt true W64 z))
  | FFloat => do* bs <- read_exact 4; sret (leaf t (DF32 (le_val bs)))
  | FDouble => do* bs <- read_exact 8; sret (leaf t (DF64 (le_val bs)))
  | FBytes => do* e <- read_ld_bytes; sret (leaf t e)
  | FString | FUuid => do* e <- read_ld_str; sret (leaf t e)
  | FArray items =>
      do* d' <- dec_depth depth;
      seq_array Sc cfg f items d' false t blk0 false
  | FMap values =>
      do* d' <- dec_depth depth;
      map_visit Sc cfg f (MSMap values d' false blk0) t
  | FUnion variants =>
      do* disc <- read_usize;
      match nth_N variants disc with
      | None => rfail (Err EData)
      | Some k =>
          do* d' <- dec_depth depth;
          do* n' <- node_at Sc k;
          de Sc cfg f n' d' false true t
      end
  | FRecord _ fields =>
      do* d' <- dec_depth depth;
      map_visit Sc cfg f (MSRecord fields d') t
  | FEnum _ symbols =>
      do* disc <- read_usize;
      match nth_N symbols disc with
      | None => rfail (Err EData)
      | Some s => sret (leaf t (DStr s))
      end
  | FFixed _ size => do* r <- read_slice size; sret (leaf t (bytes_event r))
  | FDecimal _ _ _ | FBigDecimal => do* e <- read_decimal n VHStr; sret (leaf t e)
  | FDuration =>
      do* bs <- read_exact 12;
      map_visit Sc cfg f (MSDuration [le_val (firstn 4 bs); le_val (firstn 4 (skipn 4 bs)); le_val (skipn 8 bs)] O) t
  end.

Lemma de_force_eq f n depth favor t :
  de Sc cfg (S f) n depth favor true t = any_g t f n depth.
Proof. destruct n; reflexivity. Qed.

Definition ign_step (f : nat) (n : fnode) (depth : nat) : RM dval :=
  match n with
  | FString => do* _ <- read_ld_bytes; sret DIgnored
  | FArray items => do* d' <- dec_depth depth; seq_array Sc cfg f items d' true TIgnored blk0 false
  | FMap values => do* d' <- dec_depth depth; map_visit Sc cfg f (MSMap values d' true blk0) TIgnored
  | FInt => do* _ <- read_varint VU32; sret DIgnored
  | FLong | FEnum _ _ => do* _ <- read_varint VU64; sret DIgnored
  | FDuration => do* _ <- read_exact 12; sret DIgnored
  | _ => any_g TIgnored f n depth
  end.

Lemma de_ign_eq f n depth favor :
  de Sc cfg (S f) n depth favor false TIgnored = ign_step f n depth.
Proof. destruct n; reflexivity. Qed.

(* targets whose hint method on every node is deserialize_any *)
Lemma de_map_eq f n depth favor tk tv :
  de Sc cfg (S f) n depth favor false (TMap tk tv) = any_g (TMap tk tv) f n depth.
Proof. destruct n; reflexivity. Qed.

Lemma de_struct_eq f n depth favor sn fs :
  de Sc cfg (S f) n depth favor false (TStruct sn fs) = any_g (TStruct sn fs) f n depth.
Proof. destruct n; reflexivity. Qed.

Lemma de_seq_array_eq f items depth favor t1 :
  de Sc cfg (S f) (FArray items) depth favor false (TSeq t1)
  = (do* d' <- dec_depth depth; seq_array Sc cfg f items d' false (TSeq t1) blk0 false).
Proof. reflexivity. Qed.

(* sequences *)
Definition arr_body (t1 : dtarget) (ign : bool) (f k d' : nat) (acc : list dval)
  : bool * blk -> RM (list dval * blk) :=
  fun hm =>
    if fst hm then
      do* n' <- node_at Sc k;
      do* d <- de Sc cfg f n' d' false false t1;
      seq_array_loop Sc cfg f k d' ign (PRepeat t1) (snd hm) (d :: acc)
    else sret (rev acc, snd hm).

Lemma seq_array_loop_g_eq f k d' ign t1 b acc :
  seq_array_loop Sc cfg (S f) k d' ign (PRepeat t1) b acc
  = sbind (has_more f cfg ign b) (arr_body t1 ign f k d' acc).
Proof. reflexivity. Qed.

Lemma seq_array_g_eq f k d' ign t b :
  seq_array Sc cfg (S f) k d' ign t b false
  = (let (pol, sh) := seq_policy t in
     do* r <- seq_array_loop Sc cfg f k d' ign pol b [];
     let '(ds, _) := r in sret (shape_seq sh ds)).
Proof. cbn [seq_array]. destruct (seq_policy t) as [pol sh]. reflexivity. Qed.

(* maps *)
Definition keyrd (tk : dtarget) : RM dval :=
  match tk with
  | TIgnored => do* _ <- read_ld_bytes; sret DIgnored
  | _ => read_ld_str
  end.

Definition mk_key (tk : dtarget) (values depth : nat) (ign : bool)
  : bool * blk -> RM (option (dval * mapsrc)) :=
  fun hm =>
    if fst hm then
      do* k <- keyrd tk;
      sret (Some (k, MSMap values depth ign (snd hm)))
    else sret None.

Definition ml_body (f : nat) (tk tv : dtarget) (acc : list (dval * dval))
  : option (dval * mapsrc) -> RM (list (dval * dval)) :=
  fun nk =>
    match nk with
    | None => sret (rev acc)
    | Some (k, src1) =>
        do* r <- map_next_value Sc cfg f src1 tv;
        map_loop Sc cfg f (snd r) tk tv ((k, fst r) :: acc)
    end.

Lemma map_loop_g_eq f src tk tv acc :
  map_loop Sc cfg (S f) src tk tv acc
  = sbind (map_next_key Sc cfg f src tk) (ml_body f tk tv acc).
Proof. reflexivity. Qed.

Lemma map_next_key_map_g_eq f values depth ign b tk :
  map_next_key Sc cfg (S f) (MSMap values depth ign b) tk
  = sbind (has_more f cfg ign b) (mk_key tk values depth ign).
Proof. destruct tk; reflexivity. Qed.

Lemma map_next_value_map_g_eq f values depth ign b tv :
  map_next_value Sc cfg (S f) (MSMap values depth ign b) tv
  = (do* n' <- node_at Sc values;
     do* d <- de Sc cfg f n' depth false false tv;
     sret (d, MSMap values depth ign b)).
Proof. reflexivity. Qed.

Lemma map_next_value_record_g_eq f nm k rest depth tv :
  map_next_value Sc cfg (S f) (MSRecord ((nm, k) :: rest) depth) tv
  = (do* n' <- node_at Sc k;
     do* d <- de Sc cfg f n' depth false false tv;
     sret (d, MSRecord rest depth)).
Proof. reflexivity. Qed.

Lemma map_visit_generic_eq f src t tk tv ign :
  map_policy t = MPGeneric tk tv ign ->
  map_visit Sc cfg (S f) src t
  = (do* kvs <- map_loop Sc cfg f src tk tv []; sret (if ign then DIgnored else DMap kvs)).
Proof. intro H. cbn [map_visit]. rewrite H. reflexivity. Qed.

Lemma map_visit_struct_eq f src sn fs :
  map_visit Sc cfg (S f) src (TStruct sn fs)
  = (do* r <- struct_loop Sc cfg f src fs (repeat false (length fs)) []; sret (DStruct r)).
Proof. reflexivity. Qed.

End UnfoldG.
