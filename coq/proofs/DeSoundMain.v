(** C03 -- decoder SOUNDNESS for the dynamically-typed target (deserialize_any), any reader mode.

    Whatever [de ... TAny] returns with Ok is the reading [dval_any] of a value that conforms to the
    schema node, and the bytes it consumed are an encoding of that value in the relaxed sense
    [venc]: the Avro binary encoding in which
      - every long (values, lengths, counts, indices) may be written as an over-long varint
        ([rlong], at most 10 bytes),
      - the byte size that follows a negative block count is not checked (any u64 varint),
      - a decimal's two's complement may carry any amount of sign extension and may even be empty
        (zero bytes read as 0).
    Main results
      - [de_any_sound_bytes]   value + conformance + consumed prefix is a [venc] encoding
      - [de_any_sound]         the statement of the task (no schema hypothesis is needed)
      - [de_any_sound_needs_byte_input]   the hypothesis "input elements are bytes" cannot be dropped
      - [de_bool_reject] ... [de_truncated_*]  the rejection corollaries, with vm_compute witnesses
      - [venc_of_canonical_*], [overlong_accepted], [block_size_unchecked], [empty_decimal_accepted]
                               what the relaxation consists of, on concrete inputs. *)
From Coq Require Import NArith ZArith List Lia Bool.
From Coq Require Import ZifyN ZifyBool ZifyNat.
Require Import Base Kinds Schema Varint Utf8 Sval Target Reader Text De.
Require Import AvroValue Encoding Denote Wf VarintProofs DeProofs ReaderProofs DeSoundBase.
Import ListNotations.
Open Scope N_scope.
Notation length := List.length (only parsing).

Ltac Zify.zify_post_hook ::= Z.to_euclidean_division_equations.

Arguments N.add : simpl never.
Arguments N.sub : simpl never.
Arguments N.mul : simpl never.
Arguments N.div : simpl never.
Arguments N.modulo : simpl never.
Arguments N.pow : simpl never.
Arguments N.shiftl : simpl never.
Arguments N.shiftr : simpl never.
Arguments N.land : simpl never.
Arguments N.lor : simpl never.
Arguments N.ltb : simpl never.
Arguments N.leb : simpl never.
Arguments N.eqb : simpl never.
Arguments N.of_nat : simpl never.
Arguments N.to_nat : simpl never.
Arguments N.min : simpl never.
Arguments Z.of_nat : simpl never.
Arguments Z.of_N : simpl never.
Arguments Z.to_N : simpl never.
Arguments Z.to_nat : simpl never.
Arguments Z.add : simpl never.
Arguments Z.sub : simpl never.
Arguments Z.mul : simpl never.
Arguments Z.pow : simpl never.
Arguments Z.ltb : simpl never.
Arguments Z.leb : simpl never.
Arguments Z.eqb : simpl never.
Arguments Z.opp : simpl never.
Arguments Z.abs : simpl never.
Arguments Z.modulo : simpl never.

(* ------------------------------------------------------------------ *)
(** * 1. The relaxed encoding relation *)

Definition int_node (n : fnode) : bool :=
  match n with FInt | FDate | FTimeMillis => true | _ => false end.
Definition long_node (n : fnode) : bool :=
  match n with FLong | FTimeMicros | FTimestampMillis | FTimestampMicros => true | _ => false end.
Definition str_node (n : fnode) : bool :=
  match n with FString | FUuid => true | _ => false end.

(* the header of a block of c > 0 items: the count, or minus the count followed by a byte size
   (which the decoder does not check against anything) *)
Definition blk_hdr (c : N) (bs : bytes) : Prop :=
  0 < c /\ (rlong (Z.of_N c) bs \/
            exists bc bsz n, bs = bc ++ bsz /\ rlong (- Z.of_N c) bc /\ rvarint n bsz).

Section VEnc.
Variable Sc : fschema.

(** [venc n v bs]: bs is a relaxed encoding of v under node n.
    [vseq k cur vs bs]: bs is the rest of an array whose current block still holds [cur] items:
    those items, then further blocks, then the terminator; vs are all the items in bs.
    [vmseq] the same for maps, [vfields] the concatenated fields of a record. *)
Inductive venc : fnode -> avalue -> bytes -> Prop :=
  | VE_null : venc FNull ANull []
  | VE_bool b : venc FBoolean (ABool b) [if b then 1 else 0]
  | VE_int n z bs : int_node n = true -> rlong z bs -> venc n (AInt z) bs
  | VE_long n z bs : long_node n = true -> rlong z bs -> venc n (ALong z) bs
  | VE_float x : venc FFloat (AFloat x) (spec_le 4 x)
  | VE_double x : venc FDouble (ADouble x) (spec_le 8 x)
  | VE_bytes bs bl : rlong (Z.of_nat (length bs)) bl -> venc FBytes (ABytes bs) (bl ++ bs)
  | VE_string n s bl : str_node n = true -> rlong (Z.of_nat (length s)) bl -> venc n (AString s) (bl ++ s)
  | VE_array k vs bs : vseq k 0 vs bs -> venc (FArray k) (AArray vs) bs
  | VE_map k kvs bs : vmseq k 0 kvs bs -> venc (FMap k) (AMap kvs) bs
  | VE_union ks i k n' v bi bv :
      nth_error ks i = Some k -> fnode_at Sc k = Some n' -> rlong (Z.of_nat i) bi -> venc n' v bv ->
      venc (FUnion ks) (AUnion i v) (bi ++ bv)
  | VE_record nm fs vs bs : vfields fs vs bs -> venc (FRecord nm fs) (ARecord vs) bs
  | VE_enum nm syms i bs : rlong (Z.of_nat i) bs -> venc (FEnum nm syms) (AEnum i) bs
  | VE_fixed nm size bs : venc (FFixed nm size) (AFixed bs) bs
  | VE_decimal_bytes p sc m raw bl :
      twos_repr m raw -> rlong (Z.of_nat (length raw)) bl ->
      venc (FDecimal p sc None) (ADecimal m) (bl ++ raw)
  | VE_decimal_fixed p sc nm size m raw :
      twos_repr m raw -> N.of_nat (length raw) = size ->
      venc (FDecimal p sc (Some (nm, size))) (ADecimal m) raw
  | VE_bigdecimal m s raw bl bsz bsc :
      twos_repr m raw -> rlong (Z.of_nat (length raw)) bsz -> rlong (Z.of_N s) bsc ->
      rlong (Z.of_nat (length (bsz ++ raw ++ bsc))) bl ->
      venc FBigDecimal (ABigDecimal m s) (bl ++ bsz ++ raw ++ bsc)
  | VE_duration a b c :
      venc FDuration (ADuration a b c) (spec_le 4 a ++ spec_le 4 b ++ spec_le 4 c)
with vseq : nat -> N -> list avalue -> bytes -> Prop :=
  | VS_end k bs : rlong 0 bs -> vseq k 0 [] bs
  | VS_item k cur n' v vs b1 b2 :
      fnode_at Sc k = Some n' -> venc n' v b1 -> vseq k cur vs b2 ->
      vseq k (cur + 1) (v :: vs) (b1 ++ b2)
  | VS_blk k c vs bh br : blk_hdr c bh -> vseq k c vs br -> vseq k 0 vs (bh ++ br)
with vmseq : nat -> N -> list (bytes * avalue) -> bytes -> Prop :=
  | VM_end k bs : rlong 0 bs -> vmseq k 0 [] bs
  | VM_item k cur n' key v kvs bl bv b2 :
      fnode_at Sc k = Some n' -> rlong (Z.of_nat (length key)) bl -> venc n' v bv ->
      vmseq k cur kvs b2 ->
      vmseq k (cur + 1) ((key, v) :: kvs) (bl ++ key ++ bv ++ b2)
  | VM_blk k c kvs bh br : blk_hdr c bh -> vmseq k c kvs br -> vmseq k 0 kvs (bh ++ br)
with vfields : list (bytes * nat) -> list avalue -> bytes -> Prop :=
  | VF_nil : vfields [] [] []
  | VF_cons nm k n' v fr vr b1 b2 :
      fnode_at Sc k = Some n' -> venc n' v b1 -> vfields fr vr b2 ->
      vfields ((nm, k) :: fr) (v :: vr) (b1 ++ b2).

Definition valid_enc_relaxed (n : fnode) (v : avalue) (pre : bytes) : Prop := venc n v pre.

(* what an Ok result of the decoder at node n satisfies *)
Definition de_post (n : fnode) (d : dval) (pre : bytes) : Prop :=
  exists v, conforms Sc n v = true /\ erase_borrow d = dval_any Sc n v /\ venc n v pre.
Definition item_post (k : nat) (d : dval) (pre : bytes) : Prop :=
  exists n', fnode_at Sc k = Some n' /\ de_post n' d pre.

End VEnc.

(* ------------------------------------------------------------------ *)
(** * 2. Blocks *)

(* how has_more moves from block state b to b' while reading ph *)
Definition hdr_step (b b' : blk) (ph : bytes) : Prop :=
  (b_cur b <> 0 /\ ph = [] /\ b_cur b' = b_cur b - 1) \/
  (b_cur b = 0 /\ exists c, blk_hdr c ph /\ b_cur b' = c - 1).

Lemma hoare_read_block_len f :
  hoare (read_block_len f false)
        (fun nl pre => match nl with None => rlong 0 pre | Some l => blk_hdr l pre end).
Proof.
  destruct f as [|f]; [apply hoare_fail; reflexivity|].
  cbn [read_block_len]. eapply hoare_bind; [apply (hoare_read_varint VI64)|].
  intros len p1 Hlen _. cbn [varint_post] in Hlen.
  destruct (Z.ltb_spec len 0) as [Hneg|Hpos].
  - eapply hoare_bind; [apply (hoare_read_varint VU64)|].
    intros sz p2 [Hsz Hp2] _. apply hoare_ret. rewrite app_nil_r.
    split; [lia|]. right. exists p1, p2, (Z.to_N sz). split; [reflexivity|]. split; [|exact Hp2].
    rewrite Z2N.id by lia. replace (- - len)%Z with len by lia. exact Hlen.
  - apply hoare_ret. rewrite app_nil_r. destruct (Z.eqb_spec len 0) as [E|E].
    + subst len. exact Hlen.
    + split; [lia|]. left. rewrite Z2N.id by lia. exact Hlen.
Qed.

Lemma hoare_has_more f cfg b :
  hoare (has_more f cfg false b)
        (fun hm pre => if fst hm then hdr_step b (snd hm) pre else b_cur b = 0 /\ rlong 0 pre).
Proof.
  unfold has_more. destruct (N.eqb_spec (b_cur b) 0) as [E|E].
  - eapply hoare_bind; [apply hoare_read_block_len|].
    intros [l|] p1 Hp _.
    + destruct (c_max_seq cfg <? N.min (b_nread b + l) (2 ^ 64 - 1)); [apply hoare_fail; reflexivity|].
      apply hoare_ret. cbn [fst snd]. rewrite app_nil_r. right. split; [exact E|].
      exists l. split; [exact Hp|reflexivity].
    + apply hoare_ret. cbn [fst snd]. rewrite app_nil_r. auto.
  - apply hoare_ret. cbn [fst snd]. left. auto.
Qed.

Lemma vseq_hdr_step Sc k b b' ph vs br :
  hdr_step b b' ph -> vseq Sc k (b_cur b' + 1) vs br -> vseq Sc k (b_cur b) vs (ph ++ br).
Proof.
  intros [(H1 & H2 & H3)|(H1 & c & Hh & H3)] Hv.
  - subst ph. cbn [app]. replace (b_cur b) with (b_cur b' + 1) by lia. exact Hv.
  - rewrite H1. eapply VS_blk; [exact Hh|]. destruct Hh as [Hc _].
    replace c with (b_cur b' + 1) by lia. exact Hv.
Qed.

Lemma vmseq_hdr_step Sc k b b' ph kvs br :
  hdr_step b b' ph -> vmseq Sc k (b_cur b' + 1) kvs br -> vmseq Sc k (b_cur b) kvs (ph ++ br).
Proof.
  intros [(H1 & H2 & H3)|(H1 & c & Hh & H3)] Hv.
  - subst ph. cbn [app]. replace (b_cur b) with (b_cur b' + 1) by lia. exact Hv.
  - rewrite H1. eapply VM_blk; [exact Hh|]. destruct Hh as [Hc _].
    replace c with (b_cur b' + 1) by lia. exact Hv.
Qed.

(* ------------------------------------------------------------------ *)
(** * 3. Decimals and durations *)

Lemma hoare_finish_decimal u sc :
  hoare (finish_decimal u sc VHStr)
        (fun e pre => pre = [] /\ e = DStr (decimal_to_string u sc) /\ (Z.abs u < 2 ^ 96)%Z).
Proof.
  unfold finish_decimal.
  assert (G : hoare (if (28 <? sc) || negb (Z.abs u <? 2 ^ 96)%Z then rfail (Err EData)
                     else sret (DStr (decimal_to_string u sc)))
                    (fun e pre => pre = [] /\ e = DStr (decimal_to_string u sc) /\ (Z.abs u < 2 ^ 96)%Z)).
  { destruct (28 <? sc); cbn [orb]; [apply hoare_fail; reflexivity|].
    destruct (Z.ltb_spec (Z.abs u) (2 ^ 96)); cbn [negb]; [|apply hoare_fail; reflexivity].
    apply hoare_ret. auto. }
  destruct (sc =? 0); exact G.
Qed.

Lemma fits_twos_16 m : (Z.abs m < 2 ^ 96)%Z -> fits_twos m 16 = true.
Proof.
  intro H. unfold fits_twos. cbn [Nat.eqb].
  change (8 * Z.of_nat 16 - 1)%Z with 127%Z.
  change (2 ^ 96)%Z with 79228162514264337593543950336%Z in H.
  change (2 ^ 127)%Z with 170141183460469231731687303715884105728%Z.
  apply andb_true_intro; split; apply Z.leb_le; lia.
Qed.

Section Leaves.
Variable Sc : fschema.

Lemma hoare_read_decimal n :
  match n with FDecimal _ _ _ | FBigDecimal => True | _ => False end ->
  hoare (read_decimal n VHStr) (fun e pre => de_post Sc n e pre).
Proof.
  intro Hn. destruct n; try contradiction; clear Hn; unfold read_decimal.
  - destruct repr as [[nm size]|].
    + (* fixed *)
      destruct (N.ltb_spec 16 size) as [Hs|Hs]; [apply hoare_fail; reflexivity|].
      eapply hoare_bind; [apply hoare_read_exact|].
      intros raw p1 [Hr Hl] Hok1. subst p1.
      eapply hoare_weaken; [apply hoare_finish_decimal|].
      intros e p (Hp & He & Hu) _. subst p e. rewrite app_nil_r.
      pose proof (twos_repr_signed_be raw Hok1) as T.
      exists (ADecimal (signed_be raw)). split; [|split].
      * cbn [conforms]. destruct T as [T1 _]. unfold blen in Hl.
        replace (N.to_nat size) with (length raw) by lia. rewrite T1.
        apply andb_true_intro. split; [apply N.leb_le; lia|reflexivity].
      * reflexivity.
      * apply VE_decimal_fixed; [exact T|exact Hl].
    + (* bytes *)
      eapply hoare_bind; [apply hoare_read_usize|].
      intros size p1 Hsz _.
      destruct (N.ltb_spec 16 size) as [Hs|Hs]; [apply hoare_fail; reflexivity|].
      eapply hoare_bind; [apply hoare_read_exact|].
      intros raw p2 [Hr Hl] Hok2. subst p2.
      eapply hoare_weaken; [apply hoare_finish_decimal|].
      intros e p (Hp & He & Hu) _. subst p e. rewrite app_nil_r.
      pose proof (twos_repr_signed_be raw Hok2) as T.
      exists (ADecimal (signed_be raw)). split; [|split].
      * cbn [conforms]. apply fits_twos_16. exact Hu.
      * reflexivity.
      * apply VE_decimal_bytes; [exact T|]. unfold blen in Hl. rewrite <- Hl, nat_N_Z in Hsz. exact Hsz.
  - (* big decimal *)
    eapply hoare_bind; [apply (hoare_read_varint VI64)|].
    intros blen0 p0 Hbl _. cbn [varint_post] in Hbl.
    destruct (Z.ltb_spec blen0 0) as [Hneg|Hpos]; [apply hoare_fail; reflexivity|].
    eapply hoare_bind; [apply hoare_take_varint|].
    intros [usz lim1] p1 (Hsz & Hle1 & Hlim1) _. cbn [fst snd] in Hsz, Hlim1.
    destruct (Z.ltb_spec usz 0) as [Hneg1|Hpos1]; [apply hoare_fail; reflexivity|].
    destruct (N.ltb_spec 16 (Z.to_N usz)) as [Hs|Hs]; [apply hoare_fail; reflexivity|].
    eapply hoare_bind; [apply hoare_take_exact|].
    intros [raw lim2] p2 (Hr & Hl2 & Hle2 & Hlim2) Hok2. cbn [fst snd] in Hr, Hlim2. subst p2.
    eapply hoare_bind; [apply hoare_take_varint|].
    intros [scale lim3] p3 (Hsc & Hle3 & Hlim3) _. cbn [fst snd] in Hsc, Hlim3.
    destruct (Zin 0 U32_MAX scale) eqn:Ezin; cbn [negb]; [|apply hoare_fail; reflexivity].
    destruct (N.ltb_spec 0 lim3) as [Hrem|Hrem]; [apply hoare_fail; reflexivity|].
    eapply hoare_weaken; [apply hoare_finish_decimal|].
    intros e p (Hp & He & Hu) _. subst p e. rewrite app_nil_r.
    pose proof (twos_repr_signed_be raw Hok2) as T.
    apply Zin_true in Ezin.
    exists (ABigDecimal (signed_be raw) (Z.to_N scale)). split; [|split].
    + cbn [conforms]. apply fits_twos_16. exact Hu.
    + reflexivity.
    + apply VE_bigdecimal.
      * exact T.
      * unfold blen in Hl2. replace (Z.of_nat (length raw)) with usz by lia. exact Hsz.
      * rewrite Z2N.id by lia. exact Hsc.
      * rewrite !app_length. unfold blen in *.
        replace (Z.of_nat (length p1 + (length raw + length p3))) with blen0 by lia. exact Hbl.
Qed.

Definition dur_name (idx : nat) : bytes :=
  match idx with O => MONTHS | S O => DAYS | _ => MILLISECONDS end.
Fixpoint dur_kvs (vals : list N) (idx : nat) : list (dval * dval) :=
  match vals with
  | [] => []
  | v :: r => (DStr (dur_name idx), DInt false W32 (Z.of_N v)) :: dur_kvs r (S idx)
  end.

Lemma map_loop_duration cfg : forall f vals idx acc,
  hoare (map_loop Sc cfg f (MSDuration vals idx) TAny TAny acc)
        (fun kvs pre => pre = [] /\ kvs = rev acc ++ dur_kvs vals idx).
Proof.
  induction f as [|f IH]; intros vals idx acc; [apply hoare_fail; reflexivity|].
  rewrite map_loop_unfold.
  destruct f as [|f']; [apply hoare_fail; reflexivity|].
  rewrite map_next_key_unfold. destruct vals as [|v rest].
  - rewrite sbind_sret. apply hoare_ret. cbn [dur_kvs]. rewrite app_nil_r. auto.
  - rewrite sbind_sret. rewrite map_next_value_unfold. rewrite sbind_sret. cbn [fst snd prim_event].
    eapply hoare_weaken; [apply IH|].
    intros kvs p [Hp Hk] _. split; [exact Hp|]. rewrite Hk. cbn [rev dur_kvs].
    rewrite <- app_assoc. reflexivity.
Qed.

End Leaves.

(* ------------------------------------------------------------------ *)
(** * 4. The induction step *)

#[local] Opaque de seq_array seq_array_loop seq_duration map_visit map_next_key map_next_value map_loop
  struct_loop enum_payload.
#[local] Opaque read_varint read_exact read_slice skip_bytes take_varint take_exact read_usize read_bool
  read_ld_bytes read_ld_str read_decimal finish_decimal has_more read_block_len dec_depth node_at str_event.

Lemma nth_N_inv {A} (l : list A) i x : nth_N l i = Some x ->
  nth_error l (N.to_nat i) = Some x /\ (N.to_nat i < length l)%nat.
Proof.
  unfold nth_N. destruct (N.ltb_spec i (N.of_nat (length l))) as [Hlt|Hge]; [|discriminate].
  intro Hn. split; [exact Hn|lia].
Qed.

Lemma skipn_skipn' {A} (a : nat) : forall (b : nat) (l : list A), skipn a (skipn b l) = skipn (b + a) l.
Proof.
  induction b as [|b IH]; intro l; [reflexivity|].
  destruct l as [|x l]; [destruct a; reflexivity|]. cbn [skipn Nat.add]. apply IH.
Qed.

Lemma dany_at_some Sc k n' v : fnode_at Sc k = Some n' -> dany_at Sc k v = dval_any Sc n' v.
Proof. intro H. unfold dany_at. rewrite H. reflexivity. Qed.
Lemma conf_at_some Sc k n' v : fnode_at Sc k = Some n' -> conf_at Sc k v = conforms Sc n' v.
Proof. intro H. unfold conf_at. rewrite H. reflexivity. Qed.

Lemma le_val_4 bs : bytes_okb bs = true -> length bs = 4%nat -> le_val bs < 2 ^ 32.
Proof. intros H L. pose proof (le_val_lt bs H) as B. rewrite L in B. exact B. Qed.

Section Step.
Variable Sc : fschema.
Variable cfg : dcfg.
Variable f : nat.

Definition sl_post (items : nat) (b : blk) (acc : list dval) (r : list dval * blk) (pre : bytes) : Prop :=
  exists vs ds, fst r = rev acc ++ ds /\ map erase_borrow ds = map (dany_at Sc items) vs /\
                forallb (conf_at Sc items) vs = true /\ vseq Sc items (b_cur b) vs pre.

Definition mkv_ok (values : nat) (kv : bytes * avalue) : bool :=
  bytes_okb (fst kv) && utf8_valid (fst kv) && conf_at Sc values (snd kv).

Definition mlm_post (values : nat) (b : blk) (acc kvs : list (dval * dval)) (pre : bytes) : Prop :=
  exists vkvs ds, kvs = rev acc ++ ds /\ map eb_kv ds = map (dkv Sc values) vkvs /\
                  forallb (mkv_ok values) vkvs = true /\ vmseq Sc values (b_cur b) vkvs pre.

Definition mlr_post (fields : list (bytes * nat)) (acc kvs : list (dval * dval)) (pre : bytes) : Prop :=
  exists vs ds, kvs = rev acc ++ ds /\ map eb_kv ds = dany_fields Sc fields vs /\
                length fields = length vs /\ conf_fields Sc fields vs = true /\ vfields Sc fields vs pre.

Hypothesis IHde : forall n depth favor force,
  hoare (de Sc cfg f n depth favor force TAny) (de_post Sc n).
Hypothesis IHsa : forall items depth b,
  hoare (seq_array Sc cfg f items depth false TAny b false)
        (fun d pre => exists vs, forallb (conf_at Sc items) vs = true /\
                                 erase_borrow d = DSeq (map (dany_at Sc items) vs) /\
                                 vseq Sc items (b_cur b) vs pre).
Hypothesis IHsl : forall items depth b acc,
  hoare (seq_array_loop Sc cfg f items depth false (PRepeat TAny) b acc) (sl_post items b acc).
Hypothesis IHmvm : forall values depth b,
  hoare (map_visit Sc cfg f (MSMap values depth false b) TAny)
        (fun d pre => exists vkvs, forallb (mkv_ok values) vkvs = true /\
                                   erase_borrow d = DMap (map (dkv Sc values) vkvs) /\
                                   vmseq Sc values (b_cur b) vkvs pre).
Hypothesis IHmvr : forall fields depth,
  hoare (map_visit Sc cfg f (MSRecord fields depth) TAny)
        (fun d pre => exists vs, length fields = length vs /\ conf_fields Sc fields vs = true /\
                                 erase_borrow d = DMap (dany_fields Sc fields vs) /\
                                 vfields Sc fields vs pre).
Hypothesis IHnvm : forall values depth ign b,
  hoare (map_next_value Sc cfg f (MSMap values depth ign b) TAny)
        (fun r pre => snd r = MSMap values depth ign b /\ item_post Sc values (fst r) pre).
Hypothesis IHnvr : forall nm k rest depth,
  hoare (map_next_value Sc cfg f (MSRecord ((nm, k) :: rest) depth) TAny)
        (fun r pre => snd r = MSRecord rest depth /\ item_post Sc k (fst r) pre).
Hypothesis IHmlm : forall values depth b acc,
  hoare (map_loop Sc cfg f (MSMap values depth false b) TAny TAny acc) (mlm_post values b acc).
Hypothesis IHmlr : forall fields depth acc,
  hoare (map_loop Sc cfg f (MSRecord fields depth) TAny TAny acc) (mlr_post fields acc).

(* next key of a map: standalone (no recursive call) *)
Lemma nk_map : forall fuel values depth b,
  hoare (map_next_key Sc cfg fuel (MSMap values depth false b) TAny)
        (fun r pre => match r with
                      | None => b_cur b = 0 /\ rlong 0 pre
                      | Some (k, src) =>
                          exists b' s ph bl, src = MSMap values depth false b' /\
                            erase_borrow k = DStr s /\ utf8_valid s = true /\
                            pre = ph ++ bl ++ s /\ rlong (Z.of_nat (length s)) bl /\ hdr_step b b' ph
                      end).
Proof.
  intros fuel values depth b.
  destruct fuel as [|fu]; [rewrite map_next_key_zero; apply hoare_fail; reflexivity|].
  rewrite map_next_key_unfold.
  eapply hoare_bind; [apply hoare_has_more|].
  intros [more b'] p1 Hhm _. cbn [fst snd] in Hhm |- *. destruct more.
  - eapply hoare_bind; [apply hoare_read_ld_str|].
    intros k p2 (s & bl & He & Hp & Hl & Hu) _. apply hoare_ret. rewrite app_nil_r.
    exists b', s, p1, bl. subst p2. auto 10.
  - apply hoare_ret. rewrite app_nil_r. exact Hhm.
Qed.

Lemma nk_record : forall fuel fields depth,
  hoare (map_next_key Sc cfg fuel (MSRecord fields depth) TAny)
        (fun r pre => pre = [] /\
                      r = match fields with
                          | [] => None
                          | (nm, _) :: _ => Some (DStr nm, MSRecord fields depth)
                          end).
Proof.
  intros fuel fields depth.
  destruct fuel as [|fu]; [rewrite map_next_key_zero; apply hoare_fail; reflexivity|].
  rewrite map_next_key_unfold. destruct fields as [|[nm k] rest]; apply hoare_ret; auto.
Qed.

Lemma step_any n depth : hoare (de_any Sc cfg f n depth TAny) (de_post Sc n).
Proof.
  unfold de_any. destruct n; cbn [leaf prim_event].
  - (* null *) apply hoare_ret. exists ANull. repeat split. constructor.
  - (* boolean *)
    eapply hoare_bind; [apply hoare_read_bool|]. intros e p1 (b & He & Hp) _. subst e p1.
    apply hoare_ret. exists (ABool b). repeat split. cbn [app]. constructor.
  - (* int *)
    eapply hoare_bind; [apply (hoare_read_varint VI32)|]. intros z p1 [Hz Hr] _.
    apply hoare_ret. rewrite app_nil_r. exists (AInt z). split; [exact Hr|]. split; [reflexivity|].
    apply VE_int; [reflexivity|exact Hz].
  - (* long *)
    eapply hoare_bind; [apply (hoare_read_varint VI64)|]. intros z p1 Hz _. cbn [varint_post] in Hz.
    apply hoare_ret. rewrite app_nil_r. exists (ALong z). split; [|split; [reflexivity|]].
    + cbn [conforms]. pose proof (rlong_range _ _ Hz). unfold Zin.
      apply andb_true_intro; split; apply Z.leb_le; lia.
    + apply VE_long; [reflexivity|exact Hz].
  - (* float *)
    eapply hoare_bind; [apply hoare_read_exact|]. intros bs p1 [Hb Hl] Hok1. subst p1.
    apply hoare_ret. rewrite app_nil_r. exists (AFloat (le_val bs)).
    assert (L : length bs = 4%nat) by (unfold blen in Hl; lia).
    split; [|split; [reflexivity|]].
    + cbn [conforms]. apply N.ltb_lt. pose proof (le_val_lt bs Hok1) as B. rewrite L in B. exact B.
    + pose proof (VE_float Sc (le_val bs)) as V. rewrite <- L, spec_le_le_val in V by exact Hok1. exact V.
  - (* double *)
    eapply hoare_bind; [apply hoare_read_exact|]. intros bs p1 [Hb Hl] Hok1. subst p1.
    apply hoare_ret. rewrite app_nil_r. exists (ADouble (le_val bs)).
    assert (L : length bs = 8%nat) by (unfold blen in Hl; lia).
    split; [|split; [reflexivity|]].
    + cbn [conforms]. apply N.ltb_lt. pose proof (le_val_lt bs Hok1) as B. rewrite L in B. exact B.
    + pose proof (VE_double Sc (le_val bs)) as V. rewrite <- L, spec_le_le_val in V by exact Hok1. exact V.
  - (* bytes *)
    eapply hoare_bind; [apply hoare_read_ld_bytes|]. intros e p1 (bs & bl & He & Hp & Hl) Hok1.
    apply hoare_ret. rewrite app_nil_r. subst p1. exists (ABytes bs).
    rewrite bytes_okb_app in Hok1. apply andb_prop in Hok1.
    split; [cbn [conforms]; tauto|]. split; [exact He|]. apply VE_bytes. exact Hl.
  - (* string *)
    eapply hoare_bind; [apply hoare_read_ld_str|]. intros e p1 (s & bl & He & Hp & Hl & Hu) Hok1.
    apply hoare_ret. rewrite app_nil_r. subst p1. exists (AString s).
    rewrite bytes_okb_app in Hok1. apply andb_prop in Hok1. destruct Hok1 as [_ Hs].
    split; [cbn [conforms]; rewrite Hs, Hu; reflexivity|]. split; [exact He|].
    apply VE_string; [reflexivity|exact Hl].
  - (* array *)
    eapply hoare_bind; [apply hoare_dec_depth|]. intros d' p1 [Hp1 _] _. subst p1.
    eapply hoare_weaken; [apply IHsa|]. intros d p (vs & Hc & He & Hv) _. cbn [app].
    exists (AArray vs). rewrite conforms_array_eq, dany_array_eq.
    split; [exact Hc|]. split; [exact He|]. apply VE_array. exact Hv.
  - (* map *)
    eapply hoare_bind; [apply hoare_dec_depth|]. intros d' p1 [Hp1 _] _. subst p1.
    eapply hoare_weaken; [apply IHmvm|]. intros d p (vkvs & Hc & He & Hv) _. cbn [app].
    exists (AMap vkvs). rewrite conforms_map_eq, dany_map_eq'.
    split; [exact Hc|]. split; [exact He|]. apply VE_map. exact Hv.
  - (* union *)
    eapply hoare_bind; [apply hoare_read_usize|]. intros disc p1 Hd _.
    destruct (nth_N variants disc) as [k|] eqn:En; [|apply hoare_fail; reflexivity].
    apply nth_N_inv in En. destruct En as [En _].
    eapply hoare_bind; [apply hoare_dec_depth|]. intros d' p2 [Hp2 _] _. subst p2.
    eapply hoare_bind; [apply hoare_node_at|]. intros n' p3 [Hp3 Hn'] _. subst p3.
    eapply hoare_weaken; [apply IHde|]. intros d p (v & Hc & He & Hv) _. cbn [app].
    exists (AUnion (N.to_nat disc) v). rewrite conforms_union_eq, dany_union_eq, En.
    rewrite (conf_at_some _ _ _ v Hn'), (dany_at_some _ _ _ v Hn').
    split; [exact Hc|]. split; [exact He|].
    eapply VE_union; [exact En|exact Hn'| |exact Hv]. rewrite N_nat_Z. exact Hd.
  - (* record *)
    eapply hoare_bind; [apply hoare_dec_depth|]. intros d' p1 [Hp1 _] _. subst p1.
    eapply hoare_weaken; [apply IHmvr|]. intros d p (vs & Hlen & Hc & He & Hv) _. cbn [app].
    exists (ARecord vs). rewrite conforms_record_eq, dany_record_eq.
    split; [rewrite Hc, Hlen, Nat.eqb_refl; reflexivity|]. split; [exact He|].
    apply VE_record. exact Hv.
  - (* enum *)
    eapply hoare_bind; [apply hoare_read_usize|]. intros disc p1 Hd _.
    destruct (nth_N symbols disc) as [s|] eqn:En; [|apply hoare_fail; reflexivity].
    apply nth_N_inv in En. destruct En as [En Hlt].
    apply hoare_ret. rewrite app_nil_r. exists (AEnum (N.to_nat disc)).
    split; [cbn [conforms]; apply Nat.ltb_lt; exact Hlt|]. split.
    + change (DStr s = DStr (nth (N.to_nat disc) symbols [])).
      rewrite (nth_error_nth symbols (N.to_nat disc) [] En). reflexivity.
    + apply VE_enum. rewrite N_nat_Z. exact Hd.
  - (* fixed *)
    eapply hoare_bind; [apply hoare_read_slice|]. intros r p1 [Hr Hl] Hok1.
    apply hoare_ret. rewrite app_nil_r. exists (AFixed p1).
    split; [cbn [conforms]; rewrite Hok1; apply N.eqb_eq; exact Hl|]. split.
    + unfold bytes_event. rewrite Hr. destruct (snd r); reflexivity.
    + apply VE_fixed.
  - (* decimal *)
    eapply hoare_bind; [apply (hoare_read_decimal Sc); exact I|]. intros e p1 Hp _.
    apply hoare_ret. rewrite app_nil_r. exact Hp.
  - (* big decimal *)
    eapply hoare_bind; [apply (hoare_read_decimal Sc); exact I|]. intros e p1 Hp _.
    apply hoare_ret. rewrite app_nil_r. exact Hp.
  - (* uuid *)
    eapply hoare_bind; [apply hoare_read_ld_str|]. intros e p1 (s & bl & He & Hp & Hl & Hu) Hok1.
    apply hoare_ret. rewrite app_nil_r. subst p1. exists (AString s).
    rewrite bytes_okb_app in Hok1. apply andb_prop in Hok1. destruct Hok1 as [_ Hs].
    split; [cbn [conforms]; rewrite Hs, Hu; reflexivity|]. split; [exact He|].
    apply VE_string; [reflexivity|exact Hl].
  - (* date *)
    eapply hoare_bind; [apply (hoare_read_varint VI32)|]. intros z p1 [Hz Hr] _.
    apply hoare_ret. rewrite app_nil_r. exists (AInt z). split; [exact Hr|]. split; [reflexivity|].
    apply VE_int; [reflexivity|exact Hz].
  - (* time-millis *)
    eapply hoare_bind; [apply (hoare_read_varint VI32)|]. intros z p1 [Hz Hr] _.
    apply hoare_ret. rewrite app_nil_r. exists (AInt z). split; [exact Hr|]. split; [reflexivity|].
    apply VE_int; [reflexivity|exact Hz].
  - (* time-micros *)
    eapply hoare_bind; [apply (hoare_read_varint VI64)|]. intros z p1 Hz _. cbn [varint_post] in Hz.
    apply hoare_ret. rewrite app_nil_r. exists (ALong z). split; [|split; [reflexivity|]].
    + cbn [conforms]. pose proof (rlong_range _ _ Hz). unfold Zin.
      apply andb_true_intro; split; apply Z.leb_le; lia.
    + apply VE_long; [reflexivity|exact Hz].
  - (* timestamp-millis *)
    eapply hoare_bind; [apply (hoare_read_varint VI64)|]. intros z p1 Hz _. cbn [varint_post] in Hz.
    apply hoare_ret. rewrite app_nil_r. exists (ALong z). split; [|split; [reflexivity|]].
    + cbn [conforms]. pose proof (rlong_range _ _ Hz). unfold Zin.
      apply andb_true_intro; split; apply Z.leb_le; lia.
    + apply VE_long; [reflexivity|exact Hz].
  - (* timestamp-micros *)
    eapply hoare_bind; [apply (hoare_read_varint VI64)|]. intros z p1 Hz _. cbn [varint_post] in Hz.
    apply hoare_ret. rewrite app_nil_r. exists (ALong z). split; [|split; [reflexivity|]].
    + cbn [conforms]. pose proof (rlong_range _ _ Hz). unfold Zin.
      apply andb_true_intro; split; apply Z.leb_le; lia.
    + apply VE_long; [reflexivity|exact Hz].
  - (* duration *)
    eapply hoare_bind; [apply hoare_read_exact|]. intros bs p1 [Hb Hl] Hok1. subst p1.
    destruct f as [|f1]; [rewrite map_visit_zero; apply hoare_fail; reflexivity|].
    rewrite map_visit_unfold. cbn [map_policy].
    eapply hoare_bind; [apply map_loop_duration|]. intros kvs p2 [Hp2 Hk] _. subst p2 kvs.
    apply hoare_ret. rewrite !app_nil_r. cbn [rev app dur_kvs dur_name].
    assert (L : length bs = 12%nat) by (unfold blen in Hl; lia).
    set (b1 := firstn 4 bs). set (b2 := firstn 4 (skipn 4 bs)). set (b3 := skipn 8 bs).
    assert (Hsplit : bs = b1 ++ b2 ++ b3).
    { unfold b1, b2, b3. rewrite <- (firstn_skipn 4 bs) at 1. f_equal.
      rewrite <- (firstn_skipn 4 (skipn 4 bs)) at 1. f_equal. rewrite skipn_skipn'. reflexivity. }
    assert (L1 : length b1 = 4%nat) by (unfold b1; rewrite firstn_length; lia).
    assert (L2 : length b2 = 4%nat) by (unfold b2; rewrite firstn_length, skipn_length; lia).
    assert (L3 : length b3 = 4%nat) by (unfold b3; rewrite skipn_length; lia).
    assert (O1 : bytes_okb b1 = true) by (apply bytes_okb_firstn; exact Hok1).
    assert (O2 : bytes_okb b2 = true) by (apply bytes_okb_firstn, bytes_okb_skipn; exact Hok1).
    assert (O3 : bytes_okb b3 = true) by (apply bytes_okb_skipn; exact Hok1).
    exists (ADuration (le_val b1) (le_val b2) (le_val b3)). split; [|split; [reflexivity|]].
    + cbn [conforms]. pose proof (le_val_4 _ O1 L1). pose proof (le_val_4 _ O2 L2).
      pose proof (le_val_4 _ O3 L3). apply andb_true_intro; split; [apply andb_true_intro; split|];
        apply N.ltb_lt; assumption.
    + pose proof (VE_duration Sc (le_val b1) (le_val b2) (le_val b3)) as V.
      rewrite <- L1 in V at 1. rewrite <- L2 in V at 1. rewrite <- L3 in V at 1.
      rewrite !spec_le_le_val in V by assumption. rewrite <- Hsplit in V. exact V.
Qed.

Lemma step_de n depth favor force :
  hoare (de Sc cfg (S f) n depth favor force TAny) (de_post Sc n).
Proof. rewrite de_unfold. destruct force; apply step_any. Qed.

Lemma step_sa items depth b :
  hoare (seq_array Sc cfg (S f) items depth false TAny b false)
        (fun d pre => exists vs, forallb (conf_at Sc items) vs = true /\
                                 erase_borrow d = DSeq (map (dany_at Sc items) vs) /\
                                 vseq Sc items (b_cur b) vs pre).
Proof.
  rewrite seq_array_unfold. cbn [seq_policy].
  eapply hoare_bind; [apply IHsl|].
  intros [ds b'] p1 (vs & ds' & Hds & He & Hc & Hv) _. cbn [fst rev app] in Hds. subst ds.
  cbn [andb]. apply hoare_ret. rewrite app_nil_r. exists vs.
  split; [exact Hc|]. split; [|exact Hv]. cbn [shape_seq erase_borrow]. rewrite He. reflexivity.
Qed.

Lemma step_sl items depth b acc :
  hoare (seq_array_loop Sc cfg (S f) items depth false (PRepeat TAny) b acc) (sl_post items b acc).
Proof.
  rewrite seq_array_loop_unfold.
  eapply hoare_bind; [apply hoare_has_more|].
  intros [more b'] p1 Hhm _. cbn [fst snd] in Hhm |- *. destruct more.
  - eapply hoare_bind; [apply hoare_node_at|]. intros n' p2 [Hp2 Hn'] _. subst p2.
    eapply hoare_bind; [apply IHde|]. intros d p3 (v & Hcv & Hev & Hvv) _.
    eapply hoare_weaken; [apply IHsl|].
    intros r p4 (vs & ds & Hr & He & Hc & Hv) _. cbn [app].
    exists (v :: vs), (d :: ds). split; [|split; [|split]].
    + rewrite Hr. cbn [rev]. rewrite <- app_assoc. reflexivity.
    + cbn [map]. rewrite He, (dany_at_some _ _ _ v Hn'), Hev. reflexivity.
    + cbn [forallb]. rewrite Hc, (conf_at_some _ _ _ v Hn'), Hcv. reflexivity.
    + eapply vseq_hdr_step; [exact Hhm|]. eapply VS_item; eauto.
  - apply hoare_ret. rewrite app_nil_r. destruct Hhm as [Hb0 Hend].
    exists [], []. cbn [fst]. rewrite app_nil_r. repeat split. rewrite Hb0. apply VS_end. exact Hend.
Qed.

Lemma step_mvm values depth b :
  hoare (map_visit Sc cfg (S f) (MSMap values depth false b) TAny)
        (fun d pre => exists vkvs, forallb (mkv_ok values) vkvs = true /\
                                   erase_borrow d = DMap (map (dkv Sc values) vkvs) /\
                                   vmseq Sc values (b_cur b) vkvs pre).
Proof.
  rewrite map_visit_unfold. cbn [map_policy].
  eapply hoare_bind; [apply IHmlm|].
  intros kvs p1 (vkvs & ds & Hk & He & Hc & Hv) _. cbn [rev app] in Hk. subst kvs.
  apply hoare_ret. rewrite app_nil_r. exists vkvs.
  split; [exact Hc|]. split; [|exact Hv]. cbn [erase_borrow]. fold eb_kv. rewrite He. reflexivity.
Qed.

Lemma step_mvr fields depth :
  hoare (map_visit Sc cfg (S f) (MSRecord fields depth) TAny)
        (fun d pre => exists vs, length fields = length vs /\ conf_fields Sc fields vs = true /\
                                 erase_borrow d = DMap (dany_fields Sc fields vs) /\
                                 vfields Sc fields vs pre).
Proof.
  rewrite map_visit_unfold. cbn [map_policy].
  eapply hoare_bind; [apply IHmlr|].
  intros kvs p1 (vs & ds & Hk & He & Hlen & Hc & Hv) _. cbn [rev app] in Hk. subst kvs.
  apply hoare_ret. rewrite app_nil_r. exists vs.
  split; [exact Hlen|]. split; [exact Hc|]. split; [|exact Hv].
  cbn [erase_borrow]. fold eb_kv. rewrite He. reflexivity.
Qed.

Lemma step_nvm values depth ign b :
  hoare (map_next_value Sc cfg (S f) (MSMap values depth ign b) TAny)
        (fun r pre => snd r = MSMap values depth ign b /\ item_post Sc values (fst r) pre).
Proof.
  rewrite map_next_value_unfold.
  eapply hoare_bind; [apply hoare_node_at|]. intros n' p2 [Hp2 Hn'] _. subst p2.
  eapply hoare_bind; [apply IHde|]. intros d p3 Hd _.
  apply hoare_ret. cbn [fst snd app]. rewrite app_nil_r. split; [reflexivity|].
  exists n'. auto.
Qed.

Lemma step_nvr nm k rest depth :
  hoare (map_next_value Sc cfg (S f) (MSRecord ((nm, k) :: rest) depth) TAny)
        (fun r pre => snd r = MSRecord rest depth /\ item_post Sc k (fst r) pre).
Proof.
  rewrite map_next_value_unfold.
  eapply hoare_bind; [apply hoare_node_at|]. intros n' p2 [Hp2 Hn'] _. subst p2.
  eapply hoare_bind; [apply IHde|]. intros d p3 Hd _.
  apply hoare_ret. cbn [fst snd app]. rewrite app_nil_r. split; [reflexivity|].
  exists n'. auto.
Qed.

Lemma step_mlm values depth b acc :
  hoare (map_loop Sc cfg (S f) (MSMap values depth false b) TAny TAny acc) (mlm_post values b acc).
Proof.
  rewrite map_loop_unfold.
  eapply hoare_bind; [apply nk_map|].
  intros [[k src]|] p1 Hnk Hok1.
  - destruct Hnk as (b' & s & ph & bl & Hsrc & Hek & Hu & Hp1 & Hl & Hstep). subst src.
    eapply hoare_bind; [apply IHnvm|].
    intros [d src2] p2 [Hs2 (n' & Hn' & v & Hcv & Hev & Hvv)] _. cbn [fst snd] in *. subst src2.
    eapply hoare_weaken; [apply IHmlm|].
    intros kvs p3 (vkvs & ds & Hk & He & Hc & Hv) _.
    exists ((s, v) :: vkvs), ((k, d) :: ds). split; [|split; [|split]].
    + rewrite Hk. cbn [rev]. rewrite <- app_assoc. reflexivity.
    + cbn [map]. rewrite He. f_equal. unfold eb_kv, dkv. cbn [fst snd].
      rewrite (dany_at_some _ _ _ v Hn'), Hek, Hev. reflexivity.
    + cbn [forallb]. rewrite Hc. unfold mkv_ok at 1. cbn [fst snd].
      rewrite (conf_at_some _ _ _ v Hn'), Hcv, Hu.
      subst p1. rewrite !bytes_okb_app in Hok1.
      apply andb_prop in Hok1. destruct Hok1 as [_ Hok1]. apply andb_prop in Hok1.
      destruct Hok1 as [_ Hs]. rewrite Hs. reflexivity.
    + subst p1. rewrite <- !app_assoc. eapply vmseq_hdr_step; [exact Hstep|].
      eapply VM_item; eauto.
  - apply hoare_ret. rewrite app_nil_r. destruct Hnk as [Hb0 Hend].
    exists [], []. rewrite app_nil_r. repeat split. rewrite Hb0. apply VM_end. exact Hend.
Qed.

Lemma step_mlr fields depth acc :
  hoare (map_loop Sc cfg (S f) (MSRecord fields depth) TAny TAny acc) (mlr_post fields acc).
Proof.
  rewrite map_loop_unfold.
  eapply hoare_bind; [apply nk_record|]. intros nk p1 [Hp1 Hnk] _. subst p1 nk.
  destruct fields as [|[nm k] rest].
  - apply hoare_ret. exists [], []. rewrite app_nil_r. repeat split. constructor.
  - eapply hoare_bind; [apply IHnvr|].
    intros [d src2] p2 [Hs2 (n' & Hn' & v & Hcv & Hev & Hvv)] _. cbn [fst snd] in *. subst src2.
    eapply hoare_weaken; [apply IHmlr|].
    intros kvs p3 (vs & ds & Hk & He & Hlen & Hc & Hv) _.
    exists (v :: vs), ((DStr nm, d) :: ds). split; [|split; [|split; [|split]]].
    + rewrite Hk. cbn [rev]. rewrite <- app_assoc. reflexivity.
    + cbn [map dany_fields]. rewrite He. f_equal. unfold eb_kv. cbn [fst snd erase_borrow].
      rewrite (dany_at_some _ _ _ v Hn'), Hev. reflexivity.
    + cbn [length]. rewrite Hlen. reflexivity.
    + cbn [conf_fields]. rewrite Hc, (conf_at_some _ _ _ v Hn'), Hcv. reflexivity.
    + cbn [app]. eapply VF_cons; eauto.
Qed.

End Step.

(* ------------------------------------------------------------------ *)
(** * 5. The mutual induction on fuel *)

Section Main.
Variable Sc : fschema.
Variable cfg : dcfg.

Definition all_sound (f : nat) : Prop :=
  (forall n depth favor force, hoare (de Sc cfg f n depth favor force TAny) (de_post Sc n)) /\
  (forall items depth b,
     hoare (seq_array Sc cfg f items depth false TAny b false)
           (fun d pre => exists vs, forallb (conf_at Sc items) vs = true /\
                                    erase_borrow d = DSeq (map (dany_at Sc items) vs) /\
                                    vseq Sc items (b_cur b) vs pre)) /\
  (forall items depth b acc,
     hoare (seq_array_loop Sc cfg f items depth false (PRepeat TAny) b acc) (sl_post Sc items b acc)) /\
  (forall values depth b,
     hoare (map_visit Sc cfg f (MSMap values depth false b) TAny)
           (fun d pre => exists vkvs, forallb (mkv_ok Sc values) vkvs = true /\
                                      erase_borrow d = DMap (map (dkv Sc values) vkvs) /\
                                      vmseq Sc values (b_cur b) vkvs pre)) /\
  (forall fields depth,
     hoare (map_visit Sc cfg f (MSRecord fields depth) TAny)
           (fun d pre => exists vs, length fields = length vs /\ conf_fields Sc fields vs = true /\
                                    erase_borrow d = DMap (dany_fields Sc fields vs) /\
                                    vfields Sc fields vs pre)) /\
  (forall values depth ign b,
     hoare (map_next_value Sc cfg f (MSMap values depth ign b) TAny)
           (fun r pre => snd r = MSMap values depth ign b /\ item_post Sc values (fst r) pre)) /\
  (forall nm k rest depth,
     hoare (map_next_value Sc cfg f (MSRecord ((nm, k) :: rest) depth) TAny)
           (fun r pre => snd r = MSRecord rest depth /\ item_post Sc k (fst r) pre)) /\
  (forall values depth b acc,
     hoare (map_loop Sc cfg f (MSMap values depth false b) TAny TAny acc) (mlm_post Sc values b acc)) /\
  (forall fields depth acc,
     hoare (map_loop Sc cfg f (MSRecord fields depth) TAny TAny acc) (mlr_post Sc fields acc)).

Lemma all_sound_holds : forall f, all_sound f.
Proof.
  induction f as [|f IH].
  - unfold all_sound. repeat match goal with |- _ /\ _ => split end; intros.
    + rewrite de_zero. apply hoare_fail; reflexivity.
    + rewrite seq_array_zero. apply hoare_fail; reflexivity.
    + rewrite seq_array_loop_zero. apply hoare_fail; reflexivity.
    + rewrite map_visit_zero. apply hoare_fail; reflexivity.
    + rewrite map_visit_zero. apply hoare_fail; reflexivity.
    + rewrite map_next_value_zero. apply hoare_fail; reflexivity.
    + rewrite map_next_value_zero. apply hoare_fail; reflexivity.
    + rewrite map_loop_zero. apply hoare_fail; reflexivity.
    + rewrite map_loop_zero. apply hoare_fail; reflexivity.
  - destruct IH as (H1 & H2 & H3 & H4 & H5 & H6 & H7 & H8 & H9).
    unfold all_sound. repeat match goal with |- _ /\ _ => split end; intros.
    + apply step_de; assumption.
    + apply step_sa; assumption.
    + apply step_sl; assumption.
    + apply step_mvm; assumption.
    + apply step_mvr; assumption.
    + apply step_nvm; assumption.
    + apply step_nvr; assumption.
    + apply step_mlm; assumption.
    + apply step_mlr; assumption.
Qed.

End Main.

(* ------------------------------------------------------------------ *)
(** * 6. Soundness theorems *)

(** Full form: the value, its conformance, and the consumed prefix is a relaxed encoding of it.
    No hypothesis on the schema; any reader mode (slice or chunked); any fuel, depth, favor/force. *)
Theorem de_any_sound_bytes : forall Sc cfg fuel n depth favor force rs d rs',
  bytes_okb (rd_inp rs) = true ->
  de Sc cfg fuel n depth favor force TAny rs = (Ok d, rs') ->
  exists v pre,
    rd_inp rs = pre ++ rd_inp rs' /\
    conforms Sc n v = true /\
    erase_borrow d = dval_any Sc n v /\
    valid_enc_relaxed Sc n v pre.
Proof.
  intros Sc cfg fuel n depth favor force rs d rs' Hok H.
  destruct (all_sound_holds Sc cfg fuel) as (Hde & _).
  destruct (Hde n depth favor force rs d rs' Hok H) as (pre & E & v & Hc & He & Hv).
  exists v, pre. auto.
Qed.

(** The statement of the task. [schema_wf] / [node_wf] are NOT needed: an Ok result already implies
    that every key the decoder followed was in range. The only hypothesis is that the input is made
    of bytes (the model's byte type is N). *)
Theorem de_any_sound : forall Sc cfg fuel n depth rs d rs',
  bytes_okb (rd_inp rs) = true ->
  de Sc cfg fuel n depth false false TAny rs = (Ok d, rs') ->
  exists v, conforms Sc n v = true /\ erase_borrow d = dval_any Sc n v.
Proof.
  intros Sc cfg fuel n depth rs d rs' Hok H.
  destruct (de_any_sound_bytes _ _ _ _ _ _ _ _ _ _ Hok H) as (v & pre & _ & Hc & He & _).
  exists v. auto.
Qed.

Corollary de_any_sound_wf : forall Sc cfg fuel n depth rs d rs',
  schema_wf Sc = true -> node_wf Sc n = true -> bytes_okb (rd_inp rs) = true ->
  de Sc cfg fuel n depth false false TAny rs = (Ok d, rs') ->
  exists v, conforms Sc n v = true /\ erase_borrow d = dval_any Sc n v.
Proof. intros Sc cfg fuel n depth rs d rs' _ _. apply de_any_sound. Qed.

Corollary de_datum_any_sound : forall fuel Sc cfg rs d left,
  bytes_okb (rd_inp rs) = true ->
  de_datum fuel Sc cfg TAny rs = Ok (d, left) ->
  exists root v pre,
    fnode_at Sc 0 = Some root /\ conforms Sc root v = true /\
    erase_borrow d = dval_any Sc root v /\ valid_enc_relaxed Sc root v pre /\
    N.of_nat (length (rd_inp rs)) = N.of_nat (length pre) + left /\
    firstn (length pre) (rd_inp rs) = pre.
Proof.
  intros fuel Sc cfg rs d left Hok H. unfold de_datum in H.
  destruct (fnode_at Sc 0) as [root|]; [|discriminate].
  destruct (de Sc cfg fuel root (c_depth cfg) false false TAny rs) as [x st] eqn:E.
  destruct x; try discriminate. inversion H; subst.
  destruct (de_any_sound_bytes _ _ _ _ _ _ _ _ _ _ Hok E) as (v & pre & Hp & Hc & He & Hv).
  exists root, v, pre. repeat split; auto.
  - rewrite Hp, app_length. unfold blen. lia.
  - rewrite Hp. apply firstn_app_len.
Qed.
