(** A GRAPH-LEVEL bound for the nesting depth of the document [to_json] emits (C09, text layer).

    JsonReadSchema.C09_regen_text has the hypothesis [doc_depth_ok fuel g] -- a condition on the writer's OUTPUT.
    Here: a condition on the graph alone.  *)
From Coq Require Import NArith ZArith List Lia Bool Arith String.
From Coq Require Import ZifyN ZifyBool ZifyNat.
Require Import Base Utf8 Text Json JsonRead Schema Parse SchemaJson CanonicalForm Rabin.
Require Import PcfSpec SchemaTextProofs SchemaJsonDefs SchemaJsonGuard SchemaJsonProofs JsonReadProofs JsonReadSchema.
Import ListNotations.
Open Scope nat_scope.
Notation length := List.length (only parsing).

Arguments N.add : simpl never.
Arguments N.sub : simpl never.
Arguments N.mul : simpl never.
Arguments N.div : simpl never.
Arguments N.modulo : simpl never.
Arguments N.ltb : simpl never.
Arguments N.leb : simpl never.
Arguments N.eqb : simpl never.

(* ------------------------------------------------------------------ *)
(** * Sums over the keys of a graph *)

Fixpoint sumf (f : nat -> nat) (n : nat) : nat :=
  match n with O => O | S m => sumf f m + f m end.

Lemma sumf_le : forall f f' n, (forall k, k < n -> f k <= f' k) -> sumf f n <= sumf f' n.
Proof.
  intros f f'. induction n as [|n IH]; intros H; cbn [sumf]; [lia|].
  pose proof (H n ltac:(lia)). assert (sumf f n <= sumf f' n) by (apply IH; intros k Hk; apply H; lia). lia.
Qed.

Lemma sumf_lt : forall f f' d k0 n, k0 < n -> (forall k, k < n -> k <> k0 -> f k <= f' k) -> f k0 + d <= f' k0 ->
  sumf f n + d <= sumf f' n.
Proof.
  intros f f' d k0. induction n as [|n IH]; intros Hk H Hd; [lia|]. cbn [sumf].
  destruct (Nat.eq_dec k0 n) as [->|Hne].
  - assert (sumf f n <= sumf f' n) by (apply sumf_le; intros k Hk'; apply H; lia). lia.
  - assert (sumf f n + d <= sumf f' n) by (apply IH; [lia| |exact Hd]; intros k Hk' Hk0; apply H; lia).
    pose proof (H n ltac:(lia) ltac:(lia)). lia.
Qed.

Lemma sumf_split : forall (b : nat -> bool) x y n,
  sumf (fun k => if b k then x else y) n + y * sumf (fun k => if b k then 1 else 0) n
  = x * sumf (fun k => if b k then 1 else 0) n + y * n.
Proof.
  intros b x y. induction n as [|n IH]; cbn [sumf]; [lia|]. destruct (b n); nia.
Qed.

Lemma sumf_count_le : forall (b : nat -> bool) n, sumf (fun k => if b k then 1 else 0) n <= n.
Proof. intros b. induction n as [|n IH]; cbn [sumf]; [lia|]. destruct (b n); lia. Qed.

(* ------------------------------------------------------------------ *)
(** * The measure *)

Definition named (g : schema_mut) (k : nat) : bool :=
  match nth_error g k with Some n => is_named_node n | None => false end.

(* the number of record / enum / fixed nodes *)
Definition named_count (g : schema_mut) : nat := sumf (fun k => if named g k then 1 else 0) (length g).

(* n_written_names never exceeds this *)
Definition NN (g : schema_mut) : nat := S (named_count g).

Definition W (st : jstate) : nat := N.to_nat (j_written st).
Definition cell (st : jstate) (k : nat) : nat := N.to_nat (nth k (j_cells st) 0%N).

(* named nodes not yet written in full *)
Definition nfree (g : schema_mut) (st : jstate) : nat :=
  sumf (fun k => if named g k && (cell st k =? 0) then 1 else 0) (length g).

(* the budget: 3 levels for every named node still to be written (object, "fields" array, field object);
   for every other key [k], one level for every value of n_written_names above [lo k] -- the value at which the
   innermost frame of [k] on the stack was entered *)
Definition phi (g : schema_mut) (lo : nat -> nat) (st : jstate) (k : nat) : nat :=
  if named g k then (if cell st k =? 0 then 3 else 0) else NN g - lo k.
Definition Psi (g : schema_mut) (lo : nat -> nat) (st : jstate) : nat := sumf (phi g lo st) (length g).

Record Inv (g : schema_mut) (st : jstate) (lo : nat -> nat) : Prop := {
  inv_len : length (j_cells st) = length g;
  inv_pos : 1 <= W st;
  inv_cnt : W st + nfree g st <= NN g;
  inv_lo : forall k, lo k <= cell st k \/ lo k < W st
}.

Record Post (g : schema_mut) (st : jstate) (lo : nat -> nat) (st' : jstate) : Prop := {
  post_inv : Inv g st' lo;
  post_w : W st <= W st';
  post_named : forall k, named g k = true -> cell st k <> 0 -> cell st' k <> 0
}.

Lemma Post_trans : forall g a b c lo, Post g a lo b -> Post g b lo c -> Post g a lo c.
Proof.
  intros g a b c lo [I1 W1 N1] [I2 W2 N2]. split; [exact I2|lia|].
  intros k Hk Hc. apply N2; [exact Hk|]. apply N1; assumption.
Qed.

Lemma Post_refl : forall g a lo, Inv g a lo -> Post g a lo a.
Proof. intros g a lo I. split; [exact I|lia|auto]. Qed.

Lemma Psi_mono : forall g lo a b, Post g a lo b -> Psi g lo b <= Psi g lo a.
Proof.
  intros g lo a b [_ _ Hn]. unfold Psi. apply sumf_le. intros k _. unfold phi.
  destruct (named g k) eqn:En; [|lia].
  destruct (cell a k =? 0) eqn:Ea; [destruct (cell b k =? 0); lia|].
  apply Nat.eqb_neq in Ea. pose proof (Hn k En Ea) as Hb. apply Nat.eqb_neq in Hb. rewrite Hb. lia.
Qed.

(* ------------------------------------------------------------------ *)
(** * Depth of the pieces *)

Definition adepth (l : list json) : nat := fold_right (fun x m => Nat.max (json_depth x) m) O l.
Definition odepth (kvs : list (bytes * json)) : nat := fold_right (fun kv m => Nat.max (json_depth (snd kv)) m) O kvs.

Lemma depth_arr : forall l, json_depth (JArr l) = S (adepth l).
Proof. reflexivity. Qed.
Lemma depth_obj : forall kvs, json_depth (JObj kvs) = S (odepth kvs).
Proof. reflexivity. Qed.
Lemma odepth_app : forall a b, odepth (a ++ b) = Nat.max (odepth a) (odepth b).
Proof. induction a as [|x a IH]; intro b; cbn [app odepth fold_right]; [reflexivity|]. fold (odepth (a ++ b)). fold (odepth a). rewrite IH. lia. Qed.
Lemma odepth_tal : forall ty lt, odepth (type_and_logical ty lt) = 0.
Proof. intros ty [l|]; [|reflexivity]. destruct l; reflexivity. Qed.
Lemma odepth_names : forall parent nm, odepth (name_entries parent nm) = 0.
Proof. intros parent nm. unfold name_entries. destruct (opt_eqb _ _); [reflexivity|]. destruct (name_namespace nm); reflexivity. Qed.
Lemma adepth_strs : forall l, adepth (map JStr l) = 0.
Proof. induction l as [|s l IH]; [reflexivity|]. cbn [map adepth fold_right]. fold (adepth (map JStr l)). rewrite IH. reflexivity. Qed.
Lemma depth_prim : forall ty lt, json_depth (prim_json ty lt) <= 1.
Proof. intros ty [l|]; [|cbn; lia]. unfold prim_json. rewrite depth_obj, odepth_tal. lia. Qed.

(* ------------------------------------------------------------------ *)
(** * The traversal *)

Definition tspec (g : schema_mut) (F : nat -> jstate -> result (json * jstate)) : Prop :=
  forall key st lo j st', Inv g st lo -> F key st = Ok (j, st') ->
    Post g st lo st' /\ json_depth j <= Psi g lo st + 1.

Lemma rbind_ok' {A B} (r : result A) (k : A -> result B) b :
  rbind r k = Ok b -> exists a, r = Ok a /\ k a = Ok b.
Proof. destruct r; cbn [rbind]; intro H; try discriminate. eauto. Qed.

Lemma t_variants g (F : nat -> jstate -> result (json * jstate)) : tspec g F ->
  forall ks st lo js st', Inv g st lo -> jgo_variants F ks st = Ok (js, st') ->
    Post g st lo st' /\ adepth js <= Psi g lo st + 1.
Proof.
  intros HF. induction ks as [|k t IH]; intros st lo js st' I H; cbn [jgo_variants] in H.
  - inversion H; subst. split; [apply Post_refl; exact I|cbn; lia].
  - apply rbind_ok' in H. destruct H as ([j1 s1] & H1 & H). apply rbind_ok' in H. destruct H as ([j2 s2] & H2 & H).
    cbn [fst snd] in *. inversion H; subst. clear H.
    destruct (HF k st lo j1 s1 I H1) as [P1 D1].
    destruct (IH s1 lo j2 st' (post_inv _ _ _ _ P1) H2) as [P2 D2].
    split; [eapply Post_trans; eassumption|]. pose proof (Psi_mono g lo st s1 P1).
    cbn [adepth fold_right]. fold (adepth j2). lia.
Qed.

Lemma t_fields g (F : nat -> jstate -> result (json * jstate)) : tspec g F ->
  forall fs st lo js st', Inv g st lo -> jgo_fields F fs st = Ok (js, st') ->
    Post g st lo st' /\ adepth js <= Psi g lo st + 2.
Proof.
  intros HF. induction fs as [|[fname k] t IH]; intros st lo js st' I H; cbn [jgo_fields] in H.
  - inversion H; subst. split; [apply Post_refl; exact I|cbn; lia].
  - apply rbind_ok' in H. destruct H as ([j1 s1] & H1 & H). apply rbind_ok' in H. destruct H as ([j2 s2] & H2 & H).
    cbn [fst snd] in *. inversion H; subst. clear H.
    destruct (HF k st lo j1 s1 I H1) as [P1 D1].
    destruct (IH s1 lo j2 st' (post_inv _ _ _ _ P1) H2) as [P2 D2].
    split; [eapply Post_trans; eassumption|]. pose proof (Psi_mono g lo st s1 P1).
    cbn [adepth fold_right]. fold (adepth j2). rewrite depth_obj. cbn [odepth fold_right snd json_depth]. lia.
Qed.

Lemma cell_set_eq : forall st key v w, key < length (j_cells st) ->
  cell (mkJ (set_cell (j_cells st) key v) w) key = N.to_nat v.
Proof. intros st key v w H. unfold cell. cbn [j_cells]. rewrite nth_set_cell_eq by exact H. reflexivity. Qed.
Lemma cell_set_neq : forall st key v w k, k <> key ->
  cell (mkJ (set_cell (j_cells st) key v) w) k = cell st k.
Proof. intros st key v w k H. unfold cell. cbn [j_cells]. rewrite nth_set_cell_neq by exact H. reflexivity. Qed.

(* array / map / union: the guard *)
Lemma t_guard : forall g key node st lo body j st',
  nth_error g key = Some node -> is_named_node node = false ->
  (forall lo' s j s', Inv g s lo' -> body s = Ok (j, s') -> Post g s lo' s' /\ json_depth j <= Psi g lo' s + 2) ->
  Inv g st lo -> jguard key st body = Ok (j, st') ->
  Post g st lo st' /\ json_depth j <= Psi g lo st + 1.
Proof.
  intros g key node st lo body j st' En Hun Hbody I H. unfold jguard in H.
  destruct (j_written st <=? nth key (j_cells st) 0)%N eqn:Eg; [discriminate|]. apply N.leb_gt in Eg.
  apply rbind_ok' in H. destruct H as ([j1 s1] & H1 & H). cbn [fst snd] in H. inversion H; subst j1 st'. clear H.
  destruct I as [Il Ip Ic Ilo].
  assert (Hkey : key < length (j_cells st)). { rewrite Il. apply nth_error_Some. rewrite En. discriminate. }
  assert (Hnk : named g key = false). { unfold named. rewrite En. exact Hun. }
  assert (Hcw : cell st key < W st). { unfold cell, W. lia. }
  set (st1 := mkJ (set_cell (j_cells st) key (j_written st)) (j_written st)) in *.
  set (lo' := fun k => if k =? key then W st else lo k).
  assert (Hlok : lo key < W st). { destruct (Ilo key); lia. }
  assert (I1 : Inv g st1 lo').
  { split.
    - unfold st1. cbn [j_cells]. rewrite set_cell_length. exact Il.
    - exact Ip.
    - change (W st1) with (W st). replace (nfree g st1) with (nfree g st); [exact Ic|].
      unfold nfree. apply Nat.le_antisymm; apply sumf_le; intros k _;
        (destruct (Nat.eq_dec k key) as [->|Hne]; [rewrite Hnk; cbn [andb]; lia|unfold st1; rewrite cell_set_neq by exact Hne; lia]).
    - intros k. unfold lo'. destruct (Nat.eqb_spec k key) as [->|Hne].
      + left. unfold st1. rewrite cell_set_eq by exact Hkey. unfold W. lia.
      + unfold st1. rewrite cell_set_neq by exact Hne. exact (Ilo k). }
  destruct (Hbody lo' st1 j s1 I1 H1) as [[[Il2 Ip2 Ic2 Ilo2] Pw Pn] D].
  change (W st1) with (W st) in Pw.
  assert (HPsi : Psi g lo' st1 + 1 <= Psi g lo st).
  { unfold Psi. apply (sumf_lt _ _ 1 key).
    - rewrite <- Il. exact Hkey.
    - intros k _ Hne. unfold phi, lo'. apply Nat.eqb_neq in Hne. rewrite Hne. apply Nat.eqb_neq in Hne.
      unfold st1. rewrite cell_set_neq by exact Hne. lia.
    - unfold phi, lo'. rewrite Hnk, Nat.eqb_refl. lia. }
  split; [|lia]. split; [split| |].
  - cbn [j_cells]. rewrite set_cell_length. exact Il2.
  - unfold W in *. cbn [j_written]. exact Ip2.
  - replace (nfree g {| j_cells := set_cell (j_cells s1) key 0; j_written := j_written s1 |}) with (nfree g s1);
      [unfold W in *; cbn [j_written]; exact Ic2|].
    unfold nfree. apply Nat.le_antisymm; apply sumf_le; intros k _;
      (destruct (Nat.eq_dec k key) as [->|Hne]; [rewrite Hnk; cbn [andb]; lia|rewrite cell_set_neq by exact Hne; lia]).
  - intros k. destruct (Nat.eq_dec k key) as [->|Hne].
    + right. unfold W in *. cbn [j_written]. lia.
    + rewrite cell_set_neq by exact Hne. specialize (Ilo2 k). unfold lo' in Ilo2.
      apply Nat.eqb_neq in Hne. rewrite Hne in Ilo2. unfold W in *. cbn [j_written]. exact Ilo2.
  - unfold W in *. cbn [j_written]. exact Pw.
  - intros k Hk Hc. destruct (Nat.eq_dec k key) as [->|Hne]; [congruence|].
    rewrite cell_set_neq by exact Hne. apply Pn; [exact Hk|]. unfold st1. rewrite cell_set_neq by exact Hne. exact Hc.
Qed.

(* record / enum / fixed: by reference, or in full *)
Lemma t_named : forall g key node parent st lo nm body j st',
  nth_error g key = Some node -> is_named_node node = true ->
  (forall s j s', Inv g s lo -> body s = Ok (j, s') -> Post g s lo s' /\ json_depth j <= Psi g lo s + 4) ->
  Inv g st lo -> jnamed key parent st nm body = Ok (j, st') ->
  Post g st lo st' /\ json_depth j <= Psi g lo st + 1.
Proof.
  intros g key node parent st lo nm body j st' En Hnm Hbody I H. unfold jnamed in H.
  destruct (0 <? nth key (j_cells st) 0)%N eqn:Ez.
  { inversion H; subst. split; [apply Post_refl; exact I|cbn; lia]. }
  apply N.ltb_ge in Ez.
  pose proof I as [Il Ip Ic Ilo].
  assert (Hkey : key < length (j_cells st)). { rewrite Il. apply nth_error_Some. rewrite En. discriminate. }
  assert (Hnk : named g key = true). { unfold named. rewrite En. exact Hnm. }
  assert (Hc0 : cell st key = 0). { unfold cell. lia. }
  set (st1 := mkJ (set_cell (j_cells st) key (j_written st)) (j_written st + 1)) in *.
  assert (Hw1 : W st1 = S (W st)). { unfold W, st1. cbn [j_written]. lia. }
  assert (Hck : cell st1 key = W st). { unfold st1. rewrite cell_set_eq by exact Hkey. reflexivity. }
  assert (I1 : Inv g st1 lo).
  { split.
    - unfold st1. cbn [j_cells]. rewrite set_cell_length. exact Il.
    - lia.
    - rewrite Hw1. assert (nfree g st1 + 1 <= nfree g st); [|lia].
      unfold nfree. apply (sumf_lt _ _ 1 key).
      + rewrite <- Il. exact Hkey.
      + intros k _ Hne. unfold st1. rewrite cell_set_neq by exact Hne. lia.
      + rewrite Hck, Hc0, Hnk. replace (W st =? 0) with false by (symmetry; apply Nat.eqb_neq; lia). cbn. lia.
    - intros k. destruct (Nat.eq_dec k key) as [->|Hne].
      + destruct (Ilo key); lia.
      + unfold st1 at 1. rewrite cell_set_neq by exact Hne. destruct (Ilo k); [left; assumption|right; lia]. }
  assert (P1 : Post g st lo st1).
  { split; [exact I1|lia|]. intros k Hk Hc. destruct (Nat.eq_dec k key) as [->|Hne]; [lia|].
    unfold st1. rewrite cell_set_neq by exact Hne. exact Hc. }
  assert (HPsi : Psi g lo st1 + 3 <= Psi g lo st).
  { unfold Psi. apply (sumf_lt _ _ 3 key).
    - rewrite <- Il. exact Hkey.
    - intros k _ Hne. unfold phi. unfold st1. rewrite cell_set_neq by exact Hne. lia.
    - unfold phi. rewrite Hnk, Hck, Hc0. replace (W st =? 0) with false by (symmetry; apply Nat.eqb_neq; lia). cbn. lia. }
  destruct (Hbody st1 j st' I1 H) as [P2 D]. split; [eapply Post_trans; eassumption|lia].
Qed.

Lemma to_json_tspec : forall fuel g parent, tspec g (fun k s => to_json fuel g k parent s).
Proof.
  induction fuel as [|f IH]; intros g parent key st lo j st' I H; [discriminate|].
  rewrite to_json_S in H. destruct (nth_error g key) as [node|] eqn:En; [|discriminate]. cbv zeta in H.
  destruct (m_type node) as [| | | | | | | |items|values|variants|nm fields|nm symbols|nm size] eqn:Et;
    try (inversion H; subst; split; [apply Post_refl; exact I|pose proof (depth_prim "null" (m_logical node));
         match goal with |- json_depth (prim_json ?t ?l) <= _ => pose proof (depth_prim t l) end; lia]).
  - eapply (t_guard g key node st lo _ j st' En); [unfold is_named_node; rewrite Et; reflexivity| |exact I|exact H].
    intros lo' s j0 s' Is Hb. apply rbind_ok' in Hb. destruct Hb as ([j1 s1] & H1 & Hb). cbn [fst snd] in Hb.
    inversion Hb; subst. destruct (IH g parent items s lo' j1 s' Is H1) as [P D]. split; [exact P|].
    rewrite depth_obj, odepth_app, odepth_tal. cbn [odepth fold_right snd]. lia.
  - eapply (t_guard g key node st lo _ j st' En); [unfold is_named_node; rewrite Et; reflexivity| |exact I|exact H].
    intros lo' s j0 s' Is Hb. apply rbind_ok' in Hb. destruct Hb as ([j1 s1] & H1 & Hb). cbn [fst snd] in Hb.
    inversion Hb; subst. destruct (IH g parent values s lo' j1 s' Is H1) as [P D]. split; [exact P|].
    rewrite depth_obj, odepth_app, odepth_tal. cbn [odepth fold_right snd]. lia.
  - destruct (m_logical node); [discriminate|].
    eapply (t_guard g key node st lo _ j st' En); [unfold is_named_node; rewrite Et; reflexivity| |exact I|exact H].
    intros lo' s j0 s' Is Hb. apply rbind_ok' in Hb. destruct Hb as ([j1 s1] & H1 & Hb). cbn [fst snd] in Hb.
    inversion Hb; subst. destruct (t_variants g _ (IH g parent) variants s lo' j1 s' Is H1) as [P D]. split; [exact P|].
    rewrite depth_arr. lia.
  - eapply (t_named g key node parent st lo nm _ j st' En); [unfold is_named_node; rewrite Et; reflexivity| |exact I|exact H].
    intros s j0 s' Is Hb. apply rbind_ok' in Hb. destruct Hb as ([j1 s1] & H1 & Hb). cbn [fst snd] in Hb.
    inversion Hb; subst. destruct (t_fields g _ (IH g (name_namespace nm)) fields s lo j1 s' Is H1) as [P D]. split; [exact P|].
    rewrite depth_obj, !odepth_app, odepth_tal, odepth_names. cbn [odepth fold_right snd]. rewrite depth_arr. lia.
  - eapply (t_named g key node parent st lo nm _ j st' En); [unfold is_named_node; rewrite Et; reflexivity| |exact I|exact H].
    intros s j0 s' Is Hb. inversion Hb; subst. split; [apply Post_refl; exact Is|].
    rewrite depth_obj, !odepth_app, odepth_tal, odepth_names. cbn [odepth fold_right snd]. rewrite depth_arr, adepth_strs. lia.
  - eapply (t_named g key node parent st lo nm _ j st' En); [unfold is_named_node; rewrite Et; reflexivity| |exact I|exact H].
    intros s j0 s' Is Hb. inversion Hb; subst. split; [apply Post_refl; exact Is|].
    rewrite depth_obj, !odepth_app, odepth_tal, odepth_names. cbn [odepth fold_right snd jnum json_depth]. lia.
Qed.

(* ------------------------------------------------------------------ *)
(** * The bound at the root *)

Lemma cell_init : forall g k, cell (j_init g) k = 0.
Proof. intros g k. unfold cell, j_init. cbn [j_cells]. rewrite nth_repeat_0. reflexivity. Qed.

Lemma Inv_init : forall g, Inv g (j_init g) (fun _ => 0).
Proof.
  intro g. split.
  - unfold j_init. cbn [j_cells]. apply repeat_length.
  - unfold W, j_init. cbn [j_written]. lia.
  - unfold W, j_init at 1. cbn [j_written]. unfold NN, named_count.
    assert (nfree g (j_init g) <= sumf (fun k => if named g k then 1 else 0) (length g)); [|lia].
    unfold nfree. apply sumf_le. intros k _. rewrite cell_init. destruct (named g k); cbn; lia.
  - intro k. left. lia.
Qed.

(* the graph-level quantity: 3 levels per named node; one level per other node and value of n_written_names;
   one more for a primitive with a logical type at the end *)
Definition depth_bound (g : schema_mut) : nat :=
  3 * named_count g + (length g - named_count g) * S (named_count g) + 1.

Lemma Psi_init : forall g, Psi g (fun _ => 0) (j_init g) + 1 = depth_bound g.
Proof.
  intro g. unfold depth_bound, Psi.
  assert (E : forall n, sumf (phi g (fun _ => 0) (j_init g)) n = sumf (fun k => if named g k then 3 else NN g) n).
  { intro n. apply Nat.le_antisymm; apply sumf_le; intros k _; unfold phi; rewrite cell_init, Nat.sub_0_r;
      destruct (named g k); cbn; lia. }
  rewrite E. pose proof (sumf_split (named g) 3 (NN g) (length g)) as S.
  pose proof (sumf_count_le (named g) (length g)) as L. fold (named_count g) in S, L. unfold NN in *.
  nia.
Qed.

(** the document the writer emits for ANY graph, at any fuel, is at most [depth_bound g] deep *)
Theorem doc_depth_bound : forall g fuel j st',
  to_json fuel g O None (j_init g) = Ok (j, st') -> json_depth j <= depth_bound g.
Proof.
  intros g fuel j st' H.
  destruct (to_json_tspec fuel g None O (j_init g) (fun _ => 0) j st' (Inv_init g) H) as [_ D].
  rewrite <- Psi_init. lia.
Qed.

(** the graph-level sufficient condition for [doc_depth_ok] *)
Theorem doc_depth_ok_graph : forall g fuel, depth_bound g < SERDE_JSON_DEPTH -> doc_depth_ok fuel g.
Proof. intros g fuel Hb j st' H. pose proof (doc_depth_bound g fuel j st' H). lia. Qed.

(* [named_count] is the number of record / enum / fixed nodes of the list *)
Lemma named_count_filter : forall g, named_count g = length (filter is_named_node g).
Proof.
  unfold named_count. induction g as [|x g IH] using rev_ind; [reflexivity|].
  rewrite filter_app, !app_length. cbn [List.length filter]. rewrite Nat.add_1_r. cbn [sumf].
  replace (sumf (fun k => if named (g ++ [x]) k then 1 else 0) (length g))
    with (sumf (fun k => if named g k then 1 else 0) (length g)).
  - rewrite IH. unfold named. rewrite nth_error_app2 by lia. rewrite Nat.sub_diag. cbn [nth_error].
    destruct (is_named_node x); cbn [List.length]; lia.
  - apply Nat.le_antisymm; apply sumf_le; intros k Hk; unfold named; rewrite nth_error_app1 by exact Hk; lia.
Qed.

Lemma named_count_le : forall g, named_count g <= length g.
Proof. intro g. apply sumf_count_le. Qed.

(** in terms of the length alone: every graph of at most 18 nodes is fine (19 are not: below) *)
Theorem doc_depth_ok_small : forall g fuel, length g <= 18 -> doc_depth_ok fuel g.
Proof.
  intros g fuel Hl. apply doc_depth_ok_graph. unfold depth_bound, SERDE_JSON_DEPTH.
  pose proof (named_count_le g) as Hn. set (n := named_count g) in *. set (L := length g) in *.
  assert (Hc : n = 0 \/ n = 1 \/ n = 2 \/ n = 3 \/ n = 4 \/ n = 5 \/ n = 6 \/ n = 7 \/ n = 8 \/ n = 9 \/ n = 10 \/
               n = 11 \/ n = 12 \/ n = 13 \/ n = 14 \/ n = 15 \/ n = 16 \/ n = 17 \/ n = 18) by lia.
  repeat (destruct Hc as [->|Hc]; [lia|]). subst n. lia.
Qed.

(* ------------------------------------------------------------------ *)
(** * C09 on the text, with the graph-level hypothesis *)

Theorem C09_regen_text_graph : forall g fuel, wf_graph g -> graph_utf8 g -> (json_fuel g <= fuel)%nat ->
  depth_bound g < SERDE_JSON_DEPTH ->
  exists j g',
    schema_json fuel g = Ok (json_text j) /\ json_wf j = true /\
    parse_schema_text (json_text j) = Ok g' /\
    (forall w, ws_ok w -> parse_schema_text (json_text_ws w j) = Ok g') /\
    (forall fuel' t, canonical_form fuel' g = Ok t -> canonical_form fuel' g' = Ok t) /\
    (forall fuel' t, fingerprint fuel' g = Ok t -> fingerprint fuel' g' = Ok t) /\
    (forall n, unfold n g' O = unfold n g O).
Proof.
  intros g fuel Hwf Hu Hf Hb. apply C09_regen_text; try assumption. apply doc_depth_ok_graph. exact Hb.
Qed.

Corollary C09_regen_text_small : forall g fuel, wf_graph g -> graph_utf8 g -> (json_fuel g <= fuel)%nat ->
  length g <= 18 ->
  exists j g',
    schema_json fuel g = Ok (json_text j) /\ json_wf j = true /\
    parse_schema_text (json_text j) = Ok g' /\
    (forall w, ws_ok w -> parse_schema_text (json_text_ws w j) = Ok g') /\
    (forall fuel' t, canonical_form fuel' g = Ok t -> canonical_form fuel' g' = Ok t) /\
    (forall fuel' t, fingerprint fuel' g = Ok t -> fingerprint fuel' g' = Ok t) /\
    (forall n, unfold n g' O = unfold n g O).
Proof.
  intros g fuel Hwf Hu Hf Hl. apply C09_regen_text; try assumption. apply doc_depth_ok_small. exact Hl.
Qed.

Corollary C09_regen_text_fingerprint_graph : forall g fuel text, wf_graph g -> graph_full_utf8 g ->
  (json_fuel g <= fuel)%nat -> depth_bound g < SERDE_JSON_DEPTH -> schema_json fuel g = Ok text ->
  exists g', parse_schema_text text = Ok g' /\
    (forall fuel' t, canonical_form fuel' g = Ok t -> canonical_form fuel' g' = Ok t) /\
    (forall fuel' t, fingerprint fuel' g = Ok t -> fingerprint fuel' g' = Ok t).
Proof.
  intros g fuel text Hwf Hu Hf Hb. apply C09_regen_text_full_names; try assumption. apply doc_depth_ok_graph. exact Hb.
Qed.

(* ------------------------------------------------------------------ *)
(** * No bound K * length g + C: sharing makes the document deeper than the graph is long *)

(* [m] arrays in a chain, a union of [n] records, each record with one field whose type is the head of the chain:
   the chain is walked once for every record (the union writes one NEW record per visit, the others by reference) *)
Fixpoint arr_chain (m k : nat) : schema_mut :=
  match m with O => [] | S m' => mkNode (RArray (S k)) None :: arr_chain m' (S k) end.
Definition rec_node (i : nat) : mnode :=
  mkNode (RRecord (name_of_key (None, lit "R" ++ [N.of_nat (65 + i)])) [(lit "f", O)]) None.
Definition deep_graph (n m : nat) : schema_mut :=
  arr_chain m 0 ++ [mkNode (RUnion (seq (S m) n)) None] ++ map rec_node (seq 0 n).

Definition doc_depth (g : schema_mut) : result nat :=
  let* r := to_json (json_fuel g) g O None (j_init g) in Ok (json_depth (fst r)).

(* depth n * (m + 4) + m + 1 with n + m + 1 nodes: quadratic *)
Example deep_graph_depths :
  map (fun nm => (length (deep_graph (fst nm) (snd nm)), doc_depth (deep_graph (fst nm) (snd nm))))
      [(1, 1); (2, 2); (4, 4); (6, 6); (8, 8); (10, 8)]
  = [(3, Ok 7); (5, Ok 15); (9, Ok 37); (13, Ok 67); (17, Ok 105); (19, Ok 129)].
Proof. vm_compute. reflexivity. Qed.

(* the bound is attained up to the last unit *)
Example depth_bound_tight :
  depth_bound (deep_graph 10 8) = 130 /\ doc_depth (deep_graph 10 8) = Ok 129 /\
  depth_bound (deep_graph 8 8) = 106 /\ doc_depth (deep_graph 8 8) = Ok 105.
Proof. vm_compute. repeat split; reflexivity. Qed.

(** a graph of 19 nodes whose document is written and then REFUSED by the reader (recursion limit): no hypothesis
    on [length g] above 18 can replace [doc_depth_ok]; in particular none of the form K * length g + C < 128
    with 19 K + C < 128 *)
Example nineteen_nodes_too_deep :
  let g := deep_graph 10 8 in
  length g = 19 /\
  is_ok (schema_json (json_fuel g) g) = true /\
  (let* text := schema_json (json_fuel g) g in parse_schema_text text) = Err EData /\
  (let* text := schema_json (json_fuel g) g in
   match json_parse (S (length text)) SERDE_JSON_DEPTH text with JErr e => Ok e | _ => Err EData end) = Ok JDepth.
Proof. vm_compute. repeat split; reflexivity. Qed.

Theorem doc_depth_ok_linear_refuted :
  ~ (forall g fuel, 5 * length g + 5 < SERDE_JSON_DEPTH -> doc_depth_ok fuel g).
Proof.
  intro H. pose (g := deep_graph 10 8).
  destruct (to_json (json_fuel g) g O None (j_init g)) as [[j st']| | | |] eqn:E;
    try (vm_compute in E; discriminate E).
  assert (Hd : json_depth j = 129).
  { assert (E' : doc_depth g = Ok (json_depth j)) by (unfold doc_depth; rewrite E; reflexivity).
    assert (E'' : doc_depth g = Ok 129) by (vm_compute; reflexivity). rewrite E'' in E'. inversion E'. reflexivity. }
  assert (Hl : 5 * length g + 5 < SERDE_JSON_DEPTH) by (vm_compute; lia).
  pose proof (H g (json_fuel g) Hl j st' E) as Hlt. rewrite Hd in Hlt. unfold SERDE_JSON_DEPTH in Hlt. lia.
Qed.

(* the same for every K, C that would let the 19-node graph through *)
Theorem doc_depth_ok_linear_refuted_gen : forall K C, K * 19 + C < SERDE_JSON_DEPTH ->
  ~ (forall g fuel, K * length g + C < SERDE_JSON_DEPTH -> doc_depth_ok fuel g).
Proof.
  intros K C HKC H. pose (g := deep_graph 10 8).
  destruct (to_json (json_fuel g) g O None (j_init g)) as [[j st']| | | |] eqn:E;
    try (vm_compute in E; discriminate E).
  assert (Hd : json_depth j = 129).
  { assert (E' : doc_depth g = Ok (json_depth j)) by (unfold doc_depth; rewrite E; reflexivity).
    assert (E'' : doc_depth g = Ok 129) by (vm_compute; reflexivity). rewrite E'' in E'. inversion E'. reflexivity. }
  assert (Hlen : length g = 19) by (vm_compute; reflexivity).
  assert (Hl : K * length g + C < SERDE_JSON_DEPTH) by (rewrite Hlen; exact HKC).
  pose proof (H g (json_fuel g) Hl j st' E) as Hlt. rewrite Hd in Hlt. unfold SERDE_JSON_DEPTH in Hlt. lia.
Qed.

(* the family is not degenerate: below the limit its text round-trips through the reader and the schema parser *)
Definition g88 : schema_mut := deep_graph 8 8.
Example deep_graph_roundtrip :
  (let* text := schema_json (json_fuel g88) g88 in let* g' := parse_schema_text text in canonical_form 400 g')
  = canonical_form 400 g88 /\
  (let* text := schema_json (json_fuel g88) g88 in let* g' := parse_schema_text text in fingerprint 400 g')
  = fingerprint 400 g88 /\ is_ok (fingerprint 400 g88) = true.
Proof. vm_compute. repeat split; reflexivity. Qed.

(* ------------------------------------------------------------------ *)
(** * Assumptions *)
Print Assumptions to_json_tspec.
Print Assumptions doc_depth_bound.
Print Assumptions doc_depth_ok_graph.
Print Assumptions doc_depth_ok_small.
Print Assumptions named_count_filter.
Print Assumptions C09_regen_text_graph.
Print Assumptions C09_regen_text_small.
Print Assumptions C09_regen_text_fingerprint_graph.
Print Assumptions nineteen_nodes_too_deep.
Print Assumptions doc_depth_ok_linear_refuted.
Print Assumptions doc_depth_ok_linear_refuted_gen.
