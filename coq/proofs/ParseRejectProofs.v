(** C07_reject: documents the specification forbids are rejected by the parser. *)
From Coq Require Import NArith ZArith List Lia Bool Arith String ZifyN ZifyBool ZifyNat Relations.
Import ListNotations.
Require Import Base Schema Text Json Parse CanonicalForm.
Require Import PcfSpec SchemaTextProofs ParseResolveDefs ParseBridge.
Open Scope N_scope.
Notation length := List.length (only parsing).

Arguments N.eqb : simpl never.
Arguments N.leb : simpl never.
Arguments N.ltb : simpl never.
Arguments N.add : simpl never.

(* ------------------------------------------------------------------ *)
(** * schema positions of the tree; an error below is an error of the whole *)

Inductive occurs (r' : raw) : raw -> Prop :=
  | occ_here : occurs r' r'
  | occ_union : forall l x, In x l -> occurs r' x -> occurs r' (RwUnion l)
  | occ_items : forall lg nm ns fields syms it values sz pr sc,
      occurs r' it -> occurs r' (RwObject TyArray lg nm ns fields syms (Some it) values sz pr sc)
  | occ_values : forall lg nm ns fields syms items it sz pr sc,
      occurs r' it -> occurs r' (RwObject TyMap lg nm ns fields syms items (Some it) sz pr sc)
  | occ_field : forall lg nm ns fl f syms items values sz pr sc,
      In f fl -> occurs r' (snd f) ->
      occurs r' (RwObject TyRecord lg nm ns (Some fl) syms items values sz pr sc).

Definition always_err (r : raw) : Prop := forall enc st, is_err (register_node r enc st).

Lemma reg_list_fine : forall F l st, (forall x s, fine (F x s)) -> fine (reg_list F l st).
Proof.
  intros F l st HF. apply (reg_union_go_fine F). apply Forall_forall. intros x _ s. apply HF.
Qed.

Lemma reg_fields_fine : forall F l st, (forall x s, fine (F x s)) -> fine (reg_fields F l st).
Proof.
  intros F l st HF. apply (reg_fields_go_fine F). apply Forall_forall. intros x _ s. apply HF.
Qed.

Lemma reg_list_err : forall F l x, In x l -> (forall s, is_err (F x s)) -> (forall y s, fine (F y s)) ->
  forall st, is_err (reg_list F l st).
Proof.
  intros F. induction l as [|y t IH]; intros x Hin Hx HF st; [contradiction|]. cbn [reg_list].
  destruct Hin as [->|Hin]; [apply is_err_bind_l, Hx|].
  apply is_err_bind; [apply HF|]. intros a _. apply is_err_bind_l. eapply IH; eassumption.
Qed.

Lemma reg_fields_err : forall F l f, In f l -> (forall s, is_err (F (snd f) s)) -> (forall y s, fine (F y s)) ->
  forall st, is_err (reg_fields F l st).
Proof.
  intros F. induction l as [|[fn y] t IH]; intros f Hin Hx HF st; [contradiction|]. cbn [reg_fields].
  destruct Hin as [<-|Hin]; [apply is_err_bind_l, Hx|].
  apply is_err_bind; [apply HF|]. intros a _. apply is_err_bind_l. eapply IH; eassumption.
Qed.

Lemma reg_named_fine : forall enc name ns idx st, fine (reg_named enc name ns idx st).
Proof. intros. unfold reg_named. destruct name; [|exact I]. destruct (assoc_key _ _); exact I. Qed.

Lemma occurs_err : forall r' r, occurs r' r -> always_err r' -> always_err r.
Proof.
  intros r' r H Herr. induction H as [|l x Hin Hocc IH|? ? ? ? ? it ? ? ? ? Hocc IH|? ? ? ? ? ? it ? ? ? Hocc IH
                                     |? ? ? fl f ? ? ? ? ? ? Hin Hocc IH]; [exact Herr|..]; intros enc st.
  - rewrite register_node_union. apply is_err_bind_l.
    eapply (reg_list_err _ l x Hin); [intro s; apply IH|intros; apply register_node_total].
  - rewrite register_node_object. cbv zeta. apply is_err_bind; [apply reg_named_fine|]. intros named _.
    apply is_err_bind_l. cbn [reg_body]. apply is_err_bind_l. apply IH.
  - rewrite register_node_object. cbv zeta. apply is_err_bind; [apply reg_named_fine|]. intros named _.
    apply is_err_bind_l. cbn [reg_body]. apply is_err_bind_l. apply IH.
  - rewrite register_node_object. cbv zeta. apply is_err_bind; [apply reg_named_fine|]. intros named _.
    apply is_err_bind_l. cbn [reg_body]. destruct (fst named) as [k|]; cbn [need_name rbind]; [|exact I].
    apply is_err_bind_l.
    eapply (reg_fields_err _ fl f Hin); [intro s; apply IH|intros; apply register_node_total].
Qed.

(* required attributes *)
Definition missing_attr (r : raw) : Prop :=
  match r with
  | RwType t => is_prim_ty t = false          (* a complex type name as a bare string *)
  | RwObject ty _ name _ fields syms items values sz _ _ =>
      match ty with
      | TyRecord => name = None \/ fields = None
      | TyEnum => name = None \/ syms = None
      | TyFixed => name = None \/ sz = None
      | TyArray => items = None
      | TyMap => values = None
      | _ => False
      end
  | _ => False
  end.

Lemma missing_attr_err : forall r, missing_attr r -> always_err r.
Proof.
  intros r H enc st. destruct r as [t|s|l|ty lg name ns fields syms items values sz pr sc]; cbn [missing_attr] in H; try contradiction.
  - rewrite register_node_type, H. exact I.
  - rewrite register_node_object. cbv zeta. apply is_err_bind; [apply reg_named_fine|]. intros named Hnamed.
    apply is_err_bind_l.
    assert (Hnone : name = None -> fst named = None).
    { intros ->. cbn [reg_named] in Hnamed. inversion Hnamed. reflexivity. }
    destruct ty; try contradiction; cbn [reg_body].
    + subst items. exact I.
    + subst values. exact I.
    + destruct H as [H|H]; [rewrite (Hnone H); exact I|]. subst fields.
      destruct (fst named); cbn [need_name rbind]; exact I.
    + destruct H as [H|H]; [rewrite (Hnone H); exact I|]. subst syms.
      destruct (fst named); cbn [need_name rbind]; exact I.
    + destruct H as [H|H]; [rewrite (Hnone H); exact I|]. subst sz.
      destruct (fst named); cbn [need_name rbind]; exact I.
Qed.

Lemma parse_err_of_register : forall j r,
  raw_of_json j = Ok r -> is_err (register_node r None (mkP [] [] [])) -> is_err (parse_schema j).
Proof. intros j r Hr H. unfold parse_schema. rewrite Hr. cbn [rbind]. apply is_err_bind_l. exact H. Qed.

(** a named type missing its name, a record missing fields, an enum missing symbols, a fixed missing
    size, an array missing items, a map missing values, anywhere at a schema position *)
Theorem C07_reject_missing : forall j r r',
  raw_of_json j = Ok r -> occurs r' r -> missing_attr r' -> is_err (parse_schema j).
Proof.
  intros j r r' Hr Hocc Hm. eapply parse_err_of_register; [exact Hr|].
  eapply occurs_err; [exact Hocc|apply missing_attr_err; exact Hm].
Qed.

Theorem C07_reject_shape : forall j, is_err (raw_of_json j) -> is_err (parse_schema j).
Proof. intros j H. unfold parse_schema. apply is_err_bind_l. exact H. Qed.

(* the same on the JSON object: the derived Deserialize maps an absent (or null) member to None *)
Lemma known_absent {A} : forall k kvs (conv : json -> result A), lookup_all (lit k) kvs = [] -> known k kvs conv = Ok None.
Proof. intros k kvs conv H. unfold known. rewrite H. reflexivity. Qed.

Theorem raw_obj_members : forall kvs r,
  raw_of_json (JObj kvs) = Ok r ->
  exists ty lg name ns fields syms items values sz pr sc,
    r = RwObject ty lg name ns fields syms items values sz pr sc /\
    get_str "type" kvs = Some (rtype_name ty) /\
    (lookup_all (lit "name") kvs = [] -> name = None) /\
    (lookup_all (lit "fields") kvs = [] -> fields = None) /\
    (lookup_all (lit "symbols") kvs = [] -> syms = None) /\
    (lookup_all (lit "items") kvs = [] -> items = None) /\
    (lookup_all (lit "values") kvs = [] -> values = None) /\
    (lookup_all (lit "size") kvs = [] -> sz = None).
Proof.
  intros kvs r Hr. rewrite raw_of_json_eq in Hr. apply obj_body_inv in Hr.
  destruct Hr as (s & ty & lg & name & ns & fields & syms & items & values & sz & pr & sc &
                  Hty & Hs' & _ & Hname & Hns & Hfields & Hsyms & Hitems & Hvalues & Hsz & ->).
  exists ty, lg, name, ns, fields, syms, items, values, sz, pr, sc. split; [reflexivity|].
  apply rtype_of_name_inv in Hs'. subst s. split; [apply get_str_of_lookup; exact Hty|].
  repeat split; intro H.
  - rewrite (known_absent _ _ _ H) in Hname. inversion Hname. reflexivity.
  - rewrite fields_spec, H in Hfields. inversion Hfields. reflexivity.
  - rewrite H in Hsyms. inversion Hsyms. reflexivity.
  - rewrite find_node_spec, H in Hitems. inversion Hitems. reflexivity.
  - rewrite find_node_spec, H in Hvalues. inversion Hvalues. reflexivity.
  - rewrite (known_absent _ _ _ H) in Hsz. inversion Hsz. reflexivity.
Qed.

(** the top-level statements on the JSON object itself *)
Theorem C07_reject_missing_json : forall kvs ty,
  get_str "type" kvs = Some ty ->
  (bytes_eqb ty (lit "record") = true /\ (lookup_all (lit "name") kvs = [] \/ lookup_all (lit "fields") kvs = [])) \/
  (bytes_eqb ty (lit "enum") = true /\ (lookup_all (lit "name") kvs = [] \/ lookup_all (lit "symbols") kvs = [])) \/
  (bytes_eqb ty (lit "fixed") = true /\ (lookup_all (lit "name") kvs = [] \/ lookup_all (lit "size") kvs = [])) \/
  (bytes_eqb ty (lit "array") = true /\ lookup_all (lit "items") kvs = []) \/
  (bytes_eqb ty (lit "map") = true /\ lookup_all (lit "values") kvs = []) ->
  is_err (parse_schema (JObj kvs)).
Proof.
  intros kvs ty Hty H.
  pose proof (parse_schema_fine (JObj kvs)) as Hfine.
  destruct (raw_of_json (JObj kvs)) as [r| | | |] eqn:Hr;
    try (apply C07_reject_shape; rewrite Hr; exact I);
    try (pose proof (raw_of_json_total (JObj kvs)) as Hf; rewrite Hr in Hf; contradiction).
  destruct (raw_obj_members kvs r Hr) as (ty' & lg & name & ns & fields & syms & items & values & sz & pr & sc &
                                          -> & Hty' & Hn & Hf & Hsy & Hi & Hv & Hsz).
  rewrite Hty in Hty'. inversion Hty'. subst ty. clear Hty'.
  eapply C07_reject_missing; [exact Hr|apply occ_here|].
  destruct H as [[Ht H]|[[Ht H]|[[Ht H]|[[Ht H]|[Ht H]]]]]; apply bytes_eqb_eq in Ht;
    destruct ty'; try (vm_compute in Ht; discriminate); cbn [missing_attr].
  - destruct H as [H|H]; [left; apply Hn, H|right; apply Hf, H].
  - destruct H as [H|H]; [left; apply Hn, H|right; apply Hsy, H].
  - destruct H as [H|H]; [left; apply Hn, H|right; apply Hsz, H].
  - apply Hi, H.
  - apply Hv, H.
Qed.

(* ------------------------------------------------------------------ *)
(** * the fullnames a document defines and refers to, by the specification's rules
      (latest definition first) *)

Definition rdefs_list (F : raw -> list bytes) : list raw -> list bytes :=
  fix go (l : list raw) : list bytes := match l with [] => [] | x :: t => go t ++ F x end.
Definition rdefs_fields (F : raw -> list bytes) : list (bytes * raw) -> list bytes :=
  fix go (l : list (bytes * raw)) : list bytes := match l with [] => [] | f :: t => go t ++ F (snd f) end.

Definition own_ns (enc : option bytes) (nm ns : option bytes) : option bytes :=
  match nm with Some n => fst (spec_fullname enc n ns) | None => enc end.

Fixpoint rdefs (r : raw) (enc : option bytes) {struct r} : list bytes :=
  match r with
  | RwType _ | RwRef _ => []
  | RwUnion l => rdefs_list (fun x => rdefs x enc) l
  | RwObject ty lg nm ns fields syms items values sz pr sc =>
      (match ty with
       | TyArray => match items with Some it => rdefs it enc | None => [] end
       | TyMap => match values with Some it => rdefs it enc | None => [] end
       | TyRecord => match fields with
                     | Some fl => rdefs_fields (fun x => rdefs x (own_ns enc nm ns)) fl
                     | None => []
                     end
       | _ => []
       end) ++ match nm with Some n => [snd (spec_fullname enc n ns)] | None => [] end
  end.

Fixpoint rrefs (r : raw) (enc : option bytes) {struct r} : list bytes :=
  match r with
  | RwType _ => []
  | RwRef s => [snd (spec_fullname enc s None)]
  | RwUnion l => rdefs_list (fun x => rrefs x enc) l
  | RwObject ty lg nm ns fields syms items values sz pr sc =>
      match ty with
      | TyArray => match items with Some it => rrefs it enc | None => [] end
      | TyMap => match values with Some it => rrefs it enc | None => [] end
      | TyRecord => match fields with
                    | Some fl => rdefs_fields (fun x => rrefs x (own_ns enc nm ns)) fl
                    | None => []
                    end
      | _ => []
      end
  end.

Definition fulls (st : pstate) : list bytes := map (fun p => full (fst p)) (p_names st).
Definition unres (st : pstate) : list bytes := map full (p_unresolved st).
Definition names_good (st : pstate) : Prop := Forall (fun p => key_good (fst p)) (p_names st).

Definition reg_post (defs refs : list bytes) (st st' : pstate) : Prop :=
  fulls st' = defs ++ fulls st /\ names_good st' /\ (NoDup (fulls st) -> NoDup (fulls st')) /\
  incl (unres st) (unres st') /\ (forall f, In f refs -> In f (fulls st') \/ In f (unres st')).

Definition RegInv (r : raw) : Prop :=
  forall enc st pk st', ns_ok enc -> names_good st ->
    register_node r enc st = Ok (pk, st') -> reg_post (rdefs r enc) (rrefs r enc) st st'.

Lemma reg_post_refl : forall st, names_good st -> reg_post [] [] st st.
Proof.
  intros st H. split; [reflexivity|]. split; [exact H|]. split; [auto|]. split; [apply incl_refl|].
  intros f [].
Qed.

Lemma reg_post_trans : forall d1 r1 d2 r2 a b c,
  reg_post d1 r1 a b -> reg_post d2 r2 b c -> reg_post (d2 ++ d1) (r2 ++ r1) a c.
Proof.
  intros d1 r1 d2 r2 a b c (F1 & G1 & N1 & U1 & R1) (F2 & G2 & N2 & U2 & R2).
  split; [rewrite F2, F1, app_assoc; reflexivity|]. split; [exact G2|]. split; [auto|].
  split; [eapply incl_tran; eassumption|].
  intros f Hf. apply in_app_or in Hf. destruct Hf as [Hf|Hf]; [apply R2; exact Hf|].
  destruct (R1 f Hf) as [H|H]; [left; rewrite F2; apply in_or_app; right; exact H|right; apply U2; exact H].
Qed.

Lemma reg_inv_list : forall l, Forall RegInv l ->
  forall enc st ks st', ns_ok enc -> names_good st ->
    reg_list (fun x s => register_node x enc s) l st = Ok (ks, st') ->
    reg_post (rdefs_list (fun x => rdefs x enc) l) (rdefs_list (fun x => rrefs x enc) l) st st'.
Proof.
  induction l as [|x t IH]; intros HF enc st ks st' Henc Hg H; cbn [reg_list] in H.
  - inversion H. subst. apply reg_post_refl. exact Hg.
  - inversion HF as [|? ? Hx Ht]. subst.
    apply rbind_ok_inv in H. destruct H as ([k1 st1] & H1 & H).
    apply rbind_ok_inv in H. destruct H as ([ks2 st2] & H2 & H). inversion H. subst. cbn [fst snd] in *.
    pose proof (Hx enc st k1 st1 Henc Hg H1) as P1.
    pose proof (IH Ht enc st1 ks2 st' Henc (proj1 (proj2 P1)) H2) as P2.
    cbn [rdefs_list]. eapply reg_post_trans; eassumption.
Qed.

Lemma reg_inv_fields : forall l, Forall (fun f : bytes * raw => RegInv (snd f)) l ->
  forall enc st ks st', ns_ok enc -> names_good st ->
    reg_fields (fun x s => register_node x enc s) l st = Ok (ks, st') ->
    reg_post (rdefs_fields (fun x => rdefs x enc) l) (rdefs_fields (fun x => rrefs x enc) l) st st'.
Proof.
  induction l as [|[fn x] t IH]; intros HF enc st ks st' Henc Hg H; cbn [reg_fields] in H.
  - inversion H. subst. apply reg_post_refl. exact Hg.
  - inversion HF as [|? ? Hx Ht]. subst. cbn [snd] in Hx.
    apply rbind_ok_inv in H. destruct H as ([k1 st1] & H1 & H).
    apply rbind_ok_inv in H. destruct H as ([ks2 st2] & H2 & H). inversion H. subst. cbn [fst snd] in *.
    pose proof (Hx enc st k1 st1 Henc Hg H1) as P1.
    pose proof (IH Ht enc st1 ks2 st' Henc (proj1 (proj2 P1)) H2) as P2.
    cbn [rdefs_fields snd]. eapply reg_post_trans; eassumption.
Qed.

Lemma reg_post_same_names : forall d r a b b',
  reg_post d r a b -> p_names b' = p_names b -> p_unresolved b' = p_unresolved b -> reg_post d r a b'.
Proof.
  intros d r a b b' H Hn Hu. unfold reg_post, fulls, unres, names_good in *. rewrite Hn, Hu. exact H.
Qed.

Lemma assoc_key_some_in : forall k nm i, assoc_key k nm = Some i -> In (k, i) nm.
Proof.
  induction nm as [|[k' v] t IH]; intros i H; cbn [assoc_key] in H; [discriminate|].
  destruct (namekey_eqb k k') eqn:E.
  - apply namekey_eqb_eq in E. inversion H. subst. left. reflexivity.
  - right. apply IH. exact H.
Qed.

Lemma assoc_key_none_notin : forall k nm, assoc_key k nm = None -> forall p, In p nm -> fst p <> k.
Proof.
  induction nm as [|[k' v] t IH]; intros H p Hp; [contradiction|]. cbn [assoc_key] in H.
  destruct (namekey_eqb k k') eqn:E; [discriminate|].
  destruct Hp as [<-|Hp]; [|apply IH; assumption].
  cbn [fst]. intro Heq. subst k'. rewrite namekey_eqb_refl in E. discriminate.
Qed.

Theorem reg_inv : forall r, RegInv r.
Proof.
  induction r using raw_ind'; unfold RegInv; intros enc st pk st' Henc Hg Hreg.
  - (* RwType *)
    rewrite register_node_type in Hreg. destruct (is_prim_ty t); [|discriminate]. inversion Hreg. subst.
    cbn [rdefs rrefs]. apply (reg_post_same_names _ _ _ st); [apply reg_post_refl; exact Hg|reflexivity|reflexivity].
  - (* RwRef *)
    rewrite register_node_ref in Hreg. cbn [rdefs rrefs].
    destruct (assoc_key (key_of_ref enc s) (p_names st)) as [idx|] eqn:Ea; inversion Hreg; subst.
    + split; [reflexivity|]. split; [exact Hg|]. split; [auto|]. split; [apply incl_refl|].
      intros f [<-|[]]. left. apply assoc_key_some_in in Ea. unfold fulls.
      rewrite <- full_ref_spec. apply (in_map (fun p => full (fst p)) _ _ Ea).
    + split; [reflexivity|]. split; [exact Hg|]. split; [auto|].
      unfold unres. cbn [p_unresolved]. rewrite map_app. split; [apply incl_appl, incl_refl|].
      intros f [<-|[]]. right. apply in_or_app. right. left. apply full_ref_spec.
  - (* RwUnion *)
    rewrite register_node_union in Hreg. apply rbind_ok_inv in Hreg. destruct Hreg as ([ks st1] & H1 & Hreg).
    inversion Hreg. subst. cbn [fst snd rdefs rrefs].
    apply (reg_post_same_names _ _ _ st1); [|reflexivity|reflexivity].
    pose proof (reg_inv_list l H enc (push_placeholder st) ks st1 Henc Hg H1) as P.
    exact P.
  - (* RwObject *)
    rewrite register_node_object in Hreg. cbv zeta in Hreg.
    apply rbind_ok_inv in Hreg. destruct Hreg as ([ko st1] & Hnamed & Hreg).
    apply rbind_ok_inv in Hreg. destruct Hreg as ([rg st2] & Hbody & Hreg).
    apply rbind_ok_inv in Hreg. destruct Hreg as (lt & _ & Hreg). inversion Hreg. subst pk st'. clear Hreg.
    cbn [fst snd] in *.
    apply (reg_post_same_names _ _ _ st2); [|reflexivity|reflexivity].
    (* the name *)
    assert (Pn : reg_post (match nm with Some n => [snd (spec_fullname enc n ns)] | None => [] end) [] st st1 /\
                 (forall k, ko = Some k -> fst k = own_ns enc nm ns /\ ns_ok (fst k))).
    { unfold reg_named in Hnamed. destruct nm as [n|].
      - destruct (assoc_key (key_of_def enc n ns) (p_names (push_placeholder st))) eqn:Ea; [discriminate|].
        inversion Hnamed. subst ko st1. clear Hnamed. split.
        + split; [unfold fulls; cbn [p_names map fst app]; rewrite full_def_spec; reflexivity|].
          split; [constructor; [apply key_of_def_good; exact Henc|exact Hg]|].
          split.
          * intro Hnd. unfold fulls. cbn [p_names map fst]. constructor; [|exact Hnd].
            intro Hin. apply in_map_iff in Hin. destruct Hin as (p & Hp & Hpin).
            apply full_inj in Hp;
              [|exact (proj1 (Forall_forall _ _) Hg p Hpin)|apply key_of_def_good; exact Henc].
            exact (assoc_key_none_notin _ _ Ea p Hpin Hp).
          * split; [apply incl_refl|]. intros f [].
        + intros k Hk. inversion Hk. subst k. unfold own_ns. rewrite ns_def_spec. split; [reflexivity|].
          rewrite <- ns_def_spec. apply key_of_def_ns_ok. exact Henc.
      - inversion Hnamed. subst ko st1. split; [|discriminate].
        apply (reg_post_same_names _ _ _ st); [apply reg_post_refl; exact Hg|reflexivity|reflexivity]. }
    destruct Pn as [Pn Hko]. pose proof (proj1 (proj2 Pn)) as Hg1.
    assert (Hsame : reg_post [] [] st1 st1) by (apply reg_post_refl; exact Hg1).
    cbn [rdefs rrefs].
    destruct ty; cbn [reg_body] in Hbody;
      try (inversion Hbody; subst; rewrite <- (app_nil_r []) at 2;
           eapply reg_post_trans; [exact Pn|exact Hsame]).
    + (* array *)
      destruct items as [it|]; [|discriminate]. cbn [opt_all] in H0.
      apply rbind_ok_inv in Hbody. destruct Hbody as ([k1 st3] & H3 & Hbody). inversion Hbody. subst.
      rewrite <- (app_nil_r (rrefs it enc)).
      eapply reg_post_trans; [exact Pn|]. red in H0. eapply H0; eassumption.
    + (* map *)
      destruct values as [it|]; [|discriminate]. cbn [opt_all] in H1.
      apply rbind_ok_inv in Hbody. destruct Hbody as ([k1 st3] & H3 & Hbody). inversion Hbody. subst.
      rewrite <- (app_nil_r (rrefs it enc)).
      eapply reg_post_trans; [exact Pn|]. red in H1. eapply H1; eassumption.
    + (* record *)
      destruct ko as [k|]; cbn [need_name rbind] in Hbody; [|discriminate].
      destruct fields as [fl|]; [|discriminate]. cbn [opt_all] in H.
      apply rbind_ok_inv in Hbody. destruct Hbody as ([ks st3] & H3 & Hbody). inversion Hbody. subst.
      destruct (Hko k eq_refl) as [Hk1 Hk2]. rewrite <- Hk1.
      rewrite <- (app_nil_r (rdefs_fields (fun x => rrefs x (fst k)) fl)).
      eapply reg_post_trans; [exact Pn|]. eapply reg_inv_fields; eassumption.
    + (* enum *)
      destruct ko as [k|]; cbn [need_name rbind] in Hbody; [|discriminate].
      destruct syms; [|discriminate]. inversion Hbody. subst.
      rewrite <- (app_nil_r []) at 2. eapply reg_post_trans; [exact Pn|exact Hsame].
    + (* fixed *)
      destruct ko as [k|]; cbn [need_name rbind] in Hbody; [|discriminate].
      destruct sz; [|discriminate]. inversion Hbody. subst.
      rewrite <- (app_nil_r []) at 2. eapply reg_post_trans; [exact Pn|exact Hsame].
Qed.

Lemma rmap_list_ok_all {A B} (F : A -> result B) : forall l r, rmap_list F l = Ok r ->
  forall x, In x l -> exists y, F x = Ok y.
Proof.
  induction l as [|a t IH]; intros r H x Hx; [contradiction|]. cbn [rmap_list] in H.
  apply rbind_ok_inv in H. destruct H as (y & Hy & H). apply rbind_ok_inv in H. destruct H as (r' & Hr' & _).
  destruct Hx as [<-|Hx]; [eauto|]. eapply IH; eassumption.
Qed.

Lemma parse_ok_inv : forall j g, parse_schema j = Ok g ->
  exists r pk st, raw_of_json j = Ok r /\ register_node r None (mkP [] [] []) = Ok (pk, st) /\
    (forall k, In k (p_unresolved st) -> exists idx, assoc_key k (p_names st) = Some idx).
Proof.
  intros j g H. unfold parse_schema in H.
  apply rbind_ok_inv in H. destruct H as (r & Hr & H).
  apply rbind_ok_inv in H. destruct H as ([pk st] & Hreg & H).
  apply rbind_ok_inv in H. destruct H as (resolved & Hres & _). cbn [snd] in Hres.
  exists r, pk, st. split; [exact Hr|]. split; [exact Hreg|].
  intros k Hk. destruct (rmap_list_ok_all _ _ _ Hres k Hk) as (y & Hy).
  destruct (assoc_key k (p_names st)); [eauto|discriminate].
Qed.

Lemma parse_not_ok_err : forall j, (forall g, parse_schema j <> Ok g) -> is_err (parse_schema j).
Proof. intros j H. apply fine_not_ok_err; [apply parse_schema_fine|exact H]. Qed.

(** a reference to a fullname that the document does not define *)
Theorem C07_reject_undefined : forall j r f,
  raw_of_json j = Ok r -> In f (rrefs r None) -> ~ In f (rdefs r None) -> is_err (parse_schema j).
Proof.
  intros j r f Hr Hf Hnd. apply parse_not_ok_err. intros g Hg.
  destruct (parse_ok_inv j g Hg) as (r' & pk & st & Hr' & Hreg & Hall). rewrite Hr in Hr'. inversion Hr'. subst r'.
  destruct (reg_inv r None (mkP [] [] []) pk st (or_introl eq_refl) (Forall_nil _) Hreg) as (F & _ & _ & _ & R).
  unfold fulls at 2 in F. cbn [p_names map] in F. rewrite app_nil_r in F.
  destruct (R f Hf) as [H|H]; [rewrite F in H; contradiction|].
  unfold unres in H. apply in_map_iff in H. destruct H as (k & <- & Hk).
  destruct (Hall k Hk) as (idx & Hidx). apply assoc_key_some_in in Hidx.
  apply Hnd. rewrite <- F. unfold fulls. apply (in_map (fun p => full (fst p)) _ _ Hidx).
Qed.

(** two definitions of the same fullname *)
Theorem C07_reject_duplicate : forall j r,
  raw_of_json j = Ok r -> ~ NoDup (rdefs r None) -> is_err (parse_schema j).
Proof.
  intros j r Hr Hnd. apply parse_not_ok_err. intros g Hg.
  destruct (parse_ok_inv j g Hg) as (r' & pk & st & Hr' & Hreg & _). rewrite Hr in Hr'. inversion Hr'. subst r'.
  destruct (reg_inv r None (mkP [] [] []) pk st (or_introl eq_refl) (Forall_nil _) Hreg) as (F & _ & N & _).
  unfold fulls at 2 in F. cbn [p_names map] in F. rewrite app_nil_r in F.
  apply Hnd. rewrite <- F. apply N. constructor.
Qed.

(* ------------------------------------------------------------------ *)
(** * the cycle check is exact: it succeeds only when there is no cycle of records
      (the converse of [cyc_none_cycle]) *)

Definition closed (g : schema_mut) (c : list bool) : Prop :=
  forall a b, nth a c false = true -> rec_edge g a b -> nth b c false = true.
Definition acyc (g : schema_mut) (c : list bool) : Prop :=
  forall k, nth k c false = true -> ~ clos_trans nat (rec_edge g) k k.
Definition cyc_good (g : schema_mut) (c : list bool) : Prop := closed g c /\ acyc g c.

Definition post2 (g : schema_mut) (chk : list bool) (idxs : list nat) (r : list bool * list bool * N) : Prop :=
  let '(v', c', n') := r in
  cyc_good g c' /\ (forall k, nth k chk false = true -> nth k c' false = true) /\
  (forall k, In k idxs -> is_record g k = true -> nth k c' false = true).

Lemma closed_reach : forall g c, closed g c -> forall a b,
  clos_refl_trans nat (rec_edge g) a b -> nth a c false = true -> nth b c false = true.
Proof.
  intros g c Hc a b H. induction H as [x y Hxy|x|x y z _ IH1 _ IH2]; intro Hx; auto.
  eapply Hc; eassumption.
Qed.

Lemma ct_first {A} (R : relation A) : forall a b, clos_trans A R a b ->
  exists m, R a m /\ clos_refl_trans A R m b.
Proof.
  intros a b H. induction H as [x y Hxy|x y z _ IH1 _ IH2].
  - exists y. split; [exact Hxy|apply rt_refl].
  - destruct IH1 as (m & Hm & Hmy). destruct IH2 as (m2 & Hm2 & Hm2z).
    exists m. split; [exact Hm|]. eapply rt_trans; [exact Hmy|]. eapply rt_trans; [apply rt_step; exact Hm2|exact Hm2z].
Qed.

Lemma cyc_step_sound (inner : nat -> list bool -> list bool -> N -> option (list bool * list bool * N))
  (g : schema_mut) (V : list bool) :
  length V = length g ->
  (forall k chk calls r, (k < length g)%nat -> length chk = length g ->
     nth k V false = false -> nth k chk false = false -> cyc_inv V chk ->
     inner k V chk calls = Some r -> cyc_post 1 V chk calls r) ->
  (forall k chk calls r, (k < length g)%nat -> length chk = length g ->
     nth k V false = false -> nth k chk false = false -> cyc_inv V chk -> cyc_good g chk ->
     inner k V chk calls = Some r -> post2 g chk [k] r) ->
  forall fs chk calls r, length chk = length g -> cyc_inv V chk -> cyc_good g chk ->
    (fix go (fs : list nat) (visited checked : list bool) (calls : N) {struct fs}
       : option (list bool * list bool * N) :=
       match fs with
       | [] => Some (visited, checked, calls)
       | k :: rest =>
           if is_record g k then
             if nth k visited false then None
             else if nth k checked false then go rest visited checked calls
             else match inner k visited checked (calls + 1) with
                  | Some (v', c', n') => go rest v' c' n'
                  | None => None
                  end
           else go rest visited checked calls
       end) fs V chk calls = Some r ->
    post2 g chk fs r.
Proof.
  intros HV Hpost Hsound. induction fs as [|k rest IH]; intros chk calls r Hl Hi Hg H.
  - inversion H. subst r. cbn [post2]. split; [exact Hg|]. split; [auto|]. intros k [].
  - destruct (is_record g k) eqn:Er.
    2:{ apply IH in H; try assumption. destruct r as [[v2 c2] n2]. cbn [post2] in *.
        destruct H as (G2 & M2 & F2). split; [exact G2|]. split; [exact M2|].
        intros k0 [<-|Hk0] Hr0; [congruence|apply F2; assumption]. }
    destruct (nth k V false) eqn:Ev; [discriminate|].
    destruct (nth k chk false) eqn:Ec.
    { apply IH in H; try assumption. destruct r as [[v2 c2] n2]. cbn [post2] in *.
      destruct H as (G2 & M2 & F2). split; [exact G2|]. split; [exact M2|].
      intros k0 [<-|Hk0] Hr0; [apply M2; exact Ec|apply F2; assumption]. }
    destruct (inner k V chk (calls + 1)) as [[[v' c'] n']|] eqn:Ei; [|discriminate].
    pose proof (Hpost k chk (calls + 1) _ (is_record_lt _ _ Er) Hl Ev Ec Hi Ei) as Hp.
    pose proof (Hsound k chk (calls + 1) _ (is_record_lt _ _ Er) Hl Ev Ec Hi Hg Ei) as Hs.
    cbn [cyc_post post2] in Hp, Hs. destruct Hp as (-> & Hl' & Hi' & _). destruct Hs as (G1 & M1 & F1).
    apply IH in H; [|congruence|exact Hi'|exact G1].
    destruct r as [[v2 c2] n2]. cbn [post2] in *. destruct H as (G2 & M2 & F2).
    split; [exact G2|]. split; [intros k0 Hk0; apply M2, M1, Hk0|].
    intros k0 [<-|Hk0] Hr0; [apply M2, F1; [left; reflexivity|exact Er]|apply F2; assumption].
Qed.

Lemma cyc_inner_sound : forall fuel g idx visited checked calls r,
  length visited = length g -> length checked = length g -> (idx < length g)%nat ->
  nth idx visited false = false -> nth idx checked false = false -> cyc_inv visited checked ->
  cyc_good g checked ->
  cyc_inner fuel g idx visited checked calls = Some r ->
  post2 g checked [idx] r.
Proof.
  induction fuel as [|f IH]; intros g idx visited checked calls r Hlv Hlc Hidx Hv Hc Hi Hg H;
    [discriminate|].
  cbn [cyc_inner] in H.
  set (V1 := set_flag visited idx true) in *.
  assert (HlV1 : length V1 = length g) by (unfold V1; rewrite set_flag_length; exact Hlv).
  assert (HnV1 : forall k, nth k V1 false = if Nat.eqb k idx then true else nth k visited false).
  { intro k. unfold V1. apply nth_set_flag. lia. }
  assert (Hi1 : cyc_inv V1 checked).
  { intros k Hk. rewrite HnV1 in Hk. destruct (Nat.eqb k idx) eqn:E.
    - apply Nat.eqb_eq in E. subst k. exact Hc.
    - apply Hi. exact Hk. }
  match type of H with
  | match ?step ?fs V1 checked calls with _ => _ end = _ =>
      set (FS := fs) in *;
      destruct (step FS V1 checked calls) as [[[v' c'] n']|] eqn:Es; [|discriminate]
  end.
  inversion H. subst r. clear H.
  pose proof Es as Es2.
  eapply (cyc_step_post (fun k v c n => cyc_inner f g k v c n) g V1 HlV1) in Es;
    [|intros k chk calls0 r0 Hk Hlk Hvk Hck Hik Hr; eapply cyc_inner_post; eassumption|exact Hlc|exact Hi1].
  eapply (cyc_step_sound (fun k v c n => cyc_inner f g k v c n) g V1 HlV1) in Es2;
    [|intros k chk calls0 r0 Hk Hlk Hvk Hck Hik Hr; eapply cyc_inner_post; eassumption
     |intros k chk calls0 r0 Hk Hlk Hvk Hck Hik Hgk Hr; eapply (IH g k V1 chk calls0 r0); eassumption|exact Hlc|exact Hi1|exact Hg].
  cbn [cyc_post post2] in *. destruct Es as (-> & Hl' & Hi' & _). destruct Es2 as ((Cl & Ac) & M & Fs).
  assert (Hcidx : nth idx c' false = false).
  { apply Hi'. rewrite HnV1, Nat.eqb_refl. reflexivity. }
  assert (Hn2 : forall k, nth k (set_flag c' idx true) false = if Nat.eqb k idx then true else nth k c' false).
  { intro k. apply nth_set_flag. lia. }
  assert (Hedge : forall b, rec_edge g idx b -> nth b c' false = true).
  { intros b (nm & fs & lt & Hn & Hin & Hr). apply Fs; [|exact Hr]. unfold FS. rewrite Hn. exact Hin. }
  split; [split|split].
  - intros a b Ha Hab. rewrite Hn2 in *. destruct (Nat.eqb b idx); [reflexivity|].
    destruct (Nat.eqb a idx) eqn:Ea.
    + apply Nat.eqb_eq in Ea. subst a. apply Hedge. exact Hab.
    + eapply Cl; eassumption.
  - intros k Hk Hcyc. rewrite Hn2 in Hk. destruct (Nat.eqb k idx) eqn:Ek.
    + apply Nat.eqb_eq in Ek. subst k. apply ct_first in Hcyc. destruct Hcyc as (m & Hm & Hmi).
      pose proof (closed_reach g c' Cl m idx Hmi (Hedge m Hm)). congruence.
    + exact (Ac k Hk Hcyc).
  - intros k Hk. rewrite Hn2. destruct (Nat.eqb k idx); [reflexivity|]. apply M. exact Hk.
  - intros k [<-|[]] _. rewrite Hn2, Nat.eqb_refl. reflexivity.
Qed.

Theorem cyc_some_nocycle : forall g n, check_for_cycles g = Some n -> ~ rec_cycle g.
Proof.
  intros g n H. unfold check_for_cycles in H.
  set (V0 := repeat false (length g)) in H at 1.
  assert (HV0 : forall k, nth k V0 false = false) by (intro k; unfold V0; apply nth_repeat_false).
  assert (Hgo : forall idxs chk calls res, length chk = length g -> cyc_good g chk ->
    (fix go (idxs : list nat) (visited checked : list bool) (calls : N) {struct idxs} : option N :=
       match idxs with
       | [] => Some calls
       | i :: rest =>
           if is_record g i && negb (nth i checked false) then
             match cyc_inner (S (length g)) g i visited checked (calls + 1) with
             | Some (v', c', n') => go rest v' c' n'
             | None => None
             end
           else go rest visited checked calls
       end) idxs V0 chk calls = Some res ->
    exists c', cyc_good g c' /\ (forall k, nth k chk false = true -> nth k c' false = true) /\
               (forall k, In k idxs -> is_record g k = true -> nth k c' false = true)).
  { induction idxs as [|i rest IH]; intros chk calls res Hl Hg Hr.
    - exists chk. split; [exact Hg|]. split; [auto|]. intros k [].
    - destruct (is_record g i && negb (nth i chk false)) eqn:E.
      + apply andb_prop in E. destruct E as [Er Ec]. apply negb_true_iff in Ec.
        assert (HiV0 : cyc_inv V0 chk) by (intros k Hk; rewrite HV0 in Hk; discriminate).
        destruct (cyc_inner (S (length g)) g i V0 chk (calls + 1)) as [[[v' c'] n']|] eqn:Ei; [|discriminate].
        pose proof Ei as Ei2.
        apply cyc_inner_post in Ei; [|unfold V0; apply repeat_length|exact Hl|apply is_record_lt; exact Er|apply HV0|exact Ec|exact HiV0].
        apply cyc_inner_sound in Ei2; [|unfold V0; apply repeat_length|exact Hl|apply is_record_lt; exact Er|apply HV0|exact Ec|exact HiV0|exact Hg].
        cbn [cyc_post post2] in Ei, Ei2. destruct Ei as (-> & Hl' & _ & _). destruct Ei2 as (G1 & M1 & F1).
        destruct (IH c' n' res ltac:(congruence) G1 Hr) as (c2 & G2 & M2 & F2).
        exists c2. split; [exact G2|]. split; [intros k Hk; apply M2, M1, Hk|].
        intros k [<-|Hk] Hrk; [apply M2, F1; [left; reflexivity|exact Hrk]|apply F2; assumption].
      + destruct (IH chk calls res Hl Hg Hr) as (c2 & G2 & M2 & F2).
        exists c2. split; [exact G2|]. split; [exact M2|].
        intros k [<-|Hk] Hrk; [|apply F2; assumption].
        rewrite Hrk in E. cbn [andb] in E. apply negb_false_iff in E. apply M2. exact E. }
  apply Hgo in H; [|apply repeat_length|].
  2:{ split; [intros a b Ha|intros k Hk]; rewrite nth_repeat_false in *; discriminate. }
  destruct H as (c' & (Cl & Ac) & _ & F). intros (k & Hk).
  pose proof Hk as Hk2. apply ct_first in Hk2. destruct Hk2 as (m & (nm & fs & lt & Hn & _ & _) & _).
  assert (Hr : is_record g k = true) by (unfold is_record; rewrite Hn; reflexivity).
  apply (Ac k); [|exact Hk]. apply F; [|exact Hr]. apply in_seq. pose proof (is_record_lt g k Hr). lia.
Qed.

Theorem check_for_cycles_exact : forall g, check_for_cycles g = None <-> rec_cycle g.
Proof.
  intro g. split; [apply cyc_none_cycle|]. intro Hc.
  destruct (check_for_cycles g) as [n|] eqn:E; [|reflexivity].
  exfalso. exact (cyc_some_nocycle g n E Hc).
Qed.

(** every schema the parser accepts -- whatever the document, forward references included -- has no
    record that contains itself through record fields only; equivalently, a document whose node
    graph has such a cycle is rejected *)
Theorem C07_parsed_acyclic : forall j g, parse_schema j = Ok g -> ~ rec_cycle g.
Proof.
  intros j g H. unfold parse_schema in H.
  apply rbind_ok_inv in H. destruct H as (r & _ & H).
  apply rbind_ok_inv in H. destruct H as (res & _ & H).
  apply rbind_ok_inv in H. destruct H as (resolved & _ & H).
  destruct (check_for_cycles _) as [n|] eqn:E; [|discriminate]. inversion H. subst g.
  eapply cyc_some_nocycle. exact E.
Qed.

(* the two simplest cycles *)
Lemma rec_cycle_self : forall g k nm fs lt,
  nth_error g k = Some (mkNode (RRecord nm fs) lt) -> In k (map snd fs) -> rec_cycle g.
Proof.
  intros g k nm fs lt Hn Hin. exists k. apply t_step. exists nm, fs, lt.
  split; [exact Hn|]. split; [exact Hin|]. unfold is_record. rewrite Hn. reflexivity.
Qed.

Lemma rec_cycle_two : forall g a b nma fsa lta nmb fsb ltb,
  nth_error g a = Some (mkNode (RRecord nma fsa) lta) -> In b (map snd fsa) ->
  nth_error g b = Some (mkNode (RRecord nmb fsb) ltb) -> In a (map snd fsb) -> rec_cycle g.
Proof.
  intros g a b nma fsa lta nmb fsb ltb Ha Hab Hb Hba. exists a.
  eapply t_trans; apply t_step.
  - exists nma, fsa, lta. split; [exact Ha|]. split; [exact Hab|]. unfold is_record. rewrite Hb. reflexivity.
  - exists nmb, fsb, ltb. split; [exact Hb|]. split; [exact Hba|]. unfold is_record. rewrite Ha. reflexivity.
Qed.

Print Assumptions cyc_some_nocycle.
Print Assumptions C07_parsed_acyclic.
