(** The dispatch of the datum deserializer is the dispatch of the crate's source.

    gen/GenDeDispatch.v is regenerated from serde_avro_fast/src/de/deserializer/mod.rs on every run
    (translators/gen_dispatch.py): per method of `impl Deserializer for DatumDeserializer`, one row
    (node kind, symbolic action) per match arm.  This file
      (i)   writes down, by hand, what the MODEL (model/De.v, [de]) does per kind: [model_de_any],
            [model_de_ignored], ... ;
      (ii)  gives every action symbol its meaning in terms of the model's primitives ([act_sem]) and proves
            that [de] IS the interpretation of the hand-written rows ([de_any_is_rows], [de_ignored_is_rows],
            [de_is_rows]: for every node, every target, every fuel/depth; by unfolding [de] one step);
      (iii) states that the regenerated tables are exactly the hand-written rows ([tie_de_any],
            [tie_de_ignored], ..., by [reflexivity]).
    (ii)+(iii) give [de_any_is_generated] / [de_ignored_is_generated]: [de] is the interpretation of the table
    recovered from the source.  When an arm of the source changes (another integer width, another visitor
    method, another flag for BlockReader::new, an added / removed / unrecognised arm), (iii) stops checking and
    every property check that depends on this file reports it. *)
From Coq Require Import NArith ZArith List Bool String.
Require Import Base Kinds Schema Varint Utf8 Sval Target Reader Text De.
Require Import AvroValue Encoding Denote Wf VarintProofs DeProofs DeSteps.
Require Import DispatchKinds GenDeDispatch.
Import ListNotations.
Open Scope N_scope.

(* ------------------------------------------------------------------ *)
(** * (i) The model's rows, written by reading model/De.v *)

(* [any] of [de] *)
Definition model_de_any (k : nkind) : daction :=
  match k with
  | NkNull => AVisitUnit
  | NkBoolean => AReadBool
  | NkInt | NkDate | NkTimeMillis => AVarint Wi32 Vi32
  | NkLong | NkTimeMicros | NkTimestampMillis | NkTimestampMicros => AVarint Wi64 Vi64
  | NkFloat => AFloat32
  | NkDouble => AFloat64
  | NkBytes => ALenDelimited LBytes
  | NkString | NkUuid => ALenDelimited LStr
  | NkArray => ASeq false
  | NkMap => AMap false
  | NkUnion => AUnion
  | NkRecord => ARecord
  | NkEnum => AEnumStr
  | NkFixed => AFixed LBytes
  | NkDecimal => ADecimal DRegular DHStr
  | NkBigDecimal => ADecimal DBig DHStr
  | NkDuration => ADuration DurMap 12
  end.

(* the TIgnored arm of [de]: the kinds with an arm of their own; everything else `_ => any` *)
Definition model_de_ignored (k : nkind) : option daction :=
  match k with
  | NkString => Some (ALenDelimited LBytes)            (* no utf-8 validation *)
  | NkArray => Some (ASeq true)
  | NkMap => Some (AMap true)
  | NkInt => Some (AVarint Wu32 Vunit)                 (* no zigzag decoding, 32-bit overflow check *)
  | NkLong | NkEnum => Some (AVarint Wu64 Vunit)
  | NkDuration => Some (AConst 12 Vunit)
  | _ => None
  end.

Definition model_de_u64 (k : nkind) : option daction :=
  match k with
  | NkEnum => Some (AVarintTry Wi64 Vu64)
  | NkDecimal => Some (ADecimal DRegular DHU64)
  | NkBigDecimal => Some (ADecimal DBig DHU64)
  | _ => None
  end.
Definition model_de_i64 (k : nkind) : option daction :=
  match k with
  | NkLong => Some (AVarint Wi64 Vi64)
  | NkDecimal => Some (ADecimal DRegular DHI64)
  | NkBigDecimal => Some (ADecimal DBig DHI64)
  | _ => None
  end.
Definition model_de_decimal_only (h : dhint) (k : nkind) : option daction :=
  match k with
  | NkDecimal => Some (ADecimal DRegular h)
  | NkBigDecimal => Some (ADecimal DBig h)
  | _ => None
  end.
Definition model_de_f64 (k : nkind) : option daction :=
  match k with
  | NkDouble => Some AFloat64
  | NkDecimal => Some (ADecimal DRegular DHF64)
  | NkBigDecimal => Some (ADecimal DBig DHF64)
  | _ => None
  end.
Definition model_de_str (k : nkind) : option daction :=
  match k with
  | NkString | NkBytes => Some (ALenDelimited LStr)
  | NkFixed => Some (AFixed LStr)
  | _ => None
  end.
Definition model_de_bytes (k : nkind) : option daction :=
  match k with
  | NkBytes => Some (ALenDelimited LBytes)
  | NkDuration => Some (ASlice 12 LBytes)
  | _ => None
  end.
Definition model_de_option (k : nkind) : option daction :=
  match k with
  | NkNull => Some AVisitNone
  | NkUnion => Some AOptionUnion
  | _ => None
  end.
Definition model_de_seq (k : nkind) : option daction :=
  match k with
  | NkArray => Some (ASeq false)
  | NkDuration => Some (ADuration DurSeq 12)
  | _ => None
  end.
Definition model_de_tuple (k : nkind) : option daction :=
  match k with
  | NkArray => Some (ATupleSeq false)
  | NkDuration => Some (AGuardLen 3 (ADuration DurSeq 12))
  | _ => None
  end.
Definition model_de_enum (k : nkind) : daction :=
  match k with
  | NkUnion => AEnumUnion
  | NkInt | NkLong | NkBytes | NkString | NkEnum | NkFixed => AEnumUnitVariant
  | _ => AEnumTypeName
  end.
Definition model_de_identifier (k : nkind) : option daction :=
  match k with
  | NkInt => Some (AVarintTry Wi32 Vu64)
  | NkLong => Some (AVarintTry Wi64 Vu64)
  | _ => None
  end.

(* the methods that are not a match: what the model assumes about them (see [table_for] below for where each
   assumption is used) *)
Definition model_de_forward : list (string * string) :=
  [ ("deserialize_bool", "forward_to_deserialize_any!");
    ("deserialize_byte_buf", "self . deserialize_bytes ( __V )");          (* HByteBuf = HBytes *)
    ("deserialize_char", "forward_to_deserialize_any!");
    ("deserialize_f32", "forward_to_deserialize_any!");
    ("deserialize_i16", "forward_to_deserialize_any!");
    ("deserialize_i32", "forward_to_deserialize_any!");
    ("deserialize_i8", "forward_to_deserialize_any!");
    ("deserialize_map", "self . deserialize_any ( __V )");                 (* TMap: any *)
    ("deserialize_newtype_struct", "__V . visit_newtype_struct ( self )"); (* TNewtypeStruct *)
    ("deserialize_string", "self . deserialize_str ( __V )");              (* HString = HStr *)
    ("deserialize_struct", "self . deserialize_map ( __V )");              (* TStruct: any *)
    ("deserialize_tuple_struct", "self . deserialize_tuple ( __p0 , __V )"); (* TTupleStruct = TTuple, same len *)
    ("deserialize_u16", "forward_to_deserialize_any!");
    ("deserialize_u32", "forward_to_deserialize_any!");
    ("deserialize_u8", "forward_to_deserialize_any!");
    ("deserialize_unit", "forward_to_deserialize_any!");
    ("deserialize_unit_struct", "forward_to_deserialize_any!") ]%string.

(* ------------------------------------------------------------------ *)
(** * (iii) The regenerated tables are the model's rows *)

Definition total_rows (f : nkind -> daction) : list (dkind * daction) := rows_of (fun k => Some (f k)) None.
Definition fallback_rows (f : nkind -> option daction) (wild : daction) : list (dkind * daction) := rows_of f (Some wild).

(* shown in the build log: the rows on which source and model differ (empty on an unchanged source); when one of the
   ties below stops checking, this names the arm *)
Definition DISPATCH_DIFF : list (string * list rowdiff) :=
  named_diffs
    [ ("deserialize_any", gen_de_any, total_rows model_de_any);
      ("deserialize_ignored_any", gen_de_ignored, fallback_rows model_de_ignored AFallbackAny);
      ("deserialize_u64", gen_de_u64, fallback_rows model_de_u64 AFallbackAny);
      ("deserialize_i64", gen_de_i64, fallback_rows model_de_i64 AFallbackAny);
      ("deserialize_u128", gen_de_u128, fallback_rows (model_de_decimal_only DHU128) AFallbackAny);
      ("deserialize_i128", gen_de_i128, fallback_rows (model_de_decimal_only DHI128) AFallbackAny);
      ("deserialize_f64", gen_de_f64, fallback_rows model_de_f64 AFallbackAny);
      ("deserialize_str", gen_de_str, fallback_rows model_de_str AFallbackAny);
      ("deserialize_bytes", gen_de_bytes, fallback_rows model_de_bytes AFallbackAny);
      ("deserialize_option", gen_de_option, fallback_rows model_de_option AVisitSomeSelf);
      ("deserialize_seq", gen_de_seq, fallback_rows model_de_seq AFallbackAny);
      ("deserialize_tuple", gen_de_tuple, fallback_rows model_de_tuple AFallbackAny);
      ("deserialize_enum", gen_de_enum, total_rows model_de_enum);
      ("deserialize_identifier", gen_de_identifier, fallback_rows model_de_identifier AFallbackAny) ]%string.
Eval vm_compute in DISPATCH_DIFF.
Eval vm_compute in (filter (fun x => negb (existsb (fun y => String.eqb (fst x) (fst y) && String.eqb (snd x) (snd y)) model_de_forward)) gen_de_forward).

Theorem tie_de_any : gen_de_any = map (fun k => (DK k, model_de_any k)) all_nkinds.
Proof. reflexivity. Qed.
Theorem tie_de_ignored : gen_de_ignored = fallback_rows model_de_ignored AFallbackAny.
Proof. reflexivity. Qed.
Theorem tie_de_u64 : gen_de_u64 = fallback_rows model_de_u64 AFallbackAny.
Proof. reflexivity. Qed.
Theorem tie_de_i64 : gen_de_i64 = fallback_rows model_de_i64 AFallbackAny.
Proof. reflexivity. Qed.
Theorem tie_de_u128 : gen_de_u128 = fallback_rows (model_de_decimal_only DHU128) AFallbackAny.
Proof. reflexivity. Qed.
Theorem tie_de_i128 : gen_de_i128 = fallback_rows (model_de_decimal_only DHI128) AFallbackAny.
Proof. reflexivity. Qed.
Theorem tie_de_f64 : gen_de_f64 = fallback_rows model_de_f64 AFallbackAny.
Proof. reflexivity. Qed.
Theorem tie_de_str : gen_de_str = fallback_rows model_de_str AFallbackAny.
Proof. reflexivity. Qed.
Theorem tie_de_bytes : gen_de_bytes = fallback_rows model_de_bytes AFallbackAny.
Proof. reflexivity. Qed.
Theorem tie_de_option : gen_de_option = fallback_rows model_de_option AVisitSomeSelf.
Proof. reflexivity. Qed.
Theorem tie_de_seq : gen_de_seq = fallback_rows model_de_seq AFallbackAny.
Proof. reflexivity. Qed.
Theorem tie_de_tuple : gen_de_tuple = fallback_rows model_de_tuple AFallbackAny.
Proof. reflexivity. Qed.
Theorem tie_de_enum : gen_de_enum = total_rows model_de_enum.
Proof. reflexivity. Qed.
Theorem tie_de_identifier : gen_de_identifier = fallback_rows model_de_identifier AFallbackAny.
Proof. reflexivity. Qed.
Theorem tie_de_forward : gen_de_forward = model_de_forward.
Proof. reflexivity. Qed.

(* ------------------------------------------------------------------ *)
(** * (ii) The meaning of the action symbols, and [de] as their interpretation *)

Section Sem.
Variable Sc : fschema.
Variable cfg : dcfg.

Definition bad : RM dval := rfail (Panic PUnreachable).   (* a symbol used where it has no meaning *)

Definition vty_of (w : ity) : vty :=
  match w with Wi32 => VI32 | Wi64 => VI64 | Wu32 => VU32 | Wu64 => VU64 end.
Definition vis_event (v : vmeth) (z : Z) : dval :=
  match v with
  | Vunit => DUnit
  | Vi32 => DInt true W32 z | Vi64 => DInt true W64 z
  | Vu32 => DInt false W32 z | Vu64 => DInt false W64 z
  end.
Definition hint_of (h : dhint) : vhint :=
  match h with DHStr => VHStr | DHU64 => VHU64 | DHI64 => VHI64 | DHU128 => VHU128 | DHI128 => VHI128 | DHF64 => VHF64 end.
Definition dur_vals (bs : bytes) : list N :=
  [le_val (firstn 4 bs); le_val (firstn 4 (skipn 4 bs)); le_val (skipn 8 bs)].
Definition slice_event (v : ldvis) (r : bytes * option N) : RM dval :=
  match v with LBytes => sret (bytes_event r) | LStr => str_event r end.

(* [any]: what deserialize_any does on this node (for AFallbackAny); [wild]: what the `_` arm does (for a guard
   that fails); [len]: the `len` argument of deserialize_tuple *)
Fixpoint act_sem (any wild : RM dval) (t : dtarget) (len : nat) (f : nat) (n : fnode) (depth : nat)
                 (favor : bool) (a : daction) {struct a} : RM dval :=
  match a with
  | AVisitUnit => sret (leaf t DUnit)
  | AVisitNone => sret DNone
  | AVisitSomeSelf =>
      match t with
      | TOption t' => do* d <- de Sc cfg f n depth favor false t'; sret (DSome d)
      | _ => bad
      end
  | AReadBool => do* e <- read_bool; sret (leaf t e)
  | AVarint w v => do* z <- read_varint (vty_of w); sret (leaf t (vis_event v z))
  | AVarintTry w Vu64 =>
      do* z <- read_varint (vty_of w);
      if (z <? 0)%Z then rfail (Err EData) else sret (leaf t (DInt false W64 z))
  | AVarintTry _ _ => bad
  | AFloat32 => do* bs <- read_exact 4; sret (leaf t (DF32 (le_val bs)))
  | AFloat64 => do* bs <- read_exact 8; sret (leaf t (DF64 (le_val bs)))
  | ALenDelimited LBytes => do* e <- read_ld_bytes; sret (leaf t e)
  | ALenDelimited LStr => do* e <- read_ld_str; sret (leaf t e)
  | ASeq ign =>
      match n with
      | FArray items => do* d' <- dec_depth depth; seq_array Sc cfg f items d' ign t blk0 false
      | _ => bad
      end
  | ATupleSeq ign =>
      match n with
      | FArray items => do* d' <- dec_depth depth; seq_array Sc cfg f items d' ign t blk0 true
      | _ => bad
      end
  | AMap ign =>
      match n with
      | FMap values => do* d' <- dec_depth depth; map_visit Sc cfg f (MSMap values d' ign blk0) t
      | _ => bad
      end
  | AUnion =>
      match n with
      | FUnion variants =>
          do* disc <- read_usize;
          match nth_N variants disc with
          | None => rfail (Err EData)
          | Some k =>
              do* d' <- dec_depth depth;
              do* n' <- node_at Sc k;
              de Sc cfg f n' d' false true t
          end
      | _ => bad
      end
  | ARecord =>
      match n with
      | FRecord _ fields => do* d' <- dec_depth depth; map_visit Sc cfg f (MSRecord fields d') t
      | _ => bad
      end
  | AEnumStr =>
      match n with
      | FEnum _ symbols =>
          do* disc <- read_usize;
          match nth_N symbols disc with
          | None => rfail (Err EData)
          | Some s => sret (leaf t (DStr s))
          end
      | _ => bad
      end
  | AFixed v =>
      match n with
      | FFixed _ size => do* r <- read_slice size; do* e <- slice_event v r; sret (leaf t e)
      | _ => bad
      end
  | ASlice size v => do* r <- read_slice size; do* e <- slice_event v r; sret (leaf t e)
  | ADecimal m h =>
      match m, n with
      | DRegular, FDecimal _ _ _ | DBig, FBigDecimal => do* e <- read_decimal n (hint_of h); sret (leaf t e)
      | _, _ => bad
      end
  | AConst size Vunit => do* _ <- read_exact size; sret (leaf t DUnit)
  | AConst _ _ => bad
  | ADuration DurMap size => do* bs <- read_exact size; map_visit Sc cfg f (MSDuration (dur_vals bs) O) t
  | ADuration DurSeq size => do* bs <- read_exact size; seq_duration Sc cfg f (dur_vals bs) t
  | AGuardLen k a' => if Nat.eqb len (N.to_nat k) then act_sem any wild t len f n depth favor a' else wild
  | AEnumUnion =>
      match t, n with
      | TEnum _ variants, FUnion uvariants =>
          do* disc <- read_usize;
          match nth_N uvariants disc with
          | None => rfail (Err EData)
          | Some k => do* d' <- dec_depth depth; do* vn <- node_at Sc k;
                      enum_payload Sc cfg f variants (type_name vn) vn d'
          end
      | _, _ => bad
      end
  | AEnumTypeName =>
      match t with
      | TEnum _ variants => do* d' <- dec_depth depth; enum_payload Sc cfg f variants (type_name n) n d'
      | _ => bad
      end
  | AEnumUnitVariant =>
      match t with
      | TEnum _ variants =>
          do* d' <- dec_depth depth;
          do* key <- de Sc cfg f n d' false false (THint HIdentifier);
          let idx :=
            match key with
            | DInt false W64 z =>
                if (z <? Z.of_nat (List.length variants))%Z then Some (Z.to_nat z) else None
            | _ => match dval_bytes key with
                   | Some s => index_of s (map fst variants)
                   | None => None
                   end
            end in
          match idx with
          | None => rfail (Err EData)
          | Some i =>
              match nth_error variants i with
              | Some (vname, TVUnit) => sret (DEnum vname DUnit)
              | _ => rfail (Err EData)
              end
          end
      | _ => bad
      end
  | AOptionUnion =>
      match t, n with
      | TOption t', FUnion variants =>
          do* disc <- read_usize;
          match nth_N variants disc with
          | None => rfail (Err EData)
          | Some k =>
              do* vn <- node_at Sc k;
              match vn with
              | FNull => sret DNone
              | _ =>
                  let other_is_null :=
                    Nat.eqb (List.length variants) 2 &&
                    match nth_error variants (1 - N.to_nat disc) with
                    | Some k2 => match fnode_at Sc k2 with Some FNull => true | _ => false end
                    | None => false
                    end in
                  do* d' <- dec_depth depth;
                  do* d <- de Sc cfg f vn d' (negb other_is_null) false t';
                  sret (DSome d)
              end
          end
      | _, _ => bad
      end
  | AFallbackAny => any
  | AUnknown _ => bad
  end.

(* a whole method: the arm selected for the node's kind, interpreted *)
Definition sem_any (tbl_any : list (dkind * daction)) (t : dtarget) (f : nat) (n : fnode) (depth : nat) (favor : bool)
  : RM dval :=
  act_sem bad bad t O f n depth favor (arm_of tbl_any (kind_of n)).
Definition sem_method (tbl_any tbl : list (dkind * daction)) (t : dtarget) (len : nat) (f : nat) (n : fnode)
                      (depth : nat) (favor : bool) : RM dval :=
  let any := sem_any tbl_any t f n depth favor in
  let wild := match find_wild tbl with
              | Some a => act_sem any bad t len f n depth favor a
              | None => bad
              end in
  act_sem any wild t len f n depth favor (arm_of tbl (kind_of n)).

(* the rows as tables *)
Definition rows_any := total_rows model_de_any.
Definition rows_ignored := fallback_rows model_de_ignored AFallbackAny.

(** ** deserialize_any: every kind *)
Lemma de_any_is_rows f n depth favor t :
  de Sc cfg (S f) n depth favor true t = sem_any rows_any t f n depth favor.
Proof. rewrite de_S. destruct n; reflexivity. Qed.

(** ** deserialize_ignored_any: every kind *)
Lemma de_ignored_is_rows f n depth favor :
  de Sc cfg (S f) n depth favor false TIgnored
  = sem_method rows_any rows_ignored TIgnored O f n depth favor.
Proof. rewrite de_S. destruct n; reflexivity. Qed.

(** ** every target: which method's rows [de] interprets *)
Definition hint_rows (h : hint) : list (dkind * daction) :=
  match h with
  | HBool | HI8 | HI16 | HI32 | HU8 | HU16 | HU32 | HF32 | HChar | HUnit => rows_any     (* forward_to_deserialize_any! *)
  | HU64 => fallback_rows model_de_u64 AFallbackAny
  | HI64 => fallback_rows model_de_i64 AFallbackAny
  | HU128 => fallback_rows (model_de_decimal_only DHU128) AFallbackAny
  | HI128 => fallback_rows (model_de_decimal_only DHI128) AFallbackAny
  | HF64 => fallback_rows model_de_f64 AFallbackAny
  | HStr | HString => fallback_rows model_de_str AFallbackAny                            (* string -> str *)
  | HBytes | HByteBuf => fallback_rows model_de_bytes AFallbackAny                       (* byte_buf -> bytes *)
  | HIdentifier => fallback_rows model_de_identifier AFallbackAny
  end.
Definition table_for (t : dtarget) : option (list (dkind * daction)) :=
  match t with
  | TAny | TUnitStruct _ | TMap _ _ | TStruct _ _ | TVUnit | TVNewtype _ => Some rows_any  (* map -> any, struct -> map *)
  | TIgnored => Some rows_ignored
  | THint h => Some (hint_rows h)
  | TNewtypeStruct _ _ => None                         (* visit_newtype_struct(self): see [de_newtype_struct] *)
  | TOption _ => Some (fallback_rows model_de_option AVisitSomeSelf)
  | TSeq _ => Some (fallback_rows model_de_seq AFallbackAny)
  | TTuple _ | TTupleStruct _ _ => Some (fallback_rows model_de_tuple AFallbackAny)   (* tuple_struct -> tuple *)
  | TEnum _ _ => Some (total_rows model_de_enum)
  end.
Definition tuple_len (t : dtarget) : nat :=
  match t with TTuple ts | TTupleStruct _ ts => List.length ts | _ => O end.
(* a TEnum target reached through FavorSchemaTypeNameIfEnumHintDatumDeserializer (favor = true) is served by that
   wrapper's own deserialize_enum, not by this impl *)
Definition served_here (t : dtarget) (favor : bool) : bool :=
  match t with TEnum _ _ => negb favor | _ => true end.

Lemma any_rows_fallback f n depth favor t :
  sem_method rows_any rows_any t O f n depth favor = sem_any rows_any t f n depth favor.
Proof. destruct n; reflexivity. Qed.

Theorem de_is_rows f n depth favor t tbl :
  table_for t = Some tbl -> served_here t favor = true ->
  de Sc cfg (S f) n depth favor false t = sem_method rows_any tbl t (tuple_len t) f n depth favor.
Proof.
  intros Ht Hs. rewrite de_S.      (* one-step unfolding of the mutual fixpoint, proofs/DeSteps.v *)
  destruct t; simpl in Ht; try discriminate; injection Ht as <-;
    try match goal with |- context [THint ?h] => destruct h end;
    try match goal with H : served_here (TEnum _ _) _ = true |- _ => simpl in H; destruct favor; [discriminate|] end;
    destruct n; reflexivity.
Qed.

Lemma de_newtype_struct f n depth favor nm t' :
  de Sc cfg (S f) n depth favor false (TNewtypeStruct nm t')
  = (do* d <- de Sc cfg f n depth favor false t'; sret (DNewtype d)).
Proof. reflexivity. Qed.

(** ** ... and therefore of the tables regenerated from the source *)
Theorem de_any_is_generated f n depth favor t :
  de Sc cfg (S f) n depth favor true t = sem_any gen_de_any t f n depth favor.
Proof. exact (de_any_is_rows f n depth favor t). Qed.

Theorem de_ignored_is_generated f n depth favor :
  de Sc cfg (S f) n depth favor false TIgnored
  = sem_method gen_de_any gen_de_ignored TIgnored O f n depth favor.
Proof. exact (de_ignored_is_rows f n depth favor). Qed.

End Sem.

(* the generated table each target is served by (the same as [table_for], over the generated names) *)
Definition gen_hint_table (h : hint) : list (dkind * daction) :=
  match h with
  | HBool | HI8 | HI16 | HI32 | HU8 | HU16 | HU32 | HF32 | HChar | HUnit => gen_de_any
  | HU64 => gen_de_u64 | HI64 => gen_de_i64 | HU128 => gen_de_u128 | HI128 => gen_de_i128
  | HF64 => gen_de_f64
  | HStr | HString => gen_de_str
  | HBytes | HByteBuf => gen_de_bytes
  | HIdentifier => gen_de_identifier
  end.
Definition gen_table_for (t : dtarget) : option (list (dkind * daction)) :=
  match t with
  | TAny | TUnitStruct _ | TMap _ _ | TStruct _ _ | TVUnit | TVNewtype _ => Some gen_de_any
  | TIgnored => Some gen_de_ignored
  | THint h => Some (gen_hint_table h)
  | TNewtypeStruct _ _ => None
  | TOption _ => Some gen_de_option
  | TSeq _ => Some gen_de_seq
  | TTuple _ | TTupleStruct _ _ => Some gen_de_tuple
  | TEnum _ _ => Some gen_de_enum
  end.
Lemma gen_table_for_eq t : gen_table_for t = table_for t.
Proof. destruct t; reflexivity. Qed.

Theorem de_is_generated Sc cfg f n depth favor t tbl :
  gen_table_for t = Some tbl -> served_here t favor = true ->
  de Sc cfg (S f) n depth favor false t = sem_method Sc cfg gen_de_any tbl t (tuple_len t) f n depth favor.
Proof. rewrite gen_table_for_eq. exact (de_is_rows Sc cfg f n depth favor t tbl). Qed.
