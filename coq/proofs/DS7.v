(** Typed round trip (property C01 for ordinary Rust data types), slice mode:
    every valid encoding of a conforming value, read with the natural typed target of its node
    ([typed_target] of spec/Denote.v: struct per record, enum per union, Option for [null,T] /
    [T,null], unit enum per Avro enum, Vec, string-keyed map, primitives, str/bytes, (u32,u32,u32)
    for durations), is accepted, consumes exactly the encoding and yields [dval_typed].
    - [de_typed_gen]            the induction
    - [de_typed_complete]       the theorem (depth budget [tcost]: an Avro enum costs one level)
    - [de_typed_complete_depth] ... with the budget [depth_cost e < depth]
    - [de_typed_enum_needs_depth], [de_typed_needs_unfolding], [de_typed_needs_node_wf]
                                why the extra hypotheses are there *)
From Coq Require Import NArith ZArith List Lia Bool.
From Coq Require Import ZifyN ZifyBool ZifyNat.
Require Import Base Kinds Schema Varint Utf8 Sval Target Reader Text De.
Require Import AvroValue Encoding Denote Wf VarintProofs.
Require Import DeProofs.
Import ListNotations.
Open Scope N_scope.

Ltac Zify.zify_post_hook ::= Z.to_euclidean_division_equations.

Arguments N.add : simpl never.
Arguments N.sub : simpl never.
Arguments N.mul : simpl never.
Arguments N.div : simpl never.
Arguments N.modulo : simpl never.
Arguments N.pow : simpl never.
Arguments N.shiftl : simpl never.
Arguments N.shiftr : simpl never.
Arguments N.land : simpl never.
Arguments N.lor : simpl never.
Arguments N.ltb : simpl never.
Arguments N.leb : simpl never.
Arguments N.eqb : simpl never.
Arguments N.of_nat : simpl never.
Arguments N.to_nat : simpl never.
Arguments N.min : simpl never.
Arguments Z.of_nat : simpl never.
Arguments Z.of_N : simpl never.
Arguments Z.to_N : simpl never.
Arguments Z.add : simpl never.
Arguments Z.sub : simpl never.
Arguments Z.mul : simpl never.
Arguments Z.pow : simpl never.
Arguments Z.ltb : simpl never.
Arguments Z.leb : simpl never.
Arguments Z.eqb : simpl never.
Arguments Z.opp : simpl never.
Arguments Z.abs : simpl never.
Arguments Z.modulo : simpl never.

(* ------------------------------------------------------------------ *)
Require Import DS1 DS2 DS3 DS4 DS5 DeSteps DS6.
(* ------------------------------------------------------------------ *)
(** * 17. The depth budget of the typed consumer *)

(* as [depth_cost], except that an Avro enum read through deserialize_enum costs one level *)
Fixpoint tcost (e : evalue) : nat :=
  match e with
  | EArray blocks => S (list_max (flat_map (fun blk => map tcost (snd blk)) blocks))
  | EMap blocks => S (list_max (flat_map (fun blk => map (fun kv => tcost (snd kv)) (snd blk)) blocks))
  | EUnion _ v => S (tcost v)
  | ERecord fs => S (list_max (map tcost fs))
  | EEnum _ => 1%nat
  | _ => O
  end.

Lemma list_max_map_le {A} (f g : A -> nat) l :
  Forall (fun x => (f x <= g x)%nat) l -> (list_max (map f l) <= list_max (map g l))%nat.
Proof.
  induction 1 as [|x l Hx _ IH]; [apply le_n|].
  unfold list_max in *. cbn [map fold_right]. lia.
Qed.

Lemma list_max_map_le_S {A} (f g : A -> nat) l :
  Forall (fun x => (f x <= S (g x))%nat) l -> (list_max (map f l) <= S (list_max (map g l)))%nat.
Proof.
  induction 1 as [|x l Hx _ IH]; [unfold list_max; cbn [map fold_right]; lia|].
  unfold list_max in *. cbn [map fold_right]. lia.
Qed.

Lemma Forall_flat_snd {A B} (P : B -> Prop) (blocks : list (A * list B)) :
  Forall (fun blk => Forall P (snd blk)) blocks -> Forall P (flat_map snd blocks).
Proof.
  induction 1 as [|blk r H _ IH]; [constructor|]. cbn [flat_map]. apply Forall_app. split; assumption.
Qed.

Lemma depth_cost_le_tcost : forall e, (depth_cost e <= tcost e)%nat.
Proof.
  induction e using evalue_ind'; cbn [depth_cost tcost]; try lia.
  - rewrite !flat_map_map_snd. apply le_n_S. apply list_max_map_le. apply Forall_flat_snd. exact H.
  - rewrite !flat_map_map_snd. apply le_n_S.
    apply (list_max_map_le (fun kv : bytes * evalue => depth_cost (snd kv)) (fun kv => tcost (snd kv))).
    apply Forall_flat_snd. exact H.
  - apply le_n_S. apply list_max_map_le. exact H.
Qed.

Lemma tcost_le_S_depth_cost : forall e, (tcost e <= S (depth_cost e))%nat.
Proof.
  induction e using evalue_ind'; cbn [depth_cost tcost]; try lia.
  - rewrite !flat_map_map_snd. apply le_n_S. apply list_max_map_le_S. apply Forall_flat_snd. exact H.
  - rewrite !flat_map_map_snd. apply le_n_S.
    apply (list_max_map_le_S (fun kv : bytes * evalue => tcost (snd kv)) (fun kv => depth_cost (snd kv))).
    apply Forall_flat_snd. exact H.
  - apply le_n_S. apply list_max_map_le_S. exact H.
Qed.

Lemma tcost_array_in blocks blk it d :
  In blk blocks -> In it (snd blk) -> (tcost (EArray blocks) <= S d)%nat -> (tcost it <= d)%nat.
Proof.
  intros Hb Hi H. cbn [tcost] in H. rewrite flat_map_map_snd in H.
  assert (Hin : In it (flat_map snd blocks)) by (apply in_flat_map; exists blk; split; assumption).
  pose proof (list_max_in _ _ (in_map tcost _ _ Hin)). lia.
Qed.

Lemma tcost_map_in (blocks : list (bool * list (bytes * evalue))) blk kv d :
  In blk blocks -> In kv (snd blk) -> (tcost (EMap blocks) <= S d)%nat -> (tcost (snd kv) <= d)%nat.
Proof.
  intros Hb Hi H. cbn [tcost] in H. rewrite flat_map_map_snd in H.
  assert (Hin : In kv (flat_map snd blocks)) by (apply in_flat_map; exists blk; split; assumption).
  pose proof (list_max_in _ _ (in_map (fun kv : bytes * evalue => tcost (snd kv)) _ _ Hin)).
  cbv beta in *. lia.
Qed.

Lemma tcost_record_in fs v d :
  In v fs -> (tcost (ERecord fs) <= S d)%nat -> (tcost v <= d)%nat.
Proof.
  intros Hi H. cbn [tcost] in H. pose proof (list_max_in _ _ (in_map tcost _ _ Hi)). lia.
Qed.

(* ------------------------------------------------------------------ *)
(** * 18. Unfolding [typed_target] / [dval_typed]; what [node_wf] gives *)

(* the name typed_target gives the enum of a union: "U" *)
Definition enumU : bytes :=
  str_lit (String.String (Ascii.Ascii true false true false true false true false) String.EmptyString).
Example enumU_is_U : enumU = [85].
Proof. reflexivity. Qed.

Definition is_fnull (n : fnode) : bool := match n with FNull => true | _ => false end.

Lemma is_fnull_true n : is_fnull n = true -> n = FNull.
Proof. destruct n; intro H; try discriminate H. reflexivity. Qed.

Section TypedDefs.
Variable Sc : fschema.

Definition tt_at (f : nat) (k : nat) : dtarget :=
  match fnode_at Sc k with Some n' => typed_target Sc f n' | None => TAny end.
Definition dtyped_at (k : nat) (v : avalue) : dval :=
  match fnode_at Sc k with Some n' => dval_typed Sc n' v | None => DMissing end.

Definition is_null_at (k : nat) : bool := match fnode_at Sc k with Some FNull => true | _ => false end.
Definition as_option (ks : list nat) : bool :=
  match ks with
  | [a; b0] => (is_null_at a && negb (is_null_at b0)) || (is_null_at b0 && negb (is_null_at a))
  | _ => false
  end.
Definition uvariant (f : nat) (k : nat) : bytes * dtarget :=
  match fnode_at Sc k with
  | Some FNull => (type_name FNull, TVUnit)
  | Some n' => (type_name n', TVNewtype (typed_target Sc f n'))
  | None => ([], TVUnit)
  end.
Definition uname (k : nat) : bytes := match fnode_at Sc k with Some v => type_name v | None => [] end.

Fixpoint dtyped_fields (fields : list (bytes * nat)) (vs : list avalue) {struct vs} : list (bytes * dval) :=
  match fields, vs with
  | (f, k) :: fr, v' :: vr => (f, dtyped_at k v') :: dtyped_fields fr vr
  | _, _ => []
  end.

Lemma tt_array f k : typed_target Sc (S f) (FArray k) = TSeq (tt_at f k).
Proof. reflexivity. Qed.
Lemma tt_map f k : typed_target Sc (S f) (FMap k) = TMap (THint HStr) (tt_at f k).
Proof. reflexivity. Qed.
Lemma tt_record f nm fields :
  typed_target Sc (S f) (FRecord nm fields)
  = TStruct (nm_full nm) (map (fun fk => (fst fk, tt_at f (snd fk))) fields).
Proof. reflexivity. Qed.
Lemma tt_enum f nm syms :
  typed_target Sc (S f) (FEnum nm syms) = TEnum (nm_full nm) (map (fun s => (s, TVUnit)) syms).
Proof. reflexivity. Qed.
Lemma tt_duration f : typed_target Sc (S f) FDuration = TTuple [THint HU32; THint HU32; THint HU32].
Proof. reflexivity. Qed.

Lemma tt_union_enum f ks :
  as_option ks = false ->
  typed_target Sc (S f) (FUnion ks) = TEnum enumU (map (uvariant f) ks).
Proof.
  intro H. destruct ks as [|a [|b0 [|c r]]]; try reflexivity.
  unfold as_option in H. apply orb_false_iff in H. destruct H as [H1 H2].
  cbn [typed_target]. fold (is_null_at a). fold (is_null_at b0). rewrite H1, H2. reflexivity.
Qed.

(* the Option case: the target of the non-null branch, and the other branch is null *)
Lemma tt_union_option f ks :
  as_option ks = true ->
  exists t, typed_target Sc (S f) (FUnion ks) = TOption t /\
    forall i k n', nth_error ks i = Some k -> fnode_at Sc k = Some n' -> is_fnull n' = false ->
      t = typed_target Sc f n' /\
      Nat.eqb (length ks) 2 &&
      match nth_error ks (1 - i) with
      | Some k2 => match fnode_at Sc k2 with Some FNull => true | _ => false end
      | None => false
      end = true.
Proof.
  intro H. destruct ks as [|a [|b0 [|c r]]]; try discriminate H.
  unfold as_option in H. cbn [typed_target]. fold (is_null_at a). fold (is_null_at b0).
  destruct (is_null_at a && negb (is_null_at b0)) eqn:H1.
  - eexists. split; [reflexivity|]. intros i k n' Hk Hn Hnn.
    apply andb_prop in H1. destruct H1 as [Ha Hb].
    destruct i as [|[|i]]; cbn [nth_error] in Hk; try (destruct i; discriminate Hk).
    + inversion Hk; subst k. unfold is_null_at in Ha. rewrite Hn in Ha.
      destruct n'; try discriminate Ha. discriminate Hnn.
    + inversion Hk; subst k. rewrite Hn. split; [reflexivity|].
      cbn [length Nat.eqb Nat.sub nth_error andb]. exact Ha.
  - cbn [orb] in H. rewrite H. eexists. split; [reflexivity|]. intros i k n' Hk Hn Hnn.
    apply andb_prop in H. destruct H as [Hb Ha].
    destruct i as [|[|i]]; cbn [nth_error] in Hk; try (destruct i; discriminate Hk).
    + inversion Hk; subst k. rewrite Hn. split; [reflexivity|].
      cbn [length Nat.eqb Nat.sub nth_error andb]. exact Hb.
    + inversion Hk; subst k. unfold is_null_at in Hb. rewrite Hn in Hb.
      destruct n'; try discriminate Hb. discriminate Hnn.
Qed.

Lemma uvariant_at f k n' :
  fnode_at Sc k = Some n' ->
  uvariant f k = if is_fnull n' then (type_name FNull, TVUnit)
                 else (type_name n', TVNewtype (typed_target Sc f n')).
Proof. intro H. unfold uvariant. rewrite H. destruct n'; reflexivity. Qed.

Lemma uvariant_names f ks : map fst (map (uvariant f) ks) = map uname ks.
Proof.
  rewrite map_map. apply map_ext. intro k. unfold uvariant, uname.
  destruct (fnode_at Sc k) as [[]|]; reflexivity.
Qed.

(* dval_typed *)
Lemma dtyped_array k vs : dval_typed Sc (FArray k) (AArray vs) = DSeq (map (dtyped_at k) vs).
Proof. reflexivity. Qed.
Lemma dtyped_map k kvs :
  dval_typed Sc (FMap k) (AMap kvs) = DMap (map (fun kv => (DStr (fst kv), dtyped_at k (snd kv))) kvs).
Proof. reflexivity. Qed.
Lemma dtyped_record nm fields vs :
  dval_typed Sc (FRecord nm fields) (ARecord vs) = DStruct (dtyped_fields fields vs).
Proof. reflexivity. Qed.
Lemma dtyped_enum nm syms i : dval_typed Sc (FEnum nm syms) (AEnum i) = DEnum (nth i syms []) DUnit.
Proof. reflexivity. Qed.
Lemma dtyped_union ks i v' k n' :
  nth_error ks i = Some k -> fnode_at Sc k = Some n' ->
  dval_typed Sc (FUnion ks) (AUnion i v')
  = if as_option ks then (if is_fnull n' then DNone else DSome (dval_typed Sc n' v'))
    else (if is_fnull n' then DEnum (type_name FNull) DUnit
          else DEnum (type_name n') (dval_typed Sc n' v')).
Proof.
  intros Hk Hn. cbn [dval_typed]. rewrite Hk, Hn.
  change (match ks with
          | [a; b0] =>
              (match fnode_at Sc a with Some FNull => true | _ => false end &&
               negb match fnode_at Sc b0 with Some FNull => true | _ => false end) ||
              (match fnode_at Sc b0 with Some FNull => true | _ => false end &&
               negb match fnode_at Sc a with Some FNull => true | _ => false end)
          | _ => false
          end) with (as_option ks).
  destruct (as_option ks); destruct n'; reflexivity.
Qed.

(* node_wf *)
Lemma schema_wf_node k n' : schema_wf Sc = true -> fnode_at Sc k = Some n' -> node_wf Sc n' = true.
Proof.
  intros H Hn. unfold schema_wf in H. apply andb_prop in H. destruct H as [_ H].
  rewrite forallb_forall in H. apply H. unfold fnode_at in Hn. eapply nth_error_In. exact Hn.
Qed.

Lemma node_wf_union ks : node_wf Sc (FUnion ks) = true -> NoDup (map uname ks).
Proof.
  intro H. unfold node_wf in H. apply andb_prop in H. destruct H as [_ H].
  apply andb_prop in H. destruct H as [_ H]. apply distinct_NoDup. exact H.
Qed.

Lemma node_wf_record nm fields : node_wf Sc (FRecord nm fields) = true -> NoDup (map fst fields).
Proof.
  intro H. unfold node_wf in H. apply andb_prop in H. destruct H as [_ H].
  apply andb_prop in H. destruct H as [H _]. apply andb_prop in H. destruct H as [H _].
  apply distinct_NoDup. exact H.
Qed.

Lemma node_wf_enum nm syms : node_wf Sc (FEnum nm syms) = true -> NoDup syms.
Proof.
  intro H. unfold node_wf in H. apply andb_prop in H. destruct H as [_ H].
  apply andb_prop in H. destruct H as [H _]. apply andb_prop in H. destruct H as [H _].
  apply andb_prop in H. destruct H as [H _]. apply distinct_NoDup. exact H.
Qed.

End TypedDefs.

(* ------------------------------------------------------------------ *)
(** * 19. Leaves, enums and durations *)

Definition plain_leaf (e : evalue) : bool :=
  match e with
  | EArray _ | EMap _ | EUnion _ _ | ERecord _ | EDuration _ _ _ | EEnum _ => false
  | _ => true
  end.

Definition plainnode (n : fnode) : bool :=
  match n with
  | FArray _ | FMap _ | FUnion _ | FRecord _ _ | FDuration | FEnum _ _ => false
  | _ => true
  end.

Lemma plainnode_leafnode n : plainnode n = true -> leafnode n = true.
Proof. destruct n; intro H; try discriminate H; reflexivity. Qed.

Lemma conforms_plainnode Sc e n :
  plain_leaf e = true -> conforms Sc n (erase e) = true -> plainnode n = true.
Proof.
  intros Hl Hc. destruct e; try discriminate Hl; destruct n; try reflexivity;
    cbn [erase conforms] in Hc; discriminate Hc.
Qed.

Lemma dval_typed_plain Sc e n : plain_leaf e = true -> dval_typed Sc n (erase e) = dval_any Sc n (erase e).
Proof. destruct e; intro H; try discriminate H; reflexivity. Qed.

(* the conforming node of a value (as in DS4) *)
Ltac node_of Hc :=
  match type of Hc with
  | conforms _ ?n _ = true =>
      destruct n; cbn [erase] in *;
      try (cbn [conforms] in Hc; discriminate Hc);
      try (cbn [conforms] in Hc;
           match type of Hc with
           | match ?r with _ => _ end = true => destruct r as [[? ?]|]; discriminate Hc
           end)
  end.

Lemma map_fst_unit_variants (syms : list bytes) : map fst (map (fun s => (s, TVUnit)) syms) = syms.
Proof. rewrite map_map. cbn [fst]. apply map_id. Qed.

Section TypedLeaves.
Variable Sc : fschema.
Variable cfg : dcfg.
Hypothesis Hwf : schema_wf Sc = true.

Definition Rty (n : fnode) (e : evalue) (d : dval) : Prop :=
  erase_borrow d = dval_typed Sc n (erase e).
Definition Rty_at (k : nat) (e : evalue) (d : dval) : Prop :=
  erase_borrow d = dtyped_at Sc k (erase e).

Definition typed_ok (e : evalue) : Prop :=
  forall tf n depth,
    adm Sc cfg n e -> node_wf Sc n = true -> (depth_cost e < tf)%nat -> (tcost e <= depth)%nat ->
    node_g Sc cfg (typed_target Sc tf n) (Rty n) n depth e.

Lemma typed_item_g e k dp f d' :
  typed_ok e -> pre_at Sc cfg k dp e -> (dp < f)%nat -> (tcost e <= d')%nat ->
  item_g Sc cfg (tt_at Sc f k) (Rty_at k) k d' e.
Proof.
  intros HP (n' & Hn & Hp) Hf Hd. exists n'. split; [exact Hn|].
  unfold tt_at. rewrite Hn.
  assert (Hdc : (depth_cost e < f)%nat) by (destruct Hp as (_ & _ & _ & Hdp & _); lia).
  pose proof (HP f n' d' (pre_adm _ _ _ _ _ Hp) (schema_wf_node Sc k n' Hwf Hn) Hdc Hd) as H.
  intros fuel rest pos ma Hfuel. destruct (H fuel rest pos ma Hfuel) as (d & Hde & HR).
  exists d. split; [exact Hde|]. unfold Rty_at, dtyped_at. rewrite Hn. exact HR.
Qed.

Lemma de_typed_plain_eq fu f n depth :
  plainnode n = true ->
  de Sc cfg (S fu) n depth false false (typed_target Sc (S f) n)
  = any_g Sc cfg (typed_target Sc (S f) n) fu n depth.
Proof. destruct n; intro H; try discriminate H; reflexivity. Qed.

Lemma leaf_typed_plain f n d : plainnode n = true -> leaf (typed_target Sc (S f) n) d = d.
Proof. destruct n; intro H; try discriminate H; reflexivity. Qed.

Lemma case_typed_plain : forall e, plain_leaf e = true -> typed_ok e.
Proof.
  intros e Hpl tf n depth Hadm Hnwf Htf Hd fuel rest pos ma Hfuel.
  destruct tf as [|f]; [lia|].
  pose proof Hadm as (Hc & _).
  pose proof (conforms_plainnode Sc e n Hpl Hc) as Hpn.
  assert (Hpre : pre Sc cfg n depth e).
  { apply adm_pre; [exact Hadm|]. pose proof (depth_cost_le_tcost e). lia. }
  destruct fuel as [|fu]; [unfold de_fuel in Hfuel; lia|].
  destruct (de_any_gen Sc cfg e n depth Hpre (S fu) false false rest pos ma Hfuel) as (d & Hde & Hdv).
  rewrite de_any_eq in Hde.
  pose proof (any_g_of_any_step Sc cfg (typed_target Sc (S f) n) fu n depth _ d _
                (plainnode_leafnode n Hpn) Hde) as Hg.
  rewrite (leaf_typed_plain f n d Hpn) in Hg.
  exists d. split.
  - rewrite (de_typed_plain_eq fu f n depth Hpn). exact Hg.
  - unfold Rty. rewrite (dval_typed_plain Sc e n Hpl). exact Hdv.
Qed.

(* Avro enums: deserialize_enum reads the discriminant through deserialize_identifier *)
Lemma de_enum_enum_eq fu nm syms depth en variants :
  de Sc cfg (S fu) (FEnum nm syms) depth false false (TEnum en variants)
  = (do* d' <- dec_depth depth;
     do* key <- de Sc cfg fu (FEnum nm syms) d' false false (THint HIdentifier);
     let idx :=
       match key with
       | DInt false W64 z =>
           if (z <? Z.of_nat (length variants))%Z then Some (Z.to_nat z) else None
       | _ => match dval_bytes key with
              | Some s => index_of s (map fst variants)
              | None => None
              end
       end in
     match idx with
     | None => rfail (Err EData)
     | Some i =>
         match nth_error variants i with
         | Some (vname, TVUnit) => sret (DEnum vname DUnit)
         | _ => rfail (Err EData)
         end
     end).
Proof. reflexivity. Qed.

Lemma de_ident_enum_eq fu nm syms depth :
  de Sc cfg (S fu) (FEnum nm syms) depth false false (THint HIdentifier)
  = (do* disc <- read_usize;
     match nth_N syms disc with
     | None => rfail (Err EData)
     | Some s => sret (DStr s)
     end).
Proof. reflexivity. Qed.

Lemma case_typed_enum : forall i, typed_ok (EEnum i).
Proof.
  intros i tf n depth Hadm Hnwf Htf Hd fuel rest pos ma Hfuel.
  destruct tf as [|f]; [lia|].
  pose proof Hadm as (Hc & _ & _ & _ & Hf & _). node_of Hc.
  cbn [conforms] in Hc. apply Nat.ltb_lt in Hc.
  cbn [counts_fit] in Hf. apply fits_longb_true in Hf.
  cbn [tcost] in Hd. destruct depth as [|d']; [lia|].
  unfold de_fuel in Hfuel. cbn [esize] in Hfuel.
  destruct fuel as [|fu]; [lia|]. destruct fu as [|fu']; [lia|].
  destruct (nth_error symbols i) as [s|] eqn:Hs; [|apply nth_error_None in Hs; lia].
  rewrite tt_enum, de_enum_enum_eq. cbn [dec_depth]. rewrite sbind_sret.
  rewrite de_ident_enum_eq. cbn [encode_e].
  rewrite sbind_assoc. rewrite (sbind_ok _ _ _ _ _ (read_usize_nat i rest pos ma Hf)).
  rewrite (nth_N_of_nat _ _ Hc), Hs. rewrite sbind_sret. cbv zeta. cbn [dval_bytes].
  rewrite map_fst_unit_variants.
  rewrite (index_of_nodup symbols i s (node_wf_enum Sc n symbols Hnwf) Hs).
  rewrite (map_nth_error (fun s => (s, TVUnit)) i symbols Hs).
  eexists. split; [reflexivity|].
  unfold Rty. cbn [erase erase_borrow]. rewrite dtyped_enum.
  rewrite (nth_error_nth symbols i [] Hs). reflexivity.
Qed.

(* durations as (u32, u32, u32) *)
Lemma de_tuple3_duration_eq fu depth :
  de Sc cfg (S (S fu)) FDuration depth false false (TTuple [THint HU32; THint HU32; THint HU32])
  = (do* bs <- read_exact 12;
     sret (DSeq [DInt false W32 (Z.of_N (le_val (firstn 4 bs)));
                 DInt false W32 (Z.of_N (le_val (firstn 4 (skipn 4 bs))));
                 DInt false W32 (Z.of_N (le_val (skipn 8 bs)))])).
Proof. reflexivity. Qed.

Lemma case_typed_duration : forall a b c, typed_ok (EDuration a b c).
Proof.
  intros a b c tf n depth Hadm Hnwf Htf Hd fuel rest pos ma Hfuel.
  destruct tf as [|f]; [lia|].
  pose proof Hadm as (Hc & _). node_of Hc.
  cbn [conforms] in Hc.
  apply andb_prop in Hc. destruct Hc as [Hc Hc3]. apply andb_prop in Hc. destruct Hc as [Hc1 Hc2].
  apply N.ltb_lt in Hc1, Hc2, Hc3.
  unfold de_fuel in Hfuel. cbn [esize] in Hfuel.
  destruct fuel as [|fu]; [lia|]. destruct fu as [|fu']; [lia|].
  rewrite tt_duration, de_tuple3_duration_eq. cbn [encode_e].
  destruct (duration_parts a b c) as (L & P1 & P2 & P3). cbv zeta in L, P1, P2, P3.
  set (bs := spec_le 4 a ++ spec_le 4 b ++ spec_le 4 c) in *.
  change 12 with (N.of_nat 12). rewrite <- L.
  rewrite (sbind_ok _ _ _ _ _ (read_exact_app bs rest pos ma)).
  rewrite P1, P2, P3. rewrite !(le_val_spec_le 4) by assumption.
  eexists. split; [reflexivity|]. reflexivity.
Qed.

End TypedLeaves.

(* ------------------------------------------------------------------ *)
(** * 20. Arrays, maps, records *)

Lemma Forall2_map_eq {A B C} (R : A -> B -> Prop) (f : B -> C) (g : A -> C) l ds :
  (forall a b, R a b -> f b = g a) -> Forall2 R l ds -> map f ds = map g l.
Proof.
  intros H HF. induction HF as [|a b l ds Hab _ IH]; [reflexivity|].
  cbn [map]. rewrite (H a b Hab), IH. reflexivity.
Qed.

Section TypedComposite.
Variable Sc : fschema.
Variable cfg : dcfg.
Hypothesis Hwf : schema_wf Sc = true.

Notation typed_ok := (typed_ok Sc cfg).

Lemma case_typed_array : forall blocks,
  Forall (fun blk => Forall typed_ok (snd blk)) blocks -> typed_ok (EArray blocks).
Proof.
  intros blocks IH tf n depth Hadm Hnwf Htf Hd fuel rest pos ma Hfuel.
  destruct tf as [|f]; [lia|].
  pose proof Hadm as (Hc & _). node_of Hc. rename items into k.
  destruct depth as [|d']; [cbn [tcost] in Hd; lia|].
  rewrite tt_array.
  destruct (de_seq_array_g Sc cfg (tt_at Sc f k) (Rty_at Sc k) k blocks d' false fuel rest pos ma Hadm)
    as (ds & Hde & HF); [|exact Hfuel|].
  - intros blk it dp Hblk Hin Hdp Hp.
    rewrite Forall_forall in IH. specialize (IH blk Hblk). rewrite Forall_forall in IH.
    apply (typed_item_g Sc cfg Hwf it k dp f d' (IH it Hin) Hp); [lia|].
    apply (tcost_array_in blocks blk it d' Hblk Hin Hd).
  - exists (DSeq ds). split; [exact Hde|].
    unfold Rty. cbn [erase erase_borrow]. rewrite dtyped_array. f_equal.
    rewrite flat_map_map_snd.
    rewrite (Forall2_map_eq (Rty_at Sc k) erase_borrow (fun e => dtyped_at Sc k (erase e)) _ _
               (fun a b H => H) HF).
    rewrite map_map. reflexivity.
Qed.

Lemma case_typed_map : forall blocks,
  Forall (fun blk => Forall (fun kv => typed_ok (snd kv)) (snd blk)) blocks -> typed_ok (EMap blocks).
Proof.
  intros blocks IH tf n depth Hadm Hnwf Htf Hd fuel rest pos ma Hfuel.
  destruct tf as [|f]; [lia|].
  pose proof Hadm as (Hc & _). node_of Hc. rename values into k.
  destruct depth as [|d']; [cbn [tcost] in Hd; lia|].
  rewrite tt_map.
  destruct (de_map_g Sc cfg (THint HStr) (tt_at Sc f k) Rkey_str (Rty_at Sc k) k blocks d' false fuel
              rest pos ma key_spec_str Hadm) as (kvs & Hde & HF); [|exact Hfuel|].
  - intros blk kv dp Hblk Hin Hdp Hp.
    rewrite Forall_forall in IH. specialize (IH blk Hblk). rewrite Forall_forall in IH.
    apply (typed_item_g Sc cfg Hwf (snd kv) k dp f d' (IH kv Hin) Hp); [lia|].
    apply (tcost_map_in blocks blk kv d' Hblk Hin Hd).
  - exists (DMap kvs). split; [exact Hde|].
    unfold Rty. cbn [erase erase_borrow]. rewrite dtyped_map. f_equal.
    rewrite (flat_map_map_snd (fun kv : bytes * evalue => (fst kv, erase (snd kv)))).
    rewrite map_map. cbn [fst snd].
    apply (Forall2_map_eq (Rkv Rkey_str (Rty_at Sc k))
             (fun kv : dval * dval => (erase_borrow (fst kv), erase_borrow (snd kv)))
             (fun kv : bytes * evalue => (DStr (fst kv), dtyped_at Sc k (erase (snd kv)))) _ _); [|exact HF].
    intros a b [H1 H2]. unfold Rkey_str in H1. unfold Rty_at in H2. rewrite H1, H2. reflexivity.
Qed.

(* records: every field is known to the typed struct *)
Lemma struct_out_all : forall fs (R : nat -> evalue -> dval -> Prop) (g : nat -> avalue -> dval)
                              fields es l,
  (forall nm k, In (nm, k) fields -> has_field nm fs = true) ->
  (forall k e d, R k e d -> erase_borrow d = g k (erase e)) ->
  struct_out fs R fields es l ->
  map (fun kv : bytes * dval => (fst kv, erase_borrow (snd kv))) l
  = (fix go (fields : list (bytes * nat)) (vs : list avalue) {struct vs} : list (bytes * dval) :=
       match fields, vs with
       | (f, k) :: fr, v' :: vr => (f, g k v') :: go fr vr
       | _, _ => []
       end) fields (map erase es).
Proof.
  intros fs R g. induction fields as [|[nm k] fr IH]; intros [|v vr] l Hhas HR H; cbn [struct_out] in H.
  - subst l. reflexivity.
  - destruct H.
  - destruct H.
  - rewrite (Hhas nm k (or_introl eq_refl)) in H. destruct H as (d & l' & -> & Hd & H).
    cbn [map fst snd]. rewrite (HR k v d Hd). f_equal.
    apply IH; [|exact HR|exact H]. intros nm' k' Hin. apply (Hhas nm' k'). right. exact Hin.
Qed.

Lemma dtyped_fields_eq fields vs :
  dtyped_fields Sc fields vs
  = (fix go (fields : list (bytes * nat)) (vs : list avalue) {struct vs} : list (bytes * dval) :=
       match fields, vs with
       | (f, k) :: fr, v' :: vr => (f, dtyped_at Sc k v') :: go fr vr
       | _, _ => []
       end) fields vs.
Proof. reflexivity. Qed.

Lemma case_typed_record : forall es, Forall typed_ok es -> typed_ok (ERecord es).
Proof.
  intros es IH tf n depth Hadm Hnwf Htf Hd fuel rest pos ma Hfuel.
  destruct tf as [|f]; [lia|].
  pose proof Hadm as (Hc & _). node_of Hc. rename n into nm.
  destruct depth as [|d']; [cbn [tcost] in Hd; lia|].
  pose proof (node_wf_record Sc nm fields Hnwf) as Hnd.
  rewrite tt_record.
  set (fs := map (fun fk : bytes * nat => (fst fk, tt_at Sc f (snd fk))) fields).
  assert (Hnames : map fst fs = map fst fields).
  { unfold fs. rewrite map_map. reflexivity. }
  assert (Hnds : NoDup (map fst fs)) by (rewrite Hnames; exact Hnd).
  assert (Hspec : fields_P (field_spec Sc cfg fs (Rty_at Sc) d') fields es).
  { assert (Hfu : (de_fuel (ERecord es) <= S (de_fuel (ERecord es) - 1))%nat) by lia.
    destruct (record_pre Sc cfg _ _ _ _ _ Hadm Hfu) as (dp & f1 & M & Hdp & _ & _ & Hfl & _).
    revert Hfl. apply fields_P_impl_in. intros fnm k v Hink Hinv Hp. unfold field_spec.
    assert (Hin : In (fnm, tt_at Sc f k) fs).
    { unfold fs. apply in_map_iff. exists (fnm, k). split; [reflexivity|exact Hink]. }
    destruct (find_field_in fs fnm _ Hnds Hin) as (i & Hi & _). rewrite Hi.
    rewrite Forall_forall in IH.
    apply (typed_item_g Sc cfg Hwf v k dp f d' (IH v Hinv) Hp).
    - cbn [depth_cost] in Htf, Hdp. lia.
    - apply (tcost_record_in es v d' Hinv Hd). }
  destruct (de_struct_record_core Sc cfg nm fields es (nm_full nm) fs (Rty_at Sc) d' false fuel rest pos ma
              Hadm Hnd Hspec Hfuel) as (l & Hde & Hout).
  rewrite (nothing_missing fs fields Hnds) in Hde by (rewrite Hnames; apply incl_refl).
  rewrite app_nil_r in Hde.
  exists (DStruct l). split; [exact Hde|].
  unfold Rty. cbn [erase erase_borrow]. rewrite dtyped_record, dtyped_fields_eq. f_equal.
  apply (struct_out_all fs (Rty_at Sc) (dtyped_at Sc) fields es l); [| |exact Hout].
  - intros fnm k Hink. unfold has_field. apply existsb_exists. exists (fnm, tt_at Sc f k). split.
    + unfold fs. apply in_map_iff. exists (fnm, k). split; [reflexivity|exact Hink].
    + apply bytes_eqb_refl.
  - intros k e d H. exact H.
Qed.

End TypedComposite.

(* ------------------------------------------------------------------ *)
(** * 21. Unions: Option for [null,T] / [T,null], an enum by branch name otherwise *)

Section TypedUnion.
Variable Sc : fschema.
Variable cfg : dcfg.
Hypothesis Hwf : schema_wf Sc = true.

Notation typed_ok := (typed_ok Sc cfg).

Definition other_is_null (ks : list nat) (disc : N) : bool :=
  Nat.eqb (length ks) 2 &&
  match nth_error ks (1 - N.to_nat disc) with
  | Some k2 => match fnode_at Sc k2 with Some FNull => true | _ => false end
  | None => false
  end.

Lemma de_option_union_eq fu ks depth t' :
  de Sc cfg (S fu) (FUnion ks) depth false false (TOption t')
  = (do* disc <- read_usize;
     match nth_N ks disc with
     | None => rfail (Err EData)
     | Some k =>
         do* vn <- node_at Sc k;
         match vn with
         | FNull => sret DNone
         | _ => do* d' <- dec_depth depth;
                do* d <- de Sc cfg fu vn d' (negb (other_is_null ks disc)) false t';
                sret (DSome d)
         end
     end).
Proof. reflexivity. Qed.

Lemma de_option_union_branch fu ks depth t' i k vn tail pos ma :
  fits_long i -> (i < length ks)%nat -> nth_error ks i = Some k -> fnode_at Sc k = Some vn ->
  de Sc cfg (S fu) (FUnion ks) depth false false (TOption t')
    (mkRd (spec_long (Z.of_nat i) ++ tail) pos None ma)
  = (if is_fnull vn then sret DNone
     else do* d' <- dec_depth depth;
          do* d <- de Sc cfg fu vn d' (negb (other_is_null ks (N.of_nat i))) false t';
          sret (DSome d))
      (mkRd tail (pos + N.of_nat (length (spec_long (Z.of_nat i)))) None ma).
Proof.
  intros Hfi Hi Hk Hn. rewrite de_option_union_eq.
  rewrite (sbind_ok _ _ _ _ _ (read_usize_nat i tail pos ma Hfi)).
  rewrite (nth_N_of_nat _ _ Hi), Hk. unfold node_at. rewrite Hn, sbind_sret.
  destruct vn; reflexivity.
Qed.

Lemma case_typed_union : forall i v, typed_ok v -> typed_ok (EUnion i v).
Proof.
  intros i v IH tf n depth Hadm Hnwf Htf Hd fuel rest pos ma Hfuel.
  destruct tf as [|f]; [lia|].
  pose proof Hadm as (Hc & _). node_of Hc. rename variants into ks.
  destruct fuel as [|fu]; [unfold de_fuel in Hfuel; lia|].
  destruct (union_pre Sc cfg _ _ _ _ _ Hadm Hfuel)
    as (k & n' & dp & Hk & Hn & Hdp & Hfi & Hi & Hpre' & Hfu & Henc).
  cbn [tcost] in Hd. destruct depth as [|d']; [lia|].
  cbn [depth_cost] in Htf, Hdp.
  pose proof (schema_wf_node Sc k n' Hwf Hn) as Hnwf'.
  assert (HP : node_g Sc cfg (typed_target Sc f n') (Rty Sc n') n' d' v).
  { apply IH; [eapply pre_adm; exact Hpre'|exact Hnwf'|lia|lia]. }
  rewrite Henc, <- app_assoc.
  unfold Rty. cbn [erase]. rewrite (dtyped_union Sc ks i (erase v) k n' Hk Hn).
  destruct (as_option Sc ks) eqn:Hopt.
  - destruct (tt_union_option Sc f ks Hopt) as (t & Ht & Hsel). rewrite Ht.
    rewrite (de_option_union_branch fu ks (S d') t i k n' _ pos ma Hfi Hi Hk Hn).
    destruct (is_fnull n') eqn:Hnull.
    + apply is_fnull_true in Hnull. subst n'.
      destruct Hpre' as (Hc' & _).
      assert (Hv : encode_e Sc FNull v = []).
      { destruct v; cbn [erase conforms] in Hc'; try discriminate Hc'. reflexivity. }
      rewrite Hv. cbn [app]. exists DNone. split; [|reflexivity].
      unfold sret. f_equal. f_equal. rewrite app_length. cbn [length]. lia.
    + destruct (Hsel i k n' Hk Hn Hnull) as [-> Hother].
      unfold other_is_null. rewrite Nat2N.id, Hother. cbn [negb dec_depth]. rewrite sbind_sret.
      destruct (HP fu rest (pos + N.of_nat (length (spec_long (Z.of_nat i)))) ma ltac:(lia))
        as (d & Hde & HR).
      rewrite (sbind_ok _ _ _ _ _ Hde). exists (DSome d). split.
      * unfold sret. f_equal. f_equal. rewrite app_length. lia.
      * cbn [erase_borrow]. f_equal. exact HR.
  - rewrite (tt_union_enum Sc f ks Hopt). rewrite de_enum_union_eq.
    rewrite (sbind_ok _ _ _ _ _ (read_usize_nat i _ pos ma Hfi)).
    rewrite (nth_N_of_nat _ _ Hi), Hk.
    cbn [dec_depth]. rewrite sbind_sret. unfold node_at. rewrite Hn, sbind_sret.
    destruct fu as [|fu']; [lia|].
    rewrite enum_payload_S. unfold enum_payload_step.
    rewrite uvariant_names.
    assert (Hnm : nth_error (map (uname Sc) ks) i = Some (type_name n')).
    { rewrite (map_nth_error (uname Sc) i ks Hk). unfold uname. rewrite Hn. reflexivity. }
    rewrite (index_of_nodup _ i _ (node_wf_union Sc ks Hnwf) Hnm).
    rewrite (map_nth_error (uvariant Sc f) i ks Hk). rewrite (uvariant_at Sc f k n' Hn).
    destruct (is_fnull n') eqn:Hnull.
    + assert (Hpre2 : pre Sc cfg n' d' v).
      { apply adm_pre; [eapply pre_adm; exact Hpre'|]. pose proof (depth_cost_le_tcost v). lia. }
      pose proof (de_ignored_gen Sc cfg v n' d' Hpre2 fu' false false rest
                    (pos + N.of_nat (length (spec_long (Z.of_nat i)))) ma ltac:(lia)) as Hig.
      unfold ign_post in Hig. rewrite (sbind_ok _ _ _ _ _ Hig).
      exists (DEnum (type_name FNull) DUnit). split; [|reflexivity].
      unfold sret. f_equal. f_equal. rewrite app_length. lia.
    + destruct (HP fu' rest (pos + N.of_nat (length (spec_long (Z.of_nat i)))) ma ltac:(lia))
        as (d & Hde & HR).
      rewrite (sbind_ok _ _ _ _ _ Hde). exists (DEnum (type_name n') d). split.
      * unfold sret. f_equal. f_equal. rewrite app_length. lia.
      * cbn [erase_borrow]. f_equal. exact HR.
Qed.

End TypedUnion.

(* ------------------------------------------------------------------ *)
(** * 22. The theorem *)

Theorem de_typed_gen : forall Sc cfg, schema_wf Sc = true -> forall e, typed_ok Sc cfg e.
Proof.
  intros Sc cfg Hwf.
  induction e using evalue_ind'; try (apply case_typed_plain; reflexivity).
  - apply case_typed_array; assumption.
  - apply case_typed_map; assumption.
  - apply case_typed_union; assumption.
  - apply case_typed_record; assumption.
  - apply case_typed_enum.
  - apply case_typed_duration.
Qed.

(** Typed round trip in slice mode. Hypotheses of [de_any_complete_bounded], and:
    - [node_wf Sc n]: the root node is well formed too (the nodes below it are by [schema_wf]);
      union branches are told apart by their type name, record fields by their name;
    - [tcost e <= depth]: the depth budget, where an Avro enum costs one level
      (deserialize_enum on an enum node decrements the budget; deserialize_any does not);
    - [depth_cost e < tf]: [typed_target] was unfolded deep enough for the value. *)
Theorem de_typed_complete : forall Sc cfg e n rest pos ma fuel depth tf,
  schema_wf Sc = true ->
  node_wf Sc n = true ->
  conforms Sc n (erase e) = true ->
  layout_ok e = true ->
  within_limits Sc cfg n e = true ->
  (tcost e <= depth)%nat ->
  (de_fuel e <= fuel)%nat ->
  (depth_cost e < tf)%nat ->
  counts_fit e = true ->
  (Z.of_nat (length (encode_e Sc n e)) <= I64_MAX)%Z ->
  exists d,
    de Sc cfg fuel n depth false false (typed_target Sc tf n) (mkRd (encode_e Sc n e ++ rest) pos None ma)
      = (Ok d, mkRd rest (pos + N.of_nat (length (encode_e Sc n e))) None ma)
    /\ erase_borrow d = dval_typed Sc n (erase e).
Proof.
  intros Sc cfg e n rest pos ma fuel depth tf Hwf Hnwf Hc Hl Hw Hd Hfuel Htf Hf He.
  assert (Hadm : adm Sc cfg n e).
  { unfold adm, pre. split; [exact Hc|]. split; [exact Hl|]. split; [exact Hw|].
    split; [apply le_n|]. split; assumption. }
  exact (de_typed_gen Sc cfg Hwf e tf n depth Hadm Hnwf Htf Hd fuel rest pos ma Hfuel).
Qed.

(** The same with the depth budget of [de_any_complete_bounded] plus one. *)
Corollary de_typed_complete_depth : forall Sc cfg e n rest pos ma fuel depth tf,
  schema_wf Sc = true ->
  node_wf Sc n = true ->
  conforms Sc n (erase e) = true ->
  layout_ok e = true ->
  within_limits Sc cfg n e = true ->
  (depth_cost e < depth)%nat ->
  (de_fuel e <= fuel)%nat ->
  (depth_cost e < tf)%nat ->
  counts_fit e = true ->
  (Z.of_nat (length (encode_e Sc n e)) <= I64_MAX)%Z ->
  exists d,
    de Sc cfg fuel n depth false false (typed_target Sc tf n) (mkRd (encode_e Sc n e ++ rest) pos None ma)
      = (Ok d, mkRd rest (pos + N.of_nat (length (encode_e Sc n e))) None ma)
    /\ erase_borrow d = dval_typed Sc n (erase e).
Proof.
  intros Sc cfg e n rest pos ma fuel depth tf Hwf Hnwf Hc Hl Hw Hd Hfuel Htf Hf He.
  apply de_typed_complete; try assumption. pose proof (tcost_le_S_depth_cost e). lia.
Qed.

(** ... and the typed consumer reads exactly what the dynamically typed one reads. *)
Corollary typed_consumes_as_any : forall Sc cfg e n rest pos ma fuel depth tf,
  schema_wf Sc = true ->
  node_wf Sc n = true ->
  conforms Sc n (erase e) = true ->
  layout_ok e = true ->
  within_limits Sc cfg n e = true ->
  (depth_cost e < depth)%nat ->
  (de_fuel e <= fuel)%nat ->
  (depth_cost e < tf)%nat ->
  counts_fit e = true ->
  (Z.of_nat (length (encode_e Sc n e)) <= I64_MAX)%Z ->
  exists d_any d_typed st,
    de Sc cfg fuel n depth false false TAny (mkRd (encode_e Sc n e ++ rest) pos None ma) = (Ok d_any, st) /\
    de Sc cfg fuel n depth false false (typed_target Sc tf n) (mkRd (encode_e Sc n e ++ rest) pos None ma)
      = (Ok d_typed, st) /\
    rd_inp st = rest /\ rd_pos st = pos + N.of_nat (length (encode_e Sc n e)).
Proof.
  intros Sc cfg e n rest pos ma fuel depth tf Hwf Hnwf Hc Hl Hw Hd Hfuel Htf Hf He.
  destruct (de_any_complete_bounded Sc cfg e n rest pos ma fuel depth Hwf Hc Hl Hw ltac:(lia) Hfuel Hf He)
    as (d1 & H1 & _).
  destruct (de_typed_complete_depth Sc cfg e n rest pos ma fuel depth tf Hwf Hnwf Hc Hl Hw Hd Hfuel Htf Hf He)
    as (d2 & H2 & _).
  exists d1, d2. eexists. split; [exact H1|]. split; [exact H2|]. split; reflexivity.
Qed.

(* ------------------------------------------------------------------ *)
(** * 22b. A struct that lacks fields of the typed struct (C12 for typed field targets) *)

Section TypedSubStruct.
Variable Sc : fschema.
Variable cfg : dcfg.
Hypothesis Hwf : schema_wf Sc = true.

Definition typed_fields (f : nat) (fields : list (bytes * nat)) : list (bytes * dtarget) :=
  map (fun fk : bytes * nat => (fst fk, tt_at Sc f (snd fk))) fields.

Lemma known_fields_typed_full : forall nm fields es d' f,
  adm Sc cfg (FRecord nm fields) (ERecord es) -> NoDup (map fst fields) ->
  (depth_cost (ERecord es) < S f)%nat -> (tcost (ERecord es) <= S d')%nat ->
  known_fields_ok Sc cfg (typed_fields f fields) (Rty_at Sc) d' fields es.
Proof.
  intros nm fields es d' f Hadm Hnd Htf Hd.
  assert (Hnames : map fst (typed_fields f fields) = map fst fields).
  { unfold typed_fields. rewrite map_map. reflexivity. }
  assert (Hnds : NoDup (map fst (typed_fields f fields))) by (rewrite Hnames; exact Hnd).
  assert (Hfu : (de_fuel (ERecord es) <= S (de_fuel (ERecord es) - 1))%nat) by lia.
  destruct (record_pre Sc cfg _ _ _ _ _ Hadm Hfu) as (dp & f1 & M & Hdp & _ & _ & Hfl & _).
  unfold known_fields_ok. revert Hfl. apply fields_P_impl_in.
  intros fnm k v Hink Hinv Hp i tf E.
  assert (Hin : In (fnm, tt_at Sc f k) (typed_fields f fields)).
  { unfold typed_fields. apply in_map_iff. exists (fnm, k). split; [reflexivity|exact Hink]. }
  destruct (find_field_in _ fnm _ Hnds Hin) as (i' & Hi & _). rewrite Hi in E. inversion E; subst.
  apply (typed_item_g Sc cfg Hwf v k dp f d' (de_typed_gen Sc cfg Hwf v) Hp).
  - cbn [depth_cost] in Htf, Hdp. lia.
  - apply (tcost_record_in es v d' Hinv Hd).
Qed.

(** A struct target whose fields are some of the fields of the natural typed struct of a record:
    it leaves the reader where the full typed struct leaves it, its fields are exactly the full
    struct's results for the fields it knows, and the full struct yields [dval_typed]. *)
Theorem typed_struct_lacking_fields : forall nm fields es sn fs1 f d' fuel rest pos ma,
  node_wf Sc (FRecord nm fields) = true ->
  pre Sc cfg (FRecord nm fields) (S d') (ERecord es) ->
  (tcost (ERecord es) <= S d')%nat ->
  (depth_cost (ERecord es) < S f)%nat ->
  NoDup (map fst fs1) -> incl fs1 (typed_fields f fields) ->
  (de_fuel (ERecord es) <= fuel)%nat ->
  exists l1 l2 st',
    de Sc cfg fuel (FRecord nm fields) (S d') false false (TStruct sn fs1)
      (mkRd (encode_e Sc (FRecord nm fields) (ERecord es) ++ rest) pos None ma) = (Ok (DStruct l1), st') /\
    de Sc cfg fuel (FRecord nm fields) (S d') false false (typed_target Sc (S f) (FRecord nm fields))
      (mkRd (encode_e Sc (FRecord nm fields) (ERecord es) ++ rest) pos None ma) = (Ok (DStruct l2), st') /\
    st' = mkRd rest (pos + N.of_nat (length (encode_e Sc (FRecord nm fields) (ERecord es)))) None ma /\
    l1 = filter (known_by fs1) l2 /\
    map (fun kv : bytes * dval => (fst kv, erase_borrow (snd kv))) l2
    = dtyped_fields Sc fields (map erase es).
Proof.
  intros nm fields es sn fs1 f d' fuel rest pos ma Hnwf Hpre Hd Htf Hnd1 Hincl Hfuel.
  pose proof (node_wf_record Sc nm fields Hnwf) as Hnd.
  assert (Hnames : map fst (typed_fields f fields) = map fst fields).
  { unfold typed_fields. rewrite map_map. reflexivity. }
  assert (Hnd2 : NoDup (map fst (typed_fields f fields))) by (rewrite Hnames; exact Hnd).
  rewrite tt_record. fold (typed_fields f fields).
  destruct (struct_fewer_fields_agree Sc cfg nm fields es sn (nm_full nm) fs1 (typed_fields f fields)
              (Rty_at Sc) d' false fuel rest pos ma Hpre Hnd Hnd1 Hnd2 Hincl
              ltac:(rewrite Hnames; apply incl_refl)
              (known_fields_typed_full nm fields es d' f (pre_adm _ _ _ _ _ Hpre) Hnd Htf Hd) Hfuel)
    as (l1 & l2 & st' & H1 & H2 & Hst & Hfl & Hout).
  exists l1, l2, st'. split; [exact H1|]. split; [exact H2|]. split; [exact Hst|]. split; [exact Hfl|].
  rewrite dtyped_fields_eq.
  apply (struct_out_all (typed_fields f fields) (Rty_at Sc) (dtyped_at Sc) fields es l2); [| |exact Hout].
  - intros fnm k Hink. unfold has_field. apply existsb_exists. exists (fnm, tt_at Sc f k). split.
    + unfold typed_fields. apply in_map_iff. exists (fnm, k). split; [reflexivity|exact Hink].
    + apply bytes_eqb_refl.
  - intros k e d H. exact H.
Qed.

End TypedSubStruct.

(* ------------------------------------------------------------------ *)
(** * 23. Why the extra hypotheses are needed *)

(** With the budget of [de_any_complete_bounded] ([depth_cost e <= depth]) the statement is false:
    an enum at depth 0 is accepted by deserialize_any and rejected by deserialize_enum. *)
Theorem de_typed_enum_needs_depth :
  let nmE := mkName [69] None in
  let Sc := [FEnum nmE [[120]; [121]]] in
  let n := FEnum nmE [[120]; [121]] in
  let e := EEnum 1%nat in
  schema_wf Sc = true /\ node_wf Sc n = true /\ conforms Sc n (erase e) = true /\ layout_ok e = true /\
  within_limits Sc cfg_default n e = true /\ depth_cost e = 0%nat /\ counts_fit e = true /\
  de Sc cfg_default (de_fuel e) n 0%nat false false TAny (mkRd (encode_e Sc n e ++ [7]) 0 None 0)
    = (Ok (DStr [121]), mkRd [7] 1 None 0) /\
  de Sc cfg_default (de_fuel e) n 0%nat false false (typed_target Sc 5 n)
     (mkRd (encode_e Sc n e ++ [7]) 0 None 0)
    = (Err EData, mkRd (encode_e Sc n e ++ [7]) 0 None 0) /\
  de Sc cfg_default (de_fuel e) n 1%nat false false (typed_target Sc 5 n)
     (mkRd (encode_e Sc n e ++ [7]) 0 None 0)
    = (Ok (DEnum [121] DUnit), mkRd [7] 1 None 0).
Proof. vm_compute. repeat split; reflexivity. Qed.

(** If [typed_target] is not unfolded deep enough the leaves of the target are [TAny] and the
    events are those of deserialize_any, not [dval_typed]. *)
Theorem de_typed_needs_unfolding :
  let nmR := mkName [82] None in
  let n := FRecord nmR [([97], 1%nat)] in
  let Sc := [n; FRecord nmR [([97], 2%nat)]; FInt] in
  let e := ERecord [ERecord [EInt 5]] in
  schema_wf Sc = true /\ node_wf Sc n = true /\ conforms Sc n (erase e) = true /\
  depth_cost e = 2%nat /\
  de Sc cfg_default (de_fuel e) n 64%nat false false (typed_target Sc 1 n)
     (mkRd (encode_e Sc n e ++ [7]) 0 None 0)
    = (Ok (DStruct [([97], DMap [(DStr [97], DInt true W32 5)])]), mkRd [7] 1 None 0) /\
  dval_typed Sc n (erase e) = DStruct [([97], DStruct [([97], DInt true W32 5)])].
Proof. vm_compute. repeat split; reflexivity. Qed.

(** Without well-formedness (here: two union branches with the same name) the enum variant is
    chosen by name and the wrong branch's struct is used. *)
Theorem de_typed_needs_node_wf :
  let nmR := mkName [82] None in
  let n := FUnion [1%nat; 2%nat] in
  let Sc := [n; FRecord nmR [([97], 3%nat)]; FRecord nmR [([98], 3%nat)]; FInt] in
  let e := EUnion 1%nat (ERecord [EInt 5]) in
  schema_wf Sc = false /\ node_wf Sc n = false /\ conforms Sc n (erase e) = true /\
  de Sc cfg_default (de_fuel e) n 64%nat false false (typed_target Sc 5 n)
     (mkRd (encode_e Sc n e ++ [7]) 0 None 0)
    = (Ok (DEnum [82] (DStruct [([97], DMissing)])), mkRd [7] 2 None 0) /\
  dval_typed Sc n (erase e) = DEnum [82] (DStruct [([98], DInt true W32 5)]).
Proof. vm_compute. repeat split; reflexivity. Qed.

(* ------------------------------------------------------------------ *)
(** * 24. Non-vacuity *)

Example de_typed_complete_instance :
  let nmR := mkName [82] None in
  let nmE := mkName [69] None in
  let root := FRecord nmR [([97], 1%nat); ([98], 2%nat); ([99], 4%nat); ([100], 6%nat);
                           ([101], 9%nat); ([102], 10%nat); ([103], 8%nat)] in
  let Sc := [root; FArray 3%nat; FMap 3%nat; FInt; FUnion [5%nat; 3%nat]; FNull;
             FUnion [5%nat; 3%nat; 7%nat]; FString; FDecimal 10 2 None; FEnum nmE [[120]; [121]];
             FDuration] in
  let e := ERecord [EArray [(true, [EInt 3; EInt 4]); (false, [EInt 5])];
                    EMap [(false, [([107], EInt 7)])];
                    EUnion 1%nat (EInt 9);
                    EUnion 2%nat (EString [104; 105]);
                    EEnum 1%nat; EDuration 1 2 3; EDecimal (-1234) 1%nat] in
  schema_wf Sc = true /\ node_wf Sc root = true /\ conforms Sc root (erase e) = true /\
  layout_ok e = true /\ within_limits Sc cfg_default root e = true /\
  Nat.leb (tcost e) 64 = true /\ Nat.ltb (depth_cost e) 5 = true /\ counts_fit e = true /\
  (Z.of_nat (length (encode_e Sc root e)) <= I64_MAX)%Z /\
  de Sc cfg_default (de_fuel e) root 64%nat false false (typed_target Sc 5 root)
     (mkRd (encode_e Sc root e ++ [7]) 0 None 0)
  = (Ok (DStruct
           [([97], DSeq [DInt true W32 3; DInt true W32 4; DInt true W32 5]);
            ([98], DMap [(DBStr 9 1 [107], DInt true W32 7)]);
            ([99], DSome (DInt true W32 9));
            ([100], DEnum [83; 116; 114; 105; 110; 103] (DBStr 16 2 [104; 105]));
            ([101], DEnum [121] DUnit);
            ([102], DSeq [DInt false W32 1; DInt false W32 2; DInt false W32 3]);
            ([103], DStr [45; 49; 50; 46; 51; 52])]),
     mkRd [7] (N.of_nat (length (encode_e Sc root e))) None 0) /\
  dval_typed Sc root (erase e)
  = DStruct
      [([97], DSeq [DInt true W32 3; DInt true W32 4; DInt true W32 5]);
       ([98], DMap [(DStr [107], DInt true W32 7)]);
       ([99], DSome (DInt true W32 9));
       ([100], DEnum [83; 116; 114; 105; 110; 103] (DStr [104; 105]));
       ([101], DEnum [121] DUnit);
       ([102], DSeq [DInt false W32 1; DInt false W32 2; DInt false W32 3]);
       ([103], DStr [45; 49; 50; 46; 51; 52])].
Proof. vm_compute. repeat split; try reflexivity; discriminate. Qed.

(* ------------------------------------------------------------------ *)
Print Assumptions de_typed_complete.
Print Assumptions typed_consumes_as_any.
Print Assumptions typed_struct_lacking_fields.
