(** Byte-level lemmas used by the serializer soundness proofs:
    - [utf8_valid_bytes_ok]: a well-formed UTF-8 string consists of bytes (< 256);
    - [utf8_encode_valid]: char::encode_utf8 of a scalar value is well-formed UTF-8;
    - [spec_le_mod]: the little-endian rendering on n bytes only depends on x mod 2^(8n);
    - [spec_le_4_exists], [duration_bytes_exists]: every 4 (resp. 12) bytes are the little-endian
      rendering of one (resp. three) u32. *)
From Coq Require Import NArith ZArith List Lia Bool ZifyN ZifyBool ZifyNat.
Import ListNotations.
Require Import Base Kinds GenUnionTable Schema Varint Utf8 Sval Ser Text De.
Require Import AvroValue Encoding Denote Wf.
Require Import VarintProofs.
Require Import SerProofs.
Open Scope N_scope.

Ltac Zify.zify_post_hook ::= Z.to_euclidean_division_equations.

Arguments N.add : simpl never.
Arguments N.sub : simpl never.
Arguments N.mul : simpl never.
Arguments N.div : simpl never.
Arguments N.modulo : simpl never.
Arguments N.pow : simpl never.
Arguments N.shiftl : simpl never.
Arguments N.shiftr : simpl never.
Arguments N.land : simpl never.
Arguments N.lor : simpl never.
Arguments N.ltb : simpl never.
Arguments N.leb : simpl never.
Arguments N.eqb : simpl never.
Arguments N.of_nat : simpl never.
Arguments N.to_nat : simpl never.
Arguments Z.of_nat : simpl never.
Arguments Z.of_N : simpl never.
Arguments Z.leb : simpl never.
Arguments Z.ltb : simpl never.

(* ------------------------------------------------------------------ *)
(** * Well-formed UTF-8 consists of bytes *)

Lemma inr_lt256 lo hi b : inr lo hi b = true -> hi < 256 -> byte_ok b = true.
Proof. unfold inr, byte_ok. intros H1 H2. lia. Qed.

Lemma cont_lt256 b : cont b = true -> byte_ok b = true.
Proof. unfold cont. intros H. apply (inr_lt256 _ _ _ H). lia. Qed.

Lemma eqb_lt256 b c : (b =? c) = true -> c < 256 -> byte_ok b = true.
Proof. unfold byte_ok. intros H1 H2. lia. Qed.

Lemma utf8_valid_fuel_bytes_ok f : forall s,
  utf8_valid_fuel f s = true -> bytes_okb s = true.
Proof.
  induction f as [|f IH]; intros s H.
  - discriminate H.
  - destruct s as [|b0 r0]; [reflexivity|].
    cbn [utf8_valid_fuel] in H.
    unfold bytes_okb in *. cbn [forallb].
    destruct (b0 <? 128) eqn:E1.
    { rewrite (IH _ H). unfold byte_ok. rewrite andb_true_r. lia. }
    destruct (inr 194 223 b0) eqn:E2.
    { destruct r0 as [|b1 r1]; [discriminate H|].
      apply andb_true_iff in H. destruct H as [H1 H2].
      cbn [forallb]. rewrite (IH _ H2), (cont_lt256 _ H1).
      rewrite (inr_lt256 _ _ _ E2) by lia. reflexivity. }
    destruct (b0 =? 224) eqn:E3.
    { destruct r0 as [|b1 [|b2 r2]]; try discriminate H.
      apply andb_true_iff in H. destruct H as [H H3].
      apply andb_true_iff in H. destruct H as [H1 H2].
      cbn [forallb]. rewrite (IH _ H3), (cont_lt256 _ H2).
      rewrite (inr_lt256 _ _ _ H1) by lia.
      rewrite (eqb_lt256 _ _ E3) by lia. reflexivity. }
    destruct (inr 225 236 b0 || inr 238 239 b0) eqn:E4.
    { destruct r0 as [|b1 [|b2 r2]]; try discriminate H.
      apply andb_true_iff in H. destruct H as [H H3].
      apply andb_true_iff in H. destruct H as [H1 H2].
      cbn [forallb]. rewrite (IH _ H3), (cont_lt256 _ H2), (cont_lt256 _ H1).
      assert (B : byte_ok b0 = true).
      { apply orb_true_iff in E4. destruct E4 as [E4|E4];
          apply (inr_lt256 _ _ _ E4); lia. }
      rewrite B. reflexivity. }
    destruct (b0 =? 237) eqn:E5.
    { destruct r0 as [|b1 [|b2 r2]]; try discriminate H.
      apply andb_true_iff in H. destruct H as [H H3].
      apply andb_true_iff in H. destruct H as [H1 H2].
      cbn [forallb]. rewrite (IH _ H3), (cont_lt256 _ H2).
      rewrite (inr_lt256 _ _ _ H1) by lia.
      rewrite (eqb_lt256 _ _ E5) by lia. reflexivity. }
    destruct (b0 =? 240) eqn:E6.
    { destruct r0 as [|b1 [|b2 [|b3 r3]]]; try discriminate H.
      apply andb_true_iff in H. destruct H as [H H4].
      apply andb_true_iff in H. destruct H as [H H3].
      apply andb_true_iff in H. destruct H as [H1 H2].
      cbn [forallb]. rewrite (IH _ H4), (cont_lt256 _ H3), (cont_lt256 _ H2).
      rewrite (inr_lt256 _ _ _ H1) by lia.
      rewrite (eqb_lt256 _ _ E6) by lia. reflexivity. }
    destruct (inr 241 243 b0) eqn:E7.
    { destruct r0 as [|b1 [|b2 [|b3 r3]]]; try discriminate H.
      apply andb_true_iff in H. destruct H as [H H4].
      apply andb_true_iff in H. destruct H as [H H3].
      apply andb_true_iff in H. destruct H as [H1 H2].
      cbn [forallb]. rewrite (IH _ H4), (cont_lt256 _ H3), (cont_lt256 _ H2), (cont_lt256 _ H1).
      rewrite (inr_lt256 _ _ _ E7) by lia. reflexivity. }
    destruct (b0 =? 244) eqn:E8.
    { destruct r0 as [|b1 [|b2 [|b3 r3]]]; try discriminate H.
      apply andb_true_iff in H. destruct H as [H H4].
      apply andb_true_iff in H. destruct H as [H H3].
      apply andb_true_iff in H. destruct H as [H1 H2].
      cbn [forallb]. rewrite (IH _ H4), (cont_lt256 _ H3), (cont_lt256 _ H2).
      rewrite (inr_lt256 _ _ _ H1) by lia.
      rewrite (eqb_lt256 _ _ E8) by lia. reflexivity. }
    discriminate H.
Qed.

Lemma utf8_valid_bytes_ok s : utf8_valid s = true -> bytes_okb s = true.
Proof. unfold utf8_valid. apply utf8_valid_fuel_bytes_ok. Qed.

(* ------------------------------------------------------------------ *)
(** * encode_utf8 produces well-formed UTF-8 *)

Lemma utf8_valid_1 b : b < 128 -> utf8_valid [b] = true.
Proof.
  intros H. unfold utf8_valid. cbn [length utf8_valid_fuel].
  assert (E : b <? 128 = true) by lia. rewrite E. reflexivity.
Qed.

Lemma utf8_valid_2 b0 b1 :
  194 <= b0 <= 223 -> 128 <= b1 <= 191 -> utf8_valid [b0; b1] = true.
Proof.
  intros H0 H1. unfold utf8_valid. cbn [length utf8_valid_fuel].
  assert (E1 : b0 <? 128 = false) by lia. rewrite E1.
  assert (E2 : inr 194 223 b0 = true) by (unfold inr; lia). rewrite E2.
  assert (E3 : cont b1 = true) by (unfold cont, inr; lia). rewrite E3.
  reflexivity.
Qed.

Lemma utf8_valid_3 b0 b1 b2 :
  224 <= b0 <= 239 -> 128 <= b1 <= 191 -> 128 <= b2 <= 191 ->
  (b0 = 224 -> 160 <= b1) -> (b0 = 237 -> b1 <= 159) ->
  utf8_valid [b0; b1; b2] = true.
Proof.
  intros H0 H1 H2 Ha Hb. unfold utf8_valid. cbn [length utf8_valid_fuel].
  assert (E1 : b0 <? 128 = false) by lia. rewrite E1.
  assert (E2 : inr 194 223 b0 = false) by (unfold inr; lia). rewrite E2.
  assert (C2 : cont b2 = true) by (unfold cont, inr; lia). rewrite C2.
  assert (C1 : cont b1 = true) by (unfold cont, inr; lia).
  destruct (b0 =? 224) eqn:E3.
  { assert (G : inr 160 191 b1 = true) by (unfold inr; lia). rewrite G. reflexivity. }
  destruct (inr 225 236 b0 || inr 238 239 b0) eqn:E4.
  { rewrite C1. reflexivity. }
  assert (E5 : b0 =? 237 = true) by (unfold inr in E4; lia). rewrite E5.
  assert (G : inr 128 159 b1 = true) by (unfold inr; lia). rewrite G. reflexivity.
Qed.

Lemma utf8_valid_4 b0 b1 b2 b3 :
  240 <= b0 <= 244 -> 128 <= b1 <= 191 -> 128 <= b2 <= 191 -> 128 <= b3 <= 191 ->
  (b0 = 240 -> 144 <= b1) -> (b0 = 244 -> b1 <= 143) ->
  utf8_valid [b0; b1; b2; b3] = true.
Proof.
  intros H0 H1 H2 H3 Ha Hb. unfold utf8_valid. cbn [length utf8_valid_fuel].
  assert (E1 : b0 <? 128 = false) by lia. rewrite E1.
  assert (E2 : inr 194 223 b0 = false) by (unfold inr; lia). rewrite E2.
  assert (E3 : b0 =? 224 = false) by lia. rewrite E3.
  assert (E4 : inr 225 236 b0 || inr 238 239 b0 = false) by (unfold inr; lia). rewrite E4.
  assert (E5 : b0 =? 237 = false) by lia. rewrite E5.
  assert (C3 : cont b3 = true) by (unfold cont, inr; lia). rewrite C3.
  assert (C2 : cont b2 = true) by (unfold cont, inr; lia). rewrite C2.
  assert (C1 : cont b1 = true) by (unfold cont, inr; lia).
  destruct (b0 =? 240) eqn:E6.
  { assert (G : inr 144 191 b1 = true) by (unfold inr; lia). rewrite G. reflexivity. }
  destruct (inr 241 243 b0) eqn:E7.
  { rewrite C1. reflexivity. }
  assert (E8 : b0 =? 244 = true) by (unfold inr in E7; lia). rewrite E8.
  assert (G : inr 128 143 b1 = true) by (unfold inr; lia). rewrite G. reflexivity.
Qed.

Lemma utf8_encode_valid cp : is_scalar cp = true -> utf8_valid (utf8_encode cp) = true.
Proof.
  unfold is_scalar, utf8_encode. intros Hs.
  destruct (cp <? 128) eqn:E1.
  { apply utf8_valid_1. lia. }
  destruct (cp <? 2048) eqn:E2.
  { apply utf8_valid_2; lia. }
  destruct (cp <? 65536) eqn:E3.
  { apply utf8_valid_3; lia. }
  apply utf8_valid_4; lia.
Qed.

(* ------------------------------------------------------------------ *)
(** * Little-endian renderings *)

Lemma spec_le_mod n x : spec_le n (x mod 2 ^ (8 * N.of_nat n)) = spec_le n x.
Proof.
  unfold spec_le. apply map_ext_in. intros k Hk. apply in_seq in Hk.
  change 256 with (2 ^ 8).
  apply N.bits_inj. intros i.
  destruct (N.lt_ge_cases i 8) as [Hi|Hi].
  - rewrite !N.mod_pow2_bits_low by exact Hi.
    rewrite !N.div_pow2_bits.
    apply N.mod_pow2_bits_low. lia.
  - rewrite !N.mod_pow2_bits_high by exact Hi. reflexivity.
Qed.

Lemma spec_le_4_unfold a :
  spec_le 4 a = [a mod 256; (a / 256) mod 256; (a / 65536) mod 256; (a / 16777216) mod 256].
Proof.
  unfold spec_le. cbn [seq map].
  change (2 ^ (8 * N.of_nat 0)) with 1.
  change (2 ^ (8 * N.of_nat 1)) with 256.
  change (2 ^ (8 * N.of_nat 2)) with 65536.
  change (2 ^ (8 * N.of_nat 3)) with 16777216.
  rewrite N.div_1_r. reflexivity.
Qed.

Lemma spec_le_4_exists b0 b1 b2 b3 : b0 < 256 -> b1 < 256 -> b2 < 256 -> b3 < 256 ->
  exists a, a < 2 ^ 32 /\ spec_le 4 a = [b0; b1; b2; b3].
Proof.
  intros H0 H1 H2 H3.
  exists (b0 + 256 * b1 + 65536 * b2 + 16777216 * b3).
  change (2 ^ 32) with 4294967296.
  split; [lia|].
  rewrite spec_le_4_unfold.
  f_equal; [lia|]. f_equal; [lia|]. f_equal; [lia|]. f_equal; lia.
Qed.

Lemma duration_bytes_exists b : length b = 12%nat -> bytes_okb b = true ->
  exists x y z, x < 2^32 /\ y < 2^32 /\ z < 2^32 /\ b = spec_le 4 x ++ spec_le 4 y ++ spec_le 4 z.
Proof.
  intros HL HB.
  destruct b as [|c0 [|c1 [|c2 [|c3 [|c4 [|c5 [|c6 [|c7 [|c8 [|c9 [|c10 [|c11 [|c12 r]]]]]]]]]]]]];
    try discriminate HL.
  clear HL. unfold bytes_okb in HB. cbn [forallb] in HB. unfold byte_ok in HB.
  destruct (spec_le_4_exists c0 c1 c2 c3) as [x [Hx Ex]]; try lia.
  destruct (spec_le_4_exists c4 c5 c6 c7) as [y [Hy Ey]]; try lia.
  destruct (spec_le_4_exists c8 c9 c10 c11) as [z [Hz Ez]]; try lia.
  exists x, y, z. rewrite Ex, Ey, Ez.
  repeat split; try assumption.
Qed.

Print Assumptions utf8_valid_bytes_ok.
Print Assumptions utf8_encode_valid.
Print Assumptions spec_le_mod.
Print Assumptions spec_le_4_exists.
Print Assumptions duration_bytes_exists.
