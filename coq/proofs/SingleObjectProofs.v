From Coq Require Import List NArith Bool Lia.
Require Import Base Schema Sval Ser Target Reader De SingleObject.
Import ListNotations.
Open Scope N_scope.

Lemma bytes_eqb_refl a : bytes_eqb a a = true.
Proof.
  unfold bytes_eqb. rewrite Nat.eqb_refl. cbn [andb].
  induction a as [|x a IH]; cbn; [reflexivity|]. rewrite N.eqb_refl. exact IH.
Qed.

Lemma bytes_eqb_true a b : bytes_eqb a b = true -> a = b.
Proof.
  unfold bytes_eqb. revert b; induction a as [|x a IH]; intros [|y b]; cbn; try discriminate; auto.
  intro H. apply andb_prop in H as [Hl H]. apply andb_prop in H as [Hxy H].
  apply N.eqb_eq in Hxy. subst y. f_equal. apply IH. now rewrite Hl, H.
Qed.

(* serialization: marker, fingerprint, then exactly the datum encoding *)
Theorem so_encode_layout : forall Sc fp slow v bs,
  so_encode Sc fp slow v = Ok bs <-> exists d, to_datum Sc slow v = Ok d /\ bs = SO_MARKER ++ fp ++ d.
Proof.
  intros Sc fp slow v bs. unfold so_encode. destruct (to_datum Sc slow v) as [d| | | |]; split.
  - intros [= <-]. exists d. auto.
  - intros (d' & [= <-] & ->). reflexivity.
  - discriminate. - intros (d' & H & _); discriminate.
  - discriminate. - intros (d' & H & _); discriminate.
  - discriminate. - intros (d' & H & _); discriminate.
  - discriminate. - intros (d' & H & _); discriminate.
Qed.

(* deserialization returns a value exactly when the input is at least 10 bytes, starts with the
   marker and the supplied schema's fingerprint, and the rest decodes as a datum *)
Theorem so_decode_spec : forall fuel Sc cfg fp t rs d k,
  length fp = 8%nat ->
  (so_decode fuel Sc cfg fp t rs = Ok (d, k) <->
   (10 <= blen (rd_inp rs) /\ firstn 2 (rd_inp rs) = SO_MARKER /\ firstn 8 (skipn 2 (rd_inp rs)) = fp /\
    de_datum fuel Sc cfg t (consume 10 rs) = Ok (d, k))).
Proof.
  intros fuel Sc cfg fp t rs d k Hfp. unfold so_decode, so_check_header.
  destruct (N.ltb_spec (blen (rd_inp rs)) 10) as [Hlt|Hge].
  - split; [destruct (rd_chunks rs); discriminate | intros (H & _); lia].
  - assert (Hl : (10 <= length (rd_inp rs))%nat) by (unfold blen in Hge; lia).
    assert (H2 : firstn 2 (firstn 10 (rd_inp rs)) = firstn 2 (rd_inp rs)).
    { rewrite firstn_firstn. reflexivity. }
    assert (H8 : skipn 2 (firstn 10 (rd_inp rs)) = firstn 8 (skipn 2 (rd_inp rs))).
    { rewrite skipn_firstn_comm. reflexivity. }
    rewrite H2, H8. split.
    + destruct (bytes_eqb (firstn 2 (rd_inp rs)) SO_MARKER) eqn:E1; cbn [andb]; [|discriminate].
      destruct (bytes_eqb (firstn 8 (skipn 2 (rd_inp rs))) fp) eqn:E2; [|discriminate].
      intro H. repeat split; auto using bytes_eqb_true.
    + intros (_ & E1 & E2 & H). rewrite E1, E2, !bytes_eqb_refl. exact H.
Qed.

(* a message whose fingerprint field differs from the supplied schema's fingerprint is never decoded *)
Theorem so_mismatch_rejected : forall fuel Sc cfg fp fp' t d rest chunks ma,
  length fp = 8%nat -> length fp' = 8%nat -> fp <> fp' ->
  forall r, so_decode fuel Sc cfg fp t (mkRd (SO_MARKER ++ fp' ++ d ++ rest) 0 chunks ma) <> Ok r.
Proof.
  intros fuel Sc cfg fp fp' t d rest chunks ma Hfp Hfp' Hne [dv k] H.
  apply (so_decode_spec fuel Sc cfg fp t _ dv k Hfp) in H. destruct H as (_ & _ & H & _).
  cbn [rd_inp] in H. change (SO_MARKER ++ fp' ++ d ++ rest) with (195 :: 1 :: fp' ++ d ++ rest) in H.
  cbn [skipn] in H. rewrite firstn_app, Hfp', Nat.sub_diag, firstn_O, app_nil_r in H.
  rewrite firstn_all2 in H by lia. congruence.
Qed.

(* a wrong marker or a short input is rejected *)
Theorem so_short_rejected : forall fuel Sc cfg fp t rs r,
  blen (rd_inp rs) < 10 -> so_decode fuel Sc cfg fp t rs <> Ok r.
Proof.
  intros fuel Sc cfg fp t rs r H. unfold so_decode.
  destruct (N.ltb_spec (blen (rd_inp rs)) 10); [destruct (rd_chunks rs); discriminate | lia].
Qed.

(* what was written under a schema is read back under it: composition with the datum round trip *)
Theorem so_roundtrip : forall fuel Sc cfg fp slow v t bs d dv k,
  length fp = 8%nat -> so_encode Sc fp slow v = Ok bs -> to_datum Sc slow v = Ok d ->
  de_datum fuel Sc cfg t (mkRd d 10 None 0) = Ok (dv, k) ->
  so_decode fuel Sc cfg fp t (slice_reader bs) = Ok (dv, k).
Proof.
  intros fuel Sc cfg fp slow v t bs d dv k Hfp He Hd Hde.
  apply so_encode_layout in He. destruct He as (d' & Hd' & ->). rewrite Hd in Hd'. injection Hd' as <-.
  apply so_decode_spec; [exact Hfp|]. unfold slice_reader. cbn [rd_inp].
  change (SO_MARKER ++ fp ++ d) with (195 :: 1 :: fp ++ d).
  repeat split.
  - unfold blen. cbn [length]. rewrite app_length. lia.
  - cbn [skipn]. rewrite firstn_app, Hfp, Nat.sub_diag, firstn_O, app_nil_r. apply firstn_all2. lia.
  - unfold consume. cbn [rd_inp rd_pos rd_chunks rd_max_alloc].
    replace (skipn (N.to_nat 10) (195 :: 1 :: fp ++ d)) with d; [exact Hde|].
    change (N.to_nat 10) with (2 + 8)%nat. cbn [skipn Nat.add].
    destruct fp as [|a0 [|a1 [|a2 [|a3 [|a4 [|a5 [|a6 [|a7 [|]]]]]]]]]; try discriminate. reflexivity.
Qed.
