(** Damaged container files with the SNAPPY framing, whole-file statements (C17): the count of one block of a
    file written by the writer model lowered / raised [file_count_changed_snappy] -- the statement of
    ContainerCodecDamage.file_count_changed_codec for [BSnappy], under the hypotheses of
    ContainerCodecProofs.file_read_back_snappy / ContainerCodecDamage.file_truncated_snappy. *)
From Coq Require Import NArith ZArith List Lia Bool Arith.
From Coq Require Import ZifyN ZifyBool ZifyNat.
Import ListNotations.
Require Import Base Kinds Schema Varint Utf8 Sval Ser Target Reader Text De VectoredWrite Container.
Require Import AvroValue Encoding Denote Wf.
Require Import CodecLoop DecodeLoop ContainerCodec.
Require SerProofs DeProofs RoundTripProofs ContainerProofs ReaderProofs.
Require DePrefixProofs DeSoundBase DeSoundReject DeSafetyProofs ContainerDamageProofs.
Require Import ContainerReadProofs ContainerHeaderProofs ContainerChunkProofs.
Require Import CodecLoopProofs DecodeLoopProofs DecodeLoopDe DecodeLoopToy DecodeLoopDePrefix.
Require Import ContainerCodecProofs ContainerCodecDamage.
Import ReaderProofs.
Local Open Scope nat_scope.
Notation length := List.length (only parsing).

Ltac Zify.zify_post_hook ::= Z.to_euclidean_division_equations.

Arguments N.add : simpl never.
Arguments N.sub : simpl never.
Arguments N.mul : simpl never.
Arguments N.div : simpl never.
Arguments N.modulo : simpl never.
Arguments N.pow : simpl never.
Arguments N.shiftl : simpl never.
Arguments N.shiftr : simpl never.
Arguments N.land : simpl never.
Arguments N.lor : simpl never.
Arguments N.ltb : simpl never.
Arguments N.leb : simpl never.
Arguments N.eqb : simpl never.
Arguments N.of_nat : simpl never.
Arguments N.to_nat : simpl never.
Arguments N.min : simpl never.
Arguments Z.of_nat : simpl never.

(* the facts about one block [b] of a snappy session *)
Lemma snappy_session_block_facts : forall raw_enc crc32 Sc cfg root all bs1 b bs2,
  Forall (value_ok Sc cfg root) all -> fits (length all) -> snappy_sizes_ok raw_enc crc32 Sc root all ->
  concat (bs1 ++ b :: bs2) = all -> b <> [] ->
  Forall (value_ok Sc cfg root) b /\ fits (length b) /\
  fits (length (snappy_encode raw_enc crc32 (encs Sc root b))).
Proof.
  intros raw_enc crc32 Sc cfg root all bs1 b bs2 Hv Hc Hk Hcat Hne. rewrite concat_app in Hcat. cbn [concat] in Hcat.
  pose proof (Hk (concat bs1) b (concat bs2) (eq_sym Hcat) Hne) as Hz. subst all.
  apply Forall_app in Hv. destruct Hv as [_ Hv]. apply Forall_app in Hv. destruct Hv as [Hv _].
  rewrite !app_length in Hc. unfold fits in *.
  split; [exact Hv|]. split; [lia|exact Hz].
Qed.

Section FileSnappyCount.
Variable raw_enc : bytes -> bytes.
Variable raw_dec : bytes -> option bytes.
Variable crc32 : bytes -> N.
Hypothesis Hraw : forall x, raw_dec (raw_enc x) = Some x.
Hypothesis Hcrc : forall x, (crc32 x < 4294967296)%N.
Variable D : Type.
Variable dread : D -> bytes -> option chunkst -> nat -> dres * D.
Variable d0 : D.
Variable policy : nat -> nat -> option nat.
Variable lfuel : nat.
Variable Sc : fschema.
Variable cfg : dcfg.
Variable root : fnode.
Variable approx : N.
Variable sync : bytes.
Variable vectored : bool.
Hypothesis Hwf : schema_wf Sc = true.
Hypothesis Hroot : fnode_at Sc 0 = Some root.
Hypothesis Hsync : length sync = 16.

Notation vok := (value_ok Sc cfg root).
Notation encsW := (encs Sc root).
Notation senc := (snappy_encode raw_enc crc32).
Notation vdecF := (cc_vdec Sc cfg root).
Notation valF := (dval_any Sc root).
Notation fileS := (ccr_file D dread d0 policy raw_dec crc32 dval (cc_vdec Sc cfg root) BSnappy lfuel).
Notation gblkS := (gblk senc sync avalue (enc1 Sc root)).

(** 2. the COUNT of one block of a written snappy file lowered / raised (the long replaced by the encoding of
    another count, of the same length or not: the file re-assembled) *)
Theorem file_count_changed_snappy : forall json cname user sched st0 hs close outs st',
  keys_utf8 user -> length user <= 998 ->
  wbuild sync json cname user sched = (WROk, st0) ->
  Forall vok (vals_of hs) -> fits (length (vals_of hs)) -> snappy_sizes_ok raw_enc crc32 Sc root (vals_of hs) ->
  close = WFinish \/ close = WIntoInner \/ close = WDrop ->
  wrun senc Sc approx sync vectored st0 (map (op_of Sc root) hs ++ [close]) = (outs, st') ->
  Forall (fun r => fst r = WROk) outs ->
  exists blocks,
    w_sink st' = w_sink st0 ++ flat_map gblkS blocks /\ concat blocks = vals_of hs /\
    forall bs1 b bs2, blocks = bs1 ++ b :: bs2 ->
      let z := senc (encsW b) in
      let file c := w_sink st0 ++ flat_map gblkS bs1
                    ++ (encode_long (Z.of_nat c) ++ encode_long (Z.of_nat (length z)) ++ z ++ sync)
                    ++ flat_map gblkS bs2 in
      (* lowered to the length of [vs1]: the blocks in front, the first values of the block, "data left in the block";
         the blocks behind are not delivered *)
      (forall vs1 vs2 input, b = vs1 ++ vs2 -> encsW vs2 <> [] ->
         reads_file (length (file (length vs1))) (file (length vs1)) input ->
         fileS input
         = Ok (header_entries json cname user, sync, map valF (concat bs1 ++ vs1), CBlock (BEndErr EndLeftover))) /\
      (* raised: the blocks in front, the values of the block, a value error -- when the datum decoder does not
         accept the empty input *)
      (forall extra input, fits (length b + S extra) -> (forall v, fst (vdecF []) <> Ok v) ->
         reads_file (length (file (length b + S extra))) (file (length b + S extra)) input ->
         fileS input
         = Ok (header_entries json cname user, sync, map valF (concat bs1 ++ b), CBlock BValueErr)).
Proof.
  intros json cname user sched st0 hs close outs st' Hu Hn Hb Hv Hc Hk Hclose Hrun Hall.
  destruct (written_blocks senc Sc cfg root approx sync vectored Hwf Hroot json cname user sched st0 hs close outs st'
              Hb Hv Hclose Hrun Hall) as (blocks & Hh & Hs & Hcat & Hne).
  exists blocks. split; [exact Hs|]. split; [exact Hcat|].
  pose proof (segments_blocks _ _ blocks
                (snappy_segments_read raw_enc raw_dec crc32 Hraw Hcrc D dread d0 policy lfuel Sc cfg root sync Hwf Hsync
                   _ Hv Hc Hk) Hcat Hne) as Hreads.
  intros bs1 b bs2 Hbl z file. subst blocks.
  assert (Hbne : b <> []).
  { apply Forall_app in Hne. destruct Hne as [_ Hne]. exact (Forall_inv Hne). }
  destruct (snappy_session_block_facts raw_enc crc32 Sc cfg root _ bs1 b bs2 Hv Hc Hk Hcat Hbne) as (HPb & Hcb & Hz).
  apply Forall_app in Hreads. destruct Hreads as [Hr1 _].
  split.
  - intros vs1 vs2 input Hb12 Hne2 Hin. subst b.
    destruct (file_lift senc D dread d0 policy raw_dec crc32 lfuel Sc cfg root sync Hsync json cname user _ Hh Hu Hn
                BSnappy _ _ input (le_n _) Hin) as (r & Hi & Hm & Hlift).
    apply Hlift. rewrite map_app.
    apply (ccr_read_stop_after_prefix senc D dread d0 policy raw_dec crc32 dval vdecF lfuel sync avalue (enc1 Sc root) valF
             BSnappy bs1 _ r _ _ Hr1 Hi Hm).
    + rewrite <- !app_assoc. apply encode_long_nonempty.
    + intros r' Hi' Hm'. rewrite <- !app_assoc in Hi'.
      apply Forall_app in HPb. destruct HPb as [HP1 _]. rewrite app_length in Hcb. unfold fits in Hcb.
      apply (snappy_block_count_lowered senc D dread d0 policy raw_dec crc32 dval vdecF lfuel sync Hsync avalue vok
               (enc1 Sc root) valF (cc_vdec_ok Sc cfg root Hwf) raw_enc (fun x => eq_refl) Hraw Hcrc
               vs1 vs2 (sync ++ flat_map gblkS bs2) r'); try assumption.
      unfold fits. lia.
  - intros extra input Hce Hempty Hin.
    destruct (file_lift senc D dread d0 policy raw_dec crc32 lfuel Sc cfg root sync Hsync json cname user _ Hh Hu Hn
                BSnappy _ _ input (le_n _) Hin) as (r & Hi & Hm & Hlift).
    apply Hlift. rewrite map_app.
    apply (ccr_read_stop_after_prefix senc D dread d0 policy raw_dec crc32 dval vdecF lfuel sync avalue (enc1 Sc root) valF
             BSnappy bs1 _ r _ _ Hr1 Hi Hm).
    + rewrite <- !app_assoc. apply encode_long_nonempty.
    + intros r' Hi' Hm'. rewrite <- !app_assoc in Hi'.
      apply (snappy_block_count_raised senc D dread d0 policy raw_dec crc32 dval vdecF lfuel sync Hsync avalue vok
               (enc1 Sc root) valF (cc_vdec_ok Sc cfg root Hwf) raw_enc (fun x => eq_refl) Hraw Hcrc
               b extra (sync ++ flat_map gblkS bs2) r'); assumption.
Qed.

End FileSnappyCount.

(* ------------------------------------------------------------------------------------------ *)
(** * 3. GENUINENESS for the snappy framing: other bytes in the place of the payload of one block *)

(** ** one block, any value decoder *)
Section SnappyPayloadBlock.
Variable D : Type.
Variable dread : D -> bytes -> option chunkst -> nat -> dres * D.
Variable d0 : D.
Variable policy : nat -> nat -> option nat.
Variable raw_dec : bytes -> option bytes.
Variable crc32 : bytes -> N.
Variable V : Type.
Variable vdec : bytes -> result V * nat.
Variable lfuel : nat.
Variable sync : bytes.
Variable Wv : Type.
Variable P : Wv -> Prop.
Variable enc1 : Wv -> bytes.
Variable val : Wv -> V.
Hypothesis Hv : vdec_ok V vdec Wv P enc1 val.
Notation encsG := (flat_map enc1).
Notation blockS := (ccr_block D dread d0 policy raw_dec crc32 V vdec BSnappy lfuel sync).

Lemma snappy_gate_fits : forall r2 size, rmode_ok r2 -> size <= length (rd_inp r2) -> snappy_gate r2 size = true.
Proof.
  intros r2 size Hm2 Hl. unfold snappy_gate. unfold rmode_ok in Hm2.
  destruct (rd_chunks r2) as [c|]; [|reflexivity].
  destruct Hm2 as [_ Hma]. apply orb_true_iff. right. apply negb_true_iff. apply N.ltb_ge. lia.
Qed.

(* the two longs of the block [b] (its count; the length of [pay]), ANY bytes [pay] whose snappy framing -- raw
   decoder and CRC trailer -- accepts nothing but the data written for [b], any 16 bytes, any bytes: the block is
   refused / left with an error after some first values of [b], or crossed with the values of [b] *)
Lemma snappy_block_payload_replaced : forall b pay mark tail r,
  Forall P b -> fits (length b) -> fits (length pay) -> length mark = 16 ->
  (forall d, snappy_decode raw_dec crc32 pay = Ok d -> d = encsG b) ->
  rd_inp r = encode_long (Z.of_nat (length b)) ++ encode_long (Z.of_nat (length pay)) ++ pay ++ mark ++ tail ->
  rmode_ok r ->
  (exists i e, blockS r = BStop V (map val (firstn i b)) e) \/
  (mark = sync /\ exists r', blockS r = BNext V (map val b) r' /\ rd_inp r' = tail /\ rmode_ok r').
Proof.
  intros b pay mark tail r HP Hc Hz Hmk Hnc Hi Hm.
  destruct (ccr_block_head D dread d0 policy raw_dec crc32 V vdec lfuel sync BSnappy _ _ _ r Hc Hz Hi Hm)
    as (r2 & Hi2 & Hm2 & Hb).
  rewrite Hb. clear Hb.
  rewrite (snappy_gate_fits r2 (length pay) Hm2) by (rewrite Hi2, app_length; lia).
  unfold snappy_run, snappy_open. rewrite app_length.
  replace (length pay + length (mark ++ tail) <? length pay) with false by (symmetry; apply Nat.ltb_ge; lia).
  rewrite firstn_app_exact by reflexivity. rewrite skipn_app_exact by reflexivity.
  destruct (snappy_decode raw_dec crc32 pay) as [d| | | |] eqn:Ed;
    try (left; exists 0; eexists; reflexivity).
  rewrite (Hnc d eq_refl). clear Ed.
  pose proof (snappy_values_ok V vdec Wv P enc1 val Hv b [] HP) as Hsv. rewrite app_nil_r in Hsv. rewrite Hsv.
  unfold sync_check. cbn [tk_src tk_ch tk_consume]. rewrite app_length, Hmk.
  replace (16 + length tail <? 16) with false by (symmetry; apply Nat.ltb_ge; lia).
  rewrite (firstn_app_exact mark tail 16) by (symmetry; exact Hmk).
  rewrite (skipn_app_exact mark tail 16) by (symmetry; exact Hmk).
  destruct (bytes_eqb mark sync) eqn:Eq.
  - right. split; [apply bytes_eqb_eq; exact Eq|]. eexists. split; [reflexivity|]. split; [reflexivity|].
    eapply (after_block_rmode (fun x => x) D dread d0 policy raw_dec crc32 mark Hmk); [exact Hm2| |].
    + rewrite Hi2. rewrite (app_assoc pay mark tail). reflexivity.
    + unfold consume. cbn [rd_chunks]. destruct (rd_chunks r2) as [c|]; cbn [chrel]; [|exact I].
      apply consume_chunks_ok.
  - left. exists (length b). eexists. rewrite firstn_all. reflexivity.
Qed.

End SnappyPayloadBlock.

(** ** whole files *)
Section FileSnappyPayload.
Variable raw_enc : bytes -> bytes.
Variable raw_dec : bytes -> option bytes.
Variable crc32 : bytes -> N.
Hypothesis Hraw : forall x, raw_dec (raw_enc x) = Some x.
Hypothesis Hcrc : forall x, (crc32 x < 4294967296)%N.
Variable D : Type.
Variable dread : D -> bytes -> option chunkst -> nat -> dres * D.
Variable d0 : D.
Variable policy : nat -> nat -> option nat.
Variable lfuel : nat.
Variable Sc : fschema.
Variable cfg : dcfg.
Variable root : fnode.
Variable approx : N.
Variable sync : bytes.
Variable vectored : bool.
Hypothesis Hwf : schema_wf Sc = true.
Hypothesis Hroot : fnode_at Sc 0 = Some root.
Hypothesis Hsync : length sync = 16.

Notation vok := (value_ok Sc cfg root).
Notation encsW := (encs Sc root).
Notation senc := (snappy_encode raw_enc crc32).
Notation vdecF := (cc_vdec Sc cfg root).
Notation valF := (dval_any Sc root).
Notation fileS := (ccr_file D dread d0 policy raw_dec crc32 dval (cc_vdec Sc cfg root) BSnappy lfuel).
Notation readS := (ccr_read D dread d0 policy raw_dec crc32 dval (cc_vdec Sc cfg root) BSnappy lfuel sync).
Notation gblkS := (gblk senc sync avalue (enc1 Sc root)).

(** ANY bytes [pay] in the place of the payload of one block of a written snappy file (the size long says their
    length; any 16 bytes where the marker was), under the NO-COLLISION hypothesis, stated on the snappy framing of
    the reader: whatever [snappy_decode] -- the raw decoder on all but the last four bytes, then the comparison of
    the CRC-32 of its result with the trailer -- accepts of [pay] is the data that was written for the block.
    Then every value delivered was written, in order: the run stops in the damaged block after some of its first
    values (here: none, or all of them and a marker error), or delivers everything *)
Theorem file_payload_replaced_snappy : forall json cname user sched st0 hs close outs st',
  keys_utf8 user -> length user <= 998 ->
  wbuild sync json cname user sched = (WROk, st0) ->
  Forall vok (vals_of hs) -> fits (length (vals_of hs)) -> snappy_sizes_ok raw_enc crc32 Sc root (vals_of hs) ->
  close = WFinish \/ close = WIntoInner \/ close = WDrop ->
  wrun senc Sc approx sync vectored st0 (map (op_of Sc root) hs ++ [close]) = (outs, st') ->
  Forall (fun r => fst r = WROk) outs ->
  exists blocks,
    w_sink st' = w_sink st0 ++ flat_map gblkS blocks /\ concat blocks = vals_of hs /\
    forall bs1 b bs2 pay mark input, blocks = bs1 ++ b :: bs2 ->
      length mark = 16 -> fits (length pay) ->
      (forall d, snappy_decode raw_dec crc32 pay = Ok d -> d = encsW b) ->
      let file := w_sink st0 ++ flat_map gblkS bs1
                  ++ (encode_long (Z.of_nat (length b)) ++ encode_long (Z.of_nat (length pay)) ++ pay ++ mark)
                  ++ flat_map gblkS bs2 in
      reads_file (length file) file input ->
      (exists i e, fileS input
                   = Ok (header_entries json cname user, sync, map valF (concat bs1 ++ firstn i b), e) /\
                   e <> CEof /\ e <> CFuel) \/
      (mark = sync /\
       fileS input = Ok (header_entries json cname user, sync, map valF (vals_of hs), CEof)).
Proof.
  intros json cname user sched st0 hs close outs st' Hu Hn Hb Hv Hc Hk Hclose Hrun Hall.
  destruct (written_blocks senc Sc cfg root approx sync vectored Hwf Hroot json cname user sched st0 hs close outs st'
              Hb Hv Hclose Hrun Hall) as (blocks & Hh & Hs & Hcat & Hne).
  exists blocks. split; [exact Hs|]. split; [exact Hcat|].
  pose proof (segments_blocks _ _ blocks
                (snappy_segments_read raw_enc raw_dec crc32 Hraw Hcrc D dread d0 policy lfuel Sc cfg root sync Hwf Hsync
                   _ Hv Hc Hk) Hcat Hne) as Hreads.
  intros bs1 b bs2 pay mark input Hbl Hmk Hzp Hnc file Hin. subst blocks.
  assert (Hbne : b <> []).
  { apply Forall_app in Hne. destruct Hne as [_ Hne]. exact (Forall_inv Hne). }
  destruct (snappy_session_block_facts raw_enc crc32 Sc cfg root _ bs1 b bs2 Hv Hc Hk Hcat Hbne) as (HPb & Hcb & _).
  apply Forall_app in Hreads. destruct Hreads as [Hr1 Hr2]. apply Forall_inv_tail in Hr2.
  destruct (file_lift senc D dread d0 policy raw_dec crc32 lfuel Sc cfg root sync Hsync json cname user _ Hh Hu Hn
              BSnappy _ _ input (le_n _) Hin) as (r & Hi & Hm & Hlift).
  destruct (ccr_read_prefix senc D dread d0 policy raw_dec crc32 dval vdecF lfuel sync avalue (enc1 Sc root) valF BSnappy
              bs1 _ r Hr1 Hi Hm) as (r' & Hi' & Hm' & Hr).
  rewrite <- !app_assoc in Hi'.
  assert (Hne' : rd_inp r' <> []) by (rewrite Hi'; apply encode_long_nonempty).
  rewrite (ccr_read_step _ _ _ _ _ _ _ _ _ _ _ r' Hne') in Hr.
  destruct (snappy_block_payload_replaced D dread d0 policy raw_dec crc32 dval vdecF lfuel sync avalue vok (enc1 Sc root)
              valF (cc_vdec_ok Sc cfg root Hwf) b pay mark (flat_map gblkS bs2) r' HPb Hcb Hzp Hmk Hnc Hi' Hm')
    as [(i & e & Eb)|(Hms & r'' & Eb & Hi'' & Hm'')].
  - left. exists i, e. rewrite Eb in Hr.
    destruct (ccr_block_stop_kind _ _ _ _ _ _ _ _ _ _ _ _ _ _ Eb) as [Hf He].
    split; [|split; assumption]. apply Hlift. rewrite Hr, map_app. reflexivity.
  - right. split; [exact Hms|]. apply Hlift. rewrite Eb in Hr.
    rewrite (ccr_read_back senc D dread d0 policy raw_dec crc32 dval vdecF lfuel sync Hsync avalue (enc1 Sc root) valF
               BSnappy bs2 r'' Hr2 Hi'' Hm'') in Hr.
    rewrite Hr, <- Hcat, concat_app, !map_app. cbn [concat]. rewrite map_app. reflexivity.
Qed.

(** the form with the two hypotheses named in the task: the trailer of [pay] is the CRC-32 of what the raw decoder
    returns on the rest of [pay] -- so the CRC check cannot refuse -- and the raw decoder returns the original data
    or fails (no collision). Then the only outcomes are: refused when the block is entered (raw decoder error, or
    fewer than 4 bytes), or all values of the block -- followed by everything else when the marker is the file's *)
Corollary file_payload_replaced_snappy_raw : forall json cname user sched st0 hs close outs st',
  keys_utf8 user -> length user <= 998 ->
  wbuild sync json cname user sched = (WROk, st0) ->
  Forall vok (vals_of hs) -> fits (length (vals_of hs)) -> snappy_sizes_ok raw_enc crc32 Sc root (vals_of hs) ->
  close = WFinish \/ close = WIntoInner \/ close = WDrop ->
  wrun senc Sc approx sync vectored st0 (map (op_of Sc root) hs ++ [close]) = (outs, st') ->
  Forall (fun r => fst r = WROk) outs ->
  exists blocks,
    w_sink st' = w_sink st0 ++ flat_map gblkS blocks /\ concat blocks = vals_of hs /\
    forall bs1 b bs2 raw trailer mark input, blocks = bs1 ++ b :: bs2 ->
      length mark = 16 -> length trailer = 4 -> fits (length (raw ++ trailer)) ->
      (* the trailer is the CRC of what the raw decoder returns *)
      (forall d, raw_dec raw = Some d -> of_be32 trailer = crc32 d) ->
      (* no collision: the raw decoder returns the original data or fails *)
      (forall d, raw_dec raw = Some d -> d = encsW b) ->
      let pay := raw ++ trailer in
      let file := w_sink st0 ++ flat_map gblkS bs1
                  ++ (encode_long (Z.of_nat (length b)) ++ encode_long (Z.of_nat (length pay)) ++ pay ++ mark)
                  ++ flat_map gblkS bs2 in
      reads_file (length file) file input ->
      (exists i e, fileS input
                   = Ok (header_entries json cname user, sync, map valF (concat bs1 ++ firstn i b), e) /\
                   e <> CEof /\ e <> CFuel) \/
      (mark = sync /\
       fileS input = Ok (header_entries json cname user, sync, map valF (vals_of hs), CEof)).
Proof.
  intros json cname user sched st0 hs close outs st' Hu Hn Hb Hv Hc Hk Hclose Hrun Hall.
  destruct (file_payload_replaced_snappy json cname user sched st0 hs close outs st' Hu Hn Hb Hv Hc Hk Hclose Hrun Hall)
    as (blocks & Hs & Hcat & H).
  exists blocks. split; [exact Hs|]. split; [exact Hcat|].
  intros bs1 b bs2 raw trailer mark input Hbl Hmk Htr Hzp _ Hnc pay file Hin.
  apply (H bs1 b bs2 pay mark input Hbl Hmk Hzp); [|exact Hin].
  intros d Hd. unfold snappy_decode, pay in Hd. rewrite app_length, Htr in Hd.
  replace (length raw + 4 <? 4) with false in Hd by (symmetry; apply Nat.ltb_ge; lia).
  replace (length raw + 4 - 4) with (length raw) in Hd by lia.
  rewrite firstn_app_exact in Hd by reflexivity.
  destruct (raw_dec raw) as [d'|] eqn:Er; [|discriminate].
  destruct (crc32 d' =? of_be32 (skipn (length raw) (raw ++ trailer)))%N; [|discriminate].
  inversion Hd; subst d'. exact (Hnc d eq_refl).
Qed.

End FileSnappyPayload.

(* ------------------------------------------------------------------------------------------ *)
(** * The no-collision hypothesis is needed *)

(* a one-byte value decoder, the identity as raw codec and a CRC that is constant (every two data collide): the block
   written for the value 7, and the same block with the payload of the value 9 -- the framing accepts it, and the
   reader crosses the block delivering 9, a value that was never written *)
Definition cx_vdec (d : bytes) : result N * nat :=
  match d with x :: _ => (Ok x, 1) | [] => (Err EData, 0) end.
Definition cx_raw_dec : bytes -> option bytes := fun x => Some x.
Definition cx_crc : bytes -> N := fun _ => 0%N.
Definition cx_sync : bytes := repeat 0%N 16.
Definition cx_block (pay : bytes) : bytes := encode_long 1 ++ encode_long 5 ++ pay ++ cx_sync.
Definition cx_read (pay : bytes) : bstep N :=
  ccr_block unit (fun d _ _ _ => (DErr, d)) tt (fun _ _ => None) cx_raw_dec cx_crc N cx_vdec BSnappy 10 cx_sync
            (mkRd (cx_block pay) 0 None 0).

Theorem payload_collision_refuted :
  (* the written block *)
  snappy_encode (fun x => x) cx_crc [7%N] = [7; 0; 0; 0; 0]%N /\
  (forall x, cx_raw_dec ((fun x => x) x) = Some x) /\ (forall x, (cx_crc x < 4294967296)%N) /\
  cx_read [7; 0; 0; 0; 0]%N = BNext N [7%N] (mkRd [] 23 None 0) /\
  (* the replaced payload: its trailer IS the CRC of what the raw decoder returns, but that is other data *)
  snappy_decode cx_raw_dec cx_crc [9; 0; 0; 0; 0]%N = Ok [9%N] /\
  cx_read [9; 0; 0; 0; 0]%N = BNext N [9%N] (mkRd [] 23 None 0).
Proof. vm_compute. repeat split; reflexivity. Qed.

(* ------------------------------------------------------------------------------------------ *)
(** * Assumptions *)
Print Assumptions file_count_changed_snappy.
Print Assumptions snappy_block_payload_replaced.
Print Assumptions file_payload_replaced_snappy.
Print Assumptions file_payload_replaced_snappy_raw.
Print Assumptions payload_collision_refuted.
