(** C13, continued: the record permutation theorem through the remaining presentation forms.
    (c) [perm_equiv Sc n v1 v2], a schema-directed relation: two presentations differ only by
        permuting the fields of record presentations that land on record nodes (with distinct
        schema names), anywhere inside (records in records, arrays of records, map values, union
        branches, newtype wrappers, Some), and the congruence theorem [perm_equiv_ser]
        / [perm_equiv_ser_any_sink]: related presentations serialize with the same outcome and bytes;
        the untyped formulation is false ([perm_on_map_refuted]);
    (a) SerializeMap presentations with split serialize_key / serialize_value calls
        ([mk_calls], [split_calls]: [record_order_independent_calls], [..._split]);
    (b) records reached through a union, by name or by type ([route]:
        [record_order_independent_routed], [..._union_named], [..._union_typed], [..._union_map],
        [..._newtype_variant], [ser_routed_record]).
    Compared with RecordProofs.record_order_independent two hypotheses are removed: the presented
    names need not be distinct ([record_duplicate_field_fails]: a duplicate fails in every order) and
    the sink need not be unbounded ([ser_BP]: a bounded sink fails exactly when the bytes do not fit).
    The remaining ones are necessary: [perm_dup_schema_refuted], [perm_pool_refuted]. *)
Require Import Base Kinds GenUnionTable Schema Varint Utf8 Sval Ser RecordProofs.
From Coq Require Import Lia Permutation ListDec.
Open Scope nat_scope.

Arguments N.add : simpl never.
Arguments N.sub : simpl never.
Arguments N.mul : simpl never.
Arguments N.shiftl : simpl never.
Arguments N.shiftr : simpl never.
Arguments N.land : simpl never.
Arguments N.lor : simpl never.
Arguments N.ltb : simpl never.
Arguments N.leb : simpl never.
Arguments N.eqb : simpl never.
Arguments N.of_nat : simpl never.
Arguments N.to_nat : simpl never.

(** * Part 1: a relational invariant that tolerates different failures

    [rel2] of RecordProofs demands equal errors and equal partial output on failure. Two orders of
    presenting the fields of a record fail at different places (with different errors and
    different partial output), so the congruence needs the weaker: both succeed, with related
    results and the same appended bytes, or both fail. Failure is absorbing for [sbind]. *)

Definition wres {A} (R : A -> A -> Prop) (s1 s2 : sstate) (x y : sres sstate A) : Prop :=
  match fst x, fst y with
  | Ok a, Ok b => R a b /\ post s1 s2 (snd x) (snd y)
  | Ok _, _ => False
  | _, Ok _ => False
  | _, _ => True
  end.

Definition wrel {A} (R : A -> A -> Prop) (m1 m2 : M A) : Prop :=
  forall s1 s2, sim s1 s2 -> s_budget s1 = None -> wres R s1 s2 (m1 s1) (m2 s2).

Lemma rel2_wrel {A} (R : A -> A -> Prop) m1 m2 : rel2 R m1 m2 -> wrel R m1 m2.
Proof.
  intros H s1 s2 Hs _. destruct (H s1 s2 Hs) as (Hr & Hp). unfold wres.
  destruct (fst (m1 s1)), (fst (m2 s2)); cbn in Hr; try contradiction; auto.
Qed.

Lemma wrel_ext {A} (R : A -> A -> Prop) m1 m2 m1' m2' :
  (forall s, m1 s = m1' s) -> (forall s, m2 s = m2' s) -> wrel R m1' m2' -> wrel R m1 m2.
Proof. intros E1 E2 H s1 s2 Hs Hb. rewrite E1, E2. auto. Qed.

Lemma post_budget s1 s2 t1 t2 : post s1 s2 t1 t2 -> s_budget s1 = None -> s_budget t1 = None.
Proof. intros (_ & _ & H & _). exact H. Qed.

Lemma wrel_bind {A B} (R : A -> A -> Prop) (R' : B -> B -> Prop) m1 m2 f1 f2 :
  wrel R m1 m2 -> (forall a b, R a b -> wrel R' (f1 a) (f2 b)) -> wrel R' (sbind m1 f1) (sbind m2 f2).
Proof.
  intros Hm Hf s1 s2 Hs Hb. unfold sbind. specialize (Hm s1 s2 Hs Hb). unfold wres in *.
  destruct (m1 s1) as [r1 t1], (m2 s2) as [r2 t2]. cbn [fst snd] in Hm.
  destruct r1, r2; try contradiction; cbn [fst snd]; auto.
  destruct Hm as (Hr & Hp).
  specialize (Hf a a0 Hr t1 t2 (proj1 Hp) (post_budget _ _ _ _ Hp Hb)).
  destruct (f1 a t1) as [r1' u1], (f2 a0 t2) as [r2' u2]. cbn [fst snd] in *.
  destruct r1', r2'; try contradiction; auto.
  destruct Hf as (Hr' & Hp'). split; auto. eapply post_trans; eauto.
Qed.

Lemma wrel_ret {A} (R : A -> A -> Prop) a b : R a b -> wrel R (sret a) (sret b).
Proof. intro H. apply rel2_wrel. now apply rel2_ret. Qed.

Lemma wrel_weaken {A} (R R' : A -> A -> Prop) m1 m2 :
  (forall a b, R a b -> R' a b) -> wrel R m1 m2 -> wrel R' m1 m2.
Proof.
  intros HR H s1 s2 Hs Hb. specialize (H s1 s2 Hs Hb). unfold wres in *.
  destruct (fst (m1 s1)), (fst (m2 s2)); auto. destruct H; auto.
Qed.

Lemma sim_sym s1 s2 : sim s1 s2 -> sim s2 s1.
Proof. intros (H1 & H2 & H3 & H4). split; [|split; [|split]]; auto. Qed.

Lemma post_sym s1 s2 t1 t2 : sim s1 s2 -> post s1 s2 t1 t2 -> post s2 s1 t2 t1.
Proof.
  intros (_ & _ & Hb & Hl) (Hs & Hl' & Hb' & w & E1 & E2).
  pose proof Hs as (_ & _ & Hbt & Hlt).
  split; [now apply sim_sym|]. split; [congruence|]. split.
  - intro H. rewrite <- Hbt. apply Hb'. congruence.
  - exists w. auto.
Qed.

Lemma wrel_sym {A} (R : A -> A -> Prop) m1 m2 :
  wrel R m1 m2 -> wrel (fun a b => R b a) m2 m1.
Proof.
  intros H s1 s2 Hs Hb. pose proof (sim_sym _ _ Hs) as Hs'.
  assert (Hb2 : s_budget s2 = None) by (destruct Hs as (_ & _ & E & _); congruence).
  specialize (H s2 s1 Hs' Hb2). unfold wres in *.
  destruct (fst (m1 s2)), (fst (m2 s1)); auto. destruct H as (Hr & Hp). split; auto.
  now apply post_sym.
Qed.

Lemma sim_refl_l s1 s2 : sim s1 s2 -> sim s1 s1.
Proof. intros (H1 & _). split; [|split; [|split]]; auto. Qed.

Lemma wrel_trans {A} (m1 m2 m3 : M A) :
  wrel eq m1 m2 -> wrel eq m2 m3 -> wrel eq m1 m3.
Proof.
  intros H12 H23 s1 s3 Hs Hb.
  specialize (H12 s1 s1 (sim_refl_l _ _ Hs) Hb). specialize (H23 s1 s3 Hs Hb). unfold wres in *.
  destruct (m1 s1) as [r1 t1], (m2 s1) as [r2 t2], (m3 s3) as [r3 t3]. cbn [fst snd] in *.
  destruct r1, r2; try contradiction; destruct r3; try contradiction; auto.
  destruct H12 as (-> & Hp12), H23 as (-> & Hp23). split; auto.
  destruct Hp12 as (Hs12 & Hl12 & Hb12 & w & E1 & E2), Hp23 as (Hs23 & Hl23 & Hb23 & w' & E2' & E3).
  rewrite E2 in E2'. apply app_inv_head in E2'. subst w'.
  destruct Hs12 as (Hq1 & _ & Hbb & Hll), Hs23 as (_ & Hq3 & Hbb' & Hll').
  split; [split; [|split; [|split]]; auto; congruence|].
  split; auto. split; auto. exists w. auto.
Qed.

(* writing the same bytes on both sides *)
Definition st_app (st : sstate) (w : bytes) : sstate := st_with_out st (s_out st ++ w) None.

Lemma st_app_nil st : s_budget st = None -> st_app st [] = st.
Proof. intro H. unfold st_app, st_with_out. rewrite app_nil_r. destruct st; cbn in *; now subst. Qed.
Lemma st_app_app st w1 w2 : st_app (st_app st w1) w2 = st_app st (w1 ++ w2).
Proof. unfold st_app, st_with_out. cbn. now rewrite app_assoc. Qed.

Lemma sim_app s1 s2 w : sim s1 s2 -> sim (st_app s1 w) (st_app s2 w).
Proof.
  intros ((Ha & Hb) & (Hc & Hd) & He & Hf). split; [|split; [|split]]; cbn; auto; split; auto.
Qed.
Lemma post_app s1 s2 w : sim s1 s2 -> post s1 s2 (st_app s1 w) (st_app s2 w).
Proof.
  intro Hs. split; [now apply sim_app|]. split; [reflexivity|]. split; [reflexivity|].
  exists w. auto.
Qed.

Lemma wres_shift {A} (R : A -> A -> Prop) s1 s2 w x y :
  sim s1 s2 -> wres R (st_app s1 w) (st_app s2 w) x y -> wres R s1 s2 x y.
Proof.
  intros Hs H. unfold wres in *. destruct (fst x), (fst y); auto.
  destruct H as (Hr & Hp). split; auto. eapply post_trans; [apply post_app; exact Hs|exact Hp].
Qed.

Lemma write_app bs st : s_budget st = None -> write bs st = (Ok tt, st_app st bs).
Proof. intro H. unfold write. now rewrite H. Qed.

(** * Part 2: where a presentation lands

    The union steps of the serializer as pure functions: the bytes written (the discriminant)
    and the node at which serialization continues; [None] when the step fails. *)

(* serialize_lookup_union_variant_by_name *)
Definition named_route (Sc : fschema) (n : fnode) (nm : bytes) : option (bytes * fnode) :=
  match n with
  | FUnion ks =>
      match union_named Sc ks nm with
      | None => Some ([], n)
      | Some (d, k') =>
          match fnode_at Sc k' with
          | None => None
          | Some n' => Some (encode_long d, n')
          end
      end
  | _ => Some ([], n)
  end.

(* serialize_union_unnamed *)
Definition unnamed_route (Sc : fschema) (n : fnode) (key : ukey) : option (bytes * fnode) :=
  match n with
  | FUnion ks =>
      match union_unnamed Sc ks key with
      | None => None
      | Some (d, k') =>
          match fnode_at Sc k' with
          | None => None
          | Some (FUnion _) => None
          | Some n' => Some (encode_long d, n')
          end
      end
  | _ => Some ([], n)
  end.

(* struct / struct variant (by name, then by type) and map (by type) presentations *)
Definition route (Sc : fschema) (n : fnode) (on : option bytes) : option (bytes * fnode) :=
  match on with
  | None => unnamed_route Sc n KStructOrMap
  | Some nm =>
      match named_route Sc n nm with
      | None => None
      | Some (w1, n1) =>
          match unnamed_route Sc n1 KStructOrMap with
          | None => None
          | Some (w2, n2) => Some (w1 ++ w2, n2)
          end
      end
  end.

Lemma named_step_route Sc n nm w n' st :
  named_route Sc n nm = Some (w, n') -> s_budget st = None ->
  named_step Sc n nm st = (Ok n', st_app st w).
Proof.
  intros E Hb. unfold named_route in E. unfold named_step.
  destruct n; try (injection E as <- <-; now rewrite st_app_nil).
  destruct (union_named Sc variants nm) as [[d k']|]; [|injection E as <- <-; now rewrite st_app_nil].
  destruct (fnode_at Sc k') as [n1|]; [|discriminate]. injection E as <- <-.
  unfold sbind, write_varint. now rewrite write_app.
Qed.

Lemma named_step_fail Sc n nm st :
  named_route Sc n nm = None -> s_budget st = None -> is_ok (fst (named_step Sc n nm st)) = false.
Proof.
  intros E Hb. unfold named_route in E. unfold named_step.
  destruct n; try discriminate.
  destruct (union_named Sc variants nm) as [[d k']|]; [|discriminate].
  destruct (fnode_at Sc k') as [n1|]; [discriminate|].
  unfold sbind, write_varint. now rewrite write_app.
Qed.

Lemma via_union_route Sc n key w n' (leaf : fnode -> M unit) st :
  unnamed_route Sc n key = Some (w, n') -> s_budget st = None ->
  via_union Sc n key leaf st = leaf n' (st_app st w).
Proof.
  intros E Hb. unfold unnamed_route in E. unfold via_union, unnamed_step.
  destruct n; try (injection E as <- <-; now rewrite st_app_nil).
  destruct (union_unnamed Sc variants key) as [[d k']|]; [|discriminate].
  unfold sbind, write_varint. rewrite write_app by auto. cbn [sret].
  destruct (fnode_at Sc k') as [n1|]; [|discriminate].
  destruct n1; try discriminate; injection E as <- <-; reflexivity.
Qed.

(** * Part 3: key/value-split map presentations *)

(* a SerializeMap call sequence presenting the fields [ps]: serialize_entry (flag false) or
   serialize_key followed by serialize_value (flag true) *)
Fixpoint mk_calls (fps : list (bool * (bytes * sval))) : list (option sval * option sval) :=
  match fps with
  | [] => []
  | (false, (k, v)) :: r => (Some (SStr k), Some v) :: mk_calls r
  | (true, (k, v)) :: r => (Some (SStr k), None) :: (None, Some v) :: mk_calls r
  end.

Definition split_calls (ps : list (bytes * sval)) : list (option sval * option sval) :=
  mk_calls (map (fun p => (true, p)) ps).

Lemma mk_calls_entries ps : mk_calls (map (fun p => (false, p)) ps) = entries ps.
Proof. induction ps as [|[k v] ps IH]; cbn; [reflexivity|]. now rewrite IH. Qed.

Lemma map_calls_mk serk serstr fields blk dur : forall fps rs st,
  map_calls serk serstr (RKRecord fields) rs blk dur None (mk_calls fps) st =
  struct_fields serk (RKRecord fields) rs blk dur (map snd fps) st.
Proof.
  induction fps as [|[[|] [nm v]] fps IH]; intros rs st; [reflexivity| |].
  - cbn [mk_calls map snd]. cbn [map_calls struct_fields]. unfold rmap, rbind.
    destruct (rec_field_idx fields rs nm) as [[idx k]| | | |]; try reflexivity.
    destruct (record_value serk fields rs idx k v st) as [[] st']; try reflexivity.
    apply IH.
  - cbn [mk_calls map snd]. cbn [map_calls struct_fields]. unfold rmap, rbind.
    destruct (rec_field_idx fields rs nm) as [[idx k]| | | |]; try reflexivity.
    destruct (record_value serk fields rs idx k v st) as [[] st']; try reflexivity.
    apply IH.
Qed.

(* what is presented: the name used for the by-name union step (none for maps) and the fields *)
Inductive presents : sval -> option bytes -> list (bytes * sval) -> Prop :=
  | pr_struct nm len ps : presents (SStruct nm len ps) (Some nm) ps
  | pr_struct_variant e i vn len ps : presents (SStructVariant e i vn len ps) (Some vn) ps
  | pr_map len fps : presents (SMap len (mk_calls fps)) None (map snd fps).

Lemma ser_presents_record Sc n v on ps w rn fields st :
  presents v on ps -> route Sc n on = Some (w, FRecord rn fields) -> s_budget st = None ->
  ser Sc n v st = run_record (at_key Sc) fields Sc ps (st_app st w).
Proof.
  intros Hp Hr Hb. unfold route in Hr. destruct Hp.
  - destruct (named_route Sc n nm) as [[w1 n1]|] eqn:E1; [|discriminate].
    destruct (unnamed_route Sc n1 KStructOrMap) as [[w2 n2]|] eqn:E2; [|discriminate].
    injection Hr as <- ->. rewrite ser_SStruct. unfold sbind at 1.
    rewrite (named_step_route _ _ _ _ _ _ E1 Hb).
    rewrite (via_union_route _ _ _ _ _ _ _ E2) by reflexivity. rewrite st_app_app. reflexivity.
  - destruct (named_route Sc n vn) as [[w1 n1]|] eqn:E1; [|discriminate].
    destruct (unnamed_route Sc n1 KStructOrMap) as [[w2 n2]|] eqn:E2; [|discriminate].
    injection Hr as <- ->. rewrite ser_SStructVariant. unfold sbind at 1.
    rewrite (named_step_route _ _ _ _ _ _ E1 Hb).
    rewrite (via_union_route _ _ _ _ _ _ _ E2) by reflexivity. rewrite st_app_app. reflexivity.
  - rewrite ser_SMap. rewrite (via_union_route _ _ _ _ _ _ _ Hr Hb).
    cbn [start_kind]. unfold run_record, sbind.
    destruct (record_new (st_app st w)) as [[] st']; try reflexivity.
    now rewrite map_calls_mk.
Qed.

(** duration nodes: the three fields are stored by name and written in a fixed order *)
Definition u32_of (v : sval) : option N :=
  match v with SInt false W32 z => Some (Z.to_N z) | _ => None end.

Lemma extract_u32_eq v st :
  extract_u32 v st = match u32_of v with Some x => (Ok x, st) | None => (Err EData, st) end.
Proof. destruct v; try reflexivity. destruct signed, w; reflexivity. Qed.

Definition dur_step (dur : list (option N)) (p : bytes * sval) : option (list (option N)) :=
  match duration_field (fst p) with
  | None => None
  | Some i =>
      match nth_error dur i with
      | Some (Some _) => None
      | _ => match u32_of (snd p) with Some x => Some (list_set dur i (Some x)) | None => None end
      end
  end.
Fixpoint dur_run (dur : list (option N)) (ps : list (bytes * sval)) : option (list (option N)) :=
  match ps with
  | [] => Some dur
  | p :: rest => match dur_step dur p with Some d => dur_run d rest | None => None end
  end.

Lemma struct_fields_duration serk rs blk : forall ps dur st,
  struct_fields serk RKDuration rs blk dur ps st =
  match dur_run dur ps with
  | Some d => (Ok (rs, blk, d), rs, st)
  | None => (Err EData, rs, st)
  end.
Proof.
  induction ps as [|[key v] rest IH]; intros dur st; [reflexivity|].
  cbn [struct_fields dur_run]. unfold dur_step. cbn [fst snd].
  destruct (duration_field key) as [i|]; [|reflexivity].
  rewrite extract_u32_eq.
  destruct (nth_error dur i) as [[|]|]; try reflexivity;
    (destruct (u32_of v); [apply IH|reflexivity]).
Qed.

Lemma nth_set_same {A} (l : list A) i v : i < length l -> nth_error (list_set l i v) i = Some v.
Proof. revert i; induction l as [|h t IH]; intros [|i] H; cbn in *; try lia; auto. apply IH. lia. Qed.
Lemma nth_set_other {A} (l : list A) i j v : i <> j -> nth_error (list_set l i v) j = nth_error l j.
Proof. revert i j; induction l as [|h t IH]; intros [|i] [|j] H; cbn; auto; try lia. Qed.
Lemma list_set_comm {A} (l : list A) i j a b : i <> j ->
  list_set (list_set l i a) j b = list_set (list_set l j b) i a.
Proof.
  revert i j; induction l as [|h t IH]; intros [|i] [|j] H; cbn; auto; try lia. f_equal. apply IH. lia.
Qed.

Lemma duration_field_lt s i : duration_field s = Some i -> i < 3.
Proof.
  unfold duration_field. destruct (bytes_eqb s MONTHS); [intros [= <-]; lia|].
  destruct (bytes_eqb s DAYS); [intros [= <-]; lia|].
  destruct (bytes_eqb s MILLISECONDS); [intros [= <-]; lia|discriminate].
Qed.

Lemma dur_step_length dur p d : dur_step dur p = Some d -> length d = length dur.
Proof.
  unfold dur_step. destruct (duration_field (fst p)) as [i|]; [|discriminate].
  destruct (nth_error dur i) as [[|]|]; try discriminate;
    (destruct (u32_of (snd p)); [|discriminate]); intros [= <-]; apply list_set_length.
Qed.

Lemma dur_step_swap dur x y : length dur = 3 ->
  match dur_step dur x with Some d => dur_step d y | None => None end =
  match dur_step dur y with Some d => dur_step d x | None => None end.
Proof.
  intro Hlen. unfold dur_step.
  destruct (duration_field (fst x)) as [i|] eqn:Ei, (duration_field (fst y)) as [j|] eqn:Ej; try reflexivity.
  - apply duration_field_lt in Ei. apply duration_field_lt in Ej.
    destruct (Nat.eq_dec i j) as [->|Hne].
    + destruct (nth_error dur j) as [[|]|] eqn:En; try reflexivity.
      * destruct (u32_of (snd x)) as [a|], (u32_of (snd y)) as [b|]; try reflexivity;
          rewrite ?nth_set_same by lia; reflexivity.
      * apply nth_error_None in En. lia.
    + destruct (nth_error dur i) as [[|]|] eqn:En1, (nth_error dur j) as [[|]|] eqn:En2;
        destruct (u32_of (snd x)) as [a|], (u32_of (snd y)) as [b|];
        rewrite ?(nth_set_other dur i j) by auto; rewrite ?(nth_set_other dur j i) by auto;
        rewrite ?En1, ?En2; try reflexivity; now rewrite list_set_comm by auto.
  - destruct (nth_error dur i) as [[|]|]; try reflexivity; destruct (u32_of (snd x)); reflexivity.
  - destruct (nth_error dur j) as [[|]|]; try reflexivity; destruct (u32_of (snd y)); reflexivity.
Qed.

Lemma dur_run_perm ps1 ps2 : Permutation ps1 ps2 ->
  forall dur, length dur = 3 -> dur_run dur ps1 = dur_run dur ps2.
Proof.
  induction 1 as [|p l1 l2 Hp IH|x y l|l1 l2 l3 H12 IH12 H23 IH23]; intros dur Hlen.
  - reflexivity.
  - cbn [dur_run]. destruct (dur_step dur p) as [d|] eqn:E; [|reflexivity].
    apply IH. rewrite (dur_step_length _ _ _ E). exact Hlen.
  - cbn [dur_run]. pose proof (dur_step_swap dur x y Hlen) as Hs.
    destruct (dur_step dur y) as [d1|], (dur_step dur x) as [d2|]; try reflexivity.
    + destruct (dur_step d1 x), (dur_step d2 y); try discriminate; try reflexivity. now injection Hs as ->.
    + destruct (dur_step d1 x); [discriminate|reflexivity].
    + destruct (dur_step d2 y); [discriminate|reflexivity].
  - rewrite IH12 by auto. now apply IH23.
Qed.

Definition dur_finish (ps : list (bytes * sval)) : M unit :=
  match dur_run [None; None; None] ps with
  | Some [Some a; Some b; Some c] => write (le_bytes 4 a ++ le_bytes 4 b ++ le_bytes 4 c)
  | _ => fail (Err EData)
  end.

Lemma finish_duration Sc serk rs blk ps st :
  finish Sc RKDuration (struct_fields serk RKDuration rs blk [None; None; None] ps st) = dur_finish ps st.
Proof.
  rewrite struct_fields_duration. unfold finish, dur_finish.
  destruct (dur_run [None; None; None] ps) as [d|]; [|reflexivity].
  destruct d as [|[a|] [|[b|] [|[c|] [|]]]]; reflexivity.
Qed.

Lemma rel1_dur_finish ps : rel1 (dur_finish ps).
Proof.
  unfold dur_finish. destruct (dur_run [None; None; None] ps) as [d|]; [|apply rel1_fail; exact I].
  destruct d as [|[a|] [|[b|] [|[c|] [|]]]]; try (apply rel1_fail; exact I). apply rel1_write.
Qed.

Lemma dur_finish_perm ps1 ps2 : Permutation ps1 ps2 -> dur_finish ps1 = dur_finish ps2.
Proof. intro H. unfold dur_finish. now rewrite (dur_run_perm ps1 ps2 H) by reflexivity. Qed.

Definition struct_len (v : sval) : option N :=
  match v with SStruct _ l _ | SStructVariant _ _ _ l _ => Some l | _ => None end.

(** * Part 4: the relation *)

(* [perm_equiv Sc n v1 v2]: v1 and v2, presented at node n, differ only by the order in which the
   (distinct-named) fields of record presentations are presented, at any depth. The relation
   follows the serializer through the schema: a permutation is only allowed where the presentation
   lands on a record node whose field names are distinct (on a map node the order of presentation
   IS the order of the bytes, see [perm_on_map_refuted]). *)
Inductive perm_equiv (Sc : fschema) : fnode -> sval -> sval -> Prop :=
  | pe_refl n v : perm_equiv Sc n v v
  | pe_sym n v1 v2 : perm_equiv Sc n v1 v2 -> perm_equiv Sc n v2 v1
  | pe_trans n v1 v2 v3 : perm_equiv Sc n v1 v2 -> perm_equiv Sc n v2 v3 -> perm_equiv Sc n v1 v3
  | pe_some n v1 v2 : perm_equiv Sc n v1 v2 -> perm_equiv Sc n (SSome v1) (SSome v2)
  | pe_newtype_struct n nm1 nm2 w n' v1 v2 :
      named_route Sc n nm1 = Some (w, n') -> named_route Sc n nm2 = Some (w, n') ->
      perm_equiv Sc n' v1 v2 ->
      perm_equiv Sc n (SNewtypeStruct nm1 v1) (SNewtypeStruct nm2 v2)
  | pe_newtype_variant n e1 i1 e2 i2 vn1 vn2 w n' v1 v2 :
      named_route Sc n vn1 = Some (w, n') -> named_route Sc n vn2 = Some (w, n') ->
      perm_equiv Sc n' v1 v2 ->
      perm_equiv Sc n (SNewtypeVariant e1 i1 vn1 v1) (SNewtypeVariant e2 i2 vn2 v2)
  (* arrays *)
  | pe_seq n len w items ni vs1 vs2 :
      unnamed_route Sc n KSeqOrTupleOrTupleStruct = Some (w, FArray items) ->
      fnode_at Sc items = Some ni -> pe_list Sc ni vs1 vs2 ->
      perm_equiv Sc n (SSeq len vs1) (SSeq len vs2)
  | pe_tuple n w items ni vs1 vs2 :
      unnamed_route Sc n KSeqOrTupleOrTupleStruct = Some (w, FArray items) ->
      fnode_at Sc items = Some ni -> pe_list Sc ni vs1 vs2 ->
      perm_equiv Sc n (STuple vs1) (STuple vs2)
  | pe_tuple_struct n nm1 nm2 w items ni vs1 vs2 :
      unnamed_route Sc n KSeqOrTupleOrTupleStruct = Some (w, FArray items) ->
      fnode_at Sc items = Some ni -> pe_list Sc ni vs1 vs2 ->
      perm_equiv Sc n (STupleStruct nm1 vs1) (STupleStruct nm2 vs2)
  | pe_tuple_variant n e1 i1 e2 i2 vn1 vn2 w1 n1 w items ni vs1 vs2 :
      named_route Sc n vn1 = Some (w1, n1) -> named_route Sc n vn2 = Some (w1, n1) ->
      unnamed_route Sc n1 KSeqOrTupleOrTupleStruct = Some (w, FArray items) ->
      fnode_at Sc items = Some ni -> pe_list Sc ni vs1 vs2 ->
      perm_equiv Sc n (STupleVariant e1 i1 vn1 vs1) (STupleVariant e2 i2 vn2 vs2)
  (* map values (same calls, same keys, in the same order) *)
  | pe_map_values n len w values nv cs1 cs2 :
      unnamed_route Sc n KStructOrMap = Some (w, FMap values) ->
      fnode_at Sc values = Some nv -> pe_calls Sc nv cs1 cs2 ->
      perm_equiv Sc n (SMap len cs1) (SMap len cs2)
  (* a struct / struct variant presented to a map node (same names in the same order) *)
  | pe_struct_map n nm w values nv ps1 ps2 v1 v2 :
      presents v1 (Some nm) ps1 -> presents v2 (Some nm) ps2 ->
      struct_len v1 = struct_len v2 ->
      route Sc n (Some nm) = Some (w, FMap values) ->
      fnode_at Sc values = Some nv ->
      map fst ps1 = map fst ps2 -> pe_list Sc nv (map snd ps1) (map snd ps2) ->
      perm_equiv Sc n v1 v2
  (* a struct / struct variant presented to a duration node: the three fields in any order *)
  | pe_struct_duration n nm w ps1 ps2 v1 v2 :
      presents v1 (Some nm) ps1 -> presents v2 (Some nm) ps2 ->
      struct_len v1 = struct_len v2 ->
      route Sc n (Some nm) = Some (w, FDuration) ->
      Permutation ps1 ps2 ->
      perm_equiv Sc n v1 v2
  (* a record node, reached directly or through a union (by name, then by type): the fields in
     any order, through any of the presentation forms, field values related at their nodes *)
  | pe_record n v1 v2 on1 on2 ps1 ps2 ps' w rn fields :
      presents v1 on1 ps1 -> presents v2 on2 ps2 ->
      route Sc n on1 = Some (w, FRecord rn fields) ->
      route Sc n on2 = Some (w, FRecord rn fields) ->
      NoDup (map fst fields) ->
      Permutation ps1 ps' -> pe_fields Sc fields ps' ps2 ->
      perm_equiv Sc n v1 v2
with pe_list (Sc : fschema) : fnode -> list sval -> list sval -> Prop :=
  | pel_nil n : pe_list Sc n [] []
  | pel_cons n v1 v2 r1 r2 :
      perm_equiv Sc n v1 v2 -> pe_list Sc n r1 r2 -> pe_list Sc n (v1 :: r1) (v2 :: r2)
with pe_calls (Sc : fschema) : fnode -> list (option sval * option sval) ->
                               list (option sval * option sval) -> Prop :=
  | pec_nil n : pe_calls Sc n [] []
  | pec_key n ko r1 r2 :
      pe_calls Sc n r1 r2 -> pe_calls Sc n ((ko, None) :: r1) ((ko, None) :: r2)
  | pec_value n ko v1 v2 r1 r2 :
      perm_equiv Sc n v1 v2 -> pe_calls Sc n r1 r2 ->
      pe_calls Sc n ((ko, Some v1) :: r1) ((ko, Some v2) :: r2)
with pe_fields (Sc : fschema) : list (bytes * nat) -> list (bytes * sval) -> list (bytes * sval) -> Prop :=
  | pef_nil fields : pe_fields Sc fields [] []
  | pef_cons fields nm v1 v2 r1 r2 :
      (forall k nk, In (nm, k) fields -> fnode_at Sc k = Some nk -> perm_equiv Sc nk v1 v2) ->
      pe_fields Sc fields r1 r2 ->
      pe_fields Sc fields ((nm, v1) :: r1) ((nm, v2) :: r2).

Scheme pe_min := Minimality for perm_equiv Sort Prop
  with pel_min := Minimality for pe_list Sort Prop
  with pec_min := Minimality for pe_calls Sort Prop
  with pef_min := Minimality for pe_fields Sort Prop.
Combined Scheme pe_mutind from pe_min, pel_min, pec_min, pef_min.

(** * Part 5: the semantic counterparts *)
Definition EQ (Sc : fschema) (n : fnode) (v1 v2 : sval) : Prop := wrel eq (ser Sc n v1) (ser Sc n v2).
Definition EQC (Sc : fschema) (n : fnode) (c1 c2 : option sval * option sval) : Prop :=
  fst c1 = fst c2 /\
  match snd c1, snd c2 with
  | Some v1, Some v2 => EQ Sc n v1 v2
  | None, None => True
  | _, _ => False
  end.
Definition EQF (Sc : fschema) (fields : list (bytes * nat)) (p q : bytes * sval) : Prop :=
  fst p = fst q /\
  forall k nk, In (fst p, k) fields -> fnode_at Sc k = Some nk -> EQ Sc nk (snd p) (snd q).

Lemma Forall2_imp {A B} (R R' : A -> B -> Prop) l1 l2 :
  (forall a b, R a b -> R' a b) -> Forall2 R l1 l2 -> Forall2 R' l1 l2.
Proof. intros H. induction 1; constructor; auto. Qed.

Lemma sim_budget2 s1 s2 : sim s1 s2 -> s_budget s1 = None -> s_budget s2 = None.
Proof. intros (_ & _ & E & _) H. congruence. Qed.

Lemma wrel_named_bind {A} Sc n nm1 nm2 w n' (f1 f2 : fnode -> M A) (R : A -> A -> Prop) :
  named_route Sc n nm1 = Some (w, n') -> named_route Sc n nm2 = Some (w, n') ->
  wrel R (f1 n') (f2 n') ->
  wrel R (sbind (named_step Sc n nm1) f1) (sbind (named_step Sc n nm2) f2).
Proof.
  intros E E' H s1 s2 Hs Hb. unfold sbind.
  rewrite (named_step_route _ _ _ _ _ s1 E Hb).
  rewrite (named_step_route _ _ _ _ _ s2 E' (sim_budget2 _ _ Hs Hb)).
  apply (wres_shift R s1 s2 w); auto. apply H; [now apply sim_app|reflexivity].
Qed.

Lemma wrel_via_union Sc n key w n' (l1 l2 : fnode -> M unit) :
  unnamed_route Sc n key = Some (w, n') -> wrel eq (l1 n') (l2 n') ->
  wrel eq (via_union Sc n key l1) (via_union Sc n key l2).
Proof.
  intros E H s1 s2 Hs Hb.
  rewrite (via_union_route _ _ _ _ _ l1 s1 E Hb).
  rewrite (via_union_route _ _ _ _ _ l2 s2 E (sim_budget2 _ _ Hs Hb)).
  apply (wres_shift eq s1 s2 w); auto. apply H; [now apply sim_app|reflexivity].
Qed.

Lemma at_key_at Sc k nk v : fnode_at Sc k = Some nk -> at_key Sc k v = ser Sc nk v.
Proof. intro E. unfold at_key. now rewrite E. Qed.

Lemma rel1_wrel {A} (m : M A) : rel1 m -> wrel eq m m.
Proof. apply rel2_wrel. Qed.

(** arrays *)
Lemma seq_leaf_array serk len vs items :
  seq_leaf serk len vs (FArray items) =
  (do* blk <- block_new (match len with Some l => l | None => 0%N end);
   do* blk' <- arr_go serk items blk vs;
   block_end blk').
Proof. reflexivity. Qed.

Lemma wrel_arr_go serk items : forall vs1 vs2,
  Forall2 (fun v1 v2 => wrel eq (serk items v1) (serk items v2)) vs1 vs2 ->
  forall blk, wrel eq (arr_go serk items blk vs1) (arr_go serk items blk vs2).
Proof.
  induction 1 as [|v1 v2 r1 r2 Hv Hr IH]; intro blk; cbn [arr_go].
  - now apply wrel_ret.
  - apply wrel_bind with (R := eq); [apply rel1_wrel, rel1_block_next|intros b ? <-].
    apply wrel_bind with (R := eq); [exact Hv|intros _ _ _]. apply IH.
Qed.

Lemma EQ_array_leaf Sc items ni vs1 vs2 len :
  fnode_at Sc items = Some ni -> Forall2 (EQ Sc ni) vs1 vs2 ->
  wrel eq (seq_leaf (at_key Sc) len vs1 (FArray items)) (seq_leaf (at_key Sc) len vs2 (FArray items)).
Proof.
  intros Ei HF. rewrite !seq_leaf_array.
  apply wrel_bind with (R := eq); [apply rel1_wrel, rel1_block_new|intros blk ? <-].
  apply wrel_bind with (R := eq); [|intros b ? <-; apply rel1_wrel, rel1_block_end].
  apply wrel_arr_go. eapply Forall2_imp; [|exact HF].
  intros v1 v2 Hv. rewrite !(at_key_at _ _ _ _ Ei). exact Hv.
Qed.

(** map nodes *)
Definition RB (x y : recstate * N * list (option N)) : Prop := snd (fst x) = snd (fst y).

Lemma wrel_finish_map Sc values t1 t2 :
  wrel RB (drop_mid t1) (drop_mid t2) ->
  wrel eq (fun st => finish Sc (RKMap values) (t1 st)) (fun st => finish Sc (RKMap values) (t2 st)).
Proof.
  intros H s1 s2 Hs Hb. specialize (H s1 s2 Hs Hb). unfold wres, drop_mid in H. cbn [fst snd] in H.
  unfold wres. destruct (t1 s1) as [[r1 d1] u1], (t2 s2) as [[r2 d2] u2]. cbn [fst snd] in H.
  unfold finish.
  destruct r1 as [[[rs1 b1] dd1]| | | |], r2 as [[[rs2 b2] dd2]| | | |]; try contradiction; cbn [fst snd]; auto.
  destruct H as (Hr & Hp). unfold RB in Hr. cbn in Hr. subst b2.
  destruct (rel2_after _ _ _ _ _ _ _ Hp (rel1_block_end b1)) as (Hr' & Hp').
  destruct (block_end b1 u1) as [[] v1], (block_end b1 u2) as [[] v2]; cbn in Hr'; try contradiction; cbn [fst snd] in *; auto.
Qed.

Lemma start_kind_map Sc b l values run :
  start_kind Sc b l (FMap values) run =
  (do* blk <- block_new l;
   fun st => finish Sc (RKMap values) (run (RKMap values) (mkR O [] false) blk st)).
Proof. reflexivity. Qed.

Lemma wrel_map_calls_map Sc values nv : forall cs1 cs2,
  fnode_at Sc values = Some nv -> Forall2 (EQC Sc nv) cs1 cs2 ->
  forall rs blk dur hint,
  wrel RB (drop_mid (map_calls (at_key Sc) (ser Sc FString) (RKMap values) rs blk dur hint cs1))
          (drop_mid (map_calls (at_key Sc) (ser Sc FString) (RKMap values) rs blk dur hint cs2)).
Proof.
  intros cs1 cs2 Ev. induction 1 as [|[ko1 vo1] [ko2 vo2] r1 r2 (Hk & Hv) Hr IH]; intros rs blk dur hint.
  - apply wrel_ret. reflexivity.
  - cbn [fst snd] in Hk, Hv. subst ko2.
    eapply wrel_ext; [apply map_calls_cons_map|apply map_calls_cons_map|].
    apply wrel_bind with (R := eq); [|intros b ? <-; apply IH].
    apply wrel_bind with (R := eq).
    + apply rel1_wrel. destruct ko1 as [k'|]; [|apply rel1_ret].
      apply rel1_bind; [apply rel1_block_next|intro]. apply rel1_bind; [apply ser_rel|intro]. apply rel1_ret.
    + intros b ? <-. apply wrel_bind with (R := eq); [|intros; now apply wrel_ret].
      destruct vo1 as [v1|], vo2 as [v2|]; try contradiction.
      * rewrite !(at_key_at _ _ _ _ Ev). exact Hv.
      * now apply wrel_ret.
Qed.

Lemma wrel_struct_fields_map Sc values nv : forall ps1 ps2,
  fnode_at Sc values = Some nv -> map fst ps1 = map fst ps2 ->
  Forall2 (EQ Sc nv) (map snd ps1) (map snd ps2) ->
  forall rs blk dur,
  wrel RB (drop_mid (struct_fields (at_key Sc) (RKMap values) rs blk dur ps1))
          (drop_mid (struct_fields (at_key Sc) (RKMap values) rs blk dur ps2)).
Proof.
  intros ps1 ps2 Ev. revert ps2.
  induction ps1 as [|[k1 v1] r1 IH]; intros [|[k2 v2] r2] Hn HF rs blk dur; try discriminate.
  - apply wrel_ret. reflexivity.
  - cbn [map fst snd] in Hn, HF. injection Hn as <- Hn. inversion HF as [|? ? ? ? Hv HF']; subst.
    eapply wrel_ext; [apply struct_fields_cons_map|apply struct_fields_cons_map|].
    apply wrel_bind with (R := eq); [|intros b ? <-; now apply IH].
    apply wrel_bind with (R := eq); [apply rel1_wrel, rel1_block_next|intros b ? <-].
    apply wrel_bind with (R := eq); [apply rel1_wrel, rel1_ser_str_leaf|intros _ _ _].
    apply wrel_bind with (R := eq); [|intros; now apply wrel_ret].
    rewrite !(at_key_at _ _ _ _ Ev). exact Hv.
Qed.

(** record nodes *)
Lemma sim_st0 slow : sim (st0 slow) (st0 slow).
Proof. split; [|split; [|split]]; auto; split; constructor. Qed.

Lemma EQ_enc Sc slow k nk v v' :
  fnode_at Sc k = Some nk -> EQ Sc nk v v' -> enc_ser Sc slow k v = enc_ser Sc slow k v'.
Proof.
  intros E H. unfold enc_ser. rewrite E.
  specialize (H _ _ (sim_st0 slow) eq_refl). unfold wres in H.
  destruct (ser Sc nk v (st0 slow)) as [r1 t1], (ser Sc nk v' (st0 slow)) as [r2 t2]. cbn [fst snd] in H.
  destruct r1, r2; try contradiction; auto.
  destruct H as (_ & _ & _ & _ & w & E1 & E2). cbn in E1, E2. congruence.
Qed.

Definition enc_rel (enc : nat -> sval -> option bytes) (fields : list (bytes * nat))
  (p q : bytes * sval) : Prop :=
  fst p = fst q /\ forall k, In (fst p, k) fields -> enc k (snd p) = enc k (snd q).

Lemma lookup_rel enc fields ps1 ps2 :
  Forall2 (enc_rel enc fields) ps1 ps2 ->
  forall nm k, In (nm, k) fields ->
  match lookup nm ps1 with Some v => enc k v | None => None end =
  match lookup nm ps2 with Some v => enc k v | None => None end.
Proof.
  induction 1 as [|[n1 v1] [n2 v2] r1 r2 (Hn & He) Hr IH]; intros nm k Hin; [reflexivity|].
  cbn [fst snd] in Hn, He. subst n2. cbn [lookup].
  destruct (bytes_eqb nm n1) eqn:Eb; [|now apply IH].
  apply bytes_eqb_eq in Eb. subst n1. now apply He.
Qed.

Lemma okfield_rel enc fields p q : enc_rel enc fields p q -> okfield enc fields p = okfield enc fields q.
Proof.
  intros (Hn & He). unfold okfield. rewrite <- Hn.
  destruct (field_index fields (fst p)) as [i|] eqn:Ei; [|reflexivity].
  apply field_index_some in Ei as (k & Ei). rewrite Ei. f_equal. apply He.
  eapply nth_error_In; eauto.
Qed.

Lemma record_spec_ext enc fields Sc ps1 ps2 :
  Forall2 (enc_rel enc fields) ps1 ps2 ->
  record_spec enc fields Sc ps1 = record_spec enc fields Sc ps2.
Proof.
  intro HF. unfold record_spec.
  assert (Hok : forallb (okfield enc fields) ps1 = forallb (okfield enc fields) ps2).
  { induction HF as [|p q r1 r2 Hpq Hr IH]; [reflexivity|]. cbn [forallb].
    now rewrite (okfield_rel _ _ _ _ Hpq), IH. }
  rewrite Hok.
  assert (Hpb : forall i, hfill fields Sc (pb enc fields ps1) i = hfill fields Sc (pb enc fields ps2) i).
  { intro i. unfold hfill, pb. destruct (nth_error fields i) as [[nm k]|] eqn:Ei; auto.
    rewrite (lookup_rel enc fields ps1 ps2 HF nm k (nth_error_In _ _ Ei)). reflexivity. }
  rewrite (forallb_ext' _ _ _ (fun i => f_equal is_some (Hpb i))).
  rewrite (map_ext _ _ (fun i => f_equal odef (Hpb i))). reflexivity.
Qed.

Lemma Forall2_fst_eq {A B} (R : A * B -> A * B -> Prop) l1 l2 :
  Forall2 R l1 l2 -> (forall p q, R p q -> fst p = fst q) -> map fst l1 = map fst l2.
Proof. intros H HR. induction H; cbn; [reflexivity|]. f_equal; auto. Qed.

Lemma good_st_app slow st w : good_st slow st -> good_st slow (st_app st w).
Proof. intros ((Ha & Hb) & Hc & Hd). split; [|split]; cbn; auto. split; auto. Qed.

(** presenting a field name twice fails in every order: the hypothesis "the presented names are
    distinct" of the permutation theorem is not needed *)
Lemma lookup_none_notin nm (P : list (bytes * sval)) : lookup nm P = None -> ~ In nm (map fst P).
Proof.
  induction P as [|[n x] r IH]; cbn; [tauto|].
  destruct (bytes_eqb nm n) eqn:E; [discriminate|]. intros H [->|Hin].
  - now rewrite bytes_eqb_refl in E.
  - now apply IH.
Qed.

Section Dup.
Variable serk : nat -> sval -> M unit.
Variable enc : nat -> sval -> option bytes.
Variable slow : bool.
Variable fields : list (bytes * nat).
Variable out0 : bytes.
Hypothesis serk_pure : forall k v st, good_st slow st ->
  exists r st', serk k v st = (r, st') /\ good_st slow st' /\
    match enc k v with
    | Some b => r = Ok tt /\ s_out st' = s_out st ++ b
    | None => is_ok r = false
    end.
Hypothesis fields_nodup : NoDup (map fst fields).

Lemma dup_step_fails P rs st nm v blk dur rest :
  Inv fields out0 (pb enc fields P) rs (s_out st) ->
  forallb (okfield enc fields) P = true ->
  lookup nm P <> None ->
  is_ok (fst (drop_mid (struct_fields serk (RKRecord fields) rs blk dur ((nm, v) :: rest)) st)) = false.
Proof.
  intros Hinv Hok Hl. rewrite struct_fields_cons_record.
  destruct (lookup nm P) as [v0|] eqn:El; [clear Hl|congruence].
  pose proof (lookup_some_in _ _ _ El) as Hin.
  rewrite forallb_forall in Hok. specialize (Hok _ Hin). unfold okfield in Hok. cbn [fst snd] in Hok.
  destruct (field_index fields nm) as [i|] eqn:Efi; [|discriminate].
  pose proof (field_index_some _ _ _ Efi) as (k & Ei). rewrite Ei in Hok.
  destruct (enc k v0) as [b|] eqn:Eenc; [clear Hok|discriminate].
  assert (Hpb : pb enc fields P i = Some b) by (unfold pb; now rewrite Ei, El).
  destruct (rec_field_idx fields rs nm) as [[idx k']| | | |] eqn:E; try reflexivity.
  apply rec_field_idx_ok in E as (Hpos & Hidx).
  pose proof (fi_unique fields fields_nodup _ _ _ Hidx) as Efi'. rewrite Efi in Efi'. injection Efi' as <-.
  destruct Hpos as [->|Hlt].
  - rewrite (i_cur _ _ _ _ _ Hinv) in Hpb. discriminate.
  - pose proof (i_buf _ _ _ _ _ Hinv i) as Hb.
    destruct (Nat.ltb_spec (r_cur rs) i); [|lia]. rewrite Hpb in Hb.
    unfold sbind. rewrite record_value_eq.
    destruct (Nat.eqb_spec i (r_cur rs)); [lia|].
    pose proof (getb_resize (r_bufs rs) (S i) i) as Hg. unfold getb in Hg at 1.
    destruct (nth_error (resize_to (r_bufs rs) (S i) None) i) as [[|]|]; try reflexivity;
      rewrite <- Hg in Hb; discriminate.
Qed.

Lemma run_dup_fails blk dur : forall rest P rs st,
  good_st slow st -> Inv fields out0 (pb enc fields P) rs (s_out st) ->
  forallb (okfield enc fields) P = true -> NoDup (map fst P) ->
  ~ NoDup (map fst (P ++ rest)) ->
  is_ok (fst (drop_mid (struct_fields serk (RKRecord fields) rs blk dur rest) st)) = false.
Proof.
  induction rest as [|[nm v] rest IH]; intros P rs st Hg Hinv Hok Hnd Hdup.
  - rewrite app_nil_r in Hdup. contradiction.
  - destruct (lookup nm P) as [v0|] eqn:El.
    + eapply dup_step_fails; eauto. congruence.
    + rewrite struct_fields_cons_record.
      pose proof (rec_field_idx_fresh enc fields out0 fields_nodup P rs _ nm Hinv El) as Hrfi.
      destruct (field_index fields nm) as [i|] eqn:Efi.
      * destruct Hrfi as (k & Ei & Erfi & Hpos & Hi & Hpb). rewrite Erfi.
        destruct (enc k v) as [b|] eqn:Eenc.
        -- destruct (record_value_ok serk enc slow fields out0 serk_pure (pb enc fields P) rs st i k v b
                       Hg Hinv Hi Hpos Hpb Eenc) as (rs1 & st1 & E1 & Hg1 & Hinv1).
           unfold sbind. rewrite E1.
           apply (IH (P ++ [(nm, v)]) rs1 st1 Hg1).
           ++ eapply Inv_ext; [|exact Hinv1]. intro j. symmetry. rewrite <- Eenc.
              now apply pb_app_one.
           ++ rewrite forallb_app, Hok. cbn [forallb]. unfold okfield. cbn [fst snd].
              now rewrite Efi, Ei, Eenc.
           ++ rewrite map_app. cbn [map fst].
              eapply Permutation_NoDup; [apply Permutation_cons_append|].
              constructor; [now apply lookup_none_notin|exact Hnd].
           ++ now rewrite <- app_assoc.
        -- unfold sbind.
           pose proof (record_value_fail serk enc slow fields serk_pure rs st i k v Hg Eenc) as Hf.
           destruct (record_value serk fields rs i k v st) as [[] ?]; cbn in *; auto; discriminate.
      * destruct (rec_field_idx fields rs nm) as [[? ?]| | | |]; cbn in *; auto; discriminate.
Qed.

Lemma run_record_dup_fails Sc ps st :
  good_st slow st -> out0 = s_out st -> ~ NoDup (map fst ps) ->
  is_ok (fst (run_record serk fields Sc ps st)) = false.
Proof.
  intros Hg Hout Hdup. unfold run_record, record_new.
  destruct Hg as (Hpool & Hbud & Hslow).
  destruct (pop_sbuf_ok st Hpool) as (cap & st1 & Epop & Hpool1 & Ho1 & Hb1 & Hs1).
  unfold sbind. rewrite Epop. cbn [fst snd sret].
  assert (Hg1 : good_st slow st1) by (split; [|split]; congruence).
  assert (Hinv0 : Inv fields out0 (pb enc fields []) (mkR 0 [] cap) (s_out st1)).
  { split; cbn [r_cur r_bufs]; auto.
    - cbn. lia.
    - intros i Hi. lia.
    - cbn. rewrite app_nil_r. congruence.
    - intro i. unfold getb. replace (nth_error [] i) with (@None (option buf)) by (now destruct i).
      cbn [option_map]. rewrite pb_nil. now destruct (Nat.ltb 0 i).
    - intros i Hi. now apply pb_dom.
    - apply pb_nil. }
  pose proof (run_dup_fails 0%N [None; None; None] ps [] (mkR 0 [] cap) st1 Hg1 Hinv0 eq_refl
                (NoDup_nil _) Hdup) as Hrun.
  unfold drop_mid in Hrun.
  destruct (struct_fields serk (RKRecord fields) (mkR 0 [] cap) 0%N [None; None; None] ps st1)
    as [[res rsd] st2]. cbn [fst snd] in Hrun.
  unfold finish. destruct res as [[[? ?] ?]| | | |]; cbn in *; auto; discriminate.
Qed.
End Dup.

Lemma EQ_record Sc n v1 v2 on1 on2 ps1 ps2 ps' w rn fields :
  presents v1 on1 ps1 -> presents v2 on2 ps2 ->
  route Sc n on1 = Some (w, FRecord rn fields) ->
  route Sc n on2 = Some (w, FRecord rn fields) ->
  NoDup (map fst fields) ->
  Permutation ps1 ps' -> Forall2 (EQF Sc fields) ps' ps2 ->
  EQ Sc n v1 v2.
Proof.
  intros Hp1 Hp2 Hr1 Hr2 Hndf Hperm HF s1 s2 Hs Hb.
  pose proof (sim_budget2 _ _ Hs Hb) as Hb2.
  rewrite (ser_presents_record Sc n v1 on1 ps1 w rn fields s1 Hp1 Hr1 Hb).
  rewrite (ser_presents_record Sc n v2 on2 ps2 w rn fields s2 Hp2 Hr2 Hb2).
  apply (wres_shift eq s1 s2 w); auto.
  pose proof Hs as (Hpool1 & Hpool2 & _ & Hslow).
  set (slow := s_slow s1).
  assert (Hg1 : good_st slow (st_app s1 w)) by (apply good_st_app; split; [|split]; auto).
  assert (Hg2 : good_st slow (st_app s2 w)) by (apply good_st_app; split; [|split]; auto).
  assert (Hnames : map fst ps' = map fst ps2).
  { apply (Forall2_fst_eq _ _ _ HF). now intros p q (E & _). }
  destruct (NoDup_dec (list_eq_dec N.eq_dec) (map fst ps1)) as [Hnd1|Hdup1].
  - assert (Hnd' : NoDup (map fst ps')).
    { eapply Permutation_NoDup; [|exact Hnd1]. now apply Permutation_map. }
    assert (Hnd2 : NoDup (map fst ps2)) by (now rewrite <- Hnames).
    pose proof (machine_spec (at_key Sc) (enc_ser Sc slow) slow fields (s_out (st_app s1 w))
                  (at_key_pure Sc slow) Sc Hndf ps1 _ Hg1 Hnd1 eq_refl) as H1.
    pose proof (machine_spec (at_key Sc) (enc_ser Sc slow) slow fields (s_out (st_app s2 w))
                  (at_key_pure Sc slow) Sc Hndf ps2 _ Hg2 Hnd2 eq_refl) as H2.
    assert (Hspec : record_spec (enc_ser Sc slow) fields Sc ps1 = record_spec (enc_ser Sc slow) fields Sc ps2).
    { rewrite (record_spec_perm _ fields Sc ps1 ps' Hnd1 Hperm). apply record_spec_ext.
      eapply Forall2_imp; [|exact HF]. intros p q (Hn & Hv). split; auto.
      intros k Hin. unfold enc_ser at 1 2. destruct (fnode_at Sc k) as [nk|] eqn:Ek; [|reflexivity].
      pose proof (EQ_enc Sc slow k nk _ _ Ek (Hv k nk Hin Ek)) as He. unfold enc_ser in He.
      now rewrite Ek in He. }
    rewrite <- Hspec in H2. unfold wres.
    destruct (record_spec (enc_ser Sc slow) fields Sc ps1) as [w0|].
    + destruct H1 as (t1 & -> & Ho1 & Hgt1), H2 as (t2 & -> & Ho2 & Hgt2). cbn [fst snd].
      split; [reflexivity|].
      destruct Hgt1 as (Hq1 & Hbt1 & Hst1), Hgt2 as (Hq2 & Hbt2 & Hst2).
      apply post_intro with (w := w0); auto; try congruence.
    + destruct (run_record (at_key Sc) fields Sc ps1 (st_app s1 w)) as [[] t1],
               (run_record (at_key Sc) fields Sc ps2 (st_app s2 w)) as [[] t2];
        cbn [fst] in *; try discriminate; auto.
  - (* a name presented twice: both fail *)
    assert (Hdup2 : ~ NoDup (map fst ps2)).
    { intro Hnd2. apply Hdup1. rewrite <- Hnames in Hnd2.
      eapply Permutation_NoDup; [|exact Hnd2]. apply Permutation_sym. now apply Permutation_map. }
    pose proof (run_record_dup_fails (at_key Sc) (enc_ser Sc slow) slow fields (s_out (st_app s1 w))
                  (at_key_pure Sc slow) Hndf Sc ps1 _ Hg1 eq_refl Hdup1) as F1.
    pose proof (run_record_dup_fails (at_key Sc) (enc_ser Sc slow) slow fields (s_out (st_app s2 w))
                  (at_key_pure Sc slow) Hndf Sc ps2 _ Hg2 eq_refl Hdup2) as F2.
    unfold wres.
    destruct (run_record (at_key Sc) fields Sc ps1 (st_app s1 w)) as [[] t1],
             (run_record (at_key Sc) fields Sc ps2 (st_app s2 w)) as [[] t2];
      cbn [fst] in *; try discriminate; auto.
Qed.

(** * Part 6: the congruence theorem *)
Lemma ser_SSome Sc n v : ser Sc n (SSome v) = ser Sc n v.
Proof. reflexivity. Qed.
Lemma ser_SNewtypeStruct Sc n nm v :
  ser Sc n (SNewtypeStruct nm v) = (do* n' <- named_step Sc n nm; ser Sc n' v).
Proof. reflexivity. Qed.
Lemma ser_SNewtypeVariant Sc n e i vn v :
  ser Sc n (SNewtypeVariant e i vn v) = (do* n' <- named_step Sc n vn; ser Sc n' v).
Proof. reflexivity. Qed.

Lemma Forall2_length' {A B} (R : A -> B -> Prop) l1 l2 : Forall2 R l1 l2 -> length l1 = length l2.
Proof. induction 1; cbn; congruence. Qed.

Lemma presents_some_cases v nm ps :
  presents v (Some nm) ps ->
  (exists len, v = SStruct nm len ps) \/ (exists e i len, v = SStructVariant e i nm len ps).
Proof. inversion 1; subst; eauto. Qed.

Lemma ser_struct_like_map Sc n v nm ps w values l st :
  presents v (Some nm) ps -> struct_len v = Some l ->
  route Sc n (Some nm) = Some (w, FMap values) -> s_budget st = None ->
  ser Sc n v st =
  (do* blk <- block_new l;
   fun st => finish Sc (RKMap values)
               (struct_fields (at_key Sc) (RKMap values) (mkR O [] false) blk [None; None; None] ps st))
    (st_app st w).
Proof.
  intros Hp Hl Hr Hb. unfold route in Hr.
  destruct (named_route Sc n nm) as [[w1 n1]|] eqn:E1; [|discriminate].
  destruct (unnamed_route Sc n1 KStructOrMap) as [[w2 n2]|] eqn:E2; [|discriminate].
  injection Hr as <- ->.
  apply presents_some_cases in Hp as [(len & ->)|(e & i & len & ->)]; cbn in Hl; injection Hl as ->.
  - rewrite ser_SStruct. unfold sbind at 1. rewrite (named_step_route _ _ _ _ _ _ E1 Hb).
    rewrite (via_union_route _ _ _ _ _ _ _ E2) by reflexivity. rewrite st_app_app. reflexivity.
  - rewrite ser_SStructVariant. unfold sbind at 1. rewrite (named_step_route _ _ _ _ _ _ E1 Hb).
    rewrite (via_union_route _ _ _ _ _ _ _ E2) by reflexivity. rewrite st_app_app. reflexivity.
Qed.

Lemma ser_struct_like_duration Sc n v nm ps w l st :
  presents v (Some nm) ps -> struct_len v = Some l ->
  route Sc n (Some nm) = Some (w, FDuration) -> s_budget st = None ->
  ser Sc n v st = (if N.eqb l 3 then dur_finish ps else fail (Err EData)) (st_app st w).
Proof.
  intros Hp Hl Hr Hb. unfold route in Hr.
  destruct (named_route Sc n nm) as [[w1 n1]|] eqn:E1; [|discriminate].
  destruct (unnamed_route Sc n1 KStructOrMap) as [[w2 n2]|] eqn:E2; [|discriminate].
  injection Hr as <- ->.
  apply presents_some_cases in Hp as [(len & ->)|(e & i & len & ->)]; cbn in Hl; injection Hl as ->.
  - rewrite ser_SStruct. unfold sbind at 1. rewrite (named_step_route _ _ _ _ _ _ E1 Hb).
    rewrite (via_union_route _ _ _ _ _ _ _ E2) by reflexivity. rewrite st_app_app.
    cbn [start_kind]. destruct (N.eqb l 3); [apply finish_duration|reflexivity].
  - rewrite ser_SStructVariant. unfold sbind at 1. rewrite (named_step_route _ _ _ _ _ _ E1 Hb).
    rewrite (via_union_route _ _ _ _ _ _ _ E2) by reflexivity. rewrite st_app_app.
    cbn [start_kind]. destruct (N.eqb l 3); [apply finish_duration|reflexivity].
Qed.

Lemma presents_struct_len v nm ps : presents v (Some nm) ps -> exists l, struct_len v = Some l.
Proof. intro H. apply presents_some_cases in H as [(len & ->)|(e & i & len & ->)]; cbn; eauto. Qed.

Theorem perm_equiv_sound Sc :
  (forall n v1 v2, perm_equiv Sc n v1 v2 -> EQ Sc n v1 v2) /\
  (forall n vs1 vs2, pe_list Sc n vs1 vs2 -> Forall2 (EQ Sc n) vs1 vs2) /\
  (forall n cs1 cs2, pe_calls Sc n cs1 cs2 -> Forall2 (EQC Sc n) cs1 cs2) /\
  (forall fields ps1 ps2, pe_fields Sc fields ps1 ps2 -> Forall2 (EQF Sc fields) ps1 ps2).
Proof.
  apply pe_mutind; unfold EQ.
  - (* refl *) intros n v. apply rel1_wrel, ser_rel.
  - (* sym *) intros n v1 v2 _ H. eapply wrel_weaken; [|apply wrel_sym; exact H]. intros a b E; now symmetry.
  - (* trans *) intros n v1 v2 v3 _ H12 _ H23. eapply wrel_trans; eauto.
  - (* some *) intros n v1 v2 _ H. now rewrite !ser_SSome.
  - (* newtype struct *) intros n nm1 nm2 w n' v1 v2 E E' _ H. rewrite !ser_SNewtypeStruct.
    eapply wrel_named_bind; eauto.
  - (* newtype variant *) intros n e1 i1 e2 i2 vn1 vn2 w n' v1 v2 E E' _ H. rewrite !ser_SNewtypeVariant.
    eapply wrel_named_bind; eauto.
  - (* seq *) intros n len w items ni vs1 vs2 E Ei _ H. rewrite !ser_SSeq.
    eapply wrel_via_union; [exact E|]. now apply EQ_array_leaf with (ni := ni).
  - (* tuple *) intros n w items ni vs1 vs2 E Ei _ H. rewrite !ser_STuple.
    rewrite (Forall2_length' _ _ _ H).
    eapply wrel_via_union; [exact E|]. now apply EQ_array_leaf with (ni := ni).
  - (* tuple struct *) intros n nm1 nm2 w items ni vs1 vs2 E Ei _ H. rewrite !ser_STupleStruct.
    rewrite (Forall2_length' _ _ _ H).
    eapply wrel_via_union; [exact E|]. now apply EQ_array_leaf with (ni := ni).
  - (* tuple variant *) intros n e1 i1 e2 i2 vn1 vn2 w1 n1 w items ni vs1 vs2 E1 E1' E Ei _ H.
    rewrite !ser_STupleVariant. rewrite (Forall2_length' _ _ _ H).
    eapply wrel_named_bind; [exact E1|exact E1'|].
    eapply wrel_via_union; [exact E|]. now apply EQ_array_leaf with (ni := ni).
  - (* map values *) intros n len w values nv cs1 cs2 E Ev _ H. rewrite !ser_SMap.
    eapply wrel_via_union; [exact E|]. rewrite !start_kind_map.
    apply wrel_bind with (R := eq); [apply rel1_wrel, rel1_block_new|intros blk ? <-].
    apply (wrel_finish_map Sc values
             (map_calls (at_key Sc) (ser Sc FString) (RKMap values) (mkR 0 [] false) blk [None; None; None] None cs1)
             (map_calls (at_key Sc) (ser Sc FString) (RKMap values) (mkR 0 [] false) blk [None; None; None] None cs2)).
    now apply wrel_map_calls_map with (nv := nv).
  - (* struct on a map node *)
    intros n nm w values nv ps1 ps2 v1 v2 Hp1 Hp2 Hl Hr Ev Hn _ H s1 s2 Hs Hb.
    destruct (presents_struct_len _ _ _ Hp1) as (l & Hl1). rewrite Hl1 in Hl. symmetry in Hl.
    rewrite (ser_struct_like_map Sc n v1 nm ps1 w values l s1 Hp1 Hl1 Hr Hb).
    rewrite (ser_struct_like_map Sc n v2 nm ps2 w values l s2 Hp2 Hl Hr (sim_budget2 _ _ Hs Hb)).
    apply (wres_shift eq s1 s2 w); auto.
    assert (Hw : wrel eq
      (do* blk <- block_new l;
       fun st => finish Sc (RKMap values)
                   (struct_fields (at_key Sc) (RKMap values) (mkR O [] false) blk [None; None; None] ps1 st))
      (do* blk <- block_new l;
       fun st => finish Sc (RKMap values)
                   (struct_fields (at_key Sc) (RKMap values) (mkR O [] false) blk [None; None; None] ps2 st))).
    { apply wrel_bind with (R := eq); [apply rel1_wrel, rel1_block_new|intros blk ? <-].
      apply (wrel_finish_map Sc values
               (struct_fields (at_key Sc) (RKMap values) (mkR 0 [] false) blk [None; None; None] ps1)
               (struct_fields (at_key Sc) (RKMap values) (mkR 0 [] false) blk [None; None; None] ps2)).
      now apply wrel_struct_fields_map with (nv := nv). }
    apply Hw; [now apply sim_app|reflexivity].
  - (* struct on a duration node *)
    intros n nm w ps1 ps2 v1 v2 Hp1 Hp2 Hl Hr Hperm s1 s2 Hs Hb.
    destruct (presents_struct_len _ _ _ Hp1) as (l & Hl1). rewrite Hl1 in Hl. symmetry in Hl.
    rewrite (ser_struct_like_duration Sc n v1 nm ps1 w l s1 Hp1 Hl1 Hr Hb).
    rewrite (ser_struct_like_duration Sc n v2 nm ps2 w l s2 Hp2 Hl Hr (sim_budget2 _ _ Hs Hb)).
    apply (wres_shift eq s1 s2 w); auto. rewrite (dur_finish_perm ps1 ps2 Hperm).
    assert (Hw : wrel eq (if N.eqb l 3 then dur_finish ps2 else fail (Err EData))
                         (if N.eqb l 3 then dur_finish ps2 else fail (Err EData))).
    { apply rel1_wrel. destruct (N.eqb l 3); [apply rel1_dur_finish|apply rel1_fail; exact I]. }
    apply Hw; [now apply sim_app|reflexivity].
  - (* record *)
    intros n v1 v2 on1 on2 ps1 ps2 ps' w rn fields Hp1 Hp2 Hr1 Hr2 Hndf Hperm _ HF.
    eapply EQ_record; eauto.
  - intros n. constructor.
  - intros n v1 v2 r1 r2 _ H _ Hr. constructor; auto.
  - intros n. constructor.
  - intros n ko r1 r2 _ Hr. constructor; auto. split; cbn; auto.
  - intros n ko v1 v2 r1 r2 _ H _ Hr. constructor; auto. split; cbn; auto.
  - intros fields. constructor.
  - intros fields nm v1 v2 r1 r2 _ H _ Hr. constructor; auto. split; cbn [fst snd]; auto.
Qed.

(** ** the statements *)

(* (c) congruence: presentations that differ only by the order of the fields of record
   presentations, at any depth, serialize alike: both succeed with the same bytes, or both fail *)
Theorem perm_equiv_ser : forall Sc n v1 v2 st,
  perm_equiv Sc n v1 v2 -> pool_ok st -> s_budget st = None ->
  outcome_eq (ser Sc n v1 st) (ser Sc n v2 st).
Proof.
  intros Sc n v1 v2 st H Hpool Hb.
  assert (Hs : sim st st) by (split; [|split; [|split]]; auto).
  pose proof (proj1 (perm_equiv_sound Sc) n v1 v2 H st st Hs Hb) as Hw. unfold wres in Hw.
  unfold outcome_eq. destruct (ser Sc n v1 st) as [r1 t1], (ser Sc n v2 st) as [r2 t2]. cbn [fst snd] in Hw.
  destruct r1 as [[]| | | |], r2 as [[]| | | |]; try contradiction;
    try (right; split; discriminate).
  left. destruct Hw as (_ & _ & _ & _ & w & E1 & E2). repeat split; congruence.
Qed.

(* the same from two states that differ in the output so far and in what the pools hold; the
   final states are again such states *)
Theorem perm_equiv_ser2 : forall Sc n v1 v2 st1 st2,
  perm_equiv Sc n v1 v2 ->
  pool_ok st1 -> pool_ok st2 -> s_budget st1 = None -> s_budget st2 = None -> s_slow st1 = s_slow st2 ->
  let '(r1, t1) := ser Sc n v1 st1 in
  let '(r2, t2) := ser Sc n v2 st2 in
  (r1 = Ok tt /\ r2 = Ok tt /\
   pool_ok t1 /\ pool_ok t2 /\ s_budget t1 = None /\ s_budget t2 = None /\
   s_slow t1 = s_slow st1 /\ s_slow t2 = s_slow st2 /\
   exists w, s_out t1 = s_out st1 ++ w /\ s_out t2 = s_out st2 ++ w) \/
  (r1 <> Ok tt /\ r2 <> Ok tt).
Proof.
  intros Sc n v1 v2 st1 st2 H Hp1 Hp2 Hb1 Hb2 Hl.
  assert (Hs : sim st1 st2) by (split; [|split; [|split]]; auto; congruence).
  pose proof (proj1 (perm_equiv_sound Sc) n v1 v2 H st1 st2 Hs Hb1) as Hw. unfold wres in Hw.
  destruct (ser Sc n v1 st1) as [r1 t1], (ser Sc n v2 st2) as [r2 t2]. cbn [fst snd] in Hw.
  destruct r1 as [[]| | | |], r2 as [[]| | | |]; try contradiction;
    try (right; split; discriminate).
  left. destruct Hw as (_ & (Hq1 & Hq2 & Hbt & Hlt) & Hl1 & Hbb & w & E1 & E2).
  split; [reflexivity|]. split; [reflexivity|]. split; [exact Hq1|]. split; [exact Hq2|].
  split; [auto|]. split; [rewrite <- Hbt; auto|]. split; [exact Hl1|]. split; [congruence|].
  exists w. auto.
Qed.

Definition datum_eq (x y : result bytes) : Prop :=
  match x, y with
  | Ok b1, Ok b2 => b1 = b2
  | Ok _, _ => False
  | _, Ok _ => False
  | _, _ => True
  end.

Theorem perm_equiv_to_datum : forall Sc root slow v1 v2,
  fnode_at Sc 0 = Some root -> perm_equiv Sc root v1 v2 ->
  datum_eq (to_datum Sc slow v1) (to_datum Sc slow v2).
Proof.
  intros Sc root slow v1 v2 Er H. unfold to_datum. rewrite Er.
  assert (Hp : pool_ok (st0 slow)) by (split; constructor).
  pose proof (perm_equiv_ser Sc root v1 v2 (st0 slow) H Hp eq_refl) as Ho. unfold outcome_eq in Ho.
  destruct (ser Sc root v1 (st0 slow)) as [r1 t1], (ser Sc root v2 (st0 slow)) as [r2 t2].
  destruct Ho as [(-> & -> & E)|(N1 & N2)]; [exact E|].
  destruct r1 as [[]| | | |], r2 as [[]| | | |]; cbn; auto; congruence.
Qed.

(** * Part 7: bounded sinks

    A sink that accepts only b more bytes ([s_budget st = Some b]): the run is the run with an
    unbounded sink as long as the bytes fit, and fails otherwise. *)
Definition setb (st : sstate) (ob : option N) : sstate :=
  mkS (s_out st) ob (s_bufs st) (s_sbufs st) (s_slow st).
Definition blen (w : bytes) : N := N.of_nat (length w).

Definition BP {A} (m : M A) : Prop :=
  forall st0 b, s_budget st0 = None ->
  match m st0 with
  | (Ok a, t0) =>
      s_budget t0 = None /\
      exists w, s_out t0 = s_out st0 ++ w /\
        if N.leb (blen w) b then m (setb st0 (Some b)) = (Ok a, setb t0 (Some (b - blen w)%N))
        else is_ok (fst (m (setb st0 (Some b)))) = false
  | (_, _) => is_ok (fst (m (setb st0 (Some b)))) = false
  end.

Lemma blen_app w1 w2 : blen (w1 ++ w2) = (blen w1 + blen w2)%N.
Proof. unfold blen. rewrite app_length. lia. Qed.
Lemma blen_nil : blen [] = 0%N.
Proof. reflexivity. Qed.

Lemma BP_ext {A} (m m' : M A) : (forall s, m s = m' s) -> BP m' -> BP m.
Proof. intros E H st0 b Hb. rewrite !E. apply H; auto. Qed.

Lemma sbind_fails {A B} (m : M A) (f : A -> M B) s :
  is_ok (fst (m s)) = false -> is_ok (fst (sbind m f s)) = false.
Proof. unfold sbind. destruct (m s) as [[] ?]; cbn; auto; discriminate. Qed.

Lemma BP_bind {A B} (m : M A) (f : A -> M B) : BP m -> (forall a, BP (f a)) -> BP (sbind m f).
Proof.
  intros Hm Hf st0 b Hb. specialize (Hm st0 b Hb).
  unfold sbind at 1. destruct (m st0) as [[a| | | |] t0]; try (now apply sbind_fails).
  destruct Hm as (Hbt & w1 & Eo & Hc).
  destruct (N.leb_spec (blen w1) b) as [Hle|Hgt].
  - specialize (Hf a t0 (b - blen w1)%N Hbt).
    assert (Eb : sbind m f (setb st0 (Some b)) = f a (setb t0 (Some (b - blen w1)%N)))
      by (unfold sbind; now rewrite Hc).
    rewrite Eb.
    destruct (f a t0) as [[c| | | |] u0]; auto.
    destruct Hf as (Hbu & w2 & Eo2 & Hc2). split; auto. exists (w1 ++ w2).
    split; [now rewrite Eo2, Eo, app_assoc|]. rewrite blen_app.
    destruct (N.leb_spec (blen w2) (b - blen w1)%N).
    + destruct (N.leb_spec (blen w1 + blen w2)%N b); [|lia]. rewrite Hc2. do 3 f_equal. lia.
    + destruct (N.leb_spec (blen w1 + blen w2)%N b); [lia|]. exact Hc2.
  - pose proof (sbind_fails m f _ Hc) as Hfail.
    specialize (Hf a t0 0%N Hbt).
    destruct (f a t0) as [[c| | | |] u0]; auto.
    destruct Hf as (Hbu & w2 & Eo2 & _). split; auto. exists (w1 ++ w2).
    split; [now rewrite Eo2, Eo, app_assoc|]. rewrite blen_app.
    destruct (N.leb_spec (blen w1 + blen w2)%N b); [lia|]. exact Hfail.
Qed.

Lemma BP_ret {A} (a : A) : BP (sret (S := sstate) a).
Proof.
  intros st0 b Hb. cbn. split; auto. exists []. split; [now rewrite app_nil_r|].
  rewrite blen_nil. destruct (N.leb_spec 0%N b); [|lia]. now rewrite N.sub_0_r.
Qed.

Lemma BP_fail {A} (r : result A) : is_ok r = false -> BP (fail r).
Proof. intros H st0 b Hb. unfold fail. destruct r; try discriminate; exact H. Qed.

Lemma BP_write bs : BP (write bs).
Proof.
  intros st0 b Hb. unfold write. rewrite Hb. cbn [s_budget setb]. split; [reflexivity|].
  exists bs. split; [reflexivity|]. fold (blen bs).
  destruct (N.leb (blen bs) b); reflexivity.
Qed.

(* computations that neither write nor look at the budget *)
Definition BS {A} (m : M A) : Prop :=
  forall st ob, m (setb st ob) = (fst (m st), setb (snd (m st)) ob) /\
                s_out (snd (m st)) = s_out st /\ s_budget (snd (m st)) = s_budget st.

Lemma BS_BP {A} (m : M A) : BS m -> BP m.
Proof.
  intros H st0 b Hb. destruct (H st0 (Some b)) as (E & Ho & Hbu).
  destruct (m st0) as [r t0]. cbn [fst snd] in *.
  destruct r; rewrite E; try reflexivity.
  split; [congruence|]. exists []. split; [now rewrite app_nil_r|].
  rewrite blen_nil. destruct (N.leb_spec 0%N b); [|lia]. now rewrite N.sub_0_r.
Qed.

(* g agrees with m on success and fails when m fails *)
Lemma BP_agree {A} (m g : M A) :
  BP m ->
  (forall st, match m st with (Ok a, t) => g st = (Ok a, t) | _ => is_ok (fst (g st)) = false end) ->
  BP g.
Proof.
  intros Hm Hg st0 b Hb. specialize (Hm st0 b Hb).
  pose proof (Hg st0) as G0. pose proof (Hg (setb st0 (Some b))) as Gb.
  destruct (m st0) as [[a| | | |] t0].
  - rewrite G0. destruct Hm as (Hbt & w & Eo & Hc). split; auto. exists w. split; auto.
    destruct (N.leb (blen w) b).
    + now rewrite Hc in Gb.
    + destruct (m (setb st0 (Some b))) as [[] ?]; cbn in Hc; try discriminate; exact Gb.
  - destruct (g st0) as [[] ?]; cbn in G0; try discriminate;
      destruct (m (setb st0 (Some b))) as [[] ?]; cbn in Hm; try discriminate; exact Gb.
  - destruct (g st0) as [[] ?]; cbn in G0; try discriminate;
      destruct (m (setb st0 (Some b))) as [[] ?]; cbn in Hm; try discriminate; exact Gb.
  - destruct (g st0) as [[] ?]; cbn in G0; try discriminate;
      destruct (m (setb st0 (Some b))) as [[] ?]; cbn in Hm; try discriminate; exact Gb.
  - destruct (g st0) as [[] ?]; cbn in G0; try discriminate;
      destruct (m (setb st0 (Some b))) as [[] ?]; cbn in Hm; try discriminate; exact Gb.
Qed.

Lemma BS_pop_buf : BS pop_buf.
Proof.
  intros st ob. unfold pop_buf. cbn [s_bufs setb].
  destruct (s_bufs st) as [|[[|] cap] t]; cbn; auto.
Qed.
Lemma BS_push_buf bf : BS (push_buf bf).
Proof. intros st ob. cbn. auto. Qed.
Lemma BS_pop_sbuf : BS pop_sbuf.
Proof.
  intros st ob. unfold pop_sbuf. cbn [s_sbufs setb].
  destruct (s_sbufs st) as [|[|] t]; cbn; auto.
Qed.
Lemma BS_slow_check : BS slow_check.
Proof. intros st ob. unfold slow_check. cbn [s_slow setb]. destruct (s_slow st); cbn; auto. Qed.
Lemma BS_with_buffer {A} start (m : M A) : BS (with_buffer start m).
Proof.
  intros st ob. unfold with_buffer. cbn [s_out s_budget setb].
  change (st_with_out (setb st ob) start None) with (st_with_out st start None).
  destruct (m (st_with_out st start None)) as [r st']. cbn. auto.
Qed.
Lemma BS_record_drop rs : BS (record_drop rs).
Proof. intros st ob. unfold record_drop. destruct (r_cap rs); cbn; auto. Qed.

Create HintDb bp.
Ltac bp_step :=
  match goal with
  | |- BP (sbind _ _) => apply BP_bind; [|intros ?]
  | |- BP (write _) => apply BP_write
  | |- BP (sret _) => apply BP_ret
  | |- BP slow_check => apply BS_BP, BS_slow_check
  | |- BP (fail _) => apply BP_fail; reflexivity
  | |- BP (match ?x with _ => _ end) => destruct x
  | |- BP (if ?x then _ else _) => destruct x
  | |- BP (let (_, _) := ?x in _) => destruct x
  | |- BP _ => solve [auto with bp]
  end.
Ltac bp_tac := cbv zeta; repeat bp_step.

Lemma BP_write_varint z : BP (write_varint z).
Proof. apply BP_write. Qed.
#[global] Hint Resolve BP_write_varint : bp.
Lemma BP_usize n : BP (usize_to_i64 n).
Proof. unfold usize_to_i64. bp_tac. Qed.
#[global] Hint Resolve BP_usize : bp.
Lemma BP_write_ld d : BP (write_ld d).
Proof. unfold write_ld. bp_tac. Qed.
#[global] Hint Resolve BP_write_ld : bp.
Lemma BP_unnamed_step Sc ks key : BP (unnamed_step Sc ks key).
Proof. unfold unnamed_step. bp_tac. Qed.
#[global] Hint Resolve BP_unnamed_step : bp.
Lemma BP_via_union {Sc n key leaf} : (forall n', BP (leaf n')) -> BP (via_union Sc n key leaf).
Proof. intro H. unfold via_union. destruct n; auto. bp_tac; auto. Qed.
Lemma BP_unit_variant_null Sc n ename variant m : BP m -> BP (unit_variant_null Sc n ename variant m).
Proof.
  intro H. unfold unit_variant_null. destruct n; auto.
  destruct (union_named Sc variants variant) as [[d k']|]; auto.
  destruct (fnode_at Sc k') as [[]|]; auto.
  match goal with |- context [if ?c then _ else _] => destruct c end; auto. apply BP_write_varint.
Qed.
Lemma BP_named_step Sc n nm : BP (named_step Sc n nm).
Proof. unfold named_step. bp_tac. Qed.
#[global] Hint Resolve BP_named_step : bp.
Lemma BP_ser_decimal mode m s : BP (ser_decimal mode m s).
Proof. unfold ser_decimal. bp_tac. Qed.
#[global] Hint Resolve BP_ser_decimal : bp.
Lemma BP_ser_int_decimal scale repr z : BP (ser_int_decimal scale repr z).
Proof. unfold ser_int_decimal. bp_tac. Qed.
#[global] Hint Resolve BP_ser_int_decimal : bp.
Lemma BP_ser_int_leaf z n : BP (ser_int_leaf z n).
Proof. unfold ser_int_leaf. bp_tac. Qed.
Lemma BP_ser_str_leaf s n : BP (ser_str_leaf s n).
Proof. unfold ser_str_leaf. bp_tac. Qed.
Lemma BP_ser_bytes_leaf s n : BP (ser_bytes_leaf s n).
Proof. unfold ser_bytes_leaf. bp_tac. Qed.
Lemma BP_extract_u8 v : BP (extract_u8 v).
Proof. unfold extract_u8. bp_tac. Qed.
Lemma BP_extract_u32 v : BP (extract_u32 v).
Proof. unfold extract_u32. bp_tac. Qed.
Lemma BP_block_new l : BP (block_new l).
Proof. unfold block_new. bp_tac. Qed.
Lemma BP_block_next l : BP (block_next l).
Proof. unfold block_next. bp_tac. Qed.
Lemma BP_block_end l : BP (block_end l).
Proof. unfold block_end. bp_tac. Qed.
#[global] Hint Resolve BP_ser_int_leaf BP_ser_str_leaf BP_ser_bytes_leaf BP_extract_u8
  BP_extract_u32 BP_block_new BP_block_next BP_block_end : bp.

Lemma BP_pop_buf : BP pop_buf. Proof. apply BS_BP, BS_pop_buf. Qed.
Lemma BP_push_buf bf : BP (push_buf bf). Proof. apply BS_BP, BS_push_buf. Qed.
Lemma BP_pop_sbuf : BP pop_sbuf. Proof. apply BS_BP, BS_pop_sbuf. Qed.
Lemma BP_with_buffer {A} start (m : M A) : BP (with_buffer start m). Proof. apply BS_BP, BS_with_buffer. Qed.
#[global] Hint Resolve BP_pop_buf BP_push_buf BP_pop_sbuf : bp.

Lemma BP_flush_ready f nf chk : forall rs, BP (flush_ready f nf chk rs).
Proof.
  induction f as [|f IH]; intro rs; [apply BP_ret|].
  eapply BP_ext; [apply flush_ready_eq|].
  destruct (nth_error (r_bufs rs) (r_cur rs)) as [[[c cap]|]|]; try apply BP_ret.
  apply BP_bind; [apply BP_write|intros _]. apply BP_bind; [apply BP_push_buf|intros _].
  destruct (chk && _); [apply BP_fail; reflexivity|apply IH].
Qed.

Lemma BP_record_end fuel Sc fields : forall rs, BP (record_end fuel Sc fields rs).
Proof.
  induction fuel as [|f IH]; intro rs; [apply BP_ret|].
  cbn [record_end]. destruct (nth_error fields (r_cur rs)) as [[nm k]|]; [|apply BP_ret].
  assert (Hcont : BP
    (do* rs' <- flush_ready (length fields) (length fields) false (mkR (S (r_cur rs)) (r_bufs rs) (r_cap rs));
     record_end f Sc fields rs')).
  { apply BP_bind; [apply BP_flush_ready|intro; apply IH]. }
  destruct (fnode_at Sc k) as [[]|]; try (apply BP_fail; reflexivity); auto.
  destruct (union_unnamed Sc variants KNull) as [[d k']|]; try (apply BP_fail; reflexivity).
  destruct (fnode_at Sc k') as [[]|]; try (apply BP_fail; reflexivity).
  apply BP_bind; [apply BP_write_varint|intros _]. exact Hcont.
Qed.

Lemma BP_record_value serk fields rs idx k v' : BP (serk k v') -> BP (record_value serk fields rs idx k v').
Proof.
  intro Hk. eapply BP_ext; [apply record_value_eq|].
  destruct (Nat.eqb idx (r_cur rs)).
  - apply BP_bind; [exact Hk|intros _]. destruct (negb _); [apply BP_fail; reflexivity|apply BP_flush_ready].
  - destruct (nth_error (resize_to (r_bufs rs) (S idx) None) idx) as [[|]|]; try (apply BP_fail; reflexivity);
      (apply BP_bind; [apply BP_pop_buf|intro]; apply BP_bind; [apply BP_with_buffer|intro]; apply BP_ret).
Qed.

Lemma BP_struct_fields serk kind : forall fs,
  Forall (fun f => forall k, BP (serk k (snd f))) fs ->
  forall rs blk dur, BP (drop_mid (struct_fields serk kind rs blk dur fs)).
Proof.
  induction fs as [|[key v'] rest IH]; intros HF rs blk dur.
  - apply (BP_ext _ (sret (rs, blk, dur))); [reflexivity|apply BP_ret].
  - inversion HF as [|? ? Hv HF']; subst. cbn [snd] in Hv. specialize (IH HF'). destruct kind as [fields|values|].
    + eapply BP_ext; [apply struct_fields_cons_record|].
      destruct (rec_field_idx fields rs key) as [[idx k]|e|p| |]; try (apply BP_fail; reflexivity).
      apply BP_bind; [now apply BP_record_value|intro; apply IH].
    + eapply BP_ext; [apply struct_fields_cons_map|].
      apply BP_bind; [|intro; apply IH]. bp_tac.
    + eapply BP_ext; [apply struct_fields_cons_duration|].
      destruct (duration_field key) as [i|]; [|apply BP_fail; reflexivity].
      destruct (nth_error dur i) as [[|]|]; try (apply BP_fail; reflexivity);
        (apply BP_bind; [apply BP_extract_u32|intro; apply IH]).
Qed.

Lemma BP_map_calls serk serstr kind : forall calls,
  Forall (fun c => call_ok (fun k => BP (serstr k)) (fst c) /\
                   call_ok (fun v => forall k, BP (serk k v)) (snd c)) calls ->
  forall rs blk dur hint, BP (drop_mid (map_calls serk serstr kind rs blk dur hint calls)).
Proof.
  induction calls as [|[ko vo] rest IH]; intros HF rs blk dur hint.
  - apply (BP_ext _ (sret (rs, blk, dur))); [reflexivity|apply BP_ret].
  - inversion HF as [|? ? [Hk Hv] HF']; subst. cbn [fst snd] in Hk, Hv. specialize (IH HF').
    destruct kind as [fields|values|].
    + eapply BP_ext; [apply map_calls_cons_record|].
      destruct (rec_key_res fields rs hint ko) as [hint'|e|p| |]; try (apply BP_fail; reflexivity).
      destruct vo as [v'|]; [|apply IH].
      destruct hint' as [[idx k]|]; [|apply BP_fail; reflexivity].
      apply BP_bind; [apply BP_record_value; apply Hv|intro; apply IH].
    + eapply BP_ext; [apply map_calls_cons_map|].
      apply BP_bind; [|intro; apply IH].
      destruct ko, vo; cbn in Hk, Hv; bp_tac; auto.
    + eapply BP_ext; [apply map_calls_cons_duration|].
      destruct (dur_key_res hint ko) as [hint'|e|p| |]; try (apply BP_fail; reflexivity).
      destruct vo as [v'|]; [|apply IH].
      destruct hint' as [[i k]|]; [|apply BP_fail; reflexivity].
      destruct (nth_error dur i) as [[|]|]; try (apply BP_fail; reflexivity);
        (apply BP_bind; [apply BP_extract_u32|intro; apply IH]).
Qed.

Definition fin_ok (Sc : fschema) (kind : rkind) (x : recstate * N * list (option N)) : M unit :=
  match kind with
  | RKRecord fields =>
      do* rs' <- record_end (S (length fields)) Sc fields (fst (fst x));
      if existsb (fun o : option buf => match o with Some _ => true | None => false end) (r_bufs rs')
      then fail (Panic PDebugAssertBuffers)
      else fun st => (Ok tt, snd (record_drop (mkR (r_cur rs') [] (r_cap rs')) st))
  | RKMap _ => block_end (snd (fst x))
  | RKDuration =>
      match snd x with
      | [Some a; Some b; Some c] => write (le_bytes 4 a ++ le_bytes 4 b ++ le_bytes 4 c)
      | _ => fail (Err EData)
      end
  end.

Lemma BP_fin_ok Sc kind x : BP (fin_ok Sc kind x).
Proof.
  unfold fin_ok. destruct kind as [fields|values|].
  - apply BP_bind; [apply BP_record_end|intro rs'].
    destruct (existsb _ _); [apply BP_fail; reflexivity|].
    apply BS_BP. intros st ob. destruct (BS_record_drop (mkR (r_cur rs') [] (r_cap rs')) st ob) as (E & Ho & Hb).
    cbn [fst snd]. rewrite E. cbn [snd]. auto.
  - apply BP_block_end.
  - destruct (snd x) as [|[a|] [|[b|] [|[c|] [|]]]]; try (apply BP_fail; reflexivity). apply BP_write.
Qed.

Lemma BP_finish Sc kind t : BP (drop_mid t) -> BP (fun st => finish Sc kind (t st)).
Proof.
  intro H. apply (BP_agree (sbind (drop_mid t) (fin_ok Sc kind))).
  - apply BP_bind; [exact H|intro; apply BP_fin_ok].
  - intro st. unfold sbind, drop_mid. destruct (t st) as [[r d] u]. cbn [fst snd].
    destruct r as [[[rs blk] dur]| | | |]; try (unfold finish; destruct kind; reflexivity).
    unfold fin_ok, finish. destruct kind as [fields|values|]; cbn [fst snd].
    + unfold sbind. destruct (record_end (S (length fields)) Sc fields rs u) as [[rs'| | | |] u']; try reflexivity.
      destruct (existsb _ _); reflexivity.
    + destruct (block_end blk u) as [[[]| | | |] u']; reflexivity.
    + destruct dur as [|[a|] [|[b|] [|[c|] [|]]]]; try reflexivity.
      destruct (write _ u) as [[[]| | | |] u']; reflexivity.
Qed.

Lemma BP_record_new : BP record_new.
Proof. unfold record_new. apply BP_bind; [apply BP_pop_sbuf|intro; apply BP_ret]. Qed.

Lemma BP_start_kind Sc b l n' run :
  (forall kind rs blk, BP (drop_mid (run kind rs blk))) -> BP (start_kind Sc b l n' run).
Proof.
  intro H. unfold start_kind. destruct n'; try (apply BP_fail; reflexivity).
  - apply BP_bind; [apply BP_block_new|intro blk].
    apply (BP_finish Sc (RKMap values) (run (RKMap values) (mkR 0 [] false) blk)). apply H.
  - apply BP_bind; [apply BP_record_new|intro rs].
    apply (BP_finish Sc (RKRecord fields) (run (RKRecord fields) rs 0%N)). apply H.
  - destruct b; [|apply BP_fail; reflexivity].
    apply (BP_finish Sc RKDuration (run RKDuration (mkR 0 [] false) 0%N)). apply H.
Qed.

Lemma BP_arr_go serk items : forall vs, Forall (fun v => forall k, BP (serk k v)) vs ->
  forall blk, BP (arr_go serk items blk vs).
Proof.
  induction vs as [|v vs IH]; intros HF blk; cbn [arr_go]; [apply BP_ret|].
  inversion HF; subst. bp_tac; auto.
Qed.
Lemma BP_dur_go : forall vs cnt, BP (dur_go cnt vs).
Proof. induction vs as [|v vs IH]; intro cnt; cbn [dur_go]; bp_tac; auto. Qed.
Lemma BP_collect_go : forall vs acc, BP (collect_go acc vs).
Proof. induction vs as [|v vs IH]; intro acc; cbn [collect_go]; bp_tac; auto. Qed.
Lemma BP_bytes_go : forall vs r, BP (bytes_go r vs).
Proof. induction vs as [|v vs IH]; intro r; cbn [bytes_go]; bp_tac; auto. Qed.

Definition maybe_push (cap : bool) : M unit :=
  fun st => (Ok tt, if cap then snd (push_buf ([], cap) st) else st).
Lemma BS_maybe_push cap : BS (maybe_push cap).
Proof. intros st ob. unfold maybe_push. destruct cap; cbn; auto. Qed.

Lemma BP_seq_leaf serk len vs n' :
  Forall (fun v => forall k, BP (serk k v)) vs -> BP (seq_leaf serk len vs n').
Proof.
  intro HF. unfold seq_leaf. destruct n'; try (apply BP_fail; reflexivity).
  - (* FBytes *)
    apply BP_bind; [apply BS_BP, BS_slow_check|intros _].
    destruct len as [l|].
    + apply BP_bind; [apply BP_usize|intro li].
      apply BP_bind; [apply BP_write_varint|intros _].
      apply BP_bind; [apply (BP_bytes_go vs l)|intro r]. bp_tac.
    + apply BP_bind; [apply BP_pop_buf|intro b0]. cbv zeta.
      change (fix go (acc : bytes) (vs : list sval) {struct vs} : M bytes :=
                match vs with
                | [] => sret acc
                | v' :: rest => do* x <- extract_u8 v'; go (acc ++ [x]) rest
                end) with collect_go.
      apply (BP_agree
        (do* content <- collect_go [] vs;
         do* _ <- write_ld content;
         maybe_push (snd b0 || negb (Nat.eqb (length content) 0)))).
      * apply BP_bind; [apply BP_collect_go|intro c].
        apply BP_bind; [apply BP_write_ld|intros _]. apply BS_BP, BS_maybe_push.
      * intro st. unfold sbind.
        destruct (collect_go [] vs st) as [[c| | | |] u]; try reflexivity.
        destruct (write_ld c u) as [[[]| | | |] u']; reflexivity.
  - (* FArray *)
    apply BP_bind; [apply BP_block_new|intro blk].
    apply BP_bind; [apply (BP_arr_go serk items vs HF blk)|intro blk']. apply BP_block_end.
  - (* FFixed *)
    apply BP_bind; [apply BS_BP, BS_slow_check|intros _].
    destruct (match len with Some l => negb (N.eqb l size) | None => false end); [apply BP_fail; reflexivity|].
    apply BP_bind; [apply (BP_bytes_go vs size)|intro r]. bp_tac.
  - (* FDuration *)
    destruct (match len with Some l => negb (N.eqb l 3) | None => false end); [apply BP_fail; reflexivity|].
    apply BP_bind; [apply (BP_dur_go vs 0)|intro r]. bp_tac.
Qed.

Lemma BP_at_key Sc k v : (forall n, BP (ser Sc n v)) -> BP (at_key Sc k v).
Proof. intro H. unfold at_key. destruct (fnode_at Sc k); auto. apply BP_fail; reflexivity. Qed.

Theorem ser_BP Sc : forall v n, BP (ser Sc n v).
Proof.
  induction v using sval_ind2; intro n0;
    try (cbn [ser]; try apply BP_unit_variant_null; repeat (apply BP_via_union; intro); bp_tac; fail).
  - rewrite ser_SSeq. apply BP_via_union; intro. apply BP_seq_leaf.
    eapply Forall_impl; [|exact H]. intros v Hv k. now apply BP_at_key.
  - rewrite ser_STuple. apply BP_via_union; intro. apply BP_seq_leaf.
    eapply Forall_impl; [|exact H]. intros v Hv k. now apply BP_at_key.
  - rewrite ser_STupleStruct. apply BP_via_union; intro. apply BP_seq_leaf.
    eapply Forall_impl; [|exact H]. intros v Hv k. now apply BP_at_key.
  - rewrite ser_STupleVariant. apply BP_bind; [apply BP_named_step|intro].
    apply BP_via_union; intro. apply BP_seq_leaf.
    eapply Forall_impl; [|exact H]. intros v Hv k. now apply BP_at_key.
  - rewrite ser_SMap. apply BP_via_union; intro. apply BP_start_kind.
    intros kind rs blk. apply BP_map_calls.
    eapply Forall_impl; [|exact H]. intros [ko vo] [Hk Hv]. cbn [fst snd] in *. split.
    + destruct ko; cbn in *; auto.
    + destruct vo; cbn in *; auto. intro k. now apply BP_at_key.
  - rewrite ser_SStruct. apply BP_bind; [apply BP_named_step|intro].
    apply BP_via_union; intro. apply BP_start_kind.
    intros kind rs blk. apply BP_struct_fields.
    eapply Forall_impl; [|exact H]. intros [nm v] Hv k. now apply BP_at_key.
  - rewrite ser_SStructVariant. apply BP_bind; [apply BP_named_step|intro].
    apply BP_via_union; intro. apply BP_start_kind.
    intros kind rs blk. apply BP_struct_fields.
    eapply Forall_impl; [|exact H]. intros [nm v] Hv k. now apply BP_at_key.
Qed.

(* the serializer into a sink that accepts b more bytes *)
Theorem ser_bounded_sink : forall Sc n v st0 b, s_budget st0 = None ->
  match ser Sc n v st0 with
  | (Ok _, t0) =>
      exists w, s_out t0 = s_out st0 ++ w /\
        if N.leb (blen w) b
        then ser Sc n v (setb st0 (Some b)) = (Ok tt, setb t0 (Some (b - blen w)%N))
        else is_ok (fst (ser Sc n v (setb st0 (Some b)))) = false
  | (_, _) => is_ok (fst (ser Sc n v (setb st0 (Some b)))) = false
  end.
Proof.
  intros Sc n v st0 b Hb. pose proof (ser_BP Sc v n st0 b Hb) as H.
  destruct (ser Sc n v st0) as [[[]| | | |] t0]; auto. destruct H as (_ & w & E & Hc). eauto.
Qed.

Lemma setb_setb st b : s_budget st = Some b -> st = setb (setb st None) (Some b).
Proof. intro H. destruct st; cbn in *; now subst. Qed.

(* (c) for every sink: the hypothesis "the sink is a Vec" is not needed *)
Theorem perm_equiv_ser_any_sink : forall Sc n v1 v2 st,
  perm_equiv Sc n v1 v2 -> pool_ok st ->
  outcome_eq (ser Sc n v1 st) (ser Sc n v2 st).
Proof.
  intros Sc n v1 v2 st H Hpool. destruct (s_budget st) as [b|] eqn:Eb; [|now apply perm_equiv_ser].
  rewrite (setb_setb st b Eb). set (st0 := setb st None).
  assert (Hp0 : pool_ok st0) by exact Hpool.
  pose proof (perm_equiv_ser Sc n v1 v2 st0 H Hp0 eq_refl) as Ho.
  pose proof (ser_BP Sc v1 n st0 b eq_refl) as B1. pose proof (ser_BP Sc v2 n st0 b eq_refl) as B2.
  unfold outcome_eq in *.
  destruct (ser Sc n v1 st0) as [r1 t1], (ser Sc n v2 st0) as [r2 t2].
  destruct Ho as [(-> & -> & Eo)|(N1 & N2)].
  - destruct B1 as (_ & w1 & E1 & C1), B2 as (_ & w2 & E2 & C2).
    rewrite E1, E2 in Eo. apply app_inv_head in Eo. subst w2.
    destruct (N.leb (blen w1) b).
    + rewrite C1, C2. left. cbn. repeat split; congruence.
    + destruct (ser Sc n v1 (setb st0 (Some b))) as [[] ?], (ser Sc n v2 (setb st0 (Some b))) as [[] ?];
        cbn in C1, C2; try discriminate; right; split; discriminate.
  - assert (F1 : is_ok (fst (ser Sc n v1 (setb st0 (Some b)))) = false).
    { destruct r1 as [[]| | | |]; auto. now elim N1. }
    assert (F2 : is_ok (fst (ser Sc n v2 (setb st0 (Some b)))) = false).
    { destruct r2 as [[]| | | |]; auto. now elim N2. }
    destruct (ser Sc n v1 (setb st0 (Some b))) as [[] ?], (ser Sc n v2 (setb st0 (Some b))) as [[] ?];
      cbn in F1, F2; try discriminate; right; split; discriminate.
Qed.

(* two states with the same (possibly bounded) sink budget *)
Theorem perm_equiv_ser2_any_sink : forall Sc n v1 v2 st1 st2,
  perm_equiv Sc n v1 v2 ->
  pool_ok st1 -> pool_ok st2 -> s_budget st1 = s_budget st2 -> s_slow st1 = s_slow st2 ->
  let '(r1, t1) := ser Sc n v1 st1 in
  let '(r2, t2) := ser Sc n v2 st2 in
  (r1 = Ok tt /\ r2 = Ok tt /\
   pool_ok t1 /\ pool_ok t2 /\ s_budget t1 = s_budget t2 /\
   s_slow t1 = s_slow st1 /\ s_slow t2 = s_slow st2 /\
   exists w, s_out t1 = s_out st1 ++ w /\ s_out t2 = s_out st2 ++ w) \/
  (r1 <> Ok tt /\ r2 <> Ok tt).
Proof.
  intros Sc n v1 v2 st1 st2 H Hp1 Hp2 Hbb Hl.
  destruct (s_budget st1) as [b|] eqn:Eb1.
  - symmetry in Hbb. rewrite (setb_setb st1 b Eb1), (setb_setb st2 b Hbb).
    set (s1 := setb st1 None). set (s2 := setb st2 None).
    pose proof (perm_equiv_ser2 Sc n v1 v2 s1 s2 H Hp1 Hp2 eq_refl eq_refl Hl) as Ho.
    pose proof (ser_BP Sc v1 n s1 b eq_refl) as B1. pose proof (ser_BP Sc v2 n s2 b eq_refl) as B2.
    destruct (ser Sc n v1 s1) as [r1 t1], (ser Sc n v2 s2) as [r2 t2].
    destruct Ho as [(-> & -> & Hq1 & Hq2 & _ & _ & Hl1 & Hl2 & w & Eo1 & Eo2)|(N1 & N2)].
    + destruct B1 as (_ & w1 & E1 & C1), B2 as (_ & w2 & E2 & C2).
      rewrite Eo1 in E1. apply app_inv_head in E1. subst w1.
      rewrite Eo2 in E2. apply app_inv_head in E2. subst w2.
      destruct (N.leb (blen w) b).
      * rewrite C1, C2. left. cbn. repeat (split; [auto|]). exists w. auto.
      * destruct (ser Sc n v1 (setb s1 (Some b))) as [[] ?], (ser Sc n v2 (setb s2 (Some b))) as [[] ?];
          cbn in C1, C2; try discriminate; right; split; discriminate.
    + assert (F1 : is_ok (fst (ser Sc n v1 (setb s1 (Some b)))) = false).
      { destruct r1 as [[]| | | |]; auto. now elim N1. }
      assert (F2 : is_ok (fst (ser Sc n v2 (setb s2 (Some b)))) = false).
      { destruct r2 as [[]| | | |]; auto. now elim N2. }
      destruct (ser Sc n v1 (setb s1 (Some b))) as [[] ?], (ser Sc n v2 (setb s2 (Some b))) as [[] ?];
        cbn in F1, F2; try discriminate; right; split; discriminate.
  - symmetry in Hbb.
    pose proof (perm_equiv_ser2 Sc n v1 v2 st1 st2 H Hp1 Hp2 Eb1 Hbb Hl) as Ho.
    destruct (ser Sc n v1 st1) as [r1 t1], (ser Sc n v2 st2) as [r2 t2].
    destruct Ho as [(-> & -> & Hq1 & Hq2 & Hb1 & Hb2 & Hl1 & Hl2 & w & Eo1 & Eo2)|(N1 & N2)]; [left|right; auto].
    repeat (split; [auto; congruence|]). exists w. auto.
Qed.

(** ** constructing derivations *)
Lemma pe_fields_refl Sc fields ps : pe_fields Sc fields ps ps.
Proof. induction ps as [|[nm v] ps IH]; constructor; auto. intros. apply pe_refl. Qed.

Lemma pe_list_refl Sc n vs : pe_list Sc n vs vs.
Proof. induction vs; constructor; auto. apply pe_refl. Qed.

Lemma in_fields_unique (fields : list (bytes * nat)) nm k1 k2 :
  NoDup (map fst fields) -> In (nm, k1) fields -> In (nm, k2) fields -> k1 = k2.
Proof.
  induction fields as [|[n k] fs IH]; cbn; [tauto|]. intros Hnd Ha Hb.
  inversion Hnd as [|? ? Hnotin Hnd']; subst.
  destruct Ha as [E1|G1], Hb as [E2|G2].
  - congruence.
  - injection E1 as -> ->. exfalso. apply Hnotin. apply (in_map fst) in G2. exact G2.
  - injection E2 as -> ->. exfalso. apply Hnotin. apply (in_map fst) in G1. exact G1.
  - auto.
Qed.

(* with distinct schema names, it is enough to relate the values at THE node of the field *)
Lemma pef_cons_at Sc fields nm k0 nk0 v1 v2 r1 r2 :
  NoDup (map fst fields) -> In (nm, k0) fields -> fnode_at Sc k0 = Some nk0 ->
  perm_equiv Sc nk0 v1 v2 -> pe_fields Sc fields r1 r2 ->
  pe_fields Sc fields ((nm, v1) :: r1) ((nm, v2) :: r2).
Proof.
  intros Hnd Hin Ek Hv Hr. constructor; auto. intros k nk Hin' Ek'.
  rewrite (in_fields_unique fields nm k k0 Hnd Hin' Hin) in Ek'. congruence.
Qed.

(* a name that is not a field: both presentations fail, whatever the values *)
Lemma pef_cons_unknown Sc fields nm v1 v2 r1 r2 :
  ~ In nm (map fst fields) -> pe_fields Sc fields r1 r2 ->
  pe_fields Sc fields ((nm, v1) :: r1) ((nm, v2) :: r2).
Proof.
  intros Hn Hr. constructor; auto. intros k nk Hin _. exfalso. apply Hn.
  apply (in_map fst) in Hin. exact Hin.
Qed.

Lemma route_record Sc rn fields on : route Sc (FRecord rn fields) on = Some ([], FRecord rn fields).
Proof. destruct on; reflexivity. Qed.

(* the general permutation theorem at a node from which the presentation reaches a record:
   any two presentation forms, fields in any order, field values related *)
Theorem record_order_independent_routed : forall Sc n v1 v2 on1 on2 ps1 ps2 ps' w rn fields st,
  presents v1 on1 ps1 -> presents v2 on2 ps2 ->
  route Sc n on1 = Some (w, FRecord rn fields) -> route Sc n on2 = Some (w, FRecord rn fields) ->
  NoDup (map fst fields) ->
  Permutation ps1 ps' -> pe_fields Sc fields ps' ps2 ->
  pool_ok st ->
  outcome_eq (ser Sc n v1 st) (ser Sc n v2 st).
Proof.
  intros Sc n v1 v2 on1 on2 ps1 ps2 ps' w rn fields st Hp1 Hp2 Hr1 Hr2 Hndf Hperm HF Hpool.
  apply perm_equiv_ser_any_sink; auto. eapply pe_record; eauto.
Qed.

(* the theorem of RecordProofs without the hypothesis that the presented names are distinct *)
Theorem record_order_independent_any : forall Sc nm fields len1 len2 ps1 ps2 sname1 sname2 st,
  NoDup (map fst fields) -> Permutation ps1 ps2 ->
  pool_ok st ->
  outcome_eq (ser Sc (FRecord nm fields) (SStruct sname1 len1 ps1) st)
             (ser Sc (FRecord nm fields) (SStruct sname2 len2 ps2) st).
Proof.
  intros Sc nm fields len1 len2 ps1 ps2 sname1 sname2 st Hndf Hperm Hpool.
  eapply record_order_independent_routed; eauto using pr_struct, route_record, pe_fields_refl.
Qed.

(* ... because presenting a name twice fails, wherever the two occurrences are *)
Theorem record_duplicate_field_fails : forall Sc n v on ps w rn fields st,
  presents v on ps -> route Sc n on = Some (w, FRecord rn fields) ->
  NoDup (map fst fields) -> ~ NoDup (map fst ps) ->
  pool_ok st ->
  is_ok (fst (ser Sc n v st)) = false.
Proof.
  intros Sc n v on ps w rn fields st Hp Hr Hndf Hdup Hpool.
  assert (H0 : forall st0, pool_ok st0 -> s_budget st0 = None -> is_ok (fst (ser Sc n v st0)) = false).
  { intros st0 Hp0 Hb.
    rewrite (ser_presents_record Sc n v on ps w rn fields st0 Hp Hr Hb).
    apply (run_record_dup_fails (at_key Sc) (enc_ser Sc (s_slow st0)) (s_slow st0) fields (s_out (st_app st0 w))
             (at_key_pure Sc (s_slow st0)) Hndf Sc ps); auto.
    apply good_st_app. split; [|split]; auto. }
  destruct (s_budget st) as [b|] eqn:Eb; [|now apply H0].
  rewrite (setb_setb st b Eb). pose proof (ser_BP Sc v n (setb st None) b eq_refl) as B.
  specialize (H0 (setb st None) Hpool eq_refl).
  destruct (ser Sc n v (setb st None)) as [[] ?]; cbn in H0; try discriminate; exact B.
Qed.

(* through a union (or not), the bytes are the discriminant(s) followed by the bytes at the record node *)
Theorem ser_routed_record : forall Sc n v on ps w rn fields st,
  presents v on ps -> route Sc n on = Some (w, FRecord rn fields) -> s_budget st = None ->
  ser Sc n v st = ser Sc (FRecord rn fields) v (st_app st w).
Proof.
  intros Sc n v on ps w rn fields st Hp Hr Hb.
  rewrite (ser_presents_record Sc n v on ps w rn fields st Hp Hr Hb).
  rewrite (ser_presents_record Sc (FRecord rn fields) v on ps [] rn fields (st_app st w) Hp
             (route_record Sc rn fields on) eq_refl).
  now rewrite st_app_nil.
Qed.

(** (a) key/value-split map presentations on a record node *)
Theorem record_order_independent_calls : forall Sc nm fields len1 len2 fps1 fps2 st,
  NoDup (map fst fields) ->
  Permutation (map snd fps1) (map snd fps2) ->
  pool_ok st ->
  outcome_eq (ser Sc (FRecord nm fields) (SMap len1 (mk_calls fps1)) st)
             (ser Sc (FRecord nm fields) (SMap len2 (mk_calls fps2)) st).
Proof.
  intros Sc nm fields len1 len2 fps1 fps2 st Hndf Hperm Hpool.
  eapply record_order_independent_routed; eauto using pr_map, route_record, pe_fields_refl.
Qed.

Theorem record_order_independent_struct_calls : forall Sc nm fields sname len1 len2 ps1 fps2 st,
  NoDup (map fst fields) ->
  Permutation ps1 (map snd fps2) ->
  pool_ok st ->
  outcome_eq (ser Sc (FRecord nm fields) (SStruct sname len1 ps1) st)
             (ser Sc (FRecord nm fields) (SMap len2 (mk_calls fps2)) st).
Proof.
  intros Sc nm fields sname len1 len2 ps1 fps2 st Hndf Hperm Hpool.
  eapply record_order_independent_routed; eauto using pr_map, pr_struct, route_record, pe_fields_refl.
Qed.

Lemma map_snd_split (ps : list (bytes * sval)) : map snd (map (fun p => (true, p)) ps) = ps.
Proof. rewrite map_map. cbn. apply map_id. Qed.

(* every field presented by serialize_key then serialize_value *)
Theorem record_order_independent_split : forall Sc nm fields sname len1 len2 ps1 ps2 st,
  NoDup (map fst fields) -> Permutation ps1 ps2 ->
  pool_ok st ->
  outcome_eq (ser Sc (FRecord nm fields) (SStruct sname len1 ps1) st)
             (ser Sc (FRecord nm fields) (SMap len2 (split_calls ps2)) st).
Proof.
  intros Sc nm fields sname len1 len2 ps1 ps2 st Hndf Hperm Hpool. unfold split_calls.
  apply record_order_independent_struct_calls; auto. now rewrite map_snd_split.
Qed.

Theorem record_order_independent_split_split : forall Sc nm fields len1 len2 ps1 ps2 st,
  NoDup (map fst fields) -> Permutation ps1 ps2 ->
  pool_ok st ->
  outcome_eq (ser Sc (FRecord nm fields) (SMap len1 (split_calls ps1)) st)
             (ser Sc (FRecord nm fields) (SMap len2 (split_calls ps2)) st).
Proof.
  intros Sc nm fields len1 len2 ps1 ps2 st Hndf Hperm Hpool. unfold split_calls.
  apply record_order_independent_calls; auto; now rewrite !map_snd_split.
Qed.

(** (b) records selected through a union *)
(* by name: the struct name (or variant name) is a name of the record branch *)
Theorem record_order_independent_union_named : forall Sc ks sname d k rn fields len1 len2 ps1 ps2 st,
  union_named Sc ks sname = Some (d, k) -> fnode_at Sc k = Some (FRecord rn fields) ->
  NoDup (map fst fields) -> Permutation ps1 ps2 ->
  pool_ok st ->
  outcome_eq (ser Sc (FUnion ks) (SStruct sname len1 ps1) st)
             (ser Sc (FUnion ks) (SStruct sname len2 ps2) st).
Proof.
  intros Sc ks sname d k rn fields len1 len2 ps1 ps2 st En Ek Hndf Hperm Hpool.
  assert (Hr : route Sc (FUnion ks) (Some sname) = Some (encode_long d ++ [], FRecord rn fields)).
  { unfold route, named_route. rewrite En, Ek. reflexivity. }
  eapply record_order_independent_routed; eauto using pr_struct, pe_fields_refl.
Qed.

(* by type: the name selects nothing, the struct-or-map lookup selects the record branch *)
Theorem record_order_independent_union_typed : forall Sc ks sname1 sname2 d k rn fields len1 len2 ps1 ps2 st,
  union_named Sc ks sname1 = None -> union_named Sc ks sname2 = None ->
  union_unnamed Sc ks KStructOrMap = Some (d, k) -> fnode_at Sc k = Some (FRecord rn fields) ->
  NoDup (map fst fields) -> Permutation ps1 ps2 ->
  pool_ok st ->
  outcome_eq (ser Sc (FUnion ks) (SStruct sname1 len1 ps1) st)
             (ser Sc (FUnion ks) (SStruct sname2 len2 ps2) st).
Proof.
  intros Sc ks sname1 sname2 d k rn fields len1 len2 ps1 ps2 st En1 En2 Eu Ek Hndf Hperm Hpool.
  assert (Hr : forall sname, union_named Sc ks sname = None ->
            route Sc (FUnion ks) (Some sname) = Some ([] ++ encode_long d, FRecord rn fields)).
  { intros sname En. unfold route, named_route. rewrite En. unfold unnamed_route. rewrite Eu, Ek. reflexivity. }
  eapply record_order_independent_routed; eauto using pr_struct, pe_fields_refl.
Qed.

(* a map presentation (entries or split calls) is always type-directed *)
Theorem record_order_independent_union_map : forall Sc ks d k rn fields len1 len2 fps1 fps2 st,
  union_unnamed Sc ks KStructOrMap = Some (d, k) -> fnode_at Sc k = Some (FRecord rn fields) ->
  NoDup (map fst fields) ->
  Permutation (map snd fps1) (map snd fps2) ->
  pool_ok st ->
  outcome_eq (ser Sc (FUnion ks) (SMap len1 (mk_calls fps1)) st)
             (ser Sc (FUnion ks) (SMap len2 (mk_calls fps2)) st).
Proof.
  intros Sc ks d k rn fields len1 len2 fps1 fps2 st Eu Ek Hndf Hperm Hpool.
  assert (Hr : route Sc (FUnion ks) None = Some (encode_long d, FRecord rn fields)).
  { unfold route, unnamed_route. rewrite Eu, Ek. reflexivity. }
  eapply record_order_independent_routed; eauto using pr_map, pe_fields_refl.
Qed.

(* a newtype variant (an externally tagged enum variant) selecting the record branch by name *)
Theorem record_order_independent_newtype_variant :
  forall Sc ks e1 i1 e2 i2 vn d k rn fields sname1 sname2 len1 len2 ps1 ps2 st,
  union_named Sc ks vn = Some (d, k) -> fnode_at Sc k = Some (FRecord rn fields) ->
  NoDup (map fst fields) -> Permutation ps1 ps2 ->
  pool_ok st ->
  outcome_eq (ser Sc (FUnion ks) (SNewtypeVariant e1 i1 vn (SStruct sname1 len1 ps1)) st)
             (ser Sc (FUnion ks) (SNewtypeVariant e2 i2 vn (SStruct sname2 len2 ps2)) st).
Proof.
  intros Sc ks e1 i1 e2 i2 vn d k rn fields sname1 sname2 len1 len2 ps1 ps2 st En Ek Hndf Hperm Hpool.
  apply perm_equiv_ser_any_sink; auto.
  apply pe_newtype_variant with (w := encode_long d) (n' := FRecord rn fields).
  - unfold named_route. now rewrite En, Ek.
  - unfold named_route. now rewrite En, Ek.
  - eapply pe_record; eauto using pr_struct, route_record, pe_fields_refl.
Qed.

(** * Part 8: examples and counterexamples *)
Ltac nodup_tac := repeat constructor; cbn; intuition discriminate.

Module Ex.
Definition fa : bytes := [97%N].
Definition fi : bytes := [105%N].
Definition fr : bytes := [114%N].
Definition fm : bytes := [109%N].
Definition fu : bytes := [117%N].
Definition fx : bytes := [120%N].
Definition fy : bytes := [121%N].
Definition nR : name := mkName [82%N] None.
Definition nI : name := mkName [73%N] None.
Definition fieldsI : list (bytes * nat) := [(fx, 1); (fy, 6)].
Definition fieldsR : list (bytes * nat) := [(fa, 1); (fi, 2); (fr, 3); (fm, 4); (fu, 5)].
(* record R { a: int, i: I, r: array<I>, m: map<I>, u: [null, I] }, record I { x: int, y: string } *)
Definition Sc : fschema :=
  [FRecord nR fieldsR; FInt; FRecord nI fieldsI; FArray 2; FMap 2; FUnion [7; 2]; FString; FNull].

Definition inner1 (p : Z) (q : N) : sval := SStruct [73%N] 2 [(fx, SInt true W32 p); (fy, SStr [q])].
Definition inner2 (p : Z) (q : N) : sval := SStruct [73%N] 2 [(fy, SStr [q]); (fx, SInt true W32 p)].
(* the same record through a SerializeMap with split key / value calls *)
Definition inner3 (p : Z) (q : N) : sval :=
  SMap None [(Some (SStr fy), None); (None, Some (SStr [q])); (Some (SStr fx), Some (SInt true W32 p))].

Definition v1 : sval :=
  SStruct [82%N] 5
    [(fa, SInt true W32 1);
     (fi, inner1 2 65);
     (fr, SSeq (Some 2%N) [inner1 3 66; inner1 4 67]);
     (fm, SMap (Some 1%N) [(Some (SStr [107%N]), Some (inner1 5 68))]);
     (fu, SSome (inner1 6 69))].
Definition v2 : sval :=
  SStruct [82%N] 5
    [(fu, SSome (inner2 6 69));
     (fm, SMap (Some 1%N) [(Some (SStr [107%N]), Some (inner3 5 68))]);
     (fr, SSeq (Some 2%N) [inner2 3 66; inner1 4 67]);
     (fi, inner3 2 65);
     (fa, SInt true W32 1)].

Lemma nodupI : NoDup (map fst fieldsI).
Proof. nodup_tac. Qed.
Lemma nodupR : NoDup (map fst fieldsR).
Proof. nodup_tac. Qed.

(* at the record node I, and at the union [null, I] (selected by the struct name) *)
Lemma inner12 n w p q : route Sc n (Some [73%N]) = Some (w, FRecord nI fieldsI) ->
  perm_equiv Sc n (inner1 p q) (inner2 p q).
Proof.
  intro Hr. eapply pe_record with (ps' := [(fy, SStr [q]); (fx, SInt true W32 p)]).
  - apply pr_struct.
  - apply pr_struct.
  - exact Hr.
  - exact Hr.
  - apply nodupI.
  - apply perm_swap.
  - apply pe_fields_refl.
Qed.
Lemma inner13 p q : perm_equiv Sc (FRecord nI fieldsI) (inner1 p q) (inner3 p q).
Proof.
  eapply pe_record with (ps' := [(fy, SStr [q]); (fx, SInt true W32 p)]) (on2 := None).
  - apply pr_struct.
  - apply (pr_map None [(true, (fy, SStr [q])); (false, (fx, SInt true W32 p))]).
  - reflexivity.
  - reflexivity.
  - apply nodupI.
  - apply perm_swap.
  - apply pe_fields_refl.
Qed.

Example nested_equiv : perm_equiv Sc (FRecord nR fieldsR) v1 v2.
Proof.
  unfold v1, v2.
  eapply pe_record with (on1 := Some [82%N]) (on2 := Some [82%N]) (w := []);
    [apply pr_struct|apply pr_struct|reflexivity|reflexivity|apply nodupR|apply Permutation_rev|].
  cbn [rev app].
  eapply pef_cons_at; [apply nodupR|cbn; auto 10|reflexivity| |].
  { apply pe_some. apply inner12 with (w := [2%N]). reflexivity. }
  eapply pef_cons_at; [apply nodupR|cbn; auto 10|reflexivity| |].
  { eapply pe_map_values; [reflexivity|reflexivity|]. apply pec_value; [apply inner13|apply pec_nil]. }
  eapply pef_cons_at; [apply nodupR|cbn; auto 10|reflexivity| |].
  { eapply pe_seq; [reflexivity|reflexivity|].
    apply pel_cons; [apply inner12 with (w := []); reflexivity|apply pe_list_refl]. }
  eapply pef_cons_at; [apply nodupR|cbn; auto 10|reflexivity| |].
  { apply inner13. }
  apply pe_fields_refl.
Qed.

Example nested_bytes :
  to_datum Sc false v1 =
    Ok [2; 4; 2; 65; 4; 6; 2; 66; 8; 2; 67; 0; 2; 2; 107; 10; 2; 68; 0; 2; 12; 2; 69]%N /\
  to_datum Sc false v2 = to_datum Sc false v1.
Proof. vm_compute. split; reflexivity. Qed.
End Ex.

Module Ex2.
Import Ex.
(* [null, I] with I = record { x: int, y: string } *)
Definition Sc2 : fschema := [FUnion [1; 2]; FNull; FRecord nI [(fx, 3); (fy, 4)]; FInt; FString].
Definition px : bytes * sval := (fx, SInt true W32 7).
Definition py : bytes * sval := (fy, SStr [65%N]).

(* (a) split key / value calls on the record node *)
Definition Sc1 : fschema := [FRecord nI [(fx, 1); (fy, 2)]; FInt; FString].
Example split_example :
  to_datum Sc1 false (SStruct [73%N] 2 [px; py]) = Ok [14; 2; 65]%N /\
  to_datum Sc1 false (SMap None (split_calls [py; px])) = Ok [14; 2; 65]%N /\
  split_calls [py; px] =
    [(Some (SStr fy), None); (None, Some (SStr [65%N])); (Some (SStr fx), None); (None, Some (SInt true W32 7))].
Proof. vm_compute. repeat split. Qed.

Example split_example_thm : forall st, pool_ok st ->
  outcome_eq (ser Sc1 (FRecord nI [(fx, 1); (fy, 2)]) (SStruct [73%N] 2 [px; py]) st)
             (ser Sc1 (FRecord nI [(fx, 1); (fy, 2)]) (SMap None (split_calls [py; px])) st).
Proof.
  intros st Hp. apply record_order_independent_split; auto; nodup_tac.
Qed.

(* (b) through the union: by name, by type, as a map, as a newtype variant *)
Example union_example :
  to_datum Sc2 false (SStruct [73%N] 2 [px; py]) = Ok [2; 14; 2; 65]%N /\
  to_datum Sc2 false (SStruct [73%N] 2 [py; px]) = Ok [2; 14; 2; 65]%N /\
  to_datum Sc2 false (SStruct [90%N] 2 [py; px]) = Ok [2; 14; 2; 65]%N /\
  to_datum Sc2 false (SMap None (split_calls [py; px])) = Ok [2; 14; 2; 65]%N /\
  to_datum Sc2 false (SMap (Some 2%N) (entries [py; px])) = Ok [2; 14; 2; 65]%N /\
  to_datum Sc2 false (SNewtypeVariant [69%N] 1 [73%N] (SStruct [] 2 [py; px])) = Ok [2; 14; 2; 65]%N /\
  to_datum Sc2 false (SStructVariant [69%N] 1 [73%N] 2 [py; px]) = Ok [2; 14; 2; 65]%N.
Proof. vm_compute. repeat split. Qed.

(* a struct variant selecting the branch by its variant name against a split map presentation
   selecting it by type: the general (routed) theorem *)
Example union_variant_vs_map_thm : forall st, pool_ok st ->
  outcome_eq (ser Sc2 (FUnion [1; 2]) (SStructVariant [69%N] 1 [73%N] 2 [px; py]) st)
             (ser Sc2 (FUnion [1; 2]) (SMap None (split_calls [py; px])) st).
Proof.
  intros st Hp.
  eapply record_order_independent_routed with (ps' := [py; px]) (rn := nI) (fields := [(fx, 3); (fy, 4)]) (w := [2%N]).
  - apply pr_struct_variant.
  - apply (pr_map None [(true, py); (true, px)]).
  - reflexivity.
  - reflexivity.
  - nodup_tac.
  - apply perm_swap.
  - apply pe_fields_refl.
  - exact Hp.
Qed.

Example union_named_thm : forall st, pool_ok st ->
  outcome_eq (ser Sc2 (FUnion [1; 2]) (SStruct [73%N] 2 [px; py]) st)
             (ser Sc2 (FUnion [1; 2]) (SStruct [73%N] 2 [py; px]) st).
Proof.
  intros st Hp.
  apply record_order_independent_union_named with (d := 1%Z) (k := 2) (rn := nI) (fields := [(fx, 3); (fy, 4)]);
    auto; nodup_tac.
Qed.
Example union_typed_thm : forall st, pool_ok st ->
  outcome_eq (ser Sc2 (FUnion [1; 2]) (SStruct [90%N] 2 [px; py]) st)
             (ser Sc2 (FUnion [1; 2]) (SStruct [89%N] 2 [py; px]) st).
Proof.
  intros st Hp.
  apply record_order_independent_union_typed with (d := 1%Z) (k := 2) (rn := nI) (fields := [(fx, 3); (fy, 4)]);
    auto; nodup_tac.
Qed.
Example union_map_thm : forall st, pool_ok st ->
  outcome_eq (ser Sc2 (FUnion [1; 2]) (SMap None (split_calls [px; py])) st)
             (ser Sc2 (FUnion [1; 2]) (SMap (Some 2%N) (mk_calls [(false, py); (true, px)])) st).
Proof.
  intros st Hp.
  apply record_order_independent_union_map with (d := 1%Z) (k := 2) (rn := nI) (fields := [(fx, 3); (fy, 4)]);
    auto; nodup_tac.
Qed.
Example union_newtype_thm : forall st, pool_ok st ->
  outcome_eq (ser Sc2 (FUnion [1; 2]) (SNewtypeVariant [69%N] 1 [73%N] (SStruct [] 2 [px; py])) st)
             (ser Sc2 (FUnion [1; 2]) (SNewtypeVariant [69%N] 1 [73%N] (SStruct [] 2 [py; px])) st).
Proof.
  intros st Hp.
  apply record_order_independent_newtype_variant with (d := 1%Z) (k := 2) (rn := nI) (fields := [(fx, 3); (fy, 4)]);
    auto; nodup_tac.
Qed.
End Ex2.

(* a struct presented to a duration node, fields in any order *)
Example duration_example :
  let Sc := [FDuration] in
  let mo := (MONTHS, SInt false W32 1) in
  let da := (DAYS, SInt false W32 2) in
  let ms := (MILLISECONDS, SInt false W32 3) in
  perm_equiv Sc FDuration (SStruct [] 3 [mo; da; ms]) (SStruct [] 3 [ms; mo; da]) /\
  to_datum Sc false (SStruct [] 3 [mo; da; ms]) = Ok [1; 0; 0; 0; 2; 0; 0; 0; 3; 0; 0; 0]%N /\
  to_datum Sc false (SStruct [] 3 [ms; mo; da]) = Ok [1; 0; 0; 0; 2; 0; 0; 0; 3; 0; 0; 0]%N.
Proof.
  cbv zeta. split; [|vm_compute; split; reflexivity].
  eapply pe_struct_duration; [apply pr_struct|apply pr_struct|reflexivity|reflexivity|].
  eapply perm_trans; [apply perm_skip, perm_swap|apply perm_swap].
Qed.

(* a bounded sink: 4 bytes are needed *)
Example bounded_sink_example :
  let st b := mkS [] (Some b) [] [] false in
  let v1 := SStruct [73%N] 2 [Ex2.px; Ex2.py] in
  let v2 := SMap None (split_calls [Ex2.py; Ex2.px]) in
  fst (ser Ex2.Sc2 (FUnion [1; 2]) v1 (st 3%N)) = Err EIo /\
  fst (ser Ex2.Sc2 (FUnion [1; 2]) v2 (st 3%N)) = Err EIo /\
  (let (r, t) := ser Ex2.Sc2 (FUnion [1; 2]) v1 (st 4%N) in (r, s_out t, s_budget t)) = (Ok tt, [2; 14; 2; 65]%N, Some 0%N) /\
  (let (r, t) := ser Ex2.Sc2 (FUnion [1; 2]) v2 (st 4%N) in (r, s_out t, s_budget t)) = (Ok tt, [2; 14; 2; 65]%N, Some 0%N).
Proof. vm_compute. repeat split. Qed.

(* a name presented twice *)
Example duplicate_example :
  let Sc := Ex2.Sc1 in
  to_datum Sc false (SStruct [] 3 [Ex2.px; Ex2.py; Ex2.px]) = Err EData /\
  to_datum Sc false (SStruct [] 3 [Ex2.py; Ex2.px; Ex2.px]) = Err EData /\
  to_datum Sc false (SStruct [] 3 [Ex2.px; Ex2.px; Ex2.py]) = Err EData.
Proof. vm_compute. repeat split. Qed.

(** counterexamples *)
(* the untyped formulation (permute the fields of any struct presentation) is false: on a MAP
   node the order of presentation is the order of the bytes *)
Example perm_on_map_refuted :
  let Sc := [FMap 1; FInt] in
  let a := ([97%N], SInt true W32 1) in
  let b := ([98%N], SInt true W32 2) in
  NoDup (map fst [a; b]) /\ Permutation [a; b] [b; a] /\
  to_datum Sc false (SStruct [] 2 [a; b]) = Ok [4; 2; 97; 2; 2; 98; 4; 0]%N /\
  to_datum Sc false (SStruct [] 2 [b; a]) = Ok [4; 2; 98; 4; 2; 97; 2; 0]%N /\
  ~ outcome_eq (ser Sc (FMap 1) (SStruct [] 2 [a; b]) (st0 false))
               (ser Sc (FMap 1) (SStruct [] 2 [b; a]) (st0 false)).
Proof.
  cbv zeta. split; [nodup_tac|]. split; [apply perm_swap|]. split; [vm_compute; reflexivity|].
  split; [vm_compute; reflexivity|]. vm_compute. intros [(_ & _ & E)|(N1 & _)]; [discriminate|now apply N1].
Qed.

(* the schema's field names must be distinct: record { x: int, a: int, a: [null, int] } *)
Example perm_dup_schema_refuted :
  let fields := [([120%N], 1); ([97%N], 1); ([97%N], 2)] in
  let Sc := [FRecord (mkName [] None) fields; FInt; FUnion [3; 1]; FNull] in
  let a := ([97%N], SInt true W32 1) in
  let x := ([120%N], SInt true W32 0) in
  NoDup (map fst [a; x]) /\ Permutation [a; x] [x; a] /\
  to_datum Sc false (SStruct [] 2 [x; a]) = Ok [0; 2; 0]%N /\
  to_datum Sc false (SStruct [] 2 [a; x]) = Err EData.
Proof. cbv zeta. split; [nodup_tac|]. split; [apply perm_swap|]. vm_compute. split; reflexivity. Qed.

(* the pools must hold empty buffers: the in-order presentation never takes a buffer, the
   out-of-order one does and trips the assertion *)
Example perm_pool_refuted :
  let fields := [([120%N], 1); ([121%N], 1)] in
  let Sc := [FRecord (mkName [] None) fields; FInt] in
  let x := ([120%N], SInt true W32 0) in
  let y := ([121%N], SInt true W32 1) in
  let st := mkS [] None [([1%N], true)] [] false in
  fst (ser Sc (FRecord (mkName [] None) fields) (SStruct [] 2 [x; y]) st) = Ok tt /\
  fst (ser Sc (FRecord (mkName [] None) fields) (SStruct [] 2 [y; x]) st) = Panic PPoolAssert.
Proof. vm_compute. split; reflexivity. Qed.

(* [outcome_eq] cannot be strengthened to equal results: two orders may fail differently (here a
   panic of the serde-protocol-violating inner value against a data error) *)
Example perm_failure_kinds_differ :
  let fields := [([120%N], 0); ([121%N], 1)] in
  let Sc := [FRecord (mkName [] None) fields; FInt] in
  let x := ([120%N], SMap None [(None, Some SUnit)]) in
  let y := ([121%N], SStr [65%N]) in
  fst (ser Sc (FRecord (mkName [] None) fields) (SStruct [] 2 [x; y]) (st0 false)) = Panic PSerKeyBeforeValue /\
  fst (ser Sc (FRecord (mkName [] None) fields) (SStruct [] 2 [y; x]) (st0 false)) = Err EData.
Proof. vm_compute. split; reflexivity. Qed.

(** * C13_perm-style statements (cf. props/C13.v) *)

(* (c) nested: presentations that differ by the order of the fields of record presentations
   anywhere inside *)
Theorem C13_perm_nested : forall Sc n v1 v2 st,
  perm_equiv Sc n v1 v2 -> pool_ok st ->
  outcome_eq (ser Sc n v1 st) (ser Sc n v2 st).
Proof. exact perm_equiv_ser_any_sink. Qed.

(* (a) a SerializeMap with serialize_key / serialize_value (or serialize_entry) calls *)
Theorem C13_perm_split : forall Sc nm fields sname len1 len2 ps1 ps2 st,
  NoDup (map fst fields) -> Permutation ps1 ps2 ->
  pool_ok st ->
  outcome_eq (ser Sc (FRecord nm fields) (SStruct sname len1 ps1) st)
             (ser Sc (FRecord nm fields) (SMap len2 (split_calls ps2)) st).
Proof. exact record_order_independent_split. Qed.
Theorem C13_perm_calls : forall Sc nm fields len1 len2 fps1 fps2 st,
  NoDup (map fst fields) ->
  Permutation (map snd fps1) (map snd fps2) ->
  pool_ok st ->
  outcome_eq (ser Sc (FRecord nm fields) (SMap len1 (mk_calls fps1)) st)
             (ser Sc (FRecord nm fields) (SMap len2 (mk_calls fps2)) st).
Proof. exact record_order_independent_calls. Qed.

(* (b) the record reached through a union: by name, by type *)
Theorem C13_perm_union_named : forall Sc ks sname d k rn fields len1 len2 ps1 ps2 st,
  union_named Sc ks sname = Some (d, k) -> fnode_at Sc k = Some (FRecord rn fields) ->
  NoDup (map fst fields) -> Permutation ps1 ps2 ->
  pool_ok st ->
  outcome_eq (ser Sc (FUnion ks) (SStruct sname len1 ps1) st)
             (ser Sc (FUnion ks) (SStruct sname len2 ps2) st).
Proof. exact record_order_independent_union_named. Qed.
Theorem C13_perm_union_typed : forall Sc ks sname1 sname2 d k rn fields len1 len2 ps1 ps2 st,
  union_named Sc ks sname1 = None -> union_named Sc ks sname2 = None ->
  union_unnamed Sc ks KStructOrMap = Some (d, k) -> fnode_at Sc k = Some (FRecord rn fields) ->
  NoDup (map fst fields) -> Permutation ps1 ps2 ->
  pool_ok st ->
  outcome_eq (ser Sc (FUnion ks) (SStruct sname1 len1 ps1) st)
             (ser Sc (FUnion ks) (SStruct sname2 len2 ps2) st).
Proof. exact record_order_independent_union_typed. Qed.

Print Assumptions perm_equiv_sound.
Print Assumptions perm_equiv_ser.
Print Assumptions perm_equiv_ser2.
Print Assumptions perm_equiv_to_datum.
Print Assumptions ser_BP.
Print Assumptions ser_bounded_sink.
Print Assumptions perm_equiv_ser_any_sink.
Print Assumptions perm_equiv_ser2_any_sink.
Print Assumptions record_order_independent_routed.
Print Assumptions record_order_independent_any.
Print Assumptions record_duplicate_field_fails.
Print Assumptions ser_routed_record.
Print Assumptions record_order_independent_calls.
Print Assumptions record_order_independent_struct_calls.
Print Assumptions record_order_independent_split.
Print Assumptions record_order_independent_split_split.
Print Assumptions record_order_independent_union_named.
Print Assumptions record_order_independent_union_typed.
Print Assumptions record_order_independent_union_map.
Print Assumptions record_order_independent_newtype_variant.
Print Assumptions C13_perm_nested.
Print Assumptions C13_perm_split.
Print Assumptions C13_perm_calls.
Print Assumptions C13_perm_union_named.
Print Assumptions C13_perm_union_typed.
Print Assumptions Ex.nested_equiv.
Print Assumptions Ex.nested_bytes.
Print Assumptions perm_on_map_refuted.
Print Assumptions perm_dup_schema_refuted.
Print Assumptions perm_pool_refuted.
Print Assumptions perm_failure_kinds_differ.
