(** C03 -- decoder SOUNDNESS: an Ok result is never a fabricated value; malformed input is rejected.

    This file collects the statements (proved in DeSoundBase / DeSoundMain / DeSoundReject), the
    witnesses for the hypotheses and for the exact gap between the Avro specification's encoding and
    what the decoder accepts, and vm_compute examples.

    SOUNDNESS (any reader mode, any fuel / depth / favor / force_any, NO schema hypothesis):
      [C03_sound]          Ok d  ==>  d is [dval_any] of a value that [conforms] to the node
      [C03_sound_bytes]    ... and the consumed prefix is a relaxed encoding [valid_enc_relaxed] of it
      [C03_sound_datum]    the same for the entry point [de_datum]
      [C03_sound_needs_byte_input]   the one hypothesis (input elements < 256) is necessary
    THE RELAXATION, exactly (each with an accepted witness):
      over-long varints ([overlong_*]), unchecked byte size after a negative block count
      ([block_size_unchecked]), decimals with any sign extension including none at all
      ([empty_decimal_accepted]).  Nothing else: [venc] is otherwise the specification's grammar, and
      every canonical long is a relaxed long ([rlong_spec_long]).
    REJECTION: [C03_reject] (general) and the directly usable lemmas of DeSoundReject.v, each
      instantiated below on concrete inputs in slice and in chunked mode. *)
From Coq Require Import NArith ZArith List Lia Bool.
From Coq Require Import ZifyN ZifyBool ZifyNat.
Require Import Base Kinds Schema Varint Utf8 Sval Target Reader Text De.
Require Import AvroValue Encoding Denote Wf VarintProofs DeProofs ReaderProofs DeSafetyProofs.
Require Import DS5 DeSoundBase DeSoundMain DeSoundReject.
Import ListNotations.
Open Scope N_scope.
Notation length := List.length (only parsing).

(* ------------------------------------------------------------------ *)
(** * 1. Soundness *)

Theorem C03_sound : forall Sc cfg fuel n depth rs d rs',
  bytes_okb (rd_inp rs) = true ->
  de Sc cfg fuel n depth false false TAny rs = (Ok d, rs') ->
  exists v, conforms Sc n v = true /\ erase_borrow d = dval_any Sc n v.
Proof. exact de_any_sound. Qed.

Theorem C03_sound_bytes : forall Sc cfg fuel n depth favor force rs d rs',
  bytes_okb (rd_inp rs) = true ->
  de Sc cfg fuel n depth favor force TAny rs = (Ok d, rs') ->
  exists v pre,
    rd_inp rs = pre ++ rd_inp rs' /\
    conforms Sc n v = true /\
    erase_borrow d = dval_any Sc n v /\
    valid_enc_relaxed Sc n v pre.
Proof. exact de_any_sound_bytes. Qed.

Theorem C03_sound_datum : forall fuel Sc cfg rs d left,
  bytes_okb (rd_inp rs) = true ->
  de_datum fuel Sc cfg TAny rs = Ok (d, left) ->
  exists root v pre,
    fnode_at Sc 0 = Some root /\ conforms Sc root v = true /\
    erase_borrow d = dval_any Sc root v /\ valid_enc_relaxed Sc root v pre /\
    N.of_nat (length (rd_inp rs)) = N.of_nat (length pre) + left /\
    firstn (length pre) (rd_inp rs) = pre.
Proof. exact de_datum_any_sound. Qed.

(** The hypothesis on the input cannot be dropped, even for a well-formed schema: the model's byte
    type is N, and a "byte" 300 would be delivered as such, which no conforming value denotes. *)
Theorem C03_sound_needs_byte_input :
  ~ (forall Sc cfg fuel n depth rs d rs',
       schema_wf Sc = true -> node_wf Sc n = true ->
       de Sc cfg fuel n depth false false TAny rs = (Ok d, rs') ->
       exists v, conforms Sc n v = true /\ erase_borrow d = dval_any Sc n v).
Proof.
  intro H.
  destruct (H [FBytes] cfg_default 5%nat FBytes 5%nat (slice_reader [2; 300])
              (DBBytes 1 1 [300]) (mkRd [] 2 None 0) eq_refl eq_refl
              ltac:(vm_compute; reflexivity)) as (v & Hc & He).
  destruct v; try discriminate Hc.
  cbn in He. injection He as <-. vm_compute in Hc. discriminate Hc.
Qed.

(* ------------------------------------------------------------------ *)
(** * 2. Rejection, general form *)

Theorem C03_reject : forall Sc cfg fuel n depth favor force rs,
  schema_wf Sc = true -> In n Sc -> c_max_seq cfg < 2 ^ 64 - 1 ->
  (work_bound Sc cfg depth (blen (rd_inp rs)) <= fuel)%nat ->
  bytes_okb (rd_inp rs) = true ->
  (forall v pre rest, rd_inp rs = pre ++ rest -> conforms Sc n v = true -> ~ valid_enc_relaxed Sc n v pre) ->
  exists e, fst (de Sc cfg fuel n depth favor force TAny rs) = Err e.
Proof. exact de_any_reject. Qed.

(* ------------------------------------------------------------------ *)
(** * 3. What the relaxation is *)

(** the specification's own (shortest) long is a relaxed long *)
Theorem rlong_spec_long : forall z, (I64_MIN <= z <= I64_MAX)%Z -> rlong z (spec_long z).
Proof.
  intros z Hz. rewrite spec_long_is_encode_long by exact Hz.
  unfold encode_long, encode_i64, rlong. change (spec_zigzag z) with (zigzag z).
  pose proof (zigzag_range z Hz) as Hr.
  pose proof (decode_encode_u64 (zigzag z) [] Hr) as D. rewrite app_nil_r in D.
  assert (Hok : bytes_okb (encode_u64 (zigzag z)) = true).
  { apply bytes_okb_Forall. apply encode_u64_bytes_ok. exact Hr. }
  pose proof (decode_u64_rvarint _ _ _ Hok D) as R.
  rewrite Nat2N.id, firstn_all in R. exact R.
Qed.

(** every encoding the specification allows (within the documented limits, i.e. under the hypotheses
    of the completeness theorem C03_complete) is a relaxed encoding of a conforming value with the
    same reading: the relaxed grammar contains the specification's.  Obtained by composing
    completeness with soundness. *)
Theorem spec_encoding_is_relaxed : forall Sc cfg e n,
  schema_wf Sc = true -> conforms Sc n (erase e) = true -> layout_ok e = true ->
  within_limits Sc cfg n e = true -> counts_fit e = true ->
  (Z.of_nat (length (encode_e Sc n e)) <= I64_MAX)%Z ->
  bytes_okb (encode_e Sc n e) = true ->
  exists v', conforms Sc n v' = true /\ dval_any Sc n v' = dval_any Sc n (erase e) /\
             valid_enc_relaxed Sc n v' (encode_e Sc n e).
Proof.
  intros Sc cfg e n Hwf Hc Hl Hw Hcf Hlen Hok.
  destruct (de_any_complete_bounded Sc cfg e n [] 0 0 (de_fuel e) (depth_cost e)
              Hwf Hc Hl Hw (le_n _) (le_n _) Hcf Hlen) as (d & Hde & Hd).
  assert (Hok' : bytes_okb (rd_inp (mkRd (encode_e Sc n e ++ []) 0 None 0)) = true).
  { cbn [rd_inp]. rewrite app_nil_r. exact Hok. }
  destruct (de_any_sound_bytes _ _ _ _ _ _ _ _ _ _ Hok' Hde) as (v & pre & Hp & Hcv & Hev & Hv).
  cbn [rd_inp] in Hp. apply app_inv_tail in Hp. subst pre.
  exists v. split; [exact Hcv|]. split; [|exact Hv]. rewrite <- Hev. exact Hd.
Qed.

(** over-long varints: 1 written on three bytes *)
Example overlong_long_accepted :
  de [FLong] cfg_default 3 FLong 3 false false TAny (slice_reader [130; 128; 0; 77])
    = (Ok (DInt true W64 1), mkRd [77] 3 None 0)
  /\ valid_enc_relaxed [FLong] FLong (ALong 1) [130; 128; 0]
  /\ spec_long 1 = [2].
Proof.
  split; [vm_compute; reflexivity|]. split; [|vm_compute; reflexivity].
  apply VE_long; [reflexivity|]. split; vm_compute; reflexivity.
Qed.

(** a non-trivial input: an array of strings, every count / length / terminator over-long, read
    identically by the slice reader and by a reader that delivers one byte at a time *)
Example overlong_array_accepted :
  let Sc := [FArray 1%nat; FString] in
  let inp := [132; 128; 0;          (* count 2 on three bytes *)
              132; 0; 104; 105;     (* length 2 on two bytes, "hi" *)
              128; 128; 128; 0;     (* length 0 on four bytes, "" *)
              128; 128; 128; 128; 128; 128; 128; 128; 128; 0] in   (* end marker on ten bytes *)
  fst (de Sc cfg_default 20 (FArray 1%nat) 5 false false TAny (slice_reader inp))
    = Ok (DSeq [DBStr 5 2 [104; 105]; DBStr 11 0 []])
  /\ rd_inp (snd (de Sc cfg_default 20 (FArray 1%nat) 5 false false TAny (slice_reader inp))) = []
  /\ fst (de Sc cfg_default 20 (FArray 1%nat) 5 false false TAny (chunked_reader inp [1] 100))
    = Ok (DSeq [DStr [104; 105]; DStr []])
  /\ spec_encode Sc (FArray 1%nat) (AArray [AString [104; 105]; AString []]) = [4; 4; 104; 105; 0; 0].
Proof. vm_compute. repeat split; reflexivity. Qed.

(** the longest accepted form: ten bytes, the tenth being 0 or 1; anything longer is rejected *)
Example overlong_ten_bytes :
  fst (de [FLong] cfg_default 3 FLong 3 false false TAny
         (slice_reader [255; 255; 255; 255; 255; 255; 255; 255; 255; 1])) = Ok (DInt true W64 I64_MIN)
  /\ fst (de [FLong] cfg_default 3 FLong 3 false false TAny
         (slice_reader [255; 255; 255; 255; 255; 255; 255; 255; 255; 2])) = Err EData
  /\ fst (de [FLong] cfg_default 3 FLong 3 false false TAny
         (slice_reader [128; 128; 128; 128; 128; 128; 128; 128; 128; 128; 0])) = Err EData.
Proof. vm_compute. repeat split; reflexivity. Qed.

(** the byte size after a negative block count is not compared with anything
    (here: 200 for a block of one byte); the specification writes the real size *)
Example block_size_unchecked :
  let Sc := [FArray 1%nat; FLong] in
  fst (de Sc cfg_default 20 (FArray 1%nat) 5 false false TAny (slice_reader [1; 144; 3; 4; 0]))
    = Ok (DSeq [DInt true W64 2])
  /\ encode_e Sc (FArray 1%nat) (EArray [(true, [ELong 2])]) = [1; 2; 4; 0].
Proof. vm_compute. repeat split; reflexivity. Qed.

(** a bytes-decimal of zero bytes reads as 0; the specification's shortest form has one byte *)
Example empty_decimal_accepted :
  let Sc := [FDecimal 5 2 None] in
  fst (de Sc cfg_default 3 (FDecimal 5 2 None) 3 false false TAny (slice_reader [0]))
    = Ok (DStr [48; 46; 48; 48])                                 (* "0.00" *)
  /\ spec_encode Sc (FDecimal 5 2 None) (ADecimal 0) = [2; 0]
  /\ valid_enc_relaxed Sc (FDecimal 5 2 None) (ADecimal 0) [0].
Proof.
  split; [vm_compute; reflexivity|]. split; [vm_compute; reflexivity|].
  apply (VE_decimal_bytes _ 5 2 0%Z [] [0]).
  - split; reflexivity.
  - split; vm_compute; reflexivity.
Qed.

(* ------------------------------------------------------------------ *)
(** * 4. The five rejections on concrete inputs (slice mode and one-byte-at-a-time chunked mode) *)

Definition both (Sc : fschema) (n : fnode) (inp : bytes) : result dval * result dval :=
  (fst (de Sc cfg_default 30 n 5 false false TAny (slice_reader inp)),
   fst (de Sc cfg_default 30 n 5 false false TAny (chunked_reader inp [1] 100))).

(* boolean byte other than 0/1 *)
Example reject_bool : both [FBoolean] FBoolean [2] = (Err EData, Err EData)
  /\ both [FBoolean] FBoolean [255] = (Err EData, Err EData)
  /\ both [FBoolean] FBoolean [1] = (Ok (DBool true), Ok (DBool true)).
Proof. vm_compute. repeat split; reflexivity. Qed.

(* invalid UTF-8: a lone continuation byte, an overlong "/" (C0 AF), a surrogate (ED A0 80) *)
Example reject_utf8 :
  both [FString] FString [2; 128] = (Err EData, Err EData)
  /\ both [FString] FString [4; 192; 175] = (Err EData, Err EData)
  /\ both [FString] FString [6; 237; 160; 128] = (Err EData, Err EData)
  /\ both [FUuid] FUuid [2; 255] = (Err EData, Err EData)
  /\ both [FMap 1%nat; FLong] (FMap 1%nat) [2; 2; 255; 2; 0] = (Err EData, Err EData)  (* map key *)
  /\ both [FMap 1%nat; FLong] (FMap 1%nat) [2; 2; 97; 2; 0] =
       (Ok (DMap [(DBStr 2 1 [97], DInt true W64 1)]), Ok (DMap [(DStr [97], DInt true W64 1)])).
Proof. vm_compute. repeat split; reflexivity. Qed.

(* union / enum index outside the schema *)
Example reject_index :
  let U := [FUnion [1; 2]%nat; FNull; FLong] in
  let E := [FEnum (mkName [69] None) [[97]; [98]]] in
  both U (FUnion [1; 2]%nat) [4] = (Err EData, Err EData)            (* index 2 of 2 *)
  /\ both U (FUnion [1; 2]%nat) [1] = (Err EData, Err EData)         (* index -1 *)
  /\ both U (FUnion [1; 2]%nat) [2; 6] = (Ok (DInt true W64 3), Ok (DInt true W64 3))
  /\ both E (FEnum (mkName [69] None) [[97]; [98]]) [4] = (Err EData, Err EData)
  /\ both E (FEnum (mkName [69] None) [[97]; [98]]) [1] = (Err EData, Err EData)
  /\ both E (FEnum (mkName [69] None) [[97]; [98]]) [2] = (Ok (DStr [98]), Ok (DStr [98])).
Proof. vm_compute. repeat split; reflexivity. Qed.

(* negative lengths *)
Example reject_negative_length :
  both [FBytes] FBytes [1] = (Err EData, Err EData)
  /\ both [FString] FString [3; 97; 98] = (Err EData, Err EData)
  /\ both [FDecimal 5 2 None] (FDecimal 5 2 None) [1] = (Err EData, Err EData)
  /\ both [FBigDecimal] FBigDecimal [1] = (Err EData, Err EData).
Proof. vm_compute. repeat split; reflexivity. Qed.

(* premature end of input (the chunked reader reports it as an I/O error: UnexpectedEof) *)
Example reject_truncated :
  both [FBytes] FBytes [6; 1; 2] = (Err EData, Err EIo)
  /\ both [FFixed (mkName [70] None) 4] (FFixed (mkName [70] None) 4) [1; 2; 3] = (Err EData, Err EIo)
  /\ both [FFloat] FFloat [1; 2; 3] = (Err EIo, Err EIo)
  /\ both [FDouble] FDouble [1; 2; 3; 4; 5; 6; 7] = (Err EIo, Err EIo)
  /\ both [FLong] FLong [128; 128] = (Err EData, Err EIo)
  /\ both [FLong] FLong [] = (Err EData, Err EIo)
  /\ both [FBoolean] FBoolean [] = (Err EData, Err EIo)
  /\ both [FArray 1%nat; FLong] (FArray 1%nat) [4; 2] = (Err EData, Err EIo)      (* inside an array *)
  /\ both [FRecord (mkName [82] None) [([97], 1%nat); ([98], 1%nat)]; FLong]
          (FRecord (mkName [82] None) [([97], 1%nat); ([98], 1%nat)]) [2] = (Err EData, Err EIo).
Proof. vm_compute. repeat split; reflexivity. Qed.

(** the lemmas of DeSoundReject.v apply to such inputs (here: the directly usable form) *)
Example reject_lemmas_apply :
  is_err (de [FBoolean] cfg_default 1 FBoolean 0 false false TAny (slice_reader [7]))
  /\ is_err (de [FString] cfg_default 1 FString 0 false false TAny (chunked_reader [2; 128] [1] 10))
  /\ is_err (de [FUnion [0; 0]%nat] cfg_default 1 (FUnion [0; 0]%nat) 9 false false TAny (slice_reader [4]))
  /\ is_err (de [FBytes] cfg_default 1 FBytes 0 false false TAny (slice_reader [1]))
  /\ is_err (de [FBytes] cfg_default 1 FBytes 0 false false TAny (slice_reader [6; 1; 2]))
  /\ is_err (de [FLong] cfg_default 1 FLong 0 false false TAny (slice_reader [128; 128])).
Proof.
  repeat split.
  - eapply de_bool_reject; [reflexivity|]. vm_compute. discriminate.
  - eapply (de_string_bad_utf8 _ _ _ _ _ _ _ _ 1%Z 1); try reflexivity. vm_compute. discriminate.
  - eapply (de_union_index_reject _ _ _ _ _ _ _ _ 2%Z 1); [reflexivity|]. right. vm_compute. discriminate.
  - eapply (de_negative_length_reject _ _ _ _ _ _ _ _ (-1)%Z 1); reflexivity.
  - eapply (de_ld_truncated _ _ _ _ _ _ _ _ 3%Z 1); try reflexivity. vm_compute. discriminate.
  - eapply de_varint_truncated; [reflexivity|].
    apply decode_u64_truncated; [|cbn; lia].
    apply Forall_cons; [lia|]. apply Forall_cons; [lia|]. apply Forall_nil.
Qed.

(* ------------------------------------------------------------------ *)
(** * 5. Typed targets: the scalar fragment

    For every node that is not an array, map, union, record, enum or duration, the natural typed
    target [typed_target] (spec/Denote.v) drives the decoder through exactly the same code as TAny
    (the two calls are EQUAL as functions of the reader state), and [dval_typed] = [dval_any] on
    conforming values; so soundness carries over verbatim.  Avro enums (unit-variant TEnum) and
    durations (TTuple of three u32) are proved separately below.  The recursive typed targets --
    TStruct for records, TEnum/TOption for unions, TSeq, TMap -- are NOT covered here. *)
Definition scalar_node (n : fnode) : bool :=
  match n with
  | FArray _ | FMap _ | FUnion _ | FRecord _ _ | FEnum _ _ | FDuration => false
  | _ => true
  end.

Lemma de_typed_scalar_eq Sc cfg fuel tf n depth favor :
  scalar_node n = true ->
  de Sc cfg fuel n depth favor false (typed_target Sc (S tf) n) = de Sc cfg fuel n depth favor false TAny.
Proof.
  intro Hn. destruct fuel as [|f]; [reflexivity|].
  rewrite !de_unfold. destruct n; try discriminate Hn; cbn [typed_target]; try reflexivity.
  all: destruct repr as [[? ?]|]; reflexivity.
Qed.

Lemma dval_typed_scalar Sc n v : scalar_node n = true -> conforms Sc n v = true ->
  dval_typed Sc n v = dval_any Sc n v.
Proof.
  intros Hn Hc. destruct v; try reflexivity; destruct n; try discriminate Hn; try discriminate Hc.
  all: try (destruct repr as [[? ?]|]; discriminate Hc).
Qed.

Theorem de_typed_sound_scalar : forall Sc cfg fuel tf n depth favor rs d rs',
  scalar_node n = true ->
  bytes_okb (rd_inp rs) = true ->
  de Sc cfg fuel n depth favor false (typed_target Sc (S tf) n) rs = (Ok d, rs') ->
  exists v pre,
    rd_inp rs = pre ++ rd_inp rs' /\
    conforms Sc n v = true /\
    erase_borrow d = dval_typed Sc n v /\
    valid_enc_relaxed Sc n v pre.
Proof.
  intros Sc cfg fuel tf n depth favor rs d rs' Hn Hok H.
  rewrite de_typed_scalar_eq in H by exact Hn.
  destruct (de_any_sound_bytes _ _ _ _ _ _ _ _ _ _ Hok H) as (v & pre & Hp & Hc & He & Hv).
  exists v, pre. rewrite (dval_typed_scalar Sc n v Hn Hc). auto.
Qed.

(** Avro enums read as a Rust unit-variant enum (no hypothesis on the symbols: with duplicate
    symbols the first equal one is reported, which has the same name) *)
Lemma index_of_nth x : forall l i, index_of x l = Some i -> nth_error l i = Some x.
Proof.
  induction l as [|y t IH]; intros i H; [discriminate|].
  cbn [index_of] in H. destruct (bytes_eqb x y) eqn:E.
  - inversion H; subst. apply bytes_eqb_eq in E. subst. reflexivity.
  - destruct (index_of x t) as [j|]; [|discriminate]. inversion H; subst. cbn [nth_error]. apply IH. reflexivity.
Qed.

Lemma map_fst_unit_variants (syms : list bytes) : map fst (map (fun s => (s, TVUnit)) syms) = syms.
Proof. rewrite map_map. cbn [fst]. apply map_id. Qed.

Theorem de_typed_sound_enum : forall Sc cfg fuel tf nm syms depth rs d rs',
  bytes_okb (rd_inp rs) = true ->
  de Sc cfg fuel (FEnum nm syms) depth false false (typed_target Sc (S tf) (FEnum nm syms)) rs = (Ok d, rs') ->
  exists v pre,
    rd_inp rs = pre ++ rd_inp rs' /\
    conforms Sc (FEnum nm syms) v = true /\
    erase_borrow d = dval_typed Sc (FEnum nm syms) v /\
    valid_enc_relaxed Sc (FEnum nm syms) v pre.
Proof.
  intros Sc cfg fuel tf nm syms depth rs d rs' Hok H.
  assert (G : hoare (de Sc cfg fuel (FEnum nm syms) depth false false (typed_target Sc (S tf) (FEnum nm syms)))
                    (fun d pre => exists i, (i < length syms)%nat /\ d = DEnum (nth i syms []) DUnit /\
                                            rlong (Z.of_nat i) pre)).
  { destruct fuel as [|f]; [apply hoare_fail; reflexivity|].
    rewrite de_unfold. cbn [typed_target].
    eapply hoare_bind; [apply hoare_dec_depth|]. intros d' p0 [Hp0 _] _. subst p0.
    destruct f as [|f']; [apply hoare_fail; reflexivity|].
    rewrite de_unfold. unfold de_identifier, de_any. cbn [leaf prim_event].
    eapply hoare_bind with (R := fun key pre => exists i s, nth_error syms i = Some s /\ key = DStr s /\
                                                          rlong (Z.of_nat i) pre).
    - eapply hoare_bind; [apply hoare_read_usize|]. intros disc p1 Hd _.
      destruct (nth_N syms disc) as [s|] eqn:En; [|apply hoare_fail; reflexivity].
      apply nth_N_inv in En. destruct En as [En _].
      apply hoare_ret. rewrite app_nil_r. exists (N.to_nat disc), s.
      split; [exact En|]. split; [reflexivity|]. rewrite N_nat_Z. exact Hd.
    - intros key p1 (i & s & Hi & Hk & Hr) _. subst key. cbn [app].
      unfold de_enum_by_key, enum_idx. cbn [dval_bytes]. rewrite map_fst_unit_variants.
      destruct (index_of s syms) as [j|] eqn:Ej; [|apply hoare_fail; reflexivity].
      pose proof (index_of_nth _ _ _ Ej) as Hj.
      rewrite nth_error_map, Hj. cbn [option_map].
      apply hoare_ret. rewrite app_nil_r. exists i.
      split; [apply nth_error_Some; congruence|]. split; [|exact Hr].
      rewrite (nth_error_nth syms i [] Hi). reflexivity. }
  destruct (G rs d rs' Hok H) as (pre & Hp & i & Hlt & Hd & Hr).
  exists (AEnum i), pre. split; [exact Hp|]. split; [cbn [conforms]; apply Nat.ltb_lt; exact Hlt|].
  split; [subst d; reflexivity|]. apply VE_enum. exact Hr.
Qed.

(** durations read as a (u32, u32, u32) tuple *)
Theorem de_typed_sound_duration : forall Sc cfg fuel tf depth favor rs d rs',
  bytes_okb (rd_inp rs) = true ->
  de Sc cfg fuel FDuration depth favor false (typed_target Sc (S tf) FDuration) rs = (Ok d, rs') ->
  exists v pre,
    rd_inp rs = pre ++ rd_inp rs' /\
    conforms Sc FDuration v = true /\
    erase_borrow d = dval_typed Sc FDuration v /\
    valid_enc_relaxed Sc FDuration v pre.
Proof.
  intros Sc cfg fuel tf depth favor rs d rs' Hok H.
  destruct fuel as [|f]; [discriminate H|].
  rewrite de_unfold in H. cbn [typed_target length Nat.eqb] in H. unfold de_duration_seq in H.
  unfold sbind in H. destruct (read_exact 12 rs) as [[bs| | | |] s1] eqn:E; try discriminate H.
  destruct (hoare_read_exact 12 rs bs s1 Hok E) as (pre & Hp & Hb & Hl). subst pre.
  destruct f as [|f']; [discriminate H|].
  rewrite seq_duration_unfold in H.
  cbn [seq_policy length Nat.ltb Nat.leb combine map fst snd prim_event shape_seq] in H.
  unfold sret in H. inversion H; subst d rs'. clear H.
  assert (L : length bs = 12%nat) by (unfold blen in Hl; lia).
  destruct (okb_split _ _ _ Hok Hp) as [Hok1 _].
  set (b1 := firstn 4 bs) in *. set (b2 := firstn 4 (skipn 4 bs)) in *. set (b3 := skipn 8 bs) in *.
  assert (Hsplit : bs = b1 ++ b2 ++ b3).
  { unfold b1, b2, b3. rewrite <- (firstn_skipn 4 bs) at 1. f_equal.
    rewrite <- (firstn_skipn 4 (skipn 4 bs)) at 1. f_equal. rewrite skipn_skipn'. reflexivity. }
  assert (L1 : length b1 = 4%nat) by (unfold b1; rewrite firstn_length; lia).
  assert (L2 : length b2 = 4%nat) by (unfold b2; rewrite firstn_length, skipn_length; lia).
  assert (L3 : length b3 = 4%nat) by (unfold b3; rewrite skipn_length; lia).
  assert (O1 : bytes_okb b1 = true) by (apply bytes_okb_firstn; exact Hok1).
  assert (O2 : bytes_okb b2 = true) by (apply bytes_okb_firstn, bytes_okb_skipn; exact Hok1).
  assert (O3 : bytes_okb b3 = true) by (apply bytes_okb_skipn; exact Hok1).
  exists (ADuration (le_val b1) (le_val b2) (le_val b3)), bs.
  split; [exact Hp|]. split; [|split; [reflexivity|]].
  - cbn [conforms]. pose proof (le_val_4 _ O1 L1). pose proof (le_val_4 _ O2 L2).
    pose proof (le_val_4 _ O3 L3). apply andb_true_intro; split; [apply andb_true_intro; split|];
      apply N.ltb_lt; assumption.
  - pose proof (VE_duration Sc (le_val b1) (le_val b2) (le_val b3)) as V.
    rewrite <- L1 in V at 1. rewrite <- L2 in V at 1. rewrite <- L3 in V at 1.
    rewrite !spec_le_le_val in V by assumption. rewrite <- Hsplit in V. exact V.
Qed.

(* ------------------------------------------------------------------ *)
Print Assumptions C03_sound.
Print Assumptions C03_sound_bytes.
Print Assumptions C03_sound_datum.
Print Assumptions C03_sound_needs_byte_input.
Print Assumptions C03_reject.
Print Assumptions rlong_spec_long.
Print Assumptions spec_encoding_is_relaxed.
Print Assumptions decode_var_sound.
Print Assumptions twos_repr_signed_be.
Print Assumptions spec_le_le_val.
Print Assumptions de_bool_reject.
Print Assumptions de_bool_truncated.
Print Assumptions de_string_bad_utf8.
Print Assumptions de_map_key_bad_utf8.
Print Assumptions de_union_index_reject.
Print Assumptions de_enum_index_reject.
Print Assumptions de_negative_length_reject.
Print Assumptions de_varint_truncated.
Print Assumptions de_ld_truncated.
Print Assumptions de_fixed_truncated.
Print Assumptions de_float_truncated.
Print Assumptions de_double_truncated.
Print Assumptions de_duration_truncated.
Print Assumptions de_decimal_fixed_truncated.
Print Assumptions decode_u64_truncated.
Print Assumptions reject_lemmas_apply.
Print Assumptions de_typed_sound_scalar.
Print Assumptions de_typed_sound_enum.
Print Assumptions de_typed_sound_duration.
