(** Shared definitions for the proofs about schema JSON regeneration (C09):
    graph edges, unnamed cycles, well-formed graphs, coverings (label preserving
    graph homomorphisms) and finite unfoldings. *)
From Coq Require Import NArith ZArith List Lia Bool Arith String ZifyN ZifyBool ZifyNat Relations.
Import ListNotations.
Require Import Base Schema Text Json Parse SchemaJson CanonicalForm Rabin.
Require Import PcfSpec SchemaTextProofs.
Open Scope N_scope.
Notation length := List.length (only parsing).

Arguments N.eqb : simpl never.
Arguments N.leb : simpl never.
Arguments N.ltb : simpl never.
Arguments N.add : simpl never.

(** * Edges *)
Definition node_children (n : mnode) : list nat :=
  match m_type n with
  | RArray k => [k]
  | RMap k => [k]
  | RUnion ks => ks
  | RRecord _ fs => map snd fs
  | _ => []
  end.

Definition is_unnamed (n : mnode) : bool :=
  match m_type n with RArray _ | RMap _ | RUnion _ => true | _ => false end.

Definition node_name (n : mnode) : option name :=
  match m_type n with RRecord nm _ | REnum nm _ | RFixed nm _ => Some nm | _ => None end.

(* [b] is a child of [a] *)
Definition child (g : schema_mut) (a b : nat) : Prop :=
  exists n, nth_error g a = Some n /\ In b (node_children n).
(* the same, out of an array / map / union node *)
Definition uedge (g : schema_mut) (a b : nat) : Prop :=
  exists n, nth_error g a = Some n /\ is_unnamed n = true /\ In b (node_children n).

Definition reach (g : schema_mut) : nat -> nat -> Prop := clos_refl_trans nat (child g).
(* [k] lies on a cycle that goes through array / map / union nodes only *)
Definition unnamed_cycle (g : schema_mut) (k : nat) : Prop := clos_trans nat (uedge g) k k.

(** * Well-formed graphs *)
(* what the writer needs in order to succeed *)
Record wf_struct (g : schema_mut) : Prop := {
  ws_nonempty : (0 < length g)%nat;
  ws_keys : forall k n, nth_error g k = Some n -> Forall (fun c => (c < length g)%nat) (node_children n);
  ws_union : forall k n ks, nth_error g k = Some n -> m_type n = RUnion ks -> m_logical n = None;
  ws_nocycle : forall k, ~ unnamed_cycle g k
}.

(* a name as the parser builds it: null or non-empty namespace, dot-free simple name that is not
   the name of a type *)
Definition name_valid (nm : name) : Prop :=
  exists ns simple, nm = name_of_key (ns, simple) /\ ns_ok ns /\ has_dot simple = false /\
                    rtype_of_name simple = None.

Definition logical_valid (l : logical) : Prop :=
  match l with
  | LDecimal scale precision => scale <= U32MAX /\ precision <= U64MAX
  | LUnknown s => logical_of (Some s) None None = Ok (Some (LUnknown s))
  | _ => True
  end.
Definition lt_valid (lt : option logical) : Prop :=
  match lt with Some l => logical_valid l | None => True end.

Record wf_graph (g : schema_mut) : Prop := {
  wf_str : wf_struct g;
  wf_names : forall k n nm, nth_error g k = Some n -> node_name n = Some nm -> name_valid nm;
  wf_distinct : forall k1 k2 n1 n2 nm1 nm2,
      nth_error g k1 = Some n1 -> nth_error g k2 = Some n2 ->
      node_name n1 = Some nm1 -> node_name n2 = Some nm2 -> nm_full nm1 = nm_full nm2 -> k1 = k2;
  wf_logical : forall k n, nth_error g k = Some n -> lt_valid (m_logical n);
  wf_size : forall k n nm sz, nth_error g k = Some n -> m_type n = RFixed nm sz -> sz <= U64MAX;
  wf_norec : ~ rec_cycle g
}.

(** * Coverings: [g'] is an unfolding of [g] along [h] *)
Definition relabel (h : nat -> nat) (r : regular) : regular :=
  match r with
  | RArray k => RArray (h k)
  | RMap k => RMap (h k)
  | RUnion ks => RUnion (map h ks)
  | RRecord nm fs => RRecord nm (map (fun f => (fst f, h (snd f))) fs)
  | other => other
  end.

Record cover (h : nat -> nat) (g' g : schema_mut) : Prop := {
  cv_node : forall k' n', nth_error g' k' = Some n' ->
      exists n, nth_error g (h k') = Some n /\ m_type n = relabel h (m_type n') /\
                m_logical n = m_logical n';
  cv_keys : forall k' n', nth_error g' k' = Some n' ->
      Forall (fun c => (c < length g')%nat) (node_children n');
  (* two named nodes of [g'] are never copies of the same node of [g] *)
  cv_inj : forall a b na nb, nth_error g' a = Some na -> nth_error g' b = Some nb ->
      is_named_node na = true -> h a = h b -> a = b;
  cv_root : h O = O
}.

(** * Finite unfoldings (with logical types and their parameters) *)
Inductive utree :=
  | UCut
  | UMissing
  | UNode (ty : regular) (lt : option logical) (children : list utree).

Fixpoint unfold (n : nat) (g : schema_mut) (k : nat) : utree :=
  match n with
  | O => UCut
  | S m =>
      match nth_error g k with
      | None => UMissing
      | Some node =>
          UNode (relabel (fun _ => O) (m_type node)) (m_logical node)
                (map (unfold m g) (node_children node))
      end
  end.
