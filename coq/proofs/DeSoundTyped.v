(** C03 -- decoder soundness for typed targets beyond scalars (partial: collections).

    [typed_target Sc tf n] (spec/Denote.v) is the ordinary Rust data type for a node. DeSoundProofs.v covers
    the scalar nodes, Avro enums and durations. Here: ARRAYS (Vec<T>, TSeq) and MAPS (string-keyed map, TMap)
    nested to any depth over those leaves:

    - [seq_loop_typed], [map_loop_typed]  the visit_seq / visit_map loops for ANY item target whose decode is
                                          sound at every fuel (induction on the loop's own fuel)
    - [de_typed_sound_coll]               Ok d  ==>  d is [dval_typed] of a value that [conforms] to the node,
                                          and the consumed prefix is a relaxed encoding of it -- for every node
                                          that [tcov] covers with the unfolding depth tf of the target
    - [de_typed_sound_coll_datum]         the same for the entry point de_datum
    NOT covered (left open): records as TStruct (struct_loop: needs distinct field names, see
    DS7.de_typed_needs_node_wf), unions as TEnum / TOption. [tcov] is False on them. *)
From Coq Require Import NArith ZArith List Lia Bool.
From Coq Require Import ZifyN ZifyBool ZifyNat.
Require Import Base Kinds Schema Varint Utf8 Sval Target Reader Text De.
Require Import AvroValue Encoding Denote Wf VarintProofs DeProofs ReaderProofs DeSafetyProofs.
Require Import DS5 DeSoundBase DeSoundMain DeSoundReject DeSoundProofs.
Import ListNotations.
Open Scope N_scope.
Notation length := List.length (only parsing).

Arguments N.add : simpl never.
Arguments N.sub : simpl never.
Arguments N.mul : simpl never.
Arguments N.ltb : simpl never.
Arguments N.leb : simpl never.
Arguments N.eqb : simpl never.
Arguments N.of_nat : simpl never.
Arguments N.to_nat : simpl never.
Arguments N.min : simpl never.
Arguments Z.of_nat : simpl never.
Arguments Z.of_N : simpl never.
Arguments Z.to_N : simpl never.
Arguments Z.ltb : simpl never.
Arguments Z.leb : simpl never.
Arguments Z.eqb : simpl never.

#[local] Opaque de seq_array seq_array_loop seq_duration map_visit map_next_key map_next_value map_loop struct_loop enum_payload.

Section Typed.
Variable Sc : fschema.
Variable cfg : dcfg.

(* the typed events of a child referenced by key (the at_key of dval_typed) *)
Definition dty_at (k : nat) (v : avalue) : dval :=
  match fnode_at Sc k with Some n' => dval_typed Sc n' v | None => DMissing end.
Lemma dty_at_some k n' v : fnode_at Sc k = Some n' -> dty_at k v = dval_typed Sc n' v.
Proof. unfold dty_at. intros ->. reflexivity. Qed.

(* what an Ok result at node n satisfies, typed *)
Definition tpost (n : fnode) (d : dval) (pre : bytes) : Prop :=
  exists v, conforms Sc n v = true /\ erase_borrow d = dval_typed Sc n v /\ venc Sc n v pre.

(** ** the loops, for any item target that is sound at every fuel *)
Section Loops.
Variable k : nat.            (* the key of the items / values node *)
Variable t1 : dtarget.       (* the item / value target *)
Hypothesis Hitem : forall f depth n', fnode_at Sc k = Some n' ->
  hoare (de Sc cfg f n' depth false false t1) (tpost n').

Definition sl_post_t (b : blk) (acc : list dval) (r : list dval * blk) (pre : bytes) : Prop :=
  exists vs ds, fst r = rev acc ++ ds /\ map erase_borrow ds = map (dty_at k) vs /\
                forallb (conf_at Sc k) vs = true /\ vseq Sc k (b_cur b) vs pre.

Lemma seq_loop_typed : forall f depth b acc,
  hoare (seq_array_loop Sc cfg f k depth false (PRepeat t1) b acc) (sl_post_t b acc).
Proof.
  induction f as [|f IH]; intros depth b acc; [rewrite seq_array_loop_zero; apply hoare_fail; reflexivity|].
  rewrite seq_array_loop_unfold.
  eapply hoare_bind; [apply hoare_has_more|].
  intros [more b'] p1 Hhm _. cbn [fst snd] in Hhm |- *. destruct more.
  - eapply hoare_bind; [apply hoare_node_at|]. intros n' p2 [Hp2 Hn'] _. subst p2.
    eapply hoare_bind; [apply (Hitem f depth n' Hn')|]. intros d p3 (v & Hcv & Hev & Hvv) _.
    eapply hoare_weaken; [apply IH|].
    intros r p4 (vs & ds & Hr & He & Hc & Hv) _. cbn [app].
    exists (v :: vs), (d :: ds). split; [|split; [|split]].
    + rewrite Hr. cbn [rev]. rewrite <- app_assoc. reflexivity.
    + cbn [map]. rewrite He, (dty_at_some _ _ v Hn'), Hev. reflexivity.
    + cbn [forallb]. rewrite Hc, (conf_at_some _ _ _ v Hn'), Hcv. reflexivity.
    + eapply vseq_hdr_step; [exact Hhm|]. eapply VS_item; eauto.
  - apply hoare_ret. rewrite app_nil_r. destruct Hhm as [Hb0 Hend].
    exists [], []. cbn [fst]. rewrite app_nil_r. repeat split. rewrite Hb0. apply VS_end. exact Hend.
Qed.

(* next key of a map with the str hint: the same reads as with TAny *)
Lemma nk_map_str : forall fuel depth b,
  hoare (map_next_key Sc cfg fuel (MSMap k depth false b) (THint HStr))
        (fun r pre => match r with
                      | None => b_cur b = 0 /\ rlong 0 pre
                      | Some (key, src) =>
                          exists b' s ph bl, src = MSMap k depth false b' /\
                            erase_borrow key = DStr s /\ utf8_valid s = true /\
                            pre = ph ++ bl ++ s /\ rlong (Z.of_nat (length s)) bl /\ hdr_step b b' ph
                      end).
Proof.
  intros fuel depth b.
  destruct fuel as [|fu]; [rewrite map_next_key_zero; apply hoare_fail; reflexivity|].
  rewrite map_next_key_unfold.
  eapply hoare_bind; [apply hoare_has_more|].
  intros [more b'] p1 Hhm _. cbn [fst snd] in Hhm |- *. destruct more.
  - eapply hoare_bind; [apply hoare_read_ld_str|].
    intros key p2 (s & bl & He & Hp & Hl & Hu) _. apply hoare_ret. rewrite app_nil_r.
    exists b', s, p1, bl. subst p2. auto 10.
  - apply hoare_ret. rewrite app_nil_r. exact Hhm.
Qed.

Lemma nv_map_typed : forall fuel depth ign b,
  hoare (map_next_value Sc cfg fuel (MSMap k depth ign b) t1)
        (fun r pre => snd r = MSMap k depth ign b /\
                      exists n', fnode_at Sc k = Some n' /\ tpost n' (fst r) pre).
Proof.
  intros fuel depth ign b.
  destruct fuel as [|fu]; [rewrite map_next_value_zero; apply hoare_fail; reflexivity|].
  rewrite map_next_value_unfold.
  eapply hoare_bind; [apply hoare_node_at|]. intros n' p2 [Hp2 Hn'] _. subst p2.
  eapply hoare_bind; [apply (Hitem fu depth n' Hn')|]. intros d p3 Hd _.
  apply hoare_ret. cbn [fst snd app]. rewrite app_nil_r. split; [reflexivity|]. eauto.
Qed.

Definition dkv_t (kv : bytes * avalue) : dval * dval := (DStr (fst kv), dty_at k (snd kv)).

Definition ml_post_t (b : blk) (acc kvs : list (dval * dval)) (pre : bytes) : Prop :=
  exists vkvs ds, kvs = rev acc ++ ds /\ map eb_kv ds = map dkv_t vkvs /\
                  forallb (mkv_ok Sc k) vkvs = true /\ vmseq Sc k (b_cur b) vkvs pre.

Lemma map_loop_typed : forall f depth b acc,
  hoare (map_loop Sc cfg f (MSMap k depth false b) (THint HStr) t1 acc) (ml_post_t b acc).
Proof.
  induction f as [|f IH]; intros depth b acc; [rewrite map_loop_zero; apply hoare_fail; reflexivity|].
  rewrite map_loop_unfold.
  eapply hoare_bind; [apply nk_map_str|].
  intros [[key src]|] p1 Hnk Hok1.
  - destruct Hnk as (b' & s & ph & bl & Hsrc & Hek & Hu & Hp1 & Hl & Hstep). subst src.
    eapply hoare_bind; [apply nv_map_typed|].
    intros [d src2] p2 [Hs2 (n' & Hn' & v & Hcv & Hev & Hvv)] _. cbn [fst snd] in *. subst src2.
    eapply hoare_weaken; [apply IH|].
    intros kvs p3 (vkvs & ds & Hk & He & Hc & Hv) _.
    exists ((s, v) :: vkvs), ((key, d) :: ds). split; [|split; [|split]].
    + rewrite Hk. cbn [rev]. rewrite <- app_assoc. reflexivity.
    + cbn [map]. rewrite He. f_equal. unfold eb_kv, dkv_t. cbn [fst snd].
      rewrite (dty_at_some _ _ v Hn'), Hek, Hev. reflexivity.
    + cbn [forallb]. rewrite Hc. unfold mkv_ok at 1. cbn [fst snd].
      rewrite (conf_at_some _ _ _ v Hn'), Hcv, Hu.
      subst p1. rewrite !bytes_okb_app in Hok1.
      apply andb_prop in Hok1. destruct Hok1 as [_ Hok1]. apply andb_prop in Hok1.
      destruct Hok1 as [_ Hs]. rewrite Hs. reflexivity.
    + subst p1. rewrite <- !app_assoc. eapply vmseq_hdr_step; [exact Hstep|].
      eapply VM_item; eauto.
  - apply hoare_ret. rewrite app_nil_r. destruct Hnk as [Hb0 Hend].
    exists [], []. rewrite app_nil_r. repeat split. rewrite Hb0. apply VM_end. exact Hend.
Qed.

End Loops.

(** ** the nodes covered: arrays and maps over scalars, enums, durations, within tf levels *)
Fixpoint tcov (tf : nat) (n : fnode) : Prop :=
  match tf with
  | O => False
  | S f =>
      match n with
      | FArray k | FMap k => exists n', fnode_at Sc k = Some n' /\ tcov f n'
      | FUnion _ | FRecord _ _ => False
      | _ => True
      end
  end.

Lemma hoare_of_sound n t :
  (forall fuel depth rs d rs', bytes_okb (rd_inp rs) = true ->
     de Sc cfg fuel n depth false false t rs = (Ok d, rs') ->
     exists v pre, rd_inp rs = pre ++ rd_inp rs' /\ conforms Sc n v = true /\
                   erase_borrow d = dval_typed Sc n v /\ valid_enc_relaxed Sc n v pre) ->
  forall fuel depth, hoare (de Sc cfg fuel n depth false false t) (tpost n).
Proof.
  intros H fuel depth rs d rs' Hok E. destruct (H fuel depth rs d rs' Hok E) as (v & pre & Hp & Hc & He & Hv).
  exists pre. split; [exact Hp|]. exists v. auto.
Qed.

Lemma typed_hoare : forall tf n, tcov tf n ->
  forall fuel depth, hoare (de Sc cfg fuel n depth false false (typed_target Sc tf n)) (tpost n).
Proof.
  induction tf as [|tf IH]; intros n Hcov; [contradiction|].
  assert (Hscalar : scalar_node n = true ->
            forall fuel depth, hoare (de Sc cfg fuel n depth false false (typed_target Sc (S tf) n)) (tpost n)).
  { intros Hs. apply hoare_of_sound. intros fuel depth rs d rs' Hok E.
    exact (de_typed_sound_scalar Sc cfg fuel tf n depth false rs d rs' Hs Hok E). }
  destruct n; try (apply Hscalar; reflexivity); try contradiction.
  - (* array *)
    destruct Hcov as (n' & Hn' & Hc'). intros fuel depth.
    destruct fuel as [|f]; [rewrite de_zero; apply hoare_fail; reflexivity|].
    rewrite de_unfold. cbn [typed_target]. rewrite Hn'. cbv iota.
    eapply hoare_bind; [apply hoare_dec_depth|]. intros d' p1 [Hp1 _] _. subst p1.
    destruct f as [|f]; [rewrite seq_array_zero; apply hoare_fail; reflexivity|].
    rewrite seq_array_unfold. cbn [seq_policy].
    eapply hoare_bind.
    { apply (seq_loop_typed items (typed_target Sc tf n')).
      intros f0 depth0 n0 Hn0. rewrite Hn' in Hn0. inversion Hn0; subst n0. apply IH. exact Hc'. }
    intros [ds b'] p1 (vs & ds' & Hds & He & Hc & Hv) _. cbn [fst rev app] in Hds. subst ds.
    cbn [andb]. apply hoare_ret. cbn [app]. rewrite app_nil_r. exists (AArray vs).
    rewrite conforms_array_eq. split; [exact Hc|]. split; [|apply VE_array; exact Hv].
    cbn [shape_seq erase_borrow dval_typed]. fold (dty_at items). rewrite He. reflexivity.
  - (* map *)
    destruct Hcov as (n' & Hn' & Hc'). intros fuel depth.
    destruct fuel as [|f]; [rewrite de_zero; apply hoare_fail; reflexivity|].
    rewrite de_unfold. cbn [typed_target]. rewrite Hn'. cbv iota. cbn [de_any].
    eapply hoare_bind; [apply hoare_dec_depth|]. intros d' p1 [Hp1 _] _. subst p1.
    destruct f as [|f]; [rewrite map_visit_zero; apply hoare_fail; reflexivity|].
    rewrite map_visit_unfold. cbn [map_policy].
    eapply hoare_bind.
    { apply (map_loop_typed values (typed_target Sc tf n')).
      intros f0 depth0 n0 Hn0. rewrite Hn' in Hn0. inversion Hn0; subst n0. apply IH. exact Hc'. }
    intros kvs p1 (vkvs & ds & Hk & He & Hc & Hv) _. cbn [rev app] in Hk. subst kvs.
    apply hoare_ret. cbn [app]. rewrite app_nil_r. exists (AMap vkvs).
    rewrite conforms_map_eq. split; [exact Hc|]. split; [|apply VE_map; exact Hv].
    cbn [erase_borrow dval_typed]. fold eb_kv. rewrite He. reflexivity.
  - (* enum *)
    apply hoare_of_sound. intros fuel depth rs d rs' Hok E.
    exact (de_typed_sound_enum Sc cfg fuel tf n symbols depth rs d rs' Hok E).
  - (* duration *)
    apply hoare_of_sound. intros fuel depth rs d rs' Hok E.
    exact (de_typed_sound_duration Sc cfg fuel tf depth false rs d rs' Hok E).
Qed.

End Typed.

(** C03 for typed collection targets: arrays (Vec) and maps nested to any depth over scalars, enums and
    durations. No hypothesis on the schema; any reader mode, fuel, depth. *)
Theorem de_typed_sound_coll : forall Sc cfg fuel tf n depth rs d rs',
  tcov Sc tf n ->
  bytes_okb (rd_inp rs) = true ->
  de Sc cfg fuel n depth false false (typed_target Sc tf n) rs = (Ok d, rs') ->
  exists v pre,
    rd_inp rs = pre ++ rd_inp rs' /\
    conforms Sc n v = true /\
    erase_borrow d = dval_typed Sc n v /\
    valid_enc_relaxed Sc n v pre.
Proof.
  intros Sc cfg fuel tf n depth rs d rs' Hcov Hok H.
  destruct (typed_hoare Sc cfg tf n Hcov fuel depth rs d rs' Hok H) as (pre & Hp & v & Hc & He & Hv).
  exists v, pre. auto.
Qed.

Theorem de_typed_sound_coll_datum : forall fuel Sc cfg tf root rs d left,
  fnode_at Sc 0 = Some root -> tcov Sc tf root ->
  bytes_okb (rd_inp rs) = true ->
  de_datum fuel Sc cfg (typed_target Sc tf root) rs = Ok (d, left) ->
  exists v, conforms Sc root v = true /\ erase_borrow d = dval_typed Sc root v.
Proof.
  intros fuel Sc cfg tf root rs d left Hroot Hcov Hok H. unfold de_datum in H. rewrite Hroot in H.
  destruct (de Sc cfg fuel root (c_depth cfg) false false (typed_target Sc tf root) rs) as [[d0| | | |] st] eqn:E;
    try discriminate H.
  inversion H; subst d0 left.
  destruct (de_typed_sound_coll Sc cfg fuel tf root _ rs d st Hcov Hok E) as (v & pre & _ & Hc & He & _).
  exists v. auto.
Qed.

(** example: map<array<long>> decoded into the typed target (a map of Vec<i64>) *)
Example typed_coll_example :
  let Sc := [FMap 1; FArray 2; FLong] in
  tcov Sc 3 (FMap 1) /\
  typed_target Sc 3 (FMap 1) = TMap (THint HStr) (TSeq (THint HI64)) /\
  exists rs', de Sc cfg_default 50 (FMap 1) 8 false false (typed_target Sc 3 (FMap 1))
                 (slice_reader [2; 2; 107; 4; 2; 4; 0; 0]) =
              (Ok (DMap [(DBStr 2 1 [107], DSeq [DInt true W64 1; DInt true W64 2])]), rs') /\
  dval_typed Sc (FMap 1) (AMap [([107], AArray [ALong 1; ALong 2])])
    = DMap [(DStr [107], DSeq [DInt true W64 1; DInt true W64 2])].
Proof.
  cbv zeta. split; [|split].
  - cbn [tcov]. exists (FArray 2). split; [reflexivity|]. exists FLong. split; [reflexivity|]. exact I.
  - reflexivity.
  - eexists. split; [vm_compute; reflexivity|reflexivity].
Qed.

Print Assumptions de_typed_sound_coll.
Print Assumptions de_typed_sound_coll_datum.
