(** Definitions for the any-order (use before definition) part of C07:
    - [rcollect] / [rva] / [spec_valid_any_order] : two-pass validity by the specification's scoping
      rules: first collect the fullnames the document defines, then check every reference against
      the whole collection (a reference may precede the definition it names)
    - [layf]  : [lay] extended with late keys and the list of unresolved references: the exact
                node vector, name map and unresolved list register_node builds
    - [glay]  : the graph the specification designates, given the index of every fullname:
                definitions in document order, every reference slot holding the index of the
                definition it names
    The list and field-list loops are instances of one generic combinator. *)
From Coq Require Import NArith ZArith List Lia Bool Arith String ZifyN ZifyBool ZifyNat.
Import ListNotations.
Require Import Base Schema Text Json Parse CanonicalForm.
Require Import PcfSpec SchemaTextProofs ParseResolveDefs ParseBridge ParseRejectProofs.
Open Scope N_scope.
Notation length := List.length (only parsing).

Arguments N.eqb : simpl never.
Arguments N.leb : simpl never.
Arguments N.ltb : simpl never.
Arguments N.add : simpl never.

(* ------------------------------------------------------------------ *)
(** * generic loops over the children of a union ([proj] = identity) or a record ([proj] = snd) *)

Record lres (K : Type) := mkL {
  l_key : K;
  l_nodes : list mnode;
  l_names : names;
  l_un : list namekey
}.
Arguments mkL {K}.
Arguments l_key {K}.
Arguments l_nodes {K}.
Arguments l_names {K}.
Arguments l_un {K}.

Section Gen.
  Context {A K : Type} (proj : A -> raw) (tag : A -> nat -> K).

  Definition rc_gen (F : raw -> env -> env) : list A -> env -> env :=
    fix go (l : list A) (E : env) : env :=
      match l with [] => E | x :: t => go t (F (proj x) E) end.

  Definition rva_gen (F : raw -> env -> option env) : list A -> env -> option env :=
    fix go (l : list A) (E : env) : option env :=
      match l with
      | [] => Some E
      | x :: t => match F (proj x) E with Some E1 => go t E1 | None => None end
      end.

  Definition layf_gen (F : raw -> names -> list namekey -> nat -> lres nat)
    : list A -> names -> list namekey -> nat -> lres (list K) :=
    fix go (l : list A) (nm : names) (un : list namekey) (n : nat) : lres (list K) :=
      match l with
      | [] => mkL [] [] nm un
      | x :: t =>
          let r1 := F (proj x) nm un n in
          let r2 := go t (l_names r1) (l_un r1) (n + length (l_nodes r1))%nat in
          mkL (tag x (l_key r1) :: l_key r2) (l_nodes r1 ++ l_nodes r2) (l_names r2) (l_un r2)
      end.

  Definition glay_gen (F : raw -> nat -> nat * list mnode) : list A -> nat -> list K * list mnode :=
    fix go (l : list A) (n : nat) : list K * list mnode :=
      match l with
      | [] => ([], [])
      | x :: t =>
          let r1 := F (proj x) n in
          let r2 := go t (n + length (snd r1))%nat in
          (tag x (fst r1) :: fst r2, snd r1 ++ snd r2)
      end.

  Definition reg_gen (F : raw -> pstate -> result (nat * pstate))
    : list A -> pstate -> result (list K * pstate) :=
    fix go (l : list A) (st : pstate) : result (list K * pstate) :=
      match l with
      | [] => Ok ([], st)
      | x :: t => let* r1 := F (proj x) st in let* r2 := go t (snd r1) in Ok (tag x (fst r1) :: fst r2, snd r2)
      end.
End Gen.

Definition tag_list (x : raw) (k : nat) : nat := k.
Definition tag_field (f : bytes * raw) (k : nat) : bytes * nat := (fst f, k).

(* ------------------------------------------------------------------ *)
(** * pass 1: the fullnames the document defines (latest first), by the specification's scoping *)

Fixpoint rcollect (r : raw) (enc : option bytes) (E : env) {struct r} : env :=
  match r with
  | RwType _ | RwRef _ => E
  | RwUnion l => rc_gen (fun x => x) (fun x => rcollect x enc) l E
  | RwObject ty lg nm ns fields syms items values sz pr sc =>
      let E1 := match nm with
                | Some n => (snd (spec_fullname enc n ns), is_named_ty ty) :: E
                | None => E
                end in
      match ty with
      | TyArray => match items with Some it => rcollect it enc E1 | None => E1 end
      | TyMap => match values with Some it => rcollect it enc E1 | None => E1 end
      | TyRecord => match fields with
                    | Some fl => rc_gen (fun f => snd f) (fun x => rcollect x (own_ns enc nm ns)) fl E1
                    | None => E1
                    end
      | _ => E1
      end
  end.

(** * pass 2: validity; a reference may name any record, enum or fixed the document defines
      (environment [G] of pass 1); everything else as in [rv]: no fullname defined twice,
      required attributes, no bare complex type names *)
Fixpoint rva (G : env) (r : raw) (enc : option bytes) (E : env) {struct r} : option env :=
  match r with
  | RwType t => if is_prim_ty t then Some E else None
  | RwRef s => match elook (snd (spec_fullname enc s None)) G with Some true => Some E | _ => None end
  | RwUnion l => rva_gen (fun x => x) (fun x => rva G x enc) l E
  | RwObject ty lg nm ns fields syms items values sz pr sc =>
      if logical_ok lg pr then
        match rv_named enc ty nm ns E with
        | None => None
        | Some (has, nsp, E1) =>
            match ty with
            | TyArray => match items with Some it => rva G it enc E1 | None => None end
            | TyMap => match values with Some it => rva G it enc E1 | None => None end
            | TyRecord =>
                if has then match fields with
                            | Some fl => rva_gen (fun f => snd f) (fun x => rva G x nsp) fl E1
                            | None => None
                            end
                else None
            | TyEnum => if has then match syms with Some _ => Some E1 | None => None end else None
            | TyFixed => if has then match sz with Some _ => Some E1 | None => None end else None
            | _ => Some E1
            end
        end
      else None
  end.

Definition spec_valid_any_order (j : json) : bool :=
  sizes_ok j &&
  match raw_of_json j with
  | Ok r => match rva (rcollect r None []) r None [] with Some _ => true | None => false end
  | _ => false
  end.

(* ------------------------------------------------------------------ *)
(** * the node vector, name map and unresolved list register_node builds *)

Fixpoint layf (r : raw) (enc : option bytes) (nm : names) (un : list namekey) (n0 : nat) {struct r}
  : lres nat :=
  match r with
  | RwRef s =>
      match assoc_key (key_of_ref enc s) nm with
      | Some i => mkL (pk_node i) [] nm un
      | None => mkL (pk_late (length un)) [] nm (un ++ [key_of_ref enc s])
      end
  | RwType t => mkL (pk_node n0) [mkNode (prim_of t) None] nm un
  | RwUnion l =>
      let res := layf_gen (fun x => x) tag_list (fun x => layf x enc) l nm un (S n0) in
      mkL (pk_node n0) (mkNode (RUnion (l_key res)) None :: l_nodes res) (l_names res) (l_un res)
  | RwObject ty lg name ns fields syms items values sz pr sc =>
      let k := match name with Some n => key_of_def enc n ns | None => dummy_key end in
      let nm1 := match name with Some _ => (k, n0) :: nm | None => nm end in
      let lt := the_logical lg pr sc in
      match ty with
      | TyArray =>
          match items with
          | Some it => let r1 := layf it enc nm1 un (S n0) in
                       mkL (pk_node n0) (mkNode (RArray (l_key r1)) lt :: l_nodes r1) (l_names r1) (l_un r1)
          | None => mkL (pk_node n0) [mkNode RNull lt] nm1 un
          end
      | TyMap =>
          match values with
          | Some it => let r1 := layf it enc nm1 un (S n0) in
                       mkL (pk_node n0) (mkNode (RMap (l_key r1)) lt :: l_nodes r1) (l_names r1) (l_un r1)
          | None => mkL (pk_node n0) [mkNode RNull lt] nm1 un
          end
      | TyRecord =>
          match fields with
          | Some fl =>
              let res := layf_gen (fun f => snd f) tag_field (fun x => layf x (fst k)) fl nm1 un (S n0) in
              mkL (pk_node n0) (mkNode (RRecord (name_of_key k) (l_key res)) lt :: l_nodes res)
                  (l_names res) (l_un res)
          | None => mkL (pk_node n0) [mkNode RNull lt] nm1 un
          end
      | TyEnum =>
          mkL (pk_node n0)
              [mkNode (REnum (name_of_key k) (match syms with Some s => s | None => [] end)) lt] nm1 un
      | TyFixed =>
          mkL (pk_node n0)
              [mkNode (RFixed (name_of_key k) (match sz with Some s => s | None => 0 end)) lt] nm1 un
      | t => mkL (pk_node n0) [mkNode (prim_of t) lt] nm1 un
      end
  end.

(** * the designated graph: [res f] is the index of the definition of fullname [f]; the new nodes
      get the indices n0, n0+1, ... in document order; a reference adds no node, its slot in the
      parent holds [res] of the reference's specification fullname *)
Fixpoint glay (res : bytes -> nat) (r : raw) (enc : option bytes) (n0 : nat) {struct r}
  : nat * list mnode :=
  match r with
  | RwRef s => (res (snd (spec_fullname enc s None)), [])
  | RwType t => (n0, [mkNode (prim_of t) None])
  | RwUnion l =>
      let rs := glay_gen (fun x => x) tag_list (fun x => glay res x enc) l (S n0) in
      (n0, mkNode (RUnion (fst rs)) None :: snd rs)
  | RwObject ty lg name ns fields syms items values sz pr sc =>
      let k := match name with Some n => key_of_def enc n ns | None => dummy_key end in
      let lt := the_logical lg pr sc in
      match ty with
      | TyArray =>
          match items with
          | Some it => let r1 := glay res it enc (S n0) in (n0, mkNode (RArray (fst r1)) lt :: snd r1)
          | None => (n0, [mkNode RNull lt])
          end
      | TyMap =>
          match values with
          | Some it => let r1 := glay res it enc (S n0) in (n0, mkNode (RMap (fst r1)) lt :: snd r1)
          | None => (n0, [mkNode RNull lt])
          end
      | TyRecord =>
          match fields with
          | Some fl =>
              let rs := glay_gen (fun f => snd f) tag_field (fun x => glay res x (fst k)) fl (S n0) in
              (n0, mkNode (RRecord (name_of_key k) (fst rs)) lt :: snd rs)
          | None => (n0, [mkNode RNull lt])
          end
      | TyEnum => (n0, [mkNode (REnum (name_of_key k) (match syms with Some s => s | None => [] end)) lt])
      | TyFixed => (n0, [mkNode (RFixed (name_of_key k) (match sz with Some s => s | None => 0 end)) lt])
      | t => (n0, [mkNode (prim_of t) lt])
      end
  end.

(* the index registered for a fullname in a name map (first match) *)
Fixpoint ilook (f : bytes) (nm : names) : nat :=
  match nm with
  | [] => O
  | (k, i) :: t => if bytes_eqb f (full k) then i else ilook f t
  end.

(* the name map of the whole document: the definitions' keys with their node indices *)
Definition final_names (r : raw) : names := l_names (layf r None [] [] O).
Definition spec_index (r : raw) (f : bytes) : nat := ilook f (final_names r).

(** the graph the specification designates for a document whose references may precede the
    definitions *)
Definition graph_any (j : json) : schema_mut :=
  match raw_of_json j with
  | Ok r => snd (glay (spec_index r) r None O)
  | _ => []
  end.
