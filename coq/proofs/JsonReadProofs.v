(** The JSON text layer (model/JsonRead.v): the reader inverts the printer of model/Json.v.

    Main results
    - [json_parse_total], [json_read_total]       (c) fuel > length text: never OutOfFuel; Ok or an error
    - [json_parse_more_fuel], [json_read_fuel_irrelevant]
                                                   the outcome does not depend on the (sufficient) fuel
    - [read_str_escaped]                           the string scanner inverts [json_string] (any contents)
    - [read_number_token], [json_number_wf_iff]    number tokens: read back in front of a delimiter;
                                                   [json_number_wf] is exactly the RFC 8259 number grammar
    - [dec_digits_number_wf]                       decimal naturals (what SchemaJson prints) are numbers
    - [rt_value_all]                               the induction: any value, any whitespace, any continuation
    - [json_parse_text], [json_read_text]          (a) ROUND TRIP  json_read fuel (json_text j) = Ok j
    - [read_value_text]                            (a) embedded: the value reader stops at the end of the value
    - [json_parse_ws], [json_read_ws]              (b) WHITESPACE  json_read fuel (json_text_ws w j) = Ok j
    - [json_text_inj], [json_text_ws_inj]          the text determines the document
    - [depth_limit_refuted], [wf_needed_*]         why each hypothesis is there
    - examples: accepted document with every feature; rejected texts with serde_json's reason.
    (d) (C09 on the text) is in JsonReadSchema.v. *)
From Coq Require Import NArith ZArith List Lia Bool Arith String.
From Coq Require Import ZifyN ZifyBool ZifyNat.
Require Import Base Utf8 Text Json JsonRead.
Import ListNotations.
Open Scope N_scope.
Notation length := List.length (only parsing).

Ltac Zify.zify_post_hook ::= Z.to_euclidean_division_equations.

Arguments N.add : simpl never.
Arguments N.sub : simpl never.
Arguments N.mul : simpl never.
Arguments N.div : simpl never.
Arguments N.modulo : simpl never.
Arguments N.ltb : simpl never.
Arguments N.leb : simpl never.
Arguments N.eqb : simpl never.

(* ------------------------------------------------------------------ *)
(** * Splitting lemmas: every lexical helper returns a prefix of its input and the rest *)

Lemma skip_ws_len : forall s, (length (skip_ws s) <= length s)%nat.
Proof.
  induction s as [|b r IH]; cbn [skip_ws]; [lia|].
  destruct (is_ws b); cbn [List.length] in *; lia.
Qed.

Lemma span_digits_split : forall s d r, span_digits s = (d, r) ->
  s = d ++ r /\ forallb is_digit_b d = true.
Proof.
  induction s as [|b s IH]; intros d r H; cbn [span_digits] in H.
  - inversion H. split; reflexivity.
  - destruct (is_digit_b b) eqn:Eb.
    + destruct (span_digits s) as [d' r'] eqn:E. inversion H; subst.
      destruct (IH d' r eq_refl) as [-> Hd]. split; [reflexivity|].
      cbn [forallb]. rewrite Eb, Hd. reflexivity.
    + inversion H. split; reflexivity.
Qed.

Lemma digits1_split : forall s d r, digits1 s = Some (d, r) ->
  s = d ++ r /\ forallb is_digit_b d = true /\ d <> [].
Proof.
  intros s d r H. unfold digits1 in H. destruct (span_digits s) as [d' r'] eqn:E.
  destruct d' as [|x d']; [discriminate|]. inversion H; subst.
  destruct (span_digits_split _ _ _ E) as [-> Hd]. split; [reflexivity|]. split; [exact Hd|discriminate].
Qed.

Lemma read_sign_split : forall m s sg r, read_sign m s = (sg, r) -> s = sg ++ r.
Proof.
  intros m [|b s] sg r H; cbn [read_sign] in H.
  - inversion H. reflexivity.
  - destruct ((b =? 45) || (negb m && (b =? 43))); inversion H; reflexivity.
Qed.

Lemma read_int_split : forall s i r, read_int s = Some (i, r) -> s = i ++ r /\ i <> [].
Proof.
  intros [|b s] i r H; cbn [read_int] in H; [discriminate|].
  destruct (b =? 48) eqn:E0.
  - apply N.eqb_eq in E0. subst b.
    destruct s as [|c s'].
    + inversion H. split; [reflexivity|discriminate].
    + destruct (is_digit_b c); [discriminate|]. inversion H. split; [reflexivity|discriminate].
  - destruct (is_digit_b b); [|discriminate].
    destruct (span_digits s) as [d r'] eqn:E. inversion H; subst.
    destruct (span_digits_split _ _ _ E) as [-> _]. split; [reflexivity|discriminate].
Qed.

Lemma read_frac_split : forall s f r, read_frac s = Some (f, r) -> s = f ++ r.
Proof.
  intros [|b s] f r H; cbn [read_frac] in H.
  - inversion H. reflexivity.
  - destruct (b =? 46).
    + destruct (digits1 s) as [[d r']|] eqn:E; [|discriminate]. inversion H; subst.
      destruct (digits1_split _ _ _ E) as [-> _]. reflexivity.
    + inversion H. reflexivity.
Qed.

Lemma read_exp_split : forall s e r, read_exp s = Some (e, r) -> s = e ++ r.
Proof.
  intros [|b s] e r H; cbn [read_exp] in H.
  - inversion H. reflexivity.
  - destruct ((b =? 101) || (b =? 69)).
    + destruct (read_sign false s) as [sg r1] eqn:Es.
      destruct (digits1 r1) as [[d r']|] eqn:E; [|discriminate]. inversion H; subst.
      destruct (digits1_split _ _ _ E) as [-> _]. rewrite (read_sign_split _ _ _ _ Es).
      cbn [app]. rewrite <- app_assoc. reflexivity.
    + inversion H. reflexivity.
Qed.

Lemma read_number_split : forall s t r, read_number s = Some (t, r) -> s = t ++ r /\ t <> [].
Proof.
  intros s t r H. unfold read_number in H.
  destruct (read_sign true s) as [sg s1] eqn:E1.
  destruct (read_int s1) as [[i s2]|] eqn:E2; [|discriminate].
  destruct (read_frac s2) as [[f s3]|] eqn:E3; [|discriminate].
  destruct (read_exp s3) as [[e s4]|] eqn:E4; [|discriminate].
  inversion H; subst.
  rewrite (read_sign_split _ _ _ _ E1). destruct (read_int_split _ _ _ E2) as [-> Hi].
  rewrite (read_frac_split _ _ _ E3), (read_exp_split _ _ _ E4).
  rewrite <- !app_assoc. split; [reflexivity|].
  destruct i; [congruence|]. destruct sg; discriminate.
Qed.

(* a well-formed number token is read back as itself *)
Lemma json_number_wf_read : forall tok, json_number_wf tok = true -> read_number tok = Some (tok, []).
Proof.
  intros tok H. unfold json_number_wf in H.
  destruct (read_number tok) as [[t r]|] eqn:E; [|discriminate].
  destruct r; [|discriminate]. destruct (read_number_split _ _ _ E) as [Ht _].
  rewrite app_nil_r in Ht. subst t. reflexivity.
Qed.

(* ------------------------------------------------------------------ *)
(** * (c) Totality: fuel > length of the input is never exhausted, and every reader consumes input *)

Definition progress {A} (s : bytes) (r : jres A) : Prop :=
  r <> JFuel /\ forall a rest, r = JOk a rest -> (length rest < length s)%nat.
Definition progress_le {A} (s : bytes) (r : jres A) : Prop :=
  r <> JFuel /\ forall a rest, r = JOk a rest -> (length rest <= length s)%nat.

Lemma progress_err : forall A s e, @progress A s (JErr e).
Proof. intros. split; [discriminate|]. intros a rest H. discriminate. Qed.

Lemma progress_weaken : forall A (s s' : bytes) (r : jres A), progress s r -> (length s <= length s')%nat -> progress s' r.
Proof. intros A s s' r [H1 H2] Hl. split; [exact H1|]. intros a rest E. specialize (H2 a rest E). lia. Qed.

Lemma progress_le_lt : forall A (s s' : bytes) (r : jres A), progress_le s r -> (length s < length s')%nat -> progress s' r.
Proof. intros A s s' r [H1 H2] Hl. split; [exact H1|]. intros a rest E. specialize (H2 a rest E). lia. Qed.

(* sequencing: the continuation is only used on shorter inputs *)
Lemma progress_bind : forall A B (s : bytes) (r : jres A) (k : A -> bytes -> jres B),
  progress_le s r -> (forall a rest, (length rest <= length s)%nat -> progress_le rest (k a rest)) ->
  progress_le s (jbind r k).
Proof.
  intros A B s r k [H1 H2] Hk. destruct r as [a rest| |]; cbn [jbind].
  - specialize (H2 a rest eq_refl). destruct (Hk a rest H2) as [K1 K2].
    split; [exact K1|]. intros b rest' E. specialize (K2 b rest' E). lia.
  - split; [discriminate|]. intros; discriminate.
  - congruence.
Qed.

Lemma progress_lt_le : forall A (s : bytes) (r : jres A), progress s r -> progress_le s r.
Proof. intros A s r [H1 H2]. split; [exact H1|]. intros a rest E. specialize (H2 a rest E). lia. Qed.

Lemma progress_ok_le : forall A (s rest : bytes) (a : A), (length rest <= length s)%nat -> progress_le s (JOk a rest).
Proof. intros. split; [discriminate|]. intros a' r' E. inversion E; subst. assumption. Qed.

Lemma progress_le_err : forall A s e, @progress_le A s (JErr e).
Proof. intros. split; [discriminate|]. intros a rest H. discriminate. Qed.

Lemma expect_progress : forall A w s (a : A), progress_le s (expect w s a).
Proof.
  induction w as [|c w IH]; intros s a; cbn [expect].
  - apply progress_ok_le. lia.
  - destruct s as [|b r]; [apply progress_le_err|].
    destruct (b =? c); [|apply progress_le_err].
    destruct (IH r a) as [H1 H2]. split; [exact H1|]. intros a' r' E. specialize (H2 a' r' E). cbn [List.length]. lia.
Qed.

Lemma hex4_progress : forall s, progress_le s (hex4 s).
Proof.
  intros s. unfold hex4. destruct s as [|a [|b [|c [|d r]]]]; try apply progress_le_err.
  destruct (hex_val a), (hex_val b), (hex_val c), (hex_val d); try apply progress_le_err.
  apply progress_ok_le. cbn [List.length]. lia.
Qed.

Lemma read_unicode_progress : forall s, progress_le s (read_unicode s).
Proof.
  intros s. unfold read_unicode. apply progress_bind; [apply hex4_progress|].
  intros n r Hr.
  destruct ((56320 <=? n) && (n <=? 57343)); [apply progress_le_err|].
  destruct ((55296 <=? n) && (n <=? 56319)); [|apply progress_ok_le; lia].
  destruct r as [|b1 [|b2 r1]]; try apply progress_le_err.
  destruct ((b1 =? 92) && (b2 =? 117)); [|apply progress_le_err].
  assert (G : progress_le r1 (jbind (hex4 r1) (fun n2 r2 =>
              if (56320 <=? n2) && (n2 <=? 57343)
              then JOk (utf8_encode (65536 + (n - 55296) * 1024 + (n2 - 56320))) r2
              else JErr JSurrogate))).
  { apply progress_bind; [apply hex4_progress|]. intros n2 r2 H2.
    destruct ((56320 <=? n2) && (n2 <=? 57343)); [apply progress_ok_le; lia|apply progress_le_err]. }
  destruct G as [G1 G2]. split; [exact G1|]. intros a rest E. specialize (G2 a rest E). cbn [List.length]. lia.
Qed.

Lemma read_escape_progress : forall s, progress_le s (read_escape s).
Proof.
  intros [|c r]; cbn [read_escape]; [apply progress_le_err|].
  repeat match goal with
  | |- progress_le _ (if ?c then _ else _) => destruct c; [apply progress_ok_le; cbn [List.length]; lia|]
  end.
  destruct (c =? 117); [|apply progress_le_err].
  destruct (read_unicode_progress r) as [G1 G2]. split; [exact G1|].
  intros a rest E. specialize (G2 a rest E). cbn [List.length]. lia.
Qed.

Lemma read_str_progress : forall fuel s, (length s < fuel)%nat -> progress s (read_str fuel s).
Proof.
  induction fuel as [|f IH]; intros s Hf; [lia|]. cbn [read_str].
  destruct s as [|b r]; [apply progress_err|]. cbn [List.length] in Hf.
  destruct (b =? 34).
  { split; [discriminate|]. intros a rest E. inversion E; subst. cbn [List.length]. lia. }
  destruct (b =? 92).
  { apply progress_le_lt with (s := r); [|cbn [List.length]; lia].
    apply progress_bind; [apply read_escape_progress|]. intros e r1 H1.
    apply progress_bind; [apply progress_lt_le, IH; lia|]. intros t r2 H2. apply progress_ok_le. lia. }
  destruct (b <? 32); [apply progress_err|].
  apply progress_le_lt with (s := r); [|cbn [List.length]; lia].
  apply progress_bind; [apply progress_lt_le, IH; lia|]. intros t r1 H1. apply progress_ok_le. lia.
Qed.

Lemma read_string_progress : forall fuel s, (length s < fuel)%nat -> progress s (read_string fuel s).
Proof.
  intros fuel s Hf. unfold read_string. destruct (read_str_progress fuel s Hf) as [H1 H2].
  destruct (read_str fuel s) as [t r| |]; cbn [jbind]; [|apply progress_err|congruence].
  destruct (utf8_valid t); [|apply progress_err].
  split; [discriminate|]. intros a rest E. inversion E; subst. exact (H2 _ _ eq_refl).
Qed.

(* a member: [rv] may be used on any input shorter than the fuel *)
Lemma read_member_progress : forall rv fuel s,
  (forall s', (length s' < fuel)%nat -> progress s' (rv s')) ->
  (length s <= fuel)%nat -> progress s (read_member rv fuel s).
Proof.
  intros rv fuel s Hrv Hf. unfold read_member. pose proof (skip_ws_len s) as Hs.
  destruct (skip_ws s) as [|q r]; [apply progress_err|]. cbn [List.length] in Hs.
  destruct (q =? 34); [|apply progress_err].
  apply progress_le_lt with (s := r); [|lia].
  apply progress_bind; [apply progress_lt_le, read_string_progress; lia|].
  intros k r1 H1. pose proof (skip_ws_len r1) as Hs1.
  destruct (skip_ws r1) as [|c r2]; [apply progress_le_err|]. cbn [List.length] in Hs1.
  destruct (c =? 58); [|apply progress_le_err].
  apply progress_lt_le. apply progress_le_lt with (s := r2); [|lia].
  apply progress_bind; [apply progress_lt_le, Hrv; lia|]. intros v r3 H3. apply progress_ok_le. lia.
Qed.

Lemma read_value_progress_all : forall fuel,
  (forall depth s, (length s < fuel)%nat -> progress s (read_value fuel depth s)) /\
  (forall depth s, (length s < fuel)%nat -> progress s (read_elems fuel depth s)) /\
  (forall depth s, (length s < fuel)%nat -> progress s (read_members fuel depth s)).
Proof.
  induction fuel as [|f [IHv [IHe IHm]]]; [repeat split; intros; lia|].
  split; [|split]; intros depth s Hf.
  - cbn [read_value]. pose proof (skip_ws_len s) as Hs.
    destruct (skip_ws s) as [|b r]; [apply progress_err|]. cbn [List.length] in Hs.
    destruct (b =? 110); [apply progress_le_lt with (s := r); [apply expect_progress|lia]|].
    destruct (b =? 116); [apply progress_le_lt with (s := r); [apply expect_progress|lia]|].
    destruct (b =? 102); [apply progress_le_lt with (s := r); [apply expect_progress|lia]|].
    destruct (b =? 34).
    { apply progress_le_lt with (s := r); [|lia].
      apply progress_bind; [apply progress_lt_le, read_string_progress; lia|].
      intros t r1 H1. apply progress_ok_le. lia. }
    destruct (b =? 91).
    { destruct (enter depth) as [d|]; [|apply progress_err].
      pose proof (skip_ws_len r) as Hr.
      destruct (skip_ws r) as [|c r1]; [apply progress_err|]. cbn [List.length] in Hr.
      destruct (c =? 93).
      { split; [discriminate|]. intros a rest E. inversion E; subst. lia. }
      apply progress_le_lt with (s := r); [|lia].
      apply progress_bind; [apply progress_lt_le, IHv; lia|]. intros v r2 H2.
      apply progress_bind; [apply progress_lt_le, IHe; lia|]. intros l r3 H3. apply progress_ok_le. lia. }
    destruct (b =? 123).
    { destruct (enter depth) as [d|]; [|apply progress_err].
      pose proof (skip_ws_len r) as Hr.
      destruct (skip_ws r) as [|c r1]; [apply progress_err|]. cbn [List.length] in Hr.
      destruct (c =? 125).
      { split; [discriminate|]. intros a rest E. inversion E; subst. lia. }
      apply progress_le_lt with (s := r); [|lia].
      apply progress_bind.
      { apply progress_lt_le, read_member_progress; [|lia]. intros s' Hs'. apply IHv. exact Hs'. }
      intros kv r2 H2.
      apply progress_bind; [apply progress_lt_le, IHm; lia|]. intros l r3 H3. apply progress_ok_le. lia. }
    destruct ((b =? 45) || is_digit_b b); [|apply progress_err].
    destruct (read_number (b :: r)) as [[tok r1]|] eqn:En; [|apply progress_err].
    destruct (read_number_split _ _ _ En) as [Hsp Hne].
    split; [discriminate|]. intros a rest E. inversion E; subst.
    assert (Hl : length (b :: r) = length (tok ++ rest)) by (rewrite Hsp; reflexivity).
    rewrite app_length in Hl. cbn [List.length] in Hl. destruct tok; [congruence|]. cbn [List.length] in Hl. lia.
  - cbn [read_elems]. pose proof (skip_ws_len s) as Hs.
    destruct (skip_ws s) as [|c r]; [apply progress_err|]. cbn [List.length] in Hs.
    destruct (c =? 93).
    { split; [discriminate|]. intros a rest E. inversion E; subst. lia. }
    destruct (c =? 44); [|apply progress_err].
    apply progress_le_lt with (s := r); [|lia].
    apply progress_bind; [apply progress_lt_le, IHv; lia|]. intros v r2 H2.
    apply progress_bind; [apply progress_lt_le, IHe; lia|]. intros l r3 H3. apply progress_ok_le. lia.
  - cbn [read_members]. pose proof (skip_ws_len s) as Hs.
    destruct (skip_ws s) as [|c r]; [apply progress_err|]. cbn [List.length] in Hs.
    destruct (c =? 125).
    { split; [discriminate|]. intros a rest E. inversion E; subst. lia. }
    destruct (c =? 44); [|apply progress_err].
    apply progress_le_lt with (s := r); [|lia].
    apply progress_bind.
    { apply progress_lt_le, read_member_progress; [|lia]. intros s' Hs'. apply IHv. exact Hs'. }
    intros kv r2 H2.
    apply progress_bind; [apply progress_lt_le, IHm; lia|]. intros l r3 H3. apply progress_ok_le. lia.
Qed.

Theorem read_value_total : forall fuel depth s, (length s < fuel)%nat ->
  read_value fuel depth s <> JFuel /\
  forall j rest, read_value fuel depth s = JOk j rest -> (length rest < length s)%nat.
Proof. intros fuel depth s H. exact (proj1 (read_value_progress_all fuel) depth s H). Qed.

Theorem json_parse_total : forall fuel depth text, (length text < fuel)%nat ->
  (exists j, json_parse fuel depth text = JOk j []) \/ (exists e, json_parse fuel depth text = JErr e).
Proof.
  intros fuel depth text H. unfold json_parse.
  destruct (read_value_total fuel depth text H) as [H1 _].
  destruct (read_value fuel depth text) as [j r|e|]; cbn [jbind]; [|right; eexists; reflexivity|congruence].
  destruct (skip_ws r); [left|right]; eexists; reflexivity.
Qed.

(* (c) in the outcome type of the model: Ok or Err EData, nothing else *)
Theorem json_read_total : forall fuel text, (length text < fuel)%nat ->
  (exists j, json_read fuel text = Ok j) \/ json_read fuel text = Err EData.
Proof.
  intros fuel text H. unfold json_read, json_read_depth.
  destruct (json_parse_total fuel SERDE_JSON_DEPTH text H) as [[j E]|[e E]]; rewrite E; [left; eexists; reflexivity|right; reflexivity].
Qed.

Corollary json_of_text_total : forall text,
  (exists j, json_of_text text = Ok j) \/ json_of_text text = Err EData.
Proof. intros text. apply json_read_total. lia. Qed.
(* ------------------------------------------------------------------ *)
(** * Numbers: a token followed by a delimiter is read back as the token *)

(* what may follow a number without being taken for a part of it *)
Definition num_stop (rest : bytes) : bool :=
  match rest with
  | [] => true
  | b :: _ => negb (is_digit_b b || (b =? 46) || (b =? 101) || (b =? 69) || (b =? 43) || (b =? 45))
  end.

Lemma span_digits_ext : forall s d r rest, span_digits s = (d, r) -> num_stop rest = true ->
  span_digits (s ++ rest) = (d, r ++ rest).
Proof.
  induction s as [|b s IH]; intros d r rest H Hst; cbn [span_digits app] in *.
  - inversion H; subst. cbn [app]. destruct rest as [|c rest']; [reflexivity|].
    cbn [span_digits]. cbn [num_stop] in Hst. destruct (is_digit_b c); [discriminate|reflexivity].
  - destruct (is_digit_b b).
    + destruct (span_digits s) as [d' r'] eqn:E. inversion H; subst.
      rewrite (IH d' r rest eq_refl Hst). reflexivity.
    + inversion H; subst. reflexivity.
Qed.

Lemma digits1_ext : forall s d r rest, digits1 s = Some (d, r) -> num_stop rest = true ->
  digits1 (s ++ rest) = Some (d, r ++ rest).
Proof.
  intros s d r rest H Hst. unfold digits1 in *. destruct (span_digits s) as [d' r'] eqn:E.
  rewrite (span_digits_ext _ _ _ rest E Hst). destruct d'; [discriminate|]. inversion H; subst. reflexivity.
Qed.

Lemma read_sign_ext : forall m s sg r rest, read_sign m s = (sg, r) -> num_stop rest = true ->
  read_sign m (s ++ rest) = (sg, r ++ rest).
Proof.
  intros m [|b s] sg r rest H Hst; cbn [read_sign app] in *.
  - inversion H; subst. cbn [app]. destruct rest as [|c rest']; [reflexivity|].
    cbn [read_sign]. cbn [num_stop] in Hst.
    destruct ((c =? 45) || (negb m && (c =? 43))) eqn:E; [|reflexivity]. destruct m; cbn [negb andb] in E; lia.
  - destruct ((b =? 45) || (negb m && (b =? 43))); inversion H; subst; reflexivity.
Qed.

Lemma read_int_ext : forall s i r rest, read_int s = Some (i, r) -> num_stop rest = true ->
  read_int (s ++ rest) = Some (i, r ++ rest).
Proof.
  intros [|b s] i r rest H Hst; cbn [read_int app] in *; [discriminate|].
  destruct (b =? 48).
  - destruct s as [|c s'].
    + inversion H; subst. cbn [app]. destruct rest as [|c rest']; [reflexivity|].
      cbn [num_stop] in Hst. destruct (is_digit_b c); [discriminate|reflexivity].
    + cbn [app]. destruct (is_digit_b c); [discriminate|]. inversion H; subst. reflexivity.
  - destruct (is_digit_b b); [|discriminate].
    destruct (span_digits s) as [d r'] eqn:E. inversion H; subst.
    rewrite (span_digits_ext _ _ _ rest E Hst). reflexivity.
Qed.

Lemma read_frac_ext : forall s f r rest, read_frac s = Some (f, r) -> num_stop rest = true ->
  read_frac (s ++ rest) = Some (f, r ++ rest).
Proof.
  intros [|b s] f r rest H Hst; cbn [read_frac app] in *.
  - inversion H; subst. cbn [app]. destruct rest as [|c rest']; [reflexivity|].
    cbn [read_frac]. cbn [num_stop] in Hst. destruct (c =? 46) eqn:E; [lia|reflexivity].
  - destruct (b =? 46).
    + destruct (digits1 s) as [[d r']|] eqn:E; [|discriminate]. inversion H; subst.
      rewrite (digits1_ext _ _ _ rest E Hst). reflexivity.
    + inversion H; subst. reflexivity.
Qed.

Lemma read_exp_ext : forall s e r rest, read_exp s = Some (e, r) -> num_stop rest = true ->
  read_exp (s ++ rest) = Some (e, r ++ rest).
Proof.
  intros [|b s] e r rest H Hst; cbn [read_exp app] in *.
  - inversion H; subst. cbn [app]. destruct rest as [|c rest']; [reflexivity|].
    cbn [read_exp]. cbn [num_stop] in Hst. destruct ((c =? 101) || (c =? 69)) eqn:E; [lia|reflexivity].
  - destruct ((b =? 101) || (b =? 69)).
    + destruct (read_sign false s) as [sg r1] eqn:Es.
      rewrite (read_sign_ext _ _ _ _ rest Es Hst).
      destruct (digits1 r1) as [[d r']|] eqn:E; [|discriminate]. inversion H; subst.
      rewrite (digits1_ext _ _ _ rest E Hst). reflexivity.
    + inversion H; subst. reflexivity.
Qed.

Lemma read_number_ext : forall s t r rest, read_number s = Some (t, r) -> num_stop rest = true ->
  read_number (s ++ rest) = Some (t, r ++ rest).
Proof.
  intros s t r rest H Hst. unfold read_number in *.
  destruct (read_sign true s) as [sg s1] eqn:E1. rewrite (read_sign_ext _ _ _ _ rest E1 Hst).
  destruct (read_int s1) as [[i s2]|] eqn:E2; [|discriminate]. rewrite (read_int_ext _ _ _ rest E2 Hst).
  destruct (read_frac s2) as [[f s3]|] eqn:E3; [|discriminate]. rewrite (read_frac_ext _ _ _ rest E3 Hst).
  destruct (read_exp s3) as [[e s4]|] eqn:E4; [|discriminate]. rewrite (read_exp_ext _ _ _ rest E4 Hst).
  inversion H; subst. reflexivity.
Qed.

Lemma read_number_token : forall tok rest, json_number_wf tok = true -> num_stop rest = true ->
  read_number (tok ++ rest) = Some (tok, rest).
Proof.
  intros tok rest H Hst. apply (read_number_ext tok tok [] rest); [|exact Hst].
  apply json_number_wf_read. exact H.
Qed.

(* the first byte of a number token *)
Lemma json_number_wf_head : forall tok, json_number_wf tok = true ->
  exists b r, tok = b :: r /\ ((b =? 45) || is_digit_b b) = true.
Proof.
  intros tok H. pose proof (json_number_wf_read tok H) as E. unfold read_number in E.
  destruct tok as [|b r].
  - cbn in E. discriminate.
  - exists b, r. split; [reflexivity|]. cbn [read_sign negb andb] in E.
    destruct (b =? 45) eqn:E45; [reflexivity|]. cbn [orb] in E |- *.
    cbn [read_int] in E. destruct (b =? 48) eqn:E48; [unfold is_digit_b; lia|].
    destruct (is_digit_b b); [reflexivity|discriminate].
Qed.

(* ------------------------------------------------------------------ *)
(** * Strings: the scanner inverts [json_string] (for ANY contents; UTF-8 validity is checked afterwards) *)

Lemma hex_val_hex_digit : forall n, n < 16 -> hex_val (hex_digit n) = Some n.
Proof.
  intros n Hn. unfold hex_val, hex_digit, is_digit_b. destruct (n <? 10) eqn:E.
  - replace ((48 <=? 48 + n) && (48 + n <=? 57)) with true by lia. f_equal. lia.
  - replace ((48 <=? 87 + n) && (87 + n <=? 57)) with false by lia.
    replace ((65 <=? 87 + n) && (87 + n <=? 70)) with false by lia.
    replace ((97 <=? 87 + n) && (87 + n <=? 102)) with true by lia. f_equal. lia.
Qed.

Lemma hex_val_48 : hex_val 48 = Some 0.
Proof. reflexivity. Qed.

Lemma read_unicode_control : forall b tl, b < 32 ->
  read_unicode (48 :: 48 :: hex_digit (b / 16) :: hex_digit (b mod 16) :: tl) = JOk [b] tl.
Proof.
  intros b tl Hb. unfold read_unicode, hex4. rewrite hex_val_48.
  rewrite (hex_val_hex_digit (b / 16)) by lia. rewrite (hex_val_hex_digit (b mod 16)) by lia.
  cbn [jbind].
  replace (((0 * 16 + 0) * 16 + b / 16) * 16 + b mod 16) with b by lia.
  replace ((56320 <=? b) && (b <=? 57343)) with false by lia.
  replace ((55296 <=? b) && (b <=? 56319)) with false by lia.
  unfold utf8_encode. replace (b <? 128) with true by lia. reflexivity.
Qed.

(* one source byte *)
Lemma read_str_short : forall f c x tl, read_escape (c :: tl) = JOk [x] tl ->
  read_str (S f) (92 :: c :: tl) = jbind (read_str f tl) (fun t r => JOk (x :: t) r).
Proof.
  intros f c x tl H. cbn [read_str]. change (92 =? 34) with false. change (92 =? 92) with true. cbv iota.
  rewrite H. cbn [jbind]. destruct (read_str f tl); reflexivity.
Qed.

Lemma read_str_escape_byte : forall f b tl,
  read_str (S f) (escape_byte b ++ tl) = jbind (read_str f tl) (fun t r => JOk (b :: t) r).
Proof.
  intros f b tl.
  destruct (b =? 34) eqn:E34.
  { apply N.eqb_eq in E34. subst b. change (escape_byte 34 ++ tl) with (92 :: 34 :: tl). apply read_str_short. reflexivity. }
  destruct (b =? 92) eqn:E92.
  { apply N.eqb_eq in E92. subst b. change (escape_byte 92 ++ tl) with (92 :: 92 :: tl). apply read_str_short. reflexivity. }
  destruct (b =? 8) eqn:E8.
  { apply N.eqb_eq in E8. subst b. change (escape_byte 8 ++ tl) with (92 :: 98 :: tl). apply read_str_short. reflexivity. }
  destruct (b =? 12) eqn:E12.
  { apply N.eqb_eq in E12. subst b. change (escape_byte 12 ++ tl) with (92 :: 102 :: tl). apply read_str_short. reflexivity. }
  destruct (b =? 10) eqn:E10.
  { apply N.eqb_eq in E10. subst b. change (escape_byte 10 ++ tl) with (92 :: 110 :: tl). apply read_str_short. reflexivity. }
  destruct (b =? 13) eqn:E13.
  { apply N.eqb_eq in E13. subst b. change (escape_byte 13 ++ tl) with (92 :: 114 :: tl). apply read_str_short. reflexivity. }
  destruct (b =? 9) eqn:E9.
  { apply N.eqb_eq in E9. subst b. change (escape_byte 9 ++ tl) with (92 :: 116 :: tl). apply read_str_short. reflexivity. }
  unfold escape_byte. rewrite E34, E92, E8, E12, E10, E13, E9.
  destruct (b <? 32) eqn:E32.
  { cbn [app read_str]. change (92 =? 34) with false. change (92 =? 92) with true. cbv iota.
    cbn [read_escape]. change (117 =? 34) with false. change (117 =? 92) with false.
    change (117 =? 47) with false. change (117 =? 98) with false. change (117 =? 102) with false.
    change (117 =? 110) with false. change (117 =? 114) with false. change (117 =? 116) with false.
    change (117 =? 117) with true. cbv iota.
    rewrite read_unicode_control by lia. cbn [jbind]. destruct (read_str f tl); reflexivity. }
  cbn [app read_str]. rewrite E34, E92, E32. reflexivity.
Qed.

Lemma read_str_escaped : forall s rest fuel, (length s < fuel)%nat ->
  read_str fuel (flat_map escape_byte s ++ 34 :: rest) = JOk s rest.
Proof.
  induction s as [|b s IH]; intros rest fuel Hf; (destruct fuel as [|f]; [cbn [List.length] in Hf; lia|]).
  - reflexivity.
  - cbn [flat_map]. rewrite <- app_assoc, read_str_escape_byte.
    rewrite IH by (cbn [List.length] in Hf; lia). reflexivity.
Qed.

Lemma read_string_json_string : forall s rest fuel, (length s < fuel)%nat -> utf8_valid s = true ->
  read_string fuel (flat_map escape_byte s ++ 34 :: rest) = JOk s rest.
Proof.
  intros s rest fuel Hf Hu. unfold read_string. rewrite read_str_escaped by exact Hf.
  cbn [jbind]. rewrite Hu. reflexivity.
Qed.

Lemma escape_byte_nonempty : forall b, (1 <= length (escape_byte b))%nat.
Proof.
  intros b. unfold escape_byte.
  repeat match goal with |- context [if ?c then _ else _] => destruct c end; cbn; lia.
Qed.

Lemma flat_map_escape_length : forall s, (length s <= length (flat_map escape_byte s))%nat.
Proof.
  induction s as [|b s IH]; [cbn; lia|]. cbn [flat_map]. rewrite app_length.
  pose proof (escape_byte_nonempty b). cbn [List.length]. lia.
Qed.
(* ------------------------------------------------------------------ *)
(** * One-step equations of the value reader *)

Lemma skip_ws_app : forall c s, forallb is_ws c = true -> skip_ws (c ++ s) = skip_ws s.
Proof.
  induction c as [|b c IH]; intros s H; [reflexivity|].
  cbn [forallb] in H. apply andb_prop in H. destruct H as [Hb Hc].
  cbn [app skip_ws]. rewrite Hb. apply IH. exact Hc.
Qed.

Lemma read_value_skip : forall c fuel depth s, forallb is_ws c = true ->
  read_value fuel depth (c ++ s) = read_value fuel depth s.
Proof. intros c [|f] depth s H; [reflexivity|]. cbn [read_value]. rewrite skip_ws_app by exact H. reflexivity. Qed.
Lemma read_elems_skip : forall c fuel depth s, forallb is_ws c = true ->
  read_elems fuel depth (c ++ s) = read_elems fuel depth s.
Proof. intros c [|f] depth s H; [reflexivity|]. cbn [read_elems]. rewrite skip_ws_app by exact H. reflexivity. Qed.
Lemma read_members_skip : forall c fuel depth s, forallb is_ws c = true ->
  read_members fuel depth (c ++ s) = read_members fuel depth s.
Proof. intros c [|f] depth s H; [reflexivity|]. cbn [read_members]. rewrite skip_ws_app by exact H. reflexivity. Qed.
Lemma read_member_skip : forall c rv fuel s, forallb is_ws c = true ->
  read_member rv fuel (c ++ s) = read_member rv fuel s.
Proof. intros c rv fuel s H. unfold read_member. rewrite skip_ws_app by exact H. reflexivity. Qed.

Lemma read_value_null : forall f d r, read_value (S f) d (110 :: 117 :: 108 :: 108 :: r) = JOk JNull r.
Proof. reflexivity. Qed.
Lemma read_value_true : forall f d r, read_value (S f) d (116 :: 114 :: 117 :: 101 :: r) = JOk (JBool true) r.
Proof. reflexivity. Qed.
Lemma read_value_false : forall f d r, read_value (S f) d (102 :: 97 :: 108 :: 115 :: 101 :: r) = JOk (JBool false) r.
Proof. reflexivity. Qed.
Lemma read_value_str : forall f d r,
  read_value (S f) d (34 :: r) = jbind (read_string f r) (fun t r1 => JOk (JStr t) r1).
Proof. reflexivity. Qed.
Lemma read_value_arr : forall f d r,
  read_value (S f) d (91 :: r) =
  match enter d with
  | None => JErr JDepth
  | Some d' =>
      match skip_ws r with
      | [] => JErr JEof
      | c :: r1 =>
          if c =? 93 then JOk (JArr []) r1
          else jbind (read_value f d' r) (fun v r2 =>
               jbind (read_elems f d' r2) (fun l r3 => JOk (JArr (v :: l)) r3))
      end
  end.
Proof. reflexivity. Qed.
Lemma read_value_obj : forall f d r,
  read_value (S f) d (123 :: r) =
  match enter d with
  | None => JErr JDepth
  | Some d' =>
      match skip_ws r with
      | [] => JErr JEof
      | c :: r1 =>
          if c =? 125 then JOk (JObj []) r1
          else jbind (read_member (read_value f d') f r) (fun kv r2 =>
               jbind (read_members f d' r2) (fun l r3 => JOk (JObj (kv :: l)) r3))
      end
  end.
Proof. reflexivity. Qed.
Lemma read_value_num : forall f d b r, ((b =? 45) || is_digit_b b) = true ->
  read_value (S f) d (b :: r) =
  match read_number (b :: r) with Some (tok, r1) => JOk (JNum tok) r1 | None => JErr JNumber end.
Proof.
  intros f d b r H. cbn [read_value skip_ws].
  replace (is_ws b) with false by (unfold is_ws, is_digit_b in *; lia).
  replace (b =? 110) with false by (unfold is_digit_b in *; lia).
  replace (b =? 116) with false by (unfold is_digit_b in *; lia).
  replace (b =? 102) with false by (unfold is_digit_b in *; lia).
  replace (b =? 34) with false by (unfold is_digit_b in *; lia).
  replace (b =? 91) with false by (unfold is_digit_b in *; lia).
  replace (b =? 123) with false by (unfold is_digit_b in *; lia).
  rewrite H. reflexivity.
Qed.
Lemma read_elems_close : forall f d r, read_elems (S f) d (93 :: r) = JOk [] r.
Proof. reflexivity. Qed.
Lemma read_elems_comma : forall f d r,
  read_elems (S f) d (44 :: r) =
  jbind (read_value f d r) (fun v r1 => jbind (read_elems f d r1) (fun l r2 => JOk (v :: l) r2)).
Proof. reflexivity. Qed.
Lemma read_members_close : forall f d r, read_members (S f) d (125 :: r) = JOk [] r.
Proof. reflexivity. Qed.
Lemma read_members_comma : forall f d r,
  read_members (S f) d (44 :: r) =
  jbind (read_member (read_value f d) f r) (fun kv r1 => jbind (read_members f d r1) (fun l r2 => JOk (kv :: l) r2)).
Proof. reflexivity. Qed.
Lemma read_member_quote : forall rv f r,
  read_member rv f (34 :: r) =
  jbind (read_string f r) (fun k r1 =>
    match skip_ws r1 with
    | [] => JErr JEof
    | c :: r2 => if c =? 58 then jbind (rv r2) (fun v r3 => JOk (k, v) r3) else JErr JSyntax
    end).
Proof. reflexivity. Qed.

(* ------------------------------------------------------------------ *)
(** * A printer with whitespace: every place where JSON allows whitespace takes its next chunk from [w]
      (an exhausted list gives the empty chunk) *)

Definition ws_ok (w : list bytes) : Prop := Forall (fun c => forallb is_ws c = true) w.

(* [pv] stays outside the fixpoint (as in List.map) so that [ws_value] below is guarded *)
Definition ws_tail {A} (pv : A -> list bytes -> bytes * list bytes) (close : N)
  : list A -> list bytes -> bytes * list bytes :=
  fix go (l : list A) (w : list bytes) : bytes * list bytes :=
  match l with
  | [] => (hd [] w ++ [close], tl w)                              (* ws ] *)
  | y :: l' =>
      let (ty, w1) := pv y (tl w) in
      let (t, w2) := go l' w1 in
      (hd [] w ++ 44 :: ty ++ t, w2)                              (* ws , item ... *)
  end.

Definition ws_member (pv : json -> list bytes -> bytes * list bytes) (kv : bytes * json) (w : list bytes)
  : bytes * list bytes :=
  let (tv, w1) := pv (snd kv) (tl (tl w)) in
  (hd [] w ++ json_string (fst kv) ++ hd [] (tl w) ++ 58 :: tv, w1).     (* ws "key" ws : value *)

(* ws token : the value with its leading whitespace, and the unused chunks *)
Fixpoint ws_value (j : json) (w : list bytes) {struct j} : bytes * list bytes :=
  match j with
  | JArr [] => (hd [] w ++ 91 :: hd [] (tl w) ++ [93], tl (tl w))
  | JArr (x :: l) =>
      let (tx, w1) := ws_value x (tl w) in
      let (t, w2) := ws_tail ws_value 93 l w1 in
      (hd [] w ++ 91 :: tx ++ t, w2)
  | JObj [] => (hd [] w ++ 123 :: hd [] (tl w) ++ [125], tl (tl w))
  | JObj (kv :: l) =>
      let (tm, w1) := ws_member ws_value kv (tl w) in
      let (t, w2) := ws_tail (ws_member ws_value) 125 l w1 in
      (hd [] w ++ 123 :: tm ++ t, w2)
  | _ => (hd [] w ++ json_text j, tl w)
  end.

(* the document: the value, then trailing whitespace *)
Definition json_text_ws (w : list bytes) (j : json) : bytes :=
  let (t, w1) := ws_value j w in t ++ hd [] w1.
Lemma ws_tail_nil : forall A (pv : A -> list bytes -> bytes * list bytes) close w,
  ws_tail pv close [] w = (hd [] w ++ [close], tl w).
Proof. reflexivity. Qed.
Lemma ws_tail_cons : forall A (pv : A -> list bytes -> bytes * list bytes) close y l w,
  ws_tail pv close (y :: l) w =
  let (ty, w1) := pv y (tl w) in let (t, w2) := ws_tail pv close l w1 in (hd [] w ++ 44 :: ty ++ t, w2).
Proof. reflexivity. Qed.
Lemma ws_value_arr_cons : forall x l w,
  ws_value (JArr (x :: l)) w =
  let (tx, w1) := ws_value x (tl w) in let (t, w2) := ws_tail ws_value 93 l w1 in (hd [] w ++ 91 :: tx ++ t, w2).
Proof. reflexivity. Qed.
Lemma ws_value_obj_cons : forall kv l w,
  ws_value (JObj (kv :: l)) w =
  let (tm, w1) := ws_member ws_value kv (tl w) in
  let (t, w2) := ws_tail (ws_member ws_value) 125 l w1 in (hd [] w ++ 123 :: tm ++ t, w2).
Proof. reflexivity. Qed.

(** induction on documents *)
Section JsonInd.
  Variable P : json -> Prop.
  Hypothesis HNull : P JNull.
  Hypothesis HBool : forall b, P (JBool b).
  Hypothesis HNum : forall tok, P (JNum tok).
  Hypothesis HStr : forall s, P (JStr s).
  Hypothesis HArr : forall l, Forall P l -> P (JArr l).
  Hypothesis HObj : forall kvs, Forall (fun kv => P (snd kv)) kvs -> P (JObj kvs).
  Fixpoint json_ind2 (j : json) : P j :=
    match j with
    | JNull => HNull
    | JBool b => HBool b
    | JNum tok => HNum tok
    | JStr s => HStr s
    | JArr l => HArr l ((fix go (l : list json) : Forall P l :=
                           match l with [] => Forall_nil _ | x :: t => Forall_cons x (json_ind2 x) (go t) end) l)
    | JObj kvs => HObj kvs ((fix go (l : list (bytes * json)) : Forall (fun kv => P (snd kv)) l :=
                           match l with [] => Forall_nil _ | x :: t => Forall_cons x (json_ind2 (snd x)) (go t) end) kvs)
    end.
End JsonInd.

(** whitespace bookkeeping *)
Lemma ws_ok_hd : forall w, ws_ok w -> forallb is_ws (hd [] w) = true.
Proof. intros w H. destruct H; [reflexivity|assumption]. Qed.
Lemma ws_ok_tl : forall w, ws_ok w -> ws_ok (tl w).
Proof. intros w H. destruct H; [constructor|assumption]. Qed.
#[local] Hint Resolve ws_ok_hd ws_ok_tl : wsdb.

(* what may follow a value *)
Definition stop_ok (rest : bytes) : bool :=
  match rest with
  | [] => true
  | b :: _ => is_ws b || (b =? 44) || (b =? 93) || (b =? 125)
  end.

Lemma stop_ok_num_stop : forall rest, stop_ok rest = true -> num_stop rest = true.
Proof.
  intros [|b r] H; [reflexivity|]. cbn [stop_ok num_stop] in *. unfold is_ws, is_digit_b in *. lia.
Qed.

Lemma stop_ok_chunk : forall c b r, forallb is_ws c = true -> stop_ok (b :: r) = true -> stop_ok (c ++ b :: r) = true.
Proof.
  intros [|x c] b r Hc Hb; [exact Hb|]. cbn [forallb] in Hc. apply andb_prop in Hc. destruct Hc as [Hx _].
  cbn [app stop_ok]. rewrite Hx. reflexivity.
Qed.

Lemma ws_tail_stop : forall A (pv : A -> list bytes -> bytes * list bytes) close l w rest,
  ws_ok w -> (close = 93 \/ close = 125) ->
  stop_ok (fst (ws_tail pv close l w) ++ rest) = true.
Proof.
  intros A pv close l w rest Hw Hc. destruct l as [|y l].
  - rewrite ws_tail_nil. cbn [fst]. rewrite <- app_assoc. cbn [app].
    apply stop_ok_chunk; [auto with wsdb|]. cbn [stop_ok]. destruct Hc; subst close; reflexivity.
  - rewrite ws_tail_cons. destruct (pv y (tl w)) as [ty w1]. destruct (ws_tail pv close l w1) as [t w2].
    cbn [fst]. rewrite <- app_assoc. cbn [app]. apply stop_ok_chunk; [auto with wsdb|]. reflexivity.
Qed.

Definition list_depth (l : list json) : nat := fold_right (fun x m => Nat.max (json_depth x) m) O l.
Definition members_depth (l : list (bytes * json)) : nat := fold_right (fun kv m => Nat.max (json_depth (snd kv)) m) O l.

(* the unused chunks are still whitespace *)
Lemma ws_tail_ok : forall A (pv : A -> list bytes -> bytes * list bytes) close l,
  Forall (fun y => forall w, ws_ok w -> ws_ok (snd (pv y w))) l ->
  forall w, ws_ok w -> ws_ok (snd (ws_tail pv close l w)).
Proof.
  intros A pv close l H. induction H as [|y l Hy _ IH]; intros w Hw.
  - rewrite ws_tail_nil. cbn [snd]. auto with wsdb.
  - rewrite ws_tail_cons. specialize (Hy (tl w) (ws_ok_tl _ Hw)).
    destruct (pv y (tl w)) as [ty w1]. cbn [snd] in Hy. specialize (IH w1 Hy).
    destruct (ws_tail pv close l w1) as [t w2]. exact IH.
Qed.

Lemma ws_member_ok : forall kv, (forall w, ws_ok w -> ws_ok (snd (ws_value (snd kv) w))) ->
  forall w, ws_ok w -> ws_ok (snd (ws_member ws_value kv w)).
Proof.
  intros kv H w Hw. unfold ws_member. specialize (H (tl (tl w)) (ws_ok_tl _ (ws_ok_tl _ Hw))).
  destruct (ws_value (snd kv) (tl (tl w))) as [tv w1]. exact H.
Qed.

Lemma ws_value_ok : forall j w, ws_ok w -> ws_ok (snd (ws_value j w)).
Proof.
  induction j using json_ind2; intros w Hw; try (cbn [ws_value snd]; auto with wsdb; fail).
  - destruct l as [|x l]; [cbn [ws_value snd]; auto with wsdb|].
    rewrite ws_value_arr_cons. inversion H as [|? ? Hx Hl]; subst.
    specialize (Hx (tl w) (ws_ok_tl _ Hw)). destruct (ws_value x (tl w)) as [tx w1]. cbn [snd] in Hx.
    pose proof (ws_tail_ok _ ws_value 93 l Hl w1 Hx) as Ht.
    destruct (ws_tail ws_value 93 l w1) as [t w2]. exact Ht.
  - destruct kvs as [|kv l]; [cbn [ws_value snd]; auto with wsdb|].
    rewrite ws_value_obj_cons. inversion H as [|? ? Hx Hl]; subst.
    pose proof (ws_member_ok kv Hx (tl w) (ws_ok_tl _ Hw)) as Hm.
    destruct (ws_member ws_value kv (tl w)) as [tm w1]. cbn [snd] in Hm.
    assert (Hl' : Forall (fun y => forall w, ws_ok w -> ws_ok (snd (ws_member ws_value y w))) l).
    { eapply Forall_impl; [|exact Hl]. intros a Ha. apply ws_member_ok. exact Ha. }
    pose proof (ws_tail_ok _ (ws_member ws_value) 125 l Hl' w1 Hm) as Ht.
    destruct (ws_tail (ws_member ws_value) 125 l w1) as [t w2]. exact Ht.
Qed.

(* the statement for one value; [rest] is whatever follows (a delimiter, whitespace, or nothing) *)
Definition rt_value (j : json) : Prop := forall w fuel depth rest,
  ws_ok w -> json_wf j = true -> (json_depth j < depth)%nat -> stop_ok rest = true ->
  (length (fst (ws_value j w)) < fuel)%nat ->
  read_value fuel depth (fst (ws_value j w) ++ rest) = JOk j rest.

Lemma rt_scalar : forall j core, (forall w, ws_value j w = (hd [] w ++ core, tl w)) ->
  (forall f d rest, stop_ok rest = true -> (length core <= f)%nat -> read_value (S f) d (core ++ rest) = JOk j rest) ->
  rt_value j.
Proof.
  intros j core Hv Hr w fuel depth rest Hw _ _ Hst Hf. rewrite Hv in *. cbn [fst snd] in *.
  rewrite <- app_assoc. rewrite read_value_skip by auto with wsdb.
  rewrite app_length in Hf. destruct fuel as [|f]; [lia|]. apply Hr; [exact Hst|lia].
Qed.

Lemma rt_elems : forall l, Forall rt_value l -> forall w fuel depth rest,
  ws_ok w -> forallb json_wf l = true -> (list_depth l < depth)%nat ->
  (length (fst (ws_tail ws_value 93 l w)) < fuel)%nat ->
  read_elems fuel depth (fst (ws_tail ws_value 93 l w) ++ rest) = JOk l rest.
Proof.
  intros l HP. induction HP as [|y l Hy _ IH]; intros w fuel depth rest Hw Hwf Hd Hf.
  - rewrite ws_tail_nil in *. cbn [fst snd] in *.
    rewrite <- app_assoc. rewrite read_elems_skip by auto with wsdb.
    destruct fuel as [|f]; [lia|]. reflexivity.
  - rewrite ws_tail_cons in *.
    cbn [forallb] in Hwf. apply andb_prop in Hwf. destruct Hwf as [Hwy Hwl].
    unfold list_depth in Hd. cbn [fold_right] in Hd. fold (list_depth l) in Hd.
    pose proof (ws_tail_stop _ ws_value 93 l (snd (ws_value y (tl w))) rest) as Hstop.
    pose proof (ws_value_ok y (tl w) (ws_ok_tl _ Hw)) as Hw1.
    specialize (Hy (tl w)). destruct (ws_value y (tl w)) as [ty w1] eqn:Ey. cbn [fst snd] in Hy, Hstop, Hw1.
    specialize (IH w1). destruct (ws_tail ws_value 93 l w1) as [t w2] eqn:Et. cbn [fst snd] in *.
    rewrite app_length in Hf. cbn [List.length] in Hf. rewrite app_length in Hf.
    destruct fuel as [|f]; [lia|].
    pose proof (Hy f depth (t ++ rest) (ws_ok_tl _ Hw) Hwy) as R1.
    rewrite <- app_assoc. rewrite read_elems_skip by auto with wsdb. cbn [app].
    rewrite read_elems_comma. rewrite <- app_assoc, R1; [|lia|apply Hstop; [exact Hw1|left; reflexivity]|lia].
    cbn [jbind]. rewrite IH; [reflexivity|exact Hw1|exact Hwl|lia|lia].
Qed.

Lemma json_string_cons : forall s, json_string s = 34 :: flat_map escape_byte s ++ [34].
Proof. reflexivity. Qed.

Lemma rt_member : forall kv, rt_value (snd kv) -> forall w f depth rest,
  ws_ok w -> utf8_valid (fst kv) = true -> json_wf (snd kv) = true -> (json_depth (snd kv) < depth)%nat ->
  stop_ok rest = true -> (length (fst (ws_member ws_value kv w)) <= f)%nat ->
  read_member (read_value f depth) f (fst (ws_member ws_value kv w) ++ rest) = JOk kv rest.
Proof.
  intros [k v] Hv w f depth rest Hw Hu Hwf Hd Hst Hf. cbn [fst snd] in *. unfold ws_member in *. cbn [fst snd] in *.
  specialize (Hv (tl (tl w))). destruct (ws_value v (tl (tl w))) as [tv w1]. cbn [fst snd] in *.
  rewrite json_string_cons in *.
  rewrite !app_length in Hf. cbn [List.length] in Hf. rewrite !app_length in Hf. cbn [List.length] in Hf.
  pose proof (flat_map_escape_length k) as Hk.
  rewrite <- app_assoc. rewrite read_member_skip by auto with wsdb.
  cbn [app]. rewrite read_member_quote.
  repeat rewrite <- app_assoc. cbn [app].
  rewrite read_string_json_string; [|lia|exact Hu]. cbn [jbind].
  rewrite skip_ws_app by auto with wsdb. cbn [skip_ws]. change (is_ws 58) with false. cbv iota.
  change (58 =? 58) with true. cbv iota.
  rewrite Hv; [reflexivity|auto with wsdb|exact Hwf|exact Hd|exact Hst|lia].
Qed.

Lemma rt_members : forall l, Forall (fun kv => rt_value (snd kv)) l -> forall w fuel depth rest,
  ws_ok w -> forallb (fun kv => utf8_valid (fst kv) && json_wf (snd kv)) l = true -> (members_depth l < depth)%nat ->
  (length (fst (ws_tail (ws_member ws_value) 125 l w)) < fuel)%nat ->
  read_members fuel depth (fst (ws_tail (ws_member ws_value) 125 l w) ++ rest) = JOk l rest.
Proof.
  intros l HP. induction HP as [|y l Hy _ IH]; intros w fuel depth rest Hw Hwf Hd Hf.
  - rewrite ws_tail_nil in *. cbn [fst snd] in *.
    rewrite <- app_assoc. rewrite read_members_skip by auto with wsdb.
    destruct fuel as [|f]; [lia|]. reflexivity.
  - rewrite ws_tail_cons in *.
    cbn [forallb] in Hwf. apply andb_prop in Hwf. destruct Hwf as [Hwy Hwl].
    apply andb_prop in Hwy. destruct Hwy as [Huy Hwy].
    unfold members_depth in Hd. cbn [fold_right] in Hd. fold (members_depth l) in Hd.
    pose proof (ws_tail_stop _ (ws_member ws_value) 125 l (snd (ws_member ws_value y (tl w))) rest) as Hstop.
    pose proof (ws_member_ok y (ws_value_ok (snd y)) (tl w) (ws_ok_tl _ Hw)) as Hw1.
    pose proof (rt_member y Hy (tl w)) as Hm.
    destruct (ws_member ws_value y (tl w)) as [ty w1] eqn:Ey. cbn [fst snd] in Hm, Hstop, Hw1.
    specialize (IH w1). destruct (ws_tail (ws_member ws_value) 125 l w1) as [t w2] eqn:Et. cbn [fst snd] in *.
    rewrite app_length in Hf. cbn [List.length] in Hf. rewrite app_length in Hf.
    destruct fuel as [|f]; [lia|].
    rewrite <- app_assoc. rewrite read_members_skip by auto with wsdb. cbn [app].
    rewrite read_members_comma. rewrite <- app_assoc.
    rewrite (Hm f depth (t ++ rest) (ws_ok_tl _ Hw) Huy Hwy); [|lia|apply Hstop; [exact Hw1|right; reflexivity]|lia].
    cbn [jbind]. rewrite IH; [reflexivity|exact Hw1|exact Hwl|lia|lia].
Qed.

Lemma enter_depth : forall n depth, (S n < depth)%nat -> exists d, enter depth = Some d /\ (n < d)%nat.
Proof.
  intros n [|[|d]] H; [lia|lia|]. exists (S d). split; [reflexivity|lia].
Qed.

Lemma skip_ws_chunk_head : forall c b r, forallb is_ws c = true -> is_ws b = false -> skip_ws (c ++ b :: r) = b :: r.
Proof. intros c b r Hc Hb. rewrite skip_ws_app by exact Hc. cbn [skip_ws]. rewrite Hb. reflexivity. Qed.

(* the round trip of one value, with any whitespace *)
Lemma rt_value_all : forall j, rt_value j.
Proof.
  induction j using json_ind2.
  - (* null *)
    apply (rt_scalar JNull [110; 117; 108; 108]); [reflexivity|]. intros. apply read_value_null.
  - destruct b.
    + apply (rt_scalar (JBool true) [116; 114; 117; 101]); [reflexivity|]. intros. apply read_value_true.
    + apply (rt_scalar (JBool false) [102; 97; 108; 115; 101]); [reflexivity|]. intros. apply read_value_false.
  - (* number *)
    intros w fuel depth rest Hw Hwf Hd Hst Hf. cbn [ws_value fst json_text json_wf] in *.
    rewrite <- app_assoc. rewrite read_value_skip by auto with wsdb.
    destruct fuel as [|f]; [lia|].
    destruct (json_number_wf_head tok Hwf) as (b & r & -> & Hb).
    cbn [app]. rewrite read_value_num by exact Hb.
    change (b :: r ++ rest) with ((b :: r) ++ rest).
    rewrite read_number_token; [reflexivity|exact Hwf|apply stop_ok_num_stop; exact Hst].
  - (* string *)
    intros w fuel depth rest Hw Hwf Hd Hst Hf. cbn [ws_value fst json_text json_wf] in *.
    rewrite json_string_cons in *.
    rewrite app_length in Hf. cbn [List.length] in Hf. rewrite app_length in Hf.
    pose proof (flat_map_escape_length s) as Hk.
    rewrite <- app_assoc. rewrite read_value_skip by auto with wsdb.
    destruct fuel as [|f]; [lia|].
    cbn [app]. rewrite read_value_str. rewrite <- app_assoc. cbn [app].
    rewrite read_string_json_string; [reflexivity|lia|exact Hwf].
  - (* array *)
    intros w fuel depth rest Hw Hwf Hd Hst Hf. cbn [json_wf json_depth] in Hwf, Hd. fold (list_depth l) in Hd.
    destruct (enter_depth _ _ Hd) as (d & Hen & Hdd).
    destruct l as [|x l].
    + cbn [ws_value fst] in *. rewrite <- app_assoc. rewrite read_value_skip by auto with wsdb.
      destruct fuel as [|f]; [lia|]. cbn [app]. rewrite read_value_arr, Hen.
      rewrite <- app_assoc. cbn [app]. rewrite skip_ws_chunk_head by (auto with wsdb). reflexivity.
    + rewrite ws_value_arr_cons in *. inversion H as [|? ? Hx Hl]; subst.
      cbn [forallb] in Hwf. apply andb_prop in Hwf. destruct Hwf as [Hwx Hwl].
      unfold list_depth in Hdd. cbn [fold_right] in Hdd. fold (list_depth l) in Hdd.
      pose proof (ws_tail_stop _ ws_value 93 l (snd (ws_value x (tl w))) rest) as Hstop.
      pose proof (ws_value_ok x (tl w) (ws_ok_tl _ Hw)) as Hw1.
      specialize (Hx (tl w)). destruct (ws_value x (tl w)) as [tx w1] eqn:Ex. cbn [fst snd] in Hx, Hstop, Hw1.
      pose proof (rt_elems l Hl w1) as He.
      destruct (ws_tail ws_value 93 l w1) as [t w2] eqn:Et. cbn [fst snd] in *.
      rewrite app_length in Hf. cbn [List.length] in Hf. rewrite app_length in Hf.
      rewrite <- app_assoc. rewrite read_value_skip by auto with wsdb.
      destruct fuel as [|f]; [lia|]. cbn [app]. rewrite read_value_arr, Hen.
      rewrite <- app_assoc.
      pose proof (Hx f d (t ++ rest) (ws_ok_tl _ Hw) Hwx) as R1.
      assert (R1' : read_value f d (tx ++ t ++ rest) = JOk x (t ++ rest)).
      { apply R1; [lia|apply Hstop; [exact Hw1|left; reflexivity]|lia]. }
      (* the reader looks at the first byte after [ *)
      destruct (skip_ws (tx ++ t ++ rest)) as [|c r1] eqn:Esk.
      { exfalso. destruct f as [|f']; [lia|]. cbn [read_value] in R1'. rewrite Esk in R1'. discriminate. }
      destruct (c =? 93) eqn:Ec.
      { exfalso. destruct f as [|f']; [lia|]. cbn [read_value] in R1'. rewrite Esk in R1'.
        apply N.eqb_eq in Ec. subst c. cbn in R1'. discriminate. }
      rewrite R1'. cbn [jbind]. rewrite He; [reflexivity|exact Hw1|exact Hwl|lia|lia].
  - (* object *)
    intros w fuel depth rest Hw Hwf Hd Hst Hf. cbn [json_wf json_depth] in Hwf, Hd. fold (members_depth kvs) in Hd.
    destruct (enter_depth _ _ Hd) as (d & Hen & Hdd).
    destruct kvs as [|kv l].
    + cbn [ws_value fst] in *. rewrite <- app_assoc. rewrite read_value_skip by auto with wsdb.
      destruct fuel as [|f]; [lia|]. cbn [app]. rewrite read_value_obj, Hen.
      rewrite <- app_assoc. cbn [app]. rewrite skip_ws_chunk_head by (auto with wsdb). reflexivity.
    + rewrite ws_value_obj_cons in *. inversion H as [|? ? Hx Hl]; subst.
      cbn [forallb] in Hwf. apply andb_prop in Hwf. destruct Hwf as [Hwx Hwl].
      apply andb_prop in Hwx. destruct Hwx as [Hux Hwx].
      unfold members_depth in Hdd. cbn [fold_right] in Hdd. fold (members_depth l) in Hdd.
      pose proof (ws_tail_stop _ (ws_member ws_value) 125 l (snd (ws_member ws_value kv (tl w))) rest) as Hstop.
      pose proof (ws_member_ok kv (ws_value_ok (snd kv)) (tl w) (ws_ok_tl _ Hw)) as Hw1.
      pose proof (rt_member kv Hx (tl w)) as Hm.
      (* the first byte of a member is whitespace or a quote *)
      assert (Hhead : forall tl_, exists c r1, skip_ws (fst (ws_member ws_value kv (tl w)) ++ tl_) = c :: r1 /\ (c =? 125) = false).
      { intros tl_. unfold ws_member. destruct (ws_value (snd kv) (tl (tl (tl w)))) as [tv w'].
        cbn [fst]. rewrite json_string_cons. rewrite <- app_assoc. rewrite skip_ws_app by auto with wsdb.
        cbn [app skip_ws]. change (is_ws 34) with false. cbv iota. eexists. eexists. split; reflexivity. }
      destruct (ws_member ws_value kv (tl w)) as [tm w1] eqn:Em. cbn [fst snd] in Hm, Hstop, Hw1, Hhead.
      pose proof (rt_members l Hl w1) as He.
      destruct (ws_tail (ws_member ws_value) 125 l w1) as [t w2] eqn:Et. cbn [fst snd] in *.
      rewrite app_length in Hf. cbn [List.length] in Hf. rewrite app_length in Hf.
      rewrite <- app_assoc. rewrite read_value_skip by auto with wsdb.
      destruct fuel as [|f]; [lia|]. cbn [app]. rewrite read_value_obj, Hen.
      rewrite <- app_assoc.
      destruct (Hhead (t ++ rest)) as (c & r1 & Esk & Ec). rewrite Esk, Ec.
      rewrite (Hm f d (t ++ rest) (ws_ok_tl _ Hw) Hux Hwx); [|lia|apply Hstop; [exact Hw1|right; reflexivity]|lia].
      cbn [jbind]. rewrite He; [reflexivity|exact Hw1|exact Hwl|lia|lia].
Qed.

(* ------------------------------------------------------------------ *)
(** * (b) Whitespace insensitivity *)

Lemma stop_ok_ws : forall c, forallb is_ws c = true -> stop_ok c = true.
Proof.
  intros [|b c] H; [reflexivity|]. cbn [forallb] in H. apply andb_prop in H. destruct H as [Hb _].
  cbn [stop_ok]. rewrite Hb. reflexivity.
Qed.

Lemma skip_ws_all : forall c, forallb is_ws c = true -> skip_ws c = [].
Proof. intros c H. rewrite <- (app_nil_r c). rewrite skip_ws_app by exact H. reflexivity. Qed.

Theorem json_parse_ws : forall w j fuel depth,
  ws_ok w -> json_wf j = true -> (json_depth j < depth)%nat -> (length (json_text_ws w j) < fuel)%nat ->
  json_parse fuel depth (json_text_ws w j) = JOk j [].
Proof.
  intros w j fuel depth Hw Hwf Hd Hf. unfold json_text_ws in *.
  pose proof (rt_value_all j w fuel depth (hd [] (snd (ws_value j w))) Hw Hwf Hd) as R.
  pose proof (ws_value_ok j w Hw) as Hw1.
  destruct (ws_value j w) as [t w1]. cbn [fst snd] in *.
  rewrite app_length in Hf. unfold json_parse. rewrite R; [|apply stop_ok_ws; auto with wsdb|lia].
  cbn [jbind]. rewrite skip_ws_all by auto with wsdb. reflexivity.
Qed.

Theorem json_read_ws : forall w j fuel,
  ws_ok w -> json_wf j = true -> (json_depth j < SERDE_JSON_DEPTH)%nat -> (length (json_text_ws w j) < fuel)%nat ->
  json_read fuel (json_text_ws w j) = Ok j.
Proof.
  intros w j fuel Hw Hwf Hd Hf. unfold json_read, json_read_depth.
  rewrite json_parse_ws by assumption. reflexivity.
Qed.

(* ------------------------------------------------------------------ *)
(** * (a) Round trip: the compact printer is the whitespace printer without whitespace *)

Lemma sep_concat_comma : forall (x : bytes) xs, sep_concat [44] (x :: xs) = x ++ flat_map (fun y => 44 :: y) xs.
Proof.
  intros x xs. revert x. induction xs as [|y xs IH]; intros x.
  - cbn [sep_concat flat_map]. rewrite app_nil_r. reflexivity.
  - change (sep_concat [44] (x :: y :: xs)) with (x ++ [44] ++ sep_concat [44] (y :: xs)).
    rewrite IH. reflexivity.
Qed.

Lemma ws_tail_compact : forall A (pv : A -> list bytes -> bytes * list bytes) (f : A -> bytes) close l,
  Forall (fun y => pv y [] = (f y, [])) l ->
  ws_tail pv close l [] = (flat_map (fun y => 44 :: y) (map f l) ++ [close], []).
Proof.
  intros A pv f close l H. induction H as [|y l Hy _ IH].
  - reflexivity.
  - rewrite ws_tail_cons. cbn [tl hd]. rewrite Hy, IH. cbn [map flat_map app]. rewrite <- app_assoc. reflexivity.
Qed.

Lemma ws_value_compact : forall j, ws_value j [] = (json_text j, []).
Proof.
  induction j using json_ind2; try reflexivity.
  - destruct l as [|x l]; [reflexivity|]. rewrite ws_value_arr_cons. inversion H as [|? ? Hx Hl]; subst.
    cbn [tl hd]. rewrite Hx. rewrite (ws_tail_compact _ ws_value json_text 93 l Hl).
    cbn [json_text]. change (lit ",") with [44]. change (lit "[") with [91]. change (lit "]") with [93].
    cbn [map]. rewrite sep_concat_comma. cbn [app]. repeat rewrite <- app_assoc. reflexivity.
  - destruct kvs as [|kv l]; [reflexivity|]. rewrite ws_value_obj_cons. inversion H as [|? ? Hx Hl]; subst.
    cbn [tl hd].
    assert (Hm : forall kv : bytes * json, ws_value (snd kv) [] = (json_text (snd kv), []) ->
              ws_member ws_value kv [] = (json_string (fst kv) ++ lit ":" ++ json_text (snd kv), [])).
    { intros kv' E. unfold ws_member. cbn [tl hd]. rewrite E. reflexivity. }
    rewrite (Hm kv Hx).
    rewrite (ws_tail_compact _ (ws_member ws_value)
               (fun kv => json_string (fst kv) ++ lit ":" ++ json_text (snd kv)) 125 l).
    2:{ eapply Forall_impl; [|exact Hl]. intros a Ha. apply Hm. exact Ha. }
    cbn [json_text]. change (lit ",") with [44]. change (lit "{") with [123]. change (lit "}") with [125].
    cbn [map]. rewrite sep_concat_comma. cbn [app]. repeat rewrite <- app_assoc. reflexivity.
Qed.

Lemma json_text_ws_nil : forall j, json_text_ws [] j = json_text j.
Proof. intros j. unfold json_text_ws. rewrite ws_value_compact. cbn [hd]. apply app_nil_r. Qed.

(* MAIN THEOREM (a), for any depth limit *)
Theorem json_parse_text : forall j fuel depth,
  json_wf j = true -> (json_depth j < depth)%nat -> (length (json_text j) < fuel)%nat ->
  json_parse fuel depth (json_text j) = JOk j [].
Proof.
  intros j fuel depth Hwf Hd Hf. rewrite <- json_text_ws_nil in *.
  apply json_parse_ws; [constructor|assumption..].
Qed.

(* with serde_json's limit, in the outcome type of the model *)
Theorem json_read_text : forall j fuel,
  json_wf j = true -> (json_depth j < SERDE_JSON_DEPTH)%nat -> (length (json_text j) < fuel)%nat ->
  json_read fuel (json_text j) = Ok j.
Proof.
  intros j fuel Hwf Hd Hf. unfold json_read, json_read_depth. rewrite json_parse_text by assumption. reflexivity.
Qed.

Corollary json_of_text_text : forall j,
  json_wf j = true -> (json_depth j < SERDE_JSON_DEPTH)%nat -> json_of_text (json_text j) = Ok j.
Proof. intros j Hwf Hd. apply json_read_text; [assumption..|lia]. Qed.

(* embedded in a larger text: the value reader stops exactly at the end of the value *)
Theorem read_value_text : forall j fuel depth rest,
  json_wf j = true -> (json_depth j < depth)%nat -> stop_ok rest = true -> (length (json_text j) < fuel)%nat ->
  read_value fuel depth (json_text j ++ rest) = JOk j rest.
Proof.
  intros j fuel depth rest Hwf Hd Hst Hf.
  pose proof (rt_value_all j [] fuel depth rest (Forall_nil _) Hwf Hd Hst) as R.
  rewrite ws_value_compact in R. cbn [fst] in R. apply R. exact Hf.
Qed.

(* the printer is injective on well-formed documents: the text determines the document *)
Corollary json_text_inj : forall j1 j2, json_wf j1 = true -> json_wf j2 = true ->
  json_text j1 = json_text j2 -> j1 = j2.
Proof.
  intros j1 j2 H1 H2 E.
  pose proof (json_parse_text j1 (S (length (json_text j1))) (S (Nat.max (json_depth j1) (json_depth j2))) H1) as R1.
  pose proof (json_parse_text j2 (S (length (json_text j2))) (S (Nat.max (json_depth j1) (json_depth j2))) H2) as R2.
  rewrite E in R1. rewrite R2 in R1 by lia. specialize (R1 ltac:(lia) ltac:(lia)). inversion R1. reflexivity.
Qed.

(* whitespace variants of one document, and of two documents with the same compact text *)
Corollary json_text_ws_inj : forall w1 w2 j1 j2, ws_ok w1 -> ws_ok w2 -> json_wf j1 = true -> json_wf j2 = true ->
  json_text_ws w1 j1 = json_text_ws w2 j2 -> j1 = j2.
Proof.
  intros w1 w2 j1 j2 Hw1 Hw2 H1 H2 E.
  pose proof (json_parse_ws w1 j1 (S (length (json_text_ws w1 j1))) (S (Nat.max (json_depth j1) (json_depth j2))) Hw1 H1) as R1.
  pose proof (json_parse_ws w2 j2 (S (length (json_text_ws w2 j2))) (S (Nat.max (json_depth j1) (json_depth j2))) Hw2 H2) as R2.
  rewrite E in R1. rewrite R2 in R1 by lia. specialize (R1 ltac:(lia) ltac:(lia)). inversion R1. reflexivity.
Qed.

(* the depth hypothesis is needed: one level too many is refused, with the dedicated error *)
Fixpoint nest (n : nat) : json := match n with O => JArr [] | S m => JArr [nest m] end.
Example depth_limit_refuted :
  json_wf (nest 127) = true /\ json_depth (nest 127) = 128%nat /\
  json_parse 1000 SERDE_JSON_DEPTH (json_text (nest 127)) = JErr JDepth /\
  json_parse 1000 SERDE_JSON_DEPTH (json_text (nest 126)) = JOk (nest 126) [].
Proof. vm_compute. repeat split; reflexivity. Qed.

(* [json_wf] is needed: a token that is not a number, a string that is not UTF-8 *)
Example wf_needed_number : json_parse 100 128 (json_text (JArr [JNum [48; 49]])) = JErr JNumber.
Proof. vm_compute. reflexivity. Qed.
Example wf_needed_number2 : json_parse 100 128 (json_text (JArr [JNum [49; 44; 50]])) = JOk (JArr [JNum [49]; JNum [50]]) [].
Proof. vm_compute. reflexivity. Qed.
Example wf_needed_utf8 : json_parse 100 128 (json_text (JStr [195])) = JErr JUtf8.
Proof. vm_compute. reflexivity. Qed.

(* ------------------------------------------------------------------ *)
(** * Decimal naturals are JSON numbers *)

Lemma span_digits_all : forall ds, forallb is_digit_b ds = true -> span_digits ds = (ds, []).
Proof.
  induction ds as [|d ds IH]; intros H; [reflexivity|]. cbn [forallb] in H. apply andb_prop in H.
  destruct H as [Hd Hds]. cbn [span_digits]. rewrite Hd, (IH Hds). reflexivity.
Qed.

Lemma digits_number_wf : forall d ds, is_digit_b d = true -> forallb is_digit_b ds = true ->
  (d = 48 -> ds = []) -> json_number_wf (d :: ds) = true.
Proof.
  intros d ds Hd Hds H0. unfold json_number_wf, read_number. cbn [read_sign negb andb].
  replace ((d =? 45) || false) with false by (unfold is_digit_b in Hd; lia).
  cbn [read_int]. destruct (d =? 48) eqn:E.
  - apply N.eqb_eq in E. rewrite (H0 E). reflexivity.
  - rewrite Hd, (span_digits_all ds Hds). reflexivity.
Qed.

Lemma ddf_shape : forall fuel n acc, n < 2 ^ N.of_nat fuel -> fuel <> O ->
  exists d ds, dec_digits_fuel fuel n acc = d :: ds ++ acc /\ is_digit_b d = true /\
               forallb is_digit_b ds = true /\ (n <> 0 -> d <> 48) /\ (n = 0 -> ds = []).
Proof.
  induction fuel as [|f IH]; intros n acc Hn Hf; [congruence|].
  cbn [dec_digits_fuel]. destruct (n <? 10) eqn:E.
  - apply N.ltb_lt in E. exists (48 + n mod 10), []. split; [reflexivity|].
    split; [unfold is_digit_b; lia|]. split; [reflexivity|]. split; [lia|reflexivity].
  - apply N.ltb_ge in E.
    assert (Hf0 : f <> O).
    { intros ->. change (2 ^ N.of_nat 1) with 2 in Hn. lia. }
    assert (Hn' : n / 10 < 2 ^ N.of_nat f).
    { rewrite Nat2N.inj_succ, N.pow_succ_r' in Hn. lia. }
    destruct (IH (n / 10) ((48 + n mod 10) :: acc) Hn' Hf0) as (d & ds & E1 & E2 & E3 & E4 & E5).
    exists d, (ds ++ [48 + n mod 10]). rewrite E1, <- app_assoc. split; [reflexivity|].
    split; [exact E2|]. split; [rewrite forallb_app, E3; cbn [forallb]; unfold is_digit_b; lia|].
    split; [intros _; apply E4; lia|lia].
Qed.

Lemma dec_digits_number_wf : forall n, json_number_wf (dec_digits n) = true.
Proof.
  intros n. unfold dec_digits.
  destruct (ddf_shape (S (N.to_nat (N.log2 n))) n []) as (d & ds & E1 & E2 & E3 & E4 & E5).
  - rewrite Nat2N.inj_succ, N2Nat.id. destruct (N.eq_dec n 0) as [->|Hn]; [reflexivity|].
    apply N.log2_spec. lia.
  - discriminate.
  - rewrite E1, app_nil_r. apply digits_number_wf; [exact E2|exact E3|].
    intros Hd. apply E5. destruct (N.eq_dec n 0) as [Hn|Hn]; [exact Hn|]. exfalso. exact (E4 Hn Hd).
Qed.

(* ------------------------------------------------------------------ *)
(** * The result does not depend on the fuel (once it is not exhausted) *)

Definition mono {A} (r r' : jres A) : Prop := r <> JFuel -> r' = r.

Lemma mono_refl : forall A (r : jres A), mono r r.
Proof. intros A r _. reflexivity. Qed.

Lemma mono_bind : forall A B (r r' : jres A) (k k' : A -> bytes -> jres B),
  mono r r' -> (forall a rest, mono (k a rest) (k' a rest)) -> mono (jbind r k) (jbind r' k').
Proof.
  intros A B r r' k k' H K N. destruct r as [a rest|e|].
  - rewrite H by discriminate. cbn [jbind] in *. apply K. exact N.
  - rewrite H by discriminate. reflexivity.
  - cbn [jbind] in N. congruence.
Qed.

Lemma read_str_mono : forall f f' s, (f <= f')%nat -> mono (read_str f s) (read_str f' s).
Proof.
  induction f as [|f IH]; intros f' s Hf; [intros N; cbn [read_str] in N; congruence|].
  destruct f' as [|f']; [lia|]. cbn [read_str].
  destruct s as [|b r]; [apply mono_refl|].
  destruct (b =? 34); [apply mono_refl|].
  destruct (b =? 92).
  { apply mono_bind; [apply mono_refl|]. intros e r1. apply mono_bind; [apply IH; lia|]. intros; apply mono_refl. }
  destruct (b <? 32); [apply mono_refl|].
  apply mono_bind; [apply IH; lia|]. intros; apply mono_refl.
Qed.

Lemma read_string_mono : forall f f' s, (f <= f')%nat -> mono (read_string f s) (read_string f' s).
Proof.
  intros f f' s Hf. unfold read_string. apply mono_bind; [apply read_str_mono; exact Hf|]. intros; apply mono_refl.
Qed.

Lemma read_member_mono : forall rv rv' f f' s, (f <= f')%nat -> (forall s', mono (rv s') (rv' s')) ->
  mono (read_member rv f s) (read_member rv' f' s).
Proof.
  intros rv rv' f f' s Hf Hrv. unfold read_member.
  destruct (skip_ws s) as [|q r]; [apply mono_refl|].
  destruct (q =? 34); [|apply mono_refl].
  apply mono_bind; [apply read_string_mono; exact Hf|]. intros k r1.
  destruct (skip_ws r1) as [|c r2]; [apply mono_refl|].
  destruct (c =? 58); [|apply mono_refl].
  apply mono_bind; [apply Hrv|]. intros; apply mono_refl.
Qed.

Lemma read_value_mono_all : forall f,
  (forall f' d s, (f <= f')%nat -> mono (read_value f d s) (read_value f' d s)) /\
  (forall f' d s, (f <= f')%nat -> mono (read_elems f d s) (read_elems f' d s)) /\
  (forall f' d s, (f <= f')%nat -> mono (read_members f d s) (read_members f' d s)).
Proof.
  induction f as [|f [IHv [IHe IHm]]].
  { repeat split; intros f' d s _ N; cbn in N; congruence. }
  split; [|split]; intros f' d s Hf; (destruct f' as [|f']; [lia|]).
  - cbn [read_value]. destruct (skip_ws s) as [|b r]; [apply mono_refl|].
    destruct (b =? 110); [apply mono_refl|].
    destruct (b =? 116); [apply mono_refl|].
    destruct (b =? 102); [apply mono_refl|].
    destruct (b =? 34).
    { apply mono_bind; [apply read_string_mono; lia|]. intros; apply mono_refl. }
    destruct (b =? 91).
    { destruct (enter d) as [d'|]; [|apply mono_refl].
      destruct (skip_ws r) as [|c r1]; [apply mono_refl|].
      destruct (c =? 93); [apply mono_refl|].
      apply mono_bind; [apply IHv; lia|]. intros v r2.
      apply mono_bind; [apply IHe; lia|]. intros; apply mono_refl. }
    destruct (b =? 123).
    { destruct (enter d) as [d'|]; [|apply mono_refl].
      destruct (skip_ws r) as [|c r1]; [apply mono_refl|].
      destruct (c =? 125); [apply mono_refl|].
      apply mono_bind; [apply read_member_mono; [lia|intros s'; apply IHv; lia]|]. intros kv r2.
      apply mono_bind; [apply IHm; lia|]. intros; apply mono_refl. }
    apply mono_refl.
  - cbn [read_elems]. destruct (skip_ws s) as [|c r]; [apply mono_refl|].
    destruct (c =? 93); [apply mono_refl|].
    destruct (c =? 44); [|apply mono_refl].
    apply mono_bind; [apply IHv; lia|]. intros v r2.
    apply mono_bind; [apply IHe; lia|]. intros; apply mono_refl.
  - cbn [read_members]. destruct (skip_ws s) as [|c r]; [apply mono_refl|].
    destruct (c =? 125); [apply mono_refl|].
    destruct (c =? 44); [|apply mono_refl].
    apply mono_bind; [apply read_member_mono; [lia|intros s'; apply IHv; lia]|]. intros kv r2.
    apply mono_bind; [apply IHm; lia|]. intros; apply mono_refl.
Qed.

(* more fuel never changes a result that was not OutOfFuel *)
Theorem json_parse_more_fuel : forall f f' depth text, (f <= f')%nat ->
  json_parse f depth text <> JFuel -> json_parse f' depth text = json_parse f depth text.
Proof.
  intros f f' depth text Hf. unfold json_parse.
  apply (mono_bind _ _ (read_value f depth text) (read_value f' depth text)).
  - apply (proj1 (read_value_mono_all f)). exact Hf.
  - intros; apply mono_refl.
Qed.

(* (c), second half: any two sufficient fuels give the same outcome; [json_of_text] is THE result *)
Theorem json_read_fuel_irrelevant : forall fuel text, (length text < fuel)%nat ->
  json_read fuel text = json_of_text text.
Proof.
  intros fuel text Hf. unfold json_of_text, json_read, json_read_depth.
  assert (E : json_parse fuel SERDE_JSON_DEPTH text = json_parse (S (length text)) SERDE_JSON_DEPTH text).
  { apply json_parse_more_fuel; [lia|].
    destruct (json_parse_total (S (length text)) SERDE_JSON_DEPTH text) as [[j E]|[e E]]; [lia|rewrite E; discriminate..]. }
  rewrite E. reflexivity.
Qed.

(* ------------------------------------------------------------------ *)
(** * [json_number_wf] is the JSON number grammar
      number = [ minus ] int [ frac ] [ exp ]      (RFC 8259, section 6) *)

Definition all_digits (ds : bytes) : Prop := forallb is_digit_b ds = true.
Definition int_part (ip : bytes) : Prop :=
  ip = [48] \/ exists d ds, ip = d :: ds /\ is_digit_b d = true /\ d <> 48 /\ all_digits ds.
Definition frac_part (fp : bytes) : Prop :=
  fp = [] \/ exists ds, fp = 46 :: ds /\ ds <> [] /\ all_digits ds.
Definition exp_part (ep : bytes) : Prop :=
  ep = [] \/ exists e sg ds, ep = e :: sg ++ ds /\ (e = 101 \/ e = 69) /\ (sg = [] \/ sg = [43] \/ sg = [45]) /\
                             ds <> [] /\ all_digits ds.
Definition is_json_number (tok : bytes) : Prop :=
  exists sg ip fp ep, tok = sg ++ ip ++ fp ++ ep /\ (sg = [] \/ sg = [45]) /\ int_part ip /\ frac_part fp /\ exp_part ep.

(* what the parts of the reader return *)
Lemma read_sign_shape : forall m s sg r, read_sign m s = (sg, r) ->
  sg = [] \/ sg = [45] \/ (m = false /\ sg = [43]).
Proof.
  intros m [|b s] sg r H; cbn [read_sign] in H; [inversion H; left; reflexivity|].
  destruct ((b =? 45) || (negb m && (b =? 43))) eqn:E; inversion H; subst; [|left; reflexivity].
  destruct (b =? 45) eqn:E1; [apply N.eqb_eq in E1; subst; right; left; reflexivity|].
  destruct m; cbn [negb andb orb] in E; [discriminate|]. apply N.eqb_eq in E. subst. right; right. split; reflexivity.
Qed.

Lemma read_int_shape : forall s i r, read_int s = Some (i, r) -> int_part i.
Proof.
  intros [|b s] i r H; cbn [read_int] in H; [discriminate|].
  destruct (b =? 48) eqn:E0.
  - apply N.eqb_eq in E0. subst b. left.
    destruct s as [|c s']; [inversion H; reflexivity|]. destruct (is_digit_b c); [discriminate|]. inversion H; reflexivity.
  - destruct (is_digit_b b) eqn:Eb; [|discriminate].
    destruct (span_digits s) as [d r'] eqn:E. inversion H; subst. right. exists b, d.
    split; [reflexivity|]. split; [exact Eb|]. split; [lia|]. exact (proj2 (span_digits_split _ _ _ E)).
Qed.

Lemma read_frac_shape : forall s f r, read_frac s = Some (f, r) -> frac_part f.
Proof.
  intros [|b s] f r H; cbn [read_frac] in H; [inversion H; left; reflexivity|].
  destruct (b =? 46) eqn:E0.
  - apply N.eqb_eq in E0. subst b. destruct (digits1 s) as [[d r']|] eqn:E; [|discriminate]. inversion H; subst.
    destruct (digits1_split _ _ _ E) as (_ & Hd & Hne). right. exists d. repeat split; assumption.
  - inversion H. left; reflexivity.
Qed.

Lemma read_exp_shape : forall s e r, read_exp s = Some (e, r) -> exp_part e.
Proof.
  intros [|b s] e r H; cbn [read_exp] in H; [inversion H; left; reflexivity|].
  destruct ((b =? 101) || (b =? 69)) eqn:E0.
  - destruct (read_sign false s) as [sg r1] eqn:Es.
    destruct (digits1 r1) as [[d r']|] eqn:E; [|discriminate]. inversion H; subst.
    destruct (digits1_split _ _ _ E) as (_ & Hd & Hne). right. exists b, sg, d.
    split; [reflexivity|]. split; [lia|]. split; [|split; assumption].
    destruct (read_sign_shape _ _ _ _ Es) as [?|[?|[_ ?]]]; auto.
  - inversion H. left; reflexivity.
Qed.

Lemma json_number_wf_grammar : forall tok, json_number_wf tok = true -> is_json_number tok.
Proof.
  intros tok H. pose proof (json_number_wf_read tok H) as E. unfold read_number in E.
  destruct (read_sign true tok) as [sg s1] eqn:E1.
  destruct (read_int s1) as [[i s2]|] eqn:E2; [|discriminate].
  destruct (read_frac s2) as [[f s3]|] eqn:E3; [|discriminate].
  destruct (read_exp s3) as [[e s4]|] eqn:E4; [|discriminate].
  inversion E as [[Et Er]]. exists sg, i, f, e. split; [first [reflexivity | symmetry; exact Et]|].
  split. { destruct (read_sign_shape _ _ _ _ E1) as [?|[?|[? _]]]; auto; discriminate. }
  split; [exact (read_int_shape _ _ _ E2)|]. split; [exact (read_frac_shape _ _ _ E3)|exact (read_exp_shape _ _ _ E4)].
Qed.

(* the other direction: each part is recognised in front of what may follow it *)
Definition nd (rest : bytes) : Prop := match rest with [] => True | b :: _ => is_digit_b b = false end.

Lemma span_digits_app : forall ds rest, all_digits ds -> nd rest -> span_digits (ds ++ rest) = (ds, rest).
Proof.
  induction ds as [|d ds IH]; intros rest Hd Hn.
  - cbn [app]. destruct rest as [|b r]; [reflexivity|]. cbn [span_digits]. cbn [nd] in Hn. rewrite Hn. reflexivity.
  - unfold all_digits in Hd. cbn [forallb] in Hd. apply andb_prop in Hd. destruct Hd as [Hd Hds].
    cbn [app span_digits]. rewrite Hd, (IH rest Hds Hn). reflexivity.
Qed.

Lemma digits1_app : forall ds rest, all_digits ds -> ds <> [] -> nd rest -> digits1 (ds ++ rest) = Some (ds, rest).
Proof.
  intros ds rest Hd Hne Hn. unfold digits1. rewrite span_digits_app by assumption. destruct ds; [congruence|reflexivity].
Qed.

Lemma exp_part_read : forall ep, exp_part ep -> read_exp ep = Some (ep, []) /\ nd ep /\ (forall b r, ep = b :: r -> b <> 46).
Proof.
  intros ep [->|(e & sg & ds & -> & He & Hsg & Hne & Hd)].
  - split; [reflexivity|]. split; [exact I|]. intros; discriminate.
  - split; [|split].
    + cbn [read_exp]. replace ((e =? 101) || (e =? 69)) with true by lia.
      assert (Es : read_sign false (sg ++ ds) = (sg, ds)).
      { destruct Hsg as [->|[->| ->]]; try reflexivity. cbn [app].
        destruct ds as [|d ds']; [congruence|]. unfold all_digits in Hd. cbn [forallb] in Hd.
        apply andb_prop in Hd. destruct Hd as [Hd0 _]. cbn [read_sign negb andb].
        replace ((d =? 45) || (d =? 43)) with false by (unfold is_digit_b in Hd0; lia). reflexivity. }
      rewrite Es. rewrite <- (app_nil_r ds) at 1. rewrite digits1_app by (assumption || exact I). reflexivity.
    + cbn [nd]. unfold is_digit_b. lia.
    + intros b r Hb. inversion Hb; subst. lia.
Qed.

Lemma frac_exp_read : forall fp ep, frac_part fp -> exp_part ep ->
  read_frac (fp ++ ep) = Some (fp, ep) /\ nd (fp ++ ep).
Proof.
  intros fp ep Hf He. destruct (exp_part_read ep He) as (_ & Hnd & H46).
  destruct Hf as [->|(ds & -> & Hne & Hd)].
  - cbn [app]. split; [|exact Hnd]. destruct ep as [|b r]; [reflexivity|]. cbn [read_frac].
    replace (b =? 46) with false by (specialize (H46 b r eq_refl); lia). reflexivity.
  - cbn [app read_frac]. change (46 =? 46) with true. cbv iota.
    rewrite digits1_app by assumption. split; [reflexivity|]. cbn [nd]. reflexivity.
Qed.

Lemma grammar_json_number_wf : forall tok, is_json_number tok -> json_number_wf tok = true.
Proof.
  intros tok (sg & ip & fp & ep & -> & Hsg & Hi & Hf & He).
  destruct (frac_exp_read fp ep Hf He) as [Rf Hnd]. destruct (exp_part_read ep He) as (Re & _ & _).
  assert (Ri : read_int (ip ++ fp ++ ep) = Some (ip, fp ++ ep)).
  { destruct Hi as [->|(d & ds & -> & Hd & Hd0 & Hds)].
    - cbn [app read_int]. change (48 =? 48) with true. cbv iota.
      destruct (fp ++ ep) as [|c r]; [reflexivity|]. cbn [nd] in Hnd. rewrite Hnd. reflexivity.
    - cbn [app read_int]. replace (d =? 48) with false by lia. rewrite Hd.
      rewrite span_digits_app by assumption. reflexivity. }
  assert (Hhead : exists d r, ip ++ fp ++ ep = d :: r /\ is_digit_b d = true).
  { destruct Hi as [->|(d & ds & -> & Hd & _ & _)]; cbn [app]; eexists; eexists; split; reflexivity || assumption. }
  assert (Rs : read_sign true (sg ++ ip ++ fp ++ ep) = (sg, ip ++ fp ++ ep)).
  { destruct Hsg as [->| ->]; [|reflexivity]. cbn [app]. destruct Hhead as (d & r & -> & Hd).
    cbn [read_sign negb andb]. replace ((d =? 45) || false) with false by (unfold is_digit_b in Hd; lia). reflexivity. }
  unfold json_number_wf, read_number. rewrite Rs, Ri, Rf, Re. reflexivity.
Qed.

Theorem json_number_wf_iff : forall tok, json_number_wf tok = true <-> is_json_number tok.
Proof. intros tok. split; [apply json_number_wf_grammar|apply grammar_json_number_wf]. Qed.

(* ------------------------------------------------------------------ *)
(** * Examples *)

(* a schema document with every escape kind, both hex cases, a surrogate pair (twice), raw UTF-8,
   nested objects and arrays, odd whitespace (space, tab, CR, LF -- also inside [ ] and { }),
   duplicate keys (kept, in order), every shape of number *)
Definition ex_text : bytes :=
  [32; 10] ++ lit "{ ""type"" : ""record""," ++ [13; 10; 9] ++
  lit """name"":""R\u00e9"", ""doc"" :" ++ [9] ++
  lit """q\"" b\\ s\/ \b\f\n\r\t \u0041\u00E9\u20ac \uD83D\uDE00\ud83d\ude00 " ++ [195; 169; 240; 159; 152; 128] ++ lit """," ++ [10] ++
  lit """fields"" : [ {""name"":""a"",""type"":{""type"":""array"",""items"":[""null"",""int""]}} ," ++ [10; 32; 32] ++
  lit "{""name"":""a"", ""type"":""long"", ""default"": -1.5e+3, ""order"":[0,-0,12E-7,0.0,true,false,null,[ ],{" ++ [9] ++ lit "}]} ]," ++
  lit """name"" : ""dup"" }" ++ [10].
Definition ex_doc : json :=
  JObj [(lit "type", JStr (lit "record"));
        (lit "name", JStr (lit "R" ++ [195; 169]));
        (lit "doc", JStr (lit "q"" b\ s/ " ++ [8; 12; 10; 13; 9] ++ lit " A" ++ [195; 169; 226; 130; 172] ++ lit " " ++
                          [240; 159; 152; 128; 240; 159; 152; 128] ++ lit " " ++ [195; 169; 240; 159; 152; 128]));
        (lit "fields", JArr [
           JObj [(lit "name", JStr (lit "a"));
                 (lit "type", JObj [(lit "type", JStr (lit "array")); (lit "items", JArr [JStr (lit "null"); JStr (lit "int")])])];
           JObj [(lit "name", JStr (lit "a")); (lit "type", JStr (lit "long")); (lit "default", JNum (lit "-1.5e+3"));
                 (lit "order", JArr [JNum (lit "0"); JNum (lit "-0"); JNum (lit "12E-7"); JNum (lit "0.0");
                                     JBool true; JBool false; JNull; JArr []; JObj []])]]);
        (lit "name", JStr (lit "dup"))].
Example ex_reads : json_of_text ex_text = Ok ex_doc.
Proof. vm_compute. reflexivity. Qed.
Example ex_doc_wf : json_wf ex_doc = true /\ json_depth ex_doc = 5%nat.
Proof. vm_compute. split; reflexivity. Qed.
(* printed compactly (control characters as short escapes, non-ASCII raw) and read again *)
Example ex_reprint : json_of_text (json_text ex_doc) = Ok ex_doc.
Proof. apply json_of_text_text; [vm_compute; reflexivity|vm_compute; lia]. Qed.
(* the whitespace printer: chunks are consumed left to right *)
Example ex_ws_printer :
  json_text_ws [lit " "; [9]; []; [10]; lit "  "; []; [13]; [32]] (JObj [(lit "a", JArr [JNum (lit "1"); JNull])])
  = lit " {" ++ [9] ++ lit """a"":" ++ [10] ++ lit "[  1,"  ++ [13] ++ lit "null ]}".
Proof. vm_compute. reflexivity. Qed.
(* control characters below 0x20 without a short escape are printed as \u00XX and read back *)
Example ex_control : json_text (JStr [0; 1; 31; 127]) = lit """\u0000\u0001\u001f" ++ [127; 34] /\
  json_of_text (json_text (JStr [0; 1; 31; 127])) = Ok (JStr [0; 1; 31; 127]).
Proof. vm_compute. split; reflexivity. Qed.

(** rejected texts, with serde_json's reason *)
Definition why (text : bytes) : jres json := json_parse (S (length text)) SERDE_JSON_DEPTH text.
Example rej_lone_leading : why (lit """\uD83D""") = JErr JEof /\ why (lit """\uD83D x""") = JErr JSurrogate.
Proof. vm_compute. split; reflexivity. Qed.
Example rej_lone_leading_then_escape : why (lit """\uD83D\n""") = JErr JSurrogate.
Proof. vm_compute. reflexivity. Qed.
Example rej_leading_then_non_trailing : why (lit """\uD83DA""") = JErr JSurrogate.
Proof. vm_compute. reflexivity. Qed.
Example rej_lone_trailing : why (lit """\uDE00""") = JErr JSurrogate.
Proof. vm_compute. reflexivity. Qed.
Example rej_raw_newline : why ([34; 97; 10; 98; 34]) = JErr JControl.
Proof. vm_compute. reflexivity. Qed.
Example rej_raw_tab : why ([34; 9; 34]) = JErr JControl.
Proof. vm_compute. reflexivity. Qed.
Example rej_trailing_comma_array : why (lit "[1,]") = JErr JSyntax.
Proof. vm_compute. reflexivity. Qed.
Example rej_trailing_comma_object : why (lit "{""a"":1,}") = JErr JSyntax.
Proof. vm_compute. reflexivity. Qed.
Example rej_trailing_garbage : why (lit "{} x") = JErr JTrailing /\ why (lit "1 2") = JErr JTrailing /\ why (lit "nullnull") = JErr JTrailing.
Proof. vm_compute. repeat split; reflexivity. Qed.
Example rej_leading_zero : why (lit "01") = JErr JNumber /\ why (lit "[-01]") = JErr JNumber.
Proof. vm_compute. split; reflexivity. Qed.
Example rej_plus : why (lit "+1") = JErr JSyntax.
Proof. vm_compute. reflexivity. Qed.
Example rej_dot5 : why (lit ".5") = JErr JSyntax.
Proof. vm_compute. reflexivity. Qed.
Example rej_1dot : why (lit "1.") = JErr JNumber /\ why (lit "1.e5") = JErr JNumber.
Proof. vm_compute. split; reflexivity. Qed.
Example rej_exp : why (lit "1e") = JErr JNumber /\ why (lit "1e+") = JErr JNumber /\ why (lit "-") = JErr JNumber.
Proof. vm_compute. repeat split; reflexivity. Qed.
Example rej_depth : why (repeat 91 128 ++ repeat 93 128) = JErr JDepth /\
                    is_ok (json_of_text (repeat 91 127 ++ repeat 93 127)) = true.
Proof. vm_compute. split; reflexivity. Qed.
Example rej_depth_mixed : why (flat_map (fun _ => lit "{""a"":[") (repeat tt 64) ++ flat_map (fun _ => lit "]}") (repeat tt 64)) = JErr JDepth.
Proof. vm_compute. reflexivity. Qed.
Example rej_utf8 : why [34; 195; 34] = JErr JUtf8 /\ why [34; 237; 160; 128; 34] = JErr JUtf8 /\ why [34; 255; 34] = JErr JUtf8.
Proof. vm_compute. repeat split; reflexivity. Qed.
Example rej_misc :
  why [] = JErr JEof /\ why (lit "  ") = JErr JEof /\ why (lit """abc") = JErr JEof /\ why (lit "[1") = JErr JEof /\
  why (lit "nul") = JErr JEof /\ why (lit "TRUE") = JErr JSyntax /\ why (lit "{""a"" 1}") = JErr JSyntax /\
  why (lit "{a:1}") = JErr JSyntax /\ why (lit "{1:1}") = JErr JSyntax /\ why (lit "[1 2]") = JErr JSyntax /\
  why (lit """\x""") = JErr JEscape /\ why (lit """\u12G4""") = JErr JEscape /\ why (lit """\u12") = JErr JEof /\
  why (lit "'a'") = JErr JSyntax /\ why (lit "[,1]") = JErr JSyntax /\ why (lit "]") = JErr JSyntax.
Proof. vm_compute. repeat split; reflexivity. Qed.
(* a byte order mark, a form feed or a no-break space are not whitespace *)
Example rej_not_ws : why ([239; 187; 191] ++ lit "1") = JErr JSyntax /\ why [12; 49] = JErr JSyntax /\ why [194; 160; 49] = JErr JSyntax.
Proof. vm_compute. repeat split; reflexivity. Qed.

(* ------------------------------------------------------------------ *)
(** * Assumptions *)
Print Assumptions json_parse_total.
Print Assumptions json_read_total.
Print Assumptions json_parse_text.
Print Assumptions json_read_text.
Print Assumptions read_value_text.
Print Assumptions json_parse_ws.
Print Assumptions json_read_ws.
Print Assumptions json_text_inj.
Print Assumptions json_text_ws_inj.
Print Assumptions dec_digits_number_wf.
Print Assumptions json_number_wf_iff.
Print Assumptions json_parse_more_fuel.
Print Assumptions json_read_fuel_irrelevant.
