(** C01 for ordinary Rust data types: the serializer theorem joined with the typed decoder
    theorem (DS7.de_typed_complete) through the canonical layout, as RoundTripProofs does for the
    dynamically typed consumer. *)
From Coq Require Import NArith ZArith List Lia Bool.
Import ListNotations.
Require Import Base Kinds Schema Varint Utf8 Sval Target Reader Ser Text De.
Require Import AvroValue Encoding Denote Wf.
Require SerProofs DeProofs.
Require Import RoundTripProofs DS7.
Open Scope N_scope.

Lemma root_node_wf Sc root : schema_wf Sc = true -> fnode_at Sc 0 = Some root -> node_wf Sc root = true.
Proof.
  intros Hwf Hr. unfold schema_wf in Hwf. apply andb_prop in Hwf. destruct Hwf as [_ Hall].
  rewrite forallb_forall in Hall. apply Hall. unfold fnode_at in Hr. eapply nth_error_In. exact Hr.
Qed.

Theorem roundtrip_typed_node : forall Sc cfg n v rest pos ma fuel depth tf,
  schema_wf Sc = true -> node_wf Sc n = true ->
  conforms Sc n v = true ->
  SerProofs.value_limits Sc n v = true -> SerProofs.sizes_ok v = true ->
  seq_limits cfg v = true ->
  (tcost (canon v) <= depth)%nat ->
  (Z.of_nat (length (spec_encode Sc n v)) <= I64_MAX)%Z ->
  (DeProofs.de_fuel (canon v) <= fuel)%nat ->
  (depth_cost (canon v) < tf)%nat ->
  exists d,
    de Sc cfg fuel n depth false false (typed_target Sc tf n) (mkRd (spec_encode Sc n v ++ rest) pos None ma)
      = (Ok d, mkRd rest (pos + N.of_nat (length (spec_encode Sc n v))) None ma)
    /\ erase_borrow d = dval_typed Sc n v.
Proof.
  intros Sc cfg n v rest pos ma fuel depth tf Hwf Hn Hc Hl Hs Hq Hd He Hf Htf.
  destruct (de_typed_complete Sc cfg (canon v) n rest pos ma fuel depth tf Hwf Hn)
    as (d & E & Ed); try assumption.
  - rewrite erase_canon. exact Hc.
  - apply layout_ok_canon.
  - apply within_limits_canon; assumption.
  - apply counts_fit_canon. exact Hs.
  - exists d. rewrite erase_canon in Ed. split; [exact E|exact Ed].
Qed.

(** to_datum then from_datum_slice into the typed target *)
Theorem roundtrip_typed : forall Sc cfg root v slow fuel tf,
  schema_wf Sc = true -> fnode_at Sc 0 = Some root ->
  conforms Sc root v = true ->
  SerProofs.value_limits Sc root v = true -> SerProofs.sizes_ok v = true ->
  seq_limits cfg v = true ->
  (tcost (canon v) <= c_depth cfg)%nat ->
  (Z.of_nat (length (spec_encode Sc root v)) <= I64_MAX)%Z ->
  (DeProofs.de_fuel (canon v) <= fuel)%nat ->
  (depth_cost (canon v) < tf)%nat ->
  exists bs d,
    to_datum Sc slow (present Sc root v) = Ok bs
    /\ de_datum fuel Sc cfg (typed_target Sc tf root) (slice_reader bs) = Ok (d, 0)
    /\ erase_borrow d = dval_typed Sc root v.
Proof.
  intros Sc cfg root v slow fuel tf Hwf Hr Hc Hl Hs Hq Hd He Hf Htf.
  destruct (roundtrip_typed_node Sc cfg root v [] 0 0 fuel (c_depth cfg) tf Hwf (root_node_wf Sc root Hwf Hr)
              Hc Hl Hs Hq Hd He Hf Htf) as (d & E & Ed).
  exists (spec_encode Sc root v), d. split; [|split].
  - apply SerProofs.to_datum_present_decimal; assumption.
  - unfold de_datum, slice_reader. rewrite Hr. rewrite app_nil_r in E. rewrite E. reflexivity.
  - exact Ed.
Qed.
