(** Schema JSON regeneration (C09), part 1: which graphs the writer accepts.

    [json_cycle_rejected]: a cycle through array / map / union nodes only that is reachable from
    the root makes the writer fail with an error;
    [json_ok_when_wf]: a graph with keys in range, no logical type on unions and no such cycle
    is written successfully. *)
From Coq Require Import NArith ZArith List Lia Bool Arith String ZifyN ZifyBool ZifyNat Relations.
Import ListNotations.
Require Import Base Schema Text Json Parse SchemaJson CanonicalForm Rabin.
Require Import PcfSpec SchemaTextProofs SchemaJsonDefs.
Open Scope N_scope.
Notation length := List.length (only parsing).

Arguments N.eqb : simpl never.
Arguments N.leb : simpl never.
Arguments N.ltb : simpl never.
Arguments N.add : simpl never.

(* ------------------------------------------------------------------ *)
(** * One-step unfolding of [to_json] with the local functions named *)

Definition jgo_variants (F : nat -> jstate -> result (json * jstate)) :=
  fix go (ks : list nat) (st : jstate) {struct ks} : result (list json * jstate) :=
    match ks with
    | [] => Ok ([], st)
    | k :: t => let* r1 := F k st in let* r2 := go t (snd r1) in Ok (fst r1 :: fst r2, snd r2)
    end.

Definition jgo_fields (F : nat -> jstate -> result (json * jstate)) :=
  fix go (fs : list (bytes * nat)) (st : jstate) {struct fs} : result (list json * jstate) :=
    match fs with
    | [] => Ok ([], st)
    | (fname, k) :: t =>
        let* r1 := F k st in let* r2 := go t (snd r1) in
        Ok (JObj [(lit "name", JStr fname); (lit "type", fst r1)] :: fst r2, snd r2)
    end.

Definition jguard (key : nat) (st : jstate) (k : jstate -> result (json * jstate))
  : result (json * jstate) :=
  if j_written st <=? nth key (j_cells st) 0 then Err EData
  else let* r := k (mkJ (set_cell (j_cells st) key (j_written st)) (j_written st)) in
       Ok (fst r, mkJ (set_cell (j_cells (snd r)) key 0) (j_written (snd r))).

Definition jnamed (key : nat) (parent : option bytes) (st : jstate) (nm : name)
  (full : jstate -> result (json * jstate)) : result (json * jstate) :=
  if 0 <? nth key (j_cells st) 0 then Ok (JStr (str_for_ref parent nm), st)
  else full (mkJ (set_cell (j_cells st) key (j_written st)) (j_written st + 1)).

Lemma to_json_S : forall f g key parent st,
  to_json (S f) g key parent st =
  match nth_error g key with
  | None => Err EData
  | Some node =>
    let lt := m_logical node in
    match m_type node with
    | RNull => Ok (prim_json "null" lt, st)
    | RBoolean => Ok (prim_json "boolean" lt, st)
    | RInt => Ok (prim_json "int" lt, st)
    | RLong => Ok (prim_json "long" lt, st)
    | RFloat => Ok (prim_json "float" lt, st)
    | RDouble => Ok (prim_json "double" lt, st)
    | RBytes => Ok (prim_json "bytes" lt, st)
    | RString => Ok (prim_json "string" lt, st)
    | RArray items =>
        jguard key st (fun st1 =>
          let* r := to_json f g items parent st1 in
          Ok (JObj (type_and_logical "array" lt ++ [(lit "items", fst r)]), snd r))
    | RMap values =>
        jguard key st (fun st1 =>
          let* r := to_json f g values parent st1 in
          Ok (JObj (type_and_logical "map" lt ++ [(lit "values", fst r)]), snd r))
    | RUnion variants =>
        match lt with
        | Some _ => Err EData
        | None =>
            jguard key st (fun st1 =>
              let* r := jgo_variants (fun k s => to_json f g k parent s) variants st1 in
              Ok (JArr (fst r), snd r))
        end
    | RRecord nm fields =>
        jnamed key parent st nm (fun st1 =>
          let* r := jgo_fields (fun k s => to_json f g k (name_namespace nm) s) fields st1 in
          Ok (JObj (type_and_logical "record" lt ++ name_entries parent nm ++
                    [(lit "fields", JArr (fst r))]), snd r))
    | REnum nm symbols =>
        jnamed key parent st nm (fun st1 =>
          Ok (JObj (type_and_logical "enum" lt ++ name_entries parent nm ++
                    [(lit "symbols", JArr (map JStr symbols))]), st1))
    | RFixed nm size =>
        jnamed key parent st nm (fun st1 =>
          Ok (JObj (type_and_logical "fixed" lt ++ name_entries parent nm ++ [(lit "size", jnum size)]), st1))
    end
  end.
Proof. reflexivity. Qed.

(* ------------------------------------------------------------------ *)
(** * Small facts *)

Lemma nth_set_cell : forall l i v k,
  nth k (set_cell l i v) 0 = if Nat.eqb k i && Nat.ltb i (length l) then v else nth k l 0.
Proof.
  induction l as [|h t IH]; intros [|i] v [|k]; cbn [set_cell nth List.length Nat.eqb andb]; try reflexivity.
  - rewrite andb_false_r. reflexivity.
  - rewrite IH. change (Nat.ltb (S i) (S (length t))) with (Nat.ltb i (length t)). reflexivity.
Qed.

Lemma nth_set_cell_neq : forall l i v k, k <> i -> nth k (set_cell l i v) 0 = nth k l 0.
Proof.
  intros l i v k H. rewrite nth_set_cell. apply Nat.eqb_neq in H. rewrite H. reflexivity.
Qed.

Lemma nth_set_cell_eq : forall l i v, (i < length l)%nat -> nth i (set_cell l i v) 0 = v.
Proof.
  intros l i v H. rewrite nth_set_cell. rewrite Nat.eqb_refl.
  apply Nat.ltb_lt in H. rewrite H. reflexivity.
Qed.

Lemma nth_repeat_0 : forall n k, nth k (repeat 0 n) 0 = 0.
Proof. induction n as [|n IH]; intros [|k]; cbn [repeat nth]; auto. Qed.

Lemma named_not_unnamed : forall n, is_named_node n = true -> is_unnamed n = false.
Proof. intros n. unfold is_named_node, is_unnamed. destruct (m_type n); auto; discriminate. Qed.

Lemma cycle_step {A} (R : relation A) : forall k, clos_trans A R k k ->
  exists c, R k c /\ clos_trans A R c c.
Proof.
  intros k H. apply clos_trans_t1n in H. inversion H as [y Hr|y z Hr Ht]; subst.
  - exists k. split; [exact Hr|]. apply t_step. exact Hr.
  - exists y. split; [exact Hr|]. apply clos_t1n_trans in Ht.
    eapply t_trans; [exact Ht|]. apply t_step. exact Hr.
Qed.

(* ------------------------------------------------------------------ *)
(** * A node on an unnamed cycle is never written successfully *)

Definition nok {A} (r : result A) : Prop := is_ok r = false.

Lemma nok_bind {A B} (r : result A) (k : A -> result B) : nok r -> nok (rbind r k).
Proof. unfold nok. destruct r; cbn [rbind is_ok]; auto; discriminate. Qed.

Lemma nok_bind_r {A B} (r : result A) (k : A -> result B) : (forall a, nok (k a)) -> nok (rbind r k).
Proof. unfold nok. destruct r; cbn [rbind is_ok]; auto. Qed.

Lemma nok_guard : forall key st k, (forall s, nok (k s)) -> nok (jguard key st k).
Proof.
  intros key st k H. unfold jguard. destruct (_ <=? _); [reflexivity|]. apply nok_bind, H.
Qed.

Lemma nok_variants (F : nat -> jstate -> result (json * jstate)) : forall c,
  (forall s, nok (F c s)) -> forall ks st, In c ks -> nok (jgo_variants F ks st).
Proof.
  intros c Hc. induction ks as [|k t IH]; intros st Hin; [contradiction|].
  cbn [jgo_variants]. destruct Hin as [->|Hin].
  - apply nok_bind, Hc.
  - apply nok_bind_r. intro r1. apply nok_bind. apply IH. exact Hin.
Qed.

Lemma cyc_never_ok : forall fuel g key parent st,
  unnamed_cycle g key -> nok (to_json fuel g key parent st).
Proof.
  induction fuel as [|f IH]; intros g key parent st Hc; [reflexivity|].
  apply cycle_step in Hc. destruct Hc as (c & (n & Hn & Hu & Hin) & Hcc).
  rewrite to_json_S. rewrite Hn. cbv zeta.
  unfold is_unnamed in Hu. unfold node_children in Hin.
  destruct (m_type n) eqn:Et; try discriminate.
  - destruct Hin as [->|[]]. apply nok_guard. intro s. apply nok_bind. apply IH. exact Hcc.
  - destruct Hin as [->|[]]. apply nok_guard. intro s. apply nok_bind. apply IH. exact Hcc.
  - destruct (m_logical n); [reflexivity|]. apply nok_guard. intro s. apply nok_bind.
    apply (nok_variants (fun k s0 => to_json f g k parent s0) c); [|exact Hin].
    intro s0. apply IH. exact Hcc.
Qed.

(* ------------------------------------------------------------------ *)
(** * The nodes written successfully are closed under the child relation *)

Definition marked (g : schema_mut) (st : jstate) (k : nat) : Prop :=
  exists n, nth_error g k = Some n /\ is_named_node n = true /\ nth k (j_cells st) 0 <> 0.

Definition good_ext (g : schema_mut) (T T' : nat -> Prop) : Prop :=
  (forall k, T k -> T' k) /\
  (forall k, T' k -> T k \/ (~ unnamed_cycle g k /\ forall c, child g k c -> T' c)).

Lemma good_ext_refl : forall g T, good_ext g T T.
Proof. intros g T. split; auto. Qed.

Lemma good_ext_trans : forall g A B C, good_ext g A B -> good_ext g B C -> good_ext g A C.
Proof.
  intros g A B C [H1 H2] [H3 H4]. split; [auto|].
  intros k Hk. destruct (H4 k Hk) as [Hb|Hg]; [|right; exact Hg].
  destruct (H2 k Hb) as [Ha|[Hn Hc]]; [left; exact Ha|right]. split; [exact Hn|]. auto.
Qed.

Definition trav_spec (g : schema_mut) (F : nat -> jstate -> result (json * jstate)) : Prop :=
  forall key st j st', F key st = Ok (j, st') -> (length g <= length (j_cells st))%nat ->
  forall T : nat -> Prop, (forall k, marked g st k -> T k) ->
  exists T' : nat -> Prop, good_ext g T T' /\ T' key /\ (forall k, marked g st' k -> T' k) /\
             length (j_cells st') = length (j_cells st).

Lemma rbind_ok {A B} (r : result A) (k : A -> result B) b :
  rbind r k = Ok b -> exists a, r = Ok a /\ k a = Ok b.
Proof. destruct r; cbn [rbind]; intro H; try discriminate. eauto. Qed.

Lemma trav_variants g (F : nat -> jstate -> result (json * jstate)) : trav_spec g F ->
  forall ks st js st', jgo_variants F ks st = Ok (js, st') -> (length g <= length (j_cells st))%nat ->
  forall T : nat -> Prop, (forall k, marked g st k -> T k) ->
  exists T' : nat -> Prop, good_ext g T T' /\ (forall c, In c ks -> T' c) /\ (forall k, marked g st' k -> T' k) /\
             length (j_cells st') = length (j_cells st).
Proof.
  intros HF. induction ks as [|k t IH]; intros st js st' H Hl T HT.
  - cbn [jgo_variants] in H. inversion H. subst. exists T.
    split; [apply good_ext_refl|]. split; [intros c []|]. split; [exact HT|reflexivity].
  - cbn [jgo_variants] in H. apply rbind_ok in H. destruct H as ([j1 s1] & H1 & H).
    apply rbind_ok in H. destruct H as ([js2 s2] & H2 & H). cbn [fst snd] in *. inversion H. subst.
    destruct (HF k st j1 s1 H1 Hl T HT) as (T1 & E1 & K1 & M1 & L1).
    assert (Hl1 : (length g <= length (j_cells s1))%nat) by lia.
    destruct (IH s1 js2 st' H2 Hl1 T1 M1) as (T2 & E2 & K2 & M2 & L2).
    exists T2. split; [eapply good_ext_trans; eassumption|]. split; [|split; [exact M2|congruence]].
    intros c [->|Hc]; [apply E2; exact K1|apply K2; exact Hc].
Qed.

Lemma trav_fields g (F : nat -> jstate -> result (json * jstate)) : trav_spec g F ->
  forall fs st js st', jgo_fields F fs st = Ok (js, st') -> (length g <= length (j_cells st))%nat ->
  forall T : nat -> Prop, (forall k, marked g st k -> T k) ->
  exists T' : nat -> Prop, good_ext g T T' /\ (forall c, In c (map snd fs) -> T' c) /\
             (forall k, marked g st' k -> T' k) /\ length (j_cells st') = length (j_cells st).
Proof.
  intros HF. induction fs as [|[fname k] t IH]; intros st js st' H Hl T HT.
  - cbn [jgo_fields] in H. inversion H. subst. exists T.
    split; [apply good_ext_refl|]. split; [intros c []|]. split; [exact HT|reflexivity].
  - cbn [jgo_fields] in H. apply rbind_ok in H. destruct H as ([j1 s1] & H1 & H).
    apply rbind_ok in H. destruct H as ([js2 s2] & H2 & H). cbn [fst snd] in *. inversion H. subst.
    destruct (HF k st j1 s1 H1 Hl T HT) as (T1 & E1 & K1 & M1 & L1).
    assert (Hl1 : (length g <= length (j_cells s1))%nat) by lia.
    destruct (IH s1 js2 st' H2 Hl1 T1 M1) as (T2 & E2 & K2 & M2 & L2).
    exists T2. split; [eapply good_ext_trans; eassumption|]. split; [|split; [exact M2|congruence]].
    cbn [map snd]. intros c [<-|Hc]; [apply E2; exact K1|apply K2; exact Hc].
Qed.

(* entering and leaving an unnamed node does not mark anything *)
Lemma marked_set_unnamed : forall g st key node v w k,
  nth_error g key = Some node -> is_named_node node = false ->
  marked g (mkJ (set_cell (j_cells st) key v) w) k -> marked g st k.
Proof.
  intros g st key node v w k Hn Hu (n & Hk & Hnm & Hc). cbn [j_cells] in Hc.
  assert (k <> key) by (intros ->; congruence).
  rewrite nth_set_cell_neq in Hc by assumption. exists n. auto.
Qed.

Lemma marked_set_named : forall g st key v w k,
  marked g (mkJ (set_cell (j_cells st) key v) w) k -> k = key \/ marked g st k.
Proof.
  intros g st key v w k (n & Hk & Hnm & Hc). cbn [j_cells] in Hc.
  destruct (Nat.eq_dec k key) as [->|Hne]; [left; reflexivity|right].
  rewrite nth_set_cell_neq in Hc by assumption. exists n. auto.
Qed.

Lemma trav_guard : forall g key node st body j st',
  nth_error g key = Some node -> is_named_node node = false ->
  jguard key st body = Ok (j, st') ->
  exists j1 s1, body (mkJ (set_cell (j_cells st) key (j_written st)) (j_written st)) = Ok (j1, s1) /\
    length (j_cells st') = length (j_cells s1) /\ (forall k, marked g st' k -> marked g s1 k) /\
    (forall T : nat -> Prop, (forall k, marked g st k -> T k) ->
       forall k, marked g (mkJ (set_cell (j_cells st) key (j_written st)) (j_written st)) k -> T k).
Proof.
  intros g key node st body j st' Hn Hu H. unfold jguard in H.
  destruct (_ <=? _); [discriminate|]. apply rbind_ok in H. destruct H as ([j1 s1] & H1 & H).
  cbn [fst snd] in H. injection H as Hj Hst. subst j st'. exists j1, s1. split; [exact H1|].
  cbn [j_cells]. split; [apply set_cell_length|]. split.
  - intros k Hk. destruct s1 as [c1 w1]. cbn [j_cells j_written] in Hk.
    eapply (marked_set_unnamed g (mkJ c1 w1)); eassumption.
  - intros T HT k Hk. apply HT. eapply marked_set_unnamed; eassumption.
Qed.

Lemma named_no_cycle : forall g key node, nth_error g key = Some node -> is_named_node node = true ->
  ~ unnamed_cycle g key.
Proof.
  intros g key node Hn Hnm Hc. apply cycle_step in Hc. destruct Hc as (c & (n & Hn' & Hu & _) & _).
  rewrite Hn in Hn'. inversion Hn'. subst n. rewrite (named_not_unnamed _ Hnm) in Hu. discriminate.
Qed.

Lemma to_json_trav : forall fuel g parent, trav_spec g (fun k s => to_json fuel g k parent s).
Proof.
  induction fuel as [|f IH]; intros g parent key st j st' H Hl T HT; [discriminate|].
  rewrite to_json_S in H. destruct (nth_error g key) as [node|] eqn:Hn; [|discriminate].
  cbv zeta in H.
  assert (Hprim : node_children node = [] -> is_unnamed node = false -> st' = st ->
          exists T' : nat -> Prop, good_ext g T T' /\ T' key /\ (forall k, marked g st' k -> T' k) /\
             length (j_cells st') = length (j_cells st)).
  { intros Hch Hun ->. exists (fun k => T k \/ k = key).
    split; [|split; [right; reflexivity|split; [intros k Hk; left; apply HT; exact Hk|reflexivity]]].
    split; [intros k Hk; left; exact Hk|]. intros k [Hk| ->]; [left; exact Hk|right]. split.
    - intro Hc. apply cycle_step in Hc. destruct Hc as (c & (n & Hn' & Hu & _) & _). congruence.
    - intros c (n & Hn' & Hin). rewrite Hn in Hn'. inversion Hn'. subst n. rewrite Hch in Hin. contradiction. }
  (* unnamed nodes: array, map, union *)
  assert (Hunn : forall body cs, node_children node = cs -> is_named_node node = false ->
          jguard key st body = Ok (j, st') ->
          (forall s0 j1 s1, body s0 = Ok (j1, s1) -> (length g <= length (j_cells s0))%nat ->
             forall T0 : nat -> Prop, (forall k, marked g s0 k -> T0 k) ->
             exists T' : nat -> Prop, good_ext g T0 T' /\ (forall c, In c cs -> T' c) /\
               (forall k, marked g s1 k -> T' k) /\ length (j_cells s1) = length (j_cells s0)) ->
          exists T' : nat -> Prop, good_ext g T T' /\ T' key /\ (forall k, marked g st' k -> T' k) /\
             length (j_cells st') = length (j_cells st)).
  { intros body cs Hch Hnn Hg Hbody.
    assert (Hnc : ~ unnamed_cycle g key).
    { intro Hc. pose proof (cyc_never_ok (S f) g key parent st Hc) as Hnok.
      rewrite to_json_S, Hn in Hnok. cbv zeta in Hnok. unfold nok in Hnok.
      unfold node_children in Hch. unfold is_named_node in Hnn.
      destruct (m_type node) eqn:Et; try discriminate; try (rewrite H in Hnok; discriminate). }
    destruct (trav_guard g key node st body j st' Hn Hnn Hg) as (j1 & s1 & Hb & Hlen & Hm & Hm0).
    destruct (Hbody _ j1 s1 Hb) with (T0 := T) as (T1 & E1 & K1 & M1 & L1).
    { cbn [j_cells]. rewrite set_cell_length. exact Hl. }
    { apply Hm0. exact HT. }
    cbn [j_cells] in L1. rewrite set_cell_length in L1.
    exists (fun k => T1 k \/ k = key).
    split; [|split; [right; reflexivity|split; [intros k Hk; left; apply M1, Hm, Hk|congruence]]].
    destruct E1 as [E1a E1b].
    split; [intros k Hk; left; apply E1a; exact Hk|].
    intros k [Hk| ->].
    - destruct (E1b k Hk) as [Ht|[Hnck Hck]]; [left; exact Ht|right].
      split; [exact Hnck|]. intros c Hc. left. apply Hck. exact Hc.
    - right. split; [exact Hnc|]. intros c (n & Hn' & Hin). rewrite Hn in Hn'. inversion Hn'. subst n.
      left. apply K1. rewrite <- Hch. exact Hin. }
  (* named nodes *)
  assert (Hnam : forall nm body cs, node_children node = cs -> is_named_node node = true ->
          jnamed key parent st nm body = Ok (j, st') ->
          (forall s0 j1 s1, body s0 = Ok (j1, s1) -> (length g <= length (j_cells s0))%nat ->
             forall T0 : nat -> Prop, (forall k, marked g s0 k -> T0 k) ->
             exists T' : nat -> Prop, good_ext g T0 T' /\ (forall c, In c cs -> T' c) /\
               (forall k, marked g s1 k -> T' k) /\ length (j_cells s1) = length (j_cells s0)) ->
          exists T' : nat -> Prop, good_ext g T T' /\ T' key /\ (forall k, marked g st' k -> T' k) /\
             length (j_cells st') = length (j_cells st)).
  { intros nm body cs Hch Hnn Hg Hbody. unfold jnamed in Hg.
    destruct (0 <? nth key (j_cells st) 0) eqn:E.
    - inversion Hg. subst. exists T. split; [apply good_ext_refl|].
      split; [|split; [exact HT|reflexivity]]. apply HT. exists node.
      apply N.ltb_lt in E. split; [exact Hn|]. split; [exact Hnn|lia].
    - destruct (Hbody _ j st' Hg) with (T0 := fun k => T k \/ k = key) as (T1 & E1 & K1 & M1 & L1).
      { cbn [j_cells]. rewrite set_cell_length. exact Hl. }
      { intros k Hk. apply marked_set_named in Hk. destruct Hk as [->|Hk]; [right; reflexivity|left; apply HT, Hk]. }
      cbn [j_cells] in L1. rewrite set_cell_length in L1.
      destruct E1 as [E1a E1b].
      exists T1. split; [|split; [apply E1a; right; reflexivity|split; [exact M1|exact L1]]].
      split; [intros k Hk; apply E1a; left; exact Hk|].
      intros k Hk. destruct (E1b k Hk) as [[Ht| ->]|Hg']; [left; exact Ht| |right; exact Hg'].
      right. split; [eapply named_no_cycle; eassumption|].
      intros c (n & Hn' & Hin). rewrite Hn in Hn'. inversion Hn'. subst n.
      apply K1. rewrite <- Hch. exact Hin. }
  unfold node_children, is_unnamed, is_named_node in *.
  destruct (m_type node) eqn:Et.
  1-8: inversion H; subst; apply Hprim; reflexivity.
  - (* array *)
    eapply Hunn; [reflexivity|reflexivity|exact H|].
    intros s0 j1 s1 Hb Hl0 T0 HT0. apply rbind_ok in Hb. destruct Hb as ([j2 s2] & Hb & Hr).
    cbn [fst snd] in Hr. inversion Hr. subst.
    destruct (IH g parent items s0 j2 s1 Hb Hl0 T0 HT0) as (T1 & E1 & K1 & M1 & L1).
    exists T1. split; [exact E1|]. split; [|split; assumption]. intros c [<-|[]]. exact K1.
  - (* map *)
    eapply Hunn; [reflexivity|reflexivity|exact H|].
    intros s0 j1 s1 Hb Hl0 T0 HT0. apply rbind_ok in Hb. destruct Hb as ([j2 s2] & Hb & Hr).
    cbn [fst snd] in Hr. inversion Hr. subst.
    destruct (IH g parent values s0 j2 s1 Hb Hl0 T0 HT0) as (T1 & E1 & K1 & M1 & L1).
    exists T1. split; [exact E1|]. split; [|split; assumption]. intros c [<-|[]]. exact K1.
  - (* union *)
    destruct (m_logical node); [discriminate|].
    eapply Hunn; [reflexivity|reflexivity|exact H|].
    intros s0 j1 s1 Hb Hl0 T0 HT0. apply rbind_ok in Hb. destruct Hb as ([j2 s2] & Hb & Hr).
    cbn [fst snd] in Hr. inversion Hr. subst.
    exact (trav_variants g _ (IH g parent) variants s0 j2 s1 Hb Hl0 T0 HT0).
  - (* record *)
    eapply Hnam; [reflexivity|reflexivity|exact H|].
    intros s0 j1 s1 Hb Hl0 T0 HT0. apply rbind_ok in Hb. destruct Hb as ([j2 s2] & Hb & Hr).
    cbn [fst snd] in Hr. inversion Hr. subst.
    exact (trav_fields g _ (IH g (name_namespace n)) fields s0 j2 s1 Hb Hl0 T0 HT0).
  - (* enum *)
    eapply Hnam; [reflexivity|reflexivity|exact H|].
    intros s0 j1 s1 Hb Hl0 T0 HT0. inversion Hb. subst. exists T0.
    split; [apply good_ext_refl|]. split; [intros c []|]. split; [exact HT0|reflexivity].
  - (* fixed *)
    eapply Hnam; [reflexivity|reflexivity|exact H|].
    intros s0 j1 s1 Hb Hl0 T0 HT0. inversion Hb. subst. exists T0.
    split; [apply good_ext_refl|]. split; [intros c []|]. split; [exact HT0|reflexivity].
Qed.

Definition j_init (g : schema_mut) : jstate := mkJ (repeat 0 (length g)) 1.

Theorem to_json_ok_no_cycle : forall fuel g j st' k,
  to_json fuel g O None (j_init g) = Ok (j, st') -> reach g O k -> ~ unnamed_cycle g k.
Proof.
  intros fuel g j st' k H Hr.
  destruct (to_json_trav fuel g None O (j_init g) j st' H) with (T := fun _ : nat => False)
    as (T' & [_ E] & K & _ & _).
  { unfold j_init. cbn [j_cells]. rewrite repeat_length. lia. }
  { intros k0 (n & _ & _ & Hc). unfold j_init in Hc. cbn [j_cells] in Hc.
    rewrite nth_repeat_0 in Hc. congruence. }
  assert (HT : T' k).
  { unfold reach in Hr. apply clos_rt_rt1n in Hr. clear H. revert K.
    induction Hr as [|x y z Hxy Hyz IHr]; intro K; [exact K|].
    apply IHr. destruct (E x K) as [[]|[_ Hc]]. apply Hc. exact Hxy. }
  destruct (E k HT) as [[]|[Hn _]]. exact Hn.
Qed.

(* every error of the writer is a data error *)
Definition dataerr {A} (r : result A) : Prop := forall e, r = Err e -> e = EData.

Lemma dataerr_bind {A B} (r : result A) (k : A -> result B) :
  dataerr r -> (forall a, dataerr (k a)) -> dataerr (rbind r k).
Proof.
  unfold dataerr. destruct r; cbn [rbind]; intros H K e' He; try discriminate.
  - exact (K a e' He).
  - inversion He. subst e'. exact (H e eq_refl).
Qed.

Lemma dataerr_ok {A} (a : A) : dataerr (Ok a).
Proof. intros e H. discriminate. Qed.

Lemma dataerr_variants (F : nat -> jstate -> result (json * jstate)) :
  (forall k s, dataerr (F k s)) -> forall ks st, dataerr (jgo_variants F ks st).
Proof.
  intros HF. induction ks as [|k t IH]; intro st; cbn [jgo_variants]; [apply dataerr_ok|].
  apply dataerr_bind; [apply HF|]. intro r1. apply dataerr_bind; [apply IH|]. intro r2. apply dataerr_ok.
Qed.

Lemma dataerr_fields (F : nat -> jstate -> result (json * jstate)) :
  (forall k s, dataerr (F k s)) -> forall fs st, dataerr (jgo_fields F fs st).
Proof.
  intros HF. induction fs as [|[fname k] t IH]; intro st; cbn [jgo_fields]; [apply dataerr_ok|].
  apply dataerr_bind; [apply HF|]. intro r1. apply dataerr_bind; [apply IH|]. intro r2. apply dataerr_ok.
Qed.

Lemma dataerr_guard : forall key st body, (forall s, dataerr (body s)) -> dataerr (jguard key st body).
Proof.
  intros key st body H. unfold jguard. destruct (_ <=? _).
  - intros e He. inversion He. reflexivity.
  - apply dataerr_bind; [apply H|]. intro r. apply dataerr_ok.
Qed.

Lemma dataerr_named : forall key parent st nm body, (forall s, dataerr (body s)) ->
  dataerr (jnamed key parent st nm body).
Proof. intros. unfold jnamed. destruct (_ <? _); [apply dataerr_ok|apply H]. Qed.

Lemma to_json_dataerr : forall fuel g key parent st, dataerr (to_json fuel g key parent st).
Proof.
  induction fuel as [|f IH]; intros g key parent st; [intros e He; discriminate|].
  rewrite to_json_S. destruct (nth_error g key) as [node|]; [|intros e He; inversion He; reflexivity].
  cbv zeta. destruct (m_type node); try apply dataerr_ok.
  - apply dataerr_guard. intro s. apply dataerr_bind; [apply IH|]. intro r. apply dataerr_ok.
  - apply dataerr_guard. intro s. apply dataerr_bind; [apply IH|]. intro r. apply dataerr_ok.
  - destruct (m_logical node); [intros e He; inversion He; reflexivity|].
    apply dataerr_guard. intro s. apply dataerr_bind; [|intro r; apply dataerr_ok].
    apply dataerr_variants. intros k s0. apply IH.
  - apply dataerr_named. intro s. apply dataerr_bind; [|intro r; apply dataerr_ok].
    apply dataerr_fields. intros k s0. apply IH.
  - apply dataerr_named. intro s. apply dataerr_ok.
  - apply dataerr_named. intro s. apply dataerr_ok.
Qed.

Definition json_fuel (g : schema_mut) : nat := (length g * (length g + 2) + 2)%nat.

(** ** Priority 1a *)
Theorem json_cycle_rejected : forall g k fuel,
  reach g O k -> unnamed_cycle g k -> (json_fuel g <= fuel)%nat ->
  schema_json fuel g = Err EData.
Proof.
  intros g k fuel Hr Hc Hf.
  pose proof (schema_json_fuel g fuel Hf) as Hpost. unfold schema_json in *.
  fold (j_init g) in *.
  destruct (to_json fuel g O None (j_init g)) as [[j st']| | | |] eqn:E; cbn [rbind res_post] in *;
    try contradiction.
  - exfalso. exact (to_json_ok_no_cycle fuel g j st' k E Hr Hc).
  - f_equal. exact (to_json_dataerr fuel g O None (j_init g) e E).
Qed.

(* ------------------------------------------------------------------ *)
(** * Without such a cycle the writer succeeds *)

Definition okoof {A} (P : A -> Prop) (r : result A) : Prop :=
  match r with Ok a => P a | OutOfFuel => True | _ => False end.

Lemma okoof_bind {A B} (P : A -> Prop) (Q : B -> Prop) (r : result A) (k : A -> result B) :
  okoof P r -> (forall a, P a -> okoof Q (k a)) -> okoof Q (rbind r k).
Proof. destruct r; cbn [okoof rbind]; intros H K; try contradiction; auto. Qed.

(* what holds of the state when [key] is entered *)
Definition JI (g : schema_mut) (key : nat) (st : jstate) : Prop :=
  (forall k, nth k (j_cells st) 0 <= j_written st) /\ 1 <= j_written st /\
  (forall k n, nth_error g k = Some n -> is_unnamed n = true ->
     nth k (j_cells st) 0 = j_written st -> clos_trans nat (uedge g) k key).

(* what a successful call guarantees *)
Definition JP (g : schema_mut) (a b : jstate) : Prop :=
  j_written a <= j_written b /\ (forall k, nth k (j_cells b) 0 <= j_written b) /\
  (forall k n, nth_error g k = Some n -> is_unnamed n = true ->
     nth k (j_cells b) 0 = nth k (j_cells a) 0 \/ nth k (j_cells b) 0 = 0).

Lemma JP_refl : forall g a, (forall k, nth k (j_cells a) 0 <= j_written a) -> JP g a a.
Proof. intros g a H. split; [lia|]. split; [exact H|]. intros; left; reflexivity. Qed.

Lemma JP_trans : forall g a b c, JP g a b -> JP g b c -> JP g a c.
Proof.
  intros g a b c (H1 & H2 & H3) (H4 & H5 & H6). split; [lia|]. split; [exact H5|].
  intros k n Hn Hu. destruct (H6 k n Hn Hu) as [E|E]; [|right; exact E].
  rewrite E. apply (H3 k n Hn Hu).
Qed.

(* the state in which the children of an unnamed node are entered *)
Lemma JI_child_unnamed : forall g key node st c s,
  nth_error g key = Some node -> is_unnamed node = true -> In c (node_children node) ->
  JI g key st -> nth key (j_cells st) 0 < j_written st ->
  JP g (mkJ (set_cell (j_cells st) key (j_written st)) (j_written st)) s ->
  JI g c s.
Proof.
  intros g key node st c s Hn Hu Hc (I1 & I2 & I3) Hlt (P1 & P2 & P3). cbn [j_cells j_written] in *.
  assert (Hkc : uedge g key c) by (exists node; auto).
  split; [exact P2|]. split; [lia|].
  intros k n Hk Hun E.
  destruct (P3 k n Hk Hun) as [E'|E']; [|lia].
  rewrite E' in E. rewrite nth_set_cell in E.
  destruct (Nat.eqb k key && Nat.ltb key (length (j_cells st))) eqn:Eb.
  - apply andb_prop in Eb. destruct Eb as [Eb _]. apply Nat.eqb_eq in Eb. subst k.
    apply t_step. exact Hkc.
  - pose proof (I1 k). assert (nth k (j_cells st) 0 = j_written st) by lia.
    eapply t_trans; [apply (I3 k n Hk Hun); assumption|apply t_step; exact Hkc].
Qed.

Lemma JI_child_named : forall g key node st c s,
  nth_error g key = Some node -> is_named_node node = true ->
  JI g key st ->
  JP g (mkJ (set_cell (j_cells st) key (j_written st)) (j_written st + 1)) s ->
  JI g c s.
Proof.
  intros g key node st c s Hn Hnm (I1 & I2 & I3) (P1 & P2 & P3). cbn [j_cells j_written] in *.
  split; [exact P2|]. split; [lia|].
  intros k n Hk Hun E. exfalso.
  destruct (P3 k n Hk Hun) as [E'|E']; [|lia].
  assert (k <> key).
  { intros ->. rewrite Hn in Hk. inversion Hk. subst n. rewrite (named_not_unnamed _ Hnm) in Hun. discriminate. }
  rewrite nth_set_cell_neq in E' by assumption. pose proof (I1 k). lia.
Qed.

Definition ok_spec (g : schema_mut) (F : nat -> jstate -> result (json * jstate)) : Prop :=
  forall key st, (key < length g)%nat -> JI g key st -> okoof (fun r => JP g st (snd r)) (F key st).

Lemma ok_variants g (F : nat -> jstate -> result (json * jstate)) (st0 : jstate) : ok_spec g F ->
  forall ks, (forall c, In c ks -> (c < length g)%nat /\ forall s, JP g st0 s -> JI g c s) ->
  forall s, JP g st0 s -> okoof (fun r => JP g st0 (snd r)) (jgo_variants F ks s).
Proof.
  intros HF. induction ks as [|k t IH]; intros Hks s Hs; cbn [jgo_variants].
  - cbn [okoof snd]. exact Hs.
  - destruct (Hks k (or_introl eq_refl)) as [Hk Hji].
    eapply okoof_bind; [apply HF; [exact Hk|apply Hji; exact Hs]|].
    intros r1 H1. cbv beta in H1.
    eapply okoof_bind; [apply IH; [intros c Hc; apply Hks; right; exact Hc|eapply JP_trans; eassumption]|].
    intros r2 H2. cbn [okoof snd]. exact H2.
Qed.

Lemma ok_fields g (F : nat -> jstate -> result (json * jstate)) (st0 : jstate) : ok_spec g F ->
  forall fs, (forall c, In c (map snd fs) -> (c < length g)%nat /\ forall s, JP g st0 s -> JI g c s) ->
  forall s, JP g st0 s -> okoof (fun r => JP g st0 (snd r)) (jgo_fields F fs s).
Proof.
  intros HF. induction fs as [|[fname k] t IH]; intros Hks s Hs; cbn [jgo_fields].
  - cbn [okoof snd]. exact Hs.
  - destruct (Hks k (or_introl eq_refl)) as [Hk Hji].
    eapply okoof_bind; [apply HF; [exact Hk|apply Hji; exact Hs]|].
    intros r1 H1. cbv beta in H1.
    eapply okoof_bind; [apply IH; [intros c Hc; apply Hks; right; exact Hc|eapply JP_trans; eassumption]|].
    intros r2 H2. cbn [okoof snd]. exact H2.
Qed.

Lemma ok_guard : forall g key node st body,
  wf_struct g -> nth_error g key = Some node -> is_unnamed node = true -> JI g key st ->
  (nth key (j_cells st) 0 < j_written st ->
   okoof (fun r => JP g (mkJ (set_cell (j_cells st) key (j_written st)) (j_written st)) (snd r))
         (body (mkJ (set_cell (j_cells st) key (j_written st)) (j_written st)))) ->
  okoof (fun r => JP g st (snd r)) (jguard key st body).
Proof.
  intros g key node st body Hwf Hn Hu HI Hbody. unfold jguard.
  destruct HI as (I1 & I2 & I3).
  destruct (j_written st <=? nth key (j_cells st) 0) eqn:E.
  - exfalso. apply N.leb_le in E. pose proof (I1 key).
    apply (ws_nocycle g Hwf key). apply (I3 key node Hn Hu). lia.
  - apply N.leb_gt in E. eapply okoof_bind; [apply Hbody; exact E|].
    intros [j1 s1] (P1 & P2 & P3). unfold JP. cbn [okoof fst snd j_cells j_written] in *.
    split; [exact P1|]. split.
    + intro k. rewrite nth_set_cell. destruct (_ && _); [lia|apply P2].
    + intros k n Hk Hun. rewrite nth_set_cell.
      destruct (Nat.eqb k key && Nat.ltb key (length (j_cells s1))) eqn:Eb; [right; reflexivity|].
      destruct (P3 k n Hk Hun) as [E'|E']; [|right; exact E'].
      rewrite nth_set_cell in E'.
      destruct (Nat.eqb k key && Nat.ltb key (length (j_cells st))) eqn:Eb2; [|left; exact E'].
      (* k = key in range of st but not of s1: then the cell reads as the default *)
      apply andb_prop in Eb2. destruct Eb2 as [Ek _]. apply Nat.eqb_eq in Ek. subst k.
      rewrite Nat.eqb_refl in Eb. cbn [andb] in Eb. apply Nat.ltb_ge in Eb.
      right. apply nth_overflow. exact Eb.
Qed.

Lemma ok_named : forall g key node parent st nm body,
  nth_error g key = Some node -> is_named_node node = true -> JI g key st ->
  okoof (fun r => JP g (mkJ (set_cell (j_cells st) key (j_written st)) (j_written st + 1)) (snd r))
        (body (mkJ (set_cell (j_cells st) key (j_written st)) (j_written st + 1))) ->
  okoof (fun r => JP g st (snd r)) (jnamed key parent st nm body).
Proof.
  intros g key node parent st nm body Hn Hnm (I1 & I2 & I3) Hbody. unfold jnamed.
  destruct (0 <? nth key (j_cells st) 0); [cbn [okoof snd]; apply JP_refl; exact I1|].
  destruct (body _) as [[j1 s1]| | | |]; cbn [okoof snd] in *; try contradiction; [|exact I].
  destruct Hbody as (P1 & P2 & P3). unfold JP. cbn [j_cells j_written] in *.
  split; [lia|]. split; [exact P2|].
  intros k n Hk Hun. destruct (P3 k n Hk Hun) as [E'|E']; [left|right; exact E'].
  assert (k <> key).
  { intros ->. rewrite Hn in Hk. inversion Hk. subst n. rewrite (named_not_unnamed _ Hnm) in Hun. discriminate. }
  rewrite nth_set_cell_neq in E' by assumption. exact E'.
Qed.

Lemma JP_start_unnamed : forall g key st, JI g key st ->
  JP g (mkJ (set_cell (j_cells st) key (j_written st)) (j_written st))
       (mkJ (set_cell (j_cells st) key (j_written st)) (j_written st)).
Proof.
  intros g key st (I1 & _ & _). apply JP_refl. cbn [j_cells j_written]. intro k.
  rewrite nth_set_cell. destruct (_ && _); [lia|apply I1].
Qed.

Lemma JP_start_named : forall g key st, JI g key st ->
  JP g (mkJ (set_cell (j_cells st) key (j_written st)) (j_written st + 1))
       (mkJ (set_cell (j_cells st) key (j_written st)) (j_written st + 1)).
Proof.
  intros g key st (I1 & _ & _). apply JP_refl. cbn [j_cells j_written]. intro k.
  rewrite nth_set_cell. destruct (_ && _); [lia|]. pose proof (I1 k). lia.
Qed.

Lemma to_json_ok_main : forall fuel g parent, wf_struct g ->
  ok_spec g (fun k s => to_json fuel g k parent s).
Proof.
  induction fuel as [|f IH]; intros g parent Hwf key st Hkey HI; [exact I|].
  rewrite to_json_S. destruct (nth_error g key) as [node|] eqn:Hn.
  2:{ apply nth_error_None in Hn. lia. }
  cbv zeta.
  pose proof (ws_keys g Hwf key node Hn) as Hkeys. rewrite Forall_forall in Hkeys.
  assert (Hrefl : okoof (fun r : json * jstate => JP g st (snd r)) (Ok (JNull, st))).
  { cbn [okoof snd]. apply JP_refl. apply HI. }
  unfold node_children in Hkeys.
  destruct (m_type node) eqn:Et.
  1-8: exact Hrefl.
  - (* array *)
    eapply ok_guard; [exact Hwf|exact Hn|unfold is_unnamed; rewrite Et; reflexivity|exact HI|].
    intro Hlt. eapply okoof_bind.
    + apply IH; [exact Hwf|apply Hkeys; left; reflexivity|].
      eapply JI_child_unnamed; [exact Hn|unfold is_unnamed; rewrite Et; reflexivity| |exact HI|exact Hlt|apply JP_start_unnamed with (key := key); exact HI].
      unfold node_children. rewrite Et. left. reflexivity.
    + intros r Hr. cbn [okoof snd]. exact Hr.
  - (* map *)
    eapply ok_guard; [exact Hwf|exact Hn|unfold is_unnamed; rewrite Et; reflexivity|exact HI|].
    intro Hlt. eapply okoof_bind.
    + apply IH; [exact Hwf|apply Hkeys; left; reflexivity|].
      eapply JI_child_unnamed; [exact Hn|unfold is_unnamed; rewrite Et; reflexivity| |exact HI|exact Hlt|apply JP_start_unnamed with (key := key); exact HI].
      unfold node_children. rewrite Et. left. reflexivity.
    + intros r Hr. cbn [okoof snd]. exact Hr.
  - (* union *)
    rewrite (ws_union g Hwf key node variants Hn Et).
    eapply ok_guard; [exact Hwf|exact Hn|unfold is_unnamed; rewrite Et; reflexivity|exact HI|].
    intro Hlt. eapply okoof_bind.
    + apply (ok_variants g (fun k s => to_json f g k parent s)
               (mkJ (set_cell (j_cells st) key (j_written st)) (j_written st)) (IH g parent Hwf) variants).
      * intros c Hc. split; [apply Hkeys; exact Hc|]. intros s Hs.
        eapply JI_child_unnamed; [exact Hn|unfold is_unnamed; rewrite Et; reflexivity| |exact HI|exact Hlt|exact Hs].
        unfold node_children. rewrite Et. exact Hc.
      * apply JP_start_unnamed with (key := key). exact HI.
    + intros r Hr. cbn [okoof snd]. exact Hr.
  - (* record *)
    eapply ok_named; [exact Hn|unfold is_named_node; rewrite Et; reflexivity|exact HI|].
    eapply okoof_bind.
    + apply (ok_fields g (fun k s => to_json f g k (name_namespace n) s)
               (mkJ (set_cell (j_cells st) key (j_written st)) (j_written st + 1)) (IH g _ Hwf) fields).
      * intros c Hc. split; [apply Hkeys; exact Hc|]. intros s Hs.
        eapply JI_child_named; [exact Hn|unfold is_named_node; rewrite Et; reflexivity|exact HI|exact Hs].
      * apply JP_start_named with (key := key). exact HI.
    + intros r Hr. cbn [okoof snd]. exact Hr.
  - (* enum *)
    eapply ok_named; [exact Hn|unfold is_named_node; rewrite Et; reflexivity|exact HI|].
    cbn [okoof snd]. apply JP_start_named with (key := key). exact HI.
  - (* fixed *)
    eapply ok_named; [exact Hn|unfold is_named_node; rewrite Et; reflexivity|exact HI|].
    cbn [okoof snd]. apply JP_start_named with (key := key). exact HI.
Qed.

Lemma JI_init : forall g, JI g O (j_init g).
Proof.
  intro g. unfold j_init. split; [|split]; cbn [j_cells j_written].
  - intro k. rewrite nth_repeat_0. lia.
  - lia.
  - intros k n _ _ E. rewrite nth_repeat_0 in E. discriminate.
Qed.

Theorem to_json_ok_when_wf : forall g fuel, wf_struct g -> (json_fuel g <= fuel)%nat ->
  exists j st', to_json fuel g O None (j_init g) = Ok (j, st').
Proof.
  intros g fuel Hwf Hf.
  pose proof (to_json_ok_main fuel g None Hwf O (j_init g) (ws_nonempty g Hwf) (JI_init g)) as H1.
  assert (H2 : to_json fuel g O None (j_init g) <> OutOfFuel).
  { apply to_json_fuel_bound; [exact Hf|]. split; [apply repeat_length|cbn; lia]. }
  cbv beta in H1.
  destruct (to_json fuel g O None (j_init g)) as [[j st']| | | |]; cbn [okoof] in H1; try contradiction.
  eauto.
Qed.

(** ** Priority 1b *)
Theorem json_ok_when_wf : forall g fuel, wf_struct g -> (json_fuel g <= fuel)%nat ->
  exists t, schema_json fuel g = Ok t.
Proof.
  intros g fuel Hwf Hf. destruct (to_json_ok_when_wf g fuel Hwf Hf) as (j & st' & H).
  unfold schema_json. fold (j_init g). rewrite H. cbn [rbind fst]. eauto.
Qed.

(* the three structural hypotheses are needed *)
Example json_unnamed_cycle_err : schema_json 10 [mkNode (RArray 0) None] = Err EData.
Proof. vm_compute. reflexivity. Qed.
Example json_key_out_of_range_err : schema_json 10 [mkNode (RArray 1) None] = Err EData.
Proof. vm_compute. reflexivity. Qed.
Example json_union_logical_err : schema_json 10 [mkNode (RUnion []) (Some LUuid)] = Err EData.
Proof. vm_compute. reflexivity. Qed.

Print Assumptions json_cycle_rejected.
Print Assumptions json_ok_when_wf.
