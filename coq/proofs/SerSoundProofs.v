(** Encoder soundness for EVERY accepted presentation (C02, the direction that was open):
    whenever [ser Sc n sv] returns Ok, the bytes appended are [encode_e Sc n e] for some
    layout-correct [e] whose erasure conforms to [n].

    Hypotheses (each shown necessary by a [..._refuted] lemma at the end, or explained there):
    - [sval_typed sv]: str / unit names / struct field names are UTF-8, byte strings are bytes,
      chars are scalar values, and SerializeMap calls strictly alternate key / value;
    - [node_lim]: unions and enums have fewer than 2^63 members (the model's lists are unbounded),
      and fixed decimals have size <= 16 (the specification's [conforms] says no value conforms
      to a larger one, while the serializer accepts them). *)
From Coq Require Import NArith ZArith List Lia Bool ZifyN ZifyBool ZifyNat.
Import ListNotations.
Require Import Base Kinds GenUnionTable Schema Varint Utf8 Sval Ser Text De.
Require Import AvroValue Encoding Denote Wf.
Require Import VarintProofs SerProofs RecordProofs SerContractProofs.
Require Import SerSoundDecimal SerSoundBytes.
Open Scope N_scope.

Ltac Zify.zify_post_hook ::= Z.to_euclidean_division_equations.

Arguments N.add : simpl never.
Arguments N.sub : simpl never.
Arguments N.mul : simpl never.
Arguments N.div : simpl never.
Arguments N.modulo : simpl never.
Arguments N.pow : simpl never.
Arguments N.shiftl : simpl never.
Arguments N.shiftr : simpl never.
Arguments N.land : simpl never.
Arguments N.lor : simpl never.
Arguments N.ltb : simpl never.
Arguments N.leb : simpl never.
Arguments N.eqb : simpl never.
Arguments N.of_nat : simpl never.
Arguments N.to_nat : simpl never.
Arguments Z.of_nat : simpl never.
Arguments Z.of_N : simpl never.
Arguments Z.leb : simpl never.
Arguments Z.ltb : simpl never.

Notation pool_ok := RecordProofs.pool_ok.
Notation G := RecordProofs.good_st.
Notation at_key := RecordProofs.at_key.

(* ------------------------------------------------------------------ *)
(** * Inversion toolkit for the serializer monad *)

Lemma inv_bind {A B} (m : M A) (f : A -> M B) st b st' :
  sbind m f st = (Ok b, st') -> exists a st1, m st = (Ok a, st1) /\ f a st1 = (Ok b, st').
Proof.
  unfold sbind. destruct (m st) as [[a| | | |] st1]; intro H; try discriminate H.
  exists a, st1. auto.
Qed.

Lemma inv_fail {A} (r : result A) st a st' : fail r st = (Ok a, st') -> r = Ok a /\ st' = st.
Proof. unfold fail. intros [= -> ->]. auto. Qed.

Lemma inv_sret {A} (x : A) (st : sstate) a st' : sret x st = (Ok a, st') -> a = x /\ st' = st.
Proof. unfold sret. intros [= -> ->]. auto. Qed.

Lemma inv_write slow bs st u st' :
  G slow st -> write bs st = (Ok u, st') -> G slow st' /\ s_out st' = s_out st ++ bs.
Proof.
  intros (Hp & Hb & Hs) E. rewrite write_none in E by exact Hb. injection E as _ <-.
  split; [|reflexivity]. split; [|split]; cbn; auto.
Qed.

Lemma inv_write_varint slow z st u st' :
  G slow st -> write_varint z st = (Ok u, st') -> G slow st' /\ s_out st' = s_out st ++ encode_long z.
Proof. apply inv_write. Qed.

Lemma inv_usize n st z st' :
  usize_to_i64 n st = (Ok z, st') -> st' = st /\ z = Z.of_N n /\ (Z.of_N n <= I64_MAX)%Z.
Proof.
  unfold usize_to_i64. destruct (Z.leb_spec (Z.of_N n) I64_MAX) as [H|H].
  - intros [= <- <-]. auto.
  - intro E. discriminate E.
Qed.

Lemma spec_long_N l : (Z.of_N l <= I64_MAX)%Z -> spec_long (Z.of_N l) = encode_long (Z.of_N l).
Proof. intro H. apply spec_long_is_encode_long. unfold I64_MIN. lia. Qed.

Lemma inv_write_ld slow data st u st' :
  G slow st -> write_ld data st = (Ok u, st') -> G slow st' /\ s_out st' = s_out st ++ ld data.
Proof.
  intros Hg E. unfold write_ld in E.
  apply inv_bind in E as (l & st1 & E1 & E). apply inv_usize in E1 as (-> & -> & Hl).
  apply inv_bind in E as (u1 & st2 & E2 & E).
  apply (inv_write_varint slow) in E2 as (Hg2 & O2); [|exact Hg].
  apply (inv_write slow) in E as (Hg3 & O3); [|exact Hg2].
  split; [exact Hg3|]. rewrite O3, O2, <- app_assoc. unfold ld.
  rewrite <- spec_long_N by exact Hl. do 3 f_equal. lia.
Qed.

Lemma G_st0 slow : G slow (st0 slow).
Proof. split; [split; constructor|split; reflexivity]. Qed.

(* the serializer keeps the state good, whatever the outcome *)
Lemma ser_G Sc slow n v st r st' :
  G slow st -> ser Sc n v st = (r, st') -> G slow st' /\ exists w, s_out st' = s_out st ++ w.
Proof.
  intros (Hp & Hb & Hs) E.
  pose proof (ser_pool_indep_budget Sc n v st st Hp Hp eq_refl eq_refl) as H.
  rewrite E in H. destruct H as (_ & Hp' & _ & _ & Hs' & _ & Hb' & w & Hw & _).
  split; [split; [exact Hp'|split; [auto|congruence]]|]. exists w. exact Hw.
Qed.

(* ------------------------------------------------------------------ *)
(** * Union lookups return a branch position *)

Section Lookups.
Variable Sc : fschema.

Definition nsc_pos (ks : list nat) (key : ukey) (c : nsc) : Prop :=
  match c with
  | NSSome _ d k =>
      exists i n, d = Z.of_nat i /\ nth_error ks i = Some k /\ fnode_at Sc k = Some n /\
                  prio_of key (gen_registrations (kind_of n)) <> []
  | _ => True
  end.

Lemma register_pos ks key cur p d k :
  nsc_pos ks key cur -> nsc_pos ks key (NSSome p d k) -> nsc_pos ks key (register cur p d k).
Proof.
  intros Hc Hk. unfold register. destruct cur as [|old d0 k0|old].
  - exact Hk.
  - destruct (old <? p); [exact Hc|]. destruct (old =? p); [exact I|exact Hk].
  - destruct (p <? old); [exact Hk|exact I].
Qed.

Lemma fold_register_pos ks key l d k : forall cur,
  nsc_pos ks key cur -> (l <> [] -> nsc_pos ks key (NSSome 0 d k)) ->
  nsc_pos ks key (fold_left (fun c p => register c p d k) l cur).
Proof.
  induction l as [|p l IH]; intros cur Hc Hk; [exact Hc|].
  cbn [fold_left]. assert (Hk' : nsc_pos ks key (NSSome 0 d k)) by (apply Hk; discriminate).
  apply IH; [apply register_pos; [exact Hc|exact Hk']|intros _; exact Hk'].
Qed.

Lemma lookup_unnamed_pos key ks_full : forall ks pre cur,
  ks_full = pre ++ ks -> nsc_pos ks_full key cur ->
  nsc_pos ks_full key (lookup_unnamed_from Sc ks key (Z.of_nat (length pre)) cur).
Proof.
  induction ks as [|k ks IH]; intros pre cur Hfull Hc; [exact Hc|].
  cbn [lookup_unnamed_from].
  replace (Z.of_nat (length pre) + 1)%Z with (Z.of_nat (length (pre ++ [k])))
    by (rewrite app_length; cbn [length]; lia).
  apply IH; [rewrite <- app_assoc; exact Hfull|].
  destruct (fnode_at Sc k) as [n|] eqn:E; [|exact Hc].
  apply fold_register_pos; [exact Hc|]. intros Hne.
  exists (length pre), n. split; [reflexivity|]. split; [|split; [exact E|exact Hne]].
  rewrite Hfull, nth_error_app2, Nat.sub_diag by lia. reflexivity.
Qed.

Theorem union_unnamed_pos ks key d k :
  union_unnamed Sc ks key = Some (d, k) ->
  exists i n, d = Z.of_nat i /\ nth_error ks i = Some k /\ fnode_at Sc k = Some n /\
              is_union n = false /\ prio_of key (gen_registrations (kind_of n)) <> [].
Proof.
  unfold union_unnamed. intro H.
  pose proof (lookup_unnamed_pos key ks ks [] NSNone eq_refl I) as Hp.
  change (Z.of_nat (length (@nil nat))) with 0%Z in Hp.
  destruct (lookup_unnamed_from Sc ks key 0 NSNone) as [|p d0 k0|p]; try discriminate H.
  injection H as -> ->. destruct Hp as (i & n & Hd & Hi & Hn & Hr).
  exists i, n. repeat split; auto.
  destruct n; try reflexivity. exfalso. apply Hr. reflexivity.
Qed.

Lemma union_unnamed_null ks d k :
  union_unnamed Sc ks KNull = Some (d, k) ->
  exists i, d = Z.of_nat i /\ nth_error ks i = Some k /\ fnode_at Sc k = Some FNull.
Proof.
  intro H. apply union_unnamed_pos in H as (i & n & Hd & Hi & Hn & _ & Hr).
  exists i. split; [exact Hd|]. split; [exact Hi|].
  destruct n; try (exfalso; apply Hr; vm_compute; reflexivity). exact Hn.
Qed.

Definition acc_pos (ks : list nat) (a : option (Z * nat)) : Prop :=
  match a with
  | Some (d, k) => exists i, d = Z.of_nat i /\ nth_error ks i = Some k
  | None => True
  end.

Lemma assoc_last_pos ks x : forall l acc,
  Forall (fun e => acc_pos ks (Some (snd e))) l -> acc_pos ks acc -> acc_pos ks (assoc_last x l acc).
Proof.
  induction l as [|[k v] l IH]; intros acc Hl Ha; [exact Ha|].
  cbn [assoc_last]. inversion Hl; subst. apply IH; [assumption|].
  destruct (bytes_eqb x k); [assumption|exact Ha].
Qed.

Lemma named_entries_pos names_of ks_full : forall ks pre,
  ks_full = pre ++ ks ->
  Forall (fun e => acc_pos ks_full (Some (snd e)))
         (named_entries_from names_of Sc ks (Z.of_nat (length pre))).
Proof.
  induction ks as [|k ks IH]; intros pre Hfull; [constructor|].
  cbn [named_entries_from]. apply Forall_app. split.
  - destruct (fnode_at Sc k) as [n|]; [|constructor].
    apply Forall_forall. intros e He. apply in_map_iff in He as (nm & <- & _). cbn [snd acc_pos].
    exists (length pre). split; [reflexivity|].
    rewrite Hfull, nth_error_app2, Nat.sub_diag by lia. reflexivity.
  - replace (Z.of_nat (length pre) + 1)%Z with (Z.of_nat (length (pre ++ [k])))
      by (rewrite app_length; cbn [length]; lia).
    apply IH. rewrite <- app_assoc. exact Hfull.
Qed.

Theorem union_named_pos ks nm d k :
  union_named Sc ks nm = Some (d, k) -> exists i, d = Z.of_nat i /\ nth_error ks i = Some k.
Proof.
  unfold union_named. intro H.
  pose proof (assoc_last_pos ks nm _ None (named_entries_pos variant_names ks ks [] eq_refl) I) as H1.
  pose proof (assoc_last_pos ks nm _ None (named_entries_pos variant_aliases ks ks [] eq_refl) I) as H2.
  change (Z.of_nat (length (@nil nat))) with 0%Z in H1, H2.
  destruct (assoc_last nm (named_entries_from variant_names Sc ks 0) None) as [[d1 k1]|].
  - injection H as -> ->. exact H1.
  - rewrite H in H2. exact H2.
Qed.

End Lookups.

(* ------------------------------------------------------------------ *)
(** * Hypotheses on the presentation and on the schema *)

(* strict alternation of serialize_key / serialize_value (serialize_entry = both) *)
Fixpoint map_alt (pending : bool) (calls : list (option sval * option sval)) : bool :=
  match calls with
  | [] => negb pending
  | (Some _, Some _) :: r => negb pending && map_alt false r
  | (Some _, None) :: r => negb pending && map_alt true r
  | (None, Some _) :: r => pending && map_alt false r
  | (None, None) :: r => false
  end.

(* what a Rust caller can build: &str is UTF-8, &[u8] holds bytes, char is a scalar value,
   and the SerializeMap protocol is respected *)
Fixpoint sval_typed (v : sval) : bool :=
  match v with
  | SChar cp => is_scalar cp
  | SStr s => utf8_valid s
  | SBytes b => bytes_okb b
  | SUnitStruct n => utf8_valid n
  | SUnitVariant _ _ vn => utf8_valid vn
  | SSome v' | SNewtypeStruct _ v' | SNewtypeVariant _ _ _ v' => sval_typed v'
  | SSeq _ vs | STuple vs | STupleStruct _ vs | STupleVariant _ _ _ vs => forallb sval_typed vs
  | SMap _ calls =>
      map_alt false calls &&
      forallb (fun c => match c with
                        | (ko, vo) =>
                            match ko with Some k => sval_typed k | None => true end &&
                            match vo with Some x => sval_typed x | None => true end
                        end) calls
  | SStruct _ _ fs | SStructVariant _ _ _ _ fs =>
      forallb (fun f => match f with (nm, x) => utf8_valid nm && sval_typed x end) fs
  | _ => true
  end.

(* sizes the model leaves unbounded / the specification excludes *)
Definition node_lim (n : fnode) : bool :=
  match n with
  | FUnion ks => len_ok (length ks)
  | FEnum _ syms => len_ok (length syms)
  | FDecimal _ _ (Some (_, size)) => size <=? 16
  | _ => true
  end.
Definition schema_lim (Sc : fschema) : bool := forallb node_lim Sc.

Lemma schema_lim_at Sc k n : schema_lim Sc = true -> fnode_at Sc k = Some n -> node_lim n = true.
Proof.
  unfold schema_lim, fnode_at. intros H E. rewrite forallb_forall in H. apply H.
  eapply nth_error_In. exact E.
Qed.

(* ------------------------------------------------------------------ *)
(** * Valid encodings *)

Section Sound.
Variable Sc : fschema.
Hypothesis Hlim : schema_lim Sc = true.
Variable slow : bool.

Definition valid (n : fnode) (w : bytes) : Prop :=
  exists e, layout_ok e = true /\ conforms Sc n (erase e) = true /\ encode_e Sc n e = w.

(* the conclusion shape used everywhere *)
Definition snd_at (n : fnode) (st st' : sstate) : Prop :=
  exists w, valid n w /\ s_out st' = s_out st ++ w.

Lemma snd_intro n st st' e :
  layout_ok e = true -> conforms Sc n (erase e) = true -> s_out st' = s_out st ++ encode_e Sc n e ->
  snd_at n st st'.
Proof. intros H1 H2 H3. exists (encode_e Sc n e). split; [exists e; auto|exact H3]. Qed.

Lemma Zin_bounds lo hi z : Zin lo hi z = true -> (lo <= z <= hi)%Z.
Proof. unfold Zin. lia. Qed.

Lemma enc_i64 z : Zin I64_MIN I64_MAX z = true -> spec_long z = encode_long z.
Proof. intro H. apply spec_long_is_encode_long. apply Zin_bounds. exact H. Qed.
Lemma enc_i32 z : Zin I32_MIN I32_MAX z = true -> spec_long z = encode_long z.
Proof.
  intro H. apply spec_long_is_encode_long. apply Zin_bounds in H.
  unfold I32_MIN, I32_MAX, I64_MIN, I64_MAX in *. lia.
Qed.
Lemma enc_idx i len : (i < len)%nat -> len_ok len = true -> spec_long (Z.of_nat i) = encode_long (Z.of_nat i).
Proof. intros Hi Hl. apply spec_long_nat. unfold len_ok in *. lia. Qed.

(** ** integers *)
Lemma ser_int_leaf_sound z n st st' :
  node_lim n = true -> G slow st -> ser_int_leaf z n st = (Ok tt, st') -> snd_at n st st'.
Proof.
  intros Hn Hg E. pose proof Hg as (_ & Hb & _).
  destruct n; cbn [ser_int_leaf] in E; try (apply inv_fail in E as [E _]; discriminate E).
  - (* int *) destruct (Zin I32_MIN I32_MAX z) eqn:R; [|apply inv_fail in E as [E _]; discriminate E].
    apply (inv_write_varint slow) in E as (_ & O); [|exact Hg].
    apply (snd_intro _ _ _ (EInt z)); [reflexivity|exact R|]. cbn [encode_e]. rewrite enc_i32; auto.
  - (* long *) destruct (Zin I64_MIN I64_MAX z) eqn:R; [|apply inv_fail in E as [E _]; discriminate E].
    apply (inv_write_varint slow) in E as (_ & O); [|exact Hg].
    apply (snd_intro _ _ _ (ELong z)); [reflexivity|exact R|]. cbn [encode_e]. rewrite enc_i64; auto.
  - (* enum *)
    destruct (Zin I64_MIN I64_MAX z) eqn:R; cbn [negb] in E; [|apply inv_fail in E as [E _]; discriminate E].
    destruct ((z <? 0)%Z || (Z.of_nat (length symbols) <=? z)%Z) eqn:R2;
      [apply inv_fail in E as [E _]; discriminate E|].
    apply (inv_write_varint slow) in E as (_ & O); [|exact Hg].
    apply orb_false_elim in R2 as [R2 R3].
    assert (Hz : z = Z.of_nat (Z.to_nat z)) by lia.
    apply (snd_intro _ _ _ (EEnum (Z.to_nat z))); [reflexivity| |].
    + cbn [erase conforms]. apply Nat.ltb_lt. lia.
    + cbn [encode_e]. rewrite <- Hz, enc_i64; auto.
  - (* decimal *)
    destruct (ser_int_decimal_sound Sc precision scale repr z st st' Hb E) as (m' & pad & Hc & O).
    apply (snd_intro _ _ _ (EDecimal m' pad)); [reflexivity|exact Hc|exact O].
  - (* date *) destruct (Zin I32_MIN I32_MAX z) eqn:R; [|apply inv_fail in E as [E _]; discriminate E].
    apply (inv_write_varint slow) in E as (_ & O); [|exact Hg].
    apply (snd_intro _ _ _ (EInt z)); [reflexivity|exact R|]. cbn [encode_e]. rewrite enc_i32; auto.
  - (* time-millis *) destruct (Zin I32_MIN I32_MAX z) eqn:R; [|apply inv_fail in E as [E _]; discriminate E].
    apply (inv_write_varint slow) in E as (_ & O); [|exact Hg].
    apply (snd_intro _ _ _ (EInt z)); [reflexivity|exact R|]. cbn [encode_e]. rewrite enc_i32; auto.
  - (* time-micros *) destruct (Zin I64_MIN I64_MAX z) eqn:R; [|apply inv_fail in E as [E _]; discriminate E].
    apply (inv_write_varint slow) in E as (_ & O); [|exact Hg].
    apply (snd_intro _ _ _ (ELong z)); [reflexivity|exact R|]. cbn [encode_e]. rewrite enc_i64; auto.
  - destruct (Zin I64_MIN I64_MAX z) eqn:R; [|apply inv_fail in E as [E _]; discriminate E].
    apply (inv_write_varint slow) in E as (_ & O); [|exact Hg].
    apply (snd_intro _ _ _ (ELong z)); [reflexivity|exact R|]. cbn [encode_e]. rewrite enc_i64; auto.
  - destruct (Zin I64_MIN I64_MAX z) eqn:R; [|apply inv_fail in E as [E _]; discriminate E].
    apply (inv_write_varint slow) in E as (_ & O); [|exact Hg].
    apply (snd_intro _ _ _ (ELong z)); [reflexivity|exact R|]. cbn [encode_e]. rewrite enc_i64; auto.
Qed.

(** ** strings *)
Lemma symbol_index_lt syms s i : symbol_index syms s = Some i -> (i < length syms)%nat.
Proof.
  unfold symbol_index. intro H. apply index_of_last_some in H.
  apply nth_error_Some. congruence.
Qed.

Lemma ser_str_leaf_sound s n st st' :
  utf8_valid s = true -> node_lim n = true -> G slow st ->
  ser_str_leaf s n st = (Ok tt, st') -> snd_at n st st'.
Proof.
  intros Hu Hn Hg E. pose proof Hg as (_ & Hb & _).
  pose proof (utf8_valid_bytes_ok s Hu) as Hok.
  destruct n; cbn [ser_str_leaf] in E; try (apply inv_fail in E as [E _]; discriminate E).
  - (* bytes *) apply (inv_write_ld slow) in E as (_ & O); [|exact Hg].
    apply (snd_intro _ _ _ (EBytes s)); [reflexivity|exact Hok|exact O].
  - (* string *) apply (inv_write_ld slow) in E as (_ & O); [|exact Hg].
    apply (snd_intro _ _ _ (EString s)); [reflexivity| |exact O].
    cbn [erase conforms]. rewrite Hok, Hu. reflexivity.
  - (* enum *) destruct (symbol_index symbols s) as [i|] eqn:Ei; [|apply inv_fail in E as [E _]; discriminate E].
    apply (inv_write_varint slow) in E as (_ & O); [|exact Hg].
    apply symbol_index_lt in Ei.
    apply (snd_intro _ _ _ (EEnum i)); [reflexivity| |].
    + cbn [erase conforms]. apply Nat.ltb_lt. exact Ei.
    + cbn [encode_e]. rewrite (enc_idx i (length symbols)); auto.
  - (* fixed *) destruct (N.eqb_spec size (N.of_nat (length s))) as [Es|Es];
      [|apply inv_fail in E as [E _]; discriminate E].
    apply (inv_write slow) in E as (_ & O); [|exact Hg].
    apply (snd_intro _ _ _ (EFixed s)); [reflexivity| |exact O].
    cbn [erase conforms]. rewrite Hok. cbn [andb]. apply N.eqb_eq. congruence.
  - (* decimal *)
    destruct (parse_decimal s) as [[m sc]|] eqn:Ep; [|apply inv_fail in E as [E _]; discriminate E].
    destruct (parse_decimal_bound _ _ _ Ep) as (Hm & Hsc).
    assert (Hr : match repr with Some (_, size) => size <=? 16 = true | None => True end).
    { cbn [node_lim] in Hn. destruct repr as [[nm size]|]; [exact Hn|exact I]. }
    destruct (ser_decimal_regular_sound Sc precision scale repr m sc st st' Hm Hb Hr E) as (m' & pad & Hc & O).
    apply (snd_intro _ _ _ (EDecimal m' pad)); [reflexivity|exact Hc|exact O].
  - (* big decimal *)
    destruct (parse_decimal s) as [[m sc]|] eqn:Ep; [|apply inv_fail in E as [E _]; discriminate E].
    destruct (parse_decimal_bound _ _ _ Ep) as (Hm & Hsc).
    destruct (ser_decimal_big_sound Sc m sc st st' Hm Hsc Hb E) as (pad & Hc & O).
    apply (snd_intro _ _ _ (EBigDecimal m sc pad)); [reflexivity|exact Hc|exact O].
  - (* uuid *) apply (inv_write_ld slow) in E as (_ & O); [|exact Hg].
    apply (snd_intro _ _ _ (EString s)); [reflexivity| |exact O].
    cbn [erase conforms]. rewrite Hok, Hu. reflexivity.
Qed.

(** ** byte strings *)
Lemma ser_bytes_leaf_sound b n st st' :
  bytes_okb b = true -> node_lim n = true -> G slow st ->
  ser_bytes_leaf b n st = (Ok tt, st') -> snd_at n st st'.
Proof.
  intros Hok Hn Hg E.
  destruct n; cbn [ser_bytes_leaf] in E; try (apply inv_fail in E as [E _]; discriminate E).
  - apply (inv_write_ld slow) in E as (_ & O); [|exact Hg].
    apply (snd_intro _ _ _ (EBytes b)); [reflexivity|exact Hok|exact O].
  - destruct (utf8_valid b) eqn:Hu; [|apply inv_fail in E as [E _]; discriminate E].
    apply (inv_write_ld slow) in E as (_ & O); [|exact Hg].
    apply (snd_intro _ _ _ (EString b)); [reflexivity| |exact O].
    cbn [erase conforms]. rewrite Hok, Hu. reflexivity.
  - destruct (N.eqb_spec size (N.of_nat (length b))) as [Es|Es];
      [|apply inv_fail in E as [E _]; discriminate E].
    apply (inv_write slow) in E as (_ & O); [|exact Hg].
    apply (snd_intro _ _ _ (EFixed b)); [reflexivity| |exact O].
    cbn [erase conforms]. rewrite Hok. cbn [andb]. apply N.eqb_eq. congruence.
  - destruct (Nat.eqb_spec (length b) 12) as [El|El]; [|apply inv_fail in E as [E _]; discriminate E].
    apply (inv_write slow) in E as (_ & O); [|exact Hg].
    destruct (duration_bytes_exists b El Hok) as (x & y & z & Hx & Hy & Hz & Eb).
    apply (snd_intro _ _ _ (EDuration x y z)); [reflexivity| |].
    + cbn [erase conforms]. apply N.ltb_lt in Hx, Hy, Hz. rewrite Hx, Hy, Hz. reflexivity.
    + cbn [encode_e]. rewrite <- Eb. exact O.
Qed.

(** ** little-endian words of any width *)
Lemma le_any n x : le_bytes n x = spec_le n (x mod 2 ^ (8 * N.of_nat n)).
Proof. rewrite spec_le_mod. apply le_bytes_spec_le. Qed.
Lemma mod_lt32 x : (x mod 2 ^ (8 * N.of_nat 4) <? 2 ^ 32) = true.
Proof. apply N.ltb_lt. change (8 * N.of_nat 4) with 32. apply N.mod_lt. vm_compute. discriminate. Qed.
Lemma mod_lt64 x : (x mod 2 ^ (8 * N.of_nat 8) <? 2 ^ 64) = true.
Proof. apply N.ltb_lt. change (8 * N.of_nat 8) with 64. apply N.mod_lt. vm_compute. discriminate. Qed.

(** ** via_union around a sound leaf *)
Lemma valid_union ks i k n' w :
  len_ok (length ks) = true -> nth_error ks i = Some k -> fnode_at Sc k = Some n' -> valid n' w ->
  valid (FUnion ks) (encode_long (Z.of_nat i) ++ w).
Proof.
  intros Hl Hi Hk (e & L & C & En). exists (EUnion i e). split; [exact L|]. split.
  - cbn [erase conforms]. rewrite Hi, Hk. exact C.
  - cbn [encode_e]. rewrite Hi, Hk, En.
    rewrite (enc_idx i (length ks)); [reflexivity| |exact Hl].
    apply nth_error_Some. congruence.
Qed.

Lemma via_union_sound key (leaf : fnode -> M unit) :
  (forall n' st st', is_union n' = false -> node_lim n' = true -> G slow st ->
      leaf n' st = (Ok tt, st') -> snd_at n' st st') ->
  forall n st st', node_lim n = true -> G slow st ->
    via_union Sc n key leaf st = (Ok tt, st') -> snd_at n st st'.
Proof.
  intros Hleaf n st st' Hn Hg E.
  destruct (is_union n) eqn:U; [|rewrite via_union_leaf in E by exact U; eapply Hleaf; eauto].
  destruct n; try discriminate U. cbn [via_union] in E.
  apply inv_bind in E as (k' & st1 & E1 & E).
  unfold unnamed_step in E1.
  destruct (union_unnamed Sc variants key) as [[d k0]|] eqn:Eu; [|apply inv_fail in E1 as [E1 _]; discriminate E1].
  apply inv_bind in E1 as (u & st2 & E2 & E1). apply inv_sret in E1 as (-> & ->).
  apply (inv_write_varint slow) in E2 as (Hg2 & O2); [|exact Hg].
  apply union_unnamed_pos in Eu as (i & n' & -> & Hi & Hk & Hu & _).
  rewrite Hk in E.
  assert (E' : leaf n' st2 = (Ok tt, st')) by (destruct n'; try exact E; discriminate Hu).
  destruct (Hleaf n' st2 st' Hu (schema_lim_at _ _ _ Hlim Hk) Hg2 E') as (w & Hv & O).
  exists (encode_long (Z.of_nat i) ++ w). split.
  - eapply valid_union; eauto.
  - rewrite O, O2, <- app_assoc. reflexivity.
Qed.

(** ** by-name selection followed by a sound continuation *)
Lemma named_step_sound nm (cont : fnode -> M unit) :
  (forall n' st st', node_lim n' = true -> G slow st -> cont n' st = (Ok tt, st') -> snd_at n' st st') ->
  forall n st st', node_lim n = true -> G slow st ->
    sbind (named_step Sc n nm) cont st = (Ok tt, st') -> snd_at n st st'.
Proof.
  intros Hc n st st' Hn Hg E. apply inv_bind in E as (n1 & st1 & E1 & E).
  destruct (is_union n) eqn:U.
  2:{ rewrite named_step_leaf in E1 by exact U. apply inv_sret in E1 as (-> & ->). eapply Hc; eauto. }
  destruct n; try discriminate U. cbn [named_step] in E1.
  destruct (union_named Sc variants nm) as [[d k']|] eqn:Eu.
  2:{ apply inv_sret in E1 as (-> & ->). eapply Hc; eauto. }
  apply inv_bind in E1 as (u & st2 & E2 & E1).
  apply (inv_write_varint slow) in E2 as (Hg2 & O2); [|exact Hg].
  apply union_named_pos in Eu as (i & -> & Hi).
  destruct (fnode_at Sc k') as [n'|] eqn:Hk; [|apply inv_fail in E1 as [E1 _]; discriminate E1].
  apply inv_sret in E1 as (-> & ->).
  destruct (Hc n' st2 st' (schema_lim_at _ _ _ Hlim Hk) Hg2 E) as (w & Hv & O).
  exists (encode_long (Z.of_nat i) ++ w). split.
  - eapply valid_union; eauto.
  - rewrite O, O2, <- app_assoc. reflexivity.
Qed.

(** ** serialize_unit_variant: a variant named after the union's null branch selects it *)
Lemma unit_variant_null_sound ename variant (by_type : M unit) n st st' :
  (forall st st', G slow st -> by_type st = (Ok tt, st') -> snd_at n st st') ->
  node_lim n = true -> G slow st ->
  unit_variant_null Sc n ename variant by_type st = (Ok tt, st') -> snd_at n st st'.
Proof.
  intros Hby Hn Hg E. unfold unit_variant_null in E.
  destruct n; try (eapply Hby; eauto; fail).
  destruct (union_named Sc variants variant) as [[d k']|] eqn:Eu; [|eapply Hby; eauto].
  destruct (fnode_at Sc k') as [n'|] eqn:Hk; [|eapply Hby; eauto].
  destruct n'; try (eapply Hby; eauto; fail).
  match type of E with (if ?c then _ else _) _ = _ => destruct c end; [eapply Hby; eauto|].
  apply (inv_write_varint slow) in E as (_ & O); [|exact Hg].
  apply union_named_pos in Eu as (i & -> & Hi).
  exists (encode_long (Z.of_nat i) ++ []). split; [|rewrite app_nil_r; exact O].
  eapply valid_union; [exact Hn|exact Hi|exact Hk|]. exists ENull. auto.
Qed.

(* ------------------------------------------------------------------ *)
(** * Block layouts written by BlockWriter *)

(* the first [b] items form one block (when b > 0), every later item its own block *)
Definition mkblocks {X} (b : nat) (xs : list X) : list (bool * list X) :=
  (if Nat.eqb b 0 then [] else [(false, firstn b xs)]) ++ map (fun x => (false, [x])) (skipn b xs).

Definition blocks_bytes {X} (enc : X -> bytes) (blocks : list (bool * list X)) : bytes :=
  flat_map (fun blk : bool * list X =>
              let items := flat_map enc (snd blk) in
              let cnt := Z.of_nat (length (snd blk)) in
              if fst blk then spec_long (- cnt) ++ spec_long (Z.of_nat (length items)) ++ items
              else spec_long cnt ++ items) blocks.

(* what the element loop writes: [b] = items still covered by the announced block *)
Fixpoint loop_out (b : nat) (ws : list bytes) : bytes :=
  match ws with
  | [] => []
  | w :: r => match b with
              | O => encode_long 1 ++ w ++ loop_out O r
              | S b' => w ++ loop_out b' r
              end
  end.

Lemma spec_long_1 : spec_long 1 = encode_long 1.
Proof. vm_compute. reflexivity. Qed.
Lemma spec_long_0 : spec_long 0 = encode_long 0.
Proof. vm_compute. reflexivity. Qed.

Lemma blocks_bytes_single {X} (enc : X -> bytes) xs :
  blocks_bytes enc (map (fun x => (false, [x])) xs) = loop_out 0 (map enc xs).
Proof.
  induction xs as [|x xs IH]; [reflexivity|].
  unfold blocks_bytes in *. cbn [map flat_map fst snd length loop_out]. rewrite IH.
  change (Z.of_nat 1) with 1%Z. rewrite spec_long_1, app_nil_r, <- app_assoc. reflexivity.
Qed.

Lemma loop_out_split {X} (enc : X -> bytes) : forall b xs, (b <= length xs)%nat ->
  loop_out b (map enc xs) = flat_map enc (firstn b xs) ++ loop_out 0 (map enc (skipn b xs)).
Proof.
  induction b as [|b IH]; intros xs Hb; [reflexivity|].
  destruct xs as [|x xs]; [cbn in Hb; lia|].
  cbn [map loop_out firstn skipn flat_map]. rewrite IH by (cbn in Hb; lia).
  rewrite app_assoc. reflexivity.
Qed.

Lemma blocks_bytes_mk {X} (enc : X -> bytes) b xs :
  (b <= length xs)%nat -> len_ok b = true ->
  blocks_bytes enc (mkblocks b xs) =
  (if Nat.eqb b 0 then [] else encode_long (Z.of_nat b)) ++ loop_out b (map enc xs).
Proof.
  intros Hb Hl. unfold mkblocks. destruct (Nat.eqb_spec b 0) as [->|Hne].
  - cbn [app skipn]. apply blocks_bytes_single.
  - unfold blocks_bytes. rewrite flat_map_app. fold (blocks_bytes enc (map (fun x => (false, [x])) (skipn b xs))).
    rewrite blocks_bytes_single. cbn [flat_map fst snd]. rewrite app_nil_r.
    rewrite firstn_length, Nat.min_l by exact Hb. rewrite spec_long_nat by exact Hl.
    rewrite (loop_out_split enc b xs Hb), <- app_assoc. reflexivity.
Qed.

Lemma mkblocks_flat {X Y} (f : X -> Y) b (xs : list X) :
  flat_map (fun blk : bool * list X => map f (snd blk)) (mkblocks b xs) = map f xs.
Proof.
  unfold mkblocks. rewrite flat_map_app.
  assert (E : flat_map (fun blk : bool * list X => map f (snd blk)) (map (fun x => (false, [x])) (skipn b xs))
              = map f (skipn b xs)).
  { induction (skipn b xs) as [|x l IH]; [reflexivity|]. cbn [map flat_map snd app]. rewrite IH. reflexivity. }
  rewrite E. destruct (Nat.eqb_spec b 0) as [->|Hne]; [reflexivity|].
  cbn [flat_map snd]. rewrite app_nil_r, <- map_app, firstn_skipn. reflexivity.
Qed.

Lemma mkblocks_forall {X} (P : X -> bool) b (xs : list X) :
  (b <= length xs)%nat -> forallb P xs = true ->
  forallb (fun blk : bool * list X => negb (Nat.eqb (length (snd blk)) 0) && forallb P (snd blk))
          (mkblocks b xs) = true.
Proof.
  intros Hb HP. rewrite <- (firstn_skipn b xs), forallb_app in HP. apply andb_prop in HP as [H1 H2].
  unfold mkblocks. rewrite forallb_app. apply andb_true_intro. split.
  - destruct (Nat.eqb_spec b 0) as [->|Hne]; [reflexivity|].
    cbn [forallb snd]. rewrite H1, firstn_length, Nat.min_l by exact Hb.
    destruct b; [contradiction|reflexivity].
  - clear H1. induction (skipn b xs) as [|x l IH]; [reflexivity|].
    cbn [map forallb snd length Nat.eqb negb] in *. apply andb_prop in H2 as [Hx Hl].
    rewrite Hx, IH by exact Hl. reflexivity.
Qed.

(* ------------------------------------------------------------------ *)
(** * Sequences *)

Definition validk (k : nat) (w : bytes) : Prop :=
  exists e, layout_ok e = true /\ conf_at Sc k (erase e) = true /\ enc_at Sc k e = w.

Definition SoundV (v : sval) : Prop :=
  forall n st st', node_lim n = true -> G slow st -> ser Sc n v st = (Ok tt, st') -> snd_at n st st'.
Definition SoundK (v : sval) : Prop :=
  forall k st st', G slow st -> at_key Sc k v st = (Ok tt, st') ->
    exists w, validk k w /\ s_out st' = s_out st ++ w.

Lemma SoundV_K v : SoundV v -> SoundK v.
Proof.
  intros H k st st' Hg E. unfold RecordProofs.at_key in E.
  destruct (fnode_at Sc k) as [n|] eqn:Hk; [|apply inv_fail in E as [E _]; discriminate E].
  destruct (H n st st' (schema_lim_at _ _ _ Hlim Hk) Hg E) as (w & (e & L & C & En) & O).
  exists w. split; [|exact O]. exists e. unfold conf_at, enc_at. rewrite Hk. auto.
Qed.

Lemma at_key_G k v st r st' : G slow st -> at_key Sc k v st = (r, st') -> G slow st'.
Proof.
  intros Hg E. unfold RecordProofs.at_key in E. destruct (fnode_at Sc k) as [n|].
  - eapply ser_G; eauto.
  - injection E as _ <-. exact Hg.
Qed.

Lemma inv_block_next blk st b st' :
  G slow st -> block_next blk st = (Ok b, st') ->
  G slow st' /\ b = blk - 1 /\
  s_out st' = s_out st ++ (if blk =? 0 then encode_long 1 else []).
Proof.
  intros Hg E. unfold block_next in E. destruct (N.eqb_spec blk 0) as [->|Hne].
  - apply inv_bind in E as (u & st1 & E1 & E). apply inv_sret in E as (-> & ->).
    apply (inv_write_varint slow) in E1 as (Hg1 & O1); [|exact Hg]. auto.
  - apply inv_sret in E as (-> & ->). rewrite app_nil_r. auto.
Qed.

Lemma loop_out_cons blk w ws :
  loop_out (N.to_nat blk) (w :: ws) =
  (if blk =? 0 then encode_long 1 else []) ++ w ++ loop_out (N.to_nat (blk - 1)) ws.
Proof.
  destruct (N.eqb_spec blk 0) as [->|Hne]; [reflexivity|].
  replace (N.to_nat blk) with (S (N.to_nat (blk - 1))) by lia. reflexivity.
Qed.

Lemma arr_go_sound items : forall vs blk st blk' st',
  Forall SoundK vs -> G slow st -> arr_go (at_key Sc) items blk vs st = (Ok blk', st') ->
  exists es, forallb layout_ok es = true /\ forallb (conf_at Sc items) (map erase es) = true /\
    length es = length vs /\
    s_out st' = s_out st ++ loop_out (N.to_nat blk) (map (enc_at Sc items) es) /\
    blk' = blk - N.of_nat (length vs) /\ G slow st'.
Proof.
  induction vs as [|v vs IH]; intros blk st blk' st' HF Hg E.
  - apply inv_sret in E as (-> & ->). exists []. cbn [forallb map length loop_out]. rewrite app_nil_r.
    do 4 (split; [reflexivity|]). split; [lia|exact Hg].
  - cbn [arr_go] in E. inversion HF as [|? ? Hv HF']; subst.
    apply inv_bind in E as (b & st1 & E1 & E).
    apply inv_block_next in E1 as (Hg1 & -> & O1); [|exact Hg].
    apply inv_bind in E as ([] & st2 & E2 & E).
    pose proof (at_key_G _ _ _ _ _ Hg1 E2) as Hg2.
    destruct (Hv items st1 st2 Hg1 E2) as (w & (e & L & C & En) & O2).
    destruct (IH _ _ _ _ HF' Hg2 E) as (es & Ls & Cs & Len & O3 & Eb & Hg3).
    exists (e :: es). cbn [forallb map length]. rewrite L, C, Ls, Cs, Len.
    do 3 (split; [reflexivity|]). split; [|split; [lia|exact Hg3]].
    rewrite loop_out_cons, O3, O2, O1, En, <- !app_assoc. reflexivity.
Qed.

Lemma encode_EArray k blocks :
  encode_e Sc (FArray k) (EArray blocks) = blocks_bytes (enc_at Sc k) blocks ++ spec_long 0.
Proof. reflexivity. Qed.
Lemma erase_EArray blocks :
  erase (EArray blocks) = AArray (flat_map (fun blk : bool * list evalue => map erase (snd blk)) blocks).
Proof. reflexivity. Qed.
Lemma layout_EArray blocks :
  layout_ok (EArray blocks) =
  forallb (fun blk : bool * list evalue => negb (Nat.eqb (length (snd blk)) 0) && forallb layout_ok (snd blk)) blocks.
Proof. reflexivity. Qed.

Lemma inv_block_new l st blk st' :
  G slow st -> block_new l st = (Ok blk, st') ->
  G slow st' /\ blk = l /\ (Z.of_N l <= I64_MAX)%Z /\
  s_out st' = s_out st ++ (if 0 <? l then encode_long (Z.of_N l) else []).
Proof.
  intros Hg E. unfold block_new in E. destruct (N.ltb_spec 0 l) as [Hl|Hl].
  - apply inv_bind in E as (z & st1 & E1 & E). apply inv_usize in E1 as (-> & -> & Hz).
    apply inv_bind in E as (u & st2 & E2 & E). apply inv_sret in E as (-> & ->).
    apply (inv_write_varint slow) in E2 as (Hg2 & O2); [|exact Hg]. auto.
  - apply inv_sret in E as (-> & ->). rewrite app_nil_r.
    assert (l = 0) by lia. subst l.
    split; [exact Hg|]. split; [reflexivity|]. split; [|reflexivity]. unfold I64_MAX. lia.
Qed.

Lemma inv_block_end blk st u st' :
  G slow st -> block_end blk st = (Ok u, st') -> G slow st' /\ blk = 0 /\ s_out st' = s_out st ++ encode_long 0.
Proof.
  intros Hg E. unfold block_end in E. destruct (N.eqb_spec blk 0) as [->|Hne].
  - apply (inv_write_varint slow) in E as (Hg1 & O1); [|exact Hg]. auto.
  - apply inv_fail in E as [E _]. discriminate E.
Qed.

Lemma hdr_eq l : (if 0 <? l then encode_long (Z.of_N l) else []) =
                 (if Nat.eqb (N.to_nat l) 0 then [] else encode_long (Z.of_nat (N.to_nat l))).
Proof.
  destruct (N.ltb_spec 0 l), (Nat.eqb_spec (N.to_nat l) 0); try lia; [|reflexivity].
  rewrite N_nat_Z. reflexivity.
Qed.

Lemma seq_array_sound len vs items st st' :
  Forall SoundK vs -> G slow st ->
  seq_leaf (at_key Sc) len vs (FArray items) st = (Ok tt, st') -> snd_at (FArray items) st st'.
Proof.
  intros HF Hg E. rewrite seq_leaf_array in E. set (l := match len with Some l => l | None => 0 end) in E.
  apply inv_bind in E as (blk & st1 & E1 & E).
  apply inv_block_new in E1 as (Hg1 & -> & Hl & O1); [|exact Hg].
  apply inv_bind in E as (blk' & st2 & E2 & E).
  change (seq_go (at_key Sc) items) with (arr_go (at_key Sc) items) in E2.
  destruct (arr_go_sound items vs l st1 blk' st2 HF Hg1 E2) as (es & Ls & Cs & Len & O2 & Eb & Hg2).
  apply inv_block_end in E as (_ & Eb0 & O3); [|exact Hg2].
  assert (Hle : (N.to_nat l <= length es)%nat) by lia.
  assert (Hlo : len_ok (N.to_nat l) = true) by (unfold len_ok; lia).
  apply (snd_intro _ _ _ (EArray (mkblocks (N.to_nat l) es))).
  - rewrite layout_EArray. apply mkblocks_forall; assumption.
  - rewrite erase_EArray, mkblocks_flat. cbn [conforms]. exact Cs.
  - rewrite encode_EArray, blocks_bytes_mk by assumption.
    rewrite O3, O2, O1, hdr_eq, spec_long_0, <- !app_assoc. reflexivity.
Qed.

(** ** sequences presented to duration / bytes / fixed *)
Lemma inv_extract_u32 v st x st' : extract_u32 v st = (Ok x, st') -> st' = st.
Proof.
  unfold extract_u32. destruct v; try (intro E; apply inv_fail in E as [E _]; discriminate E).
  destruct signed; [intro E; apply inv_fail in E as [E _]; discriminate E|].
  destruct w; try (intro E; apply inv_fail in E as [E _]; discriminate E).
  intro E. apply inv_sret in E as (_ & ->). reflexivity.
Qed.

Lemma inv_extract_u8 v st x st' : extract_u8 v st = (Ok x, st') -> st' = st /\ x < 256.
Proof.
  unfold extract_u8. destruct v; try (intro E; apply inv_fail in E as [E _]; discriminate E).
  destruct (Zin 0 255 z) eqn:R; [|intro E; apply inv_fail in E as [E _]; discriminate E].
  intro E. apply inv_sret in E as (-> & ->). split; [reflexivity|]. apply Zin_bounds in R. lia.
Qed.

Lemma dur_go_sound : forall vs cnt st cnt' st',
  G slow st -> dur_go cnt vs st = (Ok cnt', st') ->
  exists xs, length xs = length vs /\ cnt' = (cnt + length vs)%nat /\
    s_out st' = s_out st ++ flat_map (le_bytes 4) xs /\ G slow st'.
Proof.
  induction vs as [|v vs IH]; intros cnt st cnt' st' Hg E.
  - apply inv_sret in E as (-> & ->). exists []. cbn [length flat_map]. rewrite app_nil_r.
    split; [reflexivity|]. split; [lia|]. split; [reflexivity|exact Hg].
  - cbn [dur_go] in E. destruct (Nat.leb 3 cnt); [apply inv_fail in E as [E _]; discriminate E|].
    apply inv_bind in E as (x & st1 & E1 & E). apply inv_extract_u32 in E1 as ->.
    apply inv_bind in E as (u & st2 & E2 & E).
    apply (inv_write slow) in E2 as (Hg2 & O2); [|exact Hg].
    destruct (IH _ _ _ _ Hg2 E) as (xs & Len & Ec & O3 & Hg3).
    exists (x :: xs). cbn [length flat_map]. split; [lia|]. split; [lia|]. split; [|exact Hg3].
    rewrite O3, O2, <- app_assoc. reflexivity.
Qed.

Lemma bytes_go_sound : forall vs r st r' st',
  G slow st -> bytes_go r vs st = (Ok r', st') ->
  exists bs, length bs = length vs /\ bytes_okb bs = true /\ r = r' + N.of_nat (length vs) /\
    s_out st' = s_out st ++ bs /\ G slow st'.
Proof.
  induction vs as [|v vs IH]; intros r st r' st' Hg E.
  - apply inv_sret in E as (-> & ->). exists []. cbn [length]. rewrite app_nil_r.
    split; [reflexivity|]. split; [reflexivity|]. split; [lia|]. split; [reflexivity|exact Hg].
  - cbn [bytes_go] in E. destruct (N.eqb_spec r 0) as [->|Hne]; [apply inv_fail in E as [E _]; discriminate E|].
    apply inv_bind in E as (x & st1 & E1 & E). apply inv_extract_u8 in E1 as (-> & Hx).
    apply inv_bind in E as (u & st2 & E2 & E).
    apply (inv_write slow) in E2 as (Hg2 & O2); [|exact Hg].
    destruct (IH _ _ _ _ Hg2 E) as (bs & Len & Hok & Er & O3 & Hg3).
    exists (x :: bs). cbn [length]. split; [lia|]. split; [|split; [lia|split; [|exact Hg3]]].
    + unfold bytes_okb in *. cbn [forallb]. rewrite Hok. unfold byte_ok.
      apply N.ltb_lt in Hx. rewrite Hx. reflexivity.
    + rewrite O3, O2, <- app_assoc. reflexivity.
Qed.

Lemma collect_go_sound : forall vs acc st acc' st',
  collect_go acc vs st = (Ok acc', st') ->
  st' = st /\ exists bs, acc' = acc ++ bs /\ bytes_okb bs = true.
Proof.
  induction vs as [|v vs IH]; intros acc st acc' st' E.
  - apply inv_sret in E as (-> & ->). split; [reflexivity|]. exists []. rewrite app_nil_r. auto.
  - cbn [collect_go] in E. apply inv_bind in E as (x & st1 & E1 & E).
    apply inv_extract_u8 in E1 as (-> & Hx).
    destruct (IH _ _ _ _ E) as (-> & bs & -> & Hok). split; [reflexivity|].
    exists (x :: bs). rewrite <- app_assoc. split; [reflexivity|].
    unfold bytes_okb in *. cbn [forallb]. rewrite Hok. unfold byte_ok.
    apply N.ltb_lt in Hx. rewrite Hx. reflexivity.
Qed.

Lemma inv_slow_check st u st' : slow_check st = (Ok u, st') -> st' = st.
Proof. unfold slow_check. destruct (s_slow st); intro E; [injection E as _ <-; reflexivity|discriminate E]. Qed.

Lemma seq_duration_sound len vs st st' :
  G slow st -> seq_leaf (at_key Sc) len vs FDuration st = (Ok tt, st') -> snd_at FDuration st st'.
Proof.
  intros Hg E. cbn [seq_leaf] in E.
  destruct (match len with Some l => negb (l =? 3) | None => false end);
    [apply inv_fail in E as [E _]; discriminate E|].
  apply inv_bind in E as (cnt & st1 & E1 & E).
  change (dur_go 0 vs st = (Ok cnt, st1)) in E1.
  destruct (dur_go_sound _ _ _ _ _ Hg E1) as (xs & Len & Ec & O1 & Hg1).
  destruct (Nat.eqb_spec cnt 3) as [->|Hne]; [|apply inv_fail in E as [E _]; discriminate E].
  apply inv_sret in E as (_ & ->).
  destruct xs as [|a [|b [|c [|d xs]]]]; cbn [length] in Len; try lia.
  apply (snd_intro _ _ _ (EDuration (a mod 2 ^ (8 * N.of_nat 4)) (b mod 2 ^ (8 * N.of_nat 4))
                                     (c mod 2 ^ (8 * N.of_nat 4)))); [reflexivity| |].
  - cbn [erase conforms]. rewrite !mod_lt32. reflexivity.
  - cbn [encode_e]. rewrite <- !le_any, O1. cbn [flat_map]. rewrite app_nil_r. reflexivity.
Qed.

Lemma valid_bytes bs : bytes_okb bs = true -> valid FBytes (ld bs).
Proof. intro H. exists (EBytes bs). auto. Qed.

Lemma seq_fixed_sound len vs nm size st st' :
  G slow st -> seq_leaf (at_key Sc) len vs (FFixed nm size) st = (Ok tt, st') -> snd_at (FFixed nm size) st st'.
Proof.
  intros Hg E. cbn [seq_leaf] in E.
  apply inv_bind in E as (u & st1 & E1 & E). apply inv_slow_check in E1 as ->.
  destruct (match len with Some l => negb (l =? size) | None => false end);
    [apply inv_fail in E as [E _]; discriminate E|].
  apply inv_bind in E as (r & st1 & E1 & E).
  change (bytes_go size vs st = (Ok r, st1)) in E1.
  destruct (bytes_go_sound _ _ _ _ _ Hg E1) as (bs & Len & Hok & Er & O1 & Hg1).
  destruct (N.eqb_spec r 0) as [->|Hne]; [|apply inv_fail in E as [E _]; discriminate E].
  apply inv_sret in E as (_ & ->).
  apply (snd_intro _ _ _ (EFixed bs)); [reflexivity| |exact O1].
  cbn [erase conforms]. rewrite Hok. cbn [andb]. apply N.eqb_eq. lia.
Qed.

Lemma seq_bytes_sound len vs st st' :
  G slow st -> seq_leaf (at_key Sc) len vs FBytes st = (Ok tt, st') -> snd_at FBytes st st'.
Proof.
  intros Hg E. cbn [seq_leaf] in E.
  apply inv_bind in E as (u & st1 & E1 & E). apply inv_slow_check in E1 as ->.
  destruct len as [l|].
  - apply inv_bind in E as (li & st1 & E1 & E). apply inv_usize in E1 as (-> & -> & Hl).
    apply inv_bind in E as (u1 & st2 & E2 & E).
    apply (inv_write_varint slow) in E2 as (Hg2 & O2); [|exact Hg].
    apply inv_bind in E as (r & st3 & E3 & E).
    change (bytes_go l vs st2 = (Ok r, st3)) in E3.
    destruct (bytes_go_sound _ _ _ _ _ Hg2 E3) as (bs & Len & Hok & Er & O3 & Hg3).
    destruct (N.eqb_spec r 0) as [->|Hne]; [|apply inv_fail in E as [E _]; discriminate E].
    apply inv_sret in E as (_ & ->).
    exists (ld bs). split; [apply valid_bytes; exact Hok|].
    rewrite O3, O2, <- app_assoc. unfold ld. rewrite <- spec_long_N by exact Hl.
    do 3 f_equal. lia.
  - apply inv_bind in E as (b & st1 & E1 & E).
    pose proof Hg as (Hp & Hb & Hs).
    destruct (pop_buf_ok st Hp) as (cap & st1' & Epop & Hp1 & Ho1 & Hb1 & Hs1).
    rewrite Epop in E1. injection E1 as <- <-.
    assert (Hg1 : G slow st1') by (split; [exact Hp1|split; congruence]).
    cbv zeta in E.
    change (fix go (acc : bytes) (vs : list sval) {struct vs} : M bytes :=
              match vs with
              | [] => sret acc
              | v' :: rest => do* x <- extract_u8 v'; go (acc ++ [x]) rest
              end) with collect_go in E.
    destruct (collect_go [] vs st1') as [[content| | | |] st2] eqn:Ec; try discriminate E.
    apply collect_go_sound in Ec as (-> & bs & -> & Hok). cbn [app] in E.
    destruct (write_ld bs st1') as [r st3] eqn:Ew.
    assert (r = Ok tt /\ s_out st' = s_out st3) as (-> & Eo).
    { cbn [snd] in E. destruct (cap || negb (Nat.eqb (length bs) 0)); injection E as -> <-; auto. }
    apply (inv_write_ld slow) in Ew as (_ & O); [|exact Hg1].
    exists (ld bs). split; [apply valid_bytes; exact Hok|]. congruence.
Qed.

(* every node a sequence can be presented to *)
Lemma seq_leaf_sound len vs n st st' :
  Forall SoundK vs -> G slow st ->
  seq_leaf (at_key Sc) len vs n st = (Ok tt, st') -> snd_at n st st'.
Proof.
  intros HF Hg E. destruct n; try (cbn [seq_leaf] in E; apply inv_fail in E as [E _]; discriminate E).
  - eapply seq_bytes_sound; eauto.
  - eapply seq_array_sound; eauto.
  - eapply seq_fixed_sound; eauto.
  - eapply seq_duration_sound; eauto.
Qed.

(* ------------------------------------------------------------------ *)
(** * Struct / map presentations: what end() sees *)

Lemma finish_ok_inv kind t st st' :
  finish Sc kind (t st) = (Ok tt, st') ->
  exists rs blk dur st1, drop_mid t st = (Ok (rs, blk, dur), st1) /\
    match kind with
    | RKRecord fields =>
        exists rs' st2, record_end (S (length fields)) Sc fields rs st1 = (Ok rs', st2) /\ s_out st' = s_out st2
    | RKMap _ => block_end blk st1 = (Ok tt, st')
    | RKDuration =>
        exists a b c, dur = [Some a; Some b; Some c] /\
                      write (le_bytes 4 a ++ le_bytes 4 b ++ le_bytes 4 c) st1 = (Ok tt, st')
    end.
Proof.
  unfold drop_mid. destruct (t st) as [[res rsd] st1]. cbn [fst snd]. unfold finish.
  destruct kind as [fields|values|]; destruct res as [[[rs blk] dur]| | | |]; intro E; try discriminate E.
  - destruct (record_end (S (length fields)) Sc fields rs st1) as [[rs'| | | |] st2] eqn:Ee; try discriminate E.
    destruct (existsb _ (r_bufs rs')); [discriminate E|]. injection E as <-.
    exists rs, blk, dur, st1. split; [reflexivity|]. exists rs', st2. split; [exact Ee|].
    apply SerContractProofs.record_drop_out.
  - exists rs, blk, dur, st1. auto.
  - destruct dur as [|[a|] [|[b|] [|[c|] [|]]]]; try discriminate E.
    exists rs, blk, [Some a; Some b; Some c], st1. split; [reflexivity|]. exists a, b, c. auto.
Qed.

(** ** maps *)
Definition ent_enc (values : nat) (kv : bytes * evalue) : bytes := ld (fst kv) ++ enc_at Sc values (snd kv).
Definition ent_ok (values : nat) (kv : bytes * evalue) : bool :=
  bytes_okb (fst kv) && utf8_valid (fst kv) && conf_at Sc values (erase (snd kv)).

Lemma encode_EMap k blocks :
  encode_e Sc (FMap k) (EMap blocks) = blocks_bytes (ent_enc k) blocks ++ spec_long 0.
Proof. reflexivity. Qed.
Lemma erase_EMap blocks :
  erase (EMap blocks) =
  AMap (flat_map (fun blk : bool * list (bytes * evalue) => map (fun kv => (fst kv, erase (snd kv))) (snd blk)) blocks).
Proof. reflexivity. Qed.
Lemma layout_EMap blocks :
  layout_ok (EMap blocks) =
  forallb (fun blk : bool * list (bytes * evalue) =>
             negb (Nat.eqb (length (snd blk)) 0) && forallb (fun kv => layout_ok (snd kv)) (snd blk)) blocks.
Proof. reflexivity. Qed.

(* the conclusion of both map loops *)
Definition map_loop_post (values : nat) (blk : N) (st : sstate) (blk' : N) (st' : sstate) : Prop :=
  exists ents : list (bytes * evalue),
    forallb (fun kv => layout_ok (snd kv)) ents = true /\ forallb (ent_ok values) ents = true /\
    s_out st' = s_out st ++ loop_out (N.to_nat blk) (map (ent_enc values) ents) /\
    blk' = blk - N.of_nat (length ents) /\ G slow st'.

Lemma map_loop_nil values blk st : G slow st -> map_loop_post values blk st blk st.
Proof.
  intro Hg. exists []. cbn [forallb map loop_out length]. rewrite app_nil_r.
  do 3 (split; [reflexivity|]). split; [lia|exact Hg].
Qed.

Lemma map_loop_cons values blk st st1 st2 blk' st' key e :
  bytes_okb key = true -> utf8_valid key = true ->
  layout_ok e = true -> conf_at Sc values (erase e) = true ->
  s_out st1 = s_out st ++ (if blk =? 0 then encode_long 1 else []) ->
  s_out st2 = s_out st1 ++ ld key ++ enc_at Sc values e ->
  map_loop_post values (blk - 1) st2 blk' st' ->
  map_loop_post values blk st blk' st'.
Proof.
  intros Hk1 Hk2 L C O1 O2 (ents & Ls & Cs & O3 & Eb & Hg3).
  exists ((key, e) :: ents). cbn [forallb map length snd fst]. unfold ent_ok at 1. cbn [fst snd].
  rewrite L, Ls, Cs, Hk1, Hk2, C. do 2 (split; [reflexivity|]).
  split; [|split; [lia|exact Hg3]].
  rewrite loop_out_cons, O3, O2, O1.
  change (ent_enc values (key, e)) with (ld key ++ enc_at Sc values e). rewrite <- !app_assoc. reflexivity.
Qed.

Lemma sf_nil serk kind rs blk dur st :
  drop_mid (struct_fields serk kind rs blk dur []) st = (Ok (rs, blk, dur), st).
Proof. reflexivity. Qed.
Lemma mc_nil serk serstr kind rs blk dur hint st :
  drop_mid (map_calls serk serstr kind rs blk dur hint []) st = (Ok (rs, blk, dur), st).
Proof. reflexivity. Qed.

Lemma sf_map_sound values rs dur : forall fs blk st res st',
  Forall (fun f : bytes * sval => utf8_valid (fst f) = true /\ SoundK (snd f)) fs -> G slow st ->
  drop_mid (struct_fields (at_key Sc) (RKMap values) rs blk dur fs) st = (Ok res, st') ->
  map_loop_post values blk st (snd (fst res)) st'.
Proof.
  induction fs as [|[key v] fs IH]; intros blk st res st' HF Hg E.
  - rewrite sf_nil in E. injection E as <- <-. apply map_loop_nil. exact Hg.
  - rewrite struct_fields_cons_map in E. inversion HF as [|? ? [Hu Hv] HF']; subst. cbn [fst snd] in Hu, Hv.
    apply inv_bind in E as (b' & st3 & E1 & E).
    apply inv_bind in E1 as (b & st1 & E1 & E2).
    apply inv_block_next in E1 as (Hg1 & -> & O1); [|exact Hg].
    apply inv_bind in E2 as (u & st1' & E2 & E3).
    cbn [ser_str_leaf] in E2. apply (inv_write_ld slow) in E2 as (Hg1' & O1'); [|exact Hg1].
    apply inv_bind in E3 as ([] & st2 & E3 & E4). apply inv_sret in E4 as (-> & ->).
    pose proof (at_key_G _ _ _ _ _ Hg1' E3) as Hg2.
    destruct (Hv values st1' st2 Hg1' E3) as (w & (e & L & C & En) & O2).
    eapply (map_loop_cons values blk st st1 st2 _ _ key e); eauto.
    + apply utf8_valid_bytes_ok. exact Hu.
    + rewrite O2, O1', En, <- app_assoc. reflexivity.
Qed.

Lemma valid_string_inv w : valid FString w ->
  exists s, w = ld s /\ bytes_okb s = true /\ utf8_valid s = true.
Proof.
  intros (e & L & C & En). destruct e; cbn [erase conforms] in C; try discriminate C.
  apply andb_prop in C as [C1 C2]. exists s. cbn [encode_e] in En. auto.
Qed.

Definition call_snd (c : option sval * option sval) : Prop :=
  call_ok SoundV (fst c) /\ call_ok SoundV (snd c).

Lemma mc_map_sound values rs dur hint : forall n calls, (length calls <= n)%nat ->
  forall blk st res st',
  map_alt false calls = true -> Forall call_snd calls -> G slow st ->
  drop_mid (map_calls (at_key Sc) (ser Sc FString) (RKMap values) rs blk dur hint calls) st = (Ok res, st') ->
  map_loop_post values blk st (snd (fst res)) st'.
Proof.
  induction n as [|n IH]; intros calls Hlen blk st res st' Ha HF Hg E.
  - destruct calls; [|cbn in Hlen; lia]. rewrite mc_nil in E. injection E as <- <-. apply map_loop_nil. exact Hg.
  - destruct calls as [|[ko vo] rest].
    { rewrite mc_nil in E. injection E as <- <-. apply map_loop_nil. exact Hg. }
    cbn [map_alt] in Ha. inversion HF as [|? ? [Hk Hv] HF']; subst. cbn [fst snd] in Hk, Hv.
    destruct ko as [k|]; [|destruct vo; discriminate Ha].
    rewrite map_calls_cons_map in E.
    apply inv_bind in E as (b' & st3 & E1 & E).
    apply inv_bind in E1 as (b1 & st1x & E1 & E2).
    apply inv_bind in E1 as (b & st1 & E1 & E1').
    apply inv_block_next in E1 as (Hg1 & -> & O1); [|exact Hg].
    apply inv_bind in E1' as ([] & st1' & E1' & E1''). apply inv_sret in E1'' as (-> & ->).
    cbn [call_ok] in Hk.
    destruct (Hk FString st1 st1' eq_refl Hg1 E1') as (wk & Hvk & Ok1).
    destruct (ser_G _ _ _ _ _ _ _ Hg1 E1') as (Hg1' & _).
    apply valid_string_inv in Hvk as (key & -> & Hk1 & Hk2).
    destruct vo as [v|].
    + (* serialize_entry *)
      cbn [negb andb] in Ha.
      apply inv_bind in E2 as ([] & st2 & E2 & E3). apply inv_sret in E3 as (-> & ->).
      cbn [call_ok] in Hv. apply SoundV_K in Hv.
      pose proof (at_key_G _ _ _ _ _ Hg1' E2) as Hg2.
      destruct (Hv values st1' st2 Hg1' E2) as (w & (e & L & C & En) & O2).
      eapply (map_loop_cons values blk st st1 st2 _ _ key e); eauto.
      * rewrite O2, Ok1, En, <- app_assoc. reflexivity.
      * apply (IH rest); auto. cbn [length] in Hlen. lia.
    + (* serialize_key, then serialize_value *)
      cbn [negb andb] in Ha.
      apply inv_bind in E2 as ([] & st2 & E2 & E3). apply inv_sret in E2 as (_ & ->).
      apply inv_sret in E3 as (-> & ->).
      destruct rest as [|[ko2 vo2] rest2]; [discriminate Ha|].
      cbn [map_alt] in Ha. destruct ko2 as [k2|]; [destruct vo2; discriminate Ha|].
      destruct vo2 as [v|]; [|discriminate Ha]. cbn [andb] in Ha.
      inversion HF' as [|? ? [_ Hv2] HF'']; subst. cbn [fst snd call_ok] in Hv2. apply SoundV_K in Hv2.
      rewrite map_calls_cons_map in E.
      apply inv_bind in E as (b'' & st4 & E4 & E).
      apply inv_bind in E4 as (b2 & st4' & E4 & E5). apply inv_sret in E4 as (-> & ->).
      apply inv_bind in E5 as ([] & st5 & E5 & E6). apply inv_sret in E6 as (-> & ->).
      pose proof (at_key_G _ _ _ _ _ Hg1' E5) as Hg2.
      destruct (Hv2 values st1' st5 Hg1' E5) as (w & (e & L & C & En) & O2).
      eapply (map_loop_cons values blk st st1 st5 _ _ key e); eauto.
      * rewrite O2, Ok1, En, <- app_assoc. reflexivity.
      * apply (IH rest2); auto. cbn [length] in Hlen. lia.
Qed.

Lemma forallb_map' {A B} (f : B -> bool) (g : A -> B) l : forallb f (map g l) = forallb (fun x => f (g x)) l.
Proof. induction l as [|x l IH]; [reflexivity|]. cbn [map forallb]. rewrite IH. reflexivity. Qed.

Lemma map_finish_sound values l st0' st1 st2 st' blk' :
  G slow st0' -> (Z.of_N l <= I64_MAX)%Z ->
  s_out st1 = s_out st0' ++ (if 0 <? l then encode_long (Z.of_N l) else []) ->
  map_loop_post values l st1 blk' st2 ->
  block_end blk' st2 = (Ok tt, st') ->
  snd_at (FMap values) st0' st'.
Proof.
  intros Hg Hl O1 (ents & Ls & Cs & O2 & Eb & Hg2) E.
  apply inv_block_end in E as (_ & Eb0 & O3); [|exact Hg2].
  assert (Hle : (N.to_nat l <= length ents)%nat) by lia.
  assert (Hlo : len_ok (N.to_nat l) = true) by (unfold len_ok; lia).
  apply (snd_intro _ _ _ (EMap (mkblocks (N.to_nat l) ents))).
  - rewrite layout_EMap. apply mkblocks_forall; assumption.
  - rewrite erase_EMap, mkblocks_flat. cbn [conforms].
    rewrite forallb_map'. erewrite forallb_ext'; [exact Cs|]. intros [key e]. reflexivity.
  - rewrite encode_EMap, blocks_bytes_mk by assumption.
    rewrite O3, O2, O1, hdr_eq, spec_long_0, <- !app_assoc. reflexivity.
Qed.

(** ** durations presented as struct / map *)
Lemma sf_dur_pure serk rs blk : forall fs dur st res st',
  drop_mid (struct_fields serk RKDuration rs blk dur fs) st = (Ok res, st') -> st' = st.
Proof.
  induction fs as [|[key v] fs IH]; intros dur st res st' E.
  - rewrite sf_nil in E. injection E as _ <-. reflexivity.
  - rewrite struct_fields_cons_duration in E.
    destruct (duration_field key) as [i|]; [|apply inv_fail in E as [E _]; discriminate E].
    destruct (nth_error dur i) as [[x|]|].
    + apply inv_fail in E as [E _]. discriminate E.
    + apply inv_bind in E as (x & st1 & E1 & E). apply inv_extract_u32 in E1 as ->. eapply IH; eauto.
    + apply inv_bind in E as (x & st1 & E1 & E). apply inv_extract_u32 in E1 as ->. eapply IH; eauto.
Qed.

Lemma mc_dur_pure serk serstr rs blk : forall calls dur hint st res st',
  drop_mid (map_calls serk serstr RKDuration rs blk dur hint calls) st = (Ok res, st') -> st' = st.
Proof.
  induction calls as [|[ko vo] calls IH]; intros dur hint st res st' E.
  - rewrite mc_nil in E. injection E as _ <-. reflexivity.
  - rewrite map_calls_cons_duration in E.
    destruct (dur_key_res hint ko) as [hint'| | | |]; try (apply inv_fail in E as [E _]; discriminate E).
    destruct vo as [v|]; [|eapply IH; eauto].
    destruct hint' as [[i z]|]; [|apply inv_fail in E as [E _]; discriminate E].
    destruct (nth_error dur i) as [[x|]|].
    + apply inv_fail in E as [E _]. discriminate E.
    + apply inv_bind in E as (x & st1 & E1 & E). apply inv_extract_u32 in E1 as ->. eapply IH; eauto.
    + apply inv_bind in E as (x & st1 & E1 & E). apply inv_extract_u32 in E1 as ->. eapply IH; eauto.
Qed.

Lemma dur_finish_sound a b c st st' :
  G slow st -> write (le_bytes 4 a ++ le_bytes 4 b ++ le_bytes 4 c) st = (Ok tt, st') ->
  snd_at FDuration st st'.
Proof.
  intros Hg E. apply (inv_write slow) in E as (_ & O); [|exact Hg].
  apply (snd_intro _ _ _ (EDuration (a mod 2 ^ (8 * N.of_nat 4)) (b mod 2 ^ (8 * N.of_nat 4))
                                     (c mod 2 ^ (8 * N.of_nat 4)))); [reflexivity| |].
  - cbn [erase conforms]. rewrite !mod_lt32. reflexivity.
  - cbn [encode_e]. rewrite <- !le_any. exact O.
Qed.

(* ------------------------------------------------------------------ *)
(** * Records: the field-reordering machine writes a valid encoding per field *)

Lemma valid_to_k k n w : fnode_at Sc k = Some n -> valid n w -> validk k w.
Proof. intros Hk (e & L & C & En). exists e. unfold conf_at, enc_at. rewrite Hk. auto. Qed.

Lemma enc_ser_valid v k b : SoundV v -> enc_ser Sc slow k v = Some b -> validk k b.
Proof.
  intros Hv E. unfold enc_ser in E. destruct (fnode_at Sc k) as [n|] eqn:Hk; [|discriminate E].
  destruct (ser Sc n v (st0 slow)) as [[[]| | | |] t] eqn:Es; try discriminate E. injection E as <-.
  destruct (Hv n (st0 slow) t (schema_lim_at _ _ _ Hlim Hk) (G_st0 slow) Es) as (w & Hw & O).
  cbn [s_out st0 app] in O. rewrite O. eapply valid_to_k; eauto.
Qed.

Section Rec.
Variable fields : list (bytes * nat).
Variable out0 : bytes.

Definition fvalid (f : nat -> option bytes) : Prop :=
  forall i b, f i = Some b -> exists nm k, nth_error fields i = Some (nm, k) /\ validk k b.

Definition RI (rs : recstate) (st : sstate) : Prop :=
  exists f, Inv fields out0 f rs (s_out st) /\ fvalid f /\ G slow st.

Lemma rv_sound rs st idx k nm v rs' st' :
  SoundV v -> RI rs st -> (idx = r_cur rs \/ (r_cur rs < idx)%nat) -> nth_error fields idx = Some (nm, k) ->
  record_value (at_key Sc) fields rs idx k v st = (Ok rs', st') -> RI rs' st'.
Proof.
  intros Hv (f & Hinv & Hfv & Hg) Hpos Hidx E.
  assert (Hlt : (idx < length fields)%nat) by (apply nth_error_Some; congruence).
  destruct (enc_ser Sc slow k v) as [b|] eqn:Eenc.
  - destruct (f idx) as [b0|] eqn:Ef.
    + exfalso. pose proof (i_cur _ _ _ _ _ Hinv) as Hc.
      assert (Hgt : (r_cur rs < idx)%nat) by (destruct Hpos as [->|]; [congruence|assumption]).
      rewrite record_value_eq in E.
      destruct (Nat.eqb_spec idx (r_cur rs)) as [Heq|_]; [lia|].
      pose proof (i_buf _ _ _ _ _ Hinv idx) as Hb.
      destruct (Nat.ltb_spec (r_cur rs) idx); [|lia]. rewrite Ef in Hb.
      pose proof (getb_resize (r_bufs rs) (S idx) idx) as Hr. unfold getb in Hr, Hb.
      destruct (nth_error (resize_to (r_bufs rs) (S idx) None) idx) as [[bf|]|].
      * apply inv_fail in E as [E _]. discriminate E.
      * rewrite <- Hr in Hb. discriminate Hb.
      * rewrite <- Hr in Hb. discriminate Hb.
    + destruct (record_value_ok (at_key Sc) (enc_ser Sc slow) slow fields out0 (at_key_pure Sc slow)
                  f rs st idx k v b Hg Hinv Hlt Hpos Ef Eenc) as (rs1 & st1 & E1 & Hg1 & Hinv1).
      rewrite E in E1. injection E1 as <- <-.
      exists (upd f idx (Some b)). split; [exact Hinv1|]. split; [|exact Hg1].
      intros i b1 Hi. destruct (Nat.eq_dec i idx) as [->|Hne].
      * rewrite upd_same in Hi. injection Hi as <-. exists nm, k. split; [exact Hidx|].
        eapply enc_ser_valid; eauto.
      * rewrite upd_other in Hi by exact Hne. apply Hfv. exact Hi.
  - exfalso.
    pose proof (record_value_fail (at_key Sc) (enc_ser Sc slow) slow fields (at_key_pure Sc slow)
                  rs st idx k v Hg Eenc) as Hf.
    rewrite E in Hf. discriminate Hf.
Qed.

Lemma sf_rec_sound blk dur : forall fs rs st res st',
  Forall (fun f : bytes * sval => SoundV (snd f)) fs -> RI rs st ->
  drop_mid (struct_fields (at_key Sc) (RKRecord fields) rs blk dur fs) st = (Ok res, st') ->
  RI (fst (fst res)) st'.
Proof.
  induction fs as [|[key v] fs IH]; intros rs st res st' HF HI E.
  - rewrite sf_nil in E. injection E as <- <-. exact HI.
  - rewrite struct_fields_cons_record in E. inversion HF as [|? ? Hv HF']; subst. cbn [snd] in Hv.
    destruct (rec_field_idx fields rs key) as [[idx k]| | | |] eqn:Er;
      try (apply inv_fail in E as [E _]; discriminate E).
    apply rec_field_idx_ok in Er as (Hpos & Hidx).
    apply inv_bind in E as (rs1 & st1 & E1 & E).
    eapply IH; [exact HF'| |exact E]. eapply rv_sound; eauto.
Qed.

Definition hint_inv (rs : recstate) (hint : option (nat * nat)) : Prop :=
  match hint with
  | Some (idx, k) => (idx = r_cur rs \/ (r_cur rs < idx)%nat) /\ exists nm, nth_error fields idx = Some (nm, k)
  | None => True
  end.

Lemma mc_rec_sound blk dur : forall calls rs hint st res st',
  Forall call_snd calls -> RI rs st -> hint_inv rs hint ->
  drop_mid (map_calls (at_key Sc) (ser Sc FString) (RKRecord fields) rs blk dur hint calls) st = (Ok res, st') ->
  RI (fst (fst res)) st'.
Proof.
  induction calls as [|[ko vo] calls IH]; intros rs hint st res st' HF HI Hh E.
  - rewrite mc_nil in E. injection E as <- <-. exact HI.
  - rewrite map_calls_cons_record in E. inversion HF as [|? ? [Hk Hv] HF']; subst. cbn [fst snd] in Hk, Hv.
    destruct (rec_key_res fields rs hint ko) as [hint'| | | |] eqn:Ek;
      try (apply inv_fail in E as [E _]; discriminate E).
    assert (Hh' : hint_inv rs hint').
    { unfold rec_key_res in Ek. destruct ko as [k0|]; [|injection Ek as <-; exact Hh].
      destruct k0; try discriminate Ek. unfold rmap, rbind in Ek.
      destruct (rec_field_idx fields rs s) as [[idx k]| | | |] eqn:Er; try discriminate Ek.
      injection Ek as <-. apply rec_field_idx_ok in Er as (Hpos & Hidx). split; [exact Hpos|eauto]. }
    destruct vo as [v|]; [|eapply IH; eauto].
    destruct hint' as [[idx k]|]; [|apply inv_fail in E as [E _]; discriminate E].
    destruct Hh' as (Hpos & nm & Hidx). cbn [call_ok] in Hv.
    apply inv_bind in E as (rs1 & st1 & E1 & E).
    eapply (IH rs1 None); [exact HF'| |exact I|exact E].
    (* the value is serialized through at_key: SoundV is what rv_sound needs *)
    eapply rv_sound; eauto.
Qed.

End Rec.

(** ** end(): null filling and the final layout *)
Lemma valid_null : valid FNull [].
Proof. exists ENull. auto. Qed.

Lemma nullfill_valid k b : nullfill Sc k = Some b -> validk k b.
Proof.
  unfold nullfill. destruct (fnode_at Sc k) as [n|] eqn:Hk; [|discriminate].
  destruct n; try discriminate.
  - intros [= <-]. eapply valid_to_k; [exact Hk|apply valid_null].
  - destruct (union_unnamed Sc variants KNull) as [[d k']|] eqn:Eu; [|discriminate].
    apply union_unnamed_null in Eu as (i & -> & Hi & Hk'). rewrite Hk'. intros [= <-].
    eapply valid_to_k; [exact Hk|].
    rewrite <- (app_nil_r (encode_long (Z.of_nat i))).
    eapply valid_union; [|exact Hi|exact Hk'|apply valid_null].
    exact (schema_lim_at _ _ _ Hlim Hk).
Qed.

Lemma hfill_valid fields f i b :
  fvalid fields f -> hfill fields Sc f i = Some b ->
  exists nm k, nth_error fields i = Some (nm, k) /\ validk k b.
Proof.
  intros Hfv H. unfold hfill in H. destruct (f i) as [b0|] eqn:Ef.
  - injection H as <-. apply Hfv. exact Ef.
  - unfold gfill in H. destruct (nth_error fields i) as [[nm k]|]; [|discriminate H].
    exists nm, k. split; [reflexivity|]. apply nullfill_valid. exact H.
Qed.

Lemma build_rec : forall fields (bsf : nat -> bytes),
  (forall i nm k, nth_error fields i = Some (nm, k) -> validk k (bsf i)) ->
  exists es, length es = length fields /\ forallb layout_ok es = true /\
             conf_fields Sc fields (map erase es) = true /\
             enc_fields Sc fields es = concat (map bsf (seq 0 (length fields))).
Proof.
  induction fields as [|[nm k] fr IH]; intros bsf H.
  - exists []. auto.
  - destruct (H O nm k eq_refl) as (e & L & C & En).
    destruct (IH (fun i => bsf (S i))) as (es & Len & Ls & Cs & Ens).
    { intros i nm' k' Hi. apply (H (S i) nm' k'). exact Hi. }
    exists (e :: es). cbn [length map forallb conf_fields enc_fields seq concat].
    rewrite Len, L, Ls, C, Cs, En, Ens, <- seq_shift, map_map. auto.
Qed.

Lemma encode_ERecord nm fields es : encode_e Sc (FRecord nm fields) (ERecord es) = enc_fields Sc fields es.
Proof. reflexivity. Qed.

Lemma rec_finish_sound nm fields out0 rs st1 rs' st2 :
  RI fields out0 rs st1 -> record_end (S (length fields)) Sc fields rs st1 = (Ok rs', st2) ->
  exists w, valid (FRecord nm fields) w /\ s_out st2 = out0 ++ w.
Proof.
  intros (f & Hinv & Hfv & Hg) E.
  pose proof (record_end_spec slow fields out0 Sc (S (length fields)) f rs st1 Hg Hinv ltac:(lia)) as H.
  destruct (forallb (fun i => is_some (hfill fields Sc f i)) (seq 0 (length fields))) eqn:Eall.
  2:{ rewrite E in H. discriminate H. }
  destruct H as (rs'' & st'' & E'' & _ & O & _). rewrite E in E''. injection E'' as <- <-.
  destruct (build_rec fields (fun i => odef (hfill fields Sc f i))) as (es & Len & Ls & Cs & Ens).
  { intros i nm' k Hi. rewrite forallb_forall in Eall.
    assert (Hlt : (i < length fields)%nat) by (apply nth_error_Some; congruence).
    specialize (Eall i ltac:(apply in_seq; lia)).
    destruct (hfill fields Sc f i) as [b|] eqn:Eh; [|discriminate Eall].
    destruct (hfill_valid fields f i b Hfv Eh) as (nm2 & k2 & Hi2 & Hv).
    rewrite Hi in Hi2. injection Hi2 as <- <-. exact Hv. }
  exists (enc_fields Sc fields es). split; [|rewrite O, Ens; reflexivity].
  exists (ERecord es). split; [exact Ls|]. split; [|apply encode_ERecord].
  cbn [erase]. rewrite conforms_ARecord, map_length, Len, Nat.eqb_refl, Cs. reflexivity.
Qed.

Lemma RI_init fields cap st : G slow st -> RI fields (s_out st) (mkR 0 [] cap) st.
Proof.
  intro Hg. exists (fun _ => None). split; [|split; [|exact Hg]].
  - split; cbn [r_cur r_bufs]; auto.
    + cbn. lia.
    + intros i Hi. lia.
    + cbn. rewrite app_nil_r. reflexivity.
    + intro i. unfold getb. replace (nth_error [] i) with (@None (option buf)) by (now destruct i).
      cbn [option_map]. now destruct (Nat.ltb 0 i).
  - intros i b Hi. discriminate Hi.
Qed.

(** ** start_kind *)
Lemma start_kind_sound b l n run st st' :
  (forall values rs blk st res st', G slow st ->
     drop_mid (run (RKMap values) rs blk) st = (Ok res, st') ->
     map_loop_post values blk st (snd (fst res)) st') ->
  (forall rs blk st res st', drop_mid (run RKDuration rs blk) st = (Ok res, st') -> st' = st) ->
  (forall fields out0 rs blk st res st', RI fields out0 rs st ->
     drop_mid (run (RKRecord fields) rs blk) st = (Ok res, st') -> RI fields out0 (fst (fst res)) st') ->
  G slow st -> start_kind Sc b l n run st = (Ok tt, st') -> snd_at n st st'.
Proof.
  intros Hmap Hdur Hrec Hg E.
  destruct n; try (cbn [start_kind] in E; apply inv_fail in E as [E _]; discriminate E).
  - (* map *)
    cbn [start_kind] in E. apply inv_bind in E as (blk & st1 & E1 & E).
    apply inv_block_new in E1 as (Hg1 & -> & Hl & O1); [|exact Hg].
    apply (finish_ok_inv (RKMap values) (run (RKMap values) (mkR 0 [] false) l)) in E
      as (rs & blk' & dur & st2 & Er & Ee).
    pose proof (Hmap values _ _ _ _ _ Hg1 Er) as Hpost. cbn [fst snd] in Hpost.
    eapply map_finish_sound; eauto.
  - (* record *)
    cbn [start_kind] in E. apply inv_bind in E as (rs0 & st1 & E1 & E).
    unfold record_new in E1. apply inv_bind in E1 as (p & st1' & E1 & E1').
    apply inv_sret in E1' as (-> & ->).
    pose proof Hg as (Hp & Hb & Hs).
    destruct (pop_sbuf_ok st Hp) as (cap & st1 & Epop & Hp1 & Ho1 & Hb1 & Hs1).
    rewrite Epop in E1. injection E1 as <- <-. cbn [fst snd] in E.
    assert (Hg1 : G slow st1) by (split; [exact Hp1|split; congruence]).
    apply (finish_ok_inv (RKRecord fields) (run (RKRecord fields) (mkR 0 [] cap) 0)) in E
      as (rs & blk' & dur & st2 & Er & rs' & st3 & Ee & Eo).
    pose proof (Hrec fields (s_out st1) _ _ _ _ _ (RI_init fields cap st1 Hg1) Er) as HI. cbn [fst] in HI.
    destruct (rec_finish_sound n fields _ _ _ _ _ HI Ee) as (w & Hw & O).
    exists w. split; [exact Hw|]. congruence.
  - (* duration *)
    cbn [start_kind] in E. destruct b; [|apply inv_fail in E as [E _]; discriminate E].
    apply (finish_ok_inv RKDuration (run RKDuration (mkR 0 [] false) 0)) in E
      as (rs & blk' & dur & st2 & Er & a & b & c & _ & Ew).
    apply Hdur in Er. subst st2. eapply dur_finish_sound; eauto.
Qed.

(* ------------------------------------------------------------------ *)
(** * The main induction *)

Definition P (v : sval) : Prop := sval_typed v = true -> SoundV v.

Lemma P_list vs : Forall P vs -> forallb sval_typed vs = true -> Forall SoundV vs.
Proof.
  induction 1 as [|v vs Hv _ IH]; intro Ht; [constructor|].
  cbn [forallb] in Ht. apply andb_prop in Ht as [H1 H2]. constructor; auto.
Qed.
Lemma SoundK_list vs : Forall SoundV vs -> Forall SoundK vs.
Proof. intro H. eapply Forall_impl; [|exact H]. intros v. apply SoundV_K. Qed.

Lemma P_fields (fs : list (bytes * sval)) :
  Forall (fun f => P (snd f)) fs ->
  forallb (fun f : bytes * sval => match f with (nm, x) => utf8_valid nm && sval_typed x end) fs = true ->
  Forall (fun f : bytes * sval => utf8_valid (fst f) = true /\ SoundV (snd f)) fs.
Proof.
  induction 1 as [|[nm v] fs Hv _ IH]; intro Ht; [constructor|].
  cbn [forallb] in Ht. apply andb_prop in Ht as [H1 H2]. apply andb_prop in H1 as [H0 H1].
  constructor; auto.
Qed.

Lemma P_calls calls :
  Forall (fun c => call_ok P (fst c) /\ call_ok P (snd c)) calls ->
  forallb (fun c : option sval * option sval =>
             match c with
             | (ko, vo) => match ko with Some k => sval_typed k | None => true end &&
                           match vo with Some x => sval_typed x | None => true end
             end) calls = true ->
  Forall call_snd calls.
Proof.
  induction 1 as [|[ko vo] calls [Hk Hv] _ IH]; intro Ht; [constructor|].
  cbn [forallb] in Ht. apply andb_prop in Ht as [H1 H2]. apply andb_prop in H1 as [H0 H1].
  constructor; [|auto]. unfold call_snd. cbn [fst snd] in *. split.
  - destruct ko; cbn [call_ok] in *; [apply Hk; exact H0|exact I].
  - destruct vo; cbn [call_ok] in *; [apply Hv; exact H1|exact I].
Qed.

Lemma struct_sound len fs n st st' :
  Forall (fun f : bytes * sval => utf8_valid (fst f) = true /\ SoundV (snd f)) fs ->
  node_lim n = true -> G slow st ->
  via_union Sc n KStructOrMap (fun n'' =>
     start_kind Sc (len =? 3) len n''
        (fun kind rs blk => struct_fields (at_key Sc) kind rs blk [None; None; None] fs)) st = (Ok tt, st') ->
  snd_at n st st'.
Proof.
  intros HF Hn Hg E. revert n st st' Hn Hg E. apply via_union_sound.
  intros n' st st' _ Hn' Hg E. eapply start_kind_sound; [| | |exact Hg|exact E].
  - intros values rs blk st1 res st1' Hg1 Er. eapply sf_map_sound; [|exact Hg1|exact Er].
    eapply Forall_impl; [|exact HF]. intros f [H1 H2]. split; [exact H1|apply SoundV_K; exact H2].
  - intros rs blk st1 res st1' Er. eapply sf_dur_pure; eauto.
  - intros fields out0 rs blk st1 res st1' HI Er. eapply sf_rec_sound; [|exact HI|exact Er].
    eapply Forall_impl; [|exact HF]. intros f [_ H2]. exact H2.
Qed.

Theorem ser_sound_all : forall v, P v.
Proof.
  induction v using sval_ind2; intros Ht n0 st st' Hn Hg E; cbn [sval_typed] in Ht.
  - (* SBool *) rewrite ser_SBool in E. revert n0 st st' Hn Hg E. apply via_union_sound.
    intros n' st st' _ _ Hg E. destruct n'; try (apply inv_fail in E as [E _]; discriminate E).
    apply (inv_write slow) in E as (_ & O); [|exact Hg].
    apply (snd_intro _ _ _ (EBool b)); auto.
  - (* SInt *) rewrite ser_SInt in E. revert n0 st st' Hn Hg E. apply via_union_sound.
    intros n' st st' _ Hn' Hg E. eapply ser_int_leaf_sound; eauto.
  - (* SF32 *) rewrite ser_SF32 in E. revert n0 st st' Hn Hg E. apply via_union_sound.
    intros n' st st' _ _ Hg E. destruct n'; try (apply inv_fail in E as [E _]; discriminate E).
    apply (inv_write slow) in E as (_ & O); [|exact Hg].
    apply (snd_intro _ _ _ (EFloat (b mod 2 ^ (8 * N.of_nat 4)))); [reflexivity| |].
    + cbn [erase conforms]. apply mod_lt32.
    + cbn [encode_e]. rewrite <- le_any. exact O.
  - (* SF64 *) rewrite ser_SF64 in E. revert n0 st st' Hn Hg E. apply via_union_sound.
    intros n' st st' _ _ Hg E. destruct n'; try (apply inv_fail in E as [E _]; discriminate E).
    + apply (inv_write slow) in E as (_ & O); [|exact Hg].
      apply (snd_intro _ _ _ (EFloat (n mod 2 ^ (8 * N.of_nat 4)))); [reflexivity| |].
      * cbn [erase conforms]. apply mod_lt32.
      * cbn [encode_e]. rewrite <- le_any. exact O.
    + apply (inv_write slow) in E as (_ & O); [|exact Hg].
      apply (snd_intro _ _ _ (EDouble (b mod 2 ^ (8 * N.of_nat 8)))); [reflexivity| |].
      * cbn [erase conforms]. apply mod_lt64.
      * cbn [encode_e]. rewrite <- le_any. exact O.
  - (* SChar *) change (ser Sc n0 (SChar c)) with (via_union Sc n0 KStr (ser_str_leaf (utf8_encode c))) in E.
    revert n0 st st' Hn Hg E. apply via_union_sound.
    intros n' st st' _ Hn' Hg E. eapply ser_str_leaf_sound; eauto. apply utf8_encode_valid. exact Ht.
  - (* SStr *) rewrite ser_SStr in E. revert n0 st st' Hn Hg E. apply via_union_sound.
    intros n' st st' _ Hn' Hg E. eapply ser_str_leaf_sound; eauto.
  - (* SBytes *) rewrite ser_SBytes in E. revert n0 st st' Hn Hg E. apply via_union_sound.
    intros n' st st' _ Hn' Hg E. eapply ser_bytes_leaf_sound; eauto.
  - (* SNone *) change (ser Sc n0 SNone) with (ser Sc n0 SUnit) in E. rewrite ser_SUnit in E.
    destruct n0; try (apply inv_fail in E as [E _]; discriminate E).
    + apply inv_sret in E as (_ & ->). exists []. split; [apply valid_null|rewrite app_nil_r; reflexivity].
    + apply inv_bind in E as (k' & st1 & E1 & E). apply inv_sret in E as (_ & ->).
      unfold unnamed_step in E1.
      destruct (union_unnamed Sc variants KNull) as [[d k0]|] eqn:Eu; [|apply inv_fail in E1 as [E1 _]; discriminate E1].
      apply inv_bind in E1 as (u & st2 & E2 & E1). apply inv_sret in E1 as (_ & ->).
      apply (inv_write_varint slow) in E2 as (_ & O2); [|exact Hg].
      apply union_unnamed_null in Eu as (i & -> & Hi & Hk).
      exists (encode_long (Z.of_nat i) ++ []). split; [|rewrite app_nil_r; exact O2].
      eapply valid_union; [exact Hn|exact Hi|exact Hk|apply valid_null].
  - (* SSome *) change (ser Sc n0 (SSome v)) with (ser Sc n0 v) in E. eapply IHv; eauto.
  - (* SUnit *) rewrite ser_SUnit in E.
    destruct n0; try (apply inv_fail in E as [E _]; discriminate E).
    + apply inv_sret in E as (_ & ->). exists []. split; [apply valid_null|rewrite app_nil_r; reflexivity].
    + apply inv_bind in E as (k' & st1 & E1 & E). apply inv_sret in E as (_ & ->).
      unfold unnamed_step in E1.
      destruct (union_unnamed Sc variants KNull) as [[d k0]|] eqn:Eu; [|apply inv_fail in E1 as [E1 _]; discriminate E1].
      apply inv_bind in E1 as (u & st2 & E2 & E1). apply inv_sret in E1 as (_ & ->).
      apply (inv_write_varint slow) in E2 as (_ & O2); [|exact Hg].
      apply union_unnamed_null in Eu as (i & -> & Hi & Hk).
      exists (encode_long (Z.of_nat i) ++ []). split; [|rewrite app_nil_r; exact O2].
      eapply valid_union; [exact Hn|exact Hi|exact Hk|apply valid_null].
  - (* SUnitStruct *)
    change (ser Sc n0 (SUnitStruct n)) with
      (via_union Sc n0 KUnitStruct (fun n' =>
         match n' with
         | FNull => sret tt
         | FString | FBytes | FEnum _ _ => ser_str_leaf n n'
         | _ => fail (Err EData)
         end)) in E.
    revert n0 st st' Hn Hg E. apply via_union_sound.
    intros n' st st' _ Hn' Hg E.
    destruct n'; try (apply inv_fail in E as [E _]; discriminate E);
      try (eapply ser_str_leaf_sound; eauto; fail).
    apply inv_sret in E as (_ & ->). exists []. split; [apply valid_null|rewrite app_nil_r; reflexivity].
  - (* SUnitVariant *)
    change (ser Sc n0 (SUnitVariant e i v)) with
      (unit_variant_null Sc n0 e v
        (via_union Sc n0 KUnitVariant (fun n' =>
           match n' with
           | FNull => if bytes_eqb v NULLNAME then sret tt else fail (Err EData)
           | FString | FBytes | FEnum _ _ => ser_str_leaf v n'
           | _ => fail (Err EData)
           end))) in E.
    eapply unit_variant_null_sound; [|exact Hn|exact Hg|exact E].
    clear st st' Hg E. intros st st' Hg E.
    revert n0 st st' Hn Hg E. apply via_union_sound.
    intros n' st st' _ Hn' Hg E.
    destruct n'; try (apply inv_fail in E as [E _]; discriminate E);
      try (eapply ser_str_leaf_sound; eauto; fail).
    destruct (bytes_eqb v NULLNAME); [|apply inv_fail in E as [E _]; discriminate E].
    apply inv_sret in E as (_ & ->). exists []. split; [apply valid_null|rewrite app_nil_r; reflexivity].
  - (* SNewtypeStruct *)
    change (ser Sc n0 (SNewtypeStruct n v)) with (sbind (named_step Sc n0 n) (fun n' => ser Sc n' v)) in E.
    revert n0 st st' Hn Hg E. apply named_step_sound. intros n' st st' Hn' Hg E. eapply IHv; eauto.
  - (* SNewtypeVariant *)
    rewrite ser_SNewtypeVariant in E.
    revert n0 st st' Hn Hg E. apply named_step_sound. intros n' st st' Hn' Hg E. eapply IHv; eauto.
  - (* SSeq *) rewrite RecordProofs.ser_SSeq in E. revert n0 st st' Hn Hg E. apply via_union_sound.
    intros n' st st' _ Hn' Hg E. eapply seq_leaf_sound; [|exact Hg|exact E].
    apply SoundK_list, P_list; assumption.
  - (* STuple *) rewrite RecordProofs.ser_STuple in E. revert n0 st st' Hn Hg E. apply via_union_sound.
    intros n' st st' _ Hn' Hg E. eapply seq_leaf_sound; [|exact Hg|exact E].
    apply SoundK_list, P_list; assumption.
  - (* STupleStruct *) rewrite ser_STupleStruct in E. revert n0 st st' Hn Hg E. apply via_union_sound.
    intros n' st st' _ Hn' Hg E. eapply seq_leaf_sound; [|exact Hg|exact E].
    apply SoundK_list, P_list; assumption.
  - (* STupleVariant *) rewrite ser_STupleVariant in E.
    revert n0 st st' Hn Hg E. apply named_step_sound. apply via_union_sound.
    intros n' st st' _ Hn' Hg E. eapply seq_leaf_sound; [|exact Hg|exact E].
    apply SoundK_list, P_list; assumption.
  - (* SMap *) rewrite RecordProofs.ser_SMap in E. apply andb_prop in Ht as [Ha Ht].
    pose proof (P_calls calls H Ht) as HF.
    revert n0 st st' Hn Hg E. apply via_union_sound.
    intros n' st st' _ Hn' Hg E. eapply start_kind_sound; [| | |exact Hg|exact E].
    + intros values rs blk st1 res st1' Hg1 Er.
      eapply (mc_map_sound values rs _ None (length calls) calls); eauto.
    + intros rs blk st1 res st1' Er. eapply mc_dur_pure; eauto.
    + intros fields out0 rs blk st1 res st1' HI Er.
      eapply (mc_rec_sound fields out0 blk _ calls rs None); [exact HF|exact HI|exact I|exact Er].
  - (* SStruct *) rewrite RecordProofs.ser_SStruct in E.
    pose proof (P_fields fs H Ht) as HF.
    revert n0 st st' Hn Hg E. apply named_step_sound.
    intros n' st st' Hn' Hg E. eapply struct_sound; eauto.
  - (* SStructVariant *) rewrite ser_SStructVariant in E.
    pose proof (P_fields fs H Ht) as HF.
    revert n0 st st' Hn Hg E. apply named_step_sound.
    intros n' st st' Hn' Hg E. eapply struct_sound; eauto.
  - (* SFail *) change (ser Sc n0 SFail) with (@fail unit (Err EData)) in E.
    apply inv_fail in E as [E _]. discriminate E.
Qed.

End Sound.

(* ------------------------------------------------------------------ *)
(** * Main theorems *)

(* 2. soundness at every node, for every typed presentation *)
Theorem ser_sound : forall Sc n sv st st',
  schema_lim Sc = true -> node_lim n = true -> sval_typed sv = true ->
  pool_ok st -> s_budget st = None ->
  ser Sc n sv st = (Ok tt, st') ->
  exists e, layout_ok e = true /\ conforms Sc n (erase e) = true /\
            s_out st' = s_out st ++ encode_e Sc n e.
Proof.
  intros Sc n sv st st' Hlim Hn Ht Hp Hb E.
  assert (Hg : G (s_slow st) st) by (split; [exact Hp|split; [exact Hb|reflexivity]]).
  destruct (ser_sound_all Sc Hlim (s_slow st) sv Ht n st st' Hn Hg E) as (w & (e & L & C & En) & O).
  exists e. rewrite En. auto.
Qed.

(* the statement of props/C02.v (C02_sound_statement), under the two extra hypotheses;
   schema_wf is not needed *)
Theorem C02_sound : forall Sc root sv slow bs,
  schema_lim Sc = true -> sval_typed sv = true ->
  fnode_at Sc 0 = Some root -> to_datum Sc slow sv = Ok bs ->
  exists e, layout_ok e = true /\ conforms Sc root (erase e) = true /\ encode_e Sc root e = bs.
Proof.
  intros Sc root sv slow bs Hlim Ht Hroot E. unfold to_datum in E. rewrite Hroot in E.
  destruct (ser Sc root sv (st0 slow)) as [[[]| | | |] st'] eqn:Es; try discriminate E. injection E as <-.
  destruct (ser_sound Sc root sv (st0 slow) st' Hlim (schema_lim_at _ _ _ Hlim Hroot) Ht) as (e & L & C & O);
    [split; constructor|reflexivity|exact Es|].
  exists e. cbn [s_out st0 app] in O. auto.
Qed.

Corollary C02_sound_valid : forall Sc root sv slow bs,
  schema_lim Sc = true -> sval_typed sv = true ->
  fnode_at Sc 0 = Some root -> to_datum Sc slow sv = Ok bs ->
  exists v, valid_encoding Sc root v bs.
Proof.
  intros Sc root sv slow bs Hlim Ht Hroot E.
  destruct (C02_sound Sc root sv slow bs Hlim Ht Hroot E) as (e & L & C & En).
  exists (erase e), e. auto.
Qed.

(* 1. the leaves: the value is a leaf value; except for decimals (padding) the bytes are the
   canonical spec_encode of the value *)
Definition is_leaf (n : fnode) : bool :=
  match n with FArray _ | FMap _ | FUnion _ | FRecord _ _ => false | _ => true end.
Definition is_decimal (n : fnode) : bool :=
  match n with FDecimal _ _ _ | FBigDecimal => true | _ => false end.

Theorem ser_sound_leaf : forall Sc n sv st st',
  schema_lim Sc = true -> is_leaf n = true -> node_lim n = true -> sval_typed sv = true ->
  pool_ok st -> s_budget st = None ->
  ser Sc n sv st = (Ok tt, st') ->
  exists e, conforms Sc n (erase e) = true /\ s_out st' = s_out st ++ encode_e Sc n e /\
            (is_decimal n = false -> encode_e Sc n e = spec_encode Sc n (erase e)).
Proof.
  intros Sc n sv st st' Hlim Hleaf Hn Ht Hp Hb E.
  destruct (ser_sound Sc n sv st st' Hlim Hn Ht Hp Hb E) as (e & L & C & O).
  exists e. split; [exact C|]. split; [exact O|]. intro Hd.
  destruct n; try discriminate Hleaf; try discriminate Hd;
    destruct e; cbn [erase conforms] in C; try discriminate C; reflexivity.
Qed.

(* ------------------------------------------------------------------ *)
(** * Why the hypotheses are needed *)

Lemma spec_long_nonempty z : exists b r, spec_long z = b :: r.
Proof.
  unfold spec_long. cbn [spec_varint_fuel]. destruct (spec_zigzag z <? 128); eauto.
Qed.

Lemma spec_long_len z : (1 <= length (spec_long z))%nat.
Proof. destruct (spec_long_nonempty z) as (b & r & ->). cbn [length]. lia. Qed.
Lemma ent_enc_len Sc k kv : (1 <= length (ent_enc Sc k kv))%nat.
Proof. unfold ent_enc, ld. rewrite !app_length. pose proof (spec_long_len (Z.of_nat (length (fst kv)))). lia. Qed.

(* (a) the literal statement of props/C02.v is FALSE: the serializer accepts a fixed decimal of
   size 17, to which no value conforms (spec/AvroValue.v requires size <= 16) *)
Definition C02_sound_statement_literal : Prop :=
  forall Sc root sv slow bs, schema_wf Sc = true -> fnode_at Sc 0 = Some root ->
    to_datum Sc slow sv = Ok bs ->
    exists e, layout_ok e = true /\ conforms Sc root (erase e) = true /\ encode_e Sc root e = bs.

Definition dec17 : fnode := FDecimal 5 0 (Some (mkName [68] None, 17)).

Lemma decimal_fixed_17_refuted :
  schema_wf [dec17] = true /\ sval_typed (SStr [49]) = true /\
  (exists bs, to_datum [dec17] false (SStr [49]) = Ok bs /\ length bs = 17%nat) /\
  forall v, conforms [dec17] dec17 v = false.
Proof.
  split; [vm_compute; reflexivity|]. split; [vm_compute; reflexivity|]. split.
  - eexists. split; vm_compute; reflexivity.
  - intro v. destruct v; reflexivity.
Qed.

Theorem C02_sound_statement_refuted : ~ C02_sound_statement_literal.
Proof.
  intro H. destruct decimal_fixed_17_refuted as (Hwf & _ & (bs & Hbs & _) & Hno).
  destruct (H [dec17] dec17 (SStr [49]) false bs Hwf eq_refl Hbs) as (e & _ & C & _).
  rewrite Hno in C. discriminate C.
Qed.

(* (b) sval_typed: a "str" that is not UTF-8 is written as is *)
Lemma untyped_str_refuted :
  to_datum [FString] false (SStr [255]) = Ok [2; 255] /\
  ~ exists e, conforms [FString] FString (erase e) = true /\ encode_e [FString] FString e = [2; 255].
Proof.
  split; [vm_compute; reflexivity|]. intros (e & C & En).
  destruct e; cbn [erase conforms] in C; try discriminate C.
  apply andb_prop in C as [_ C]. cbn [encode_e] in En. unfold ld in En.
  destruct s as [|a [|b s]].
  - vm_compute in En. discriminate En.
  - vm_compute in En. injection En as ->. vm_compute in C. discriminate C.
  - destruct (spec_long_nonempty (Z.of_nat (length (a :: b :: s)))) as (x & r & Ex). rewrite Ex in En.
    apply (f_equal (@length N)) in En. cbn [length app] in En. rewrite app_length in En. cbn [length] in En. lia.
Qed.

(* (c) sval_typed: serialize_value without serialize_key on a map writes a value and no key
   (no panic for the RKMap kind): [2; 0] is not the encoding of any map *)
Lemma map_protocol_refuted :
  to_datum [FMap 1; FInt] false (SMap None [(None, Some (SInt true W32 1))]) = Ok [2; 0] /\
  RecordProofs.sval_wf (SMap None [(None, Some (SInt true W32 1))]) = false /\
  ~ exists e, layout_ok e = true /\ conforms [FMap 1; FInt] (FMap 1) (erase e) = true /\
              encode_e [FMap 1; FInt] (FMap 1) e = [2; 0].
Proof.
  split; [vm_compute; reflexivity|]. split; [reflexivity|]. intros (e & L & C & En).
  destruct e; cbn [erase conforms] in C; try discriminate C.
  rewrite encode_EMap in En. rewrite layout_EMap in L.
  destruct blocks as [|[neg items] blocks].
  - vm_compute in En. discriminate En.
  - cbn [forallb snd] in L. apply andb_prop in L as [L _]. apply andb_prop in L as [L _].
    destruct items as [|[key e] items]; [discriminate L|].
    apply (f_equal (@length N)) in En. unfold blocks_bytes in En. cbn [flat_map fst snd] in En.
    pose proof (ent_enc_len [FMap 1; FInt] 1 (key, e)) as H1.
    destruct neg; rewrite ?app_length in En; cbn [length] in En.
    + pose proof (spec_long_len (- Z.of_nat (S (length items)))) as H2.
      pose proof (spec_long_len 0) as H3. lia.
    + pose proof (spec_long_len (Z.of_nat (S (length items)))) as H2.
      pose proof (spec_long_len 0) as H3. lia.
Qed.

(* sval_wf of RecordProofs (a key before every value) is not enough either: two keys, one value *)
Lemma map_two_keys_accepted :
  RecordProofs.sval_wf (SMap None [(Some (SStr [97]), None); (Some (SStr [98]), Some (SInt true W32 1))]) = true /\
  sval_typed (SMap None [(Some (SStr [97]), None); (Some (SStr [98]), Some (SInt true W32 1))]) = false /\
  to_datum [FMap 1; FInt] false
    (SMap None [(Some (SStr [97]), None); (Some (SStr [98]), Some (SInt true W32 1))]) = Ok [2; 2; 97; 2; 2; 98; 2; 0].
Proof. split; [reflexivity|]. split; vm_compute; reflexivity. Qed.

(* non-vacuity: a presentation that is not the canonical one (sequence of unknown length, enum by
   index, record as a map in reverse field order with the nullable field omitted); the layout
   found is the several-blocks one *)
Example sound_example :
  let Sc := [FRecord (mkName [82] None) [([97], 1%nat); ([98], 2%nat); ([99], 4%nat)];
             FArray 3%nat; FEnum (mkName [69] None) [[120]; [121]]; FInt; FUnion [5%nat; 3%nat]; FNull] in
  let sv := SMap None [(Some (SStr [98]), Some (SInt false W8 1));
                       (Some (SStr [97]), None); (None, Some (SSeq None [SInt true W64 7; SInt false W16 8]))] in
  schema_lim Sc = true /\ sval_typed sv = true /\
  to_datum Sc false sv = Ok [2; 14; 2; 16; 0; 2; 0] /\
  encode_e Sc (FRecord (mkName [82] None) [([97], 1%nat); ([98], 2%nat); ([99], 4%nat)])
    (ERecord [EArray [(false, [EInt 7]); (false, [EInt 8])]; EEnum 1%nat; EUnion 0%nat ENull]) = [2; 14; 2; 16; 0; 2; 0].
Proof. cbv zeta. repeat split; vm_compute; reflexivity. Qed.

Print Assumptions ser_sound.
Print Assumptions C02_sound.
Print Assumptions ser_sound_leaf.
Print Assumptions C02_sound_statement_refuted.
Print Assumptions untyped_str_refuted.
Print Assumptions map_protocol_refuted.
