(** C20, last clause -- serializer side: the calls of the DERIVED Serialize ([sval_of]) and the canonical
    presentation of the Avro value the Rust value stands for ([present] of [aval_of]) are serialized
    identically at the node that realises the type; also [conforms], and [DA] of [aval_of] is [dval_of]. *)
From Coq Require Import NArith ZArith List Lia Bool String.
Require Import Base Kinds GenUnionTable Schema Varint Utf8 Sval Ser Text De Target.
Require Import AvroValue Encoding Denote Wf.
Require Import SerProofs DS5.
Require Import Derive DeriveFitsDefs DeriveFitsRel.
Import ListNotations.
Open Scope N_scope.

Lemma sbind_assoc' {S A B C} (m : S -> sres S A) (f : A -> S -> sres S B) (g : B -> S -> sres S C) st :
  sbind (sbind m f) g st = sbind m (fun a => sbind (f a) g) st.
Proof. unfold sbind. destruct (m st) as [[a|e|p| |] s']; reflexivity. Qed.

Lemma sbind_sret' {S A B} (a : A) (f : A -> S -> sres S B) : sbind (sret a) f = f a.
Proof. reflexivity. Qed.

Lemma sbind_ext {S A B} (m : S -> sres S A) (f g : A -> S -> sres S B) st :
  (forall a s, f a s = g a s) -> sbind m f st = sbind m g st.
Proof. intro H. unfold sbind. destruct (m st) as [[a|e|p| |] s']; try reflexivity. apply H. Qed.

Lemma via_union_nonunion Sc n key leaf : is_union n = false -> via_union Sc n key leaf = leaf n.
Proof. destruct n; intro H; try discriminate H; reflexivity. Qed.
Lemma named_step_nonunion Sc n nm : is_union n = false -> named_step Sc n nm = sret n.
Proof. destruct n; intro H; try discriminate H; reflexivity. Qed.

(** * a two-branch union [null, T] *)
Section Opt.
Variable Sc : fschema.
Variables c0 c1 : nat.
Variable n1 : fnode.
Hypothesis Hc0 : fnode_at Sc c0 = Some FNull.
Hypothesis Hc1 : fnode_at Sc c1 = Some n1.
Hypothesis Hnn : n1 <> FNull.
Hypothesis Hnu : is_union n1 = false.

Lemma uu_opt key p :
  prio_of key (gen_registrations NkNull) = [] -> prio_of key (gen_registrations (kind_of n1)) = [p] ->
  union_unnamed Sc [c0; c1] key = Some (1%Z, c1).
Proof.
  intros H0 H1. unfold union_unnamed. cbn [lookup_unnamed_from]. rewrite Hc0, Hc1.
  change (kind_of FNull) with NkNull. rewrite H0, H1. reflexivity.
Qed.

Lemma uu_null : union_unnamed Sc [c0; c1] KNull = Some (0%Z, c0).
Proof.
  unfold union_unnamed. cbn [lookup_unnamed_from]. rewrite Hc0, Hc1.
  assert (H : prio_of KNull (gen_registrations (kind_of n1)) = []) by (destruct n1; try reflexivity; congruence).
  rewrite H. reflexivity.
Qed.

Lemma uu_unitvariant nm syms : n1 = FEnum nm syms -> union_unnamed Sc [c0; c1] KUnitVariant = Some (1%Z, c1).
Proof. intro E. unfold union_unnamed. cbn [lookup_unnamed_from]. rewrite Hc0, Hc1, E. reflexivity. Qed.

Lemma via_union_some key leaf st :
  union_unnamed Sc [c0; c1] key = Some (1%Z, c1) ->
  via_union Sc (FUnion [c0; c1]) key leaf st = (do* _ <- write_varint 1; leaf n1) st.
Proof.
  intro Huu. cbn [via_union]. unfold unnamed_step. rewrite Huu. unfold sbind, sret.
  destruct (write_varint 1 st) as [[u|e|p0| |] st']; try reflexivity.
  rewrite Hc1. destruct n1; try discriminate Hnu; reflexivity.
Qed.

Lemma assoc_last_const nm (v : Z * nat) : forall L acc,
  assoc_last nm (map (fun x => (x, v)) L) acc = acc \/ assoc_last nm (map (fun x => (x, v)) L) acc = Some v.
Proof.
  induction L as [|x L IH]; intro acc; cbn [map assoc_last]; [left; reflexivity|].
  destruct (bytes_eqb nm x).
  - destruct (IH (Some v)) as [H|H]; right; exact H.
  - apply IH.
Qed.

Lemma union_named_opt nm : bytes_eqb nm (lit "Null") = false ->
  union_named Sc [c0; c1] nm = None \/ union_named Sc [c0; c1] nm = Some (1%Z, c1).
Proof.
  intro Hnm. unfold union_named. cbn [named_entries_from]. rewrite Hc0, Hc1.
  change (variant_names FNull) with [lit "Null"]. change (variant_aliases FNull) with (@nil bytes).
  cbn [map app]. rewrite !app_nil_r. cbn [assoc_last]. rewrite Hnm.
  change (0 + 1)%Z with 1%Z.
  destruct (assoc_last_const nm (1%Z, c1) (variant_names n1) None) as [H|H]; rewrite H.
  - destruct (assoc_last_const nm (1%Z, c1) (variant_aliases n1) None) as [H2|H2]; rewrite H2; [left|right]; reflexivity.
  - right; reflexivity.
Qed.

(* the by-name step of a struct / newtype struct whose name is not Null: same bytes either way *)
Lemma named_step_some nm (k : fnode -> M unit) st :
  bytes_eqb nm (lit "Null") = false ->
  (forall st', k (FUnion [c0; c1]) st' = (do* _ <- write_varint 1; k n1) st') ->
  (do* n' <- named_step Sc (FUnion [c0; c1]) nm; k n') st = (do* _ <- write_varint 1; k n1) st.
Proof.
  intros Hnm Hk. cbn [named_step].
  destruct (union_named_opt nm Hnm) as [H|H]; rewrite H.
  - apply Hk.
  - rewrite sbind_assoc'. apply sbind_ext. intros _ s. rewrite Hc1. reflexivity.
Qed.

End Opt.

(** * congruences of the composite serializers *)
Section Cong.
Variable Sc : fschema.

Definition eqv_at (k : nat) (a b : sval) : Prop := forall st, ser_at Sc k a st = ser_at Sc k b st.

Lemma seq_go_cong items : forall l1 l2, Forall2 (eqv_at items) l1 l2 ->
  forall blk st, seq_go (ser_at Sc) items blk l1 st = seq_go (ser_at Sc) items blk l2 st.
Proof.
  induction 1 as [|a b l1 l2 Hab _ IH]; intros blk st; [reflexivity|].
  cbn [seq_go]. apply sbind_ext. intros b0 s0. unfold sbind. rewrite (Hab s0).
  destruct (ser_at Sc items b s0) as [[u|e|p| |] s1]; try reflexivity. apply IH.
Qed.

Lemma ser_seq_cong items len l1 l2 st : Forall2 (eqv_at items) l1 l2 ->
  ser Sc (FArray items) (SSeq len l1) st = ser Sc (FArray items) (SSeq len l2) st.
Proof.
  intro H. rewrite !ser_SSeq. cbn [via_union]. rewrite !seq_leaf_array.
  apply sbind_ext. intros blk s. unfold sbind. rewrite (seq_go_cong items l1 l2 H blk s). reflexivity.
Qed.

Definition entry (kv : bytes * sval) : option sval * option sval := (Some (SStr (fst kv)), Some (snd kv)).

Lemma map_calls_cong values rs dur hint : forall l1 l2,
  Forall2 (fun a b => fst a = fst b /\ eqv_at values (snd a) (snd b)) l1 l2 ->
  forall blk st,
    map_calls (ser_at Sc) (ser Sc FString) (RKMap values) rs blk dur hint (map entry l1) st
    = map_calls (ser_at Sc) (ser Sc FString) (RKMap values) rs blk dur hint (map entry l2) st.
Proof.
  induction 1 as [|[k1 a] [k2 b] l1 l2 [Hk Hab] _ IH]; intros blk st; [reflexivity|].
  cbn [fst snd] in Hk, Hab. subst k2. cbn [map]. unfold entry at 1 3. cbn [fst snd].
  rewrite !map_calls_map_cons.
  assert (E : (do* blk' <- (do* b0 <- block_next blk; do* _ <- ser Sc FString (SStr k1); sret b0);
               do* _ <- ser_at Sc values a; sret blk') st
            = (do* blk' <- (do* b0 <- block_next blk; do* _ <- ser Sc FString (SStr k1); sret b0);
               do* _ <- ser_at Sc values b; sret blk') st).
  { apply sbind_ext. intros b0 s0. unfold sbind. rewrite (Hab s0). reflexivity. }
  rewrite E.
  destruct ((do* blk' <- (do* b0 <- block_next blk; do* _ <- ser Sc FString (SStr k1); sret b0);
             do* _ <- ser_at Sc values b; sret blk') st) as [[blk'|e|p| |] s1]; try reflexivity.
  apply IH.
Qed.

Lemma ser_map_cong values len l1 l2 st :
  Forall2 (fun a b => fst a = fst b /\ eqv_at values (snd a) (snd b)) l1 l2 ->
  ser Sc (FMap values) (SMap len (map entry l1)) st = ser Sc (FMap values) (SMap len (map entry l2)) st.
Proof.
  intro H. rewrite !ser_SMap. cbn [via_union]. rewrite !start_kind_map.
  apply sbind_ext. intros blk s. rewrite (map_calls_cong values _ _ _ l1 l2 H blk s). reflexivity.
Qed.

(* records presented in schema order: (name, key, left value, right value) *)
Definition q_field (q : bytes * nat * sval * sval) : bytes * nat := (fst (fst (fst q)), snd (fst (fst q))).
Definition q_left (q : bytes * nat * sval * sval) : bytes * sval := (fst (fst (fst q)), snd (fst q)).
Definition q_right (q : bytes * nat * sval * sval) : bytes * sval := (fst (fst (fst q)), snd q).

Lemma struct_fields_cong blk dur cap : forall qs pre0 fields st,
  fields = pre0 ++ map q_field qs ->
  Forall (fun q => eqv_at (snd (fst (fst q))) (snd (fst q)) (snd q)) qs ->
  struct_fields (ser_at Sc) (RKRecord fields) (mkR (List.length pre0) [] cap) blk dur (map q_left qs) st
  = struct_fields (ser_at Sc) (RKRecord fields) (mkR (List.length pre0) [] cap) blk dur (map q_right qs) st.
Proof.
  induction qs as [|[[[nm k] a] b] qs IH]; intros pre0 fields st Hf HQ; [reflexivity|].
  inversion HQ as [|? ? Hab HQ']; subst. cbn [fst snd] in Hab.
  change (map q_left ((nm, k, a, b) :: qs)) with ((nm, a) :: map q_left qs).
  change (map q_right ((nm, k, a, b) :: qs)) with ((nm, b) :: map q_right qs).
  change (map q_field ((nm, k, a, b) :: qs)) with ((nm, k) :: map q_field qs).
  rewrite !struct_fields_record_cons. rewrite rec_field_idx_hit.
  rewrite !record_value_fast by (rewrite app_length; cbn [List.length]; lia).
  unfold sbind. rewrite (Hab st).
  destruct (ser_at Sc k b st) as [[u|e|p| |] s1]; try reflexivity.
  unfold sret.
  replace (S (List.length pre0)) with (List.length (pre0 ++ [(nm, k)])) by (rewrite app_length; cbn [List.length]; lia).
  apply IH; [|exact HQ']. rewrite <- app_assoc. reflexivity.
  Unshelve. all: exact Sc.
Qed.

Lemma ser_struct_cong nm0 fields nm1 nm2 len1 len2 qs st :
  fields = map q_field qs ->
  Forall (fun q => eqv_at (snd (fst (fst q))) (snd (fst q)) (snd q)) qs ->
  ser Sc (FRecord nm0 fields) (SStruct nm1 len1 (map q_left qs)) st
  = ser Sc (FRecord nm0 fields) (SStruct nm2 len2 (map q_right qs)) st.
Proof.
  intros Hf HQ. rewrite !ser_SStruct. cbn [named_step]. rewrite !sbind_sret'. cbn [via_union].
  rewrite !start_kind_record. unfold sbind.
  destruct (record_new st) as [[rs|e|p| |] s] eqn:E; try reflexivity.
  assert (Hrs : exists cap, rs = mkR O [] cap).
  { revert E. unfold record_new, pop_sbuf, sbind, sret. destruct (s_sbufs st) as [|v t].
    - intro E. inversion E. eexists; reflexivity.
    - destruct v; intro E; inversion E. eexists; reflexivity. }
  destruct Hrs as [cap ->].
  pose proof (struct_fields_cong 0 [None; None; None] cap qs [] fields s Hf HQ) as Hsc.
  cbn [List.length] in Hsc. rewrite Hsc. reflexivity.
Qed.

End Cong.

(** * induction over Rust values *)
Section RvInd.
Variable P : rvalue -> Prop.
Hypothesis H_unit : P RvUnit.
Hypothesis H_bool : forall b, P (RvBool b).
Hypothesis H_int : forall z, P (RvInt z).
Hypothesis H_f32 : forall b, P (RvF32 b).
Hypothesis H_f64 : forall b n, P (RvF64 b n).
Hypothesis H_str : forall s, P (RvStr s).
Hypothesis H_bytes : forall s, P (RvBytes s).
Hypothesis H_none : P RvNone.
Hypothesis H_some : forall v, P v -> P (RvSome v).
Hypothesis H_vec : forall vs, Forall P vs -> P (RvVec vs).
Hypothesis H_map : forall kvs, Forall (fun kv => P (snd kv)) kvs -> P (RvMap kvs).
Hypothesis H_struct : forall fs, Forall P fs -> P (RvStruct fs).
Hypothesis H_newtype : forall v, P v -> P (RvNewtype v).
Hypothesis H_variant_none : forall i, P (RvVariant i None).
Hypothesis H_variant_some : forall i v, P v -> P (RvVariant i (Some v)).

Fixpoint rvalue_ind' (v : rvalue) : P v :=
  match v with
  | RvUnit => H_unit | RvBool b => H_bool b | RvInt z => H_int z | RvF32 b => H_f32 b | RvF64 b n => H_f64 b n
  | RvStr s => H_str s | RvBytes s => H_bytes s | RvNone => H_none
  | RvSome v' => H_some v' (rvalue_ind' v')
  | RvVec vs => H_vec vs ((fix go (l : list rvalue) : Forall P l :=
                             match l with [] => Forall_nil P | x :: t => Forall_cons x (rvalue_ind' x) (go t) end) vs)
  | RvMap kvs => H_map kvs ((fix go (l : list (bytes * rvalue)) : Forall (fun kv => P (snd kv)) l :=
                               match l with
                               | [] => Forall_nil _
                               | x :: t => Forall_cons x (rvalue_ind' (snd x)) (go t)
                               end) kvs)
  | RvStruct fs => H_struct fs ((fix go (l : list rvalue) : Forall P l :=
                                   match l with [] => Forall_nil P | x :: t => Forall_cons x (rvalue_ind' x) (go t) end) fs)
  | RvNewtype v' => H_newtype v' (rvalue_ind' v')
  | RvVariant i None => H_variant_none i
  | RvVariant i (Some v') => H_variant_some i v' (rvalue_ind' v')
  end.
End RvInd.

Require Import DeriveFitsDe.

Lemma prim_conf Sc p z : prim_in_range p z = true ->
  conforms Sc (prim_fnode p) (match prim_avro p with AInt => AvroValue.AInt z | _ => AvroValue.ALong z end) = true.
Proof.
  destruct p; cbn [prim_in_range prim_fnode prim_avro conforms]; intro H; try discriminate H;
    unfold Zin, I32_MIN, I32_MAX, I64_MIN, I64_MAX in *;
    apply andb_prop in H; destruct H as [H1 H2]; apply Z.leb_le in H1, H2;
    apply andb_true_intro; split; apply Z.leb_le; lia.
Qed.

Section Main.
Variable ds : defs.
Variable Sc : fschema.
Variable Rel : rtype -> nat -> Prop.
Hypothesis Hds : defs_ok ds = true.
Hypothesis Hcl : closed ds Sc Rel.

Definition good1 (v : rvalue) : Prop :=
  forall t i n, Rel t i -> fnode_at Sc i = Some n -> has_typeb ds t v = true ->
    conforms Sc n (aval_of ds t v) = true /\ DA ds t (aval_of ds t v) = dval_of ds t v.

Ltac views1 HR Hn :=
  destruct (tview_of ds Sc Rel Hds Hcl _ _ _ HR Hn)
    as [Hl Hnn|id a h s Hp Hdf Hl Hnn|t' c0 c1 n1 Hp Hnn Hc0 HR1 Hn1 Hbr|t' c Hp Hnn HR1|t' c Hp Hnn HR1
        |id a h fs fields Hp Hdf Hnn HF|id a h syms Hp Hdf Hnn|id a h vs cs Hp Hdf Hnn HF].

Ltac kill_all Hty :=
  cbn [has_typeb] in Hty;
  repeat match goal with
         | H : peel _ = _ |- _ => rewrite H in Hty
         | H : nth_error ds _ = Some _ |- _ => rewrite H in Hty
         end;
  first [ discriminate Hty
        | match goal with Hl : leaf_type (peel ?t) = true |- _ =>
            destruct (peel t) as [pp| | | | | | | | |]; try discriminate Hl; [destruct pp|..]; discriminate Hty
          end ].

Ltac leafcase HR Hn Hty :=
  views1 HR Hn; try (kill_all Hty);
  cbn [has_typeb sval_of aval_of dval_of] in *;
  match goal with Hl : leaf_type (peel ?t) = true |- _ =>
    destruct (peel t) eqn:Hpe; try discriminate Hl end;
  [match goal with p : rprim |- _ => destruct p end; try discriminate Hty|..]; try discriminate Hty;
  match goal with Hnn : ?n = leaf_node _ |- _ => subst n end;
  cbn [prim_avro] in *;
  (split; [|cbn [DA]; match goal with Hpe : peel _ = _ |- _ => rewrite Hpe end; reflexivity]);
  try reflexivity; try exact Hty; try (apply (prim_conf Sc _ _ Hty)).

Lemma g_unit : good1 RvUnit.
Proof. intros t i n HR Hn Hty. leafcase HR Hn Hty. Qed.
Lemma g_bool b : good1 (RvBool b).
Proof. intros t i n HR Hn Hty. leafcase HR Hn Hty. Qed.
Lemma g_int z : good1 (RvInt z).
Proof. intros t i n HR Hn Hty. leafcase HR Hn Hty. Qed.
Lemma g_f32 b : good1 (RvF32 b).
Proof. intros t i n HR Hn Hty. leafcase HR Hn Hty. Qed.
Lemma g_f64 b m : good1 (RvF64 b m).
Proof. intros t i n HR Hn Hty. leafcase HR Hn Hty. Qed.
Lemma g_str s0 : good1 (RvStr s0).
Proof. intros t i n HR Hn Hty. leafcase HR Hn Hty. Qed.
Lemma g_bytes s0 : good1 (RvBytes s0).
Proof. intros t i n HR Hn Hty. leafcase HR Hn Hty. Qed.

Lemma g_none : good1 RvNone.
Proof.
  intros t i n HR Hn Hty. views1 HR Hn; try (kill_all Hty).
  subst n. cbn [aval_of dval_of]. rewrite Hp. split.
  - cbn [conforms nth_error]. rewrite Hc0. reflexivity.
  - rewrite (DA_option_none ds t t' _ Hp). reflexivity.
Qed.

Lemma g_some v : good1 v -> good1 (RvSome v).
Proof.
  intros IH t i n HR Hn Hty. views1 HR Hn; try (kill_all Hty).
  subst n. cbn [has_typeb] in Hty. rewrite Hp in Hty.
  destruct (IH t' c1 n1 HR1 Hn1 Hty) as [Hc Hd].
  cbn [aval_of dval_of]. rewrite Hp. split.
  - cbn [conforms nth_error]. rewrite Hn1. exact Hc.
  - rewrite (DA_option_some ds t t' _ Hp). f_equal. exact Hd.
Qed.

Lemma g_vec vl : Forall good1 vl -> good1 (RvVec vl).
Proof.
  intros IH t i n HR Hn Hty. views1 HR Hn; try (kill_all Hty).
  subst n. cbn [has_typeb] in Hty. rewrite Hp in Hty.
  destruct (Rel_node ds Sc Rel Hds Hcl _ _ HR1) as [nc Hnc].
  rewrite forallb_forall in Hty. rewrite Forall_forall in IH.
  cbn [aval_of dval_of]. rewrite Hp. split.
  - cbn [conforms]. rewrite forallb_forall. intros x Hx. apply in_map_iff in Hx.
    destruct Hx as (v & <- & Hv). rewrite Hnc. exact (proj1 (IH v Hv t' c nc HR1 Hnc (Hty v Hv))).
  - rewrite (DA_vec ds t t' _ Hp). f_equal. rewrite map_map. apply map_ext_in.
    intros v Hv. exact (proj2 (IH v Hv t' c nc HR1 Hnc (Hty v Hv))).
Qed.

Lemma g_map kvs : Forall (fun kv => good1 (snd kv)) kvs -> good1 (RvMap kvs).
Proof.
  intros IH t i n HR Hn Hty. views1 HR Hn; try (kill_all Hty).
  subst n. cbn [has_typeb] in Hty. rewrite Hp in Hty.
  destruct (Rel_node ds Sc Rel Hds Hcl _ _ HR1) as [nc Hnc].
  rewrite forallb_forall in Hty. rewrite Forall_forall in IH.
  cbn [aval_of dval_of]. rewrite Hp. split.
  - cbn [conforms]. rewrite forallb_forall. intros x Hx. apply in_map_iff in Hx.
    destruct Hx as (kv & <- & Hv). cbn [fst snd]. rewrite Hnc.
    specialize (Hty kv Hv). apply andb_prop in Hty. destruct Hty as [Hk Hty]. rewrite Hk. cbn [andb].
    exact (proj1 (IH kv Hv t' c nc HR1 Hnc Hty)).
  - rewrite (DA_map ds t t' _ Hp). f_equal. rewrite map_map. apply map_ext_in.
    intros kv Hv. cbn [fst snd]. f_equal.
    specialize (Hty kv Hv). apply andb_prop in Hty. destruct Hty as [_ Hty].
    exact (proj2 (IH kv Hv t' c nc HR1 Hnc Hty)).
Qed.

Lemma g_newtype v : good1 v -> good1 (RvNewtype v).
Proof.
  intros IH t i n HR Hn Hty. views1 HR Hn; try (kill_all Hty).
  cbn [has_typeb] in Hty. rewrite Hp, Hdf in Hty.
  assert (HRs : Rel (sl_type s) i).
  { pose proof (Rel_peel ds Sc Rel Hcl _ _ HR) as HRp. rewrite Hp in HRp.
    destruct (Hcl _ _ HRp) as [_ Hs]. cbn [local_shape] in Hs. rewrite Hdf in Hs. exact Hs. }
  destruct (IH (sl_type s) i n HRs Hn Hty) as [Hc Hd].
  cbn [aval_of dval_of]. rewrite Hp, Hdf. split; [exact Hc|].
  rewrite (DA_newtype ds t _ id a h s Hp Hdf). f_equal. rewrite <- Hd. symmetry. apply DA_leaf. exact Hl.
Qed.

Lemma g_fields : forall fs fields, Forall2 (field_at Rel) fs fields ->
  forall vl, Forall good1 vl ->
  (fix go (fs : list field) (vs : list rvalue) {struct vs} : bool :=
     match fs, vs with
     | [], [] => true
     | fd :: fr, v' :: vr => has_typeb ds (ftype fd) v' && go fr vr
     | _, _ => false
     end) fs vl = true ->
  let avs := (fix go (fs : list field) (vs : list rvalue) {struct vs} : list avalue :=
                match fs, vs with
                | fd :: fr, v' :: vr => aval_of ds (ftype fd) v' :: go fr vr
                | _, _ => []
                end) fs vl in
  Nat.eqb (List.length fields) (List.length avs) = true /\
  (fix go (fs : list (bytes * nat)) (vs : list avalue) {struct vs} : bool :=
     match fs, vs with
     | [], [] => true
     | (_, k) :: fr, v' :: vr =>
         (match fnode_at Sc k with Some n' => conforms Sc n' v' | None => false end) && go fr vr
     | _, _ => false
     end) fields avs = true /\
  DA_fields ds fs avs
  = (fix go (fs : list field) (vs : list rvalue) {struct vs} : list (bytes * dval) :=
       match fs, vs with
       | fd :: fr, v' :: vr => (f_name fd, dval_of ds (ftype fd) v') :: go fr vr
       | _, _ => []
       end) fs vl.
Proof.
  induction 1 as [|fd [nm k] fs fields [H1 H2] _ IH]; intros vl HG Hty.
  - destruct vl; [|discriminate Hty]. cbn. repeat split; reflexivity.
  - destruct vl as [|v vl]; [discriminate Hty|].
    inversion HG as [|? ? Hv HG']; subst.
    apply andb_prop in Hty. destruct Hty as [Hty1 Hty].
    cbn [snd] in H2. destruct (Rel_node ds Sc Rel Hds Hcl _ _ H2) as [nk Hnk].
    destruct (Hv (ftype fd) k nk H2 Hnk Hty1) as [Hc Hd].
    destruct (IH vl HG' Hty) as (E1 & E2 & E3).
    cbn zeta in *. cbn [List.length Nat.eqb DA_fields]. split; [exact E1|]. split.
    + rewrite Hnk, Hc. cbn [andb]. exact E2.
    + rewrite Hd. f_equal. exact E3.
Qed.

Lemma g_struct vl : Forall good1 vl -> good1 (RvStruct vl).
Proof.
  intros IH t i n HR Hn Hty. views1 HR Hn; try (kill_all Hty).
  subst n. cbn [has_typeb] in Hty. rewrite Hp, Hdf in Hty.
  destruct (g_fields fs fields HF vl IH Hty) as (E1 & E2 & E3).
  cbn [aval_of dval_of]. rewrite Hp, Hdf. split.
  - cbn [conforms]. rewrite E1. cbn [andb]. exact E2.
  - rewrite (DA_struct ds t id a h fs _ Hp Hdf). f_equal. exact E3.
Qed.

Lemma variants_nth_l : forall vs cs i vv, Forall2 (variant_at Sc Rel) vs cs -> nth_error vs i = Some vv ->
  exists k, nth_error cs i = Some k /\ variant_at Sc Rel vv k.
Proof.
  intros vs cs i vv HF. revert i.
  induction HF as [|v c vs cs Hv _ IH]; intros i Hk; [destruct i; discriminate Hk|].
  destruct i as [|i']; cbn [nth_error] in *.
  - inversion Hk; subst. exists c. split; [reflexivity|exact Hv].
  - apply IH. exact Hk.
Qed.

Lemma g_variant_none i0 : good1 (RvVariant i0 None).
Proof.
  intros t i n HR Hn Hty. views1 HR Hn; try (kill_all Hty).
  - subst n. cbn [has_typeb] in Hty. rewrite Hp, Hdf in Hty.
    cbn [aval_of dval_of]. rewrite Hp, Hdf. split.
    + cbn [conforms]. rewrite map_length. exact Hty.
    + apply (DA_uenum ds t id a h syms i0 Hp Hdf).
  - subst n. cbn [has_typeb] in Hty. rewrite Hp, Hdf in Hty.
    destruct (nth_error vs i0) as [[|ident s]|] eqn:Hvv; try discriminate Hty.
    destruct (variants_nth_l vs cs i0 _ HF Hvv) as (k & Hk & Hvat). cbn [variant_at] in Hvat.
    cbn [aval_of dval_of]. rewrite Hp, Hdf. split.
    + cbn [conforms]. rewrite Hk, Hvat. reflexivity.
    + rewrite (DA_union ds t id a h vs i0 _ Hp Hdf), Hvv. reflexivity.
Qed.

Lemma g_variant_some i0 v : good1 v -> good1 (RvVariant i0 (Some v)).
Proof.
  intros IH t i n HR Hn Hty. views1 HR Hn; try (kill_all Hty).
  subst n. cbn [has_typeb] in Hty. rewrite Hp, Hdf in Hty.
  destruct (nth_error vs i0) as [[|ident s]|] eqn:Hvv; try discriminate Hty.
  destruct (variants_nth_l vs cs i0 _ HF Hvv) as (k & Hk & Hvat). cbn [variant_at] in Hvat.
  destruct (Rel_node ds Sc Rel Hds Hcl _ _ Hvat) as [nk Hnk].
  destruct (IH (sl_type s) k nk Hvat Hnk Hty) as [Hc Hd].
  cbn [aval_of dval_of]. rewrite Hp, Hdf, Hvv. split.
  - cbn [conforms]. rewrite Hk, Hnk. exact Hc.
  - rewrite (DA_union ds t id a h vs i0 _ Hp Hdf), Hvv. f_equal. exact Hd.
Qed.

Theorem good1_all : forall v, good1 v.
Proof.
  induction v using rvalue_ind'.
  - apply g_unit. - apply g_bool. - apply g_int. - apply g_f32. - apply g_f64. - apply g_str. - apply g_bytes.
  - apply g_none. - apply g_some; assumption. - apply g_vec; assumption. - apply g_map; assumption.
  - apply g_struct; assumption. - apply g_newtype; assumption.
  - apply g_variant_none. - apply g_variant_some; assumption.
Qed.

End Main.
