(** Proofs about the model of writer/compression.rs (model/CodecLoop.v).

    [loop_returns_full_stream]: for every library meeting [stream_contract], every input, every
    output buffer of length >= 1 (in particular the buffer left over from previous blocks, with its
    stale contents) the grow-the-buffer loop terminates within |x| + |enc x| + 1 library calls,
    ends in StreamEnd with the assertion true -- never Err, never a panic --, and the data handed to
    the block writer is exactly [enc x]. The buffer afterwards has length (initial length) * 2^(calls-1);
    when the library only answers "not finished" with a completely filled window ([fills_window]), the
    number of calls is logarithmic: calls = 1 or (initial length) * 2^(calls-2) <= |enc x|.
    The three classifications of the crate agree with the libraries' documented statuses; the
    classifications before commit ef7c759 do not, with the concrete failing runs.
    A small concrete library meets the contract (non-vacuity).
    Snappy: decode (encode x) = x given the raw codec round trips; a wrong trailer is rejected. *)
From Coq Require Import NArith List Lia Bool Arith.
Import ListNotations.
Require Import Base CodecLoop.
Local Open Scope nat_scope.
Arguments N.add : simpl never.
Arguments N.mul : simpl never.
Arguments N.div : simpl never.
Arguments N.modulo : simpl never.
Arguments Nat.pow : simpl never.

(* ------------------------------------------------------------------------------------------ *)
(** * Buffer lemmas *)

Lemma write_at_length : forall off (w vec : bytes),
  off + length w <= length vec -> length (write_at off w vec) = length vec.
Proof.
  intros off w vec H. unfold write_at.
  rewrite !app_length, firstn_length, skipn_length. lia.
Qed.

Lemma write_at_firstn : forall off (w vec : bytes),
  off <= length vec ->
  firstn (off + length w) (write_at off w vec) = firstn off vec ++ w.
Proof.
  intros off w vec H. unfold write_at.
  assert (Hl : length (firstn off vec) = off) by (rewrite firstn_length; lia).
  rewrite firstn_app, Hl.
  rewrite firstn_all2 by lia.
  replace (off + length w - off) with (length w) by lia.
  rewrite firstn_app, firstn_all, Nat.sub_diag. simpl. rewrite app_nil_r. reflexivity.
Qed.

Lemma double_length : forall v : bytes, length (double v) = 2 * length v.
Proof. intros v. unfold double. rewrite app_length, repeat_length. lia. Qed.

Lemma double_firstn : forall n (v : bytes), n <= length v -> firstn n (double v) = firstn n v.
Proof.
  intros n v H. unfold double. rewrite firstn_app.
  replace (n - length v) with 0 by lia. simpl. apply app_nil_r.
Qed.

Lemma skipn_add : forall (b a : nat) (l : bytes), skipn a (skipn b l) = skipn (b + a) l.
Proof.
  induction b as [| b IH]; intros a l; [reflexivity |].
  destruct l as [| y l]; [rewrite !skipn_nil; reflexivity | cbn [skipn Nat.add]; apply IH].
Qed.

Lemma firstn_add_split : forall (a b : nat) (l : bytes),
  firstn (a + b) l = firstn a l ++ firstn b (skipn a l).
Proof.
  induction a as [| a IH]; intros b l; [reflexivity |].
  destruct l as [| y l]; [cbn [skipn]; rewrite !firstn_nil; reflexivity |].
  cbn [Nat.add firstn skipn app]. rewrite IH. reflexivity.
Qed.

Lemma prefix_length : forall a b : bytes, is_prefix a b -> length a <= length b.
Proof. intros a b [r ->]. rewrite app_length. lia. Qed.

Lemma status_end_dec : forall st : lstatus, {st = StStreamEnd} + {st <> StStreamEnd}.
Proof. intros st. destruct st; (left; reflexivity) || (right; discriminate). Qed.

(* ------------------------------------------------------------------------------------------ *)
(** * The loop under the contract *)

Section LoopProofs.
Variable lib : Type.
Variable total_in total_out : lib -> nat.
Variable call : lib -> bytes -> nat -> option (lstatus * bytes) * lib.
Variable classify : lstatus -> sclass.
Variable lib_more : lstatus -> bool.
Hypothesis Hcls : classify_ok classify lib_more.

Notation loop := (encode_loop lib total_in total_out call classify).
Notation reaches := (reach lib total_in call).
Notation fills := (fills_window lib total_in call).

(** ** Under the weaker contract: the stream of this run is valid for the input *)
Section Valid.
Variable valid : bytes -> bytes -> Prop.
Variable obound : bytes -> nat.
Notation wcontract := (stream_contract_valid lib total_in total_out call lib_more valid obound).

(* what is known in every reachable state *)
Lemma reach_inv : forall x c0, wcontract x c0 -> forall c out, reaches x c0 c out ->
  total_out c = length out /\ total_in c <= length x /\ length out <= obound x.
Proof.
  intros x c0 K c out R. induction R as [| c out free st w c' R IH Hf Hc].
  - destruct (wc_start _ _ _ _ _ _ _ _ _ K) as [Hi Ho]. rewrite Hi, Ho.
    split; [reflexivity | split; cbn [length]; lia].
  - destruct IH as [Ho [Hi Hp]].
    destruct (wc_window _ _ _ _ _ _ _ _ _ K _ _ _ _ _ _ R Hf Hc) as [_ Ho'].
    destruct (wc_input _ _ _ _ _ _ _ _ _ K _ _ _ _ _ _ R Hf Hc) as [_ Hi'].
    split; [rewrite Ho', Ho, app_length; reflexivity | split; [exact Hi' |]].
    exact (wc_bound _ _ _ _ _ _ _ _ _ K _ _ _ _ _ _ R Hf Hc).
Qed.

(* the measure that decreases with every "not finished" call *)
Definition todo (x : bytes) (c : lib) (out : bytes) : nat :=
  (length x - total_in c) + (obound x - length out).

Lemma loop_from : forall fuel x c0, wcontract x c0 ->
  forall c out vec, reaches x c0 c out ->
  firstn (total_out c) vec = out -> total_out c < length vec ->
  todo x c out < fuel ->
  exists c' vec' log d,
    loop fuel c (skipn (total_in c) x) vec = (LDone (length d), c', vec', log) /\
    firstn (length d) vec' = d /\ valid x d /\ reaches x c0 c' d /\ is_prefix out d /\
    1 <= length log /\ length log <= S (todo x c out) /\
    length vec' = length vec * 2 ^ (length log - 1) /\
    (fills x c0 -> length log = 1 \/ length vec * 2 ^ (length log - 2) <= length d).
Proof.
  induction fuel as [| f IH]; intros x c0 K c out vec R Hvec Hlt Hfuel; [lia |].
  destruct (reach_inv x c0 K c out R) as [Ho [Hi Hp]].
  cbn [encode_loop].
  assert (Hnb : (length vec <? total_out c) = false) by (apply Nat.ltb_ge; lia).
  rewrite Hnb.
  set (free := length vec - total_out c).
  assert (Hfree : 0 < free) by (unfold free; lia).
  pose proof (wc_no_error _ _ _ _ _ _ _ _ _ K c out free R Hfree) as Hne.
  destruct (call c (skipn (total_in c) x) free) as [[[st w] |] c'] eqn:Hc; [| exfalso; apply Hne; reflexivity].
  clear Hne.
  destruct (wc_window _ _ _ _ _ _ _ _ _ K _ _ _ _ _ _ R Hfree Hc) as [Hw Ho'].
  destruct (wc_input _ _ _ _ _ _ _ _ _ K _ _ _ _ _ _ R Hfree Hc) as [Hi1 Hi2].
  pose proof (wc_bound _ _ _ _ _ _ _ _ _ K _ _ _ _ _ _ R Hfree Hc) as Hpl.
  rewrite app_length in Hpl.
  rewrite (firstn_all2 (n := free) w) by lia.
  assert (Hnb2 : (total_in c' <? total_in c) = false) by (apply Nat.ltb_ge; lia).
  rewrite Hnb2.
  assert (Hlen1 : length (write_at (total_out c) w vec) = length vec)
    by (apply write_at_length; unfold free in Hw; lia).
  assert (Hfst1 : firstn (total_out c') (write_at (total_out c) w vec) = out ++ w).
  { rewrite Ho'. rewrite write_at_firstn by lia. rewrite Hvec. reflexivity. }
  assert (Hin : length (skipn (total_in c) x) = length x - total_in c) by apply skipn_length.
  pose proof (reach_call lib total_in call x c0 c out free st w c' R Hfree Hc) as R'.
  destruct Hcls as [HclsE HclsM].
  destruct (status_end_dec st) as [-> | Hst].
  - (* StreamEnd *)
    rewrite HclsE.
    destruct (wc_end _ _ _ _ _ _ _ _ _ K _ _ _ _ _ R Hfree Hc) as [Hfull Hall].
    assert (Heq : (length (skipn (total_in c) x) =? total_in c' - total_in c) = true)
      by (apply Nat.eqb_eq; lia).
    rewrite Heq.
    assert (Hto : total_out c' = length (out ++ w)) by (rewrite Ho', Ho, app_length; reflexivity).
    rewrite Hto.
    exists c', (write_at (total_out c) w vec), [mkCall (length (skipn (total_in c) x)) free], (out ++ w).
    split; [reflexivity |].
    split; [rewrite <- Hto; exact Hfst1 |].
    split; [exact Hfull | split; [exact R' | split; [exists w; reflexivity |]]].
    cbn [length]. split; [lia | split; [lia | split]].
    + rewrite Hlen1. cbn. rewrite Nat.pow_0_r. lia.
    + intros _. left; reflexivity.
  - (* not finished *)
    rewrite (HclsM st Hst (wc_more _ _ _ _ _ _ _ _ _ K _ _ _ _ _ _ R Hfree Hc Hst)).
    assert (Hnb3 : (length (skipn (total_in c) x) <? total_in c' - total_in c) = false)
      by (apply Nat.ltb_ge; lia).
    rewrite Hnb3.
    rewrite skipn_add.
    replace (total_in c + (total_in c' - total_in c)) with (total_in c') by lia.
    assert (Hprog : todo x c' (out ++ w) < todo x c out).
    { unfold todo. rewrite app_length.
      destruct (wc_progress _ _ _ _ _ _ _ _ _ K _ _ _ _ _ _ R Hfree Hc) as [E | [P | P]];
        [contradiction | lia |].
      destruct w; [contradiction | cbn [length] in *; lia]. }
    destruct (IH x c0 K c' (out ++ w) (double (write_at (total_out c) w vec)) R') as
      (c2 & v2 & log & d & Hrun & Hdata & Hval & Rd & Hpre & Hl1 & Hl2 & Hlen & Hfill).
    + rewrite double_firstn by (rewrite Hlen1; unfold free in Hw; lia). exact Hfst1.
    + rewrite double_length, Hlen1. unfold free in Hw. lia.
    + lia.
    + rewrite Hrun.
      exists c2, v2, (mkCall (length (skipn (total_in c) x)) free :: log), d.
      split; [reflexivity |].
      split; [exact Hdata | split; [exact Hval | split; [exact Rd |]]].
      split; [destruct Hpre as [r ->]; exists (w ++ r); rewrite app_assoc; reflexivity |].
      cbn [length]. split; [lia | split; [lia | split]].
      * rewrite Hlen, double_length, Hlen1.
        replace (S (length log) - 1) with (S (length log - 1)) by lia.
        rewrite Nat.pow_succ_r'. lia.
      * intros F. right.
        pose proof (F _ _ _ _ _ _ R Hfree Hc Hst) as Hfull.
        pose proof (prefix_length _ _ Hpre) as Hdl. rewrite app_length in Hdl.
        assert (Hlv : length vec <= length d) by (unfold free in Hfull; lia).
        destruct (Nat.eq_dec (length log) 1) as [H1 | N1].
        -- rewrite H1. cbn. rewrite Nat.pow_0_r. lia.
        -- destruct (Hfill F) as [H1 | H2]; [contradiction |].
           rewrite double_length, Hlen1 in H2.
           replace (S (length log) - 2) with (S (length log - 2)) by lia.
           rewrite Nat.pow_succ_r'. lia.
Qed.

(** The loop entered with any buffer of length >= 1: Ok, and the data handed on is a valid stream *)
Theorem loop_returns_valid_stream : forall x c0 vec,
  wcontract x c0 -> 1 <= length vec ->
  forall fuel, length x + obound x < fuel ->
  exists c' vec' log d,
    loop fuel c0 x vec = (LDone (length d), c', vec', log) /\
    compressed_buffer lib (loop fuel c0 x vec) = Some d /\ valid x d /\
    1 <= length log /\ length log <= S (length x + obound x) /\
    length vec' = length vec * 2 ^ (length log - 1) /\
    (fills x c0 -> length log = 1 \/ length vec * 2 ^ (length log - 2) <= length d).
Proof.
  intros x c0 vec K Hv fuel Hfuel.
  destruct (wc_start _ _ _ _ _ _ _ _ _ K) as [Hi Ho].
  destruct (loop_from fuel x c0 K c0 [] vec (reach_start lib total_in call x c0)) as
    (c' & vec' & log & d & Hrun & Hdata & Hval & _ & _ & Hl1 & Hl2 & Hlen & Hfill).
  - rewrite Ho. reflexivity.
  - rewrite Ho. lia.
  - unfold todo. rewrite Hi. cbn [length]. lia.
  - rewrite Hi in Hrun. cbn [skipn] in Hrun.
    exists c', vec', log, d. split; [exact Hrun |].
    split; [rewrite Hrun; cbn [compressed_buffer]; rewrite Hdata; reflexivity |].
    split; [exact Hval | split; [exact Hl1 | split; [| split; [exact Hlen | exact Hfill]]]].
    unfold todo in Hl2. rewrite Hi in Hl2. cbn [length] in Hl2. lia.
Qed.

(** `encode` for one block: output_vec as ANY previous blocks left it (empty: it gets `start` bytes) *)
Theorem encode_returns_valid_stream : forall x c0 vec start,
  wcontract x c0 -> 1 <= start ->
  forall fuel, length x + obound x < fuel ->
  exists c' vec' log d,
    encode_stream lib total_in total_out call classify fuel start c0 x vec
      = (LDone (length d), c', vec', log) /\
    compressed_buffer lib (encode_stream lib total_in total_out call classify fuel start c0 x vec)
      = Some d /\ valid x d /\
    1 <= length log /\ length log <= S (length x + obound x) /\
    length vec' = Nat.max (length vec) (if length vec =? 0 then start else 0) * 2 ^ (length log - 1) /\
    (fills x c0 -> length log = 1 \/
       Nat.max (length vec) (if length vec =? 0 then start else 0) * 2 ^ (length log - 2) <= length d).
Proof.
  intros x c0 vec start K Hs fuel Hfuel. unfold encode_stream.
  destruct vec as [| b vec].
  - cbn [length Nat.eqb Nat.max].
    destruct (loop_returns_valid_stream x c0 (repeat 0%N start) K) with (fuel := fuel) as
      (c' & vec' & log & d & H); [rewrite repeat_length; exact Hs | exact Hfuel |].
    rewrite repeat_length in H. exists c', vec', log, d. exact H.
  - destruct (loop_returns_valid_stream x c0 (b :: vec) K) with (fuel := fuel) as
      (c' & vec' & log & d & H); [cbn [length]; lia | exact Hfuel |].
    exists c', vec', log, d.
    replace (Nat.max (length (b :: vec)) (if length (b :: vec) =? 0 then start else 0))
      with (length (b :: vec)) by (cbn [length Nat.eqb]; lia).
    exact H.
Qed.
End Valid.

(** ** Under the contract with a stream that is a function of the input: exactly [enc x] *)
Variable enc : bytes -> bytes.
Notation contract := (stream_contract lib total_in total_out call enc lib_more).

Lemma contract_valid : forall x c0, contract x c0 ->
  stream_contract_valid lib total_in total_out call lib_more (fun x d => d = enc x) (fun x => length (enc x)) x c0.
Proof.
  intros x c0 K. constructor.
  - exact (sc_start _ _ _ _ _ _ _ _ K).
  - exact (sc_no_error _ _ _ _ _ _ _ _ K).
  - exact (sc_window _ _ _ _ _ _ _ _ K).
  - exact (sc_input _ _ _ _ _ _ _ _ K).
  - intros c out free st w c' R Hf Hc.
    apply prefix_length. exact (sc_prefix _ _ _ _ _ _ _ _ K _ _ _ _ _ _ R Hf Hc).
  - exact (sc_end _ _ _ _ _ _ _ _ K).
  - exact (sc_more _ _ _ _ _ _ _ _ K).
  - exact (sc_progress _ _ _ _ _ _ _ _ K).
Qed.

Theorem loop_returns_full_stream : forall x c0 vec,
  contract x c0 -> 1 <= length vec ->
  forall fuel, length x + length (enc x) < fuel ->
  exists c' vec' log,
    loop fuel c0 x vec = (LDone (length (enc x)), c', vec', log) /\
    compressed_buffer lib (loop fuel c0 x vec) = Some (enc x) /\
    1 <= length log /\ length log <= S (length x + length (enc x)) /\
    length vec' = length vec * 2 ^ (length log - 1) /\
    (fills x c0 -> length log = 1 \/ length vec * 2 ^ (length log - 2) <= length (enc x)).
Proof.
  intros x c0 vec K Hv fuel Hfuel.
  destruct (loop_returns_valid_stream _ _ x c0 vec (contract_valid x c0 K) Hv fuel Hfuel) as
    (c' & vec' & log & d & Hrun & Hbuf & -> & H).
  exists c', vec', log. split; [exact Hrun | split; [exact Hbuf | exact H]].
Qed.

Theorem encode_returns_full_stream : forall x c0 vec start,
  contract x c0 -> 1 <= start ->
  forall fuel, length x + length (enc x) < fuel ->
  exists c' vec' log,
    encode_stream lib total_in total_out call classify fuel start c0 x vec
      = (LDone (length (enc x)), c', vec', log) /\
    compressed_buffer lib (encode_stream lib total_in total_out call classify fuel start c0 x vec)
      = Some (enc x) /\
    1 <= length log /\ length log <= S (length x + length (enc x)) /\
    length vec' = Nat.max (length vec) (if length vec =? 0 then start else 0) * 2 ^ (length log - 1) /\
    (fills x c0 -> length log = 1 \/
       Nat.max (length vec) (if length vec =? 0 then start else 0) * 2 ^ (length log - 2) <= length (enc x)).
Proof.
  intros x c0 vec start K Hs fuel Hfuel.
  destruct (encode_returns_valid_stream _ _ x c0 vec start (contract_valid x c0 K) Hs fuel Hfuel) as
    (c' & vec' & log & d & Hrun & Hbuf & -> & H).
  exists c', vec', log. split; [exact Hrun | split; [exact Hbuf | exact H]].
Qed.

End LoopProofs.

(* ------------------------------------------------------------------------------------------ *)
(** * The three instances *)

Lemma classify_ok_of : forall k, classify_ok (classify_of k) (more_of k).
Proof.
  intros k. split; [destruct k; reflexivity |].
  intros st Hst Hm. destruct k, st; cbn in *; try reflexivity; try discriminate; contradiction.
Qed.

(* the classifications before commit ef7c759 reject a documented "not finished" status *)
Lemma classify_bzip2_before_fix_not_ok : ~ classify_ok classify_bzip2_before_fix more_bzip2.
Proof. intros [_ H]. specialize (H StFinishOk). cbn in H. discriminate H; [discriminate | reflexivity]. Qed.

Lemma classify_xz_before_fix_not_ok : ~ classify_ok classify_xz_before_fix more_xz.
Proof. intros [_ H]. specialize (H StOk). cbn in H. discriminate H; [discriminate | reflexivity]. Qed.

(* ... with the runs: a 5-byte stream into a 2-byte buffer, the library answering FinishOk (bzip2) /
   Ok (xz) with a full window, then StreamEnd. Repaired loop: the stream; old loop: Err. *)
Definition demo_stream : bytes := [1; 2; 3; 4; 5]%N.
Definition demo_trace (more : lstatus) : list rcall :=
  [mkRC more 3 2; mkRC more 0 4; mkRC StStreamEnd 0 5].
Definition demo_run (classify : lstatus -> sclass) (more : lstatus) :=
  let r := encode_stream rlib rl_in rl_out replay_call classify 10 2 (mkRL (demo_trace more) demo_stream 0 0)
                         [7; 7; 7]%N [] in
  (fst (fst (fst r)), compressed_buffer rlib r).

Lemma demo_bzip2_repaired : demo_run classify_bzip2 StFinishOk = (LDone 5, Some demo_stream).
Proof. vm_compute. reflexivity. Qed.
Lemma demo_bzip2_before_fix : demo_run classify_bzip2_before_fix StFinishOk = (LErrStatus StFinishOk, None).
Proof. vm_compute. reflexivity. Qed.
Lemma demo_xz_repaired : demo_run classify_xz StOk = (LDone 5, Some demo_stream).
Proof. vm_compute. reflexivity. Qed.
Lemma demo_xz_before_fix : demo_run classify_xz_before_fix StOk = (LErrStatus StOk, None).
Proof. vm_compute. reflexivity. Qed.

(* ------------------------------------------------------------------------------------------ *)
(** * Non-vacuity: a concrete library meets the contract (for every input)

      The "stored" compressor: the stream is the input itself; a call copies as much as fits into the
      window and answers StreamEnd when everything has been copied, Ok otherwise. *)

Definition toy_call (c : nat) (input : bytes) (free : nat) : option (lstatus * bytes) * nat :=
  let n := Nat.min free (length input) in
  (Some (if n =? length input then StStreamEnd else StOk, firstn n input), c + n).

Notation toy_reach := (reach nat (fun c => c) toy_call).

Lemma toy_reach_inv : forall x c out, toy_reach x 0 c out -> out = firstn c x /\ c <= length x.
Proof.
  intros x c out R. induction R as [| c out free st w c' R IH Hf Hc].
  - split; [reflexivity | lia].
  - destruct IH as [-> Hle]. unfold toy_call in Hc. inversion Hc; subst; clear Hc.
    rewrite skipn_length. split; [| lia].
    symmetry. apply firstn_add_split.
Qed.

Theorem toy_meets_contract : forall x,
  stream_contract nat (fun c => c) (fun c => c) toy_call (fun x => x) more_deflate x 0.
Proof.
  intros x. constructor.
  - split; reflexivity.
  - intros c out free R Hf. unfold toy_call. cbn. discriminate.
  - intros c out free st w c' R Hf Hc. unfold toy_call in Hc. inversion Hc; subst; clear Hc.
    rewrite firstn_length, skipn_length. lia.
  - intros c out free st w c' R Hf Hc. destruct (toy_reach_inv _ _ _ R) as [_ Hle].
    unfold toy_call in Hc. inversion Hc; subst; clear Hc. rewrite skipn_length. lia.
  - intros c out free st w c' R Hf Hc.
    pose proof (reach_call nat (fun c => c) toy_call x 0 c out free st w c' R Hf Hc) as R'.
    destruct (toy_reach_inv _ _ _ R') as [-> _].
    exists (skipn c' x). symmetry. apply firstn_skipn.
  - intros c out free w c' R Hf Hc.
    pose proof (reach_call nat (fun c => c) toy_call x 0 c out free _ w c' R Hf Hc) as R'.
    destruct (toy_reach_inv _ _ _ R') as [Ho' _]. destruct (toy_reach_inv _ _ _ R) as [_ Hle].
    rewrite Ho'. clear Ho' R'.
    unfold toy_call in Hc. rewrite skipn_length in Hc.
    destruct (Nat.eqb_spec (Nat.min free (length x - c)) (length x - c)) as [E | E];
      inversion Hc; subst; clear Hc.
    split; [apply firstn_all2; lia | lia].
  - intros c out free st w c' R Hf Hc Hst. unfold toy_call in Hc. inversion Hc as [[Hs Hw Hc']]; clear Hc.
    destruct (Nat.min free (length (skipn c x)) =? length (skipn c x)); subst st; [contradiction | reflexivity].
  - intros c out free st w c' R Hf Hc. destruct (toy_reach_inv _ _ _ R) as [_ Hle].
    unfold toy_call in Hc. inversion Hc as [[Hs Hw Hc']]; clear Hc.
    rewrite skipn_length in *.
    destruct (Nat.eqb_spec (Nat.min free (length x - c)) (length x - c)) as [E | E]; [left; reflexivity |].
    right; left. lia.
Qed.

Lemma toy_fills_window : forall x, fills_window nat (fun c => c) toy_call x 0.
Proof.
  intros x c out free st w c' R Hf Hc Hst. unfold toy_call in Hc. inversion Hc as [[Hs Hw Hc']]; clear Hc.
  rewrite firstn_length, skipn_length in *.
  destruct (Nat.eqb_spec (Nat.min free (length x - c)) (length x - c)) as [E | E]; [subst st; contradiction |].
  lia.
Qed.

(* ------------------------------------------------------------------------------------------ *)
(** * Snappy framing *)

Local Open Scope N_scope.

Lemma of_be32_be32 : forall n, n < 4294967296 -> of_be32 (be32 n) = n.
Proof.
  intros n Hn. unfold be32, of_be32.
  assert (H1 : n / 65536 = n / 256 / 256) by (rewrite N.div_div by lia; reflexivity).
  assert (H2 : n / 16777216 = n / 256 / 256 / 256) by (rewrite !N.div_div by lia; reflexivity).
  rewrite H1, H2.
  remember (n / 256) as q1 eqn:Q1. remember (q1 / 256) as q2 eqn:Q2. remember (q2 / 256) as q3 eqn:Q3.
  pose proof (N.div_mod' n 256) as E0. rewrite <- Q1 in E0.
  pose proof (N.div_mod' q1 256) as E1. rewrite <- Q2 in E1.
  pose proof (N.div_mod' q2 256) as E2. rewrite <- Q3 in E2.
  pose proof (N.mod_lt n 256 ltac:(lia)) as L0.
  pose proof (N.mod_lt q1 256 ltac:(lia)) as L1.
  pose proof (N.mod_lt q2 256 ltac:(lia)) as L2.
  clear Q1 Q2 Q3.
  remember (n mod 256) as r0. remember (q1 mod 256) as r1. remember (q2 mod 256) as r2.
  assert (L3 : q3 < 256) by lia.
  rewrite (N.mod_small q3 256 L3). lia.
Qed.

Section SnappyProofs.
Variable raw_enc : bytes -> bytes.
Variable raw_dec : bytes -> option bytes.
Variable crc32 : bytes -> N.
Hypothesis raw_roundtrip : forall x, raw_dec (raw_enc x) = Some x.
Hypothesis crc32_u32 : forall x, crc32 x < 4294967296.

Lemma snappy_decode_framed : forall x (t : bytes), length t = 4%nat ->
  snappy_decode raw_dec crc32 (raw_enc x ++ t) =
  if crc32 x =? of_be32 t then Ok x else Err EData.
Proof.
  intros x t Ht. unfold snappy_decode.
  rewrite app_length, Ht.
  assert (Hnb : (length (raw_enc x) + 4 <? 4)%nat = false) by (apply Nat.ltb_ge; lia).
  rewrite Hnb.
  replace (length (raw_enc x) + 4 - 4)%nat with (length (raw_enc x)) by lia.
  rewrite firstn_app, Nat.sub_diag, firstn_all. cbn [firstn]. rewrite app_nil_r.
  rewrite skipn_app, Nat.sub_diag, skipn_all. cbn [skipn app].
  rewrite raw_roundtrip. reflexivity.
Qed.

(** what the writer produces for a block is accepted by the reader and gives the block back *)
Theorem snappy_framing_roundtrip : forall x,
  snappy_decode raw_dec crc32 (snappy_encode raw_enc crc32 x) = Ok x.
Proof.
  intros x. unfold snappy_encode.
  rewrite snappy_decode_framed by reflexivity.
  rewrite of_be32_be32 by apply crc32_u32. rewrite N.eqb_refl. reflexivity.
Qed.

(** the CRC is compared: any other four trailing bytes (another value, or the same value in another
    byte order) are rejected *)
Theorem snappy_crc_checked : forall x (t : bytes), length t = 4%nat -> of_be32 t <> crc32 x ->
  snappy_decode raw_dec crc32 (raw_enc x ++ t) = Err EData.
Proof.
  intros x t Ht Hne. rewrite snappy_decode_framed by exact Ht.
  destruct (N.eqb_spec (crc32 x) (of_be32 t)) as [E | E]; [congruence | reflexivity].
Qed.

(** a block shorter than the CRC is rejected *)
Theorem snappy_short_block : forall blk : bytes, (length blk < 4)%nat ->
  snappy_decode raw_dec crc32 blk = Err EData.
Proof.
  intros blk H. unfold snappy_decode.
  assert (Hb : (length blk <? 4)%nat = true) by (apply Nat.ltb_lt; exact H).
  rewrite Hb. reflexivity.
Qed.
End SnappyProofs.

(* ------------------------------------------------------------------------------------------ *)
(** * The three loops of the crate (deflate, bzip2, xz) *)
Local Open Scope nat_scope.

Theorem encode_codec_returns_full_stream :
  forall (k : lcodec) (lib : Type) (total_in total_out : lib -> nat)
         (call : lib -> bytes -> nat -> option (lstatus * bytes) * lib) (enc : bytes -> bytes)
         (x : bytes) (c0 : lib) (vec : bytes) (start : nat),
  stream_contract lib total_in total_out call enc (more_of k) x c0 -> 1 <= start ->
  forall fuel, length x + length (enc x) < fuel ->
  exists c' vec' log,
    encode_stream lib total_in total_out call (classify_of k) fuel start c0 x vec
      = (LDone (length (enc x)), c', vec', log) /\
    compressed_buffer lib (encode_stream lib total_in total_out call (classify_of k) fuel start c0 x vec)
      = Some (enc x) /\
    1 <= length log /\ length log <= S (length x + length (enc x)) /\
    length vec' = Nat.max (length vec) (if length vec =? 0 then start else 0) * 2 ^ (length log - 1) /\
    (fills_window lib total_in call x c0 -> length log = 1 \/
       Nat.max (length vec) (if length vec =? 0 then start else 0) * 2 ^ (length log - 2) <= length (enc x)).
Proof.
  intros k lib total_in total_out call enc x c0 vec start K Hs fuel Hf.
  exact (encode_returns_full_stream lib total_in total_out call (classify_of k) (more_of k)
           (classify_ok_of k) enc x c0 vec start K Hs fuel Hf).
Qed.

Theorem encode_codec_returns_valid_stream :
  forall (k : lcodec) (lib : Type) (total_in total_out : lib -> nat)
         (call : lib -> bytes -> nat -> option (lstatus * bytes) * lib)
         (valid : bytes -> bytes -> Prop) (obound : bytes -> nat)
         (x : bytes) (c0 : lib) (vec : bytes) (start : nat),
  stream_contract_valid lib total_in total_out call (more_of k) valid obound x c0 -> 1 <= start ->
  forall fuel, length x + obound x < fuel ->
  exists c' vec' log d,
    encode_stream lib total_in total_out call (classify_of k) fuel start c0 x vec
      = (LDone (length d), c', vec', log) /\
    compressed_buffer lib (encode_stream lib total_in total_out call (classify_of k) fuel start c0 x vec)
      = Some d /\ valid x d /\
    1 <= length log /\ length log <= S (length x + obound x) /\
    length vec' = Nat.max (length vec) (if length vec =? 0 then start else 0) * 2 ^ (length log - 1) /\
    (fills_window lib total_in call x c0 -> length log = 1 \/
       Nat.max (length vec) (if length vec =? 0 then start else 0) * 2 ^ (length log - 2) <= length d).
Proof.
  intros k lib total_in total_out call valid obound x c0 vec start K Hs fuel Hf.
  exact (encode_returns_valid_stream lib total_in total_out call (classify_of k) (more_of k)
           (classify_ok_of k) valid obound x c0 vec start K Hs fuel Hf).
Qed.

(* the repaired and the former classifications on the same library answers *)
Theorem before_fix_refuted :
  ~ classify_ok classify_bzip2_before_fix more_bzip2 /\ ~ classify_ok classify_xz_before_fix more_xz /\
  demo_run classify_bzip2 StFinishOk = (LDone 5, Some demo_stream) /\
  demo_run classify_bzip2_before_fix StFinishOk = (LErrStatus StFinishOk, None) /\
  demo_run classify_xz StOk = (LDone 5, Some demo_stream) /\
  demo_run classify_xz_before_fix StOk = (LErrStatus StOk, None).
Proof.
  split; [exact classify_bzip2_before_fix_not_ok |].
  split; [exact classify_xz_before_fix_not_ok |].
  split; [exact demo_bzip2_repaired |].
  split; [exact demo_bzip2_before_fix |].
  split; [exact demo_xz_repaired | exact demo_xz_before_fix].
Qed.

Theorem contract_inhabited : forall x,
  stream_contract nat (fun c => c) (fun c => c) toy_call (fun x => x) more_deflate x 0 /\
  fills_window nat (fun c => c) toy_call x 0.
Proof. intros x. split; [apply toy_meets_contract | apply toy_fills_window]. Qed.
