(** The dispatch of the datum serializer is the dispatch of the crate's source (first round).

    gen/GenSerDispatch.v is regenerated from serde_avro_fast/src/ser/serializer/mod.rs on every run
    (translators/gen_ser_dispatch.py). This file
      (i)   writes down, by hand, the rows of model/Ser.v per method ([model_ser_*]);
      (iii) states that the regenerated tables are those rows ([tie_ser_*], by [reflexivity]);
      (ii)  for the leaf-level actions, gives the symbols their meaning ([sact_sem]) and proves that the
            model's leaf functions ([ser_int_leaf], [ser_str_leaf], [ser_bytes_leaf] and the inline leaves of
            [ser] for bool / f32 / f64 / unit struct / unit variant) are the interpretation of the rows on
            every non-union node, and that [ser] goes through [via_union] with the type key of the Union row.
    Not covered in this round (rows are [SUnclassified], or have no meaning in [sact_sem]): the Decimal arm of
    serialize_integer, the Union arm of serialize_unit_variant, the bodies behind serialize_seq / serialize_map
    (seq_or_tuple.rs, struct_or_map.rs), serialize_struct_or_struct_variant and
    serialize_lookup_union_variant_by_name (pinned as text in [tie_ser_forward]). *)
From Coq Require Import NArith ZArith List Bool String.
Require Import Base Kinds Schema Varint Utf8 Sval Ser Text.
Require Import DispatchKinds SerDispatchKinds GenSerDispatch.
Import ListNotations.
Open Scope N_scope.

Notation MRegular := DispatchKinds.DRegular.
Notation MBig := DispatchKinds.DBig.

(** * (i) the model's rows *)
Definition model_ser_bool (k : nkind) : option saction :=
  match k with NkBoolean => Some SWriteBoolByte | NkUnion => Some (SViaUnion KBoolean) | _ => None end.
Definition model_ser_integer (k : nkind) : option saction :=
  match k with
  | NkInt | NkDate | NkTimeMillis => Some (SWriteVarintTry Wi32)
  | NkLong | NkTimestampMillis | NkTimestampMicros | NkTimeMicros => Some (SWriteVarintTry Wi64)
  | NkDecimal => Some SUnclassified                 (* ser_int_decimal *)
  | NkEnum => Some SEnumDiscriminant
  | NkUnion => Some SViaUnionIntKey
  | _ => None
  end.
Definition model_ser_f32 (k : nkind) : option saction :=
  match k with
  | NkFloat => Some SWriteLeBytes
  | NkDouble => Some SReject                        (* explicit arm in the source: f32 is not widened *)
  | NkUnion => Some (SViaUnion KFloat4)
  | _ => None
  end.
Definition model_ser_f64 (k : nkind) : option saction :=
  match k with
  | NkDouble => Some SWriteLeBytes
  | NkFloat => Some SWriteLeBytesAsF32
  | NkDecimal => Some (SDecimalFromF64 MRegular)
  | NkBigDecimal => Some (SDecimalFromF64 MBig)
  | NkUnion => Some (SViaUnion KFloat8)
  | _ => None
  end.
Definition model_ser_str (k : nkind) : option saction :=
  match k with
  | NkString | NkBytes | NkUuid => Some SWriteLd
  | NkEnum => Some SEnumByName
  | NkFixed => Some SFixedExact
  | NkDecimal => Some (SDecimalParse MRegular)
  | NkBigDecimal => Some (SDecimalParse MBig)
  | NkUnion => Some (SViaUnion KStr)
  | _ => None
  end.
Definition model_ser_bytes (k : nkind) : option saction :=
  match k with
  | NkBytes => Some SWriteLd
  | NkString => Some SWriteLdUtf8Checked
  | NkFixed => Some SFixedExact
  | NkDuration => Some (SLenExact 12)
  | NkUnion => Some (SViaUnion KSliceU8)
  | _ => None
  end.
Definition model_ser_unit (k : nkind) : option saction :=
  match k with NkNull => Some SOk | NkUnion => Some (SViaUnionDone KNull) | _ => None end.
Definition model_ser_unit_struct (k : nkind) : option saction :=
  match k with
  | NkNull => Some SOk
  | NkString | NkBytes | NkEnum => Some (SAsStr 0)
  | NkUnion => Some (SViaUnion KUnitStruct)
  | _ => None
  end.
Definition model_ser_unit_variant (k : nkind) : option saction :=
  match k with
  | NkNull => Some (SIfParamIs 2 "Null" SOk)
  | NkString | NkBytes | NkEnum => Some (SAsStr 2)
  | NkUnion => Some SUnclassified                   (* unit_variant_null + via_union KUnitVariant *)
  | _ => None
  end.
Definition model_ser_seq (k : nkind) : option saction :=
  match k with
  | NkArray => Some SSeqArray
  | NkDuration => Some (SSeqDuration 3)
  | NkBytes => Some SSeqBytes
  | NkFixed => Some SSeqFixed
  | NkUnion => Some (SViaUnion KSeqOrTupleOrTupleStruct)
  | _ => None
  end.
Definition model_ser_map (k : nkind) : option saction :=
  match k with
  | NkRecord => Some SMapRecord
  | NkMap => Some SMapMap
  | NkDuration => Some (SMapDuration 3)
  | NkUnion => Some (SViaUnion KStructOrMap)
  | _ => None
  end.

(* which integer methods exist and that they all go to serialize_integer; tuple/tuple_struct -> serialize_seq(Some(len));
   none -> unit; some -> value.serialize(self); the four by-name entry points *)
Definition model_ser_forward_names : list string :=
  [ "serialize_char"; "serialize_i128"; "serialize_i16"; "serialize_i32"; "serialize_i64"; "serialize_i8";
    "serialize_lookup_union_variant_by_name"; "serialize_newtype_struct"; "serialize_newtype_variant";
    "serialize_none"; "serialize_some"; "serialize_struct"; "serialize_struct_or_struct_variant";
    "serialize_struct_variant"; "serialize_tuple"; "serialize_tuple_struct"; "serialize_tuple_variant";
    "serialize_u128"; "serialize_u16"; "serialize_u32"; "serialize_u64"; "serialize_u8";
    "serialize_union_unnamed" ]%string.
Definition model_ser_simple_forwards : list (string * string) :=
  [ ("serialize_i128", "self . serialize_integer ( __p0 )"); ("serialize_i16", "self . serialize_integer ( __p0 )");
    ("serialize_i32", "self . serialize_integer ( __p0 )"); ("serialize_i64", "self . serialize_integer ( __p0 )");
    ("serialize_i8", "self . serialize_integer ( __p0 )"); ("serialize_u128", "self . serialize_integer ( __p0 )");
    ("serialize_u16", "self . serialize_integer ( __p0 )"); ("serialize_u32", "self . serialize_integer ( __p0 )");
    ("serialize_u64", "self . serialize_integer ( __p0 )"); ("serialize_u8", "self . serialize_integer ( __p0 )");
    ("serialize_none", "self . serialize_unit ( )"); ("serialize_some", "__p0 . serialize ( self )");
    ("serialize_tuple", "self . serialize_seq ( Some ( __p0 ) )");
    ("serialize_tuple_struct", "self . serialize_seq ( Some ( __p1 ) )");
    ("serialize_struct", "self . serialize_struct_or_struct_variant ( __p0 , __p1 )");
    ("serialize_struct_variant", "self . serialize_struct_or_struct_variant ( __p2 , __p3 )");
    ("serialize_char", "self . serialize_str ( & * __p0 . encode_utf8 ( & mut [ 0u8 ; 4 ] ) )");
    ("serialize_newtype_struct", "self . serialize_lookup_union_variant_by_name ( __p0 , | __c0 | __p1 . serialize ( __c0 ) )");
    ("serialize_newtype_variant", "self . serialize_lookup_union_variant_by_name ( __p2 , | __c0 | __p3 . serialize ( __c0 ) )");
    ("serialize_tuple_variant", "self . serialize_lookup_union_variant_by_name ( __p2 , | __c0 | __c0 . serialize_seq ( Some ( __p3 ) ) )")
  ]%string.

(** * (iii) the regenerated tables are the model's rows *)
Theorem tie_ser_bool : gen_ser_bool = srows_of model_ser_bool SReject. Proof. reflexivity. Qed.
Theorem tie_ser_integer : gen_ser_integer = srows_of model_ser_integer SReject. Proof. reflexivity. Qed.
Theorem tie_ser_f32 : gen_ser_f32 = srows_of model_ser_f32 SReject. Proof. reflexivity. Qed.
Theorem tie_ser_f64 : gen_ser_f64 = srows_of model_ser_f64 SReject. Proof. reflexivity. Qed.
Theorem tie_ser_str : gen_ser_str = srows_of model_ser_str SReject. Proof. reflexivity. Qed.
Theorem tie_ser_bytes : gen_ser_bytes = srows_of model_ser_bytes SReject. Proof. reflexivity. Qed.
Theorem tie_ser_unit : gen_ser_unit = srows_of model_ser_unit SReject. Proof. reflexivity. Qed.
Theorem tie_ser_unit_struct : gen_ser_unit_struct = srows_of model_ser_unit_struct SReject. Proof. reflexivity. Qed.
Theorem tie_ser_unit_variant : gen_ser_unit_variant = srows_of model_ser_unit_variant SReject. Proof. reflexivity. Qed.
Theorem tie_ser_seq : gen_ser_seq = srows_of model_ser_seq SReject. Proof. reflexivity. Qed.
Theorem tie_ser_map : gen_ser_map = srows_of model_ser_map SReject. Proof. reflexivity. Qed.
(* the set of methods that are not a match, and the text of the short ones *)
Theorem tie_ser_forward_names : map fst gen_ser_forward = model_ser_forward_names.
Proof. reflexivity. Qed.
Definition str_pair_in (x : string * string) (l : list (string * string)) : bool :=
  existsb (fun y => String.eqb (fst x) (fst y) && String.eqb (snd x) (snd y)) l.
Theorem tie_ser_simple_forwards : forallb (fun x => str_pair_in x gen_ser_forward) model_ser_simple_forwards = true.
Proof. vm_compute. reflexivity. Qed.

(** * (ii) meaning of the leaf-level symbols *)
Section Sem.
Variable Sc : fschema.

(* the arguments of the call: the integer, the byte string (str / bytes / the single byte of a bool / the
   little-endian bytes of a float), the narrowed float, the &str parameters by position *)
Record sctx := mkSctx { c_z : Z; c_data : bytes; c_narrowed : N; c_pstr : N -> bytes }.

Fixpoint sact_sem (c : sctx) (wild : M unit) (n : fnode) (a : saction) {struct a} : option (M unit) :=
  match a with
  | SWriteBoolByte | SWriteLeBytes => Some (write (c_data c))
  | SWriteLeBytesAsF32 => Some (write (le_bytes 4 (c_narrowed c)))
  | SReject => Some (fail (Err EData))
  | SOk => Some (sret tt)
  | SWriteLd => Some (write_ld (c_data c))
  | SWriteLdUtf8Checked => Some (if utf8_valid (c_data c) then write_ld (c_data c) else fail (Err EData))
  | SAsStr p => Some (ser_str_leaf (c_pstr c p) n)
  | SWriteVarintTry Wi32 => Some (if Zin I32_MIN I32_MAX (c_z c) then write_varint (c_z c) else fail (Err EData))
  | SWriteVarintTry Wi64 => Some (if Zin I64_MIN I64_MAX (c_z c) then write_varint (c_z c) else fail (Err EData))
  | SFixedExact =>
      match n with
      | FFixed _ size => Some (if size =? N.of_nat (List.length (c_data c)) then write (c_data c) else fail (Err EData))
      | _ => None
      end
  | SLenExact k => Some (if Nat.eqb (List.length (c_data c)) (N.to_nat k) then write (c_data c) else fail (Err EData))
  | SDecimalParse m =>
      match m, n with
      | MRegular, FDecimal _ scale repr =>
          Some (match parse_decimal (c_data c) with
                | None => fail Unmodelled
                | Some (mm, sc) => ser_decimal (Ser.DRegular scale repr) mm sc
                end)
      | MBig, FBigDecimal =>
          Some (match parse_decimal (c_data c) with
                | None => fail Unmodelled
                | Some (mm, sc) => ser_decimal Ser.DBig mm sc
                end)
      | _, _ => None
      end
  | SDecimalFromF64 _ => Some (fail Unmodelled)        (* rust_decimal's from_f64 is outside the model *)
  | SEnumDiscriminant =>
      match n with
      | FEnum _ symbols =>
          Some (if negb (Zin I64_MIN I64_MAX (c_z c)) then fail (Err EData)
                else if (c_z c <? 0)%Z || (Z.of_nat (List.length symbols) <=? c_z c)%Z then fail (Err EData)
                else write_varint (c_z c))
      | _ => None
      end
  | SEnumByName =>
      match n with
      | FEnum _ symbols =>
          Some (match symbol_index symbols (c_data c) with
                | None => fail (Err EData)
                | Some i => write_varint (Z.of_nat i)
                end)
      | _ => None
      end
  | SIfParamIs p l a' => if bytes_eqb (c_pstr c p) (lit l) then sact_sem c wild n a' else Some wild
  | _ => None
  end.

Definition leaf_sem (tbl : list (dkind * saction)) (c : sctx) (n : fnode) : option (M unit) :=
  let wild := match sfind_wild tbl with
              | Some a => match sact_sem c (fail (Panic PUnreachable)) n a with Some m => m | None => fail (Panic PUnreachable) end
              | None => fail (Panic PUnreachable)
              end in
  sact_sem c wild n (sarm_of tbl (kind_of n)).

(* "the model's leaf is the interpretation of the row", wherever the row has a meaning *)
Definition agrees (m : M unit) (o : option (M unit)) : Prop :=
  match o with Some m' => m = m' | None => True end.
Definition not_union (n : fnode) : Prop := match n with FUnion _ => False | _ => True end.

Definition no_str : N -> bytes := fun _ => [].

Lemma ser_int_leaf_is_rows z n : not_union n ->
  agrees (ser_int_leaf z n) (leaf_sem (srows_of model_ser_integer SReject) (mkSctx z [] 0 no_str) n).
Proof. destruct n; intros H; try exact I; try reflexivity; destruct H. Qed.

Lemma ser_str_leaf_is_rows s n : not_union n ->
  agrees (ser_str_leaf s n) (leaf_sem (srows_of model_ser_str SReject) (mkSctx 0 s 0 no_str) n).
Proof. destruct n; intros H; try exact I; try reflexivity; destruct H. Qed.

Lemma ser_bytes_leaf_is_rows b n : not_union n ->
  agrees (ser_bytes_leaf b n) (leaf_sem (srows_of model_ser_bytes SReject) (mkSctx 0 b 0 no_str) n).
Proof. destruct n; intros H; try exact I; try reflexivity; destruct H. Qed.

(* the inline leaves of [ser] *)
Definition bool_leaf (b : bool) (n' : fnode) : M unit :=
  match n' with FBoolean => write [if b then 1 else 0] | _ => fail (Err EData) end.
Definition f32_leaf (bits : N) (n' : fnode) : M unit :=
  match n' with FFloat => write (le_bytes 4 bits) | _ => fail (Err EData) end.
Definition f64_leaf (bits narrowed : N) (n' : fnode) : M unit :=
  match n' with
  | FDouble => write (le_bytes 8 bits)
  | FFloat => write (le_bytes 4 narrowed)
  | FDecimal _ _ _ | FBigDecimal => fail Unmodelled
  | _ => fail (Err EData)
  end.
Definition unit_struct_leaf (nm : bytes) (n' : fnode) : M unit :=
  match n' with
  | FNull => sret tt
  | FString | FBytes | FEnum _ _ => ser_str_leaf nm n'
  | _ => fail (Err EData)
  end.
Definition unit_variant_leaf (variant : bytes) (n' : fnode) : M unit :=
  match n' with
  | FNull => if bytes_eqb variant NULLNAME then sret tt else fail (Err EData)
  | FString | FBytes | FEnum _ _ => ser_str_leaf variant n'
  | _ => fail (Err EData)
  end.

(* [ser] goes through the union with the type key of the table's Union row, then the leaf *)
Lemma ser_bool_via n b : ser Sc n (SBool b) = via_union Sc n KBoolean (bool_leaf b)
  /\ sarm_of gen_ser_bool NkUnion = SViaUnion KBoolean.
Proof. split; reflexivity. Qed.
Lemma ser_int_via n s w z : ser Sc n (SInt s w z) = via_union Sc n (int_key w) (ser_int_leaf z)
  /\ sarm_of gen_ser_integer NkUnion = SViaUnionIntKey.
Proof. split; reflexivity. Qed.
Lemma ser_f32_via n bits : ser Sc n (SF32 bits) = via_union Sc n KFloat4 (f32_leaf bits)
  /\ sarm_of gen_ser_f32 NkUnion = SViaUnion KFloat4.
Proof. split; reflexivity. Qed.
Lemma ser_f64_via n bits nar : ser Sc n (SF64 bits nar) = via_union Sc n KFloat8 (f64_leaf bits nar)
  /\ sarm_of gen_ser_f64 NkUnion = SViaUnion KFloat8.
Proof. split; reflexivity. Qed.
Lemma ser_str_via n s : ser Sc n (SStr s) = via_union Sc n KStr (ser_str_leaf s)
  /\ sarm_of gen_ser_str NkUnion = SViaUnion KStr.
Proof. split; reflexivity. Qed.
Lemma ser_bytes_via n b : ser Sc n (SBytes b) = via_union Sc n KSliceU8 (ser_bytes_leaf b)
  /\ sarm_of gen_ser_bytes NkUnion = SViaUnion KSliceU8.
Proof. split; reflexivity. Qed.
Lemma ser_unit_struct_via n nm : ser Sc n (SUnitStruct nm) = via_union Sc n KUnitStruct (unit_struct_leaf nm)
  /\ sarm_of gen_ser_unit_struct NkUnion = SViaUnion KUnitStruct.
Proof. split; reflexivity. Qed.
Lemma ser_unit_is_rows n :
  ser Sc n SUnit = match n with
                   | FNull => sret tt
                   | FUnion ks => do* _ <- unnamed_step Sc ks KNull; sret tt
                   | _ => fail (Err EData)
                   end
  /\ sarm_of gen_ser_unit NkNull = SOk /\ sarm_of gen_ser_unit NkUnion = SViaUnionDone KNull
  /\ sarm_of gen_ser_unit NkInt = SReject.
Proof. repeat split; reflexivity. Qed.

Lemma bool_leaf_is_rows b n : not_union n ->
  agrees (bool_leaf b n) (leaf_sem (srows_of model_ser_bool SReject) (mkSctx 0 [if b then 1 else 0] 0 no_str) n).
Proof. destruct n; intros H; try exact I; try reflexivity; destruct H. Qed.
Lemma f32_leaf_is_rows bits n : not_union n ->
  agrees (f32_leaf bits n) (leaf_sem (srows_of model_ser_f32 SReject) (mkSctx 0 (le_bytes 4 bits) 0 no_str) n).
Proof. destruct n; intros H; try exact I; try reflexivity; destruct H. Qed.
Lemma f64_leaf_is_rows bits nar n : not_union n ->
  agrees (f64_leaf bits nar n) (leaf_sem (srows_of model_ser_f64 SReject) (mkSctx 0 (le_bytes 8 bits) nar no_str) n).
Proof. destruct n; intros H; try exact I; try reflexivity; destruct H. Qed.
Lemma unit_struct_leaf_is_rows nm n : not_union n ->
  agrees (unit_struct_leaf nm n)
         (leaf_sem (srows_of model_ser_unit_struct SReject) (mkSctx 0 [] 0 (fun _ => nm)) n).
Proof. destruct n; intros H; try exact I; try reflexivity; destruct H. Qed.
Lemma unit_variant_leaf_is_rows variant n : not_union n ->
  agrees (unit_variant_leaf variant n)
         (leaf_sem (srows_of model_ser_unit_variant SReject) (mkSctx 0 [] 0 (fun _ => variant)) n).
Proof.
  destruct n; intros H; try exact I; try reflexivity; try (destruct H; fail).
  unfold leaf_sem, agrees; simpl. change (lit "Null") with NULLNAME.
  destruct (bytes_eqb variant NULLNAME); reflexivity.
Qed.

End Sem.
