(** C20, last clause -- "the node at index i realises the type t": an abstract relation [Rel] between
    type descriptions and node indices of a frozen schema that is CLOSED under the local shape the
    derive produces ([closed]); one-level views of such a pair ([tview]); the names of its nodes. *)
From Coq Require Import NArith ZArith List Lia Bool.
Require Import Base Kinds Schema Utf8 Sval Target Text De AvroValue Wf DS5.
Require Import Derive DeriveFitsDefs.
Import ListNotations.
Open Scope N_scope.

Definition prim_fnode (p : rprim) : fnode :=
  match prim_avro p with
  | ANull => FNull | ABoolean => FBoolean | AInt => FInt | ALong => FLong
  | AFloat => FFloat | ADouble => FDouble | AString => FString | ABytes => FBytes
  end.
Definition leaf_node (t : rtype) : fnode :=
  match t with TPrim p => prim_fnode p | TString => FString | TBytes => FBytes | _ => FNull end.

Lemma peel_not_ptr : forall t t', peel t <> TPtr t'.
Proof. induction t; intros t' H; cbn [peel] in H; try discriminate H. eapply IHt; exact H. Qed.

Lemma peel_idem : forall t, peel (peel t) = peel t.
Proof. induction t; cbn [peel]; try reflexivity. exact IHt. Qed.

Section Rel.
Variable ds : defs.
Variable Sc : fschema.
Variable Rel : rtype -> nat -> Prop.

Definition variant_at (v : variant) (c : nat) : Prop :=
  match v with VUnit => fnode_at Sc c = Some FNull | VNewtype _ s => Rel (sl_type s) c end.
Definition field_at (fd : field) (fk : bytes * nat) : Prop := fst fk = f_name fd /\ Rel (ftype fd) (snd fk).

Definition local_shape (t : rtype) (i : nat) : Prop :=
  match t with
  | TPrim _ | TString | TBytes => fnode_at Sc i = Some (leaf_node t)
  | TOption t' =>
      exists c0 c1, fnode_at Sc i = Some (FUnion [c0; c1]) /\ fnode_at Sc c0 = Some FNull /\ Rel t' c1
  | TVec t' => exists c, fnode_at Sc i = Some (FArray c) /\ Rel t' c
  | Derive.TMap t' => exists c, fnode_at Sc i = Some (FMap c) /\ Rel t' c
  | TPtr t' => Rel t' i
  | TNamed id _ =>
      match nth_error ds id with
      | Some (Derive.DStruct h fs) =>
          exists fields, fnode_at Sc i = Some (FRecord (name_of_fqn (Derive.type_name h)) fields) /\
                         Forall2 field_at fs fields
      | Some (Derive.DNewtype h s) => Rel (sl_type s) i
      | Some (DUnitEnum h syms) => fnode_at Sc i = Some (FEnum (name_of_fqn (Derive.type_name h)) (map fst syms))
      | Some (DUnionEnum h vs) => exists cs, fnode_at Sc i = Some (FUnion cs) /\ Forall2 variant_at vs cs
      | None => False
      end
  | _ => False
  end.

Definition closed : Prop := forall t i, Rel t i -> type_ok ds t = true /\ local_shape t i.

Hypothesis Hds : defs_ok ds = true.
Hypothesis Hcl : closed.

Lemma def_ok_at id d : nth_error ds id = Some d -> def_ok ds d = true.
Proof.
  intro H. unfold defs_ok in Hds. rewrite forallb_forall in Hds. apply Hds. eapply nth_error_In. exact H.
Qed.

Lemma Rel_peel : forall t i, Rel t i -> Rel (peel t) i.
Proof.
  induction t; intros j H; cbn [peel]; try exact H.
  apply IHt. destruct (Hcl _ _ H) as [_ Hs]. exact Hs.
Qed.

Lemma type_ok_peel : forall t, type_ok ds t = true -> type_ok ds (peel t) = true.
Proof. induction t; intro H; cbn [peel]; try exact H. apply IHt. exact H. Qed.

Lemma leaf_shape : forall t i, Rel t i -> leaf_type (peel t) = true -> fnode_at Sc i = Some (leaf_node (peel t)).
Proof.
  intros t i H Hl. apply Rel_peel in H. destruct (Hcl _ _ H) as [_ Hs].
  destruct (peel t); try discriminate Hl; exact Hs.
Qed.

(** one-level views *)
Inductive tview (t : rtype) (n : fnode) : Prop :=
  | TV_leaf : leaf_type (peel t) = true -> n = leaf_node (peel t) -> tview t n
  | TV_newtype id a h s :
      peel t = TNamed id a -> nth_error ds id = Some (Derive.DNewtype h s) ->
      leaf_type (peel (sl_type s)) = true -> n = leaf_node (peel (sl_type s)) -> tview t n
  | TV_option t' c0 c1 n1 :
      peel t = TOption t' -> n = FUnion [c0; c1] -> fnode_at Sc c0 = Some FNull ->
      Rel t' c1 -> fnode_at Sc c1 = Some n1 -> branch_ok ds t' = true -> tview t n
  | TV_vec t' c : peel t = TVec t' -> n = FArray c -> Rel t' c -> tview t n
  | TV_map t' c : peel t = Derive.TMap t' -> n = FMap c -> Rel t' c -> tview t n
  | TV_struct id a h fs fields :
      peel t = TNamed id a -> nth_error ds id = Some (Derive.DStruct h fs) ->
      n = FRecord (name_of_fqn (Derive.type_name h)) fields -> Forall2 field_at fs fields -> tview t n
  | TV_uenum id a h syms :
      peel t = TNamed id a -> nth_error ds id = Some (DUnitEnum h syms) ->
      n = FEnum (name_of_fqn (Derive.type_name h)) (map fst syms) -> tview t n
  | TV_union id a h vs cs :
      peel t = TNamed id a -> nth_error ds id = Some (DUnionEnum h vs) ->
      n = FUnion cs -> Forall2 variant_at vs cs -> tview t n.

Lemma newtype_leaf id h s : nth_error ds id = Some (Derive.DNewtype h s) -> leaf_type (peel (sl_type s)) = true.
Proof.
  intro H. apply def_ok_at in H. cbn [def_ok] in H.
  apply andb_prop in H. destruct H as [_ H]. exact H.
Qed.

Lemma Rel_node : forall t i, Rel t i -> exists n, fnode_at Sc i = Some n.
Proof.
  intros t i H. apply Rel_peel in H. destruct (Hcl _ _ H) as [_ Hs].
  destruct (peel t) eqn:Hp; cbn [local_shape] in Hs; try (eexists; exact Hs); try (exfalso; exact Hs).
  - destruct Hs as (c0 & c1 & Hs & _). eexists; exact Hs.
  - destruct Hs as (c & Hs & _). eexists; exact Hs.
  - destruct Hs as (c & Hs & _). eexists; exact Hs.
  - exfalso. eapply peel_not_ptr. exact Hp.
  - destruct (nth_error ds id) as [[h fs|h s|h syms|h vs]|] eqn:Hd; try (exfalso; exact Hs).
    + destruct Hs as (fields & Hs & _). eexists; exact Hs.
    + eexists. apply (leaf_shape _ _ Hs). eapply newtype_leaf. exact Hd.
    + eexists; exact Hs.
    + destruct Hs as (cs & Hs & _). eexists; exact Hs.
Qed.

Lemma tview_of : forall t i n, Rel t i -> fnode_at Sc i = Some n -> tview t n.
Proof.
  intros t i n H Hn. apply Rel_peel in H. destruct (Hcl _ _ H) as [Hok Hs].
  destruct (peel t) eqn:Hp; cbn [local_shape] in Hs; try (exfalso; exact Hs).
  - apply TV_leaf; rewrite Hp; [reflexivity|]. rewrite Hs in Hn. inversion Hn; reflexivity.
  - apply TV_leaf; rewrite Hp; [reflexivity|]. rewrite Hs in Hn. inversion Hn; reflexivity.
  - apply TV_leaf; rewrite Hp; [reflexivity|]. rewrite Hs in Hn. inversion Hn; reflexivity.
  - destruct Hs as (c0 & c1 & Hs & H0 & H1). rewrite Hs in Hn. inversion Hn; subst n.
    destruct (Rel_node _ _ H1) as [n1 Hn1]. cbn [type_ok] in Hok. apply andb_prop in Hok.
    eapply TV_option; try eassumption; [reflexivity|apply Hok].
  - destruct Hs as (c & Hs & H1). rewrite Hs in Hn. inversion Hn; subst n. eapply TV_vec; [exact Hp|reflexivity|exact H1].
  - destruct Hs as (c & Hs & H1). rewrite Hs in Hn. inversion Hn; subst n. eapply TV_map; [exact Hp|reflexivity|exact H1].
  - exfalso. eapply peel_not_ptr. exact Hp.
  - destruct (nth_error ds id) as [[h fs|h s|h syms|h vs]|] eqn:Hd; try (exfalso; exact Hs).
    + destruct Hs as (fields & Hs & HF). rewrite Hs in Hn. inversion Hn; subst n.
      eapply TV_struct; [exact Hp|exact Hd|reflexivity|exact HF].
    + pose proof (newtype_leaf _ _ _ Hd) as Hl.
      pose proof (leaf_shape _ _ Hs Hl) as Hs'. rewrite Hs' in Hn. inversion Hn; subst n.
      eapply TV_newtype; [exact Hp|exact Hd|exact Hl|reflexivity].
    + rewrite Hs in Hn. inversion Hn; subst n. eapply TV_uenum; [exact Hp|exact Hd|reflexivity].
    + destruct Hs as (cs & Hs & HF). rewrite Hs in Hn. inversion Hn; subst n.
      eapply TV_union; [exact Hp|exact Hd|reflexivity|exact HF].
Qed.

(** the name the deserializer reports for the node of a type *)
Lemma prim_tname_node p : De.type_name (prim_fnode p) = prim_tname p.
Proof. destruct p; reflexivity. Qed.

Lemma tname_sound : forall f t i n x,
  Rel t i -> fnode_at Sc i = Some n -> tname f ds t = Some x -> De.type_name n = x.
Proof.
  induction f as [|f IH]; intros t i n x H Hn Hx; [discriminate Hx|].
  destruct (Hcl _ _ H) as [_ Hs].
  destruct t; cbn [tname] in Hx; cbn [local_shape] in Hs; try discriminate Hx.
  - rewrite Hs in Hn. inversion Hn; subst n. inversion Hx; subst x. apply prim_tname_node.
  - rewrite Hs in Hn. inversion Hn; subst n. inversion Hx; reflexivity.
  - rewrite Hs in Hn. inversion Hn; subst n. inversion Hx; reflexivity.
  - destruct Hs as (c0 & c1 & Hs & _). rewrite Hs in Hn. inversion Hn; subst n. inversion Hx; reflexivity.
  - destruct Hs as (c & Hs & _). rewrite Hs in Hn. inversion Hn; subst n. inversion Hx; reflexivity.
  - destruct Hs as (c & Hs & _). rewrite Hs in Hn. inversion Hn; subst n. inversion Hx; reflexivity.
  - eapply IH; eassumption.
  - destruct (nth_error ds id) as [[h fs|h s|h syms|h vs]|] eqn:Hd; try discriminate Hx.
    + destruct Hs as (fields & Hs & _). rewrite Hs in Hn. inversion Hn; subst n. inversion Hx; reflexivity.
    + eapply IH; eassumption.
    + rewrite Hs in Hn. inversion Hn; subst n. inversion Hx; reflexivity.
    + destruct Hs as (cs & Hs & _). rewrite Hs in Hn. inversion Hn; subst n. inversion Hx; reflexivity.
Qed.

Lemma branch_node : forall t c n1,
  Rel t c -> fnode_at Sc c = Some n1 -> branch_ok ds t = true -> n1 <> FNull /\ is_union n1 = false.
Proof.
  intros t c n1 H Hn Hb. unfold branch_ok in Hb.
  destruct (tname TNFUEL ds t) as [nm|] eqn:Ht; [|discriminate Hb].
  pose proof (tname_sound _ _ _ _ _ H Hn Ht) as Hnm.
  apply andb_prop in Hb. destruct Hb as [Hb1 Hb2].
  apply negb_true_iff in Hb1. apply negb_true_iff in Hb2.
  split.
  - intros ->. cbn [De.type_name] in Hnm. subst nm. rewrite bytes_eqb_refl in Hb1. discriminate Hb1.
  - destruct n1; try reflexivity. cbn [De.type_name] in Hnm. subst nm. rewrite bytes_eqb_refl in Hb2. discriminate Hb2.
Qed.

Lemma leaf_node_plain lt : leaf_type lt = true ->
  match leaf_node lt with
  | FArray _ | FMap _ | FUnion _ | FRecord _ _ | FEnum _ _ | FDuration | FFixed _ _ | FDecimal _ _ _ => False
  | _ => True
  end.
Proof. destruct lt; intro H; try discriminate H; try exact I. destruct p; exact I. Qed.

End Rel.
