(** Proofs about the object-container-file writer model (model/Container.v) and the reference
    layout (spec/FileSpec.v):
    (A) a value whose serialization fails contributes no bytes and no count;
    (B) the state invariant "a pending block exists only with an empty count" and the
        "Previous block should always be flushed" assertion never firing;
    (C) the representation invariant of the sink and the byte / count accounting of a history;
    (D) the reference parser reads back the reference writer, and the sink of (C) is
        ref_write-shaped for the null codec. *)
From Coq Require Import NArith ZArith List Lia Bool Arith.
From Coq Require Import ZifyN ZifyBool ZifyNat.
Import ListNotations.
Require Import Base Schema Varint Sval Ser VectoredWrite Container Encoding FileSpec.
Require Import VarintProofs VectoredWriteProofs.

Ltac Zify.zify_post_hook ::= Z.to_euclidean_division_equations.

Arguments N.add : simpl never.
Arguments N.sub : simpl never.
Arguments N.mul : simpl never.
Arguments N.div : simpl never.
Arguments N.modulo : simpl never.
Arguments N.pow : simpl never.
Arguments N.shiftl : simpl never.
Arguments N.shiftr : simpl never.
Arguments N.land : simpl never.
Arguments N.lor : simpl never.
Arguments N.ltb : simpl never.
Arguments N.leb : simpl never.
Arguments N.eqb : simpl never.
Arguments N.of_nat : simpl never.
Arguments N.to_nat : simpl never.
Arguments Z.of_nat : simpl never.
Arguments Z.of_N : simpl never.
Arguments Z.to_N : simpl never.

Opaque ser.

(* FUEL_SINK is a unary number with 100000 constructors: keep it folded *)
Lemma FUEL_SINK_ge4 : exists k, FUEL_SINK = S (S (S (S k))).
Proof. exists (N.to_nat 99996). unfold FUEL_SINK. lia. Qed.
Opaque FUEL_SINK.

Local Open Scope N_scope.

(* ------------------------------------------------------------------------------------------ *)
(** * andthen *)

Lemma andthen_assoc : forall r f g,
  andthen (andthen r f) g = andthen r (fun s => andthen (f s) g).
Proof. intros [o st] f g; destruct o; reflexivity. Qed.

Lemma andthen_inv : forall r k o st',
  andthen r k = (o, st') ->
  (exists st1, r = (WROk, st1) /\ k st1 = (o, st')) \/ (r = (o, st') /\ o <> WROk).
Proof.
  intros [o0 st0] k o st' H; destruct o0; cbn [andthen] in H;
    try (right; split; [exact H | inversion H; discriminate]).
  left. exists st0. split; [reflexivity | exact H].
Qed.

Lemma andthen_ok : forall st k, andthen (WROk, st) k = k st.
Proof. reflexivity. Qed.

(* ------------------------------------------------------------------------------------------ *)
(** * The Vec<u8> sink delivers *)

Lemma next_ans_nil : next_ans [] = (Accept (2 ^ 64), []).
Proof. reflexivity. Qed.

(* liveness for the Vec<u8> sink: a block of at most 2^64 bytes is delivered (one sink call if the
   sink is vectored, at most three otherwise) *)
Lemma wav_loop_const_live : forall vectored k sched, next_ans sched = (Accept k, sched) ->
  forall fuel bufs sink,
  head_nonempty bufs -> N.of_nat (length (concat bufs)) <= k -> (length bufs < fuel)%nat ->
  wav_loop fuel vectored bufs sched sink = (WOk, sink ++ concat bufs, sched).
Proof.
  intros vectored k sched Hna.
  induction fuel as [|f IH]; intros bufs sink Hinv Hlen Hf; [lia|].
  destruct (nil_dec bufs) as [->|Hne].
  - rewrite wav_loop_nil. cbn [concat]. rewrite app_nil_r. reflexivity.
  - rewrite wav_loop_step by assumption. rewrite Hna. cbn [fst snd].
    pose proof (taken_pos vectored bufs k Hinv Hne) as Hpos.
    destruct (accept_step vectored bufs k) as (bufs' & Hadv & Hc).
    rewrite Hadv.
    destruct (Nat.eqb_spec (taken vectored bufs k) 0) as [E|_]; [lia|].
    assert (Hshort : (length bufs' < length bufs)%nat /\ N.of_nat (length (concat bufs')) <= k).
    { pose proof (advance_slices_length _ _ _ Hadv) as Hl. split; [|lia].
      destruct Hinv as [->|(b & t & -> & Hb)]; [congruence|].
      destruct (available_prefix vectored (b :: t)) as [rest Hr].
      assert (Htk : taken vectored (b :: t) k = length (available vectored (b :: t))).
      { unfold taken. apply (f_equal (@length _)) in Hr. rewrite app_length in Hr.
        unfold bytes in Hr, Hlen |- *. lia. }
      rewrite Htk in Hadv.
      assert (Hav : (length b <= length (available vectored (b :: t)))%nat).
      { unfold available. destruct vectored.
        - cbn [concat]. rewrite app_length. lia.
        - cbn [filter]. destruct (Nat.eqb_spec (length b) 0) as [E0|E0]; cbn [negb]; [|lia].
          apply length_zero_nil in E0. congruence. }
      clear - Hadv Hav. cbn [advance_slices] in Hadv.
      destruct (Nat.leb_spec (length b) (length (available vectored (b :: t)))); [|lia].
      revert Hadv. generalize (length (available vectored (b :: t)) - length b)%nat.
      clear. revert bufs'. induction t as [|c t IHt]; intros bufs' m Hadv; cbn [advance_slices] in Hadv.
      - destruct (Nat.eqb m 0); [|discriminate]. inversion Hadv. cbn [length]. lia.
      - destruct (Nat.leb (length c) m).
        + apply IHt in Hadv. cbn [length] in *. lia.
        + inversion Hadv. cbn [length]. lia. }
    destruct Hshort as [Hs1 Hs2].
    rewrite IH; [| eapply advance_slices_invariant; eassumption | assumption | lia].
    rewrite <- app_assoc, Hc. reflexivity.
Qed.

Lemma wav_loop_vec_live : forall vectored fuel bufs sink,
  head_nonempty bufs -> N.of_nat (length (concat bufs)) <= 2 ^ 64 -> (length bufs < fuel)%nat ->
  wav_loop fuel vectored bufs [] sink = (WOk, sink ++ concat bufs, []).
Proof. intro vectored. exact (wav_loop_const_live vectored _ _ next_ans_nil). Qed.

(* sinks that accept at least one byte at every call *)
Definition accepting (sched : list wans) : Prop := Forall (fun a => exists k, a = Accept k) sched.

Lemma accepting_next : forall sched, accepting sched ->
  (exists k, fst (next_ans sched) = Accept k) /\ accepting (snd (next_ans sched)).
Proof.
  intros sched H. destruct sched as [|a [|b t]]; cbn [next_ans fst snd].
  - split; [eexists; reflexivity | constructor].
  - split; [exact (Forall_inv H) | exact H].
  - split; [exact (Forall_inv H) | exact (Forall_inv_tail H)].
Qed.

Lemma accepting_drop : forall k sched, accepting sched -> accepting (sched_drop k sched).
Proof.
  induction k as [|k IH]; intros sched H; cbn [sched_drop]; [exact H|].
  apply IH. apply accepting_next. exact H.
Qed.

Lemma wav_loop_accepting : forall vectored fuel bufs sched sink r sink' sched',
  accepting sched -> head_nonempty bufs ->
  wav_loop fuel vectored bufs sched sink = (r, sink', sched') ->
  (r = WOk \/ r = WOutOfFuel) /\ accepting sched'.
Proof.
  intro vectored. induction fuel as [|f IH]; intros bufs sched sink r sink' sched' Hacc Hinv H.
  - cbn [wav_loop] in H. inversion H; subst. auto.
  - destruct (nil_dec bufs) as [->|Hne].
    + rewrite wav_loop_nil in H. inversion H; subst. auto.
    + rewrite wav_loop_step in H by assumption.
      destruct (accepting_next _ Hacc) as [[k Hk] Hacc']. rewrite Hk in H.
      pose proof (taken_pos vectored bufs k Hinv Hne) as Hpos.
      destruct (accept_step vectored bufs k) as (bufs' & Hadv & _).
      rewrite Hadv in H.
      destruct (Nat.eqb_spec (taken vectored bufs k) 0) as [E|_]; [lia|].
      eapply IH; [exact Hacc' | | exact H]. eapply advance_slices_invariant; eassumption.
Qed.

Section Writer.
Variable enc : bytes -> bytes.
Variable Sc : fschema.
Variable approx : N.
Variable sync : bytes.
Variable vectored : bool.

Notation flush := (flush_finished sync vectored).
Notation ifin := (inner_finish enc).
Notation fblock := (finish_block enc sync vectored).
Notation mfb := (maybe_finish_before enc approx sync vectored).
Notation mfa := (maybe_finish_after enc approx).
Notation step := (wstep enc Sc approx sync vectored).
Notation run := (wrun enc Sc approx sync vectored).

(* the part of Writer::serialize that follows the preparatory steps *)
Definition ser_tail (v : sval) (st2 : wstate) : wout * wstate :=
  match fnode_at Sc 0 with
  | None => (WRPanic PIndex, st2)
  | Some root =>
      let before := w_buf st2 in
      match ser Sc root v (mkS before None (w_bufs st2) (w_sbufs st2) false) with
      | (Ok _, s') =>
          let st3 := mkW (s_out s') (w_n st2 + 1) (w_pending st2) (w_sink st2) (w_sched st2)
                         (s_bufs s') (s_sbufs s') false in
          andthen (mfa st3) flush
      | (r, s') =>
          (match r with
           | Panic p => WRPanic p
           | Unmodelled | OutOfFuel => WRUnmodelled
           | _ => WRErr
           end,
           mkW before (w_n st2) (w_pending st2) (w_sink st2) (w_sched st2) (s_bufs s') (s_sbufs s') false)
      end
  end.

Definition push_tail (bs : bytes) (n : N) (st2 : wstate) : wout * wstate :=
  let st3 := w_with st2 (w_buf st2 ++ bs) (w_n st2) (w_pending st2) in
  if U64_LIMIT <=? w_n st2 + n then (WRErr, st3)
  else andthen (mfa (w_with st3 (w_buf st3) (w_n st2 + n) (w_pending st3))) flush.

Lemma wstep_gone : forall st op, w_gone st = true -> step st op = (WRGone, st).
Proof. intros st op H. unfold wstep. rewrite H. reflexivity. Qed.

Lemma wstep_serialize_eq : forall st v, w_gone st = false ->
  step st (WSerialize v) = andthen (andthen (flush st) mfb) (ser_tail v).
Proof.
  intros st v H. unfold wstep. rewrite H, andthen_assoc. reflexivity.
Qed.

Lemma wstep_push_eq : forall st bs n, w_gone st = false ->
  step st (WPush bs n) = andthen (andthen (flush st) mfb) (push_tail bs n).
Proof.
  intros st bs n H. unfold wstep. rewrite H, andthen_assoc. reflexivity.
Qed.

(* ------------------------------------------------------------------------------------------ *)
(** * (A) A failed value leaves nothing in the block *)

Theorem wstep_failed_value_leaves_block : forall st v root st2 r s',
  w_gone st = false ->
  andthen (flush st) mfb = (WROk, st2) ->
  fnode_at Sc 0 = Some root ->
  ser Sc root v (mkS (w_buf st2) None (w_bufs st2) (w_sbufs st2) false) = (r, s') ->
  r <> Ok tt ->
  exists o st', step st (WSerialize v) = (o, st') /\ o <> WROk
     /\ w_buf st' = w_buf st2 /\ w_n st' = w_n st2 /\ w_pending st' = w_pending st2
     /\ w_sink st' = w_sink st2.
Proof.
  intros st v root st2 r s' Hg Hprep Hroot Hser Hr.
  rewrite wstep_serialize_eq by assumption. rewrite Hprep, andthen_ok.
  unfold ser_tail. rewrite Hroot. cbv zeta. rewrite Hser.
  destruct r as [[]| e | p | |]; [congruence | | | |];
    (eexists; eexists; split; [reflexivity|]; cbn [w_buf w_n w_pending w_sink];
     repeat split; discriminate).
Qed.

(* ------------------------------------------------------------------------------------------ *)
(** * What one flush does *)

Lemma sched_drop_add : forall b a s, sched_drop a (sched_drop b s) = sched_drop (b + a) s.
Proof.
  induction b as [|b IH]; intros a s; cbn [sched_drop Nat.add]; [reflexivity | apply IH].
Qed.

Lemma sched_drop_nil : forall k, sched_drop k [] = [].
Proof. induction k as [|k IH]; cbn [sched_drop next_ans snd]; [reflexivity | exact IH]. Qed.

Lemma flush_spec : forall st o st', flush st = (o, st') ->
  (w_pending st = None /\ o = WROk /\ st' = st) \/
  (exists h b, w_pending st = Some (h, b) /\
     ((o = WROk /\ exists k,
         st' = mkW [] (w_n st) None (w_sink st ++ h ++ b ++ sync) (sched_drop k (w_sched st))
                   (w_bufs st) (w_sbufs st) (w_gone st))
      \/ ((o = WRErr \/ o = WRUnmodelled) /\ w_buf st' = w_buf st /\ w_n st' = w_n st /\
          w_pending st' = w_pending st /\ w_gone st' = w_gone st))).
Proof.
  intros st o st' H. unfold flush_finished in H.
  destruct (w_pending st) as [[h b]|] eqn:Ep.
  - right. exists h, b. split; [reflexivity|].
    pose proof (write_all_vectored_no_panic FUEL_SINK vectored [h; b; sync] (w_sched st) (w_sink st)) as Hnp.
    destruct (write_all_vectored FUEL_SINK vectored [h; b; sync] (w_sched st) (w_sink st))
      as [[r sink'] sched'] eqn:E.
    cbn [fst] in Hnp.
    destruct r; inversion H; subst o st'; clear H; cbn [w_buf w_n w_pending w_gone];
      try (right; split; [auto | repeat split; reflexivity]); try congruence.
    left. split; [reflexivity|].
    destruct (write_all_vectored_unfold FUEL_SINK vectored [h; b; sync] (w_sched st) (w_sink st))
      as (bufs & _ & _ & Hc & E').
    rewrite E' in E.
    pose proof (wav_ok_complete _ _ _ _ _ _ _ E) as Hs.
    destruct (wav_ok_only_benign _ _ _ _ _ _ _ E) as (k & _ & Hk & _).
    exists k. rewrite Hs, Hc, Hk. cbn [concat]. rewrite app_nil_r. reflexivity.
  - left. inversion H. auto.
Qed.

(* ------------------------------------------------------------------------------------------ *)
(** * (B) The pending-block invariant; the "previous block should always be flushed" assertion *)

(* a pending block exists only right after finish_block, before its flush *)
Definition winv (st : wstate) : Prop := w_pending st <> None -> w_n st = 0.

Notation BNF := (WRPanic PWriterBlockNotFlushed).

Lemma winv_quiet : forall st, w_pending st = None -> winv st.
Proof. intros st H C. congruence. Qed.

(* an operation that keeps the invariant, does not fire the assertion, and leaves no pending block
   when it succeeds *)
Definition wsafe (f : wstate -> wout * wstate) : Prop :=
  forall st o st', winv st -> f st = (o, st') ->
    winv st' /\ o <> BNF /\ (o = WROk -> w_pending st' = None).
Definition wsafe0 (f : wstate -> wout * wstate) : Prop :=
  forall st o st', winv st -> f st = (o, st') -> winv st' /\ o <> BNF.

Lemma flush_wsafe : wsafe flush.
Proof.
  intros st o st' Hinv H.
  destruct (flush_spec _ _ _ H) as [(Hp & -> & ->) | (h & b & Hp & [(-> & k & ->) | (Ho & Hb & Hn & Hp' & _)])].
  - split; [assumption|]. split; [discriminate | auto].
  - split; [apply winv_quiet; reflexivity|]. split; [discriminate | reflexivity].
  - split; [|split].
    + unfold winv. rewrite Hp', Hn. exact Hinv.
    + destruct Ho as [-> | ->]; discriminate.
    + intros ->. destruct Ho; discriminate.
Qed.

Lemma ifin_inv : forall st o st', winv st -> ifin st = (o, st') -> winv st' /\ o = WROk.
Proof.
  intros st o st' Hinv H. unfold inner_finish in H.
  destruct (0 <? w_n st) eqn:En.
  - destruct (w_pending st) as [p|] eqn:Ep.
    + exfalso. apply N.ltb_lt in En.
      assert (w_n st = 0) by (apply Hinv; rewrite Ep; discriminate). lia.
    + inversion H; subst. split; [|reflexivity].
      intros _. reflexivity.
  - inversion H; subst. auto.
Qed.

Lemma ifin_wsafe0 : wsafe0 ifin.
Proof.
  intros st o st' Hinv H. destruct (ifin_inv _ _ _ Hinv H) as [Hi ->].
  split; [assumption | discriminate].
Qed.

Lemma mfa_wsafe0 : wsafe0 mfa.
Proof.
  intros st o st' Hinv H. unfold maybe_finish_after in H.
  destruct (approx <=? N.of_nat (length (w_buf st))).
  - eapply ifin_wsafe0; eassumption.
  - inversion H; subst. split; [assumption | discriminate].
Qed.

Lemma then_flush_wsafe : forall f, wsafe0 f -> wsafe (fun st => andthen (f st) flush).
Proof.
  intros f Hf st o st' Hinv H.
  destruct (andthen_inv _ _ _ _ H) as [(st1 & E1 & E2) | (E1 & Ho)].
  - destruct (Hf _ _ _ Hinv E1) as [Hi1 _]. eapply flush_wsafe; eassumption.
  - destruct (Hf _ _ _ Hinv E1) as [Hi1 Hb]. split; [assumption|]. split; [assumption | contradiction].
Qed.

Lemma fblock_wsafe : wsafe fblock.
Proof. exact (then_flush_wsafe _ ifin_wsafe0). Qed.

Lemma mfa_flush_wsafe : wsafe (fun st => andthen (mfa st) flush).
Proof. exact (then_flush_wsafe _ mfa_wsafe0). Qed.

(* the preparatory steps of serialize / push_serialized *)
Lemma prep_wsafe : wsafe (fun st => andthen (flush st) mfb).
Proof.
  intros st o st' Hinv H.
  destruct (andthen_inv _ _ _ _ H) as [(st1 & E1 & E2) | (E1 & Ho)].
  - destruct (flush_wsafe _ _ _ Hinv E1) as (Hi1 & _ & Hq1). specialize (Hq1 eq_refl).
    unfold maybe_finish_before in E2.
    destruct (approx <=? N.of_nat (length (w_buf st1))).
    + eapply fblock_wsafe; eassumption.
    + inversion E2; subst. split; [assumption|]. split; [discriminate | auto].
  - destruct (flush_wsafe _ _ _ Hinv E1) as (Hi1 & Hb & _).
    split; [assumption|]. split; [assumption | contradiction].
Qed.

Lemma winv_set_gone : forall st g,
  winv st -> winv (mkW (w_buf st) (w_n st) (w_pending st) (w_sink st) (w_sched st) (w_bufs st) (w_sbufs st) g).
Proof. intros st g H. exact H. Qed.

(* the one place the assertion's panic site could still come from: the value serializer itself
   returning that site (it never does: Ser.v has no such site; see ser_never_block_panic) *)
Definition ser_block_panic (op : wop) : Prop :=
  exists v root st0 s', op = WSerialize v /\ fnode_at Sc 0 = Some root /\ s_budget st0 = None /\
    ser Sc root v st0 = (Panic PWriterBlockNotFlushed, s').

Lemma ser_tail_winv : forall v st2 o st',
  winv st2 -> w_pending st2 = None -> ser_tail v st2 = (o, st') ->
  winv st' /\ (o = BNF -> ser_block_panic (WSerialize v)).
Proof.
  intros v st2 o st' Hinv Hq H. unfold ser_tail in H.
  destruct (fnode_at Sc 0) as [root|] eqn:Eroot.
  2:{ inversion H; subst. split; [assumption | discriminate]. }
  cbv zeta in H.
  destruct (ser Sc root v (mkS (w_buf st2) None (w_bufs st2) (w_sbufs st2) false)) as [r s'] eqn:Eser.
  destruct r as [u | e | p | |].
  - match type of H with andthen (mfa ?st3) _ = _ =>
      destruct (mfa_flush_wsafe st3 o st') as (Hi & Hb & _); [apply winv_quiet; exact Hq | exact H |] end.
    split; [assumption | contradiction].
  - inversion H; subst. split; [apply winv_quiet; exact Hq | discriminate].
  - inversion H; subst. split; [apply winv_quiet; exact Hq|].
    intros Hp. inversion Hp; subst p.
    exists v, root, (mkS (w_buf st2) None (w_bufs st2) (w_sbufs st2) false), s'. auto.
  - inversion H; subst. split; [apply winv_quiet; exact Hq | discriminate].
  - inversion H; subst. split; [apply winv_quiet; exact Hq | discriminate].
Qed.

Lemma push_tail_winv : forall bs n st2 o st',
  winv st2 -> w_pending st2 = None -> push_tail bs n st2 = (o, st') -> winv st' /\ o <> BNF.
Proof.
  intros bs n st2 o st' Hinv Hq H. unfold push_tail in H. cbv zeta in H.
  destruct (U64_LIMIT <=? w_n st2 + n).
  - inversion H; subst. split; [apply winv_quiet; exact Hq | discriminate].
  - match type of H with andthen (mfa ?st3) _ = _ =>
      destruct (mfa_flush_wsafe st3 o st') as (Hi & Hb & _); [apply winv_quiet; exact Hq | exact H |] end.
    split; assumption.
Qed.

Theorem wstep_winv_gen : forall st op o st',
  winv st -> step st op = (o, st') -> winv st' /\ (o = BNF -> ser_block_panic op).
Proof.
  intros st op o st' Hinv H.
  destruct (w_gone st) eqn:Eg.
  { rewrite wstep_gone in H by assumption. inversion H; subst. split; [assumption | discriminate]. }
  destruct op as [v | bs n | | |].
  - rewrite wstep_serialize_eq in H by assumption.
    destruct (andthen_inv _ _ _ _ H) as [(st2 & E1 & E2) | (E1 & Ho)].
    + destruct (prep_wsafe _ _ _ Hinv E1) as (Hi & _ & Hq).
      eapply ser_tail_winv; [exact Hi | exact (Hq eq_refl) | exact E2].
    + destruct (prep_wsafe _ _ _ Hinv E1) as (Hi & Hb & _). split; [assumption | contradiction].
  - rewrite wstep_push_eq in H by assumption.
    destruct (andthen_inv _ _ _ _ H) as [(st2 & E1 & E2) | (E1 & Ho)].
    + destruct (prep_wsafe _ _ _ Hinv E1) as (Hi & _ & Hq).
      destruct (push_tail_winv _ _ _ _ _ Hi (Hq eq_refl) E2) as [Hi' Hb].
      split; [assumption | contradiction].
    + destruct (prep_wsafe _ _ _ Hinv E1) as (Hi & Hb & _). split; [assumption | contradiction].
  - unfold wstep in H. rewrite Eg in H.
    destruct (fblock_wsafe _ _ _ Hinv H) as (Hi & Hb & _). split; [assumption | contradiction].
  - unfold wstep in H. rewrite Eg in H.
    destruct (fblock st) as [r st1] eqn:E1.
    destruct (fblock_wsafe _ _ _ Hinv E1) as (Hi1 & Hb1 & _).
    destruct r;
      try (destruct (fblock st1) as [r2 st2] eqn:E2;
           destruct (fblock_wsafe _ _ _ Hi1 E2) as (Hi2 & _ & _));
      inversion H; subst o st'; (split; [apply winv_set_gone; assumption | try discriminate; try contradiction]).
  - unfold wstep in H. rewrite Eg in H.
    destruct (fblock st) as [r st1] eqn:E1.
    destruct (fblock_wsafe _ _ _ Hinv E1) as (Hi1 & Hb1 & _).
    inversion H; subst o st'. split; [apply winv_set_gone; assumption | contradiction].
Qed.

Theorem wstep_winv : forall st op, winv st -> winv (snd (step st op)).
Proof.
  intros st op Hinv. destruct (step st op) as [o st'] eqn:E.
  exact (proj1 (wstep_winv_gen _ _ _ _ Hinv E)).
Qed.

(* unconditional form: the assertion's panic site can only be reported if the value serializer
   itself returned it *)
Theorem wstep_block_panic_only_from_ser : forall st op,
  winv st -> fst (step st op) = BNF -> ser_block_panic op.
Proof.
  intros st op Hinv Ho. destruct (step st op) as [o st'] eqn:E. cbn [fst] in Ho.
  exact (proj2 (wstep_winv_gen _ _ _ _ Hinv E) Ho).
Qed.

Lemma wrun_winv_gen : forall ops st outs st',
  winv st -> run st ops = (outs, st') ->
  winv st' /\ (In BNF (map fst outs) -> exists op, In op ops /\ ser_block_panic op).
Proof.
  induction ops as [|op ops IH]; intros st outs st' Hinv H; cbn [wrun] in H.
  - inversion H; subst. split; [assumption | intros []].
  - destruct (step st op) as [o st1] eqn:E1.
    destruct (run st1 ops) as [rs st2] eqn:E2.
    inversion H; subst outs st'; clear H.
    destruct (wstep_winv_gen _ _ _ _ Hinv E1) as [Hi1 Hb1].
    destruct (IH _ _ _ Hi1 E2) as [Hi2 Hb2].
    split; [assumption|].
    cbn [map fst In]. intros [Ho | Hin].
    + exists op. split; [left; reflexivity | auto].
    + destruct (Hb2 Hin) as (op' & Hin' & Hs). exists op'. split; [right; assumption | assumption].
Qed.

Theorem wrun_winv : forall ops st, winv st -> winv (snd (run st ops)).
Proof.
  intros ops st Hinv. destruct (run st ops) as [outs st'] eqn:E.
  exact (proj1 (wrun_winv_gen _ _ _ _ Hinv E)).
Qed.

(* ------------------------------------------------------------------------------------------ *)
(** * (C) The sink holds the header and complete blocks; accounting of a history *)

(* one block as the writer lays it out: count, size, (compressed) data, sync marker *)
Definition blk_bytes (b : N * bytes) : bytes :=
  encode_long (Z.of_N (fst b)) ++ encode_long (Z.of_nat (length (enc (snd b)))) ++ enc (snd b) ++ sync.

(* the representation invariant at quiescent points: [blocks] = (count, uncompressed data) of the
   blocks flushed so far; hdr = what the sink held after wbuild *)
Definition wrep (hdr : bytes) (st : wstate) (blocks : list (N * bytes)) : Prop :=
  w_sink st = hdr ++ flat_map blk_bytes blocks /\
  Forall (fun b => 0 < fst b) blocks /\
  w_pending st = None.

Fixpoint sumN (l : list N) : N := match l with [] => 0 | x :: t => x + sumN t end.

(* everything the writer holds: flushed blocks then the current buffer / count *)
Definition data_of (st : wstate) (blocks : list (N * bytes)) : bytes :=
  concat (map snd blocks) ++ w_buf st.
Definition count_of (st : wstate) (blocks : list (N * bytes)) : N :=
  sumN (map fst blocks) + w_n st.

Lemma sumN_app : forall a b, sumN (a ++ b) = sumN a + sumN b.
Proof. induction a as [|x a IH]; intro b; cbn [app sumN]; [lia | rewrite IH; lia]. Qed.

(* a silent move: blocks may have been flushed, nothing was added *)
Definition moved (hdr : bytes) (st : wstate) (blocks : list (N * bytes))
                 (st' : wstate) (blocks' : list (N * bytes)) : Prop :=
  wrep hdr st' blocks' /\
  (exists k, w_sched st' = sched_drop k (w_sched st)) /\
  (exists more, blocks' = blocks ++ more) /\
  data_of st' blocks' = data_of st blocks /\
  count_of st' blocks' = count_of st blocks.

(* the outcome o is that of a flush that the sink did not complete, at some later point of the
   schedule sched0 *)
Definition flush_failed (sched0 : list wans) (o : wout) : Prop :=
  o <> WROk /\ exists st1 st1' k, w_sched st1 = sched_drop k sched0 /\ flush st1 = (o, st1').

Lemma flush_failed_drop : forall k s o, flush_failed (sched_drop k s) o -> flush_failed s o.
Proof.
  intros k s o (Ho & st1 & st1' & j & Hs & Hf). split; [assumption|].
  exists st1, st1', (k + j)%nat. rewrite Hs, sched_drop_add. auto.
Qed.

Lemma moved_refl : forall hdr st blocks, wrep hdr st blocks -> moved hdr st blocks st blocks.
Proof.
  intros hdr st blocks H. split; [assumption|].
  split; [exists 0%nat; reflexivity|]. split; [exists []; now rewrite app_nil_r|]. auto.
Qed.

Lemma moved_trans : forall hdr a ba b bb c bc,
  moved hdr a ba b bb -> moved hdr b bb c bc -> moved hdr a ba c bc.
Proof.
  intros hdr a ba b bb c bc (_ & (k1 & S1) & (m1 & M1) & D1 & C1) (R2 & (k2 & S2) & (m2 & M2) & D2 & C2).
  split; [assumption|]. split; [|split; [|split]].
  - exists (k1 + k2)%nat. rewrite S2, S1, sched_drop_add. reflexivity.
  - exists (m1 ++ m2). rewrite M2, M1, app_assoc. reflexivity.
  - congruence.
  - congruence.
Qed.

Lemma flush_quiet : forall st, w_pending st = None -> flush st = (WROk, st).
Proof. intros st H. unfold flush_finished. rewrite H. reflexivity. Qed.

(* Writer::finish_block from a quiescent state *)
Lemma fblock_rep : forall hdr st blocks o st',
  wrep hdr st blocks -> fblock st = (o, st') ->
  (o = WROk /\ exists blocks', moved hdr st blocks st' blocks' /\ w_n st' = 0 /\
      (w_buf st' = [] \/ (w_n st = 0 /\ w_buf st' = w_buf st)))
  \/ flush_failed (w_sched st) o.
Proof.
  intros hdr st blocks o st' Hrep H. pose proof Hrep as (Hsink & Hpos & Hq).
  unfold finish_block in H.
  destruct (andthen_inv _ _ _ _ H) as [(st1 & E1 & E2) | (E1 & Ho)].
  2:{ destruct (ifin_inv _ _ _ (winv_quiet _ Hq) E1) as [_ ->]. congruence. }
  unfold inner_finish in E1. rewrite Hq in E1.
  destruct (N.ltb_spec 0 (w_n st)) as [Hn|Hn].
  - inversion E1; subst st1; clear E1.
    destruct (flush_spec _ _ _ E2) as [(Hp & _) | (h & b & Hp & [(-> & k & ->) | (Ho & _)])].
    + cbn [w_with w_pending] in Hp. discriminate.
    + cbn [w_with w_pending] in Hp. inversion Hp; subst h b; clear Hp.
      left. split; [reflexivity|].
      exists (blocks ++ [(w_n st, w_buf st)]).
      cbn [w_with w_n w_sink w_sched w_bufs w_sbufs w_gone].
      split; [|split; [reflexivity | left; reflexivity]].
      split; [|split; [|split; [|split]]].
      * split; [|split; [|reflexivity]].
        -- cbn [w_sink]. rewrite Hsink, flat_map_app. cbn [flat_map]. unfold blk_bytes at 3.
           cbn [fst snd]. rewrite app_nil_r, <- !app_assoc. reflexivity.
        -- apply Forall_app. split; [assumption|]. constructor; [exact Hn | constructor].
      * exists k. reflexivity.
      * eexists. reflexivity.
      * unfold data_of. cbn [w_buf]. rewrite map_app, concat_app. cbn [map concat snd].
        rewrite !app_nil_r. reflexivity.
      * unfold count_of. cbn [w_n]. rewrite map_app, sumN_app. cbn [map sumN fst]. lia.
    + right. split; [destruct Ho as [-> | ->]; discriminate|].
      eexists; eexists; exists 0%nat. split; [|exact E2]. reflexivity.
  - inversion E1; subst st1; clear E1. rewrite flush_quiet in E2 by assumption.
    inversion E2; subst o st'. left. split; [reflexivity|].
    exists blocks. split; [apply moved_refl; assumption|]. split; [lia|]. right. split; [lia | reflexivity].
Qed.

Definition clean_or_failed (hdr : bytes) (st : wstate) (blocks : list (N * bytes))
                           (o : wout) (st' : wstate) : Prop :=
  (o = WROk /\ exists blocks', moved hdr st blocks st' blocks') \/ flush_failed (w_sched st) o.

Lemma fblock_cof : forall hdr st blocks o st',
  wrep hdr st blocks -> fblock st = (o, st') -> clean_or_failed hdr st blocks o st'.
Proof.
  intros hdr st blocks o st' Hrep H.
  destruct (fblock_rep _ _ _ _ _ Hrep H) as [(-> & b' & Hm & _) | Hf]; [left | right; assumption].
  split; [reflexivity|]. exists b'. assumption.
Qed.

(* the preparatory steps of serialize / push_serialized from a quiescent state *)
Lemma prep_cof : forall hdr st blocks o st',
  wrep hdr st blocks -> andthen (flush st) mfb = (o, st') -> clean_or_failed hdr st blocks o st'.
Proof.
  intros hdr st blocks o st' Hrep H. pose proof Hrep as (_ & _ & Hq).
  rewrite flush_quiet, andthen_ok in H by assumption.
  unfold maybe_finish_before in H.
  destruct (approx <=? N.of_nat (length (w_buf st))).
  - eapply fblock_cof; eassumption.
  - inversion H; subst. left. split; [reflexivity|]. exists blocks. apply moved_refl; assumption.
Qed.

(* the closing steps: the size check then the flush *)
Lemma mfa_flush_cof : forall hdr st blocks o st',
  wrep hdr st blocks -> andthen (mfa st) flush = (o, st') -> clean_or_failed hdr st blocks o st'.
Proof.
  intros hdr st blocks o st' Hrep H. pose proof Hrep as (_ & _ & Hq).
  unfold maybe_finish_after in H.
  destruct (approx <=? N.of_nat (length (w_buf st))).
  - change (andthen (ifin st) flush) with (fblock st) in H. eapply fblock_cof; eassumption.
  - rewrite andthen_ok, flush_quiet in H by assumption.
    inversion H; subst. left. split; [reflexivity|]. exists blocks. apply moved_refl; assumption.
Qed.

Lemma wrep_set_gone : forall hdr st blocks g,
  wrep hdr st blocks ->
  wrep hdr (mkW (w_buf st) (w_n st) (w_pending st) (w_sink st) (w_sched st) (w_bufs st) (w_sbufs st) g) blocks.
Proof. intros hdr st blocks g H. exact H. Qed.

Lemma moved_set_gone : forall hdr st blocks st' blocks' g,
  moved hdr st blocks st' blocks' ->
  moved hdr st blocks
    (mkW (w_buf st') (w_n st') (w_pending st') (w_sink st') (w_sched st') (w_bufs st') (w_sbufs st') g) blocks'.
Proof. intros hdr st blocks st' blocks' g H. exact H. Qed.

(** ** The representation invariant alone (no premise on the value serializer) *)

Definition requiet (hdr : bytes) (st : wstate) (blocks : list (N * bytes)) (st' : wstate) : Prop :=
  exists blocks', wrep hdr st' blocks' /\
    (exists more, blocks' = blocks ++ more) /\
    (exists k, w_sched st' = sched_drop k (w_sched st)).

Lemma requiet_of_moved : forall hdr st blocks st' b',
  moved hdr st blocks st' b' -> requiet hdr st blocks st'.
Proof. intros hdr st blocks st' b' (R & S & M & _). exists b'. auto. Qed.

(* a move, then any change of the buffer, the count and the pools, then a move *)
Lemma requiet_of_moves : forall hdr st blocks st2 b2 st3 st' b',
  moved hdr st blocks st2 b2 ->
  w_sink st3 = w_sink st2 -> w_sched st3 = w_sched st2 -> w_pending st3 = w_pending st2 ->
  (wrep hdr st3 b2 -> moved hdr st3 b2 st' b') ->
  requiet hdr st blocks st'.
Proof.
  intros hdr st blocks st2 b2 st3 st' b' (R & (k & S) & (m & M) & _) Es Esc Ep Hm.
  assert (R3 : wrep hdr st3 b2).
  { destruct R as (R1 & R2 & R3). split; [congruence|]. split; [assumption | congruence]. }
  destruct (Hm R3) as (R' & (k' & S') & (m' & M') & _).
  exists b'. split; [assumption|]. split.
  - exists (m ++ m'). rewrite M', M, app_assoc. reflexivity.
  - exists (k + k')%nat. rewrite S', Esc, S, sched_drop_add. reflexivity.
Qed.

(* one call from a quiescent state, whatever the sink does and whatever [ser] does: the sink holds
   the header and complete blocks again, or the outcome is that of a flush the sink did not complete *)
Theorem wstep_rep_sink : forall hdr st blocks op o st',
  wrep hdr st blocks -> step st op = (o, st') ->
  requiet hdr st blocks st' \/ flush_failed (w_sched st) o.
Proof.
  intros hdr st blocks op o st' Hrep H.
  destruct (w_gone st) eqn:Eg.
  { rewrite wstep_gone in H by assumption. inversion H; subst. left.
    eapply requiet_of_moved. apply moved_refl; assumption. }
  destruct op as [v | bs n | | |].
  - rewrite wstep_serialize_eq in H by assumption.
    destruct (andthen_inv _ _ _ _ H) as [(st2 & E1 & E2) | (E1 & Ho)].
    2:{ destruct (prep_cof _ _ _ _ _ Hrep E1) as [(-> & _) | Hf]; [congruence | right; assumption]. }
    destruct (prep_cof _ _ _ _ _ Hrep E1) as [(_ & b2 & Hm) | (Hf & _)]; [|congruence].
    pose proof Hm as (R2 & (k2 & S2) & _).
    unfold ser_tail in E2.
    destruct (fnode_at Sc 0) as [root|] eqn:Eroot.
    2:{ inversion E2; subst. left. eapply requiet_of_moved; eassumption. }
    cbv zeta in E2.
    destruct (ser Sc root v (mkS (w_buf st2) None (w_bufs st2) (w_sbufs st2) false)) as [r s'] eqn:Eser.
    destruct r as [u | e | p | |];
      try (inversion E2; subst o st'; left;
           match goal with |- requiet _ _ _ ?x =>
             eapply (requiet_of_moves hdr st blocks st2 b2 x x b2 Hm) end; try reflexivity;
           intros R; apply moved_refl; exact R).
    match type of E2 with andthen (mfa ?x) _ = _ => set (st3 := x) in * end.
    assert (R3 : wrep hdr st3 b2).
    { destruct R2 as (A1 & A2 & A3). split; [exact A1|]. split; [exact A2 | exact A3]. }
    destruct (mfa_flush_cof _ _ _ _ _ R3 E2) as [(-> & b' & Hm') | Hf].
    + left. eapply (requiet_of_moves hdr st blocks st2 b2 st3 st' b' Hm); try reflexivity.
      intros _; exact Hm'.
    + right. change (w_sched st3) with (w_sched st2) in Hf. rewrite S2 in Hf.
      eapply flush_failed_drop; eassumption.
  - rewrite wstep_push_eq in H by assumption.
    destruct (andthen_inv _ _ _ _ H) as [(st2 & E1 & E2) | (E1 & Ho)].
    2:{ destruct (prep_cof _ _ _ _ _ Hrep E1) as [(-> & _) | Hf]; [congruence | right; assumption]. }
    destruct (prep_cof _ _ _ _ _ Hrep E1) as [(_ & b2 & Hm) | (Hf & _)]; [|congruence].
    pose proof Hm as (R2 & (k2 & S2) & _).
    unfold push_tail in E2. cbv zeta in E2.
    destruct (U64_LIMIT <=? w_n st2 + n).
    + inversion E2; subst o st'. left.
      match goal with |- requiet _ _ _ ?x =>
        eapply (requiet_of_moves hdr st blocks st2 b2 x x b2 Hm) end; try reflexivity.
      intros R; apply moved_refl; exact R.
    + match type of E2 with andthen (mfa ?x) _ = _ => set (st3 := x) in * end.
      assert (R3 : wrep hdr st3 b2).
      { destruct R2 as (A1 & A2 & A3). split; [exact A1|]. split; [exact A2 | exact A3]. }
      destruct (mfa_flush_cof _ _ _ _ _ R3 E2) as [(-> & b' & Hm') | Hf].
      * left. eapply (requiet_of_moves hdr st blocks st2 b2 st3 st' b' Hm); try reflexivity.
        intros _; exact Hm'.
      * right. change (w_sched st3) with (w_sched st2) in Hf. rewrite S2 in Hf.
        eapply flush_failed_drop; eassumption.
  - unfold wstep in H. rewrite Eg in H.
    destruct (fblock_cof _ _ _ _ _ Hrep H) as [(-> & b' & Hm) | Hf]; [left | right; assumption].
    eapply requiet_of_moved; eassumption.
  - unfold wstep in H. rewrite Eg in H.
    destruct (fblock st) as [r st1] eqn:E1.
    destruct (fblock_cof _ _ _ _ _ Hrep E1) as [(-> & b' & Hm) | Hf].
    + inversion H; subst o st'. left.
      eapply requiet_of_moved. apply moved_set_gone; eassumption.
    + right. destruct Hf as [Hne Hf].
      destruct r; try congruence; destruct (fblock st1) as [r2 st2];
        inversion H; subst o st'; (split; [assumption | exact Hf]).
  - unfold wstep in H. rewrite Eg in H.
    destruct (fblock st) as [r st1] eqn:E1. inversion H; subst o st'.
    destruct (fblock_cof _ _ _ _ _ Hrep E1) as [(-> & b' & Hm) | Hf]; [left | right; assumption].
    eapply requiet_of_moved. apply moved_set_gone; eassumption.
Qed.

(* the invariant is preserved by every call that returns Ok (any sink, any schedule) ... *)
Theorem wstep_ok_preserves_wrep : forall hdr st blocks op st',
  wrep hdr st blocks -> step st op = (WROk, st') ->
  exists blocks', wrep hdr st' blocks' /\ exists more, blocks' = blocks ++ more.
Proof.
  intros hdr st blocks op st' Hrep H.
  destruct (wstep_rep_sink _ _ _ _ _ _ Hrep H) as [(b' & R & M & _) | (Hne & _)]; [|congruence].
  exists b'. auto.
Qed.

(** ** Tidy states: bytes in the buffer come with a positive count *)

Definition wtidy (st : wstate) : Prop := w_n st = 0 -> w_buf st = [].

Definition tidy_or_failed (st : wstate) (o : wout) (st' : wstate) : Prop :=
  (o = WROk /\ wtidy st') \/ flush_failed (w_sched st) o.

Lemma fblock_tidy : forall hdr st blocks o st',
  wrep hdr st blocks -> wtidy st -> fblock st = (o, st') -> tidy_or_failed st o st'.
Proof.
  intros hdr st blocks o st' Hrep Ht H.
  destruct (fblock_rep _ _ _ _ _ Hrep H) as [(-> & _ & _ & Hn & Hb) | Hf]; [left | right; assumption].
  split; [reflexivity|]. intros _. destruct Hb as [Hb | [Hn0 Hb]]; [assumption|].
  rewrite Hb. auto.
Qed.

Lemma prep_tidy : forall hdr st blocks o st',
  wrep hdr st blocks -> wtidy st -> andthen (flush st) mfb = (o, st') -> tidy_or_failed st o st'.
Proof.
  intros hdr st blocks o st' Hrep Ht H. pose proof Hrep as (_ & _ & Hq).
  rewrite flush_quiet, andthen_ok in H by assumption.
  unfold maybe_finish_before in H.
  destruct (approx <=? N.of_nat (length (w_buf st))).
  - eapply fblock_tidy; eassumption.
  - inversion H; subst. left. auto.
Qed.

Lemma mfa_flush_tidy : forall hdr st blocks o st',
  wrep hdr st blocks -> wtidy st -> andthen (mfa st) flush = (o, st') -> tidy_or_failed st o st'.
Proof.
  intros hdr st blocks o st' Hrep Ht H. pose proof Hrep as (_ & _ & Hq).
  unfold maybe_finish_after in H.
  destruct (approx <=? N.of_nat (length (w_buf st))).
  - change (andthen (ifin st) flush) with (fblock st) in H. eapply fblock_tidy; eassumption.
  - rewrite andthen_ok, flush_quiet in H by assumption. inversion H; subst. left. auto.
Qed.

(* tidiness is kept by every call except a push_serialized that does not add a positive count
   (n = 0, or the overflow error); a failed serialize keeps it *)
Theorem wstep_tidy : forall hdr st blocks op o st',
  wrep hdr st blocks -> wtidy st -> step st op = (o, st') ->
  (forall bs n, op = WPush bs n -> 0 < n /\ o <> WRErr) ->
  wtidy st' \/ flush_failed (w_sched st) o.
Proof.
  intros hdr st blocks op o st' Hrep Ht H Hop.
  destruct (w_gone st) eqn:Eg.
  { rewrite wstep_gone in H by assumption. inversion H; subst. auto. }
  destruct op as [v | bs n | | |].
  - rewrite wstep_serialize_eq in H by assumption.
    destruct (andthen_inv _ _ _ _ H) as [(st2 & E1 & E2) | (E1 & Ho)].
    2:{ destruct (prep_cof _ _ _ _ _ Hrep E1) as [(-> & _) | Hf]; [congruence | right; assumption]. }
    destruct (prep_cof _ _ _ _ _ Hrep E1) as [(_ & b2 & Hm) | (Hf & _)]; [|congruence].
    destruct (prep_tidy _ _ _ _ _ Hrep Ht E1) as [(_ & Ht2) | (Hf & _)]; [|congruence].
    pose proof Hm as (R2 & (k2 & S2) & _).
    unfold ser_tail in E2.
    destruct (fnode_at Sc 0) as [root|] eqn:Eroot.
    2:{ inversion E2; subst. auto. }
    cbv zeta in E2.
    destruct (ser Sc root v (mkS (w_buf st2) None (w_bufs st2) (w_sbufs st2) false)) as [r s'] eqn:Eser.
    destruct r as [u | e | p | |]; try (inversion E2; subst o st'; left; exact Ht2).
    match type of E2 with andthen (mfa ?x) _ = _ => set (st3 := x) in * end.
    assert (R3 : wrep hdr st3 b2).
    { destruct R2 as (A1 & A2 & A3). split; [exact A1|]. split; [exact A2 | exact A3]. }
    assert (Ht3 : wtidy st3) by (intros Hn; cbn [st3 w_n] in Hn; lia).
    destruct (mfa_flush_tidy _ _ _ _ _ R3 Ht3 E2) as [(_ & Ht') | Hf]; [left; assumption|].
    right. change (w_sched st3) with (w_sched st2) in Hf. rewrite S2 in Hf.
    eapply flush_failed_drop; eassumption.
  - destruct (Hop bs n eq_refl) as [Hn Ho].
    rewrite wstep_push_eq in H by assumption.
    destruct (andthen_inv _ _ _ _ H) as [(st2 & E1 & E2) | (E1 & Ho')].
    2:{ destruct (prep_cof _ _ _ _ _ Hrep E1) as [(-> & _) | Hf]; [congruence | right; assumption]. }
    destruct (prep_cof _ _ _ _ _ Hrep E1) as [(_ & b2 & Hm) | (Hf & _)]; [|congruence].
    pose proof Hm as (R2 & (k2 & S2) & _).
    unfold push_tail in E2. cbv zeta in E2.
    destruct (U64_LIMIT <=? w_n st2 + n).
    + inversion E2; subst o st'. congruence.
    + match type of E2 with andthen (mfa ?x) _ = _ => set (st3 := x) in * end.
      assert (R3 : wrep hdr st3 b2).
      { destruct R2 as (A1 & A2 & A3). split; [exact A1|]. split; [exact A2 | exact A3]. }
      assert (Ht3 : wtidy st3) by (intros Hn3; cbn [st3 w_with w_n] in Hn3; lia).
      destruct (mfa_flush_tidy _ _ _ _ _ R3 Ht3 E2) as [(_ & Ht') | Hf]; [left; assumption|].
      right. change (w_sched st3) with (w_sched st2) in Hf. rewrite S2 in Hf.
      eapply flush_failed_drop; eassumption.
  - unfold wstep in H. rewrite Eg in H.
    destruct (fblock_tidy _ _ _ _ _ Hrep Ht H) as [(_ & Ht') | Hf]; auto.
  - unfold wstep in H. rewrite Eg in H.
    destruct (fblock st) as [r st1] eqn:E1.
    destruct (fblock_tidy _ _ _ _ _ Hrep Ht E1) as [(-> & Ht') | Hf].
    + inversion H; subst o st'. left. exact Ht'.
    + right. destruct Hf as [Hne Hf].
      destruct r; try congruence; destruct (fblock st1) as [r2 st2];
        inversion H; subst o st'; (split; [assumption | exact Hf]).
  - unfold wstep in H. rewrite Eg in H.
    destruct (fblock st) as [r st1] eqn:E1. inversion H; subst o st'.
    destruct (fblock_tidy _ _ _ _ _ Hrep Ht E1) as [(_ & Ht') | Hf]; [left; exact Ht' | right; assumption].
Qed.

(** ** What one call contributes *)

(* the contract of the value serializer used here: writing to a Vec only appends. It is proved for
   the real [ser] elsewhere; here it is a premise of the accounting theorems. *)
Hypothesis ser_appends : forall root v st0 r s',
  ser Sc root v st0 = (Ok r, s') -> s_budget st0 = None -> exists w, s_out s' = s_out st0 ++ w.

(* contributes op o w c: a call [op] that returned [o] added the bytes [w] and the count [c] *)
Inductive contributes : wop -> wout -> bytes -> N -> Prop :=
  | ctr_ser_ok : forall v root st0 s' w,
      fnode_at Sc 0 = Some root -> s_budget st0 = None ->
      ser Sc root v st0 = (Ok tt, s') -> s_out s' = s_out st0 ++ w ->
      contributes (WSerialize v) WROk w 1
  | ctr_ser_fail : forall v o, o <> WROk -> contributes (WSerialize v) o [] 0
  | ctr_push_ok : forall bs n, contributes (WPush bs n) WROk bs n
  (* the count overflow of push_serialized: the bytes stay, the count is not added *)
  | ctr_push_overflow : forall bs n, contributes (WPush bs n) WRErr bs 0
  | ctr_push_gone : forall bs n, contributes (WPush bs n) WRGone [] 0
  | ctr_finish : forall o, contributes WFinish o [] 0
  | ctr_into_inner : forall o, contributes WIntoInner o [] 0
  | ctr_drop : forall o, contributes WDrop o [] 0.

Lemma contributes_gone : forall op, contributes op WRGone [] 0.
Proof. destruct op; constructor; discriminate. Qed.

Definition stepped (hdr : bytes) (st : wstate) (blocks : list (N * bytes)) (op : wop) (o : wout)
                   (st' : wstate) : Prop :=
  exists blocks' w c,
    wrep hdr st' blocks' /\
    (exists k, w_sched st' = sched_drop k (w_sched st)) /\
    (exists more, blocks' = blocks ++ more) /\
    contributes op o w c /\
    data_of st' blocks' = data_of st blocks ++ w /\
    count_of st' blocks' = count_of st blocks + c.

Lemma stepped_of_moved : forall hdr st blocks op o st' blocks',
  moved hdr st blocks st' blocks' -> contributes op o [] 0 -> stepped hdr st blocks op o st'.
Proof.
  intros hdr st blocks op o st' blocks' (R & S & M & D & C) Hc.
  exists blocks', [], 0. rewrite app_nil_r, N.add_0_r. auto 10.
Qed.

(* a move, then an addition of (w, c) to the buffer, then a move *)
Lemma stepped_of_moves : forall hdr st blocks op o st2 b2 st3 st' b' w c,
  moved hdr st blocks st2 b2 ->
  w_sink st3 = w_sink st2 -> w_sched st3 = w_sched st2 -> w_pending st3 = w_pending st2 ->
  w_buf st3 = w_buf st2 ++ w -> w_n st3 = w_n st2 + c ->
  (wrep hdr st3 b2 -> moved hdr st3 b2 st' b') ->
  contributes op o w c -> stepped hdr st blocks op o st'.
Proof.
  intros hdr st blocks op o st2 b2 st3 st' b' w c (R & (k & S) & M & D & C) Es Esc Ep Eb En Hm Hc.
  assert (R3 : wrep hdr st3 b2).
  { destruct R as (R1 & R2 & R3). split; [congruence|]. split; [assumption | congruence]. }
  destruct (Hm R3) as (R' & (k' & S') & (m' & M') & D' & C').
  destruct M as (m & M).
  exists b', w, c. split; [assumption|]. split; [|split; [|split; [assumption|split]]].
  - exists (k + k')%nat. rewrite S', Esc, S, sched_drop_add. reflexivity.
  - exists (m ++ m'). rewrite M', M, app_assoc. reflexivity.
  - rewrite D'. unfold data_of in *. rewrite Eb, app_assoc, D. reflexivity.
  - rewrite C'. unfold count_of in *. rewrite En, <- C. lia.
Qed.

(* one call from a quiescent state: either everything is accounted for and the state is quiescent
   again, or the outcome is that of a flush the sink did not complete *)
Theorem wstep_rep : forall hdr st blocks op o st',
  wrep hdr st blocks -> step st op = (o, st') ->
  stepped hdr st blocks op o st' \/ flush_failed (w_sched st) o.
Proof.
  intros hdr st blocks op o st' Hrep H.
  destruct (w_gone st) eqn:Eg.
  { rewrite wstep_gone in H by assumption. inversion H; subst. left.
    eapply stepped_of_moved; [apply moved_refl; assumption | apply contributes_gone]. }
  destruct op as [v | bs n | | |].
  - (* serialize *)
    rewrite wstep_serialize_eq in H by assumption.
    destruct (andthen_inv _ _ _ _ H) as [(st2 & E1 & E2) | (E1 & Ho)].
    2:{ destruct (prep_cof _ _ _ _ _ Hrep E1) as [(-> & _) | Hf]; [congruence | right; assumption]. }
    destruct (prep_cof _ _ _ _ _ Hrep E1) as [(_ & b2 & Hm) | (Hf & _)]; [|congruence].
    pose proof Hm as (R2 & (k2 & S2) & _).
    unfold ser_tail in E2.
    destruct (fnode_at Sc 0) as [root|] eqn:Eroot.
    2:{ inversion E2; subst. left. eapply stepped_of_moved; [eassumption | constructor; discriminate]. }
    cbv zeta in E2.
    destruct (ser Sc root v (mkS (w_buf st2) None (w_bufs st2) (w_sbufs st2) false)) as [r s'] eqn:Eser.
    assert (Hfail : forall o0 bufs sbufs,
              o0 <> WROk ->
              stepped hdr st blocks (WSerialize v) o0
                (mkW (w_buf st2) (w_n st2) (w_pending st2) (w_sink st2) (w_sched st2) bufs sbufs false)).
    { intros o0 bufs sbufs Ho0. eapply stepped_of_moved; [|constructor; exact Ho0].
      destruct Hm as (R & S & M & D & C). split; [exact R|]. auto. }
    destruct r as [[] | e | p | |];
      try (inversion E2; subst o st'; left; apply Hfail; discriminate).
    destruct (ser_appends _ _ _ _ _ Eser eq_refl) as [w Hw]. cbn [s_out] in Hw.
    match type of E2 with andthen (mfa ?x) _ = _ => set (st3 := x) in * end.
    assert (R3 : wrep hdr st3 b2).
    { destruct R2 as (A1 & A2 & A3). split; [exact A1|]. split; [exact A2 | exact A3]. }
    destruct (mfa_flush_cof _ _ _ _ _ R3 E2) as [(-> & b' & Hm') | Hf].
    + left. eapply (stepped_of_moves hdr st blocks (WSerialize v) WROk st2 b2 st3 st' b' w 1 Hm);
        try reflexivity; [exact Hw | intros _; exact Hm' |].
      eapply ctr_ser_ok; [exact Eroot | | exact Eser | exact Hw]. reflexivity.
    + right. change (w_sched st3) with (w_sched st2) in Hf. rewrite S2 in Hf.
      eapply flush_failed_drop; eassumption.
  - (* push_serialized *)
    rewrite wstep_push_eq in H by assumption.
    destruct (andthen_inv _ _ _ _ H) as [(st2 & E1 & E2) | (E1 & Ho)].
    2:{ destruct (prep_cof _ _ _ _ _ Hrep E1) as [(-> & _) | Hf]; [congruence | right; assumption]. }
    destruct (prep_cof _ _ _ _ _ Hrep E1) as [(_ & b2 & Hm) | (Hf & _)]; [|congruence].
    pose proof Hm as (R2 & (k2 & S2) & _).
    unfold push_tail in E2. cbv zeta in E2.
    destruct (U64_LIMIT <=? w_n st2 + n).
    + inversion E2; subst o st'. left.
      eapply (stepped_of_moves hdr st blocks (WPush bs n) WRErr st2 b2
                (w_with st2 (w_buf st2 ++ bs) (w_n st2) (w_pending st2))
                (w_with st2 (w_buf st2 ++ bs) (w_n st2) (w_pending st2)) b2 bs 0 Hm);
        try reflexivity; [cbn [w_with w_n]; lia | intros R; apply moved_refl; exact R | constructor].
    + match type of E2 with andthen (mfa ?x) _ = _ => set (st3 := x) in * end.
      assert (R3 : wrep hdr st3 b2).
      { destruct R2 as (A1 & A2 & A3). split; [exact A1|]. split; [exact A2 | exact A3]. }
      destruct (mfa_flush_cof _ _ _ _ _ R3 E2) as [(-> & b' & Hm') | Hf].
      * left. eapply (stepped_of_moves hdr st blocks (WPush bs n) WROk st2 b2 st3 st' b' bs n Hm);
          try reflexivity; [intros _; exact Hm' | constructor].
      * right. change (w_sched st3) with (w_sched st2) in Hf. rewrite S2 in Hf.
        eapply flush_failed_drop; eassumption.
  - (* finish_block *)
    unfold wstep in H. rewrite Eg in H.
    destruct (fblock_cof _ _ _ _ _ Hrep H) as [(-> & b' & Hm) | Hf]; [left | right; assumption].
    eapply stepped_of_moved; [eassumption | constructor].
  - (* into_inner *)
    unfold wstep in H. rewrite Eg in H.
    destruct (fblock st) as [r st1] eqn:E1.
    destruct (fblock_cof _ _ _ _ _ Hrep E1) as [(-> & b' & Hm) | Hf].
    + inversion H; subst o st'. left.
      eapply stepped_of_moved; [apply moved_set_gone; eassumption | constructor].
    + right. destruct Hf as [Hne Hf].
      destruct r; try congruence; destruct (fblock st1) as [r2 st2];
        inversion H; subst o st'; (split; [assumption | exact Hf]).
  - (* drop *)
    unfold wstep in H. rewrite Eg in H.
    destruct (fblock st) as [r st1] eqn:E1. inversion H; subst o st'.
    destruct (fblock_cof _ _ _ _ _ Hrep E1) as [(-> & b' & Hm) | Hf]; [left | right; assumption].
    eapply stepped_of_moved; [apply moved_set_gone; eassumption | constructor].
Qed.

(* every call that returns Ok, whatever the sink's schedule, re-establishes the invariant and is
   accounted for *)
Theorem wstep_ok_preserves_rep : forall hdr st blocks op st',
  wrep hdr st blocks -> step st op = (WROk, st') -> stepped hdr st blocks op WROk st'.
Proof.
  intros hdr st blocks op st' Hrep H.
  destruct (wstep_rep _ _ _ _ _ _ Hrep H) as [Hs | (Hne & _)]; [assumption | congruence].
Qed.

(* after finish_block / into_inner / drop returning Ok nothing counted is left in the buffer. Bytes
   that came with a count of zero (push_serialized(bytes, 0), or the overflow error of
   push_serialized) are not flushed: see finish_leaves_uncounted_bytes below. *)
Theorem wstep_finish_empties : forall hdr st blocks op st',
  wrep hdr st blocks -> (op = WFinish \/ op = WIntoInner \/ op = WDrop) ->
  step st op = (WROk, st') ->
  w_n st' = 0 /\ (w_buf st' = [] \/ (w_n st = 0 /\ w_buf st' = w_buf st)).
Proof.
  intros hdr st blocks op st' Hrep Hop H.
  destruct (w_gone st) eqn:Eg.
  { rewrite wstep_gone in H by assumption. discriminate. }
  unfold wstep in H. rewrite Eg in H.
  destruct Hop as [-> | [-> | ->]].
  - destruct (fblock_rep _ _ _ _ _ Hrep H) as [(_ & b' & _ & Hn & Hb) | (Hne & _)]; [auto | congruence].
  - destruct (fblock st) as [r st1] eqn:E1.
    destruct r; try (destruct (fblock st1); discriminate).
    inversion H; subst st'. cbn [w_n w_buf].
    destruct (fblock_rep _ _ _ _ _ Hrep E1) as [(_ & b' & _ & Hn & Hb) | (Hne & _)]; [auto | congruence].
  - destruct (fblock st) as [r st1] eqn:E1. inversion H; subst r st'. cbn [w_n w_buf].
    destruct (fblock_rep _ _ _ _ _ Hrep E1) as [(_ & b' & _ & Hn & Hb) | (Hne & _)]; [auto | congruence].
Qed.

Corollary wstep_finish_empties_tidy : forall hdr st blocks op st',
  wrep hdr st blocks -> wtidy st -> (op = WFinish \/ op = WIntoInner \/ op = WDrop) ->
  step st op = (WROk, st') -> w_n st' = 0 /\ w_buf st' = [].
Proof.
  intros hdr st blocks op st' Hrep Ht Hop H.
  destruct (wstep_finish_empties _ _ _ _ _ Hrep Hop H) as [Hn [Hb | [Hn0 Hb]]]; split; auto.
  rewrite Hb. auto.
Qed.

(** ** Sinks that accept at least one byte at every call (partial writes of any size; the Vec<u8>
       sink is the empty schedule): a flush can only succeed or exhaust the model's fuel *)

Lemma flush_accepting : forall st o st', accepting (w_sched st) -> flush st = (o, st') ->
  (o = WROk \/ o = WRUnmodelled) /\ accepting (w_sched st').
Proof.
  intros st o st' Hs H. unfold flush_finished in H.
  destruct (w_pending st) as [[h b]|].
  2:{ inversion H; subst. auto. }
  destruct (write_all_vectored_unfold FUEL_SINK vectored [h; b; sync] (w_sched st) (w_sink st))
    as (bufs & _ & Hinv & _ & E').
  rewrite E' in H.
  destruct (wav_loop FUEL_SINK vectored bufs (w_sched st) (w_sink st)) as [[r s] sc] eqn:E.
  destruct (wav_loop_accepting _ _ _ _ _ _ _ _ Hs Hinv E) as [[-> | ->] Ha]; inversion H; subst; cbn [w_sched]; auto.
Qed.

Lemma flush_failed_accepting : forall sched o, accepting sched -> flush_failed sched o -> o = WRUnmodelled.
Proof.
  intros sched o Ha (Hne & st1 & st1' & k & Hs & Hf).
  assert (Ha1 : accepting (w_sched st1)) by (rewrite Hs; apply accepting_drop; exact Ha).
  destruct (flush_accepting _ _ _ Ha1 Hf) as [[-> | ->] _]; [congruence | reflexivity].
Qed.

(** ** Histories *)

Inductive accounted : list wop -> list wout -> bytes -> N -> Prop :=
  | acc_nil : accounted [] [] [] 0
  | acc_cons : forall op o w c ops outs W C,
      contributes op o w c -> accounted ops outs W C ->
      accounted (op :: ops) (o :: outs) (w ++ W) (c + C).

Definition ran (hdr : bytes) (st : wstate) (blocks : list (N * bytes)) (ops : list wop)
               (outs : list (wout * N)) (st' : wstate) : Prop :=
  exists blocks' W C,
    wrep hdr st' blocks' /\
    (exists k, w_sched st' = sched_drop k (w_sched st)) /\
    (exists more, blocks' = blocks ++ more) /\
    accounted ops (map fst outs) W C /\
    concat (map snd blocks') ++ w_buf st' = (concat (map snd blocks) ++ w_buf st) ++ W /\
    sumN (map fst blocks') + w_n st' = sumN (map fst blocks) + w_n st + C.

Lemma wrun_rep_gen : forall ops hdr st blocks outs st',
  wrep hdr st blocks -> run st ops = (outs, st') ->
  Forall (fun r => ~ flush_failed (w_sched st) (fst r)) outs ->
  ran hdr st blocks ops outs st'.
Proof.
  induction ops as [|op ops IH]; intros hdr st blocks outs st' Hrep H HF; cbn [wrun] in H.
  - inversion H; subst. exists blocks, [], 0. split; [assumption|].
    split; [exists 0%nat; reflexivity|]. split; [exists []; now rewrite app_nil_r|].
    split; [constructor|]. rewrite app_nil_r, N.add_0_r. auto.
  - destruct (step st op) as [o st1] eqn:E1.
    destruct (run st1 ops) as [rs st2] eqn:E2.
    inversion H; subst outs st'; clear H.
    apply Forall_cons_iff in HF. destruct HF as [Ho HF]. cbn [fst] in Ho.
    destruct (wstep_rep _ _ _ _ _ _ Hrep E1) as [(b1 & w & c & R1 & (k1 & S1) & (m1 & M1) & Hc & D1 & C1) | Hf];
      [|contradiction].
    assert (HF' : Forall (fun r => ~ flush_failed (w_sched st1) (fst r)) rs).
    { eapply Forall_impl; [|exact HF]. intros a Ha Hx. apply Ha. rewrite S1 in Hx.
      eapply flush_failed_drop; eassumption. }
    destruct (IH _ _ _ _ _ R1 E2 HF') as (b2 & W & C & R2 & (k2 & S2) & (m2 & M2) & Hacc & D2 & C2).
    exists b2, (w ++ W), (c + C). split; [assumption|]. split; [|split; [|split; [|split]]].
    + exists (k1 + k2)%nat. rewrite S2, S1, sched_drop_add. reflexivity.
    + exists (m1 ++ m2). rewrite M2, M1, app_assoc. reflexivity.
    + cbn [map fst]. constructor; assumption.
    + rewrite D2. unfold data_of in D1. rewrite D1, <- !app_assoc. reflexivity.
    + rewrite C2. unfold count_of in C1. rewrite C1. lia.
Qed.

(* the accounting theorem for the sinks that always accept something, over every history that stays
   inside the modelled domain (WRUnmodelled: the serializer left the model, or a flush needed more
   than FUEL_SINK sink calls) *)
Theorem wrun_accounting : forall ops hdr st blocks outs st',
  wrep hdr st blocks -> accepting (w_sched st) -> run st ops = (outs, st') ->
  Forall (fun r => fst r <> WRUnmodelled) outs ->
  ran hdr st blocks ops outs st' /\ accepting (w_sched st').
Proof.
  intros ops hdr st blocks outs st' Hrep Hs H HF.
  assert (HR : ran hdr st blocks ops outs st').
  { eapply wrun_rep_gen; try eassumption.
    eapply Forall_impl; [|exact HF]. intros a Ha Hx. apply Ha.
    eapply flush_failed_accepting; eassumption. }
  split; [assumption|].
  destruct HR as (_ & _ & _ & _ & (k & Hk) & _). rewrite Hk. apply accepting_drop. exact Hs.
Qed.

(* the Vec<u8> sink *)
Corollary wrun_accounting_vec : forall ops hdr st blocks outs st',
  wrep hdr st blocks -> w_sched st = [] -> run st ops = (outs, st') ->
  Forall (fun r => fst r <> WRUnmodelled) outs ->
  ran hdr st blocks ops outs st' /\ w_sched st' = [].
Proof.
  intros ops hdr st blocks outs st' Hrep Hs H HF.
  destruct (wrun_accounting ops hdr st blocks outs st' Hrep) as [HR _]; try assumption.
  { rewrite Hs. constructor. }
  split; [assumption|].
  destruct HR as (_ & _ & _ & _ & (k & Hk) & _). rewrite Hk, Hs. apply sched_drop_nil.
Qed.

(* the same for any sink and any schedule, over the histories in which every call returned Ok *)
Theorem wrun_accounting_all_ok : forall ops hdr st blocks outs st',
  wrep hdr st blocks -> run st ops = (outs, st') ->
  Forall (fun r => fst r = WROk) outs ->
  ran hdr st blocks ops outs st'.
Proof.
  intros ops hdr st blocks outs st' Hrep H HF.
  eapply wrun_rep_gen; try eassumption.
  eapply Forall_impl; [|exact HF]. intros a Ha (Hne & _). congruence.
Qed.

(** ** (B), concluded: the assertion never fires *)

(* Ser.v has no occurrence of the writer's panic site; as [ser] is used as a black box here this is
   a premise (turned into a hypothesis of the two theorems below when the section closes). The
   unconditional statements are wstep_block_panic_only_from_ser and wrun_winv_gen above. *)
Hypothesis ser_no_block_panic : forall root v st0 s',
  ser Sc root v st0 <> (Panic PWriterBlockNotFlushed, s').

Theorem wstep_no_block_panic : forall st op,
  winv st -> fst (step st op) <> WRPanic PWriterBlockNotFlushed.
Proof.
  intros st op Hinv Ho.
  destruct (wstep_block_panic_only_from_ser _ _ Hinv Ho) as (v & root & st0 & s' & _ & _ & _ & E).
  exact (ser_no_block_panic _ _ _ _ E).
Qed.

Theorem wrun_no_block_panic : forall ops st,
  winv st -> ~ In (WRPanic PWriterBlockNotFlushed) (map fst (fst (run st ops))).
Proof.
  intros ops st Hinv Hin. destruct (run st ops) as [outs st'] eqn:E. cbn [fst] in Hin.
  destruct (proj2 (wrun_winv_gen _ _ _ _ Hinv E) Hin) as (op & _ & v & root & st0 & s' & _ & _ & _ & E').
  exact (ser_no_block_panic _ _ _ _ E').
Qed.

End Writer.

(* liveness of one flush for the Vec<u8> sink: a block of at most 2^64 bytes is delivered *)
Theorem flush_vec_live : forall (sync : bytes) (vectored : bool) (st : wstate) (h b : bytes),
  w_sched st = [] -> w_pending st = Some (h, b) ->
  N.of_nat (length h + length b + length sync) <= 2 ^ 64 ->
  flush_finished sync vectored st = (WROk, mkW [] (w_n st) None (w_sink st ++ h ++ b ++ sync) [] (w_bufs st) (w_sbufs st) (w_gone st)).
Proof.
  intros sync vectored st h b Hs Hp Hlen. unfold flush_finished. rewrite Hp, Hs.
  destruct (write_all_vectored_unfold FUEL_SINK vectored [h; b; sync] [] (w_sink st))
    as (bufs & Hadv & Hinv & Hc & E').
  rewrite E'.
  assert (Hc' : concat bufs = h ++ b ++ sync) by (rewrite Hc; cbn [concat]; now rewrite app_nil_r).
  assert (Hnb : (length bufs <= 3)%nat).
  { clear - Hadv. cbn [advance_slices] in Hadv.
    repeat match type of Hadv with
           | (if ?c then _ else _) = _ => destruct c
           | Some _ = Some _ => inversion Hadv; clear Hadv
           | None = Some _ => discriminate
           end; subst; cbn [length]; lia. }
  destruct FUEL_SINK_ge4 as [k ->].
  rewrite wav_loop_vec_live; [rewrite Hc'; reflexivity | assumption | | lia].
  rewrite Hc', !app_length. lia.
Qed.


(* ------------------------------------------------------------------------------------------ *)
(** * (D) The reference parser reads back the reference writer *)

Lemma spec_varint_fuel_S : forall f n,
  spec_varint_fuel (S f) n =
  if n <? 128 then [n] else (128 + n mod 128) :: spec_varint_fuel f (n / 128).
Proof. reflexivity. Qed.

Lemma enc_fuel_S : forall f n,
  enc_fuel (S f) n =
  if n <? 128 then [n] else (N.lor 128 (n mod 128)) :: enc_fuel f (N.shiftr n 7).
Proof. reflexivity. Qed.

Lemma spec_read_varint_S : forall f b rest shift acc,
  spec_read_varint (S f) (b :: rest) shift acc =
  if b <? 128 then Some (acc + (b mod 128) * 2 ^ shift, rest)
  else spec_read_varint f rest (shift + 7) (acc + (b mod 128) * 2 ^ shift).
Proof. reflexivity. Qed.

Lemma pow128_S : forall k, 128 ^ N.of_nat (S k) = 128 * 128 ^ N.of_nat k.
Proof. intro k. rewrite Nat2N.inj_succ, N.pow_succ_r'. reflexivity. Qed.

(* the spec's own decoder reads back the spec's own encoder: k bounds the number of groups *)
Lemma spec_varint_roundtrip : forall k n fe fr shift acc rest,
  (1 <= k)%nat -> n < 128 ^ N.of_nat k -> (k <= fe)%nat -> (k <= fr)%nat ->
  spec_read_varint fr (spec_varint_fuel fe n ++ rest) shift acc = Some (acc + n * 2 ^ shift, rest).
Proof.
  induction k as [|k IH]; intros n fe fr shift acc rest Hk Hn Hfe Hfr; [lia|].
  destruct fe as [|fe]; [lia|]. destruct fr as [|fr]; [lia|].
  rewrite spec_varint_fuel_S.
  destruct (N.ltb_spec n 128) as [Hs|Hb].
  - cbn [app]. rewrite spec_read_varint_S.
    destruct (N.ltb_spec n 128); [|lia]. rewrite N.mod_small by assumption. reflexivity.
  - rewrite pow128_S in Hn.
    assert (Hk' : (1 <= k)%nat).
    { destruct k; [|lia]. change (128 ^ N.of_nat 0) with 1 in Hn. lia. }
    cbn [app]. rewrite spec_read_varint_S.
    destruct (N.ltb_spec (128 + n mod 128) 128) as [Hc|_]; [lia|].
    rewrite (IH (n / 128) fe fr) by (try lia; apply N.div_lt_upper_bound; lia).
    f_equal. f_equal.
    rewrite N.pow_add_r. change (2 ^ 7) with 128.
    assert (E : (128 + n mod 128) mod 128 = n mod 128).
    { pose proof (N.mod_lt n 128). lia. }
    rewrite E.
    pose proof (N.div_mod' n 128) as Hdm.
    remember (n / 128) as q eqn:Eq. remember (n mod 128) as r eqn:Er.
    remember (2 ^ shift) as X eqn:EX.
    rewrite Hdm. ring.
Qed.

Theorem spec_read_long_spec_long : forall z rest, (I64_MIN <= z <= I64_MAX)%Z ->
  spec_read_long (spec_long z ++ rest) = Some (z, rest).
Proof.
  intros z rest Hz. unfold spec_read_long, spec_long.
  pose proof (zigzag_range z Hz) as Hr. change (zigzag z) with (spec_zigzag z) in Hr.
  rewrite (spec_varint_roundtrip 10 (spec_zigzag z) 10 10 0 0 rest); try lia.
  change (2 ^ 0) with 1. rewrite N.add_0_l, N.mul_1_r.
  destruct (N.leb_spec (2 ^ 64) (spec_zigzag z)) as [Hc|_]; [lia|].
  pose proof (unzigzag_zigzag z) as Hu. unfold unzigzag in Hu.
  change (zigzag z) with (spec_zigzag z) in Hu. rewrite Hu. reflexivity.
Qed.

(* the spec's encoder and the crate's encoder agree on every i64 *)
Lemma spec_enc_fuel : forall f n, n < 128 * 128 ^ N.of_nat f ->
  spec_varint_fuel (S f) n = enc_fuel f n.
Proof.
  induction f as [|f IH]; intros n Hn.
  - change (128 ^ N.of_nat 0) with 1 in Hn.
    rewrite spec_varint_fuel_S. cbn [enc_fuel].
    destruct (N.ltb_spec n 128); [|lia]. rewrite N.mod_small by lia. reflexivity.
  - rewrite pow128_S in Hn. rewrite spec_varint_fuel_S, enc_fuel_S.
    destruct (N.ltb_spec n 128); [reflexivity|].
    rewrite cont_byte, shiftr7. f_equal. apply IH.
    apply N.div_lt_upper_bound; lia.
Qed.

Theorem spec_long_encode_long : forall z, (I64_MIN <= z <= I64_MAX)%Z ->
  spec_long z = encode_long z.
Proof.
  intros z Hz. unfold spec_long, encode_long, encode_i64, encode_u64.
  change (spec_zigzag z) with (zigzag z).
  apply spec_enc_fuel.
  pose proof (zigzag_range z Hz) as Hr.
  change (128 * 128 ^ N.of_nat 9) with 1180591620717411303424.
  change (2 ^ 64) with 18446744073709551616 in Hr. lia.
Qed.

Lemma spec_long_nonempty : forall z, (1 <= length (spec_long z))%nat.
Proof.
  intro z. unfold spec_long. rewrite spec_varint_fuel_S.
  destruct (spec_zigzag z <? 128); cbn [length]; lia.
Qed.

(* lengths that fit the long that announces them *)
Definition len_ok (bs : bytes) : Prop := (Z.of_nat (length bs) <= I64_MAX)%Z.

Lemma take_n_app : forall a rest, take_n (N.of_nat (length a)) (a ++ rest) = Some (a, rest).
Proof.
  intros a rest. unfold take_n.
  destruct (N.ltb_spec (N.of_nat (length (a ++ rest))) (N.of_nat (length a))) as [Hc|_].
  { rewrite app_length in Hc. lia. }
  rewrite Nat2N.id.
  rewrite firstn_app, Nat.sub_diag, firstn_all, firstn_O, app_nil_r.
  rewrite skipn_app, Nat.sub_diag, skipn_all, skipn_O. reflexivity.
Qed.

Lemma read_ld_wr_ld : forall bs rest, len_ok bs -> read_ld (wr_ld bs ++ rest) = Some (bs, rest).
Proof.
  intros bs rest Hl. unfold read_ld, wr_ld, len_ok, I64_MAX in *. rewrite <- app_assoc.
  rewrite spec_read_long_spec_long by (unfold I64_MIN, I64_MAX; lia).
  destruct (Z.ltb_spec (Z.of_nat (length bs)) 0) as [Hc|_]; [lia|].
  replace (Z.to_N (Z.of_nat (length bs))) with (N.of_nat (length bs)) by lia.
  apply take_n_app.
Qed.

Definition entry_ok (kv : bytes * bytes) : Prop := len_ok (fst kv) /\ len_ok (snd kv).

Lemma read_entries_wr : forall es acc rest, Forall entry_ok es ->
  read_entries (length es) (flat_map wr_entry es ++ rest) acc = Some (acc ++ es, rest).
Proof.
  induction es as [|[k v] es IH]; intros acc rest HF.
  - cbn [length flat_map app read_entries]. rewrite app_nil_r. reflexivity.
  - apply Forall_cons_iff in HF. destruct HF as [[Hk Hv] HF]. cbn [fst snd] in Hk, Hv.
    cbn [length flat_map read_entries]. unfold wr_entry at 1. cbn [fst snd].
    rewrite <- !app_assoc.
    rewrite read_ld_wr_ld by assumption. rewrite read_ld_wr_ld by assumption.
    rewrite IH by assumption. rewrite <- app_assoc. reflexivity.
Qed.

Lemma read_meta_S : forall f bs acc,
  read_meta (S f) bs acc =
  match spec_read_long bs with
  | Some (cnt, rest) =>
      if (cnt =? 0)%Z then Some (acc, rest)
      else if (Z.abs cnt <? 100000)%Z then
        let rest' := if (cnt <? 0)%Z
                     then match spec_read_long rest with Some (_, r) => Some r | None => None end
                     else Some rest in
        match rest' with
        | Some r =>
            match read_entries (Z.to_nat (Z.abs cnt)) r acc with
            | Some (acc', r') => read_meta f r' acc'
            | None => None
            end
        | None => None
        end
      else None
  | None => None
  end.
Proof. reflexivity. Qed.

Definition meta_block_ok (blk : bool * list (bytes * bytes)) : Prop :=
  snd blk <> [] /\ N.of_nat (length (snd blk)) < 100000 /\
  len_ok (flat_map wr_entry (snd blk)) /\ Forall entry_ok (snd blk).

Lemma read_meta_wr : forall layout fuel acc rest,
  (length layout < fuel)%nat -> Forall meta_block_ok layout ->
  read_meta fuel (flat_map wr_meta_block layout ++ spec_long 0 ++ rest) acc
  = Some (acc ++ flat_map snd layout, rest).
Proof.
  induction layout as [|[neg es] layout IH]; intros fuel acc rest Hf HF;
    (destruct fuel as [|fuel]; [cbn [length] in Hf; lia|]); rewrite read_meta_S.
  - cbn [flat_map app].
    rewrite spec_read_long_spec_long by (unfold I64_MIN, I64_MAX; lia).
    cbn [Z.eqb]. rewrite app_nil_r. reflexivity.
  - apply Forall_cons_iff in HF. destruct HF as [(Hne & Hlt & Hit & Hes) HF].
    cbn [fst snd] in Hne, Hlt, Hit, Hes. cbn [length] in Hf.
    assert (Hpos : (1 <= length es)%nat) by (destruct es; [congruence | cbn [length]; lia]).
    cbn [flat_map]. unfold wr_meta_block at 1. cbn [fst snd].
    set (cnt := Z.of_nat (length es)).
    assert (Hcnt : (1 <= cnt < 100000)%Z) by (unfold cnt; lia).
    unfold len_ok, I64_MAX in Hit.
    destruct neg.
    + rewrite <- !app_assoc.
      rewrite spec_read_long_spec_long by (unfold I64_MIN, I64_MAX; lia).
      destruct (Z.eqb_spec (- cnt) 0) as [Hc|_]; [lia|].
      destruct (Z.ltb_spec (Z.abs (- cnt)) 100000) as [_|Hc]; [|lia].
      destruct (Z.ltb_spec (- cnt) 0) as [_|Hc]; [|lia].
      rewrite spec_read_long_spec_long by (unfold I64_MIN, I64_MAX; lia).
      cbv zeta.
      replace (Z.to_nat (Z.abs (- cnt))) with (length es) by (unfold cnt; lia).
      rewrite read_entries_wr by assumption.
      rewrite IH by (try assumption; lia).
      cbn [flat_map snd]. rewrite <- app_assoc. reflexivity.
    + rewrite <- !app_assoc.
      rewrite spec_read_long_spec_long by (unfold I64_MIN, I64_MAX; lia).
      destruct (Z.eqb_spec cnt 0) as [Hc|_]; [lia|].
      destruct (Z.ltb_spec (Z.abs cnt) 100000) as [_|Hc]; [|lia].
      destruct (Z.ltb_spec cnt 0) as [Hc|_]; [lia|].
      cbv zeta.
      replace (Z.to_nat (Z.abs cnt)) with (length es) by (unfold cnt; lia).
      rewrite read_entries_wr by assumption.
      rewrite IH by (try assumption; lia).
      cbn [flat_map snd]. rewrite <- app_assoc. reflexivity.
Qed.

Lemma bytes_eqb_refl : forall a, bytes_eqb a a = true.
Proof.
  intro a. unfold bytes_eqb. rewrite Nat.eqb_refl. cbn [andb].
  induction a as [|x a IH]; cbn [combine forallb fst snd]; [reflexivity|].
  rewrite N.eqb_refl. exact IH.
Qed.

Lemma read_blocks_S : forall f sync bs acc, bs <> [] ->
  read_blocks (S f) sync bs acc =
  match spec_read_long bs with
  | Some (cnt, r1) =>
      match spec_read_long r1 with
      | Some (size, r2) =>
          if (size <? 0)%Z || (cnt <? 0)%Z then None else
          match take_n (Z.to_N size) r2 with
          | Some (data, r3) =>
              match take_n 16 r3 with
              | Some (sy, r4) =>
                  if bytes_eqb sy sync then read_blocks f sync r4 (acc ++ [mkBlock cnt data]) else None
              | None => None
              end
          | None => None
          end
      | None => None
      end
  | None => None
  end.
Proof. intros f sync bs acc H. destruct bs; [congruence | reflexivity]. Qed.

Definition block_ok (b : rblock) : Prop := (0 <= rb_count b <= I64_MAX)%Z /\ len_ok (rb_data b).

Lemma read_blocks_wr : forall sync blocks fuel acc,
  length sync = 16%nat -> (length blocks < fuel)%nat -> Forall block_ok blocks ->
  read_blocks fuel sync (flat_map (wr_block sync) blocks) acc = Some (acc ++ blocks).
Proof.
  intros sync blocks. induction blocks as [|[c d] blocks IH]; intros fuel acc Hs Hf HF;
    (destruct fuel as [|fuel]; [cbn [length] in Hf; lia|]).
  - cbn [flat_map read_blocks]. rewrite app_nil_r. reflexivity.
  - apply Forall_cons_iff in HF. destruct HF as [[Hc Hd] HF]. cbn [rb_count rb_data] in Hc, Hd.
    cbn [length] in Hf. unfold len_ok, I64_MAX in *.
    cbn [flat_map]. unfold wr_block at 1. cbn [rb_count rb_data].
    rewrite read_blocks_S.
    2:{ intro E. apply (f_equal (@length _)) in E. rewrite !app_length in E.
        pose proof (spec_long_nonempty c). cbn [length] in E. unfold bytes in *. lia. }
    rewrite <- !app_assoc.
    rewrite spec_read_long_spec_long by (unfold I64_MIN, I64_MAX; lia).
    rewrite spec_read_long_spec_long by (unfold I64_MIN, I64_MAX; lia).
    destruct (Z.ltb_spec (Z.of_nat (length d)) 0) as [Hx|_]; [lia|].
    destruct (Z.ltb_spec c 0) as [Hx|_]; [lia|]. cbn [orb].
    replace (Z.to_N (Z.of_nat (length d))) with (N.of_nat (length d)) by lia.
    rewrite take_n_app.
    replace 16 with (N.of_nat (length sync)) by (rewrite Hs; reflexivity).
    rewrite take_n_app. rewrite bytes_eqb_refl.
    rewrite IH by (try assumption; lia). rewrite <- app_assoc. reflexivity.
Qed.

Lemma flat_map_length_ge : forall {A} (f : A -> bytes) (l : list A),
  (forall x, (1 <= length (f x))%nat) -> (length l <= length (flat_map f l))%nat.
Proof.
  intros A f l Hf. induction l as [|x l IH]; cbn [flat_map length]; [lia|].
  rewrite app_length. specialize (Hf x). lia.
Qed.

Lemma wr_meta_block_nonempty : forall blk, (1 <= length (wr_meta_block blk))%nat.
Proof.
  intros [neg es]. unfold wr_meta_block. cbn [fst snd].
  destruct neg; rewrite app_length.
  - pose proof (spec_long_nonempty (- Z.of_nat (length es))). lia.
  - pose proof (spec_long_nonempty (Z.of_nat (length es))). lia.
Qed.

Lemma wr_block_nonempty : forall sync b, (1 <= length (wr_block sync b))%nat.
Proof.
  intros sync b. unfold wr_block. rewrite app_length.
  pose proof (spec_long_nonempty (rb_count b)). lia.
Qed.

(* the size conditions: every length that the file announces with a long fits an i64
   (no condition on the byte values is needed: the parser only copies them) *)
Definition file_small (layout : list (bool * list (bytes * bytes))) (blocks : list rblock) : Prop :=
  Forall (fun blk => len_ok (flat_map wr_entry (snd blk)) /\ Forall entry_ok (snd blk)) layout /\
  Forall (fun b => len_ok (rb_data b)) blocks.

Theorem ref_parse_ref_write : forall layout sync blocks,
  file_wf layout sync blocks -> file_small layout blocks ->
  ref_parse (ref_write layout sync blocks) = Some (mkFile (flat_map snd layout) sync blocks).
Proof.
  intros layout sync blocks (Hs & Hl & Hb) (Sl & Sb).
  assert (HL : Forall meta_block_ok layout).
  { rewrite Forall_forall in *. intros blk Hin.
    destruct (Hl _ Hin) as [H1 H2]. destruct (Sl _ Hin) as [H3 H4].
    unfold meta_block_ok. auto. }
  assert (HB : Forall block_ok blocks).
  { rewrite Forall_forall in *. intros b Hin. split; [apply Hb | apply Sb]; assumption. }
  unfold ref_parse.
  assert (Hf1 : (length layout < S (length (ref_write layout sync blocks)))%nat).
  { pose proof (flat_map_length_ge wr_meta_block layout wr_meta_block_nonempty).
    unfold ref_write, wr_meta. rewrite !app_length. lia. }
  assert (Hf2 : (length blocks < S (length (ref_write layout sync blocks)))%nat).
  { pose proof (flat_map_length_ge (wr_block sync) blocks (wr_block_nonempty sync)).
    unfold ref_write. rewrite !app_length. lia. }
  remember (S (length (ref_write layout sync blocks))) as fuel eqn:Ef. clear Ef.
  unfold ref_write, wr_meta.
  change 4 with (N.of_nat (length MAGIC)). rewrite take_n_app.
  rewrite bytes_eqb_refl. cbn [negb].
  rewrite <- app_assoc.
  rewrite read_meta_wr by assumption. cbn [app].
  replace 16 with (N.of_nat (length sync)) by (rewrite Hs; reflexivity).
  rewrite take_n_app.
  rewrite read_blocks_wr by assumption. reflexivity.
Qed.

(* ------------------------------------------------------------------------------------------ *)
(** * The initial state *)

Lemma wbuild_spec : forall sync json codec user sched o st,
  wbuild sync json codec user sched = (o, st) ->
  w_pending st = None /\ w_buf st = [] /\ w_n st = 0 /\
  (o = WROk -> w_gone st = false /\ header_bytes sync json codec user = Ok (w_sink st)).
Proof.
  intros sync json codec user sched o st H. unfold wbuild in H.
  destruct (header_bytes sync json codec user) as [h| | | |];
    try (inversion H; subst; cbn; repeat split; discriminate).
  destruct (write_all_vectored FUEL_SINK false [h] sched []) as [[r s] sc] eqn:E.
  destruct r; inversion H; subst o st; cbn [w_pending w_buf w_n w_gone w_sink];
    repeat split; try discriminate.
  destruct (write_all_vectored_unfold FUEL_SINK false [h] sched []) as (bufs & _ & _ & Hc & E').
  rewrite E' in E. apply wav_ok_complete in E. rewrite E, Hc. cbn [concat app].
  rewrite app_nil_r. reflexivity.
Qed.

Theorem wbuild_winv : forall sync json codec user sched,
  winv (snd (wbuild sync json codec user sched)).
Proof.
  intros. destruct (wbuild sync json codec user sched) as [o st] eqn:E.
  apply winv_quiet. exact (proj1 (wbuild_spec _ _ _ _ _ _ _ E)).
Qed.

Theorem wbuild_wrep : forall enc sync json codec user sched st,
  wbuild sync json codec user sched = (WROk, st) ->
  wrep enc sync (w_sink st) st [] /\ wtidy st /\ w_gone st = false.
Proof.
  intros enc sync json codec user sched st H.
  destruct (wbuild_spec _ _ _ _ _ _ _ H) as (Hp & Hb & Hn & Hok).
  destruct (Hok eq_refl) as [Hg _].
  split; [|split; [intros _; exact Hb | exact Hg]].
  split; [cbn [flat_map]; now rewrite app_nil_r|]. split; [constructor | exact Hp].
Qed.

(* ------------------------------------------------------------------------------------------ *)
(** * (C) meets (D): with the null codec the sink is a file of the grammar *)

Definition to_rblock (b : N * bytes) : rblock := mkBlock (Z.of_N (fst b)) (snd b).

(* counts and lengths that fit the longs that announce them. Neither is guaranteed by the writer:
   push_serialized(bytes, n) accepts any n that keeps the u64 sum below 2^64. *)
Definition wblock_small (b : N * bytes) : Prop :=
  (Z.of_N (fst b) <= I64_MAX)%Z /\ len_ok (snd b).

Lemma blk_bytes_wr_block : forall sync blocks, Forall wblock_small blocks ->
  flat_map (blk_bytes (fun b => b) sync) blocks = flat_map (wr_block sync) (map to_rblock blocks).
Proof.
  intros sync blocks HF. induction blocks as [|[c d] blocks IH]; cbn [flat_map map]; [reflexivity|].
  apply Forall_cons_iff in HF. destruct HF as [[Hc Hd] HF]. cbn [fst snd] in Hc, Hd.
  unfold len_ok, I64_MAX in *.
  rewrite IH by assumption. f_equal.
  unfold blk_bytes, wr_block, to_rblock. cbn [fst snd rb_count rb_data].
  rewrite !spec_long_encode_long by (unfold I64_MIN, I64_MAX; lia). reflexivity.
Qed.

Theorem sink_is_ref_write : forall layout sync st blocks,
  wrep (fun b => b) sync (MAGIC ++ wr_meta layout ++ sync) st blocks ->
  Forall wblock_small blocks ->
  w_sink st = ref_write layout sync (map to_rblock blocks).
Proof.
  intros layout sync st blocks (Hs & _ & _) HF.
  rewrite Hs, blk_bytes_wr_block by assumption.
  unfold ref_write. rewrite <- !app_assoc. reflexivity.
Qed.

(* hence the reference parser reads the sink back, block for block *)
Theorem sink_parses : forall layout sync st blocks,
  wrep (fun b => b) sync (MAGIC ++ wr_meta layout ++ sync) st blocks ->
  Forall wblock_small blocks ->
  length sync = 16%nat ->
  Forall (fun blk => snd blk <> [] /\ N.of_nat (length (snd blk)) < 100000 /\
                     len_ok (flat_map wr_entry (snd blk)) /\ Forall entry_ok (snd blk)) layout ->
  ref_parse (w_sink st) = Some (mkFile (flat_map snd layout) sync (map to_rblock blocks)).
Proof.
  intros layout sync st blocks Hrep HF Hs HL.
  rewrite (sink_is_ref_write _ _ _ _ Hrep HF).
  apply ref_parse_ref_write.
  - split; [assumption|]. split.
    + eapply Forall_impl; [|exact HL]. intros a (H1 & H2 & _). auto.
    + rewrite Forall_forall in *. intros b Hin. apply in_map_iff in Hin.
      destruct Hin as (x & <- & Hx). destruct (HF _ Hx) as [Hc _].
      unfold to_rblock. cbn [rb_count]. lia.
  - split.
    + eapply Forall_impl; [|exact HL]. intros a (_ & _ & H3 & H4). auto.
    + rewrite Forall_forall in *. intros b Hin. apply in_map_iff in Hin.
      destruct Hin as (x & <- & Hx). destruct (HF _ Hx) as [_ Hd]. exact Hd.
Qed.

(* ------------------------------------------------------------------------------------------ *)
(** * Concrete runs: what the closest true statements above had to exclude *)

Definition st_empty : wstate := mkW [] 0 None [] [] [] [] false.

(* push_serialized(bytes, 0) leaves bytes that finish_block never flushes: "after finish_block the
   buffer is empty" holds only for tidy states (wstep_finish_empties_tidy) *)
Example finish_leaves_uncounted_bytes :
  let '(outs, st) := wrun (fun b => b) [] 100 [] false st_empty [WPush [1] 0; WFinish] in
  (map fst outs, w_buf st, w_n st, w_sink st) = ([WROk; WROk], [1], 0, []).
Proof. vm_compute. reflexivity. Qed.

(* the count overflow of push_serialized returns an error after the bytes were appended: a failed
   push_serialized, unlike a failed serialize (wstep_failed_value_leaves_block), leaves its bytes *)
Example push_overflow_leaves_bytes :
  let '(o, st) := wstep (fun b => b) [] 100 [] false st_empty (WPush [7] (2 ^ 64)) in
  (o, w_buf st, w_n st) = (WRErr, [7], 0).
Proof. vm_compute. reflexivity. Qed.

(* a block count of 2^63 or more (reachable only through push_serialized(bytes, n), whose check is
   on the u64 sum) is not in the grammar: wblock_small in sink_is_ref_write cannot be dropped.
   (The crate casts the u64 count with "as i64", i.e. writes a negative long there; the model
   writes the zig-zag of the unwrapped number. Both files are invalid, with different bytes.) *)
Example count_above_i64_not_in_grammar :
  let sync := repeat 0 16 in
  ref_parse (MAGIC ++ wr_meta [] ++ sync ++ blk_bytes (fun b => b) sync (2 ^ 63, [])) = None
  /\ ref_parse (MAGIC ++ wr_meta [] ++ sync ++ blk_bytes (fun b => b) sync (2 ^ 63 - 1, []))
     = Some (mkFile [] sync [mkBlock (2 ^ 63 - 1) []]).
Proof. vm_compute. split; reflexivity. Qed.

(* ------------------------------------------------------------------------------------------ *)
Print Assumptions wstep_failed_value_leaves_block.
Print Assumptions wbuild_winv.
Print Assumptions wstep_winv.
Print Assumptions wrun_winv.
Print Assumptions wstep_block_panic_only_from_ser.
Print Assumptions wrun_winv_gen.
Print Assumptions wstep_no_block_panic.
Print Assumptions wrun_no_block_panic.
Print Assumptions wbuild_wrep.
Print Assumptions wstep_rep_sink.
Print Assumptions wstep_ok_preserves_wrep.
Print Assumptions wstep_rep.
Print Assumptions wstep_ok_preserves_rep.
Print Assumptions wstep_finish_empties.
Print Assumptions wstep_finish_empties_tidy.
Print Assumptions wstep_tidy.
Print Assumptions flush_vec_live.
Print Assumptions wrun_accounting.
Print Assumptions wrun_accounting_vec.
Print Assumptions wrun_accounting_all_ok.
Print Assumptions spec_read_long_spec_long.
Print Assumptions spec_long_encode_long.
Print Assumptions ref_parse_ref_write.
Print Assumptions sink_is_ref_write.
Print Assumptions sink_parses.
Print Assumptions finish_leaves_uncounted_bytes.
Print Assumptions push_overflow_leaves_bytes.
Print Assumptions count_above_i64_not_in_grammar.
