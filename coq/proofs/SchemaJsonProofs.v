(** Schema JSON regeneration (C09): main theorems.

    Files: SchemaJsonDefs.v  (edges, unnamed cycles, wf_struct / wf_graph, coverings, unfoldings)
           SchemaJsonGuard.v (the writer fails exactly on reachable unnamed cycles; priority 1)
           SchemaJsonRaw.v   (raw_of_json on every shape of object the writer emits, numbers)
           SchemaJsonSim.v   (writer / parser simulation: the parsed graph covers the original)
           SchemaJsonCf.v    (a covering has the same canonical form, fingerprint, unfoldings)
           SchemaJsonCfOk.v  (the canonical form of a wf_struct graph exists)

    Note on the interface: [schema_json] returns the text [json_text j] of the document [j] that
    [to_json] builds, while [parse_schema] starts from a document (the model has a printer for
    JSON text but no lexer), so the round trip is stated on the document [j]. *)
From Coq Require Import NArith ZArith List Lia Bool Arith String ZifyN ZifyBool ZifyNat Relations.
Import ListNotations.
Require Import Base Schema Text Json Parse SchemaJson CanonicalForm Rabin.
Require Import PcfSpec SchemaTextProofs SchemaJsonDefs SchemaJsonGuard SchemaJsonRaw SchemaJsonSim SchemaJsonCf SchemaJsonCfOk.
Open Scope N_scope.
Notation length := List.length (only parsing).

(** * Priority 1 (proved in SchemaJsonGuard.v) *)
Check json_cycle_rejected
  : forall g k fuel, reach g O k -> unnamed_cycle g k -> (json_fuel g <= fuel)%nat ->
    schema_json fuel g = Err EData.
Check json_ok_when_wf
  : forall g fuel, wf_struct g -> (json_fuel g <= fuel)%nat -> exists t, schema_json fuel g = Ok t.
(* on success no reachable node lies on an unnamed cycle, whatever the fuel *)
Check to_json_ok_no_cycle
  : forall fuel g j st' k, to_json fuel g O None (j_init g) = Ok (j, st') -> reach g O k ->
    ~ unnamed_cycle g k.

(** * Priority 2 and 3 *)

(* the document the writer builds parses back to a covering [g'] of [g]: a graph with a label
   (type, fullname, field names and order, symbols, size, logical type and parameters) and child
   order preserving map to [g] that is injective on named nodes and maps root to root *)
Theorem C09_regen_cover : forall g fuel j st', wf_graph g ->
  to_json fuel g O None (j_init g) = Ok (j, st') ->
  exists g' h, parse_schema j = Ok g' /\ cover h g' g /\ (0 < length g')%nat.
Proof. exact regen_cover. Qed.

(* hence the same canonical form and fingerprint *)
Theorem C09_regen_canonical : forall g fuel j st', wf_graph g ->
  to_json fuel g O None (j_init g) = Ok (j, st') ->
  exists g', parse_schema j = Ok g' /\
    (forall fuel' t, canonical_form fuel' g = Ok t -> canonical_form fuel' g' = Ok t) /\
    (forall fuel' t, fingerprint fuel' g = Ok t -> fingerprint fuel' g' = Ok t).
Proof.
  intros g fuel j st' Hwf H. destruct (regen_cover g fuel j st' Hwf H) as (g' & h & Hp & Hc & Hl).
  exists g'. split; [exact Hp|]. split; intros fuel' t Ht.
  - eapply cf_cover; eassumption.
  - eapply fingerprint_cover; eassumption.
Qed.

(* as an equation between successful results, for every sufficient fuel *)
Theorem C09_regen_canonical_eq : forall g fuel fuel' j st', wf_graph g ->
  to_json fuel g O None (j_init g) = Ok (j, st') -> (cf_fuel g <= fuel')%nat ->
  exists g' t, parse_schema j = Ok g' /\
    canonical_form fuel' g = Ok t /\ canonical_form fuel' g' = Ok t /\
    fingerprint fuel' g' = fingerprint fuel' g /\ is_ok (fingerprint fuel' g) = true.
Proof.
  intros g fuel fuel' j st' Hwf H Hf.
  destruct (regen_cover g fuel j st' Hwf H) as (g' & h & Hp & Hc & Hl).
  destruct (canonical_form_ok_when_wf g fuel' (wf_str g Hwf) Hf) as (t & Ht).
  pose proof (cf_cover h g' g fuel' t Hc Hl Ht) as Ht'.
  exists g', t. split; [exact Hp|]. split; [exact Ht|]. split; [exact Ht'|].
  unfold fingerprint. rewrite Ht, Ht'. split; reflexivity.
Qed.

(* and the same unfolding to every depth, logical types and their parameters included *)
Theorem C09_regen_unfold : forall g fuel j st', wf_graph g ->
  to_json fuel g O None (j_init g) = Ok (j, st') ->
  exists g', parse_schema j = Ok g' /\ forall n, unfold n g' O = unfold n g O.
Proof.
  intros g fuel j st' Hwf H. destruct (regen_cover g fuel j st' Hwf H) as (g' & h & Hp & Hc & Hl).
  exists g'. split; [exact Hp|]. intro n.
  rewrite (unfold_cover h g' g Hc n O Hl). rewrite (cv_root _ _ _ Hc). reflexivity.
Qed.

(* end to end, with the fuel bound *)
Theorem C09_regen : forall g fuel, wf_graph g -> (json_fuel g <= fuel)%nat ->
  exists j g', schema_json fuel g = Ok (json_text j) /\ parse_schema j = Ok g' /\
    (forall fuel' t, canonical_form fuel' g = Ok t -> canonical_form fuel' g' = Ok t) /\
    (forall fuel' t, fingerprint fuel' g = Ok t -> fingerprint fuel' g' = Ok t) /\
    (forall n, unfold n g' O = unfold n g O).
Proof.
  intros g fuel Hwf Hf.
  destruct (to_json_ok_when_wf g fuel (wf_str g Hwf) Hf) as (j & st' & H).
  destruct (regen_cover g fuel j st' Hwf H) as (g' & h & Hp & Hc & Hl).
  exists j, g'. split.
  { unfold schema_json. fold (j_init g). rewrite H. reflexivity. }
  split; [exact Hp|]. split; [|split].
  - intros fuel' t Ht. eapply cf_cover; eassumption.
  - intros fuel' t Ht. eapply fingerprint_cover; eassumption.
  - intro n. rewrite (unfold_cover h g' g Hc n O Hl). rewrite (cv_root _ _ _ Hc). reflexivity.
Qed.

(* ------------------------------------------------------------------ *)
(** * Examples *)

Definition regen (fuel : nat) (g : schema_mut) : result schema_mut :=
  let* r := to_json fuel g O None (j_init g) in parse_schema (fst r).

Definition nm_ (ns : string) (s : string) : name := name_of_key (Some (lit ns), lit s).

(* a record b.S shared by a.R (by definition, from namespace a), by an array and by a.T (by
   reference, once from namespace a and once from b.S itself), named cycles R -> union -> R,
   T -> map -> R and S -> array -> S, logical types with parameters *)
Definition ex_graph : schema_mut :=
  [ mkNode (RRecord (nm_ "a" "R") [(lit "x", 1); (lit "y", 2); (lit "z", 3); (lit "self", 4); (lit "d", 8)]%nat) None
  ; mkNode (RRecord (nm_ "b" "S") [(lit "e", 5); (lit "again", 2); (lit "f", 9)]%nat) None
  ; mkNode (RArray 1%nat) None
  ; mkNode (RRecord (nm_ "a" "T") [(lit "s", 1); (lit "back", 6)]%nat) (Some (LUnknown (lit "custom")))
  ; mkNode (RUnion [7; 0]%nat) None
  ; mkNode (REnum (nm_ "b" "E") [lit "A"; lit "B"]) None
  ; mkNode (RMap 0%nat) None
  ; mkNode RNull None
  ; mkNode RBytes (Some (LDecimal 2 9))
  ; mkNode (RFixed (name_of_key (None, lit "F")) 12) (Some LDuration) ].

Example ex_graph_json_ok : is_ok (schema_json 200 ex_graph) = true.
Proof. vm_compute. reflexivity. Qed.

Example ex_graph_regen_canonical :
  is_ok (canonical_form 200 ex_graph) = true /\
  (let* g' := regen 200 ex_graph in canonical_form 200 g') = canonical_form 200 ex_graph /\
  (let* g' := regen 200 ex_graph in fingerprint 200 g') = fingerprint 200 ex_graph.
Proof. vm_compute. repeat split; reflexivity. Qed.

Example ex_graph_regen_unfold :
  rmap (fun g' => unfold 6 g' O) (regen 200 ex_graph) = Ok (unfold 6 ex_graph O).
Proof. vm_compute. reflexivity. Qed.

(* the parsed graph is a proper unfolding: the unnamed nodes are duplicated per occurrence *)
Example ex_graph_regen_size :
  rmap (fun g' => length g') (regen 200 ex_graph) = Ok 11%nat.
Proof. vm_compute. reflexivity. Qed.

(* an unnamed cycle *)
Example ex_unnamed_cycle : schema_json 10 [mkNode (RArray 0) None] = Err EData.
Proof. vm_compute. reflexivity. Qed.
Example ex_unnamed_cycle_behind_record :
  schema_json 50 [mkNode (RRecord (name_of_key (None, lit "R")) [(lit "f", 1%nat)]) None;
                  mkNode (RUnion [2%nat]) None; mkNode (RMap 1%nat) None] = Err EData.
Proof. vm_compute. reflexivity. Qed.

(* ------------------------------------------------------------------ *)
(** * The hypotheses of [wf_graph] cannot be dropped *)

(* wf_norec: a record that is directly a field of itself is written but rejected by the parser *)
Example regen_needs_norec :
  regen 50 [mkNode (RRecord (name_of_key (None, lit "R")) [(lit "f", 0%nat)]) None] = Err EData.
Proof. vm_compute. reflexivity. Qed.

(* wf_names (not the name of a type): a reference to a record called "int" reads as the type *)
Example regen_needs_not_type_name :
  regen 50 [mkNode (RRecord (name_of_key (None, lit "R")) [(lit "a", 1%nat); (lit "b", 1%nat)]) None;
            mkNode (REnum (name_of_key (None, lit "int")) []) None]
  = Ok [mkNode (RRecord (name_of_key (None, lit "R")) [(lit "a", 1%nat); (lit "b", 2%nat)]) None;
        mkNode (REnum (name_of_key (None, lit "int")) []) None;
        mkNode RInt None].
Proof. vm_compute. reflexivity. Qed.

(* wf_names (dot-free simple name): the name is split at its last dot *)
Example regen_needs_nodot :
  regen 50 [mkNode (REnum (mkName (lit "a.b") None) []) None]
  = Ok [mkNode (REnum (mkName (lit "a.b") (Some 1%nat)) []) None].
Proof. vm_compute. reflexivity. Qed.

(* wf_distinct: two nodes with the same fullname *)
Example regen_needs_distinct :
  regen 50 [mkNode (RUnion [1; 2]%nat) None;
            mkNode (REnum (name_of_key (None, lit "E")) []) None;
            mkNode (REnum (name_of_key (None, lit "E")) [lit "A"]) None] = Err EData.
Proof. vm_compute. reflexivity. Qed.

(* wf_logical: an unknown logical type that is called like a known one *)
Example regen_needs_logical_valid :
  regen 50 [mkNode RInt (Some (LUnknown (lit "decimal")))] = Err EData.
Proof. vm_compute. reflexivity. Qed.
Example regen_needs_logical_valid2 :
  regen 50 [mkNode RInt (Some (LUnknown (lit "date")))] = Ok [mkNode RInt (Some LDate)].
Proof. vm_compute. reflexivity. Qed.
(* wf_logical: a scale that does not fit in u32 *)
Example regen_needs_scale_u32 :
  regen 50 [mkNode RBytes (Some (LDecimal 4294967296 5))] = Err EData.
Proof. vm_compute. reflexivity. Qed.
(* wf_size *)
Example regen_needs_size_u64 :
  regen 50 [mkNode (RFixed (name_of_key (None, lit "F")) 18446744073709551616) None] = Err EData.
Proof. vm_compute. reflexivity. Qed.

(* ------------------------------------------------------------------ *)
(** * Assumptions *)
Print Assumptions json_cycle_rejected.
Print Assumptions json_ok_when_wf.
Print Assumptions to_json_ok_no_cycle.
Print Assumptions C09_regen_cover.
Print Assumptions C09_regen_canonical.
Print Assumptions C09_regen_canonical_eq.
Print Assumptions C09_regen_unfold.
Print Assumptions canonical_form_ok_when_wf.
Print Assumptions C09_regen.
