(** The datum decoder meets [vdec_prefix_det] (its success and result do not depend on bytes behind what it
    read): from proofs/DePrefixProofs.v.  This discharges the last hypothesis of
    [damaged_values_genuine] for the real value decoder. *)
From Coq Require Import NArith List Lia.
Require Import Base Schema Sval Ser Target Reader De AvroValue Encoding Denote Wf Container.
Require Import CodecLoop DecodeLoop DecodeLoopProofs ContainerReadProofs DecodeLoopDe DePrefixProofs.
Import ListNotations.

Lemma de_vdec_prefix_det_gen : forall (fuel : nat) Sc cfg root (p ext : bytes) (v : dval) (k : nat),
  (let (r, st) := de Sc cfg fuel root (c_depth cfg) false false TAny (slice_reader p) in
   (rmap erase_borrow r, N.to_nat (rd_pos st))) = (Ok v, k) ->
  (let (r, st) := de Sc cfg fuel root (c_depth cfg) false false TAny (slice_reader (p ++ ext)) in
   (rmap erase_borrow r, N.to_nat (rd_pos st))) = (Ok v, k).
Proof.
  intros fuel Sc cfg root p ext v k H. unfold slice_reader in *.
  destruct (de Sc cfg fuel root (c_depth cfg) false false TAny (mkRd p 0 None 0)) as [r st] eqn:E.
  destruct r as [d| | | |]; unfold rmap, rbind in H; try discriminate H.
  inversion H; subst v k. clear H.
  rewrite (de_prefix_determinism Sc cfg fuel root (c_depth cfg) false false TAny p ext 0 0 d st E).
  unfold rmap, rbind. cbn [rd_pos]. reflexivity.
Qed.

Local Opaque FUEL_SINK.
Lemma de_vdec_prefix_det : forall Sc cfg root, vdec_prefix_det dval (de_vdec Sc cfg root).
Proof.
  intros Sc cfg root p ext v k H _. unfold de_vdec in *.
  apply de_vdec_prefix_det_gen. exact H.
Qed.

(** every value yielded from a compressed block that holds the written stream, the stream cut short, or the
    stream followed by other bytes -- whatever the count (<= the number written) -- was written, in order *)
Theorem damaged_values_genuine_de :
  forall (D : Type) (dread : D -> bytes -> option chunkst -> nat -> dres * D) (policy : nat -> nat -> option nat)
         Sc cfg root, schema_wf Sc = true ->
  forall (z : bytes) (d0 : D) (vs : list avalue) sync src size ch cap fuel count s,
  Forall (value_ok Sc cfg root) vs -> agree (firstn size src) z ->
  stream_decoder_contract D dread z (flat_map (enc1 Sc root) vs) (firstn size src) d0 ->
  (1 <= cap)%nat -> (count <= length vs)%nat ->
  block_open D d0 src ch size cap = Some s ->
  exists i, fst (block_run D dread policy dval (de_vdec Sc cfg root) fuel count sync s)
            = map (dval_any Sc root) (firstn i vs).
Proof.
  intros D dread policy Sc cfg root Hwf.
  exact (damaged_values_genuine D dread policy dval (de_vdec Sc cfg root) avalue (value_ok Sc cfg root)
           (enc1 Sc root) (dval_any Sc root) (de_vdec_ok Sc cfg root Hwf) (de_vdec_prefix_det Sc cfg root)).
Qed.
Print Assumptions damaged_values_genuine_de.
