(** Typed targets that skip part of the data (property C12), slice mode:
    - [de_seq_array_g], [de_map_g], [de_struct_record_core]
                                     arrays / maps / records decoded by [TSeq t] / [TMap tk tv] /
                                     [TStruct _ fs], generic in the child targets ([item_g])
    - [struct_visit_record]          a struct target over a record: unknown record fields are skipped
                                     exactly, target fields absent from the record come out [DMissing]
    - [struct_skips_missing_fields]  ... when the target's fields are a subset of the record's
    - [struct_fewer_fields_agree]    a target lacking fields vs. a fuller one: same final reader state,
                                     the same [dval] for every field both know
    - [map_ignored_values], [seq_items_partly_ignored], [union_branch_as_unit_variant]
    - [ignored_array_jumps_raw_blocks], [ignored_map_jumps_raw_blocks]
                                     the [ignored = true] fast path never looks inside a block that
                                     carries its byte size (arbitrary bytes are jumped over) *)
From Coq Require Import NArith ZArith List Lia Bool.
From Coq Require Import ZifyN ZifyBool ZifyNat.
Require Import Base Kinds Schema Varint Utf8 Sval Target Reader Text De.
Require Import AvroValue Encoding Denote Wf VarintProofs.
Require Import DeProofs.
Import ListNotations.
Open Scope N_scope.

Ltac Zify.zify_post_hook ::= Z.to_euclidean_division_equations.

Arguments N.add : simpl never.
Arguments N.sub : simpl never.
Arguments N.mul : simpl never.
Arguments N.div : simpl never.
Arguments N.modulo : simpl never.
Arguments N.pow : simpl never.
Arguments N.shiftl : simpl never.
Arguments N.shiftr : simpl never.
Arguments N.land : simpl never.
Arguments N.lor : simpl never.
Arguments N.ltb : simpl never.
Arguments N.leb : simpl never.
Arguments N.eqb : simpl never.
Arguments N.of_nat : simpl never.
Arguments N.to_nat : simpl never.
Arguments N.min : simpl never.
Arguments Z.of_nat : simpl never.
Arguments Z.of_N : simpl never.
Arguments Z.to_N : simpl never.
Arguments Z.add : simpl never.
Arguments Z.sub : simpl never.
Arguments Z.mul : simpl never.
Arguments Z.pow : simpl never.
Arguments Z.ltb : simpl never.
Arguments Z.leb : simpl never.
Arguments Z.eqb : simpl never.
Arguments Z.opp : simpl never.
Arguments Z.abs : simpl never.
Arguments Z.modulo : simpl never.

(* ------------------------------------------------------------------ *)
Require Import DS1 DS2 DS3 DS4 DS5 DeSteps.
(* ------------------------------------------------------------------ *)
(** * 10. Admissible values: the preconditions of [pre] without the depth budget *)

Section Adm.
Variable Sc : fschema.
Variable cfg : dcfg.

Definition adm (n : fnode) (e : evalue) : Prop := pre Sc cfg n (depth_cost e) e.
Definition adm_at (k : nat) (e : evalue) : Prop := exists n', fnode_at Sc k = Some n' /\ adm n' e.

Lemma pre_adm n d e : pre Sc cfg n d e -> adm n e.
Proof.
  intros (Hc & Hl & Hw & Hd & Hf & He). unfold adm, pre.
  split; [exact Hc|]. split; [exact Hl|]. split; [exact Hw|]. split; [apply le_n|]. split; assumption.
Qed.

Lemma adm_pre n d e : adm n e -> (depth_cost e <= d)%nat -> pre Sc cfg n d e.
Proof.
  intros (Hc & Hl & Hw & _ & Hf & He) Hd. unfold pre.
  split; [exact Hc|]. split; [exact Hl|]. split; [exact Hw|]. split; [exact Hd|]. split; assumption.
Qed.

Lemma pre_at_adm_at k d e : pre_at Sc cfg k d e -> adm_at k e.
Proof. intros (n' & Hn & Hp). exists n'. split; [exact Hn|]. eapply pre_adm. exact Hp. Qed.

Lemma adm_at_pre_at k d e : adm_at k e -> (depth_cost e <= d)%nat -> pre_at Sc cfg k d e.
Proof. intros (n' & Hn & Ha) Hd. exists n'. split; [exact Hn|]. apply adm_pre; assumption. Qed.

Lemma pre_at_mono k d d2 e : pre_at Sc cfg k d e -> (d <= d2)%nat -> pre_at Sc cfg k d2 e.
Proof.
  intros (n' & Hn & Hp) Hle. exists n'. split; [exact Hn|].
  apply adm_pre; [eapply pre_adm; exact Hp|]. destruct Hp as (_ & _ & _ & Hd & _). lia.
Qed.

End Adm.

(* ------------------------------------------------------------------ *)
(** * 11. Arrays, maps and records under [TSeq] / [TMap] / [TStruct], generic in the child targets *)

Section CompositeG.
Variable Sc : fschema.
Variable cfg : dcfg.

Lemma de_seq_array_g : forall t1 (R : evalue -> dval -> Prop) k blocks d' favor fuel rest pos ma,
  adm Sc cfg (FArray k) (EArray blocks) ->
  (forall blk it dp, In blk blocks -> In it (snd blk) -> depth_cost (EArray blocks) = S dp ->
                     pre_at Sc cfg k dp it -> item_g Sc cfg t1 R k d' it) ->
  (de_fuel (EArray blocks) <= fuel)%nat ->
  exists ds,
    de Sc cfg fuel (FArray k) (S d') favor false (TSeq t1)
      (mkRd (encode_e Sc (FArray k) (EArray blocks) ++ rest) pos None ma)
    = (Ok (DSeq ds),
       mkRd rest (pos + N.of_nat (length (encode_e Sc (FArray k) (EArray blocks)))) None ma)
    /\ Forall2 R (flat_map snd blocks) ds.
Proof.
  intros t1 R k blocks d' favor fuel rest pos ma Hadm Hit Hfuel.
  destruct fuel as [|f]; [unfold de_fuel in Hfuel; lia|].
  destruct (array_pre Sc cfg _ _ _ _ Hadm Hfuel) as (dp & f2 & M & Hdp & -> & Hmax & Hfh & Hf2 & HB).
  rewrite de_seq_array_eq. cbn [dec_depth]. rewrite sbind_sret.
  rewrite seq_array_g_eq. cbn [seq_policy]. rewrite seq_array_loop_g_eq.
  rewrite encode_array_eq.
  assert (HB' : Forall (blk_ok_g Sc cfg t1 R k d' M) blocks).
  { rewrite Forall_forall in *. intros blk Hblk.
    destruct (HB blk Hblk) as (H1 & H2 & H3 & H4).
    split; [exact H1|]. split; [exact H2|]. split; [exact H3|].
    rewrite Forall_forall in *. intros it Hin. destruct (H4 it Hin) as [Hp Hm].
    split; [|exact Hm]. apply (Hit blk it dp Hblk Hin Hdp Hp). }
  destruct (arr_blocks_g Sc cfg t1 false R k d' M blocks HB' f2 f2 [] 0 false rest pos ma
              ltac:(lia) Hfh Hf2) as (ds & b' & Hlp & HF).
  unfold blk0. rewrite (sbind_ok _ _ _ _ _ Hlp). exists ds. split; [reflexivity|].
  rewrite visited_false in HF. exact HF.
Qed.

Lemma de_map_g : forall tk tv (RK : bytes -> dval -> Prop) (RV : evalue -> dval -> Prop)
                        k blocks d' favor fuel rest pos ma,
  key_spec tk RK ->
  adm Sc cfg (FMap k) (EMap blocks) ->
  (forall blk kv dp, In blk blocks -> In kv (snd blk) -> depth_cost (EMap blocks) = S dp ->
                     pre_at Sc cfg k dp (snd kv) -> item_g Sc cfg tv RV k d' (snd kv)) ->
  (de_fuel (EMap blocks) <= fuel)%nat ->
  exists kvs,
    de Sc cfg fuel (FMap k) (S d') favor false (TMap tk tv)
      (mkRd (encode_e Sc (FMap k) (EMap blocks) ++ rest) pos None ma)
    = (Ok (DMap kvs),
       mkRd rest (pos + N.of_nat (length (encode_e Sc (FMap k) (EMap blocks)))) None ma)
    /\ Forall2 (Rkv RK RV) (flat_map snd blocks) kvs.
Proof.
  intros tk tv RK RV k blocks d' favor fuel rest pos ma Hkey Hadm Hit Hfuel.
  destruct fuel as [|f]; [unfold de_fuel in Hfuel; lia|].
  destruct (map_pre Sc cfg _ _ _ _ Hadm Hfuel) as (dp & f2 & M & Hdp & -> & Hmax & Hfh & Hf2 & HB).
  rewrite de_map_eq. cbn [any_g dec_depth]. rewrite sbind_sret.
  rewrite (map_visit_generic_eq Sc cfg _ _ (TMap tk tv) tk tv false eq_refl).
  unfold blk0. rewrite map_loop_map_eq.
  rewrite encode_map_eq'.
  assert (HB' : Forall (mblk_ok_g Sc cfg tv RV k d' M) blocks).
  { rewrite Forall_forall in *. intros blk Hblk.
    destruct (HB blk Hblk) as (H1 & H2 & H3 & H4).
    split; [exact H1|]. split; [exact H2|]. split; [exact H3|].
    rewrite Forall_forall in *. intros it Hin. destruct (H4 it Hin) as (Hk1 & Hk2 & Hp & Hm).
    split; [exact Hk1|]. split; [exact Hk2|]. split; [|exact Hm].
    apply (Hit blk it dp Hblk Hin Hdp Hp). }
  destruct (map_blocks_g Sc cfg tk tv false RK RV Hkey k d' M blocks HB' f2 f2 [] 0 false rest pos ma
              ltac:(lia) Hfh Hf2) as (kvs & Hlp & HF).
  rewrite (sbind_ok _ _ _ _ _ Hlp). exists kvs. split; [reflexivity|].
  rewrite visited_false in HF. exact HF.
Qed.

End CompositeG.

(* ------------------------------------------------------------------ *)
(** * 12. The derived-struct visitor over a record *)

Lemma find_field_none_has : forall (fs : list (bytes * dtarget)) nm s,
  find_field nm fs s = None -> has_field nm fs = false.
Proof.
  induction fs as [|[f t] r IH]; intros nm s E; [reflexivity|].
  cbn [find_field] in E. cbn [has_field existsb fst].
  destruct (bytes_eqb f nm); [discriminate E|]. cbn [orb]. apply (IH nm (S s) E).
Qed.

Lemma fields_P_conj (P Q : bytes -> nat -> evalue -> Prop) : forall fields fs,
  fields_P P fields fs -> fields_P Q fields fs -> fields_P (fun nm k v => P nm k v /\ Q nm k v) fields fs.
Proof.
  induction fields as [|[nm k] fr IH]; intros [|v vr] HP HQ; try exact HP.
  cbn [fields_P] in *. destruct HP as [HP1 HP2], HQ as [HQ1 HQ2].
  split; [split; assumption|apply IH; assumption].
Qed.

Section StructRecord.
Variable Sc : fschema.
Variable cfg : dcfg.

(* one step of the visitor on a field the target knows / does not know *)
Lemma struct_step_known : forall fs f1 nm k fr d' seen acc st i tf n' d st1,
  find_field nm fs O = Some (i, tf) -> nth i seen false = false ->
  fnode_at Sc k = Some n' ->
  de Sc cfg f1 n' d' false false tf st = (Ok d, st1) ->
  struct_loop Sc cfg (S (S f1)) (MSRecord ((nm, k) :: fr) d') fs seen acc st
  = struct_loop Sc cfg (S f1) (MSRecord fr d') fs (set_seen seen i) ((nm, d) :: acc) st1.
Proof.
  intros fs f1 nm k fr d' seen acc st i tf n' d st1 E Hsn Hn Hde.
  rewrite struct_loop_record_cons_eq, E, Hsn.
  rewrite map_next_value_record_g_eq. unfold node_at. rewrite Hn, sbind_sret.
  rewrite sbind_assoc. rewrite (sbind_ok _ _ _ _ _ Hde). rewrite sbind_sret. reflexivity.
Qed.

Lemma struct_step_unknown : forall fs f1 nm k fr d' seen acc st n' d st1,
  find_field nm fs O = None ->
  fnode_at Sc k = Some n' ->
  de Sc cfg f1 n' d' false false TIgnored st = (Ok d, st1) ->
  struct_loop Sc cfg (S (S f1)) (MSRecord ((nm, k) :: fr) d') fs seen acc st
  = struct_loop Sc cfg (S f1) (MSRecord fr d') fs seen acc st1.
Proof.
  intros fs f1 nm k fr d' seen acc st n' d st1 E Hn Hde.
  rewrite struct_loop_record_cons_eq, E.
  rewrite map_next_value_record_g_eq. unfold node_at. rewrite Hn, sbind_sret.
  rewrite sbind_assoc. rewrite (sbind_ok _ _ _ _ _ Hde). rewrite sbind_sret. reflexivity.
Qed.

(* the names the visitor collected are the record's field names the target knows, in record order *)
Lemma struct_out_names : forall fs (R : nat -> evalue -> dval -> Prop) fields es l,
  struct_out fs R fields es l ->
  map fst l = filter (fun nm => has_field nm fs) (map fst fields).
Proof.
  intros fs R. induction fields as [|[nm k] fr IH]; intros [|v vr] l H; cbn [struct_out] in H.
  - subst l. reflexivity.
  - destruct H.
  - destruct H.
  - cbn [map fst filter]. destruct (has_field nm fs).
    + destruct H as (d & l' & -> & _ & H). cbn [map fst]. f_equal. apply IH with (es := vr). exact H.
    + apply IH with (es := vr). exact H.
Qed.

(* the struct visitor over a record node, given the behaviour of every field's target *)
Lemma de_struct_record_core : forall nm fields es sn fs (R : nat -> evalue -> dval -> Prop)
                                     d' favor fuel rest pos ma,
  adm Sc cfg (FRecord nm fields) (ERecord es) ->
  NoDup (map fst fields) ->
  fields_P (field_spec Sc cfg fs R d') fields es ->
  (de_fuel (ERecord es) <= fuel)%nat ->
  exists l,
    de Sc cfg fuel (FRecord nm fields) (S d') favor false (TStruct sn fs)
      (mkRd (encode_e Sc (FRecord nm fields) (ERecord es) ++ rest) pos None ma)
    = (Ok (DStruct (l ++ missing_fields fs (seen_after fs fields (repeat false (length fs))))),
       mkRd rest (pos + N.of_nat (length (encode_e Sc (FRecord nm fields) (ERecord es)))) None ma)
    /\ struct_out fs R fields es l.
Proof.
  intros nm fields es sn fs R d' favor fuel rest pos ma Hadm Hnd Hspec Hfuel.
  destruct fuel as [|f]; [unfold de_fuel in Hfuel; lia|].
  destruct (record_pre Sc cfg _ _ _ _ _ Hadm Hfuel) as (dp & f1 & M & Hdp & -> & Hf1 & _ & HM).
  rewrite de_struct_eq. rewrite encode_record_eq.
  cbn [any_g dec_depth]. rewrite sbind_sret. rewrite map_visit_struct_eq.
  assert (Hnds : no_dup_seen fs fields (repeat false (length fs))).
  { apply no_dup_seen_intro; [exact Hnd|]. intros. apply nth_repeat_false. }
  destruct (struct_loop_g Sc cfg fs R es fields d' M _ Hspec Hnds HM f1 [] rest pos ma Hf1)
    as (l & Hl & Hout).
  rewrite (sbind_ok _ _ _ _ _ Hl). exists l. split; [reflexivity|exact Hout].
Qed.

End StructRecord.

(* two struct targets over the same record, run side by side *)
Definition known_by (fs : list (bytes * dtarget)) (p : bytes * dval) : bool := has_field (fst p) fs.

Section StructCompare.
Variable Sc : fschema.
Variable cfg : dcfg.
Variable fs1 fs2 : list (bytes * dtarget).
Variable R : nat -> evalue -> dval -> Prop.
(* every field of the first target is a field of the second, with the same target *)
Hypothesis Hsub : forall nm i tf,
  find_field nm fs1 O = Some (i, tf) -> exists j, find_field nm fs2 O = Some (j, tf).

Lemma struct_loop_compare : forall es fields d' M seen1 seen2,
  fields_P (field_spec Sc cfg fs2 R d') fields es ->
  fields_P (fun _ k v => item_g Sc cfg TIgnored Rign k d' v) fields es ->
  no_dup_seen fs1 fields seen1 -> no_dup_seen fs2 fields seen2 ->
  Forall (fun e => (de_fuel e <= M)%nat) es ->
  forall fuel acc1 acc2 rest pos ma, (length es + 2 + M <= fuel)%nat ->
  exists l1 l2,
    struct_loop Sc cfg fuel (MSRecord fields d') fs1 seen1 acc1
      (mkRd (enc_fields Sc fields es ++ rest) pos None ma)
    = (Ok (rev acc1 ++ l1 ++ missing_fields fs1 (seen_after fs1 fields seen1)),
       mkRd rest (pos + N.of_nat (length (enc_fields Sc fields es))) None ma) /\
    struct_loop Sc cfg fuel (MSRecord fields d') fs2 seen2 acc2
      (mkRd (enc_fields Sc fields es ++ rest) pos None ma)
    = (Ok (rev acc2 ++ l2 ++ missing_fields fs2 (seen_after fs2 fields seen2)),
       mkRd rest (pos + N.of_nat (length (enc_fields Sc fields es))) None ma) /\
    l1 = filter (known_by fs1) l2 /\ struct_out fs2 R fields es l2.
Proof.
  induction es as [|v vr IH]; intros fields d' M seen1 seen2 Hspec Hign Hnd1 Hnd2 HM
    fuel acc1 acc2 rest pos ma Hfuel.
  - destruct fields as [|[nm k] fr]; [|destruct Hspec].
    destruct fuel as [|f]; [lia|]. destruct f as [|f1]; [lia|].
    rewrite !struct_loop_record_nil_eq.
    exists [], []. cbn [enc_fields app length seen_after]. unfold sret.
    replace (pos + N.of_nat 0) with pos by lia.
    split; [reflexivity|]. split; [reflexivity|]. split; reflexivity.
  - destruct fields as [|[nm k] fr]; [destruct Hspec|].
    cbn [fields_P] in Hspec, Hign. destruct Hspec as [Hv Hspec]. destruct Hign as [Hvi Hign].
    inversion HM as [|? ? HM1 HM2]; subst.
    cbn [length] in Hfuel.
    destruct fuel as [|f]; [lia|]. destruct f as [|f1]; [lia|].
    destruct Hvi as (n' & Hn & Hvi).
    assert (Hpos : pos + N.of_nat (length (encode_e Sc n' v)) + N.of_nat (length (enc_fields Sc fr vr))
                   = pos + N.of_nat (length (enc_fields Sc ((nm, k) :: fr) (v :: vr)))).
    { cbn [enc_fields]. unfold enc_at. rewrite Hn, app_length. lia. }
    rewrite <- Hpos. clear Hpos.
    cbn [enc_fields]. unfold enc_at. rewrite Hn. rewrite <- app_assoc.
    cbn [no_dup_seen] in Hnd1, Hnd2. cbn [seen_after struct_out]. unfold field_spec in Hv.
    destruct (find_field nm fs1 O) as [[i1 tf]|] eqn:E1.
    + destruct (Hsub nm i1 tf E1) as (j & E2). rewrite E2 in *.
      destruct Hnd1 as [Hsn1 Hnd1]. destruct Hnd2 as [Hsn2 Hnd2].
      destruct Hv as (n2 & Hn2 & Hv). rewrite Hn in Hn2. inversion Hn2; subst n2. clear Hn2.
      destruct (Hv f1 (enc_fields Sc fr vr ++ rest) pos ma ltac:(lia)) as (d & Hde & Hdv).
      rewrite (struct_step_known Sc cfg fs1 f1 nm k fr d' seen1 acc1 _ i1 tf n' d _ E1 Hsn1 Hn Hde).
      rewrite (struct_step_known Sc cfg fs2 f1 nm k fr d' seen2 acc2 _ j tf n' d _ E2 Hsn2 Hn Hde).
      destruct (IH fr d' M (set_seen seen1 i1) (set_seen seen2 j) Hspec Hign Hnd1 Hnd2 HM2 (S f1)
                  ((nm, d) :: acc1) ((nm, d) :: acc2) rest
                  (pos + N.of_nat (length (encode_e Sc n' v))) ma ltac:(lia))
        as (l1 & l2 & H1 & H2 & Hfl & Hout).
      exists ((nm, d) :: l1), ((nm, d) :: l2).
      destruct (find_field_some _ _ _ _ _ E1) as (Hhas1 & _).
      destruct (find_field_some _ _ _ _ _ E2) as (Hhas2 & _).
      rewrite Hhas2.
      split; [rewrite H1; cbn [rev]; rewrite <- !app_assoc; reflexivity|].
      split; [rewrite H2; cbn [rev]; rewrite <- !app_assoc; reflexivity|].
      split.
      * cbn [filter]. unfold known_by at 1. cbn [fst]. rewrite Hhas1. f_equal. exact Hfl.
      * exists d, l2. split; [reflexivity|]. split; assumption.
    + pose proof (find_field_none_has _ _ _ E1) as Hhas1.
      destruct (Hvi f1 (enc_fields Sc fr vr ++ rest) pos ma ltac:(lia)) as (dI & HdeI & _).
      rewrite (struct_step_unknown Sc cfg fs1 f1 nm k fr d' seen1 acc1 _ n' dI _ E1 Hn HdeI).
      destruct (find_field nm fs2 O) as [[j tf2]|] eqn:E2.
      * destruct Hnd2 as [Hsn2 Hnd2].
        destruct Hv as (n2 & Hn2 & Hv). rewrite Hn in Hn2. inversion Hn2; subst n2. clear Hn2.
        destruct (Hv f1 (enc_fields Sc fr vr ++ rest) pos ma ltac:(lia)) as (d & Hde & Hdv).
        rewrite (struct_step_known Sc cfg fs2 f1 nm k fr d' seen2 acc2 _ j tf2 n' d _ E2 Hsn2 Hn Hde).
        destruct (IH fr d' M seen1 (set_seen seen2 j) Hspec Hign Hnd1 Hnd2 HM2 (S f1)
                    acc1 ((nm, d) :: acc2) rest
                    (pos + N.of_nat (length (encode_e Sc n' v))) ma ltac:(lia))
          as (l1 & l2 & H1 & H2 & Hfl & Hout).
        exists l1, ((nm, d) :: l2).
        destruct (find_field_some _ _ _ _ _ E2) as (Hhas2 & _). rewrite Hhas2.
        split; [exact H1|].
        split; [rewrite H2; cbn [rev]; rewrite <- !app_assoc; reflexivity|].
        split.
        -- cbn [filter]. unfold known_by at 1. cbn [fst]. rewrite Hhas1. exact Hfl.
        -- exists d, l2. split; [reflexivity|]. split; assumption.
      * rewrite (struct_step_unknown Sc cfg fs2 f1 nm k fr d' seen2 acc2 _ n' dI _ E2 Hn HdeI).
        destruct (IH fr d' M seen1 seen2 Hspec Hign Hnd1 Hnd2 HM2 (S f1) acc1 acc2 rest
                    (pos + N.of_nat (length (encode_e Sc n' v))) ma ltac:(lia))
          as (l1 & l2 & H1 & H2 & Hfl & Hout).
        exists l1, l2. rewrite (find_field_none_has _ _ _ E2).
        split; [exact H1|]. split; [exact H2|]. split; assumption.
Qed.

End StructCompare.

(* ------------------------------------------------------------------ *)
(** * 13. A struct target that lacks fields of the record (serde's derived visitor skips unknown
      keys with IgnoredAny) *)

Section StructSkips.
Variable Sc : fschema.
Variable cfg : dcfg.

(* each field the target knows is decoded by its target with a result related by [R] *)
Definition known_fields_ok (fs : list (bytes * dtarget)) (R : nat -> evalue -> dval -> Prop) (d' : nat)
  (fields : list (bytes * nat)) (es : list evalue) : Prop :=
  fields_P (fun nm k v => forall i tf, find_field nm fs O = Some (i, tf) ->
                                       item_g Sc cfg tf (R k) k d' v) fields es.

Lemma record_fields_pre : forall nm fields es d',
  pre Sc cfg (FRecord nm fields) (S d') (ERecord es) ->
  fields_P (fun _ k v => pre_at Sc cfg k d' v) fields es.
Proof.
  intros nm fields es d' Hpre.
  assert (Hfuel : (de_fuel (ERecord es) <= S (de_fuel (ERecord es) - 1))%nat) by lia.
  destruct (record_pre Sc cfg _ _ _ _ _ Hpre Hfuel) as (d0 & f1 & M & Hd & _ & _ & Hfl & _).
  inversion Hd; subst d0. exact Hfl.
Qed.

Lemma record_fields_ignorable : forall nm fields es d',
  pre Sc cfg (FRecord nm fields) (S d') (ERecord es) ->
  fields_P (fun _ k v => item_g Sc cfg TIgnored Rign k d' v) fields es.
Proof.
  intros nm fields es d' Hpre.
  pose proof (record_fields_pre nm fields es d' Hpre) as Hfl.
  revert Hfl. apply fields_P_impl. intros _ k v _ Hp.
  apply ign_item_g; [|exact Hp]. apply de_ignored_gen.
Qed.

Lemma record_field_spec : forall nm fields es d' fs R,
  pre Sc cfg (FRecord nm fields) (S d') (ERecord es) ->
  known_fields_ok fs R d' fields es ->
  fields_P (field_spec Sc cfg fs R d') fields es.
Proof.
  intros nm fields es d' fs R Hpre Hk.
  pose proof (fields_P_conj _ _ _ _ Hk (record_fields_ignorable nm fields es d' Hpre)) as H.
  revert H. apply fields_P_impl. intros nm0 k v _ [H1 H2]. unfold field_spec.
  destruct (find_field nm0 fs O) as [[i tf]|] eqn:E; [apply (H1 i tf eq_refl)|exact H2].
Qed.

(** The struct visitor over a record, any set of target fields: the record is consumed exactly,
    the target's fields that the record has are collected in record order (each by its own
    target), record fields the target lacks contribute nothing, and target fields the record
    lacks are reported missing. *)
Theorem struct_visit_record : forall nm fields es sn fs (R : nat -> evalue -> dval -> Prop)
                                     d' favor fuel rest pos ma,
  pre Sc cfg (FRecord nm fields) (S d') (ERecord es) ->
  NoDup (map fst fields) ->
  known_fields_ok fs R d' fields es ->
  (de_fuel (ERecord es) <= fuel)%nat ->
  exists l,
    de Sc cfg fuel (FRecord nm fields) (S d') favor false (TStruct sn fs)
      (mkRd (encode_e Sc (FRecord nm fields) (ERecord es) ++ rest) pos None ma)
    = (Ok (DStruct (l ++ missing_fields fs (seen_after fs fields (repeat false (length fs))))),
       mkRd rest (pos + N.of_nat (length (encode_e Sc (FRecord nm fields) (ERecord es)))) None ma)
    /\ struct_out fs R fields es l
    /\ map fst l = filter (fun nm => has_field nm fs) (map fst fields).
Proof.
  intros nm fields es sn fs R d' favor fuel rest pos ma Hpre Hnd Hk Hfuel.
  destruct (de_struct_record_core Sc cfg nm fields es sn fs R d' favor fuel rest pos ma
              (pre_adm Sc cfg _ _ _ Hpre) Hnd (record_field_spec nm fields es d' fs R Hpre Hk) Hfuel)
    as (l & Hde & Hout).
  exists l. split; [exact Hde|]. split; [exact Hout|]. eapply struct_out_names. exact Hout.
Qed.

(** C12, records: the target's field names are a subset of the record's. *)
Theorem struct_skips_missing_fields : forall nm fields es sn fs (R : nat -> evalue -> dval -> Prop)
                                             d' favor fuel rest pos ma,
  conforms Sc (FRecord nm fields) (erase (ERecord es)) = true ->
  layout_ok (ERecord es) = true ->
  within_limits Sc cfg (FRecord nm fields) (ERecord es) = true ->
  (depth_cost (ERecord es) <= S d')%nat ->
  counts_fit (ERecord es) = true ->
  (Z.of_nat (length (encode_e Sc (FRecord nm fields) (ERecord es))) <= I64_MAX)%Z ->
  NoDup (map fst fields) -> NoDup (map fst fs) -> incl (map fst fs) (map fst fields) ->
  known_fields_ok fs R d' fields es ->
  (de_fuel (ERecord es) <= fuel)%nat ->
  exists l,
    de Sc cfg fuel (FRecord nm fields) (S d') favor false (TStruct sn fs)
      (mkRd (encode_e Sc (FRecord nm fields) (ERecord es) ++ rest) pos None ma)
    = (Ok (DStruct l),
       mkRd rest (pos + N.of_nat (length (encode_e Sc (FRecord nm fields) (ERecord es)))) None ma)
    /\ struct_out fs R fields es l
    /\ map fst l = filter (fun nm => has_field nm fs) (map fst fields).
Proof.
  intros nm fields es sn fs R d' favor fuel rest pos ma Hc Hl Hw Hd Hf He Hnd Hnds Hincl Hk Hfuel.
  assert (Hpre : pre Sc cfg (FRecord nm fields) (S d') (ERecord es)) by (repeat split; assumption).
  destruct (struct_visit_record nm fields es sn fs R d' favor fuel rest pos ma Hpre Hnd Hk Hfuel)
    as (l & Hde & Hout & Hnames).
  rewrite (nothing_missing fs fields Hnds Hincl), app_nil_r in Hde.
  exists l. split; [exact Hde|]. split; assumption.
Qed.

Lemma incl_find_field : forall (fs1 fs2 : list (bytes * dtarget)),
  NoDup (map fst fs2) -> incl fs1 fs2 ->
  forall nm i tf, find_field nm fs1 O = Some (i, tf) -> exists j, find_field nm fs2 O = Some (j, tf).
Proof.
  intros fs1 fs2 Hnd Hincl nm i tf E.
  destruct (find_field_some _ _ _ _ _ E) as (_ & a & _ & Ha).
  apply nth_error_In in Ha. apply Hincl in Ha.
  destruct (find_field_in fs2 nm tf Hnd Ha) as (j & Hj & _). exists j. exact Hj.
Qed.

(** C12, corollary: a target that lacks some fields against a fuller target (both within the
    record): both leave the reader in the same state, right behind the encoding, and the smaller
    target's fields are exactly the fuller target's results for the fields both know. *)
Theorem struct_fewer_fields_agree : forall nm fields es sn1 sn2 fs1 fs2
                                           (R : nat -> evalue -> dval -> Prop)
                                           d' favor fuel rest pos ma,
  pre Sc cfg (FRecord nm fields) (S d') (ERecord es) ->
  NoDup (map fst fields) -> NoDup (map fst fs1) -> NoDup (map fst fs2) ->
  incl fs1 fs2 -> incl (map fst fs2) (map fst fields) ->
  known_fields_ok fs2 R d' fields es ->
  (de_fuel (ERecord es) <= fuel)%nat ->
  exists l1 l2 st',
    de Sc cfg fuel (FRecord nm fields) (S d') favor false (TStruct sn1 fs1)
      (mkRd (encode_e Sc (FRecord nm fields) (ERecord es) ++ rest) pos None ma) = (Ok (DStruct l1), st') /\
    de Sc cfg fuel (FRecord nm fields) (S d') favor false (TStruct sn2 fs2)
      (mkRd (encode_e Sc (FRecord nm fields) (ERecord es) ++ rest) pos None ma) = (Ok (DStruct l2), st') /\
    st' = mkRd rest (pos + N.of_nat (length (encode_e Sc (FRecord nm fields) (ERecord es)))) None ma /\
    l1 = filter (known_by fs1) l2 /\
    struct_out fs2 R fields es l2.
Proof.
  intros nm fields es sn1 sn2 fs1 fs2 R d' favor fuel rest pos ma Hpre Hnd Hnd1 Hnd2 Hi12 Hi2 Hk Hfuel.
  pose proof (incl_find_field fs1 fs2 Hnd2 Hi12) as Hsub.
  assert (Hi1 : incl (map fst fs1) (map fst fields)).
  { intros x Hx. apply Hi2. apply in_map_iff in Hx. destruct Hx as (p & <- & Hp).
    apply in_map. apply Hi12. exact Hp. }
  destruct fuel as [|f]; [unfold de_fuel in Hfuel; lia|].
  destruct (record_pre Sc cfg _ _ _ _ _ Hpre Hfuel) as (d0 & f1 & M & Hd & -> & Hf1 & _ & HM).
  inversion Hd; subst d0. clear Hd.
  rewrite !de_struct_eq. rewrite encode_record_eq.
  cbn [any_g dec_depth]. rewrite !sbind_sret. rewrite !map_visit_struct_eq.
  assert (Hs1 : no_dup_seen fs1 fields (repeat false (length fs1))).
  { apply no_dup_seen_intro; [exact Hnd|]. intros. apply nth_repeat_false. }
  assert (Hs2 : no_dup_seen fs2 fields (repeat false (length fs2))).
  { apply no_dup_seen_intro; [exact Hnd|]. intros. apply nth_repeat_false. }
  destruct (struct_loop_compare Sc cfg fs1 fs2 R Hsub es fields d' M _ _
              (record_field_spec nm fields es d' fs2 R Hpre Hk)
              (record_fields_ignorable nm fields es d' Hpre) Hs1 Hs2 HM f1 [] [] rest pos ma Hf1)
    as (l1 & l2 & H1 & H2 & Hfl & Hout).
  rewrite (nothing_missing fs1 fields Hnd1 Hi1), app_nil_r in H1.
  rewrite (nothing_missing fs2 fields Hnd2 Hi2), app_nil_r in H2.
  cbn [rev app] in H1, H2.
  exists l1, l2. eexists.
  rewrite (sbind_ok _ _ _ _ _ H1), (sbind_ok _ _ _ _ _ H2).
  split; [reflexivity|]. split; [reflexivity|]. split; [reflexivity|]. split; assumption.
Qed.

End StructSkips.

(* ------------------------------------------------------------------ *)
(** * 14. Maps, arrays and union branches whose target ignores part of the data *)

Lemma conforms_record_inv Sc nm fields e :
  conforms Sc (FRecord nm fields) (erase e) = true -> exists es, e = ERecord es.
Proof. intro Hc. destruct e; cbn [erase conforms] in Hc; try discriminate Hc. eexists; reflexivity. Qed.

Section PartlyIgnored.
Variable Sc : fschema.
Variable cfg : dcfg.

Definition Rkey_str (key : bytes) (dk : dval) : Prop := erase_borrow dk = DStr key.

Lemma key_spec_str : key_spec (THint HStr) Rkey_str.
Proof.
  intros key tail pos ma Hk Hu. eexists. split.
  - unfold keyrd. apply read_ld_str_app; assumption.
  - reflexivity.
Qed.

(** Maps under [TMap tk tv]. *)
Theorem map_values_target_g : forall tk tv (RK : bytes -> dval -> Prop) (RV : evalue -> dval -> Prop)
                                     k blocks d' favor fuel rest pos ma,
  key_spec tk RK ->
  pre Sc cfg (FMap k) (S d') (EMap blocks) ->
  (forall kv, In kv (flat_map snd blocks) -> pre_at Sc cfg k d' (snd kv) ->
              item_g Sc cfg tv RV k d' (snd kv)) ->
  (de_fuel (EMap blocks) <= fuel)%nat ->
  exists kvs,
    de Sc cfg fuel (FMap k) (S d') favor false (TMap tk tv)
      (mkRd (encode_e Sc (FMap k) (EMap blocks) ++ rest) pos None ma)
    = (Ok (DMap kvs),
       mkRd rest (pos + N.of_nat (length (encode_e Sc (FMap k) (EMap blocks)))) None ma)
    /\ Forall2 (Rkv RK RV) (flat_map snd blocks) kvs.
Proof.
  intros tk tv RK RV k blocks d' favor fuel rest pos ma Hkey Hpre Hit Hfuel.
  apply (de_map_g Sc cfg tk tv RK RV k blocks d' favor fuel rest pos ma Hkey (pre_adm _ _ _ _ _ Hpre));
    [|exact Hfuel].
  intros blk kv dp Hblk Hin Hdp Hp. apply Hit.
  - apply in_flat_map. exists blk. split; assumption.
  - apply (pre_at_mono Sc cfg k dp d'); [exact Hp|]. destruct Hpre as (_ & _ & _ & Hd & _). lia.
Qed.

(** C12, maps: every value ignored ([TMap str IgnoredAny]): the keys are delivered, every value is
    skipped by exactly its encoded length (any block layout, including byte-size-prefixed blocks:
    with a map target the blocks are entered and the values skipped one by one). *)
Theorem map_ignored_values : forall k blocks d' favor fuel rest pos ma,
  pre Sc cfg (FMap k) (S d') (EMap blocks) ->
  (de_fuel (EMap blocks) <= fuel)%nat ->
  exists kvs,
    de Sc cfg fuel (FMap k) (S d') favor false (TMap (THint HStr) TIgnored)
      (mkRd (encode_e Sc (FMap k) (EMap blocks) ++ rest) pos None ma)
    = (Ok (DMap kvs),
       mkRd rest (pos + N.of_nat (length (encode_e Sc (FMap k) (EMap blocks)))) None ma)
    /\ Forall2 (fun (kv : bytes * evalue) (dd : dval * dval) =>
                  erase_borrow (fst dd) = DStr (fst kv) /\ snd dd = DIgnored)
               (flat_map snd blocks) kvs.
Proof.
  intros k blocks d' favor fuel rest pos ma Hpre Hfuel.
  destruct (map_values_target_g (THint HStr) TIgnored Rkey_str Rign k blocks d' favor fuel rest pos ma
              key_spec_str Hpre) as (kvs & Hde & HF); [|exact Hfuel|].
  - intros kv _ Hp. apply ign_item_g; [apply de_ignored_gen|exact Hp].
  - exists kvs. split; [exact Hde|exact HF].
Qed.

(** Arrays under [TSeq t1]. *)
Theorem seq_items_target_g : forall t1 (R : evalue -> dval -> Prop) k blocks d' favor fuel rest pos ma,
  pre Sc cfg (FArray k) (S d') (EArray blocks) ->
  (forall it, In it (flat_map snd blocks) -> pre_at Sc cfg k d' it -> item_g Sc cfg t1 R k d' it) ->
  (de_fuel (EArray blocks) <= fuel)%nat ->
  exists ds,
    de Sc cfg fuel (FArray k) (S d') favor false (TSeq t1)
      (mkRd (encode_e Sc (FArray k) (EArray blocks) ++ rest) pos None ma)
    = (Ok (DSeq ds),
       mkRd rest (pos + N.of_nat (length (encode_e Sc (FArray k) (EArray blocks)))) None ma)
    /\ Forall2 R (flat_map snd blocks) ds.
Proof.
  intros t1 R k blocks d' favor fuel rest pos ma Hpre Hit Hfuel.
  apply (de_seq_array_g Sc cfg t1 R k blocks d' favor fuel rest pos ma (pre_adm _ _ _ _ _ Hpre));
    [|exact Hfuel].
  intros blk it dp Hblk Hin Hdp Hp. apply Hit.
  - apply in_flat_map. exists blk. split; assumption.
  - apply (pre_at_mono Sc cfg k dp d'); [exact Hp|]. destruct Hpre as (_ & _ & _ & Hd & _). lia.
Qed.

(* what a struct target delivers for a record value *)
Definition struct_result (fs : list (bytes * dtarget)) (R : nat -> evalue -> dval -> Prop)
  (fields : list (bytes * nat)) (e : evalue) (d : dval) : Prop :=
  exists es l, e = ERecord es /\
    d = DStruct (l ++ missing_fields fs (seen_after fs fields (repeat false (length fs)))) /\
    struct_out fs R fields es l.

Lemma struct_item_g : forall k nm fields sn fs (R : nat -> evalue -> dval -> Prop) d'' e,
  fnode_at Sc k = Some (FRecord nm fields) -> NoDup (map fst fields) ->
  pre_at Sc cfg k (S d'') e ->
  (forall es, e = ERecord es -> known_fields_ok Sc cfg fs R d'' fields es) ->
  item_g Sc cfg (TStruct sn fs) (struct_result fs R fields) k (S d'') e.
Proof.
  intros k nm fields sn fs R d'' e Hn Hnd (n' & Hn' & Hpre) Hk.
  rewrite Hn in Hn'. inversion Hn'; subst n'. clear Hn'.
  exists (FRecord nm fields). split; [exact Hn|].
  pose proof Hpre as (Hc & _). destruct (conforms_record_inv _ _ _ _ Hc) as [es ->].
  intros fuel rest pos ma Hfuel.
  destruct (struct_visit_record Sc cfg nm fields es sn fs R d'' false fuel rest pos ma Hpre Hnd
              (Hk es eq_refl) Hfuel) as (l & Hde & Hout & _).
  eexists. split; [exact Hde|]. exists es, l. split; [reflexivity|]. split; [reflexivity|exact Hout].
Qed.

(** C12, arrays: an array of records read as [Vec<S>] where the struct [S] lacks fields of the
    record: every element is consumed exactly, the unknown fields are skipped. *)
Theorem seq_of_structs_lacking_fields : forall k nm fields sn fs (R : nat -> evalue -> dval -> Prop)
                                               blocks d'' favor fuel rest pos ma,
  fnode_at Sc k = Some (FRecord nm fields) -> NoDup (map fst fields) ->
  pre Sc cfg (FArray k) (S (S d'')) (EArray blocks) ->
  (forall es, In (ERecord es) (flat_map snd blocks) -> known_fields_ok Sc cfg fs R d'' fields es) ->
  (de_fuel (EArray blocks) <= fuel)%nat ->
  exists ds,
    de Sc cfg fuel (FArray k) (S (S d'')) favor false (TSeq (TStruct sn fs))
      (mkRd (encode_e Sc (FArray k) (EArray blocks) ++ rest) pos None ma)
    = (Ok (DSeq ds),
       mkRd rest (pos + N.of_nat (length (encode_e Sc (FArray k) (EArray blocks)))) None ma)
    /\ Forall2 (struct_result fs R fields) (flat_map snd blocks) ds.
Proof.
  intros k nm fields sn fs R blocks d'' favor fuel rest pos ma Hn Hnd Hpre Hk Hfuel.
  apply (seq_items_target_g (TStruct sn fs) (struct_result fs R fields) k blocks (S d'') favor fuel
           rest pos ma Hpre); [|exact Hfuel].
  intros it Hin Hp. apply (struct_item_g k nm fields sn fs R d'' it Hn Hnd Hp).
  intros es ->. apply Hk. exact Hin.
Qed.

(* fields read with deserialize_any satisfy [known_fields_ok] *)
Definition Rany (k : nat) (e : evalue) (d : dval) : Prop := erase_borrow d = dany_at Sc k (erase e).

Lemma any_item_g k d' e : pre_at Sc cfg k d' e -> item_g Sc cfg TAny (Rany k) k d' e.
Proof.
  intros (n' & Hn & Hpre). exists n'. split; [exact Hn|].
  intros fuel rest pos ma Hfuel.
  destruct (de_any_gen Sc cfg e n' d' Hpre fuel false false rest pos ma Hfuel) as (d & Hde & Hdv).
  exists d. split; [exact Hde|]. unfold Rany, dany_at. rewrite Hn. exact Hdv.
Qed.

Lemma known_fields_any : forall nm fields es d' fs,
  pre Sc cfg (FRecord nm fields) (S d') (ERecord es) ->
  (forall f tf, In (f, tf) fs -> tf = TAny) ->
  known_fields_ok Sc cfg fs Rany d' fields es.
Proof.
  intros nm fields es d' fs Hpre Hany.
  pose proof (record_fields_pre Sc cfg nm fields es d' Hpre) as Hfl.
  revert Hfl. apply fields_P_impl. intros f k v _ Hp i tf E.
  destruct (find_field_some _ _ _ _ _ E) as (_ & a & _ & Ha). apply nth_error_In in Ha.
  rewrite (Hany f tf Ha). apply any_item_g. exact Hp.
Qed.

(** C12, unions: a branch consumed as a unit variant of an enum target (the variant is found by the
    branch's type name): the payload is skipped exactly. *)
Lemma de_enum_union_eq f ks depth en variants :
  de Sc cfg (S f) (FUnion ks) depth false false (TEnum en variants)
  = (do* disc <- read_usize;
     match nth_N ks disc with
     | None => rfail (Err EData)
     | Some k => do* d' <- dec_depth depth; do* vn <- node_at Sc k;
                 enum_payload Sc cfg f variants (type_name vn) vn d'
     end).
Proof. reflexivity. Qed.

Theorem union_branch_as_unit_variant : forall ks i v en variants vname j k n' d' fuel rest pos ma,
  pre Sc cfg (FUnion ks) (S d') (EUnion i v) ->
  nth_error ks i = Some k -> fnode_at Sc k = Some n' ->
  index_of (type_name n') (map fst variants) = Some j ->
  nth_error variants j = Some (vname, TVUnit) ->
  (de_fuel (EUnion i v) <= fuel)%nat ->
  de Sc cfg fuel (FUnion ks) (S d') false false (TEnum en variants)
    (mkRd (encode_e Sc (FUnion ks) (EUnion i v) ++ rest) pos None ma)
  = (Ok (DEnum vname DUnit),
     mkRd rest (pos + N.of_nat (length (encode_e Sc (FUnion ks) (EUnion i v)))) None ma).
Proof.
  intros ks i v en variants vname j k n' d' fuel rest pos ma Hpre Hk Hn Hidx Hnth Hfuel.
  destruct fuel as [|f]; [unfold de_fuel in Hfuel; lia|].
  destruct (union_pre Sc cfg _ _ _ _ _ Hpre Hfuel)
    as (k0 & n0 & d0 & Hk0 & Hn0 & Hd & Hfi & Hi & Hpre' & Hfu & Henc).
  rewrite Hk in Hk0. inversion Hk0; subst k0. rewrite Hn in Hn0. inversion Hn0; subst n0.
  inversion Hd; subst d0. clear Hk0 Hn0 Hd.
  rewrite de_enum_union_eq, Henc. rewrite <- app_assoc.
  rewrite (sbind_ok _ _ _ _ _ (read_usize_nat i _ pos ma Hfi)).
  rewrite (nth_N_of_nat _ _ Hi), Hk.
  cbn [dec_depth]. rewrite sbind_sret. unfold node_at. rewrite Hn, sbind_sret.
  destruct f as [|f']; [lia|].
  rewrite enum_payload_S. unfold enum_payload_step. rewrite Hidx, Hnth.
  pose proof (de_ignored_gen Sc cfg v n' d' Hpre' f' false false rest
                (pos + N.of_nat (length (spec_long (Z.of_nat i)))) ma ltac:(lia)) as Hig.
  unfold ign_post in Hig. rewrite (sbind_ok _ _ _ _ _ Hig).
  unfold sret. f_equal. f_equal. rewrite app_length. lia.
Qed.

End PartlyIgnored.

(* ------------------------------------------------------------------ *)
(** * 15. The [ignored = true] fast path: a block that carries its byte size is jumped over
      without being looked at -- its content may be arbitrary bytes *)

Definition raw_neg_block (b : nat * bytes) : bytes :=
  blk_hdr true (S (fst b)) (length (snd b)) ++ snd b.
Definition raw_ok (b : nat * bytes) : Prop := fits_long (S (fst b)) /\ fits_long (length (snd b)).

Lemma raw_neg_block_eq m items :
  raw_neg_block (m, items) = blk_hdr true (S m) (length items) ++ items.
Proof. reflexivity. Qed.

Section RawBlocks.
Variable Sc : fschema.
Variable cfg : dcfg.

Lemma has_more_raw_blocks : forall blocks fh nread fin rest pos ma,
  Forall raw_ok blocks -> (length blocks + 1 <= fh)%nat ->
  has_more fh cfg true (mkBlk 0 nread fin)
    (mkRd (flat_map raw_neg_block blocks ++ spec_long 0 ++ rest) pos None ma)
  = (Ok (false, mkBlk 0 nread true),
     mkRd rest (pos + N.of_nat (length (flat_map raw_neg_block blocks ++ spec_long 0))) None ma).
Proof.
  induction blocks as [|[m items] bl IH]; intros fh nread fin rest pos ma HF Hfh.
  - cbn [flat_map app length] in *. destruct fh as [|fh1]; [lia|]. apply has_more_end_g.
  - inversion HF as [|? ? [Hm Hb] HF']; subst. cbn [fst snd length] in *.
    destruct fh as [|fh1]; [lia|].
    cbn [flat_map]. rewrite raw_neg_block_eq. rewrite <- !app_assoc.
    rewrite (has_more_skip cfg fh1 m items nread fin _ pos ma Hm Hb).
    rewrite (IH fh1 nread fin rest _ ma HF' ltac:(lia)).
    f_equal. f_equal. rewrite !app_length. lia.
Qed.

Theorem ignored_array_jumps_raw_blocks : forall k blocks d' favor fuel rest pos ma,
  Forall raw_ok blocks -> (length blocks + 4 <= fuel)%nat ->
  de Sc cfg fuel (FArray k) (S d') favor false TIgnored
    (mkRd (flat_map raw_neg_block blocks ++ spec_long 0 ++ rest) pos None ma)
  = (Ok DIgnored,
     mkRd rest (pos + N.of_nat (length (flat_map raw_neg_block blocks ++ spec_long 0))) None ma).
Proof.
  intros k blocks d' favor fuel rest pos ma HF Hfuel.
  destruct fuel as [|f]; [lia|]. destruct f as [|f1]; [lia|]. destruct f1 as [|f2]; [lia|].
  rewrite de_ign_eq. cbn [ign_step dec_depth]. rewrite sbind_sret.
  rewrite seq_array_g_eq. cbn [seq_policy]. rewrite seq_array_loop_g_eq. unfold blk0.
  rewrite sbind_assoc.
  rewrite (sbind_ok _ _ _ _ _ (has_more_raw_blocks blocks f2 0 false rest pos ma HF ltac:(lia))).
  reflexivity.
Qed.

Theorem ignored_map_jumps_raw_blocks : forall k blocks d' favor fuel rest pos ma,
  Forall raw_ok blocks -> (length blocks + 5 <= fuel)%nat ->
  de Sc cfg fuel (FMap k) (S d') favor false TIgnored
    (mkRd (flat_map raw_neg_block blocks ++ spec_long 0 ++ rest) pos None ma)
  = (Ok DIgnored,
     mkRd rest (pos + N.of_nat (length (flat_map raw_neg_block blocks ++ spec_long 0))) None ma).
Proof.
  intros k blocks d' favor fuel rest pos ma HF Hfuel.
  destruct fuel as [|f]; [lia|]. destruct f as [|f1]; [lia|]. destruct f1 as [|f2]; [lia|].
  destruct f2 as [|f3]; [lia|].
  rewrite de_ign_eq. cbn [ign_step dec_depth]. rewrite sbind_sret.
  rewrite (map_visit_generic_eq Sc cfg _ _ TIgnored TIgnored TIgnored true eq_refl).
  unfold blk0.
  assert (Hloop : map_loop Sc cfg (S (S f3)) (MSMap k d' true (mkBlk 0 0 false)) TIgnored TIgnored []
                    (mkRd (flat_map raw_neg_block blocks ++ spec_long 0 ++ rest) pos None ma)
                  = (Ok [], mkRd rest (pos + N.of_nat (length (flat_map raw_neg_block blocks ++ spec_long 0)))
                                 None ma)).
  { rewrite map_loop_map_eq. rewrite sbind_assoc.
    rewrite (sbind_ok _ _ _ _ _ (has_more_raw_blocks blocks f3 0 false rest pos ma HF ltac:(lia))).
    reflexivity. }
  rewrite (sbind_ok _ _ _ _ _ Hloop). reflexivity.
Qed.

End RawBlocks.

(* ------------------------------------------------------------------ *)
(** * 16. Non-vacuity *)

(* record { a: int, b: array<int>, c: string } read as a struct { a, c }: the array, written as two
   blocks (the first one with a negative count and its byte size), is skipped *)
Example struct_skips_nested_array_instance :
  let nmR := mkName [82] None in
  let fields := [([97], 1%nat); ([98], 2%nat); ([99], 3%nat)] in
  let Sc := [FRecord nmR fields; FInt; FArray 1%nat; FString] in
  let es := [EInt 5; EArray [(true, [EInt 1; EInt 2]); (false, [EInt 3])]; EString [104; 105]] in
  let e := ERecord es in
  let small := [([97], TAny); ([99], TAny)] in
  let full := [([97], TAny); ([98], TAny); ([99], TAny)] in
  schema_wf Sc = true /\ conforms Sc (FRecord nmR fields) (erase e) = true /\ layout_ok e = true /\
  within_limits Sc cfg_default (FRecord nmR fields) e = true /\ Nat.leb (depth_cost e) 64 = true /\
  counts_fit e = true /\
  encode_e Sc (FRecord nmR fields) e = [10; 3; 4; 2; 4; 2; 6; 0; 4; 104; 105] /\
  de Sc cfg_default (de_fuel e) (FRecord nmR fields) 64%nat false false (TStruct [83] small)
     (mkRd (encode_e Sc (FRecord nmR fields) e ++ [7]) 0 None 0)
  = (Ok (DStruct [([97], DInt true W32 5); ([99], DBStr 9 2 [104; 105])]), mkRd [7] 11 None 0) /\
  de Sc cfg_default (de_fuel e) (FRecord nmR fields) 64%nat false false (TStruct [83] full)
     (mkRd (encode_e Sc (FRecord nmR fields) e ++ [7]) 0 None 0)
  = (Ok (DStruct [([97], DInt true W32 5);
                  ([98], DSeq [DInt true W32 1; DInt true W32 2; DInt true W32 3]);
                  ([99], DBStr 9 2 [104; 105])]), mkRd [7] 11 None 0).
Proof. vm_compute. repeat split; reflexivity. Qed.

(* the hypotheses of [struct_fewer_fields_agree] hold for it *)
Example struct_fewer_fields_agree_instance :
  let nmR := mkName [82] None in
  let fields := [([97], 1%nat); ([98], 2%nat); ([99], 3%nat)] in
  let Sc := [FRecord nmR fields; FInt; FArray 1%nat; FString] in
  let es := [EInt 5; EArray [(true, [EInt 1; EInt 2]); (false, [EInt 3])]; EString [104; 105]] in
  let small := [([97], TAny); ([99], TAny)] in
  let full := [([97], TAny); ([98], TAny); ([99], TAny)] in
  exists l1 l2 st',
    de Sc cfg_default 100 (FRecord nmR fields) 64%nat false false (TStruct [83] small)
      (mkRd (encode_e Sc (FRecord nmR fields) (ERecord es) ++ [7]) 0 None 0) = (Ok (DStruct l1), st') /\
    de Sc cfg_default 100 (FRecord nmR fields) 64%nat false false (TStruct [83] full)
      (mkRd (encode_e Sc (FRecord nmR fields) (ERecord es) ++ [7]) 0 None 0) = (Ok (DStruct l2), st') /\
    st' = mkRd [7] (0 + N.of_nat (length (encode_e Sc (FRecord nmR fields) (ERecord es)))) None 0 /\
    l1 = filter (known_by small) l2 /\
    struct_out full (Rany Sc) fields es l2.
Proof.
  cbv zeta.
  apply struct_fewer_fields_agree.
  - repeat split; try (vm_compute; reflexivity); try (vm_compute; lia); vm_compute; discriminate.
  - apply distinct_NoDup. vm_compute. reflexivity.
  - apply distinct_NoDup. vm_compute. reflexivity.
  - apply distinct_NoDup. vm_compute. reflexivity.
  - intros x Hx. cbn [In] in *. tauto.
  - intros x Hx. exact Hx.
  - apply (known_fields_any _ _ (mkName [82] None)).
    + repeat split; try (vm_compute; reflexivity); try (vm_compute; lia); vm_compute; discriminate.
    + intros f tf Hin. cbn [In] in Hin.
      destruct Hin as [H|[H|[H|[]]]]; inversion H; reflexivity.
  - vm_compute. lia.
Qed.

(* a byte-size-prefixed block of garbage inside an ignored array is jumped over *)
Example ignored_array_jumps_garbage_instance :
  de [FArray 1%nat; FString] cfg_default 10 (FArray 1%nat) 64%nat false false TIgnored
     (mkRd (flat_map raw_neg_block [(2%nat, [255; 255; 255; 255; 255])] ++ spec_long 0 ++ [7]) 0 None 0)
  = (Ok DIgnored, mkRd [7] 8 None 0)
  /\ flat_map raw_neg_block [(2%nat, [255; 255; 255; 255; 255])] ++ spec_long 0
     = [5; 10; 255; 255; 255; 255; 255; 0].
Proof. vm_compute. split; reflexivity. Qed.

(* a union branch read as a unit variant: the string payload is skipped *)
Example union_unit_variant_instance :
  let Sc := [FUnion [1%nat; 2%nat]; FNull; FString] in
  let e := EUnion 1%nat (EString [104; 105]) in
  de Sc cfg_default (de_fuel e) (FUnion [1%nat; 2%nat]) 64%nat false false
     (TEnum [85] [(type_name FNull, TVUnit); (type_name FString, TVUnit)])
     (mkRd (encode_e Sc (FUnion [1%nat; 2%nat]) e ++ [7]) 0 None 0)
  = (Ok (DEnum (type_name FString) DUnit), mkRd [7] 4 None 0).
Proof. vm_compute. reflexivity. Qed.

(* ------------------------------------------------------------------ *)
Print Assumptions struct_skips_missing_fields.
Print Assumptions struct_fewer_fields_agree.
Print Assumptions map_ignored_values.
Print Assumptions seq_of_structs_lacking_fields.
Print Assumptions union_branch_as_unit_variant.
Print Assumptions ignored_array_jumps_raw_blocks.
Print Assumptions ignored_map_jumps_raw_blocks.
