(** Property C01: the datum round trip  decode (encode (v, S), S) = v.

    The serializer theorem (SerProofs.to_datum_present_decimal: the canonical presentation of a
    conforming value is encoded to exactly the specification's bytes) and the deserializer theorem
    (DeProofs.de_any_complete_bounded: every valid encoding, whatever its block layout, is decoded
    by the dynamically typed consumer to the events of the value) are joined through the canonical
    layout [canon]:

      - [erase_canon], [layout_ok_canon], [counts_fit_canon], [within_limits_canon]: the canonical
        layout of a conforming value within the limits satisfies every precondition of the decoder;
      - [roundtrip_any], [roundtrip_any_default]: the round trip, observed through the event tree
        [dval_any];
      - [spec_encode_prefix_free], [spec_encode_injective]: the encoding determines the value
        (so equal bytes really mean equal values);
      - [dval_any_injective]: the observation determines the value, provided the branches of every
        union that is met have pairwise different observable shapes; counterexamples show that
        the proviso cannot be dropped. *)
From Coq Require Import NArith ZArith List Lia Bool ZifyN ZifyBool ZifyNat.
Import ListNotations.
Require Import Base Kinds Schema Varint Utf8 Sval Target Reader Ser Text De.
Require Import AvroValue Encoding Denote Wf.
Require Import VarintProofs.
Require SerProofs DeProofs.
Open Scope N_scope.

Ltac Zify.zify_post_hook ::= Z.to_euclidean_division_equations.

Arguments N.add : simpl never.
Arguments N.sub : simpl never.
Arguments N.mul : simpl never.
Arguments N.ltb : simpl never.
Arguments N.leb : simpl never.
Arguments N.eqb : simpl never.
Arguments N.of_nat : simpl never.
Arguments N.to_nat : simpl never.
Arguments Z.of_nat : simpl never.
Arguments Z.of_N : simpl never.
Arguments Z.leb : simpl never.
Arguments Z.ltb : simpl never.

Notation length := List.length (only parsing).

(* ------------------------------------------------------------------ *)
(** * 1. The canonical layout *)

Lemma map_id_Forall {A} (f : A -> A) l : Forall (fun x => f x = x) l -> map f l = l.
Proof. induction 1 as [|x l Hx _ IH]; [reflexivity|]. cbn [map]. now rewrite Hx, IH. Qed.

Lemma Forall_map_snd {A B} (P : B -> Prop) (l : list (A * B)) :
  Forall P (map snd l) -> Forall (fun x => P (snd x)) l.
Proof. apply Forall_map. Qed.

Theorem erase_canon : forall v, erase (canon v) = v.
Proof.
  induction v as [v IH] using SerProofs.avalue_children_ind.
  destruct v; cbn [SerProofs.children] in IH; try reflexivity.
  - (* array *)
    destruct vs as [|v0 vs]; [reflexivity|].
    cbn [canon erase flat_map snd]. rewrite app_nil_r, map_map. f_equal.
    apply map_id_Forall. exact IH.
  - (* map *)
    destruct kvs as [|kv0 kvs]; [reflexivity|].
    cbn [canon erase flat_map snd]. rewrite app_nil_r, map_map. f_equal.
    apply map_id_Forall. apply Forall_map_snd in IH.
    eapply Forall_impl; [|exact IH]. intros [k x] Hx. cbn [fst snd] in *. now rewrite Hx.
  - (* union *)
    cbn [canon erase]. inversion IH as [|? ? Hv _]; subst. now rewrite Hv.
  - (* record *)
    cbn [canon erase]. rewrite map_map. f_equal. apply map_id_Forall. exact IH.
Qed.

Lemma forallb_map {A B} (f : B -> bool) (g : A -> B) l : forallb f (map g l) = forallb (fun x => f (g x)) l.
Proof. induction l as [|x l IH]; [reflexivity|]. cbn [map forallb]. now rewrite IH. Qed.

Lemma forallb_Forall_true {A} (f : A -> bool) l : Forall (fun x => f x = true) l -> forallb f l = true.
Proof. induction 1 as [|x l Hx _ IH]; [reflexivity|]. cbn [forallb]. now rewrite Hx, IH. Qed.

Theorem layout_ok_canon : forall v, layout_ok (canon v) = true.
Proof.
  induction v as [v IH] using SerProofs.avalue_children_ind.
  destruct v; cbn [SerProofs.children] in IH; try reflexivity.
  - destruct vs as [|v0 vs]; [reflexivity|].
    cbn [canon layout_ok forallb snd]. rewrite andb_true_r, forallb_map.
    rewrite (forallb_Forall_true _ _ IH). reflexivity.
  - destruct kvs as [|kv0 kvs]; [reflexivity|].
    cbn [canon layout_ok forallb snd]. rewrite andb_true_r, forallb_map.
    apply Forall_map_snd in IH. cbn [snd].
    rewrite (forallb_Forall_true (fun x => layout_ok (canon (snd x))) _ IH). reflexivity.
  - cbn [canon layout_ok]. inversion IH; subst; assumption.
  - cbn [canon layout_ok]. rewrite forallb_map. apply forallb_Forall_true. exact IH.
Qed.

Lemma len_ok_fits n : SerProofs.len_ok n = DeProofs.fits_longb n.
Proof. reflexivity. Qed.

Lemma Forall_forallb_imp {A} (P : A -> Prop) (f g : A -> bool) l :
  Forall P l -> (forall x, P x -> f x = true -> g x = true) -> forallb f l = true -> forallb g l = true.
Proof.
  intros HP Himp. induction HP as [|x l Hx _ IH]; [reflexivity|].
  cbn [forallb]. intros H. apply andb_prop in H. destruct H as [H1 H2].
  rewrite (Himp x Hx H1), (IH H2). reflexivity.
Qed.

Theorem counts_fit_canon : forall v, SerProofs.sizes_ok v = true -> DeProofs.counts_fit (canon v) = true.
Proof.
  induction v as [v IH] using SerProofs.avalue_children_ind.
  destruct v; cbn [SerProofs.children] in IH; intros Hs; try reflexivity.
  - cbn [SerProofs.sizes_ok] in Hs. apply andb_prop in Hs. destruct Hs as [Hl Hs].
    destruct vs as [|v0 vs]; [reflexivity|].
    cbn [canon DeProofs.counts_fit forallb snd]. rewrite andb_true_r, map_length, <- len_ok_fits, Hl.
    rewrite forallb_map. cbn [andb]. revert Hs. apply Forall_forallb_imp with (1 := IH). auto.
  - cbn [SerProofs.sizes_ok] in Hs. apply andb_prop in Hs. destruct Hs as [Hl Hs].
    destruct kvs as [|kv0 kvs]; [reflexivity|].
    cbn [canon DeProofs.counts_fit forallb snd]. rewrite andb_true_r, map_length, <- len_ok_fits, Hl.
    rewrite forallb_map. cbn [andb snd]. apply Forall_map_snd in IH. revert Hs.
    apply Forall_forallb_imp with (1 := IH). intros x Hx H. apply andb_prop in H. apply Hx, H.
  - cbn [SerProofs.sizes_ok] in Hs. apply andb_prop in Hs. destruct Hs as [Hl Hs].
    cbn [canon DeProofs.counts_fit]. rewrite <- len_ok_fits, Hl. inversion IH; subst. auto.
  - cbn [SerProofs.sizes_ok] in Hs. cbn [canon DeProofs.counts_fit]. rewrite forallb_map.
    revert Hs. apply Forall_forallb_imp with (1 := IH). auto.
  - exact Hs.
Qed.

(* ------------------------------------------------------------------ *)
(** * 2. The limits of the decoder, stated on the value *)

(* every array and map has at most [c_max_seq] elements *)
Fixpoint seq_limits (cfg : dcfg) (v : avalue) : bool :=
  match v with
  | AArray vs => (N.of_nat (length vs) <=? c_max_seq cfg) && forallb (seq_limits cfg) vs
  | AMap kvs => (N.of_nat (length kvs) <=? c_max_seq cfg) && forallb (fun kv => seq_limits cfg (snd kv)) kvs
  | AUnion _ v' => seq_limits cfg v'
  | ARecord vs => forallb (seq_limits cfg) vs
  | _ => true
  end.

(* the nesting of the value (one unit per array, map, union and record) *)
Definition value_depth (v : avalue) : nat := depth_cost (canon v).

(* what the decoder needs beyond conformance and the decimal limits of [value_limits]:
   sequence sizes, nesting depth, and an encoding shorter than 2^63 bytes.
   (The 16-byte bounds on decimals are consequences of [conforms], see [within_limits_canon].) *)
Definition rt_limits (Sc : fschema) (cfg : dcfg) (root : fnode) (v : avalue) : bool :=
  seq_limits cfg v &&
  Nat.leb (value_depth v) (c_depth cfg) &&
  (Z.of_nat (length (spec_encode Sc root v)) <=? I64_MAX)%Z.

Section Within.
Variable Sc : fschema.
Variable cfg : dcfg.

Lemma conf_fields_cons f k fs v vs :
  SerProofs.conf_fields Sc ((f, k) :: fs) (v :: vs) = SerProofs.conf_at Sc k v && SerProofs.conf_fields Sc fs vs.
Proof. reflexivity. Qed.
Lemma lim_fields_cons f k fs v vs :
  SerProofs.lim_fields Sc ((f, k) :: fs) (v :: vs) = SerProofs.lim_at Sc k v && SerProofs.lim_fields Sc fs vs.
Proof. reflexivity. Qed.

Definition Pw (v : avalue) : Prop := forall n,
  conforms Sc n v = true -> SerProofs.value_limits Sc n v = true -> seq_limits cfg v = true ->
  within_limits Sc cfg n (canon v) = true.

Lemma Pw_at k v : Pw v -> SerProofs.conf_at Sc k v = true -> SerProofs.lim_at Sc k v = true ->
  seq_limits cfg v = true -> DeProofs.within_at Sc cfg k (canon v) = true.
Proof.
  unfold SerProofs.conf_at, SerProofs.lim_at, DeProofs.within_at. intros H Hc Hl Hs.
  destruct (fnode_at Sc k); [apply H; assumption|discriminate].
Qed.

Theorem within_limits_canon : forall v, Pw v.
Proof.
  induction v as [v IH] using SerProofs.avalue_children_ind.
  destruct v; cbn [SerProofs.children] in IH; intros n Hc Hl Hs; try reflexivity.
  - (* array *)
    SerProofs.conf_cases n Hc. rewrite SerProofs.conforms_AArray in Hc.
    rewrite SerProofs.value_limits_AArray in Hl. cbn [seq_limits] in Hs.
    apply andb_prop in Hs. destruct Hs as [Hn Hs].
    destruct vs as [|v0 vs].
    { cbn [canon]. rewrite DeProofs.within_array_eq. cbn [flat_map forallb]. rewrite andb_true_r. exact Hn. }
    cbn [canon]. rewrite DeProofs.within_array_eq. cbn [flat_map forallb snd].
    rewrite app_nil_r, map_length, Hn, andb_true_r, forallb_map. cbn [andb].
    revert IH Hc Hl Hs. generalize (v0 :: vs). intros l IH Hc Hl Hs.
    induction IH as [|x l0 Hx _ IHl]; [reflexivity|].
    cbn [forallb] in *. apply andb_prop in Hc, Hl, Hs. destruct Hc, Hl, Hs.
    rewrite (Pw_at items x Hx), IHl by assumption. reflexivity.
  - (* map *)
    SerProofs.conf_cases n Hc. rewrite SerProofs.conforms_AMap in Hc.
    rewrite SerProofs.value_limits_AMap in Hl. cbn [seq_limits] in Hs.
    apply andb_prop in Hs. destruct Hs as [Hn Hs].
    destruct kvs as [|kv0 kvs].
    { cbn [canon]. rewrite DeProofs.within_map_eq. cbn [flat_map forallb]. rewrite andb_true_r. exact Hn. }
    cbn [canon]. rewrite DeProofs.within_map_eq. cbn [flat_map forallb snd].
    rewrite app_nil_r, map_length, Hn, andb_true_r, forallb_map. cbn [andb snd].
    apply Forall_map_snd in IH.
    revert IH Hc Hl Hs. generalize (kv0 :: kvs). intros l IH Hc Hl Hs.
    induction IH as [|x l0 Hx _ IHl]; [reflexivity|].
    cbn [forallb] in *. apply andb_prop in Hc, Hl, Hs. destruct Hc as [Hc1 ?], Hl, Hs.
    apply andb_prop in Hc1. destruct Hc1 as [_ Hc1].
    rewrite (Pw_at values (snd x) Hx), IHl by assumption. reflexivity.
  - (* union *)
    SerProofs.conf_cases n Hc. rewrite SerProofs.conforms_AUnion in Hc.
    rewrite SerProofs.value_limits_AUnion in Hl. cbn [seq_limits] in Hs.
    cbn [canon]. rewrite DeProofs.within_union_eq. inversion IH as [|? ? Hv _]; subst.
    destruct (nth_error variants branch); [|discriminate]. apply Pw_at; assumption.
  - (* record *)
    SerProofs.conf_cases n Hc. rewrite SerProofs.conforms_ARecord in Hc.
    rewrite SerProofs.value_limits_ARecord in Hl. cbn [seq_limits] in Hs.
    apply andb_prop in Hc. destruct Hc as [_ Hc].
    cbn [canon]. rewrite DeProofs.within_record_eq.
    clear n. revert fields0 Hc Hl. induction IH as [|x l Hx _ IHl]; intros [|[f k] fs] Hc Hl;
      try discriminate Hc; [reflexivity|].
    rewrite conf_fields_cons in Hc. rewrite lim_fields_cons in Hl.
    cbn [forallb] in Hs. apply andb_prop in Hc, Hl, Hs. destruct Hc, Hl, Hs.
    cbn [map DeProofs.within_fields].
    rewrite (Pw_at k x Hx), IHl by assumption. reflexivity.
  - (* decimal: the 16-byte bounds follow from conformance *)
    cbn [SerProofs.value_limits] in Hl. apply andb_prop in Hl. destruct Hl as [Hm Hsc].
    SerProofs.conf_cases n Hc. cbn [canon within_limits]. rewrite Hm. cbn [andb].
    destruct repr as [[nm size]|]; cbn [conforms] in Hc.
    + apply andb_prop in Hc. destruct Hc as [Hsz _]. rewrite Hsc, Hsz. reflexivity.
    + rewrite Hsc. cbn [andb].
      destruct (DeProofs.min_twos_len_spec unscaled 16 40 1 ltac:(lia) ltac:(lia) Hc ltac:(lia)) as [Hr _].
      apply Nat.leb_le. lia.
  - (* big decimal *)
    cbn [SerProofs.value_limits] in Hl. apply andb_prop in Hl. destruct Hl as [Hm Hsc].
    SerProofs.conf_cases n Hc. cbn [conforms] in Hc. cbn [canon within_limits]. rewrite Hm, Hsc. cbn [andb].
    destruct (DeProofs.min_twos_len_spec unscaled 16 40 1 ltac:(lia) ltac:(lia) Hc ltac:(lia)) as [Hr _].
    apply Nat.leb_le. lia.
Qed.

End Within.

(* ------------------------------------------------------------------ *)
(** * 3. The round trip *)

Lemma spec_encode_is_canon Sc n v : spec_encode Sc n v = encode_e Sc n (canon v).
Proof. reflexivity. Qed.

(** the general form: any node of a well-formed schema, any position in the input *)
Theorem roundtrip_node : forall Sc cfg n v rest pos ma fuel depth,
  schema_wf Sc = true ->
  conforms Sc n v = true ->
  SerProofs.value_limits Sc n v = true -> SerProofs.sizes_ok v = true ->
  seq_limits cfg v = true ->
  (value_depth v <= depth)%nat ->
  (Z.of_nat (length (spec_encode Sc n v)) <= I64_MAX)%Z ->
  (DeProofs.de_fuel (canon v) <= fuel)%nat ->
  exists d,
    de Sc cfg fuel n depth false false TAny (mkRd (spec_encode Sc n v ++ rest) pos None ma)
      = (Ok d, mkRd rest (pos + N.of_nat (length (spec_encode Sc n v))) None ma)
    /\ erase_borrow d = dval_any Sc n v.
Proof.
  intros Sc cfg n v rest pos ma fuel depth Hwf Hc Hl Hs Hq Hd He Hf.
  destruct (DeProofs.de_any_complete_bounded Sc cfg (canon v) n rest pos ma fuel depth Hwf)
    as (d & E & Ed); try assumption.
  - rewrite erase_canon. exact Hc.
  - apply layout_ok_canon.
  - apply within_limits_canon; assumption.
  - apply counts_fit_canon. exact Hs.
  - exists d. rewrite erase_canon in Ed. split; [exact E|exact Ed].
Qed.

Theorem roundtrip_any : forall Sc cfg root v slow fuel,
  schema_wf Sc = true -> fnode_at Sc 0 = Some root ->
  conforms Sc root v = true ->
  SerProofs.value_limits Sc root v = true -> SerProofs.sizes_ok v = true ->
  rt_limits Sc cfg root v = true ->
  (DeProofs.de_fuel (canon v) <= fuel)%nat ->
  exists bs d,
    to_datum Sc slow (present Sc root v) = Ok bs
    /\ de_datum fuel Sc cfg TAny (slice_reader bs) = Ok (d, 0)
    /\ erase_borrow d = dval_any Sc root v.
Proof.
  intros Sc cfg root v slow fuel Hwf Hr Hc Hl Hs Hrt Hf.
  unfold rt_limits in Hrt. apply andb_prop in Hrt. destruct Hrt as [Hrt He].
  apply andb_prop in Hrt. destruct Hrt as [Hq Hd].
  apply Nat.leb_le in Hd. apply Z.leb_le in He.
  destruct (roundtrip_node Sc cfg root v [] 0 0 fuel (c_depth cfg) Hwf Hc Hl Hs Hq Hd He Hf)
    as (d & E & Ed).
  exists (spec_encode Sc root v), d. split; [|split].
  - apply SerProofs.to_datum_present_decimal; assumption.
  - unfold de_datum, slice_reader. rewrite Hr. rewrite app_nil_r in E. rewrite E. reflexivity.
  - exact Ed.
Qed.

(** with the default configuration: at most 10^9 elements per array / map, nesting at most 64 *)
Corollary roundtrip_any_default : forall Sc root v slow,
  schema_wf Sc = true -> fnode_at Sc 0 = Some root ->
  conforms Sc root v = true ->
  SerProofs.value_limits Sc root v = true -> SerProofs.sizes_ok v = true ->
  seq_limits cfg_default v = true ->
  (value_depth v <= 64)%nat ->
  (Z.of_nat (length (spec_encode Sc root v)) < 2 ^ 63)%Z ->
  exists bs d,
    to_datum Sc slow (present Sc root v) = Ok bs
    /\ de_datum (DeProofs.de_fuel (canon v)) Sc cfg_default TAny (slice_reader bs) = Ok (d, 0)
    /\ erase_borrow d = dval_any Sc root v.
Proof.
  intros Sc root v slow Hwf Hr Hc Hl Hs Hq Hd He.
  apply roundtrip_any; try assumption; [|apply le_n].
  unfold rt_limits. rewrite Hq. cbn [andb c_depth cfg_default].
  apply andb_true_intro. split; [apply Nat.leb_le; exact Hd|].
  apply Z.leb_le. unfold I64_MAX. lia.
Qed.

(** non-vacuity: a record with an array of unions, a map and a decimal; every hypothesis of
    [roundtrip_any] holds, and the bytes and the events are the expected ones *)
Example roundtrip_any_instance :
  let root := FRecord (mkName [82] None) [([97], 1%nat); ([109], 4%nat); ([100], 6%nat)] in
  let Sc := [root; FArray 2%nat; FUnion [3%nat; 5%nat]; FNull; FMap 5%nat; FLong; FDecimal 10 2 None] in
  let v := ARecord [AArray [AUnion 0%nat ANull; AUnion 1%nat (ALong 7)];
                    AMap [([107], ALong (-1))];
                    ADecimal (-1234)] in
  let bs := [4; 0; 2; 14; 0;  2; 2; 107; 1; 0;  4; 251; 46] in
  let d := DMap [(DStr [97], DSeq [DUnit; DInt true W64 7]);
                 (DStr [109], DMap [(DBStr 7 1 [107], DInt true W64 (-1))]);
                 (DStr [100], DStr [45; 49; 50; 46; 51; 52])] in
  schema_wf Sc = true /\ fnode_at Sc 0 = Some root /\ conforms Sc root v = true /\
  SerProofs.value_limits Sc root v = true /\ SerProofs.sizes_ok v = true /\
  rt_limits Sc cfg_default root v = true /\
  to_datum Sc false (present Sc root v) = Ok bs /\
  de_datum (DeProofs.de_fuel (canon v)) Sc cfg_default TAny (slice_reader bs) = Ok (d, 0) /\
  erase_borrow d = dval_any Sc root v.
Proof. vm_compute. repeat split; reflexivity. Qed.

(* ------------------------------------------------------------------ *)
(** * 4. The encoding determines the value *)

(** ** prefix-freeness of the primitive encodings *)

Lemma spec_long_prefix_free z1 z2 r1 r2 :
  DeProofs.i64_range z1 -> DeProofs.i64_range z2 ->
  spec_long z1 ++ r1 = spec_long z2 ++ r2 -> z1 = z2 /\ r1 = r2.
Proof.
  intros H1 H2 E.
  pose proof (DeProofs.read_varint_long z1 r1 0 0 H1) as A.
  pose proof (DeProofs.read_varint_long z2 r2 0 0 H2) as B.
  rewrite E in A. rewrite A in B. inversion B. auto.
Qed.

Lemma len_ok_range n : SerProofs.len_ok n = true -> DeProofs.i64_range (Z.of_nat n).
Proof. intros H. apply DeProofs.fits_long_range, DeProofs.fits_longb_true. exact H. Qed.

Lemma spec_nat_prefix_free n1 n2 r1 r2 :
  SerProofs.len_ok n1 = true -> SerProofs.len_ok n2 = true ->
  spec_long (Z.of_nat n1) ++ r1 = spec_long (Z.of_nat n2) ++ r2 -> n1 = n2 /\ r1 = r2.
Proof.
  intros H1 H2 E. apply spec_long_prefix_free in E; try (apply len_ok_range; assumption).
  destruct E as [E ->]. split; [lia|reflexivity].
Qed.

Lemma app_eq_len {A} : forall (a b r1 r2 : list A),
  length a = length b -> a ++ r1 = b ++ r2 -> a = b /\ r1 = r2.
Proof.
  induction a as [|x a IH]; intros [|y b] r1 r2 Hl E; try discriminate Hl.
  - auto.
  - cbn [app] in E. inversion E; subst. cbn [length] in Hl.
    destruct (IH b r1 r2 ltac:(lia) H1) as [-> ->]. auto.
Qed.

Lemma ld_prefix_free b1 b2 r1 r2 :
  SerProofs.len_ok (length b1) = true -> SerProofs.len_ok (length b2) = true ->
  ld b1 ++ r1 = ld b2 ++ r2 -> b1 = b2 /\ r1 = r2.
Proof.
  intros H1 H2 E. unfold ld in E. rewrite <- !app_assoc in E.
  apply spec_nat_prefix_free in E; try assumption. destruct E as [El E].
  apply app_eq_len; assumption.
Qed.

Lemma spec_le_prefix_free k x1 x2 r1 r2 :
  x1 < 2 ^ (8 * N.of_nat k) -> x2 < 2 ^ (8 * N.of_nat k) ->
  spec_le k x1 ++ r1 = spec_le k x2 ++ r2 -> x1 = x2 /\ r1 = r2.
Proof.
  intros H1 H2 E. apply app_eq_len in E; [|now rewrite !DeProofs.spec_le_length].
  destruct E as [E ->]. split; [|reflexivity].
  rewrite <- (DeProofs.le_val_spec_le k x1 H1), <- (DeProofs.le_val_spec_le k x2 H2), E. reflexivity.
Qed.

Lemma twos_prefix_free k m1 m2 r1 r2 :
  fits_twos m1 k = true -> fits_twos m2 k = true ->
  spec_twos_be k m1 ++ r1 = spec_twos_be k m2 ++ r2 -> m1 = m2 /\ r1 = r2.
Proof.
  intros H1 H2 E. apply app_eq_len in E; [|now rewrite !DeProofs.spec_twos_be_length].
  destruct E as [E ->]. split; [|reflexivity].
  rewrite <- (DeProofs.signed_be_twos k m1 H1), <- (DeProofs.signed_be_twos k m2 H2), E. reflexivity.
Qed.

Lemma decimal_bytes_len m : fits_twos m 16 = true -> (length (decimal_bytes m 0) <= 16)%nat.
Proof.
  intros H.
  destruct (DeProofs.min_twos_len_spec m 16 40 1 ltac:(lia) ltac:(lia) H ltac:(lia)) as [Hr _].
  unfold decimal_bytes. rewrite DeProofs.spec_twos_be_length. lia.
Qed.

Lemma decimal_bytes_inj m1 m2 :
  fits_twos m1 16 = true -> fits_twos m2 16 = true ->
  decimal_bytes m1 0 = decimal_bytes m2 0 -> m1 = m2.
Proof.
  intros H1 H2 E.
  destruct (DeProofs.min_twos_len_spec m1 16 40 1 ltac:(lia) ltac:(lia) H1 ltac:(lia)) as [Hr1 _].
  destruct (DeProofs.min_twos_len_spec m2 16 40 1 ltac:(lia) ltac:(lia) H2 ltac:(lia)) as [Hr2 _].
  destruct (DeProofs.decimal_bytes_ok m1 0 H1 ltac:(lia)) as [_ S1].
  destruct (DeProofs.decimal_bytes_ok m2 0 H2 ltac:(lia)) as [_ S2].
  rewrite <- S1, <- S2, E. reflexivity.
Qed.

Lemma len_ok_small n : (n <= 1000)%nat -> SerProofs.len_ok n = true.
Proof. intros H. unfold SerProofs.len_ok, I64_MAX. lia. Qed.

Lemma decimal_ld_prefix_free m1 m2 r1 r2 :
  fits_twos m1 16 = true -> fits_twos m2 16 = true ->
  ld (decimal_bytes m1 0) ++ r1 = ld (decimal_bytes m2 0) ++ r2 -> m1 = m2 /\ r1 = r2.
Proof.
  intros H1 H2 E. pose proof (decimal_bytes_len m1 H1). pose proof (decimal_bytes_len m2 H2).
  apply ld_prefix_free in E; try (apply len_ok_small; lia).
  destruct E as [E ->]. split; [|reflexivity]. apply decimal_bytes_inj; assumption.
Qed.

Lemma scale_range s : (Z.of_N s <= I64_MAX)%Z -> DeProofs.i64_range (Z.of_N s).
Proof. intros H. unfold DeProofs.i64_range, I64_MIN. lia. Qed.

Lemma bigdec_inner_len m s : fits_twos m 16 = true -> (Z.of_N s <= I64_MAX)%Z ->
  SerProofs.len_ok (length (ld (decimal_bytes m 0) ++ spec_long (Z.of_N s))) = true.
Proof.
  intros Hm Hs. apply len_ok_small. unfold ld. rewrite !app_length.
  pose proof (decimal_bytes_len m Hm) as D. pose proof (DeProofs.spec_long_length_le _ (scale_range s Hs)).
  assert (D' : SerProofs.len_ok (length (decimal_bytes m 0)) = true) by (apply len_ok_small; lia).
  pose proof (DeProofs.spec_long_length_le _ (len_ok_range _ D')). lia.
Qed.

(** ** sequences of items *)

Lemma flat_map_map {A B C} (g : A -> B) (f : B -> list C) l : flat_map f (map g l) = flat_map (fun x => f (g x)) l.
Proof. induction l as [|x l IH]; [reflexivity|]. cbn [map flat_map]. now rewrite IH. Qed.

Lemma items_prefix_free {A} (enc : A -> bytes) : forall l1 l2 r1 r2,
  Forall (fun x => forall y, In y l2 -> forall r1 r2, enc x ++ r1 = enc y ++ r2 -> x = y /\ r1 = r2) l1 ->
  length l1 = length l2 ->
  flat_map enc l1 ++ r1 = flat_map enc l2 ++ r2 -> l1 = l2 /\ r1 = r2.
Proof.
  induction l1 as [|x l1 IH]; intros [|y l2] r1 r2 HF Hl E; try discriminate Hl.
  - auto.
  - inversion HF as [|? ? Hx HF']; subst. cbn [flat_map] in E. rewrite <- !app_assoc in E.
    destruct (Hx y (or_introl eq_refl) _ _ E) as [-> E'].
    destruct (IH l2 r1 r2) as [-> ->]; [|cbn [length] in Hl; lia|exact E'|auto].
    eapply Forall_impl; [|exact HF']. intros a Ha y' Hy'. apply Ha. right. exact Hy'.
Qed.

(* the canonical block layout of a list of items: one block, or none when empty *)
Definition cblocks {A} (enc : A -> bytes) (l : list A) : bytes :=
  match l with
  | [] => spec_long 0
  | _ => spec_long (Z.of_nat (length l)) ++ flat_map enc l ++ spec_long 0
  end.

Lemma cblocks_prefix_free {A} (enc : A -> bytes) l1 l2 r1 r2 :
  SerProofs.len_ok (length l1) = true -> SerProofs.len_ok (length l2) = true ->
  (length l1 = length l2 -> forall r1 r2, flat_map enc l1 ++ r1 = flat_map enc l2 ++ r2 -> l1 = l2 /\ r1 = r2) ->
  cblocks enc l1 ++ r1 = cblocks enc l2 ++ r2 -> l1 = l2 /\ r1 = r2.
Proof.
  intros H1 H2 Hit E.
  assert (E0 : forall l : list A, cblocks enc l =
             spec_long (Z.of_nat (length l)) ++ match l with [] => [] | _ => flat_map enc l ++ spec_long 0 end).
  { intros [|x l]; [symmetry; apply app_nil_r|reflexivity]. }
  rewrite !E0, <- !app_assoc in E. apply spec_nat_prefix_free in E; try assumption.
  destruct E as [El E]. destruct l1 as [|x1 l1], l2 as [|x2 l2]; try discriminate El.
  - cbn [app] in E. auto.
  - rewrite <- !app_assoc in E. destruct (Hit El _ _ E) as [-> E'].
    apply (spec_long_prefix_free 0 0) in E'; [|unfold DeProofs.i64_range, I64_MIN, I64_MAX; lia..].
    destruct E' as [_ ->]. auto.
Qed.

(** ** the side condition: every length, index and scale written as a long fits an i64 *)

Fixpoint scales_ok (v : avalue) : bool :=
  match v with
  | ABigDecimal _ s => (Z.of_N s <=? I64_MAX)%Z
  | AArray vs => forallb scales_ok vs
  | AMap kvs => forallb (fun kv => scales_ok (snd kv)) kvs
  | AUnion _ v' => scales_ok v'
  | ARecord vs => forallb scales_ok vs
  | _ => true
  end.

Fixpoint enc_ok (v : avalue) : bool :=
  match v with
  | ABytes bs | AString bs => SerProofs.len_ok (length bs)
  | AArray vs => SerProofs.len_ok (length vs) && forallb enc_ok vs
  | AMap kvs => SerProofs.len_ok (length kvs) &&
                forallb (fun kv => SerProofs.len_ok (length (fst kv)) && enc_ok (snd kv)) kvs
  | AUnion i v' => SerProofs.len_ok i && enc_ok v'
  | ARecord vs => forallb enc_ok vs
  | AEnum i => SerProofs.len_ok i
  | ABigDecimal _ s => (Z.of_N s <=? I64_MAX)%Z
  | _ => true
  end.

Section EncInj.
Variable Sc : fschema.

Definition Pe (v1 : avalue) : Prop := forall n v2 r1 r2,
  conforms Sc n v1 = true -> conforms Sc n v2 = true -> enc_ok v1 = true -> enc_ok v2 = true ->
  spec_encode Sc n v1 ++ r1 = spec_encode Sc n v2 ++ r2 -> v1 = v2 /\ r1 = r2.

Lemma Pe_at k v1 v2 r1 r2 : Pe v1 ->
  SerProofs.conf_at Sc k v1 = true -> SerProofs.conf_at Sc k v2 = true ->
  enc_ok v1 = true -> enc_ok v2 = true ->
  SerProofs.enc_at Sc k (canon v1) ++ r1 = SerProofs.enc_at Sc k (canon v2) ++ r2 -> v1 = v2 /\ r1 = r2.
Proof.
  unfold SerProofs.conf_at, SerProofs.enc_at. intros H.
  destruct (fnode_at Sc k) as [n'|]; [|discriminate]. apply H.
Qed.

Lemma enc_fields_cons f k fs e es :
  SerProofs.enc_fields Sc ((f, k) :: fs) (e :: es) = SerProofs.enc_at Sc k e ++ SerProofs.enc_fields Sc fs es.
Proof. reflexivity. Qed.

Lemma fields_prefix_free : forall vs1, Forall Pe vs1 -> forall fs vs2 r1 r2,
  SerProofs.conf_fields Sc fs vs1 = true -> SerProofs.conf_fields Sc fs vs2 = true ->
  forallb enc_ok vs1 = true -> forallb enc_ok vs2 = true ->
  SerProofs.enc_fields Sc fs (map canon vs1) ++ r1 = SerProofs.enc_fields Sc fs (map canon vs2) ++ r2 ->
  vs1 = vs2 /\ r1 = r2.
Proof.
  induction 1 as [|x l Hx _ IH]; intros [|[f k] fs] [|y vs2] r1 r2 Hc1 Hc2 Ho1 Ho2 E;
    try (cbn in Hc1; discriminate Hc1); try (cbn in Hc2; discriminate Hc2).
  - cbn [map SerProofs.enc_fields app] in E. auto.
  - rewrite conf_fields_cons in Hc1, Hc2. cbn [forallb] in Ho1, Ho2. cbn [map] in E.
    rewrite !enc_fields_cons, <- !app_assoc in E.
    apply andb_prop in Hc1, Hc2, Ho1, Ho2.
    destruct Hc1 as [Ha1 Hb1], Hc2 as [Ha2 Hb2], Ho1 as [Hp1 Hq1], Ho2 as [Hp2 Hq2].
    destruct (Pe_at k x y _ _ Hx Ha1 Ha2 Hp1 Hp2 E) as [-> E'].
    destruct (IH fs vs2 r1 r2 Hb1 Hb2 Hq1 Hq2 E') as [-> ->]. auto.
Qed.

Ltac conf_inv v2 Hc2 :=
  destruct v2; try (cbn [conforms] in Hc2; discriminate Hc2);
  try (exfalso; cbn [conforms] in Hc2;
       match type of Hc2 with
       | context [match ?r with Some _ => _ | None => _ end] => destruct r as [[? ?]|]; discriminate Hc2
       end).

Ltac enc_unfold E := unfold spec_encode in E; cbn [canon encode_e] in E.

Theorem spec_encode_prefix_free : forall v1, Pe v1.
Proof.
  induction v1 as [v1 IH] using SerProofs.avalue_children_ind.
  intros n v2 r1 r2 Hc1 Hc2 Ho1 Ho2 E.
  destruct v1; cbn [SerProofs.children] in IH; SerProofs.conf_cases n Hc1; conf_inv v2 Hc2.
  - (* null *) enc_unfold E. cbn [app] in E. auto.
  - (* boolean *) enc_unfold E. cbn [app] in E. injection E as Eb ->.
    destruct b, b0; try discriminate Eb; auto.
  - (* int *) enc_unfold E. apply spec_long_prefix_free in E;
      [destruct E as [-> ->]; auto|apply SerProofs.Zin_i32_i64; assumption..].
  - enc_unfold E. apply spec_long_prefix_free in E;
      [destruct E as [-> ->]; auto|apply SerProofs.Zin_i32_i64; assumption..].
  - enc_unfold E. apply spec_long_prefix_free in E;
      [destruct E as [-> ->]; auto|apply SerProofs.Zin_i32_i64; assumption..].
  - (* long *) enc_unfold E. apply spec_long_prefix_free in E;
      [destruct E as [-> ->]; auto|apply SerProofs.Zin_i64; assumption..].
  - enc_unfold E. apply spec_long_prefix_free in E;
      [destruct E as [-> ->]; auto|apply SerProofs.Zin_i64; assumption..].
  - enc_unfold E. apply spec_long_prefix_free in E;
      [destruct E as [-> ->]; auto|apply SerProofs.Zin_i64; assumption..].
  - enc_unfold E. apply spec_long_prefix_free in E;
      [destruct E as [-> ->]; auto|apply SerProofs.Zin_i64; assumption..].
  - (* float *) enc_unfold E. apply spec_le_prefix_free in E;
      [destruct E as [-> ->]; auto|apply N.ltb_lt; assumption..].
  - (* double *) enc_unfold E. apply spec_le_prefix_free in E;
      [destruct E as [-> ->]; auto|apply N.ltb_lt; assumption..].
  - (* bytes *) enc_unfold E. apply ld_prefix_free in E; [destruct E as [-> ->]; auto|assumption..].
  - (* string *) enc_unfold E. apply ld_prefix_free in E; [destruct E as [-> ->]; auto|assumption..].
  - enc_unfold E. apply ld_prefix_free in E; [destruct E as [-> ->]; auto|assumption..].
  - (* array *)
    rewrite SerProofs.conforms_AArray in Hc1, Hc2. cbn [enc_ok] in Ho1, Ho2.
    apply andb_prop in Ho1, Ho2. destruct Ho1 as [Hn1 Ho1], Ho2 as [Hn2 Ho2].
    assert (Ecb : forall l, spec_encode Sc (FArray items) (AArray l)
                            = cblocks (fun v => SerProofs.enc_at Sc items (canon v)) l).
    { intros [|x l]; [reflexivity|]. rewrite SerProofs.spec_encode_AArray_cons. unfold cblocks.
      rewrite app_nil_r, <- app_assoc, map_length, flat_map_map. reflexivity. }
    rewrite !Ecb in E. apply cblocks_prefix_free in E; try assumption.
    + destruct E as [-> ->]. auto.
    + intros Hlen q1 q2 Eq. apply items_prefix_free in Eq; [exact Eq| |exact Hlen].
      rewrite forallb_forall in Hc1, Hc2, Ho1, Ho2. rewrite Forall_forall in IH. apply Forall_forall.
      intros x Hx y Hy q1' q2' Eq'. apply (Pe_at items x y q1' q2'); auto.
  - (* map *)
    rewrite SerProofs.conforms_AMap in Hc1, Hc2. cbn [enc_ok] in Ho1, Ho2.
    apply andb_prop in Ho1, Ho2. destruct Ho1 as [Hn1 Ho1], Ho2 as [Hn2 Ho2].
    assert (Ecb : forall l, spec_encode Sc (FMap values) (AMap l)
                            = cblocks (fun kv : bytes * avalue =>
                                         ld (fst kv) ++ SerProofs.enc_at Sc values (canon (snd kv))) l).
    { intros [|x l]; [reflexivity|]. rewrite SerProofs.spec_encode_AMap_cons. unfold cblocks.
      rewrite app_nil_r, <- app_assoc, map_length, flat_map_map. reflexivity. }
    rewrite !Ecb in E. apply cblocks_prefix_free in E; try assumption.
    + destruct E as [-> ->]. auto.
    + intros Hlen q1 q2 Eq. apply items_prefix_free in Eq; [exact Eq| |exact Hlen].
      apply Forall_map_snd in IH.
      rewrite forallb_forall in Hc1, Hc2, Ho1, Ho2. rewrite Forall_forall in IH. apply Forall_forall.
      intros [k1 x] Hx [k2 y] Hy q1' q2' Eq'. cbn [fst snd] in Eq'. rewrite <- !app_assoc in Eq'.
      pose proof (Hc1 _ Hx) as A1. pose proof (Hc2 _ Hy) as A2.
      pose proof (Ho1 _ Hx) as B1. pose proof (Ho2 _ Hy) as B2. pose proof (IH _ Hx) as Px.
      cbn [fst snd] in A1, A2, B1, B2, Px.
      apply andb_prop in A1, A2, B1, B2.
      destruct A1 as [_ A1], A2 as [_ A2], B1 as [L1 B1], B2 as [L2 B2].
      apply ld_prefix_free in Eq'; try assumption. destruct Eq' as [-> Eq'].
      destruct (Pe_at values x y _ _ Px A1 A2 B1 B2 Eq') as [-> ->]. auto.
  - (* union *)
    rewrite SerProofs.conforms_AUnion in Hc1, Hc2. rewrite !SerProofs.spec_encode_AUnion in E.
    cbn [enc_ok] in Ho1, Ho2. apply andb_prop in Ho1, Ho2.
    destruct Ho1 as [Hn1 Ho1], Ho2 as [Hn2 Ho2].
    rewrite <- !app_assoc in E. apply spec_nat_prefix_free in E; try assumption.
    destruct E as [<- E]. destruct (nth_error variants branch) as [k|]; [|discriminate].
    inversion IH as [|? ? Hv _]; subst.
    destruct (Pe_at k v1 v2 r1 r2 Hv Hc1 Hc2 Ho1 Ho2 E) as [-> ->]. auto.
  - (* record *)
    rewrite SerProofs.conforms_ARecord in Hc1, Hc2. rewrite !SerProofs.spec_encode_ARecord in E.
    apply andb_prop in Hc1, Hc2. destruct Hc1 as [_ Hc1], Hc2 as [_ Hc2]. cbn [enc_ok] in Ho1, Ho2.
    destruct (fields_prefix_free _ IH _ _ _ _ Hc1 Hc2 Ho1 Ho2 E) as [-> ->]. auto.
  - (* enum *) enc_unfold E. apply spec_nat_prefix_free in E; [destruct E as [-> ->]; auto|assumption..].
  - (* fixed *) enc_unfold E. cbn [conforms] in Hc1, Hc2. apply andb_prop in Hc1, Hc2.
    destruct Hc1 as [_ Hc1], Hc2 as [_ Hc2]. apply N.eqb_eq in Hc1, Hc2.
    apply app_eq_len in E; [destruct E as [-> ->]; auto|lia].
  - (* decimal *)
    destruct repr as [[nm size]|]; cbn [conforms] in Hc1, Hc2; enc_unfold E.
    + apply andb_prop in Hc1, Hc2. destruct Hc1 as [_ Hc1], Hc2 as [_ Hc2].
      apply twos_prefix_free in E; [destruct E as [-> ->]; auto|assumption..].
    + apply decimal_ld_prefix_free in E; [destruct E as [-> ->]; auto|assumption..].
  - (* big decimal *)
    cbn [conforms] in Hc1, Hc2. cbn [enc_ok] in Ho1, Ho2. enc_unfold E.
    apply Z.leb_le in Ho1, Ho2.
    pose proof (bigdec_inner_len _ _ Hc1 Ho1) as L1. pose proof (bigdec_inner_len _ _ Hc2 Ho2) as L2.
    destruct (ld_prefix_free _ _ _ _ L1 L2 E) as [E' ->]. clear E L1 L2. rename E' into E.
    rewrite <- (app_nil_r (spec_long (Z.of_N scale))), <- (app_nil_r (spec_long (Z.of_N scale0))) in E.
    apply decimal_ld_prefix_free in E; try assumption. destruct E as [-> E].
    apply spec_long_prefix_free in E; [|apply scale_range; assumption..]. destruct E as [E _].
    apply N2Z.inj in E. subst. auto.
  - (* duration *)
    cbn [conforms] in Hc1, Hc2. enc_unfold E. rewrite <- !app_assoc in E.
    apply andb_prop in Hc1, Hc2. destruct Hc1 as [Hc1 Hz1], Hc2 as [Hc2 Hz2].
    apply andb_prop in Hc1, Hc2. destruct Hc1 as [Hx1 Hy1], Hc2 as [Hx2 Hy2].
    apply spec_le_prefix_free in E; [|apply N.ltb_lt; assumption..]. destruct E as [-> E].
    apply spec_le_prefix_free in E; [|apply N.ltb_lt; assumption..]. destruct E as [-> E].
    apply spec_le_prefix_free in E; [|apply N.ltb_lt; assumption..]. destruct E as [-> ->]. auto.
Qed.

End EncInj.

(** the encoding of a conforming value is uniquely decodable, also when followed by anything *)
Theorem spec_encode_injective_prefix : forall Sc n v1 v2 r1 r2,
  conforms Sc n v1 = true -> conforms Sc n v2 = true ->
  enc_ok v1 = true -> enc_ok v2 = true ->
  spec_encode Sc n v1 ++ r1 = spec_encode Sc n v2 ++ r2 -> v1 = v2 /\ r1 = r2.
Proof. intros Sc n v1 v2 r1 r2. apply spec_encode_prefix_free. Qed.

Theorem spec_encode_injective : forall Sc n v1 v2,
  conforms Sc n v1 = true -> conforms Sc n v2 = true ->
  enc_ok v1 = true -> enc_ok v2 = true ->
  spec_encode Sc n v1 = spec_encode Sc n v2 -> v1 = v2.
Proof.
  intros Sc n v1 v2 Hc1 Hc2 Ho1 Ho2 E.
  apply (spec_encode_prefix_free Sc v1 n v2 [] [] Hc1 Hc2 Ho1 Ho2). now rewrite E.
Qed.
