(** Decoder completeness beyond deserialize_any (slice mode):
    - [de_ignored_complete]        skipping a value (serde::de::IgnoredAny) consumes exactly its encoding
    - [ignored_consumes_as_any]    ... which is what reading it with deserialize_any consumes
    - [struct_missing_field_skips] a struct target that lacks fields skips exactly those fields
    - [de_typed_complete]          round trip for ordinary Rust data types (typed_target) *)
From Coq Require Import NArith ZArith List Lia Bool.
From Coq Require Import ZifyN ZifyBool ZifyNat.
Require Import Base Kinds Schema Varint Utf8 Sval Target Reader Text De.
Require Import AvroValue Encoding Denote Wf VarintProofs.
Require Import DeProofs.
Import ListNotations.
Open Scope N_scope.

Ltac Zify.zify_post_hook ::= Z.to_euclidean_division_equations.

Arguments N.add : simpl never.
Arguments N.sub : simpl never.
Arguments N.mul : simpl never.
Arguments N.div : simpl never.
Arguments N.modulo : simpl never.
Arguments N.pow : simpl never.
Arguments N.shiftl : simpl never.
Arguments N.shiftr : simpl never.
Arguments N.land : simpl never.
Arguments N.lor : simpl never.
Arguments N.ltb : simpl never.
Arguments N.leb : simpl never.
Arguments N.eqb : simpl never.
Arguments N.of_nat : simpl never.
Arguments N.to_nat : simpl never.
Arguments N.min : simpl never.
Arguments Z.of_nat : simpl never.
Arguments Z.of_N : simpl never.
Arguments Z.to_N : simpl never.
Arguments Z.add : simpl never.
Arguments Z.sub : simpl never.
Arguments Z.mul : simpl never.
Arguments Z.pow : simpl never.
Arguments Z.ltb : simpl never.
Arguments Z.leb : simpl never.
Arguments Z.eqb : simpl never.
Arguments Z.opp : simpl never.
Arguments Z.abs : simpl never.
Arguments Z.modulo : simpl never.

(* ------------------------------------------------------------------ *)
Require Import DS1 DS2 DS3.
(* ------------------------------------------------------------------ *)
(** * 7. Skipping: the target [TIgnored] (serde::de::IgnoredAny) *)

Section Ignored.
Variable Sc : fschema.
Variable cfg : dcfg.

Definition ign_post (fuel : nat) (n : fnode) (depth : nat) (favor force : bool) (e : evalue)
                    (rest : bytes) (pos ma : N) : Prop :=
  de Sc cfg fuel n depth favor force TIgnored (mkRd (encode_e Sc n e ++ rest) pos None ma)
  = (Ok DIgnored, mkRd rest (pos + N.of_nat (length (encode_e Sc n e))) None ma).

Definition ign_ok (n : fnode) (depth : nat) (e : evalue) : Prop :=
  forall fuel favor force rest pos ma, (de_fuel e <= fuel)%nat ->
    ign_post fuel n depth favor force e rest pos ma.

Notation PI := (fun e => forall n depth, pre Sc cfg n depth e -> ign_ok n depth e).

Definition Rign (_ : evalue) (d : dval) : Prop := d = DIgnored.

Lemma ign_ok_node_g n' d' e : ign_ok n' d' e -> node_g Sc cfg TIgnored Rign n' d' e.
Proof.
  intros H fuel rest pos ma Hf. exists DIgnored. split; [|reflexivity].
  apply (H fuel false false rest pos ma Hf).
Qed.

Lemma ign_item_g k d' e : PI e -> pre_at Sc cfg k d' e -> item_g Sc cfg TIgnored Rign k d' e.
Proof.
  intros HP (n' & Hn & Hpre). exists n'. split; [exact Hn|]. apply ign_ok_node_g. apply HP. exact Hpre.
Qed.

(* leaves *)
Lemma case_ign_leaf : forall e, is_leaf_e e = true -> PI e.
Proof.
  intros e Hle n depth Hpre fuel favor force rest pos ma Hfuel.
  pose proof Hpre as (Hc & Hl & Hw & Hd & Hf & He).
  pose proof (conforms_leafnode Sc e n Hle Hc) as Hln.
  destruct fuel as [|f]; [unfold de_fuel in Hfuel; lia|].
  destruct (de_any_gen Sc cfg e n depth Hpre (S f) favor force rest pos ma Hfuel) as (d & Hde & _).
  rewrite de_any_eq in Hde.
  pose proof (any_g_of_any_step Sc cfg TIgnored f n depth _ d _ Hln Hde) as Hg.
  change (leaf TIgnored d) with DIgnored in Hg.
  unfold ign_post. destruct force.
  - rewrite de_force_eq. exact Hg.
  - rewrite de_ign_eq. destruct n; try exact Hg; try discriminate Hln; clear Hg Hde.
    + (* int: raw u32 varint *)
      destruct e; cbn [erase conforms] in Hc; try discriminate Hc.
      apply Zin_true in Hc. cbn [ign_step encode_e].
      rewrite (sbind_ok _ _ _ _ _ (read_varint_u32_int z rest pos ma Hc)). reflexivity.
    + (* long: raw u64 varint *)
      destruct e; cbn [erase conforms] in Hc; try discriminate Hc.
      apply Zin_true in Hc. cbn [ign_step encode_e].
      rewrite (sbind_ok _ _ _ _ _ (read_varint_u64_long' z rest pos ma Hc)). reflexivity.
    + (* string: no UTF-8 validation *)
      destruct e; cbn [erase conforms] in Hc; try discriminate Hc.
      cbn [ign_step encode_e] in *.
      rewrite (sbind_ok _ _ _ _ _ (read_ld_bytes_app s rest pos ma (ld_fits _ He))). reflexivity.
    + (* enum: raw u64 varint *)
      destruct e; cbn [erase conforms] in Hc; try discriminate Hc.
      cbn [counts_fit] in Hf. apply fits_longb_true in Hf.
      cbn [ign_step encode_e].
      rewrite (sbind_ok _ _ _ _ _ (read_varint_u64_long' _ rest pos ma (fits_long_range _ Hf))).
      reflexivity.
Qed.

(* the conforming node of a composite value *)
Ltac node_of Hc :=
  match type of Hc with
  | conforms _ ?n _ = true =>
      destruct n; cbn [erase] in *;
      try (cbn [conforms] in Hc; discriminate Hc);
      try (cbn [conforms] in Hc;
           match type of Hc with
           | match ?r with _ => _ end = true => destruct r as [[? ?]|]; discriminate Hc
           end)
  end.

Lemma ign_step_union f ks depth :
  ign_step Sc cfg f (FUnion ks) depth = any_g Sc cfg TIgnored f (FUnion ks) depth.
Proof. reflexivity. Qed.

Lemma de_ign_composite f n depth favor force :
  match n with FUnion _ | FRecord _ _ => True | _ => False end ->
  de Sc cfg (S f) n depth favor force TIgnored = any_g Sc cfg TIgnored f n depth.
Proof.
  intro H. destruct force; [apply de_force_eq|]. rewrite de_ign_eq.
  destruct n; try destruct H; reflexivity.
Qed.

Lemma case_ign_union : forall i v, PI v -> PI (EUnion i v).
Proof.
  intros i v IH n depth Hpre fuel favor force rest pos ma Hfuel.
  pose proof Hpre as (Hc & _). node_of Hc.
  destruct fuel as [|f]; [unfold de_fuel in Hfuel; lia|].
  destruct (union_pre Sc cfg _ _ _ _ _ Hpre Hfuel)
    as (k & n' & d' & Hk & Hn & -> & Hfi & Hi & Hpre' & Hfu & Henc).
  unfold ign_post. rewrite de_ign_composite by exact I. rewrite Henc.
  cbn [any_g]. rewrite <- app_assoc.
  rewrite (sbind_ok _ _ _ _ _ (read_usize_nat i _ pos ma Hfi)).
  rewrite (nth_N_of_nat _ _ Hi), Hk.
  cbn [dec_depth]. rewrite sbind_sret.
  unfold node_at. rewrite Hn, sbind_sret.
  rewrite (IH n' d' Hpre' f false true rest _ ma ltac:(lia)).
  f_equal. f_equal. rewrite app_length. lia.
Qed.

(* records: visit_map of IgnoredAny *)
Lemma map_next_key_record_ign_eq f nm k fr depth :
  map_next_key Sc cfg (S f) (MSRecord ((nm, k) :: fr) depth) TIgnored
  = sret (Some (DIgnored, MSRecord ((nm, k) :: fr) depth)).
Proof. reflexivity. Qed.

Lemma map_next_key_record_nil_eq f depth tk :
  map_next_key Sc cfg (S f) (MSRecord [] depth) tk = sret None.
Proof. reflexivity. Qed.

Lemma record_loop_ign : forall fs fields d' M,
  fields_P (fun _ k v => item_g Sc cfg TIgnored Rign k d' v) fields fs ->
  Forall (fun e => (de_fuel e <= M)%nat) fs ->
  forall fuel acc rest pos ma, (length fs + 2 + M <= fuel)%nat ->
  exists kvs,
    map_loop Sc cfg fuel (MSRecord fields d') TIgnored TIgnored acc
      (mkRd (enc_fields Sc fields fs ++ rest) pos None ma)
    = (Ok kvs, mkRd rest (pos + N.of_nat (length (enc_fields Sc fields fs))) None ma).
Proof.
  induction fs as [|v vr IH]; intros fields d' M Hok HM fuel acc rest pos ma Hfuel.
  - destruct fields as [|[nm k] fr]; [|destruct Hok].
    destruct fuel as [|f]; [lia|]. destruct f as [|f1]; [lia|].
    rewrite map_loop_g_eq, map_next_key_record_nil_eq, sbind_sret.
    eexists. unfold ml_body, sret. cbn [enc_fields app length]. f_equal. f_equal. lia.
  - destruct fields as [|[nm k] fr]; [destruct Hok|].
    cbn [fields_P] in Hok. destruct Hok as [(n' & Hn & Hv) Hok].
    inversion HM as [|? ? HM1 HM2]; subst.
    cbn [length] in Hfuel.
    destruct fuel as [|f]; [lia|]. destruct f as [|f1]; [lia|].
    rewrite map_loop_g_eq, map_next_key_record_ign_eq, sbind_sret.
    unfold ml_body. rewrite map_next_value_record_g_eq.
    unfold node_at. rewrite Hn, sbind_sret.
    cbn [enc_fields]. unfold enc_at at 1. rewrite Hn. rewrite <- app_assoc.
    destruct (Hv f1 (enc_fields Sc fr vr ++ rest) pos ma ltac:(lia)) as (d & Hde & Hdv).
    rewrite sbind_assoc. rewrite (sbind_ok _ _ _ _ _ Hde). rewrite sbind_sret. cbn [fst snd].
    destruct (IH fr d' M Hok HM2 (S f1) ((DIgnored, d) :: acc) rest
                (pos + N.of_nat (length (encode_e Sc n' v))) ma ltac:(lia)) as (kvs & Hl).
    exists kvs. rewrite Hl. f_equal. f_equal.
    unfold enc_at. rewrite Hn. rewrite app_length. lia.
Qed.

Lemma fields_P_Forall (P : evalue -> Prop) (Q R : bytes -> nat -> evalue -> Prop) : forall fields fs,
  Forall P fs -> (forall nm k v, P v -> Q nm k v -> R nm k v) ->
  fields_P Q fields fs -> fields_P R fields fs.
Proof.
  induction fields as [|[nm k] fr IH]; intros [|v vr] HP H HQ; try exact HQ.
  cbn [fields_P] in *. inversion HP as [|? ? HPv HPr]; subst. destruct HQ as [HQ1 HQ2]. split.
  - apply H; assumption.
  - apply IH; assumption.
Qed.

Lemma case_ign_record : forall fs, Forall PI fs -> PI (ERecord fs).
Proof.
  intros fs IH n depth Hpre fuel favor force rest pos ma Hfuel.
  pose proof Hpre as (Hc & _). node_of Hc.
  destruct fuel as [|f]; [unfold de_fuel in Hfuel; lia|].
  destruct (record_pre Sc cfg _ _ _ _ _ Hpre Hfuel) as (d' & f1 & M & -> & -> & Hf1 & Hfl & HM).
  unfold ign_post. rewrite de_ign_composite by exact I. rewrite encode_record_eq.
  cbn [any_g dec_depth]. rewrite sbind_sret.
  rewrite (map_visit_generic_eq Sc cfg f1 _ TIgnored TIgnored TIgnored true eq_refl).
  assert (Hok : fields_P (fun _ k v => item_g Sc cfg TIgnored Rign k d' v) fields fs).
  { revert Hfl. apply (fields_P_Forall _ _ _ fields fs IH).
    intros nm k v HP Hq. apply ign_item_g; assumption. }
  destruct (record_loop_ign fs fields d' M Hok HM f1 [] rest pos ma Hf1) as (kvs & Hlp).
  rewrite (sbind_ok _ _ _ _ _ Hlp). reflexivity.
Qed.

(* arrays: both block readers *)
Lemma ign_array_aux : forall ign k blocks depth f rest pos ma,
  Forall (fun blk => Forall PI (snd blk)) blocks ->
  pre Sc cfg (FArray k) depth (EArray blocks) -> (de_fuel (EArray blocks) <= S f)%nat ->
  (do* d' <- dec_depth depth; seq_array Sc cfg f k d' ign TIgnored blk0 false)
    (mkRd (encode_e Sc (FArray k) (EArray blocks) ++ rest) pos None ma)
  = (Ok DIgnored, mkRd rest (pos + N.of_nat (length (encode_e Sc (FArray k) (EArray blocks)))) None ma).
Proof.
  intros ign k blocks depth f rest pos ma IH Hpre Hfuel.
  destruct (array_pre Sc cfg _ _ _ _ Hpre Hfuel) as (d' & f2 & M & -> & -> & Hmax & Hfh & Hf2 & HB).
  cbn [dec_depth]. rewrite sbind_sret.
  rewrite seq_array_g_eq. cbn [seq_policy]. rewrite seq_array_loop_g_eq.
  rewrite encode_array_eq.
  assert (HB' : Forall (blk_ok_g Sc cfg TIgnored Rign k d' M) blocks).
  { rewrite Forall_forall in *. intros blk Hblk.
    destruct (HB blk Hblk) as (H1 & H2 & H3 & H4). specialize (IH blk Hblk).
    repeat split; try assumption.
    rewrite Forall_forall in *. intros it Hit. destruct (H4 it Hit) as [Hp Hm].
    split; [|exact Hm]. apply ign_item_g; [apply IH; exact Hit|exact Hp]. }
  destruct (arr_blocks_g Sc cfg TIgnored ign Rign k d' M blocks HB' f2 f2 [] 0 false rest pos ma
              ltac:(lia) Hfh Hf2) as (ds & b' & Hlp & _).
  unfold blk0. rewrite (sbind_ok _ _ _ _ _ Hlp). reflexivity.
Qed.

Lemma case_ign_array : forall blocks, Forall (fun blk => Forall PI (snd blk)) blocks -> PI (EArray blocks).
Proof.
  intros blocks IH n depth Hpre fuel favor force rest pos ma Hfuel.
  pose proof Hpre as (Hc & _). node_of Hc.
  destruct fuel as [|f]; [unfold de_fuel in Hfuel; lia|].
  unfold ign_post. destruct force.
  - rewrite de_force_eq. cbn [any_g]. apply ign_array_aux; assumption.
  - rewrite de_ign_eq. cbn [ign_step]. apply ign_array_aux; assumption.
Qed.

(* maps *)
Lemma key_spec_ign : key_spec TIgnored (fun _ _ => True).
Proof.
  intros key tail pos ma Hk _. exists DIgnored. split; [|exact I]. unfold keyrd.
  rewrite (sbind_ok _ _ _ _ _ (read_ld_bytes_app key tail pos ma Hk)). reflexivity.
Qed.

Lemma ign_map_aux : forall ign k blocks depth f rest pos ma,
  Forall (fun blk => Forall (fun kv => PI (snd kv)) (snd blk)) blocks ->
  pre Sc cfg (FMap k) depth (EMap blocks) -> (de_fuel (EMap blocks) <= S f)%nat ->
  (do* d' <- dec_depth depth; map_visit Sc cfg f (MSMap k d' ign blk0) TIgnored)
    (mkRd (encode_e Sc (FMap k) (EMap blocks) ++ rest) pos None ma)
  = (Ok DIgnored, mkRd rest (pos + N.of_nat (length (encode_e Sc (FMap k) (EMap blocks)))) None ma).
Proof.
  intros ign k blocks depth f rest pos ma IH Hpre Hfuel.
  destruct (map_pre Sc cfg _ _ _ _ Hpre Hfuel) as (d' & f2 & M & -> & -> & Hmax & Hfh & Hf2 & HB).
  cbn [dec_depth]. rewrite sbind_sret.
  rewrite (map_visit_generic_eq Sc cfg _ _ TIgnored TIgnored TIgnored true eq_refl).
  unfold blk0. rewrite map_loop_map_eq.
  rewrite encode_map_eq'.
  assert (HB' : Forall (mblk_ok_g Sc cfg TIgnored Rign k d' M) blocks).
  { rewrite Forall_forall in *. intros blk Hblk.
    destruct (HB blk Hblk) as (H1 & H2 & H3 & H4). specialize (IH blk Hblk).
    repeat split; try assumption.
    rewrite Forall_forall in *. intros it Hit. destruct (H4 it Hit) as (Hk1 & Hk2 & Hp & Hm).
    repeat split; try assumption. apply ign_item_g; [apply IH; exact Hit|exact Hp]. }
  destruct (map_blocks_g Sc cfg TIgnored TIgnored ign (fun _ _ => True) Rign key_spec_ign
              k d' M blocks HB' f2 f2 [] 0 false rest pos ma ltac:(lia) Hfh Hf2) as (kvs & Hlp & _).
  rewrite (sbind_ok _ _ _ _ _ Hlp). reflexivity.
Qed.

Lemma case_ign_map : forall blocks,
  Forall (fun blk => Forall (fun kv => PI (snd kv)) (snd blk)) blocks -> PI (EMap blocks).
Proof.
  intros blocks IH n depth Hpre fuel favor force rest pos ma Hfuel.
  pose proof Hpre as (Hc & _). node_of Hc.
  destruct fuel as [|f]; [unfold de_fuel in Hfuel; lia|].
  unfold ign_post. destruct force.
  - rewrite de_force_eq. cbn [any_g]. apply ign_map_aux; assumption.
  - rewrite de_ign_eq. cbn [ign_step]. apply ign_map_aux; assumption.
Qed.

(* durations: 12 raw bytes, or the three-entry map when reached through a union *)
Lemma map_next_key_duration_g_eq f v vals idx tk :
  map_next_key Sc cfg (S f) (MSDuration (v :: vals) idx) tk
  = sret (Some (match tk with
                | TIgnored => DIgnored
                | THint HU64 => DInt false W64 (Z.of_nat idx)
                | _ => DStr (match idx with O => MONTHS | S O => DAYS | _ => MILLISECONDS end)
                end, MSDuration (v :: vals) idx)).
Proof. reflexivity. Qed.

Lemma map_next_key_duration_nil_g_eq f idx tk :
  map_next_key Sc cfg (S f) (MSDuration [] idx) tk = sret None.
Proof. reflexivity. Qed.

Lemma map_next_value_duration_g_eq f v rest idx tv :
  map_next_value Sc cfg (S f) (MSDuration (v :: rest) idx) tv
  = sret (prim_event tv (DInt false W32 (Z.of_N v)), MSDuration rest (S idx)).
Proof. reflexivity. Qed.

Lemma case_ign_duration : forall a b c, PI (EDuration a b c).
Proof.
  intros a b c n depth Hpre fuel favor force rest pos ma Hfuel.
  pose proof Hpre as (Hc & _). node_of Hc.
  destruct fuel as [|f]; [unfold de_fuel in Hfuel; lia|].
  destruct (duration_parts a b c) as (L & P1 & P2 & P3). cbv zeta in L, P1, P2, P3.
  unfold ign_post. cbn [encode_e].
  set (bs := spec_le 4 a ++ spec_le 4 b ++ spec_le 4 c) in *.
  destruct force.
  - rewrite de_force_eq. cbn [any_g].
    change 12 with (N.of_nat 12). rewrite <- L.
    rewrite (sbind_ok _ _ _ _ _ (read_exact_app bs rest pos ma)).
    assert (exists g, f = (7 + g)%nat) as [g ->] by (exists (f - 7)%nat; unfold de_fuel in Hfuel; cbn [esize] in Hfuel; lia).
    cbn [Nat.add].
    rewrite (map_visit_generic_eq Sc cfg _ _ TIgnored TIgnored TIgnored true eq_refl).
    rewrite map_loop_g_eq, map_next_key_duration_g_eq, sbind_sret. unfold ml_body at 1.
    rewrite map_next_value_duration_g_eq, sbind_sret. cbn [fst snd].
    rewrite map_loop_g_eq, map_next_key_duration_g_eq, sbind_sret. unfold ml_body at 1.
    rewrite map_next_value_duration_g_eq, sbind_sret. cbn [fst snd].
    rewrite map_loop_g_eq, map_next_key_duration_g_eq, sbind_sret. unfold ml_body at 1.
    rewrite map_next_value_duration_g_eq, sbind_sret. cbn [fst snd].
    rewrite map_loop_g_eq, map_next_key_duration_nil_g_eq, sbind_sret. unfold ml_body.
    reflexivity.
  - rewrite de_ign_eq. cbn [ign_step].
    change 12 with (N.of_nat 12). rewrite <- L.
    rewrite (sbind_ok _ _ _ _ _ (read_exact_app bs rest pos ma)). reflexivity.
Qed.

Theorem de_ignored_gen : forall e n depth, pre Sc cfg n depth e -> ign_ok n depth e.
Proof.
  induction e using evalue_ind'; try (apply case_ign_leaf; reflexivity).
  - apply case_ign_array. assumption.
  - apply case_ign_map. assumption.
  - apply case_ign_union. assumption.
  - apply case_ign_record. assumption.
  - apply case_ign_duration.
Qed.

End Ignored.

(** Skipping a value consumes exactly the bytes that reading it would. *)
Theorem de_ignored_complete : forall Sc cfg e n rest pos ma fuel depth,
  schema_wf Sc = true ->
  conforms Sc n (erase e) = true ->
  layout_ok e = true ->
  within_limits Sc cfg n e = true ->
  (depth_cost e <= depth)%nat ->
  (de_fuel e <= fuel)%nat ->
  counts_fit e = true ->
  (Z.of_nat (length (encode_e Sc n e)) <= I64_MAX)%Z ->
  de Sc cfg fuel n depth false false TIgnored (mkRd (encode_e Sc n e ++ rest) pos None ma)
    = (Ok DIgnored, mkRd rest (pos + N.of_nat (length (encode_e Sc n e))) None ma).
Proof.
  intros Sc cfg e n rest pos ma fuel depth _ Hc Hl Hw Hd Hfuel Hf He.
  apply (de_ignored_gen Sc cfg e n depth); [|exact Hfuel].
  repeat split; assumption.
Qed.

(** ... and that is what deserialize_any consumes: both leave the reader in the same state. *)
Corollary ignored_consumes_as_any : forall Sc cfg e n rest pos ma fuel depth,
  schema_wf Sc = true ->
  conforms Sc n (erase e) = true ->
  layout_ok e = true ->
  within_limits Sc cfg n e = true ->
  (depth_cost e <= depth)%nat ->
  (de_fuel e <= fuel)%nat ->
  counts_fit e = true ->
  (Z.of_nat (length (encode_e Sc n e)) <= I64_MAX)%Z ->
  exists d st_any st_ign,
    de Sc cfg fuel n depth false false TAny (mkRd (encode_e Sc n e ++ rest) pos None ma) = (Ok d, st_any) /\
    de Sc cfg fuel n depth false false TIgnored (mkRd (encode_e Sc n e ++ rest) pos None ma)
      = (Ok DIgnored, st_ign) /\
    st_any = st_ign /\
    rd_pos st_ign - pos = N.of_nat (length (encode_e Sc n e)) /\
    rd_inp st_ign = rest.
Proof.
  intros Sc cfg e n rest pos ma fuel depth Hwf Hc Hl Hw Hd Hfuel Hf He.
  destruct (de_any_complete_bounded Sc cfg e n rest pos ma fuel depth Hwf Hc Hl Hw Hd Hfuel Hf He)
    as (d & Hany & _).
  pose proof (de_ignored_complete Sc cfg e n rest pos ma fuel depth Hwf Hc Hl Hw Hd Hfuel Hf He) as Hign.
  eexists. eexists. eexists. split; [exact Hany|]. split; [exact Hign|].
  split; [reflexivity|]. cbn [rd_pos rd_inp]. split; [lia|reflexivity].
Qed.
