(** Safety of the datum deserializer on untrusted input (property C04):
    for ARBITRARY bytes, targets and limit configurations, [de] never panics, only consumes its
    input, enforces the depth / sequence-length / allocation limits, and its result does not depend
    on the amount of fuel once it suffices. *)
From Coq Require Import NArith ZArith List Lia Bool.
From Coq Require Import ZifyN ZifyBool ZifyNat.
Require Import Base Kinds Schema Varint Utf8 Sval Target Reader Text De.
Require Import AvroValue Encoding Denote Wf VarintProofs DeProofs.
Import ListNotations.
Open Scope N_scope.

Ltac Zify.zify_post_hook ::= Z.to_euclidean_division_equations.

Arguments N.add : simpl never.
Arguments N.sub : simpl never.
Arguments N.mul : simpl never.
Arguments N.div : simpl never.
Arguments N.modulo : simpl never.
Arguments N.pow : simpl never.
Arguments N.shiftl : simpl never.
Arguments N.shiftr : simpl never.
Arguments N.land : simpl never.
Arguments N.lor : simpl never.
Arguments N.ltb : simpl never.
Arguments N.leb : simpl never.
Arguments N.eqb : simpl never.
Arguments N.of_nat : simpl never.
Arguments N.to_nat : simpl never.
Arguments N.min : simpl never.
Arguments Z.of_nat : simpl never.
Arguments Z.of_N : simpl never.
Arguments Z.to_N : simpl never.
Arguments Z.add : simpl never.
Arguments Z.sub : simpl never.
Arguments Z.mul : simpl never.
Arguments Z.pow : simpl never.
Arguments Z.ltb : simpl never.
Arguments Z.leb : simpl never.
Arguments Z.eqb : simpl never.
Arguments Z.opp : simpl never.
Arguments Z.abs : simpl never.
Arguments Z.modulo : simpl never.

(* ------------------------------------------------------------------ *)
(** * 0. One-step unfolding of the mutual block (open recursion, all targets) *)

Section Steps.
Variable Sc : fschema.
Variable cfg : dcfg.

Definition de_step (f : nat) (n : fnode) (depth : nat) (favor : bool) (force_any : bool) (t : dtarget) : RM dval :=
    let any : RM dval :=
      match n with
      | FNull => sret (leaf t DUnit)
      | FBoolean => do* e <- read_bool; sret (leaf t e)
      | FInt | FDate | FTimeMillis => do* z <- read_varint VI32; sret (leaf t (DInt true W32 z))
      | FLong | FTimeMicros | FTimestampMillis | FTimestampMicros =>
          do* z <- read_varint VI64; sret (leaf t (DInt true W64 z))
      | FFloat => do* bs <- read_exact 4; sret (leaf t (DF32 (le_val bs)))
      | FDouble => do* bs <- read_exact 8; sret (leaf t (DF64 (le_val bs)))
      | FBytes => do* e <- read_ld_bytes; sret (leaf t e)
      | FString | FUuid => do* e <- read_ld_str; sret (leaf t e)
      | FArray items =>
          do* d' <- dec_depth depth;
          seq_array Sc cfg f items d' false t blk0 false
      | FMap values =>
          do* d' <- dec_depth depth;
          map_visit Sc cfg f (MSMap values d' false blk0) t
      | FUnion variants =>
          do* disc <- read_usize;
          match nth_N variants disc with
          | None => rfail (Err EData)
          | Some k =>
              do* d' <- dec_depth depth;
              do* n' <- node_at Sc k;
              de Sc cfg f n' d' false true t
          end
      | FRecord _ fields =>
          do* d' <- dec_depth depth;
          map_visit Sc cfg f (MSRecord fields d') t
      | FEnum _ symbols =>
          do* disc <- read_usize;
          match nth_N symbols disc with
          | None => rfail (Err EData)
          | Some s => sret (leaf t (DStr s))
          end
      | FFixed _ size => do* r <- read_slice size; sret (leaf t (bytes_event r))
      | FDecimal _ _ _ | FBigDecimal => do* e <- read_decimal n VHStr; sret (leaf t e)
      | FDuration =>
          do* bs <- read_exact 12;
          map_visit Sc cfg f (MSDuration [le_val (firstn 4 bs); le_val (firstn 4 (skipn 4 bs)); le_val (skipn 8 bs)] O) t
      end in
    let duration_seq : RM dval :=
      do* bs <- read_exact 12;
      seq_duration Sc cfg f [le_val (firstn 4 bs); le_val (firstn 4 (skipn 4 bs)); le_val (skipn 8 bs)] t in
    let decimal_hint (h : vhint) : RM dval :=
      match n with
      | FDecimal _ _ _ | FBigDecimal => do* e <- read_decimal n h; sret (leaf t e)
      | _ => any
      end in
    let identifier : RM dval :=
      match n with
      | FInt => do* z <- read_varint VI32;
                if (z <? 0)%Z then rfail (Err EData) else sret (leaf t (DInt false W64 z))
      | FLong => do* z <- read_varint VI64;
                 if (z <? 0)%Z then rfail (Err EData) else sret (leaf t (DInt false W64 z))
      | _ => any
      end in
    if force_any then any else
    match t with
    | TAny | TUnitStruct _ | TMap _ _ | TStruct _ _ | TVUnit | TVNewtype _ => any
    | THint h =>
        match h with
        | HBool | HI8 | HI16 | HI32 | HU8 | HU16 | HU32 | HF32 | HChar | HUnit => any
        | HU64 =>
            match n with
            | FEnum _ _ =>
                do* z <- read_varint VI64;
                if (z <? 0)%Z then rfail (Err EData) else sret (leaf t (DInt false W64 z))
            | _ => decimal_hint VHU64
            end
        | HI64 =>
            match n with
            | FLong => do* z <- read_varint VI64; sret (leaf t (DInt true W64 z))
            | _ => decimal_hint VHI64
            end
        | HU128 => decimal_hint VHU128
        | HI128 => decimal_hint VHI128
        | HF64 =>
            match n with
            | FDouble => do* bs <- read_exact 8; sret (leaf t (DF64 (le_val bs)))
            | _ => decimal_hint VHF64
            end
        | HStr | HString =>
            match n with
            | FString | FBytes => do* e <- read_ld_str; sret (leaf t e)
            | FFixed _ size => do* r <- read_slice size; do* e <- str_event r; sret (leaf t e)
            | _ => any
            end
        | HBytes | HByteBuf =>
            match n with
            | FBytes => do* e <- read_ld_bytes; sret (leaf t e)
            | FDuration => do* r <- read_slice 12; sret (leaf t (bytes_event r))
            | _ => any
            end
        | HIdentifier => identifier
        end
    | TNewtypeStruct _ t' => do* d <- de Sc cfg f n depth favor false t'; sret (DNewtype d)
    | TOption t' =>
        match n with
        | FNull => sret DNone
        | FUnion variants =>
            do* disc <- read_usize;
            match nth_N variants disc with
            | None => rfail (Err EData)
            | Some k =>
                do* vn <- node_at Sc k;
                match vn with
                | FNull => sret DNone
                | _ =>
                    let other_is_null :=
                      Nat.eqb (length variants) 2 &&
                      match nth_error variants (1 - N.to_nat disc) with
                      | Some k2 => match fnode_at Sc k2 with Some FNull => true | _ => false end
                      | None => false
                      end in
                    do* d' <- dec_depth depth;
                    do* d <- de Sc cfg f vn d' (negb other_is_null) false t';
                    sret (DSome d)
                end
            end
        | _ => do* d <- de Sc cfg f n depth favor false t'; sret (DSome d)
        end
    | TSeq _ =>
        match n with
        | FArray items => do* d' <- dec_depth depth; seq_array Sc cfg f items d' false t blk0 false
        | FDuration => duration_seq
        | _ => any
        end
    | TTuple ts | TTupleStruct _ ts =>
        match n with
        | FArray items => do* d' <- dec_depth depth; seq_array Sc cfg f items d' false t blk0 true
        | FDuration => if Nat.eqb (length ts) 3 then duration_seq else any
        | _ => any
        end
    | TEnum _ variants =>
        let type_name_access (vn : fnode) (d' : nat) : RM dval :=
          enum_payload Sc cfg f variants (type_name vn) vn d' in
        if favor then type_name_access n depth else
        match n with
        | FUnion uvariants =>
            do* disc <- read_usize;
            match nth_N uvariants disc with
            | None => rfail (Err EData)
            | Some k => do* d' <- dec_depth depth; do* vn <- node_at Sc k; type_name_access vn d'
            end
        | FInt | FLong | FBytes | FString | FEnum _ _ | FFixed _ _ =>
            do* d' <- dec_depth depth;
            do* key <- de Sc cfg f n d' false false (THint HIdentifier);
            let idx :=
              match key with
              | DInt false W64 z =>
                  if (z <? Z.of_nat (length variants))%Z then Some (Z.to_nat z) else None
              | _ => match dval_bytes key with
                     | Some s => index_of s (map fst variants)
                     | None => None
                     end
              end in
            match idx with
            | None => rfail (Err EData)
            | Some i =>
                match nth_error variants i with
                | Some (vname, TVUnit) => sret (DEnum vname DUnit)
                | _ => rfail (Err EData)
                end
            end
        | _ => do* d' <- dec_depth depth; type_name_access n d'
        end
    | TIgnored =>
        match n with
        | FString => do* _ <- read_ld_bytes; sret DIgnored
        | FArray items => do* d' <- dec_depth depth; seq_array Sc cfg f items d' true t blk0 false
        | FMap values => do* d' <- dec_depth depth; map_visit Sc cfg f (MSMap values d' true blk0) t
        | FInt => do* _ <- read_varint VU32; sret DIgnored
        | FLong | FEnum _ _ => do* _ <- read_varint VU64; sret DIgnored
        | FDuration => do* _ <- read_exact 12; sret DIgnored
        | _ => any
        end
    end
.

Definition seq_array_step (f : nat) (items : nat) (depth : nat) (ignored : bool) (t : dtarget) (b : blk) (expect_end : bool) : RM dval :=
      let (pol, sh) := seq_policy t in
      do* r <- seq_array_loop Sc cfg f items depth ignored pol b [];
      let '(ds, b') := r in
      if expect_end && negb (b_finished b') then
        do* hm <- has_more f cfg ignored b';
        if fst hm then rfail (Err EData) else sret (shape_seq sh ds)
      else sret (shape_seq sh ds)
.

Definition seq_array_loop_step (f : nat) (items : nat) (depth : nat) (ignored : bool) (pol : seqpolicy) (b : blk) (acc : list dval) : RM (list dval * blk) :=
      match pol with
      | PFixed [] => sret (rev acc, b)
      | PFixed (t1 :: ts) =>
          do* hm <- has_more f cfg ignored b;
          if fst hm then
            do* n' <- node_at Sc items;
            do* d <- de Sc cfg f n' depth false false t1;
            seq_array_loop Sc cfg f items depth ignored (PFixed ts) (snd hm) (d :: acc)
          else rfail (Err EData)                 (* invalid_length *)
      | PRepeat t1 =>
          do* hm <- has_more f cfg ignored b;
          if fst hm then
            do* n' <- node_at Sc items;
            do* d <- de Sc cfg f n' depth false false t1;
            seq_array_loop Sc cfg f items depth ignored pol (snd hm) (d :: acc)
          else sret (rev acc, snd hm)
      end
.

Definition seq_duration_step (f : nat) (vals : list N) (t : dtarget) : RM dval :=
      let (pol, sh) := seq_policy t in
      match pol with
      | PRepeat t1 => sret (shape_seq sh (map (fun v => prim_event t1 (DInt false W32 (Z.of_N v))) vals))
      | PFixed ts =>
          if Nat.ltb (length vals) (length ts) then rfail (Err EData)
          else sret (shape_seq sh (map (fun p => prim_event (fst p) (DInt false W32 (Z.of_N (snd p))))
                                       (combine ts vals)))
      end
.

Definition map_visit_step (f : nat) (src : mapsrc) (t : dtarget) : RM dval :=
      match map_policy t with
      | MPGeneric tk tv ign =>
          do* kvs <- map_loop Sc cfg f src tk tv [];
          sret (if ign then DIgnored else DMap kvs)
      | MPStruct fs =>
          do* r <- struct_loop Sc cfg f src fs (repeat false (length fs)) [];
          sret (DStruct r)
      end
.

Definition map_next_key_step (f : nat) (src : mapsrc) (tk : dtarget) : RM (option (dval * mapsrc)) :=
      match src with
      | MSMap values depth ignored b =>
          do* hm <- has_more f cfg ignored b;
          if fst hm then
            (* StringDeserializer: any -> StringVisitor; ignored_any -> BytesVisitor *)
            do* k <- (match tk with
                      | TIgnored => do* _ <- read_ld_bytes; sret DIgnored
                      | _ => read_ld_str
                      end);
            sret (Some (k, MSMap values depth ignored (snd hm)))
          else sret None
      | MSRecord fields depth =>
          match fields with
          | [] => sret None
          | (nm, _) :: _ =>
              match tk with
              | TEnum _ _ => rfail Unmodelled      (* serde's StrDeserializer::deserialize_enum *)
              | _ => sret (Some (prim_event tk (DStr nm), src))
              end
          end
      | MSDuration vals idx =>
          match vals with
          | [] => sret None
          | _ =>
              let nm := match idx with O => MONTHS | S O => DAYS | _ => MILLISECONDS end in
              sret (Some (match tk with
                          | TIgnored => DIgnored
                          | THint HU64 => DInt false W64 (Z.of_nat idx)
                          | _ => DStr nm
                          end, src))
          end
      end
.

Definition map_next_value_step (f : nat) (src : mapsrc) (tv : dtarget) : RM (dval * mapsrc) :=
      match src with
      | MSMap values depth ignored b =>
          do* n' <- node_at Sc values;
          do* d <- de Sc cfg f n' depth false false tv;
          sret (d, src)
      | MSRecord fields depth =>
          match fields with
          | [] => rfail (Panic PNextValueWithoutKey)
          | (_, k) :: rest =>
              do* n' <- node_at Sc k;
              do* d <- de Sc cfg f n' depth false false tv;
              sret (d, MSRecord rest depth)
          end
      | MSDuration vals idx =>
          match vals with
          | [] => rfail (Panic PIndex)
          | v :: rest => sret (prim_event tv (DInt false W32 (Z.of_N v)), MSDuration rest (S idx))
          end
      end
.

Definition map_loop_step (f : nat) (src : mapsrc) (tk tv : dtarget) (acc : list (dval * dval)) : RM (list (dval * dval)) :=
      do* nk <- map_next_key Sc cfg f src tk;
      match nk with
      | None => sret (rev acc)
      | Some (k, src1) =>
          do* r <- map_next_value Sc cfg f src1 tv;
          map_loop Sc cfg f (snd r) tk tv ((k, fst r) :: acc)
      end
.

Definition struct_loop_step (f : nat) (src : mapsrc) (fs : list (bytes * dtarget)) (seen : list bool) (acc : list (bytes * dval)) : RM (list (bytes * dval)) :=
      do* nk <- map_next_key Sc cfg f src (THint HIdentifier);
      match nk with
      | None => sret (rev acc ++ missing_fields fs seen)
      | Some (k, src1) =>
          let found :=
            match k with
            | DInt false W64 z =>
                match nth_error fs (Z.to_nat z) with
                | Some (nm, tf) => if (0 <=? z)%Z then Some (Z.to_nat z, nm, tf) else None
                | None => None
                end
            | _ => match dval_bytes k with
                   | Some s => match find_field s fs O with
                               | Some (i, tf) => Some (i, s, tf)
                               | None => None
                               end
                   | None => None
                   end
            end in
          match found with
          | Some (i, nm, tf) =>
              if nth i seen false then rfail (Err EData)      (* duplicate field *)
              else
                do* r <- map_next_value Sc cfg f src1 tf;
                struct_loop Sc cfg f (snd r) fs (set_seen seen i) ((nm, fst r) :: acc)
          | None =>
              do* r <- map_next_value Sc cfg f src1 TIgnored;
              struct_loop Sc cfg f (snd r) fs seen acc
          end
      end
.

Definition enum_payload_step (f : nat) (variants : list (bytes * dtarget)) (vname : bytes) (vn : fnode) (depth : nat) : RM dval :=
      match index_of vname (map fst variants) with
      | None => rfail (Err EData)
      | Some i =>
          match nth_error variants i with
          | None => rfail (Panic PIndex)
          | Some (nm, payload) =>
              match payload with
              | TVUnit => do* _ <- de Sc cfg f vn depth false false TIgnored; sret (DEnum nm DUnit)
              | TVNewtype t' => do* d <- de Sc cfg f vn depth false false t'; sret (DEnum nm d)
              | TTuple ts =>
                  do* d <- de Sc cfg f vn depth false false (TTuple ts);
                  match d with DSeq _ => sret (DEnum nm d) | _ => rfail (Err EData) end
              | TStruct sn fs =>
                  do* d <- de Sc cfg f vn depth false false (TStruct sn fs);
                  match d with DStruct _ => sret (DEnum nm d) | _ => rfail (Err EData) end
              | _ => rfail Unmodelled
              end
          end
      end
.

Lemma de_S f n depth favor force t :
  de Sc cfg (S f) n depth favor force t = de_step f n depth favor force t.
Proof.
  destruct force; [destruct n; reflexivity|];
  destruct t; try destruct h; destruct n; reflexivity.
Qed.
Lemma seq_array_S f items depth ign t b ee :
  seq_array Sc cfg (S f) items depth ign t b ee = seq_array_step f items depth ign t b ee.
Proof. reflexivity. Qed.
Lemma seq_array_loop_S f items depth ign pol b acc :
  seq_array_loop Sc cfg (S f) items depth ign pol b acc = seq_array_loop_step f items depth ign pol b acc.
Proof. reflexivity. Qed.
Lemma seq_duration_S f vals t :
  seq_duration Sc cfg (S f) vals t = seq_duration_step f vals t.
Proof. reflexivity. Qed.
Lemma map_visit_S f src t :
  map_visit Sc cfg (S f) src t = map_visit_step f src t.
Proof. reflexivity. Qed.
Lemma map_next_key_S f src tk :
  map_next_key Sc cfg (S f) src tk = map_next_key_step f src tk.
Proof. reflexivity. Qed.
Lemma map_next_value_S f src tv :
  map_next_value Sc cfg (S f) src tv = map_next_value_step f src tv.
Proof. reflexivity. Qed.
Lemma map_loop_S f src tk tv acc :
  map_loop Sc cfg (S f) src tk tv acc = map_loop_step f src tk tv acc.
Proof. reflexivity. Qed.
Lemma struct_loop_S f src fs seen acc :
  struct_loop Sc cfg (S f) src fs seen acc = struct_loop_step f src fs seen acc.
Proof. reflexivity. Qed.
Lemma enum_payload_S f variants vname vn depth :
  enum_payload Sc cfg (S f) variants vname vn depth = enum_payload_step f variants vname vn depth.
Proof. reflexivity. Qed.

End Steps.
