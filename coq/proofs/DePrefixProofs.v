(** C17 / C04 -- the decoder never depends on bytes it did not read.

    Part A  [Fund]: a "fundamental lemma" for unary predicates on reader computations. ANY predicate on
            [RM A] that is closed under [sbind] / [sret] / failing and holds of the six primitive readers
            (read_varint, read_exact, read_slice, skip_bytes, take_varint, take_exact) holds of every
            function of the mutually recursive [de] family -- every target, node, flag, fuel: [fund_de] ...
    Part B  [pdet x m]: prefix determinism. If [m rs = (Ok a, rs')] then on the reader whose remaining
            input is extended by ANY bytes x, [m (ext x rs) = (Ok a, ext x rs')] -- slice AND chunked
            readers (the chunk plan is untouched by the extension), borrowed events included.
            [de_prefix_determinism] (the slice statement of the task), [de_prefix_determinism_gen]
            (both modes), and the same for the other functions of the family.
    Part C  [pcut x m]: the converse direction for runs that succeed on the long input: on the cut
            input the run either succeeds identically or fails with an Err -- never Panic, OutOfFuel,
            Unmodelled: [de_cut_ok_or_err]. *)
From Coq Require Import NArith ZArith List Lia Bool.
From Coq Require Import ZifyN ZifyBool ZifyNat.
Require Import Base Kinds Schema Varint Utf8 Sval Target Reader Text De.
Require Import AvroValue Encoding Denote Wf VarintProofs DeProofs ReaderProofs DeSafetyProofs.
Import ListNotations.
Open Scope N_scope.
Notation length := List.length (only parsing).

Ltac Zify.zify_post_hook ::= Z.to_euclidean_division_equations.

Arguments N.add : simpl never.
Arguments N.sub : simpl never.
Arguments N.mul : simpl never.
Arguments N.div : simpl never.
Arguments N.modulo : simpl never.
Arguments N.pow : simpl never.
Arguments N.shiftl : simpl never.
Arguments N.shiftr : simpl never.
Arguments N.land : simpl never.
Arguments N.lor : simpl never.
Arguments N.ltb : simpl never.
Arguments N.leb : simpl never.
Arguments N.eqb : simpl never.
Arguments N.of_nat : simpl never.
Arguments N.to_nat : simpl never.
Arguments N.min : simpl never.
Arguments Z.of_nat : simpl never.
Arguments Z.of_N : simpl never.
Arguments Z.to_N : simpl never.
Arguments Z.to_nat : simpl never.
Arguments Z.add : simpl never.
Arguments Z.sub : simpl never.
Arguments Z.mul : simpl never.
Arguments Z.pow : simpl never.
Arguments Z.ltb : simpl never.
Arguments Z.leb : simpl never.
Arguments Z.eqb : simpl never.
Arguments Z.opp : simpl never.
Arguments Z.abs : simpl never.
Arguments Z.modulo : simpl never.

#[local] Opaque de seq_array seq_array_loop seq_duration map_visit map_next_key map_next_value map_loop struct_loop enum_payload.

(* ------------------------------------------------------------------------------------------ *)
(** * Part A. The fundamental lemma *)

Section Fund.
Variable P : forall A : Type, RM A -> Prop.
Hypothesis P_bind : forall A B (m : RM A) (k : A -> RM B),
  P A m -> (forall a, P B (k a)) -> P B (sbind m k).
Hypothesis P_ret : forall A (a : A), P A (sret a).
Hypothesis P_fail : forall A (r : result A), is_ok r = false -> P A (rfail r).
Hypothesis P_varint : forall t, P _ (read_varint t).
Hypothesis P_exact : forall n, P _ (read_exact n).
Hypothesis P_slice : forall n, P _ (read_slice n).
Hypothesis P_skip : forall n, P _ (skip_bytes n).
Hypothesis P_take_varint : forall l, P _ (take_varint l).
Hypothesis P_take_exact : forall l n, P _ (take_exact l n).

#[local] Opaque read_varint read_exact read_slice skip_bytes take_varint take_exact.

Ltac p_prim := solve [ eauto ].
Ltac p_step :=
  lazymatch goal with
  | |- P _ (let _ := _ in _) => cbv zeta
  | |- P _ (sret _) => apply P_ret
  | |- P _ (rfail _) => apply P_fail; reflexivity
  | |- P _ (sbind _ _) => apply P_bind; [ try p_prim | intro ]
  | |- P _ (if ?c then _ else _) => destruct c
  | |- P _ (match ?x with _ => _ end) => destruct x
  | |- P _ _ => p_prim
  end.
Ltac p_walk := repeat p_step.

Lemma P_dec_depth d : P _ (dec_depth d).
Proof. unfold dec_depth. p_walk. Qed.
Lemma P_node_at Sc k : P _ (node_at Sc k).
Proof. unfold node_at. p_walk. Qed.
Lemma P_read_usize : P _ read_usize.
Proof. unfold read_usize. p_walk. Qed.
Lemma P_read_bool : P _ read_bool.
Proof.
  unfold read_bool. apply P_bind; [apply P_slice|]. intros [bs o]. cbn [fst]. p_walk.
Qed.
Lemma P_str_event r : P _ (str_event r).
Proof. unfold str_event. p_walk. Qed.
Hint Resolve P_dec_depth P_node_at P_read_usize P_read_bool P_str_event : core.
Lemma P_read_ld_bytes : P _ read_ld_bytes.
Proof. unfold read_ld_bytes. p_walk. Qed.
Lemma P_read_ld_str : P _ read_ld_str.
Proof. unfold read_ld_str. p_walk. Qed.
Hint Resolve P_read_ld_bytes P_read_ld_str : core.
Lemma P_finish_decimal u sc h : P _ (finish_decimal u sc h).
Proof. unfold finish_decimal. cbv zeta. p_walk. Qed.
Hint Resolve P_finish_decimal : core.
#[local] Opaque finish_decimal.
Lemma P_read_decimal n h : P _ (read_decimal n h).
Proof. unfold read_decimal. p_walk. Qed.
Hint Resolve P_read_decimal : core.
Lemma P_read_block_len : forall f ignored, P _ (read_block_len f ignored).
Proof. induction f as [|f IH]; intro ignored; cbn [read_block_len]; p_walk. Qed.
Hint Resolve P_read_block_len : core.
Lemma P_has_more f cfg ignored b : P _ (has_more f cfg ignored b).
Proof. unfold has_more. p_walk. Qed.
Hint Resolve P_has_more : core.
#[local] Opaque dec_depth node_at read_usize read_bool str_event read_ld_bytes read_ld_str read_decimal
  read_block_len has_more.

Section Step.
Variable Sc : fschema.
Variable cfg : dcfg.
Variable f : nat.

Hypothesis IHde : forall n depth favor force t, P _ (de Sc cfg f n depth favor force t).
Hypothesis IHsa : forall items depth ignored t b ee, P _ (seq_array Sc cfg f items depth ignored t b ee).
Hypothesis IHsl : forall items depth ignored pol b acc, P _ (seq_array_loop Sc cfg f items depth ignored pol b acc).
Hypothesis IHsd : forall vals t, P _ (seq_duration Sc cfg f vals t).
Hypothesis IHmv : forall src t, P _ (map_visit Sc cfg f src t).
Hypothesis IHnk : forall src tk, P _ (map_next_key Sc cfg f src tk).
Hypothesis IHnv : forall src tv, P _ (map_next_value Sc cfg f src tv).
Hypothesis IHml : forall src tk tv acc, P _ (map_loop Sc cfg f src tk tv acc).
Hypothesis IHst : forall src fs seen acc, P _ (struct_loop Sc cfg f src fs seen acc).
Hypothesis IHep : forall variants vname vn depth, P _ (enum_payload Sc cfg f variants vname vn depth).

Lemma fstep_any n depth t : P _ (de_any Sc cfg f n depth t).
Proof. unfold de_any. destruct n; p_walk. Qed.
Lemma fstep_duration_seq t : P _ (de_duration_seq Sc cfg f t).
Proof. unfold de_duration_seq. p_walk. Qed.
Hint Resolve fstep_any fstep_duration_seq : core.
#[local] Opaque de_any de_duration_seq.
Lemma fstep_decimal_hint n depth t h : P _ (de_decimal_hint Sc cfg f n depth t h).
Proof. unfold de_decimal_hint. destruct n; p_walk. Qed.
Lemma fstep_identifier n depth t : P _ (de_identifier Sc cfg f n depth t).
Proof. unfold de_identifier. destruct n; p_walk. Qed.
Lemma fstep_enum_by_key variants key : P _ (de_enum_by_key variants key).
Proof. unfold de_enum_by_key. p_walk. Qed.
Lemma fstep_ep_seq nm d : P _ (ep_seq nm d).
Proof. unfold ep_seq. p_walk. Qed.
Lemma fstep_ep_struct nm d : P _ (ep_struct nm d).
Proof. unfold ep_struct. p_walk. Qed.
Hint Resolve fstep_decimal_hint fstep_identifier fstep_enum_by_key fstep_ep_seq fstep_ep_struct : core.
#[local] Opaque de_decimal_hint de_identifier de_enum_by_key ep_seq ep_struct.

Lemma fstep_de n depth favor force t : P _ (de Sc cfg (S f) n depth favor force t).
Proof.
  rewrite de_unfold. destruct force; [apply fstep_any|].
  destruct t; try (destruct h); p_walk.
Qed.
Lemma fstep_sa items depth ignored t b ee : P _ (seq_array Sc cfg (S f) items depth ignored t b ee).
Proof. rewrite seq_array_unfold. destruct (seq_policy t) as [pol sh]. p_walk. Qed.
Lemma fstep_sl items depth ignored pol b acc : P _ (seq_array_loop Sc cfg (S f) items depth ignored pol b acc).
Proof. rewrite seq_array_loop_unfold. p_walk. Qed.
Lemma fstep_sd vals t : P _ (seq_duration Sc cfg (S f) vals t).
Proof. rewrite seq_duration_unfold. destruct (seq_policy t) as [pol sh]. p_walk. Qed.
Lemma fstep_mv src t : P _ (map_visit Sc cfg (S f) src t).
Proof. rewrite map_visit_unfold. p_walk. Qed.
Lemma fstep_nk src tk : P _ (map_next_key Sc cfg (S f) src tk).
Proof. rewrite map_next_key_unfold. p_walk. Qed.
Lemma fstep_nv src tv : P _ (map_next_value Sc cfg (S f) src tv).
Proof. rewrite map_next_value_unfold. p_walk. Qed.
Lemma fstep_ml src tk tv acc : P _ (map_loop Sc cfg (S f) src tk tv acc).
Proof. rewrite map_loop_unfold. p_walk. Qed.
Lemma fstep_st src fs seen acc : P _ (struct_loop Sc cfg (S f) src fs seen acc).
Proof. rewrite struct_loop_unfold. p_walk. Qed.
Lemma fstep_ep variants vname vn depth : P _ (enum_payload Sc cfg (S f) variants vname vn depth).
Proof. rewrite enum_payload_unfold. p_walk. Qed.

End Step.

Section Main.
Variable Sc : fschema.
Variable cfg : dcfg.

Definition all_P (f : nat) : Prop :=
  (forall n depth favor force t, P _ (de Sc cfg f n depth favor force t)) /\
  (forall items depth ignored t b ee, P _ (seq_array Sc cfg f items depth ignored t b ee)) /\
  (forall items depth ignored pol b acc, P _ (seq_array_loop Sc cfg f items depth ignored pol b acc)) /\
  (forall vals t, P _ (seq_duration Sc cfg f vals t)) /\
  (forall src t, P _ (map_visit Sc cfg f src t)) /\
  (forall src tk, P _ (map_next_key Sc cfg f src tk)) /\
  (forall src tv, P _ (map_next_value Sc cfg f src tv)) /\
  (forall src tk tv acc, P _ (map_loop Sc cfg f src tk tv acc)) /\
  (forall src fs seen acc, P _ (struct_loop Sc cfg f src fs seen acc)) /\
  (forall variants vname vn depth, P _ (enum_payload Sc cfg f variants vname vn depth)).

Lemma all_P_holds : forall f, all_P f.
Proof.
  induction f as [|f IH].
  - unfold all_P. repeat match goal with |- _ /\ _ => split end; intros.
    + rewrite de_zero. apply P_fail; reflexivity.
    + rewrite seq_array_zero. apply P_fail; reflexivity.
    + rewrite seq_array_loop_zero. apply P_fail; reflexivity.
    + rewrite seq_duration_zero. apply P_fail; reflexivity.
    + rewrite map_visit_zero. apply P_fail; reflexivity.
    + rewrite map_next_key_zero. apply P_fail; reflexivity.
    + rewrite map_next_value_zero. apply P_fail; reflexivity.
    + rewrite map_loop_zero. apply P_fail; reflexivity.
    + rewrite struct_loop_zero. apply P_fail; reflexivity.
    + rewrite enum_payload_zero. apply P_fail; reflexivity.
  - destruct IH as (H1 & H2 & H3 & H4 & H5 & H6 & H7 & H8 & H9 & H10).
    unfold all_P. repeat match goal with |- _ /\ _ => split end; intros.
    + apply fstep_de; assumption.
    + apply fstep_sa; assumption.
    + apply fstep_sl; assumption.
    + apply fstep_sd; assumption.
    + apply fstep_mv; assumption.
    + apply fstep_nk; assumption.
    + apply fstep_nv; assumption.
    + apply fstep_ml; assumption.
    + apply fstep_st; assumption.
    + apply fstep_ep; assumption.
Qed.

Theorem fund_de : forall f n depth favor force t, P _ (de Sc cfg f n depth favor force t).
Proof. intro f. apply (all_P_holds f). Qed.
Theorem fund_seq_array : forall f items depth ignored t b ee, P _ (seq_array Sc cfg f items depth ignored t b ee).
Proof. intro f. apply (all_P_holds f). Qed.
Theorem fund_seq_array_loop : forall f items depth ignored pol b acc,
  P _ (seq_array_loop Sc cfg f items depth ignored pol b acc).
Proof. intro f. apply (all_P_holds f). Qed.
Theorem fund_seq_duration : forall f vals t, P _ (seq_duration Sc cfg f vals t).
Proof. intro f. apply (all_P_holds f). Qed.
Theorem fund_map_visit : forall f src t, P _ (map_visit Sc cfg f src t).
Proof. intro f. apply (all_P_holds f). Qed.
Theorem fund_map_next_key : forall f src tk, P _ (map_next_key Sc cfg f src tk).
Proof. intro f. apply (all_P_holds f). Qed.
Theorem fund_map_next_value : forall f src tv, P _ (map_next_value Sc cfg f src tv).
Proof. intro f. apply (all_P_holds f). Qed.
Theorem fund_map_loop : forall f src tk tv acc, P _ (map_loop Sc cfg f src tk tv acc).
Proof. intro f. apply (all_P_holds f). Qed.
Theorem fund_struct_loop : forall f src fs seen acc, P _ (struct_loop Sc cfg f src fs seen acc).
Proof. intro f. apply (all_P_holds f). Qed.
Theorem fund_enum_payload : forall f variants vname vn depth, P _ (enum_payload Sc cfg f variants vname vn depth).
Proof. intro f. apply (all_P_holds f). Qed.

End Main.
End Fund.

(* ------------------------------------------------------------------------------------------ *)
(** * Part B. Prefix determinism *)

(** the same reader (position, chunk plan, allocation cap) over an input that goes on with [x] *)
Definition ext (x : bytes) (rs : rstate) : rstate :=
  mkRd (rd_inp rs ++ x) (rd_pos rs) (rd_chunks rs) (rd_max_alloc rs).

Lemma ext_nil rs : ext [] rs = rs.
Proof. unfold ext. rewrite app_nil_r. destruct rs; reflexivity. Qed.

Lemma ext_ext x y rs : ext y (ext x rs) = ext (x ++ y) rs.
Proof. unfold ext. cbn [rd_inp rd_pos rd_chunks rd_max_alloc]. rewrite app_assoc. reflexivity. Qed.

Lemma consume_ext x k rs : k <= blen (rd_inp rs) -> consume k (ext x rs) = ext x (consume k rs).
Proof.
  intro H. unfold consume, ext, blen in *. cbn [rd_inp rd_pos rd_chunks rd_max_alloc].
  rewrite skipn_app. replace (N.to_nat k - length (rd_inp rs))%nat with O by lia. reflexivity.
Qed.

Lemma buffer_ext x rs : exists m, buffer rs = firstn m (buffer (ext x rs)).
Proof.
  unfold buffer, ext. cbn [rd_inp rd_chunks]. destruct (rd_chunks rs) as [c|].
  - exists (N.to_nat (N.min (ch_left c) (N.of_nat (length (rd_inp rs))))).
    rewrite firstn_firstn, app_length.
    replace (Nat.min (N.to_nat (N.min (ch_left c) (N.of_nat (length (rd_inp rs)))))
                     (N.to_nat (N.min (ch_left c) (N.of_nat (length (rd_inp rs) + length x)))))
      with (N.to_nat (N.min (ch_left c) (N.of_nat (length (rd_inp rs))))) by lia.
    rewrite firstn_app.
    replace (N.to_nat (N.min (ch_left c) (N.of_nat (length (rd_inp rs)))) - length (rd_inp rs))%nat with O by lia.
    cbn [firstn]. rewrite app_nil_r. reflexivity.
  - exists (length (rd_inp rs)). rewrite firstn_app, Nat.sub_diag, firstn_all. cbn [firstn].
    rewrite app_nil_r. reflexivity.
Qed.

Lemma buffer_ext_len x rs : blen (buffer rs) <= blen (buffer (ext x rs)).
Proof.
  destruct (buffer_ext x rs) as [m E]. rewrite E. unfold blen. rewrite firstn_length. lia.
Qed.

Lemma buffer_prefix_inp rs : exists m, buffer rs = firstn m (rd_inp rs).
Proof.
  unfold buffer. destruct (rd_chunks rs); [eexists; reflexivity|].
  exists (length (rd_inp rs)). rewrite firstn_all. reflexivity.
Qed.

Lemma firstn_app_le {A} (l y : list A) n : (n <= length l)%nat -> firstn n (l ++ y) = firstn n l.
Proof.
  intro H. rewrite firstn_app. replace (n - length l)%nat with O by lia. cbn [firstn]. apply app_nil_r.
Qed.

Lemma decode_var_app t l y v k : decode_var t l = Some (v, k) -> decode_var t (l ++ y) = Some (v, k).
Proof.
  intro H. apply (decode_var_of_prefix t (l ++ y) (length l)).
  rewrite firstn_app, Nat.sub_diag, firstn_all. cbn [firstn]. rewrite app_nil_r. exact H.
Qed.

Section PDet.
Variable x : bytes.

Definition pdet {A} (m : RM A) : Prop :=
  forall rs a rs', m rs = (Ok a, rs') -> m (ext x rs) = (Ok a, ext x rs').

Lemma pdet_bind {A B} (m : RM A) (k : A -> RM B) :
  pdet m -> (forall a, pdet (k a)) -> pdet (sbind m k).
Proof.
  intros Hm Hk rs b rs' H. unfold sbind in *.
  destruct (m rs) as [[a| | | |] s1] eqn:E; try discriminate.
  rewrite (Hm _ _ _ E). apply Hk. exact H.
Qed.
Lemma pdet_ret {A} (a : A) : pdet (sret a).
Proof. intros rs b rs' H. unfold sret in *. inversion H; subst. reflexivity. Qed.
Lemma pdet_fail {A} (r : result A) : is_ok r = false -> pdet (rfail r).
Proof. intros Hr rs b rs' H. unfold rfail in H. inversion H; subst. discriminate. Qed.

Lemma pdet_varint t : pdet (read_varint t).
Proof.
  intros rs a rs' H. unfold read_varint in *.
  change (rd_chunks (ext x rs)) with (rd_chunks rs).
  destruct (rd_chunks rs) as [c|] eqn:Ec.
  - destruct (decode_var t (buffer rs)) as [[v k]|] eqn:Eb.
    + inversion H; subst v rs'. clear H.
      pose proof (decode_var_consumed _ _ _ _ Eb) as Hk. pose proof (buffer_len_le rs) as Hb.
      destruct (buffer_ext x rs) as [m Em]. rewrite Em in Eb. apply decode_var_of_prefix in Eb.
      rewrite Eb. rewrite consume_ext by lia. reflexivity.
    + rewrite decode_var_gather in H.
      destruct (decode_var t (rd_inp rs)) as [[v k]|] eqn:Ei; [|discriminate].
      inversion H; subst v rs'. clear H.
      pose proof (decode_var_consumed _ _ _ _ Ei) as Hk.
      rewrite (decode_var_gather_len _ _ _ _ Ei).
      pose proof (decode_var_app t _ x _ _ Ei) as E2.
      destruct (decode_var t (buffer (ext x rs))) as [[v' k']|] eqn:Eb'.
      * destruct (buffer_prefix_inp (ext x rs)) as [m Em]. rewrite Em in Eb'.
        apply decode_var_of_prefix in Eb'. change (rd_inp (ext x rs)) with (rd_inp rs ++ x) in Eb'.
        rewrite E2 in Eb'. inversion Eb'; subst v' k'. rewrite consume_ext by lia. reflexivity.
      * rewrite decode_var_gather. change (rd_inp (ext x rs)) with (rd_inp rs ++ x). rewrite E2.
        rewrite (decode_var_gather_len _ _ _ _ E2). rewrite consume_ext by lia. reflexivity.
  - destruct (decode_var t (rd_inp rs)) as [[v k]|] eqn:Ei; [|discriminate].
    inversion H; subst v rs'. clear H.
    pose proof (decode_var_consumed _ _ _ _ Ei) as Hk.
    change (rd_inp (ext x rs)) with (rd_inp rs ++ x). rewrite (decode_var_app t _ x _ _ Ei).
    rewrite consume_ext by lia. reflexivity.
Qed.

Lemma pdet_exact n : pdet (read_exact n).
Proof.
  intros rs a rs' H. unfold read_exact in *. change (rd_inp (ext x rs)) with (rd_inp rs ++ x).
  destruct (N.ltb_spec (blen (rd_inp rs)) n) as [?|Hge]; [discriminate|].
  inversion H; subst a rs'. clear H. unfold blen in *. rewrite app_length.
  destruct (N.ltb_spec (N.of_nat (length (rd_inp rs) + length x)) n) as [?|_]; [lia|].
  rewrite firstn_app_le by lia. rewrite consume_ext by (unfold blen; lia). reflexivity.
Qed.

Lemma pdet_slice n : pdet (read_slice n).
Proof.
  intros rs a rs' H. unfold read_slice in *.
  change (rd_chunks (ext x rs)) with (rd_chunks rs). change (rd_inp (ext x rs)) with (rd_inp rs ++ x).
  change (rd_pos (ext x rs)) with (rd_pos rs). change (rd_max_alloc (ext x rs)) with (rd_max_alloc rs).
  pose proof (buffer_ext_len x rs) as Hbx. pose proof (buffer_len_le rs) as Hb.
  destruct (rd_chunks rs) as [c|] eqn:Ec.
  - destruct (N.leb_spec n (blen (buffer rs))) as [Hn|Hn].
    + inversion H; subst a rs'. clear H.
      destruct (N.leb_spec n (blen (buffer (ext x rs)))) as [_|?]; [|lia].
      rewrite firstn_app_le by (unfold blen in *; lia). rewrite consume_ext by lia. reflexivity.
    + destruct (N.ltb_spec (rd_max_alloc rs) n) as [?|Ha]; [discriminate|].
      destruct (N.ltb_spec (blen (rd_inp rs)) n) as [?|Hge]; [discriminate|].
      inversion H; subst a rs'. clear H.
      assert (Hge' : n <= blen (rd_inp rs ++ x)) by (unfold blen in *; rewrite app_length; lia).
      destruct (n <=? blen (buffer (ext x rs))).
      * rewrite firstn_app_le by (unfold blen in *; lia). rewrite consume_ext by lia. reflexivity.
      * destruct (N.ltb_spec (blen (rd_inp rs ++ x)) n) as [?|_]; [lia|].
        rewrite firstn_app_le by (unfold blen in *; lia). rewrite consume_ext by lia. reflexivity.
  - destruct (N.ltb_spec (blen (rd_inp rs)) n) as [?|Hge]; [discriminate|].
    inversion H; subst a rs'. clear H.
    destruct (N.ltb_spec (blen (rd_inp rs ++ x)) n) as [Hlt|_];
      [unfold blen in *; rewrite app_length in Hlt; lia|].
    rewrite firstn_app_le by (unfold blen in *; lia). rewrite consume_ext by lia. reflexivity.
Qed.

Lemma pdet_skip n : pdet (skip_bytes n).
Proof.
  intros rs a rs' H. unfold skip_bytes in *. change (rd_inp (ext x rs)) with (rd_inp rs ++ x).
  destruct (N.ltb_spec (blen (rd_inp rs)) n) as [?|Hge]; [discriminate|].
  inversion H; subst a rs'. clear H.
  destruct (N.ltb_spec (blen (rd_inp rs ++ x)) n) as [Hlt|_];
    [unfold blen in *; rewrite app_length in Hlt; lia|].
  rewrite consume_ext by lia. reflexivity.
Qed.

(* the window of a Take over the two inputs *)
Lemma take_window l (inp : bytes) :
  firstn (N.to_nat (N.min l (blen inp))) inp
  = firstn (N.to_nat (N.min l (blen inp))) (firstn (N.to_nat (N.min l (blen (inp ++ x)))) (inp ++ x)).
Proof.
  rewrite firstn_firstn. unfold blen. rewrite app_length.
  replace (Nat.min (N.to_nat (N.min l (N.of_nat (length inp))))
                   (N.to_nat (N.min l (N.of_nat (length inp + length x)))))
    with (N.to_nat (N.min l (N.of_nat (length inp)))) by lia.
  rewrite firstn_app_le by lia. reflexivity.
Qed.

Lemma pdet_take_varint l : pdet (take_varint l).
Proof.
  intros rs a rs' H. unfold take_varint in *. change (rd_inp (ext x rs)) with (rd_inp rs ++ x).
  set (av := firstn (N.to_nat (N.min l (blen (rd_inp rs)))) (rd_inp rs)) in *.
  set (av' := firstn (N.to_nat (N.min l (blen (rd_inp rs ++ x)))) (rd_inp rs ++ x)).
  pose proof (decode_var_gather VI64 av) as G. cbn [decode_var] in G. rewrite G in H.
  destruct (decode_i64 av) as [[v k]|] eqn:E; [|discriminate].
  inversion H; subst a rs'. clear H.
  assert (Ev : decode_var VI64 av = Some (v, k)) by exact E.
  pose proof (decode_var_consumed _ _ _ _ Ev) as Hk.
  assert (Hav : blen av <= blen (rd_inp rs)) by (unfold av, blen; rewrite firstn_length; lia).
  rewrite (decode_var_gather_len _ _ _ _ Ev).
  assert (Ev' : decode_var VI64 av' = Some (v, k)).
  { apply (decode_var_of_prefix VI64 av' (N.to_nat (N.min l (blen (rd_inp rs))))).
    unfold av'. rewrite <- take_window. exact Ev. }
  pose proof (decode_var_gather VI64 av') as G'. cbn [decode_var] in G', Ev'. rewrite G', Ev'.
  assert (Ev'' : decode_var VI64 av' = Some (v, k)) by exact Ev'.
  rewrite (decode_var_gather_len _ _ _ _ Ev''). rewrite consume_ext by lia. reflexivity.
Qed.

Lemma pdet_take_exact l n : pdet (take_exact l n).
Proof.
  intros rs a rs' H. unfold take_exact in *. change (rd_inp (ext x rs)) with (rd_inp rs ++ x).
  set (av := firstn (N.to_nat (N.min l (blen (rd_inp rs)))) (rd_inp rs)) in *.
  set (av' := firstn (N.to_nat (N.min l (blen (rd_inp rs ++ x)))) (rd_inp rs ++ x)).
  destruct (N.ltb_spec (blen av) n) as [?|Hge]; [discriminate|].
  inversion H; subst a rs'. clear H.
  assert (Hw : av = firstn (N.to_nat (N.min l (blen (rd_inp rs)))) av') by apply take_window.
  assert (Hav : blen av <= blen (rd_inp rs)) by (unfold av, blen; rewrite firstn_length; lia).
  assert (Hlen : blen av <= blen av') by (rewrite Hw at 1; unfold blen; rewrite firstn_length; lia).
  destruct (N.ltb_spec (blen av') n) as [?|_]; [lia|].
  assert (Hf : firstn (N.to_nat n) av' = firstn (N.to_nat n) av).
  { rewrite Hw. rewrite firstn_firstn. f_equal.
    assert (blen av <= N.min l (blen (rd_inp rs))) by (unfold av, blen; rewrite firstn_length; lia). lia. }
  rewrite Hf. rewrite consume_ext by lia. reflexivity.
Qed.

Definition Pdet (A : Type) (m : RM A) : Prop := pdet m.

Section Family.
Variable Sc : fschema.
Variable cfg : dcfg.

Theorem pdet_de : forall f n depth favor force t, pdet (de Sc cfg f n depth favor force t).
Proof.
  exact (fund_de Pdet (@pdet_bind) (@pdet_ret) (@pdet_fail) pdet_varint pdet_exact pdet_slice pdet_skip
           pdet_take_varint pdet_take_exact Sc cfg).
Qed.
Theorem pdet_seq_array : forall f items depth ignored t b ee, pdet (seq_array Sc cfg f items depth ignored t b ee).
Proof.
  exact (fund_seq_array Pdet (@pdet_bind) (@pdet_ret) (@pdet_fail) pdet_varint pdet_exact pdet_slice pdet_skip
           pdet_take_varint pdet_take_exact Sc cfg).
Qed.
Theorem pdet_seq_array_loop : forall f items depth ignored pol b acc,
  pdet (seq_array_loop Sc cfg f items depth ignored pol b acc).
Proof.
  exact (fund_seq_array_loop Pdet (@pdet_bind) (@pdet_ret) (@pdet_fail) pdet_varint pdet_exact pdet_slice pdet_skip
           pdet_take_varint pdet_take_exact Sc cfg).
Qed.
Theorem pdet_seq_duration : forall f vals t, pdet (seq_duration Sc cfg f vals t).
Proof.
  exact (fund_seq_duration Pdet (@pdet_bind) (@pdet_ret) (@pdet_fail) pdet_varint pdet_exact pdet_slice pdet_skip
           pdet_take_varint pdet_take_exact Sc cfg).
Qed.
Theorem pdet_map_visit : forall f src t, pdet (map_visit Sc cfg f src t).
Proof.
  exact (fund_map_visit Pdet (@pdet_bind) (@pdet_ret) (@pdet_fail) pdet_varint pdet_exact pdet_slice pdet_skip
           pdet_take_varint pdet_take_exact Sc cfg).
Qed.
Theorem pdet_map_next_key : forall f src tk, pdet (map_next_key Sc cfg f src tk).
Proof.
  exact (fund_map_next_key Pdet (@pdet_bind) (@pdet_ret) (@pdet_fail) pdet_varint pdet_exact pdet_slice pdet_skip
           pdet_take_varint pdet_take_exact Sc cfg).
Qed.
Theorem pdet_map_next_value : forall f src tv, pdet (map_next_value Sc cfg f src tv).
Proof.
  exact (fund_map_next_value Pdet (@pdet_bind) (@pdet_ret) (@pdet_fail) pdet_varint pdet_exact pdet_slice pdet_skip
           pdet_take_varint pdet_take_exact Sc cfg).
Qed.
Theorem pdet_map_loop : forall f src tk tv acc, pdet (map_loop Sc cfg f src tk tv acc).
Proof.
  exact (fund_map_loop Pdet (@pdet_bind) (@pdet_ret) (@pdet_fail) pdet_varint pdet_exact pdet_slice pdet_skip
           pdet_take_varint pdet_take_exact Sc cfg).
Qed.
Theorem pdet_struct_loop : forall f src fs seen acc, pdet (struct_loop Sc cfg f src fs seen acc).
Proof.
  exact (fund_struct_loop Pdet (@pdet_bind) (@pdet_ret) (@pdet_fail) pdet_varint pdet_exact pdet_slice pdet_skip
           pdet_take_varint pdet_take_exact Sc cfg).
Qed.
Theorem pdet_enum_payload : forall f variants vname vn depth, pdet (enum_payload Sc cfg f variants vname vn depth).
Proof.
  exact (fund_enum_payload Pdet (@pdet_bind) (@pdet_ret) (@pdet_fail) pdet_varint pdet_exact pdet_slice pdet_skip
           pdet_take_varint pdet_take_exact Sc cfg).
Qed.
End Family.

End PDet.

(** ** the statements *)

(** 1a, as asked: the slice reader. A successful decode of [pre] is a successful decode, with the same
    events (borrowed offsets included), of every input [pre ++ x] that goes on behind it; the final reader
    is the same one with [x] still unread behind what was left. *)
Theorem de_prefix_determinism : forall Sc cfg fuel n depth favor force t pre x pos ma d rs',
  de Sc cfg fuel n depth favor force t (mkRd pre pos None ma) = (Ok d, rs') ->
  de Sc cfg fuel n depth favor force t (mkRd (pre ++ x) pos None ma)
  = (Ok d, mkRd (rd_inp rs' ++ x) (rd_pos rs') (rd_chunks rs') (rd_max_alloc rs')).
Proof.
  intros Sc cfg fuel n depth favor force t pre x pos ma d rs' H.
  exact (pdet_de x Sc cfg fuel n depth favor force t _ _ _ H).
Qed.

(** any reader state, slice or chunked (the chunk plan is that of the shorter input) *)
Theorem de_prefix_determinism_gen : forall Sc cfg fuel n depth favor force t x rs d rs',
  de Sc cfg fuel n depth favor force t rs = (Ok d, rs') ->
  de Sc cfg fuel n depth favor force t (ext x rs) = (Ok d, ext x rs').
Proof. intros Sc cfg fuel n depth favor force t x rs d rs' H. exact (pdet_de x Sc cfg fuel n depth favor force t _ _ _ H). Qed.

(** the chunked reader of the harness: the same plan over the two inputs *)
Theorem de_prefix_determinism_chunked : forall Sc cfg fuel n depth favor force t pre x plan ma d rs',
  de Sc cfg fuel n depth favor force t (chunked_reader pre plan ma) = (Ok d, rs') ->
  de Sc cfg fuel n depth favor force t (chunked_reader (pre ++ x) plan ma) = (Ok d, ext x rs').
Proof.
  intros Sc cfg fuel n depth favor force t pre x plan ma d rs' H.
  exact (pdet_de x Sc cfg fuel n depth favor force t _ _ _ H).
Qed.

(** de_datum: the value is the same and the input left grows by exactly the continuation *)
Theorem de_datum_prefix_determinism : forall Sc cfg fuel t x rs d k,
  de_datum fuel Sc cfg t rs = Ok (d, k) ->
  de_datum fuel Sc cfg t (ext x rs) = Ok (d, k + blen x).
Proof.
  intros Sc cfg fuel t x rs d k H. unfold de_datum in *. destruct (fnode_at Sc 0) as [root|]; [|discriminate].
  destruct (de Sc cfg fuel root (c_depth cfg) false false t rs) as [[d0| | | |] st] eqn:E; try discriminate.
  inversion H; subst d0 k. rewrite (pdet_de x Sc cfg fuel _ _ _ _ _ _ _ _ E).
  unfold ext, blen. cbn [rd_inp]. rewrite app_length. f_equal. f_equal. lia.
Qed.

(* ------------------------------------------------------------------------------------------ *)
(** * Part C. Cutting an input on which the run succeeds: the same success, or an Err *)

Definition ok_or_err {A} (r : result A) : Prop := match r with Ok _ | Err _ => True | _ => False end.

Section PCut.
Variable x : bytes.

Definition pcut {A} (m : RM A) : Prop :=
  pdet x m /\ forall rs, is_ok (fst (m (ext x rs))) = true -> ok_or_err (fst (m rs)).

Lemma pcut_bind {A B} (m : RM A) (k : A -> RM B) :
  pcut m -> (forall a, pcut (k a)) -> pcut (sbind m k).
Proof.
  intros [Hd Hg] Hk. split.
  - apply pdet_bind; [exact Hd|]. intro a. apply (Hk a).
  - intros rs H. unfold sbind in *. specialize (Hg rs).
    destruct (m (ext x rs)) as [[a| | | |] s2] eqn:E2; try discriminate H.
    specialize (Hg eq_refl).
    destruct (m rs) as [[a'| | | |] s1] eqn:E1; cbn [fst ok_or_err] in *; try contradiction; [|exact I].
    rewrite (Hd _ _ _ E1) in E2. inversion E2; subst a' s2. apply (proj2 (Hk a)). exact H.
Qed.
Lemma pcut_ret {A} (a : A) : pcut (sret a).
Proof. split; [apply pdet_ret|]. intros rs _. exact I. Qed.
Lemma pcut_fail {A} (r : result A) : is_ok r = false -> pcut (rfail r).
Proof. intro Hr. split; [apply pdet_fail; exact Hr|]. intros rs H. unfold rfail in H. cbn [fst] in H. congruence. Qed.

Lemma pcut_prim {A} (m : RM A) : pdet x m -> (forall rs, ok_or_err (fst (m rs))) -> pcut m.
Proof. intros Hd Ho. split; [exact Hd|]. intros rs _. apply Ho. Qed.

Lemma varint_ok_or_err t rs : ok_or_err (fst (read_varint t rs)).
Proof.
  unfold read_varint. destruct (rd_chunks rs).
  - destruct (decode_var t (buffer rs)) as [[? ?]|]; [exact I|].
    destruct (decode_var t (gather (rd_inp rs))) as [[? ?]|]; exact I.
  - destruct (decode_var t (rd_inp rs)) as [[? ?]|]; exact I.
Qed.
Lemma exact_ok_or_err n rs : ok_or_err (fst (read_exact n rs)).
Proof. unfold read_exact. destruct (blen (rd_inp rs) <? n); exact I. Qed.
Lemma slice_ok_or_err n rs : ok_or_err (fst (read_slice n rs)).
Proof.
  unfold read_slice. destruct (rd_chunks rs).
  - destruct (n <=? blen (buffer rs)); [exact I|]. destruct (rd_max_alloc rs <? n); [exact I|].
    destruct (blen (rd_inp rs) <? n); exact I.
  - destruct (blen (rd_inp rs) <? n); exact I.
Qed.
Lemma skip_ok_or_err n rs : ok_or_err (fst (skip_bytes n rs)).
Proof. unfold skip_bytes. destruct (blen (rd_inp rs) <? n); exact I. Qed.
Lemma take_varint_ok_or_err l rs : ok_or_err (fst (take_varint l rs)).
Proof. unfold take_varint. destruct (decode_i64 _) as [[? ?]|]; exact I. Qed.
Lemma take_exact_ok_or_err l n rs : ok_or_err (fst (take_exact l n rs)).
Proof. unfold take_exact. destruct (_ <? n); exact I. Qed.

Lemma pcut_cases {A} (m : RM A) : pcut m -> forall rs a rs2, m (ext x rs) = (Ok a, rs2) ->
  (exists rs', m rs = (Ok a, rs') /\ rs2 = ext x rs') \/ (exists e rs', m rs = (Err e, rs')).
Proof.
  intros [Hd Hg] rs a rs2 H. specialize (Hg rs). rewrite H in Hg. specialize (Hg eq_refl).
  destruct (m rs) as [[a'| | | |] rs'] eqn:E; cbn [fst ok_or_err] in Hg; try contradiction.
  - left. rewrite (Hd _ _ _ E) in H. inversion H; subst. eauto.
  - right. eauto.
Qed.

Lemma pcut_exact n : pcut (read_exact n).
Proof. exact (pcut_prim _ (pdet_exact x n) (exact_ok_or_err n)). Qed.
Lemma pcut_varint t : pcut (read_varint t).
Proof. exact (pcut_prim _ (pdet_varint x t) (varint_ok_or_err t)). Qed.

Definition Pcut (A : Type) (m : RM A) : Prop := pcut m.

Theorem pcut_de : forall Sc cfg f n depth favor force t, pcut (de Sc cfg f n depth favor force t).
Proof.
  intros Sc cfg.
  exact (fund_de Pcut (@pcut_bind) (@pcut_ret) (@pcut_fail)
           (fun t => pcut_prim _ (pdet_varint x t) (varint_ok_or_err t))
           (fun n => pcut_prim _ (pdet_exact x n) (exact_ok_or_err n))
           (fun n => pcut_prim _ (pdet_slice x n) (slice_ok_or_err n))
           (fun n => pcut_prim _ (pdet_skip x n) (skip_ok_or_err n))
           (fun l => pcut_prim _ (pdet_take_varint x l) (take_varint_ok_or_err l))
           (fun l n => pcut_prim _ (pdet_take_exact x l n) (take_exact_ok_or_err l n)) Sc cfg).
Qed.

End PCut.

(** a decode that succeeds on the long input: on the cut input it is the same success (same events, the
    reader of the long run is the cut run's reader extended), or an Err -- never Panic / OutOfFuel / Unmodelled.
    Slice and chunked readers, every target; no hypothesis on the schema. *)
Theorem de_cut_ok_or_err : forall Sc cfg fuel n depth favor force t x rs d rs2,
  de Sc cfg fuel n depth favor force t (ext x rs) = (Ok d, rs2) ->
  (exists rs', de Sc cfg fuel n depth favor force t rs = (Ok d, rs') /\ rs2 = ext x rs') \/
  (exists e rs', de Sc cfg fuel n depth favor force t rs = (Err e, rs')).
Proof.
  intros Sc cfg fuel n depth favor force t x rs d rs2 H.
  destruct (pcut_de x Sc cfg fuel n depth favor force t) as [Hd Hg].
  specialize (Hg rs). rewrite H in Hg. specialize (Hg eq_refl).
  destruct (de Sc cfg fuel n depth favor force t rs) as [[d'| | | |] rs'] eqn:E; cbn [fst ok_or_err] in Hg;
    try contradiction.
  - left. rewrite (Hd _ _ _ E) in H. inversion H; subst. eauto.
  - right. eauto.
Qed.


(* ------------------------------------------------------------------------------------------ *)
(** * Part D. The chunked reader, target TAny, allocation cap covering the long input:
      where the long run succeeds, the cut run succeeds identically or fails with an I/O error *)

Section PIo.
Variable x : bytes.

(* a chunked reader whose allocation cap covers its input and the continuation *)
Definition inv (rs : rstate) : Prop :=
  rd_chunks rs <> None /\ blen (rd_inp rs ++ x) <= rd_max_alloc rs.

Lemma inv_consume k rs : inv rs -> inv (consume k rs).
Proof.
  intros [Hc Hm]. unfold inv, consume, blen in *. cbn [rd_inp rd_chunks rd_max_alloc]. split.
  - destruct (rd_chunks rs); [discriminate|contradiction].
  - rewrite app_length in *. rewrite skipn_length. lia.
Qed.

Definition pio {A} (Q : A -> Prop) (m : RM A) : Prop :=
  forall rs a s2, inv rs -> m (ext x rs) = (Ok a, s2) ->
    match m rs with
    | (Ok a', rs') => a' = a /\ s2 = ext x rs' /\ Q a /\ inv rs'
    | (Err EIo, _) => True
    | _ => False
    end.

Lemma pio_bind {A B} (R : A -> Prop) (Q : B -> Prop) (m : RM A) (k : A -> RM B) :
  pio R m -> (forall a, R a -> pio Q (k a)) -> pio Q (sbind m k).
Proof.
  intros Hm Hk rs b s3 Hi H. unfold sbind in *.
  destruct (m (ext x rs)) as [[a| | | |] s2] eqn:E2; try discriminate.
  specialize (Hm rs a s2 Hi E2). destruct (m rs) as [[a'|e| | |] s1]; try contradiction.
  - destruct Hm as (-> & -> & Hr & Hi1). apply (Hk a Hr s1 b s3 Hi1 H).
  - destruct e; [contradiction|exact I].
Qed.
Lemma pio_ret {A} (Q : A -> Prop) (a : A) : Q a -> pio Q (sret a).
Proof. intros Hq rs b s2 Hi H. unfold sret in *. inversion H; subst. auto. Qed.
Lemma pio_fail {A} (Q : A -> Prop) (r : result A) : is_ok r = false -> pio Q (rfail r).
Proof. intros Hr rs b s2 Hi H. unfold rfail in H. inversion H; subst. discriminate. Qed.
Lemma pio_weaken {A} (R Q : A -> Prop) m : pio R m -> (forall a, R a -> Q a) -> pio Q m.
Proof.
  intros Hm HRQ rs a s2 Hi H. specialize (Hm rs a s2 Hi H).
  destruct (m rs) as [[a'|e| | |] s1]; auto. destruct Hm as (? & ? & ? & ?). auto.
Qed.

(* from prefix determinism and a case analysis of the cut run alone *)
Lemma pio_of_pdet {A} (Q : A -> Prop) (m : RM A) : pdet x m ->
  (forall rs, inv rs -> is_ok (fst (m (ext x rs))) = true ->
     match m rs with
     | (Ok a', rs') => Q a' /\ inv rs'
     | (Err EIo, _) => True
     | _ => False
     end) -> pio Q m.
Proof.
  intros Hd Hc rs a s2 Hi H. specialize (Hc rs Hi). rewrite H in Hc. specialize (Hc eq_refl).
  destruct (m rs) as [[a'|e| | |] s1] eqn:E; auto.
  destruct Hc as [Hq Hi1]. rewrite (Hd _ _ _ E) in H. inversion H; subst. auto.
Qed.

Lemma pio_varint t : pio tt1 (read_varint t).
Proof.
  apply pio_of_pdet; [apply pdet_varint|]. intros rs Hi _. pose proof Hi as [Hc _].
  unfold read_varint. destruct (rd_chunks rs) as [c|]; [|contradiction].
  destruct (decode_var t (buffer rs)) as [[v k]|]; [split; [exact I|apply inv_consume; exact Hi]|].
  destruct (decode_var t (gather (rd_inp rs))) as [[v k]|]; [split; [exact I|apply inv_consume; exact Hi]|exact I].
Qed.
Lemma pio_exact n : pio tt1 (read_exact n).
Proof.
  apply pio_of_pdet; [apply pdet_exact|]. intros rs Hi _. unfold read_exact.
  destruct (blen (rd_inp rs) <? n); [exact I|split; [exact I|apply inv_consume; exact Hi]].
Qed.
Lemma pio_slice n : pio tt1 (read_slice n).
Proof.
  apply pio_of_pdet; [apply pdet_slice|]. intros rs Hi Hok. pose proof Hi as [Hc Hm].
  unfold read_slice in *. change (rd_chunks (ext x rs)) with (rd_chunks rs) in Hok.
  change (rd_max_alloc (ext x rs)) with (rd_max_alloc rs) in Hok.
  destruct (rd_chunks rs) as [c|] eqn:Ec; [|contradiction].
  destruct (n <=? blen (buffer rs)); [split; [exact I|apply inv_consume; exact Hi]|].
  destruct (N.ltb_spec (rd_max_alloc rs) n) as [Ha|Ha].
  - exfalso. pose proof (buffer_len_le (ext x rs)) as Hb. change (rd_inp (ext x rs)) with (rd_inp rs ++ x) in Hb.
    destruct (N.leb_spec n (blen (buffer (ext x rs)))) as [?|_]; [lia|].
    destruct (N.ltb_spec (rd_max_alloc rs) n) as [_|?]; [|lia]. discriminate Hok.
  - destruct (blen (rd_inp rs) <? n); [exact I|split; [exact I|apply inv_consume; exact Hi]].
Qed.
Lemma pio_take_varint l : pio tt1 (take_varint l).
Proof.
  apply pio_of_pdet; [apply pdet_take_varint|]. intros rs Hi _. unfold take_varint.
  destruct (decode_i64 _) as [[v k]|]; [split; [exact I|apply inv_consume; exact Hi]|exact I].
Qed.
Lemma pio_take_exact l n : pio tt1 (take_exact l n).
Proof.
  apply pio_of_pdet; [apply pdet_take_exact|]. intros rs Hi _. unfold take_exact.
  destruct (_ <? n); [exact I|split; [exact I|apply inv_consume; exact Hi]].
Qed.

Create HintDb piodb.
#[local] Hint Resolve pio_varint pio_exact pio_slice pio_take_varint pio_take_exact : piodb.
#[local] Opaque read_varint read_exact read_slice skip_bytes take_varint take_exact.

Ltac pio_prim :=
  solve [ eauto with piodb | eapply pio_weaken; [ solve [eauto with piodb] | intros; exact I ] ].
Ltac pio_step :=
  lazymatch goal with
  | |- pio _ (let _ := _ in _) => cbv zeta
  | |- pio _ (sret _) => apply pio_ret; solve [ exact I | auto with piodb ]
  | |- pio _ (rfail _) => apply pio_fail; reflexivity
  | |- pio _ (sbind _ _) =>
      eapply pio_bind; [ pio_prim | let a := fresh "a" in let Ha := fresh "Ha" in intros a Ha ]
  | |- pio _ (if ?c then _ else _) => destruct c
  | |- pio _ (match ?x with _ => _ end) => destruct x
  | |- pio _ _ => pio_prim
  end.
Ltac pio_walk := repeat pio_step.

Lemma pio_dec_depth d : pio tt1 (dec_depth d).
Proof. unfold dec_depth. pio_walk. Qed.
Lemma pio_node_at Sc k : pio tt1 (node_at Sc k).
Proof. unfold node_at. pio_walk. Qed.
Lemma pio_read_usize : pio tt1 read_usize.
Proof. unfold read_usize. pio_walk. Qed.
Lemma pio_read_bool : pio tt1 read_bool.
Proof.
  unfold read_bool. eapply pio_bind; [apply pio_slice|]. intros [bs o] _. cbn [fst]. pio_walk.
Qed.
Lemma pio_str_event r : pio tt1 (str_event r).
Proof. unfold str_event. pio_walk. Qed.
#[local] Hint Resolve pio_dec_depth pio_node_at pio_read_usize pio_read_bool pio_str_event : piodb.
Lemma pio_read_ld_bytes : pio tt1 read_ld_bytes.
Proof. unfold read_ld_bytes. pio_walk. Qed.
Lemma pio_read_ld_str : pio tt1 read_ld_str.
Proof. unfold read_ld_str. pio_walk. Qed.
#[local] Hint Resolve pio_read_ld_bytes pio_read_ld_str : piodb.
Lemma pio_finish_decimal u sc h : pio tt1 (finish_decimal u sc h).
Proof. unfold finish_decimal. cbv zeta. pio_walk. Qed.
#[local] Hint Resolve pio_finish_decimal : piodb.
#[local] Opaque finish_decimal.
Lemma pio_read_decimal n h : pio tt1 (read_decimal n h).
Proof. unfold read_decimal. pio_walk. Qed.
#[local] Hint Resolve pio_read_decimal : piodb.
(* blocks are not skipped by size: ignored = false *)
Lemma pio_read_block_len : forall f, pio tt1 (read_block_len f false).
Proof. induction f as [|f IH]; cbn [read_block_len]; pio_walk. Qed.
#[local] Hint Resolve pio_read_block_len : piodb.
Lemma pio_has_more f cfg b : pio tt1 (has_more f cfg false b).
Proof. unfold has_more. pio_walk. Qed.
#[local] Hint Resolve pio_has_more : piodb.
#[local] Opaque dec_depth node_at read_usize read_bool str_event read_ld_bytes read_ld_str read_decimal
  read_block_len has_more.

Definition noign (src : mapsrc) : Prop :=
  match src with MSMap _ _ ign _ => ign = false | _ => True end.
Definition key_post (o : option (dval * mapsrc)) : Prop :=
  match o with Some (_, src1) => noign src1 | None => True end.
Definition val_post (r : dval * mapsrc) : Prop := noign (snd r).

Section Step.
Variable Sc : fschema.
Variable cfg : dcfg.
Variable f : nat.

Hypothesis IHde : forall n depth favor force, pio tt1 (de Sc cfg f n depth favor force TAny).
Hypothesis IHsa : forall items depth b ee, pio tt1 (seq_array Sc cfg f items depth false TAny b ee).
Hypothesis IHsl : forall items depth b acc, pio tt1 (seq_array_loop Sc cfg f items depth false (PRepeat TAny) b acc).
Hypothesis IHsd : forall vals t, pio tt1 (seq_duration Sc cfg f vals t).
Hypothesis IHmv : forall src, noign src -> pio tt1 (map_visit Sc cfg f src TAny).
Hypothesis IHnk : forall src tk, noign src -> pio key_post (map_next_key Sc cfg f src tk).
Hypothesis IHnv : forall src, noign src -> pio val_post (map_next_value Sc cfg f src TAny).
Hypothesis IHml : forall src acc, noign src -> pio tt1 (map_loop Sc cfg f src TAny TAny acc).

Lemma noign_map v d b : noign (MSMap v d false b). Proof. reflexivity. Qed.
Lemma noign_record fs d : noign (MSRecord fs d). Proof. exact I. Qed.
Lemma noign_duration vs i : noign (MSDuration vs i). Proof. exact I. Qed.
Hint Resolve noign_map noign_record noign_duration : piodb.

Lemma iostep_any n depth : pio tt1 (de_any Sc cfg f n depth TAny).
Proof. unfold de_any. destruct n; pio_walk. Qed.

Lemma iostep_de n depth favor force : pio tt1 (de Sc cfg (S f) n depth favor force TAny).
Proof. rewrite de_unfold. destruct force; apply iostep_any. Qed.
Lemma iostep_sa items depth b ee : pio tt1 (seq_array Sc cfg (S f) items depth false TAny b ee).
Proof. rewrite seq_array_unfold. cbn [seq_policy]. pio_walk. Qed.
Lemma iostep_sl items depth b acc : pio tt1 (seq_array_loop Sc cfg (S f) items depth false (PRepeat TAny) b acc).
Proof. rewrite seq_array_loop_unfold. pio_walk. Qed.
Lemma iostep_sd vals t : pio tt1 (seq_duration Sc cfg (S f) vals t).
Proof. rewrite seq_duration_unfold. destruct (seq_policy t) as [pol sh]. pio_walk. Qed.
Lemma iostep_mv src : noign src -> pio tt1 (map_visit Sc cfg (S f) src TAny).
Proof. intro Hs. rewrite map_visit_unfold. cbn [map_policy]. pio_walk. Qed.
Lemma iostep_nk src tk : noign src -> pio key_post (map_next_key Sc cfg (S f) src tk).
Proof.
  intro Hs. rewrite map_next_key_unfold. destruct src as [values depth ignored b|fields depth|vals idx].
  - cbn [noign] in Hs. subst ignored.
    eapply pio_bind; [apply pio_has_more|]. intros hm _. destruct (fst hm); [|apply pio_ret; exact I].
    eapply pio_bind with (R := tt1).
    + destruct tk; pio_walk.
    + intros k _. apply pio_ret. reflexivity.
  - destruct fields as [|[nm k] rest]; [apply pio_ret; exact I|].
    destruct tk; try (apply pio_ret; exact I). apply pio_fail; reflexivity.
  - destruct vals; cbv zeta; apply pio_ret; exact I.
Qed.
Lemma iostep_nv src : noign src -> pio val_post (map_next_value Sc cfg (S f) src TAny).
Proof.
  intro Hs. rewrite map_next_value_unfold. destruct src as [values depth ignored b|fields depth|vals idx].
  - eapply pio_bind; [apply pio_node_at|]. intros n' _. eapply pio_bind; [apply IHde|]. intros d _.
    apply pio_ret. exact Hs.
  - destruct fields as [|[nm k] rest]; [apply pio_fail; reflexivity|].
    eapply pio_bind; [apply pio_node_at|]. intros n' _. eapply pio_bind; [apply IHde|]. intros d _.
    apply pio_ret. exact I.
  - destruct vals; [apply pio_fail; reflexivity|]. apply pio_ret. exact I.
Qed.
Lemma iostep_ml src acc : noign src -> pio tt1 (map_loop Sc cfg (S f) src TAny TAny acc).
Proof.
  intro Hs. rewrite map_loop_unfold. eapply pio_bind; [apply IHnk; exact Hs|].
  intros [[k src1]|] Hk; [|apply pio_ret; exact I]. cbn [key_post] in Hk.
  eapply pio_bind; [apply IHnv; exact Hk|]. intros r Hr. apply IHml. exact Hr.
Qed.

End Step.

Section Main.
Variable Sc : fschema.
Variable cfg : dcfg.

Definition all_pio (f : nat) : Prop :=
  (forall n depth favor force, pio tt1 (de Sc cfg f n depth favor force TAny)) /\
  (forall items depth b ee, pio tt1 (seq_array Sc cfg f items depth false TAny b ee)) /\
  (forall items depth b acc, pio tt1 (seq_array_loop Sc cfg f items depth false (PRepeat TAny) b acc)) /\
  (forall vals t, pio tt1 (seq_duration Sc cfg f vals t)) /\
  (forall src, noign src -> pio tt1 (map_visit Sc cfg f src TAny)) /\
  (forall src tk, noign src -> pio key_post (map_next_key Sc cfg f src tk)) /\
  (forall src, noign src -> pio val_post (map_next_value Sc cfg f src TAny)) /\
  (forall src acc, noign src -> pio tt1 (map_loop Sc cfg f src TAny TAny acc)).

Lemma all_pio_holds : forall f, all_pio f.
Proof.
  induction f as [|f IH].
  - unfold all_pio. repeat match goal with |- _ /\ _ => split end; intros.
    + rewrite de_zero. apply pio_fail; reflexivity.
    + rewrite seq_array_zero. apply pio_fail; reflexivity.
    + rewrite seq_array_loop_zero. apply pio_fail; reflexivity.
    + rewrite seq_duration_zero. apply pio_fail; reflexivity.
    + rewrite map_visit_zero. apply pio_fail; reflexivity.
    + rewrite map_next_key_zero. apply pio_fail; reflexivity.
    + rewrite map_next_value_zero. apply pio_fail; reflexivity.
    + rewrite map_loop_zero. apply pio_fail; reflexivity.
  - destruct IH as (H1 & H2 & H3 & H4 & H5 & H6 & H7 & H8).
    unfold all_pio. repeat match goal with |- _ /\ _ => split end; intros.
    + apply iostep_de; assumption.
    + apply iostep_sa; assumption.
    + apply iostep_sl; assumption.
    + apply iostep_sd; assumption.
    + apply iostep_mv; assumption.
    + apply iostep_nk; assumption.
    + apply iostep_nv; assumption.
    + apply iostep_ml; assumption.
Qed.

Theorem pio_de : forall f n depth favor force, pio tt1 (de Sc cfg f n depth favor force TAny).
Proof. intro f. apply (all_pio_holds f). Qed.

End Main.

(* the interface used by the container proofs *)
Lemma pio_cases {A} (Q : A -> Prop) (m : RM A) : pio Q m -> forall rs a s2, inv rs ->
  m (ext x rs) = (Ok a, s2) ->
  (exists rs', m rs = (Ok a, rs') /\ s2 = ext x rs' /\ inv rs') \/ (exists rs', m rs = (Err EIo, rs')).
Proof.
  intros Hm rs a s2 Hi H. specialize (Hm rs a s2 Hi H).
  destruct (m rs) as [[a'|e| | |] s1]; try contradiction.
  - destruct Hm as (-> & -> & _ & Hi1). left. eauto.
  - destruct e; [contradiction|]. right. eauto.
Qed.

End PIo.

(** a TAny decode through a chunked reader whose allocation cap covers the long input: if it succeeds on
    the long input, then on the cut input it succeeds identically or fails with an I/O error (the kind of
    error after which the container reader stops) *)
Theorem de_cut_chunked_any : forall Sc cfg fuel n depth favor force x rs d rs2,
  rd_chunks rs <> None -> blen (rd_inp rs ++ x) <= rd_max_alloc rs ->
  de Sc cfg fuel n depth favor force TAny (ext x rs) = (Ok d, rs2) ->
  (exists rs', de Sc cfg fuel n depth favor force TAny rs = (Ok d, rs') /\ rs2 = ext x rs' /\
               rd_chunks rs' <> None /\ blen (rd_inp rs' ++ x) <= rd_max_alloc rs') \/
  (exists rs', de Sc cfg fuel n depth favor force TAny rs = (Err EIo, rs')).
Proof.
  intros Sc cfg fuel n depth favor force x rs d rs2 Hc Hm H.
  destruct (pio_cases x _ _ (pio_de x Sc cfg fuel n depth favor force) rs d rs2 (conj Hc Hm) H)
    as [(rs' & E & -> & Hi)|[rs' E]]; [left|right]; eauto.
Qed.

(** the hypothesis on the allocation cap is needed: a string that is cut, a cap below its length, a chunk
    that would have held it: Err EData (not an I/O error) although the long input decodes *)
Example de_cut_chunked_needs_alloc :
  let enc := [10; 104; 101; 108; 108; 111] in
  fst (de [FString] cfg_default 9 FString 3 false false TAny (chunked_reader enc [100] 2)) = Ok (DStr [104; 101; 108; 108; 111]) /\
  fst (de [FString] cfg_default 9 FString 3 false false TAny (chunked_reader (firstn 4 enc) [100] 2)) = Err EData.
Proof. vm_compute. split; reflexivity. Qed.

(** examples: a record (long, string) decoded from a slice, from the slice followed by garbage, through
    a two-byte-chunk reader; and the cut input *)
Example prefix_determinism_example :
  let Sc := [FRecord (mkName [82] None) [([97], 1%nat); ([115], 2%nat)]; FLong; FString] in
  let root := FRecord (mkName [82] None) [([97], 1%nat); ([115], 2%nat)] in
  let enc := [2; 4; 120; 121] in
  let garbage := [255; 255; 7] in
  (exists d rs', de Sc cfg_default 50 root 8 false false TAny (slice_reader enc) = (Ok d, rs') /\
     de Sc cfg_default 50 root 8 false false TAny (slice_reader (enc ++ garbage)) = (Ok d, ext garbage rs')) /\
  (exists d rs', de Sc cfg_default 50 root 8 false false TAny (chunked_reader enc [2] 10) = (Ok d, rs') /\
     de Sc cfg_default 50 root 8 false false TAny (chunked_reader (enc ++ garbage) [2] 10) = (Ok d, ext garbage rs')) /\
  fst (de Sc cfg_default 50 root 8 false false TAny (slice_reader (firstn 3 enc))) = Err EData /\
  fst (de Sc cfg_default 50 root 8 false false TAny (chunked_reader (firstn 3 enc) [2] 10)) = Err EIo.
Proof.
  cbv zeta. split; [|split; [|split]].
  - eexists. eexists. split; vm_compute; reflexivity.
  - eexists. eexists. split; vm_compute; reflexivity.
  - vm_compute. reflexivity.
  - vm_compute. reflexivity.
Qed.

Print Assumptions fund_de.
Print Assumptions de_prefix_determinism.
Print Assumptions de_prefix_determinism_gen.
Print Assumptions de_prefix_determinism_chunked.
Print Assumptions de_datum_prefix_determinism.
Print Assumptions pdet_struct_loop.
Print Assumptions de_cut_ok_or_err.
Print Assumptions de_cut_chunked_any.
