(** Decoder completeness beyond deserialize_any (slice mode):
    - [de_ignored_complete]        skipping a value (serde::de::IgnoredAny) consumes exactly its encoding
    - [ignored_consumes_as_any]    ... which is what reading it with deserialize_any consumes
    - [struct_missing_field_skips] a struct target that lacks fields skips exactly those fields
    - [de_typed_complete]          round trip for ordinary Rust data types (typed_target) *)
From Coq Require Import NArith ZArith List Lia Bool.
From Coq Require Import ZifyN ZifyBool ZifyNat.
Require Import Base Kinds Schema Varint Utf8 Sval Target Reader Text De.
Require Import AvroValue Encoding Denote Wf VarintProofs.
Require Import DeProofs.
Import ListNotations.
Open Scope N_scope.

Ltac Zify.zify_post_hook ::= Z.to_euclidean_division_equations.

Arguments N.add : simpl never.
Arguments N.sub : simpl never.
Arguments N.mul : simpl never.
Arguments N.div : simpl never.
Arguments N.modulo : simpl never.
Arguments N.pow : simpl never.
Arguments N.shiftl : simpl never.
Arguments N.shiftr : simpl never.
Arguments N.land : simpl never.
Arguments N.lor : simpl never.
Arguments N.ltb : simpl never.
Arguments N.leb : simpl never.
Arguments N.eqb : simpl never.
Arguments N.of_nat : simpl never.
Arguments N.to_nat : simpl never.
Arguments N.min : simpl never.
Arguments Z.of_nat : simpl never.
Arguments Z.of_N : simpl never.
Arguments Z.to_N : simpl never.
Arguments Z.add : simpl never.
Arguments Z.sub : simpl never.
Arguments Z.mul : simpl never.
Arguments Z.pow : simpl never.
Arguments Z.ltb : simpl never.
Arguments Z.leb : simpl never.
Arguments Z.eqb : simpl never.
Arguments Z.opp : simpl never.
Arguments Z.abs : simpl never.
Arguments Z.modulo : simpl never.

(* ------------------------------------------------------------------ *)
Require Import DS1 DS2 DS3 DS4.
(* ------------------------------------------------------------------ *)
(** * 8. Field lookup of the derived-struct visitor *)

Lemma bytes_eqb_refl : forall a, bytes_eqb a a = true.
Proof.
  intros a. unfold bytes_eqb. rewrite Nat.eqb_refl. cbn [andb].
  induction a as [|x a IH]; [reflexivity|].
  cbn [combine forallb fst snd]. rewrite N.eqb_refl. exact IH.
Qed.

Lemma bytes_eqb_eq : forall a b, bytes_eqb a b = true <-> a = b.
Proof.
  intros a b. split; [|intros ->; apply bytes_eqb_refl].
  unfold bytes_eqb. revert b. induction a as [|x a IH]; intros [|y b] H; try reflexivity;
    cbn [length Nat.eqb andb] in H; try discriminate H.
  cbn [combine forallb fst snd] in H.
  apply andb_prop in H. destruct H as [Hl H]. apply andb_prop in H. destruct H as [Hxy H].
  apply N.eqb_eq in Hxy. subst y. f_equal. apply IH. rewrite Hl. exact H.
Qed.

Lemma distinct_NoDup l : distinct l = true -> NoDup l.
Proof.
  induction l as [|x t IH]; intro H; [constructor|].
  cbn [distinct] in H. apply andb_prop in H. destruct H as [Hx Ht].
  constructor; [|apply IH; exact Ht].
  intro Hin. apply negb_true_iff in Hx.
  assert (existsb (bytes_eqb x) t = true); [|congruence].
  apply existsb_exists. exists x. split; [exact Hin|apply bytes_eqb_refl].
Qed.

Lemma index_of_nodup : forall l i x, NoDup l -> nth_error l i = Some x -> index_of x l = Some i.
Proof.
  induction l as [|y t IH]; intros i x Hnd Hi; [destruct i; discriminate Hi|].
  inversion Hnd as [|? ? Hy Ht]; subst. cbn [index_of]. destruct i as [|i'].
  - cbn [nth_error] in Hi. inversion Hi; subst. now rewrite bytes_eqb_refl.
  - cbn [nth_error] in Hi. destruct (bytes_eqb x y) eqn:E.
    + apply bytes_eqb_eq in E. subst y. exfalso. apply Hy. eapply nth_error_In. exact Hi.
    + rewrite (IH i' x Ht Hi). reflexivity.
Qed.

Definition has_field {A} (nm : bytes) (fs : list (bytes * A)) : bool :=
  existsb (fun tf => bytes_eqb (fst tf) nm) fs.

Lemma find_field_none : forall fs nm s, has_field nm fs = false -> find_field nm fs s = None.
Proof.
  induction fs as [|[f t] r IH]; intros nm s H; [reflexivity|].
  cbn [has_field existsb fst] in H. apply orb_false_iff in H. destruct H as [H1 H2].
  cbn [find_field]. rewrite H1. apply IH. exact H2.
Qed.

Lemma find_field_some : forall fs nm s i tf,
  find_field nm fs s = Some (i, tf) ->
  has_field nm fs = true /\ exists j, i = (s + j)%nat /\ nth_error fs j = Some (nm, tf).
Proof.
  induction fs as [|[f t] r IH]; intros nm s i tf H; [discriminate H|].
  cbn [find_field] in H. cbn [has_field existsb fst]. destruct (bytes_eqb f nm) eqn:E.
  - inversion H; subst. apply bytes_eqb_eq in E. subst f. split; [reflexivity|].
    exists O. split; [lia|reflexivity].
  - destruct (IH nm (S s) i tf H) as (Hh & j & Hi & Hj). split; [exact Hh|].
    exists (S j). split; [lia|exact Hj].
Qed.

Lemma find_field_nodup : forall fs nm s i tf,
  NoDup (map fst fs) -> nth_error fs i = Some (nm, tf) -> find_field nm fs s = Some ((s + i)%nat, tf).
Proof.
  induction fs as [|[f t] r IH]; intros nm s i tf Hnd Hi; [destruct i; discriminate Hi|].
  cbn [map fst] in Hnd. inversion Hnd as [|? ? Hf Hr]; subst. cbn [find_field]. destruct i as [|i'].
  - cbn [nth_error] in Hi. inversion Hi; subst. rewrite bytes_eqb_refl. f_equal. f_equal. lia.
  - cbn [nth_error] in Hi. destruct (bytes_eqb f nm) eqn:E.
    + apply bytes_eqb_eq in E. subst f. exfalso. apply Hf.
      apply nth_error_In in Hi. apply (in_map fst) in Hi. exact Hi.
    + rewrite (IH nm (S s) i' tf Hr Hi). f_equal. f_equal. lia.
Qed.

Lemma find_field_in : forall fs nm tf,
  NoDup (map fst fs) -> In (nm, tf) fs -> exists i, find_field nm fs O = Some (i, tf) /\ (i < length fs)%nat.
Proof.
  intros fs nm tf Hnd Hin. apply In_nth_error in Hin. destruct Hin as [i Hi].
  exists i. split; [apply (find_field_nodup fs nm O i tf Hnd Hi)|].
  apply nth_error_Some. congruence.
Qed.

(* the [seen] flags *)
Lemma set_seen_length : forall l i, length (set_seen l i) = length l.
Proof. induction l as [|h t IH]; intros [|j]; cbn [set_seen length]; try reflexivity. now rewrite IH. Qed.

Lemma nth_set_seen_same : forall l i, (i < length l)%nat -> nth i (set_seen l i) false = true.
Proof.
  induction l as [|h t IH]; intros [|j] H; cbn [length] in H; try lia; cbn [set_seen nth]; [reflexivity|].
  apply IH. lia.
Qed.

Lemma nth_set_seen_other : forall l i j, i <> j -> nth j (set_seen l i) false = nth j l false.
Proof.
  induction l as [|h t IH]; intros [|i'] [|j'] H; cbn [set_seen nth]; try reflexivity; try congruence.
  apply IH. congruence.
Qed.

Lemma nth_set_seen_mono : forall l i j, nth j l false = true -> nth j (set_seen l i) false = true.
Proof.
  intros l i j H. destruct (Nat.eq_dec i j) as [->|Hne].
  - apply nth_set_seen_same. destruct (Nat.lt_ge_cases j (length l)) as [|Hge]; [assumption|].
    rewrite nth_overflow in H by exact Hge. discriminate H.
  - rewrite nth_set_seen_other by exact Hne. exact H.
Qed.

Lemma nth_repeat_false : forall n i, nth i (repeat false n) false = false.
Proof. induction n as [|n IH]; intros [|i]; cbn [repeat nth]; try reflexivity. apply IH. Qed.

Lemma missing_fields_nil : forall (fs : list (bytes * dtarget)) seen,
  (forall i, (i < length fs)%nat -> nth i seen false = true) -> missing_fields fs seen = [].
Proof.
  induction fs as [|[f t] r IH]; intros seen H; [reflexivity|].
  destruct seen as [|s sr]; [reflexivity|]. cbn [missing_fields].
  pose proof (H O ltac:(cbn [length]; lia)) as H0. cbn [nth] in H0. subst s. cbn [app].
  apply IH. intros i Hi. apply (H (S i)). cbn [length]. lia.
Qed.

Section Seen.
Variable fs : list (bytes * dtarget).

Fixpoint seen_after (fields : list (bytes * nat)) (seen : list bool) : list bool :=
  match fields with
  | [] => seen
  | (nm, _) :: fr =>
      seen_after fr (match find_field nm fs O with Some (i, _) => set_seen seen i | None => seen end)
  end.

Fixpoint no_dup_seen (fields : list (bytes * nat)) (seen : list bool) : Prop :=
  match fields with
  | [] => True
  | (nm, _) :: fr =>
      match find_field nm fs O with
      | Some (i, _) => nth i seen false = false /\ no_dup_seen fr (set_seen seen i)
      | None => no_dup_seen fr seen
      end
  end.

Lemma no_dup_seen_intro : forall fields seen,
  NoDup (map fst fields) ->
  (forall nm i tf, In nm (map fst fields) -> find_field nm fs O = Some (i, tf) -> nth i seen false = false) ->
  no_dup_seen fields seen.
Proof.
  induction fields as [|[nm k] fr IH]; intros seen Hnd Hinv; [exact I|].
  cbn [map fst] in Hnd. inversion Hnd as [|? ? Hnm Hfr]; subst.
  cbn [no_dup_seen]. destruct (find_field nm fs O) as [[i tf]|] eqn:E.
  - split; [apply (Hinv nm i tf); [left; reflexivity|exact E]|].
    apply IH; [exact Hfr|]. intros nm' j tf' Hin Hj.
    rewrite nth_set_seen_other.
    + apply (Hinv nm' j tf'); [right; exact Hin|exact Hj].
    + intro Eij. subst j.
      destruct (find_field_some _ _ _ _ _ E) as (_ & a & Ha & Hna).
      destruct (find_field_some _ _ _ _ _ Hj) as (_ & b & Hb & Hnb).
      cbn [Nat.add] in Ha, Hb. subst a. subst b. rewrite Hna in Hnb. inversion Hnb; subst.
      apply Hnm. exact Hin.
  - apply IH; [exact Hfr|]. intros nm' j tf' Hin Hj. apply (Hinv nm' j tf'); [right; exact Hin|exact Hj].
Qed.

Lemma seen_after_length : forall fields seen, length (seen_after fields seen) = length seen.
Proof.
  induction fields as [|[nm k] fr IH]; intros seen; [reflexivity|]. cbn [seen_after].
  rewrite IH. destruct (find_field nm fs O) as [[i tf]|]; [apply set_seen_length|reflexivity].
Qed.

Lemma seen_after_mono : forall fields seen j,
  nth j seen false = true -> nth j (seen_after fields seen) false = true.
Proof.
  induction fields as [|[nm k] fr IH]; intros seen j H; [exact H|]. cbn [seen_after]. apply IH.
  destruct (find_field nm fs O) as [[i tf]|]; [apply nth_set_seen_mono; exact H|exact H].
Qed.

Lemma seen_after_sets : forall fields seen nm i tf,
  In nm (map fst fields) -> find_field nm fs O = Some (i, tf) -> (i < length seen)%nat ->
  nth i (seen_after fields seen) false = true.
Proof.
  induction fields as [|[nm0 k] fr IH]; intros seen nm i tf Hin Hf Hi; [destruct Hin|].
  cbn [seen_after]. cbn [map fst] in Hin. destruct Hin as [->|Hin].
  - rewrite Hf. apply seen_after_mono. apply nth_set_seen_same. exact Hi.
  - apply (IH _ nm i tf Hin Hf).
    destruct (find_field nm0 fs O) as [[i0 tf0]|]; [rewrite set_seen_length|]; exact Hi.
Qed.

Lemma nothing_missing : forall fields,
  NoDup (map fst fs) -> incl (map fst fs) (map fst fields) ->
  missing_fields fs (seen_after fields (repeat false (length fs))) = [].
Proof.
  intros fields Hnd Hincl. apply missing_fields_nil. intros i Hi.
  destruct (nth_error fs i) as [[nm tf]|] eqn:E; [|apply nth_error_None in E; lia].
  pose proof (find_field_nodup fs nm O i tf Hnd E) as Hf. cbn [Nat.add] in Hf.
  apply (seen_after_sets fields _ nm i tf); [|exact Hf|rewrite repeat_length; exact Hi].
  apply Hincl. apply nth_error_In in E. apply (in_map fst) in E. exact E.
Qed.

End Seen.

(* ------------------------------------------------------------------ *)
(** * 9. The struct visitor over a record, generic in the field targets *)

Lemma fields_P_impl_in (P Q : bytes -> nat -> evalue -> Prop) : forall fields fs,
  (forall nm k v, In (nm, k) fields -> In v fs -> P nm k v -> Q nm k v) ->
  fields_P P fields fs -> fields_P Q fields fs.
Proof.
  induction fields as [|[nm k] fr IH]; intros [|v vr] H HP; try exact HP.
  cbn [fields_P] in *. destruct HP as [H1 H2]. split.
  - apply H; [left; reflexivity|left; reflexivity|exact H1].
  - apply IH; [|exact H2]. intros. apply H; [right; assumption|right; assumption|assumption].
Qed.

Section StructG.
Variable Sc : fschema.
Variable cfg : dcfg.
Variable fs : list (bytes * dtarget).
Variable R : nat -> evalue -> dval -> Prop.

Lemma struct_loop_record_cons_eq f nm k fr d seen acc :
  struct_loop Sc cfg (S (S f)) (MSRecord ((nm, k) :: fr) d) fs seen acc
  = match find_field nm fs O with
    | Some (i, tf) =>
        if nth i seen false then rfail (Err EData)
        else
          do* r <- map_next_value Sc cfg (S f) (MSRecord ((nm, k) :: fr) d) tf;
          struct_loop Sc cfg (S f) (snd r) fs (set_seen seen i) ((nm, fst r) :: acc)
    | None =>
        do* r <- map_next_value Sc cfg (S f) (MSRecord ((nm, k) :: fr) d) TIgnored;
        struct_loop Sc cfg (S f) (snd r) fs seen acc
    end.
Proof.
  cbn [struct_loop map_next_key]. rewrite sbind_sret. cbn [prim_event dval_bytes].
  destruct (find_field nm fs O) as [[i tf]|]; reflexivity.
Qed.

Lemma struct_loop_record_nil_eq f d seen acc :
  struct_loop Sc cfg (S (S f)) (MSRecord [] d) fs seen acc = sret (rev acc ++ missing_fields fs seen).
Proof. reflexivity. Qed.

(* what the visitor collected: the fields the target knows, in record order *)
Fixpoint struct_out (fields : list (bytes * nat)) (es : list evalue) (l : list (bytes * dval)) : Prop :=
  match fields, es with
  | [], [] => l = []
  | (nm, k) :: fr, v :: vr =>
      if has_field nm fs then exists d l', l = (nm, d) :: l' /\ R k v d /\ struct_out fr vr l'
      else struct_out fr vr l
  | _, _ => False
  end.

Definition field_spec (d' : nat) (nm : bytes) (k : nat) (v : evalue) : Prop :=
  match find_field nm fs O with
  | Some (_, tf) => item_g Sc cfg tf (R k) k d' v
  | None => item_g Sc cfg TIgnored Rign k d' v
  end.

Lemma struct_loop_g : forall es fields d' M seen,
  fields_P (field_spec d') fields es ->
  no_dup_seen fs fields seen ->
  Forall (fun e => (de_fuel e <= M)%nat) es ->
  forall fuel acc rest pos ma, (length es + 2 + M <= fuel)%nat ->
  exists l,
    struct_loop Sc cfg fuel (MSRecord fields d') fs seen acc
      (mkRd (enc_fields Sc fields es ++ rest) pos None ma)
    = (Ok (rev acc ++ l ++ missing_fields fs (seen_after fs fields seen)),
       mkRd rest (pos + N.of_nat (length (enc_fields Sc fields es))) None ma)
    /\ struct_out fields es l.
Proof.
  induction es as [|v vr IH]; intros fields d' M seen Hok Hnd HM fuel acc rest pos ma Hfuel.
  - destruct fields as [|[nm k] fr]; [|destruct Hok].
    destruct fuel as [|f]; [lia|]. destruct f as [|f1]; [lia|].
    rewrite struct_loop_record_nil_eq.
    exists []. split; [|reflexivity].
    cbn [enc_fields app length seen_after]. unfold sret. f_equal. f_equal. lia.
  - destruct fields as [|[nm k] fr]; [destruct Hok|].
    cbn [fields_P] in Hok. destruct Hok as [Hv Hok].
    inversion HM as [|? ? HM1 HM2]; subst.
    cbn [length] in Hfuel.
    destruct fuel as [|f]; [lia|]. destruct f as [|f1]; [lia|].
    rewrite struct_loop_record_cons_eq.
    cbn [no_dup_seen seen_after struct_out] in *. unfold field_spec in Hv.
    cbn [enc_fields]. rewrite <- app_assoc.
    destruct (find_field nm fs O) as [[i tf]|] eqn:E.
    + destruct (find_field_some _ _ _ _ _ E) as (Hhas & _). rewrite Hhas.
      destruct Hnd as [Hsn Hnd]. rewrite Hsn.
      destruct Hv as (n' & Hn & Hv).
      rewrite map_next_value_record_g_eq.
      unfold node_at. rewrite Hn, sbind_sret.
      unfold enc_at at 1. rewrite Hn.
      destruct (Hv f1 (enc_fields Sc fr vr ++ rest) pos ma ltac:(lia)) as (d & Hde & Hdv).
      rewrite sbind_assoc. rewrite (sbind_ok _ _ _ _ _ Hde). rewrite sbind_sret. cbn [fst snd].
      destruct (IH fr d' M (set_seen seen i) Hok Hnd HM2 (S f1) ((nm, d) :: acc) rest
                  (pos + N.of_nat (length (encode_e Sc n' v))) ma ltac:(lia)) as (l & Hl & Hout).
      exists ((nm, d) :: l). split.
      * rewrite Hl. cbn [rev]. rewrite <- !app_assoc. cbn [app]. f_equal. f_equal.
        unfold enc_at. rewrite Hn. rewrite app_length. lia.
      * exists d, l. repeat split; assumption.
    + assert (Hhas : has_field nm fs = false).
      { destruct (has_field nm fs) eqn:Hh; [|reflexivity]. exfalso.
        clear -E Hh. revert E. generalize O.
        induction fs as [|[f t] r IHr]; intros s E; [discriminate Hh|].
        cbn [has_field existsb fst] in Hh. cbn [find_field] in E.
        destruct (bytes_eqb f nm); [discriminate E|]. cbn [orb] in Hh. apply (IHr Hh (S s) E). }
      rewrite Hhas.
      destruct Hv as (n' & Hn & Hv).
      rewrite map_next_value_record_g_eq.
      unfold node_at. rewrite Hn, sbind_sret.
      unfold enc_at at 1. rewrite Hn.
      destruct (Hv f1 (enc_fields Sc fr vr ++ rest) pos ma ltac:(lia)) as (d & Hde & Hdv).
      rewrite sbind_assoc. rewrite (sbind_ok _ _ _ _ _ Hde). rewrite sbind_sret. cbn [fst snd].
      destruct (IH fr d' M seen Hok Hnd HM2 (S f1) acc rest
                  (pos + N.of_nat (length (encode_e Sc n' v))) ma ltac:(lia)) as (l & Hl & Hout).
      exists l. split; [|exact Hout].
      rewrite Hl. f_equal. f_equal.
      unfold enc_at. rewrite Hn. rewrite app_length. lia.
Qed.

End StructG.
