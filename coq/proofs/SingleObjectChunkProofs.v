From Coq Require Import List NArith Bool Lia.
Require Import Base Schema Sval Ser Target Reader De Denote SingleObject ReaderProofs.
Import ListNotations.
Open Scope N_scope.

Definition outcome_sim (x y : result (dval * N)) : Prop :=
  match x, y with
  | Ok (d1, k1), Ok (d2, k2) => erase_borrow d1 = erase_borrow d2 /\ k1 = k2
  | Err _, Err _ => True
  | Panic p, Panic q => p = q
  | OutOfFuel, OutOfFuel => True
  | Unmodelled, Unmodelled => True
  | _, _ => False
  end.

Lemma de_datum_same_input : forall Sc cfg fuel t s r, same_input s r ->
  outcome_sim (de_datum fuel Sc cfg t s) (de_datum fuel Sc cfg t r).
Proof.
  intros Sc cfg fuel t s r H. unfold de_datum.
  destruct (fnode_at Sc 0) as [root|]; [|reflexivity].
  pose proof (C11_de Sc cfg fuel root (c_depth cfg) false false t _ _ H) as S.
  destruct (de Sc cfg fuel root (c_depth cfg) false false t s) as [x s'].
  destruct (de Sc cfg fuel root (c_depth cfg) false false t r) as [y r'].
  destruct S as [Hx Hs].
  destruct x, y; cbn [res_sim] in Hx; cbn [outcome_sim]; try contradiction; auto.
  split; [exact Hx|]. specialize (Hs eq_refl). destruct Hs as (_ & _ & Hi & _). rewrite Hi. reflexivity.
Qed.

(* single-object input from a slice and from a reader, any chunking *)
Theorem so_chunk_independent : forall fuel Sc cfg fp t bs plan ma, N.of_nat (length bs) <= ma ->
  outcome_sim (so_decode fuel Sc cfg fp t (slice_reader bs))
              (so_decode fuel Sc cfg fp t (chunked_reader bs plan ma)).
Proof.
  intros fuel Sc cfg fp t bs plan ma H.
  pose proof (same_input_init bs plan ma H) as SI.
  unfold so_decode.
  assert (Hi : rd_inp (slice_reader bs) = rd_inp (chunked_reader bs plan ma)) by (destruct SI as (_ & _ & E & _); exact E).
  rewrite <- Hi.
  destruct (blen (rd_inp (slice_reader bs)) <? 10).
  - destruct SI as (E1 & (c & E2 & _) & _). rewrite E1, E2. exact I.
  - destruct (so_check_header fp (firstn 10 (rd_inp (slice_reader bs)))); [|exact I].
    apply de_datum_same_input. apply C11_consume. exact SI.
Qed.
