(** Decoder completeness beyond deserialize_any (slice mode):
    - [de_ignored_complete]        skipping a value (serde::de::IgnoredAny) consumes exactly its encoding
    - [ignored_consumes_as_any]    ... which is what reading it with deserialize_any consumes
    - [struct_missing_field_skips] a struct target that lacks fields skips exactly those fields
    - [de_typed_complete]          round trip for ordinary Rust data types (typed_target) *)
From Coq Require Import NArith ZArith List Lia Bool.
From Coq Require Import ZifyN ZifyBool ZifyNat.
Require Import Base Kinds Schema Varint Utf8 Sval Target Reader Text De.
Require Import AvroValue Encoding Denote Wf VarintProofs.
Require Import DeProofs.
Import ListNotations.
Open Scope N_scope.

Ltac Zify.zify_post_hook ::= Z.to_euclidean_division_equations.

Arguments N.add : simpl never.
Arguments N.sub : simpl never.
Arguments N.mul : simpl never.
Arguments N.div : simpl never.
Arguments N.modulo : simpl never.
Arguments N.pow : simpl never.
Arguments N.shiftl : simpl never.
Arguments N.shiftr : simpl never.
Arguments N.land : simpl never.
Arguments N.lor : simpl never.
Arguments N.ltb : simpl never.
Arguments N.leb : simpl never.
Arguments N.eqb : simpl never.
Arguments N.of_nat : simpl never.
Arguments N.to_nat : simpl never.
Arguments N.min : simpl never.
Arguments Z.of_nat : simpl never.
Arguments Z.of_N : simpl never.
Arguments Z.to_N : simpl never.
Arguments Z.add : simpl never.
Arguments Z.sub : simpl never.
Arguments Z.mul : simpl never.
Arguments Z.pow : simpl never.
Arguments Z.ltb : simpl never.
Arguments Z.leb : simpl never.
Arguments Z.eqb : simpl never.
Arguments Z.opp : simpl never.
Arguments Z.abs : simpl never.
Arguments Z.modulo : simpl never.

(* ------------------------------------------------------------------ *)
Require Import DS1.
(* ------------------------------------------------------------------ *)
(** * 2. Reader primitives used by the skipping arms *)

Lemma sbind_eq {S A B} (m m' : S -> sres S A) (K : A -> S -> sres S B) st st' :
  m st = m' st' -> sbind m K st = sbind m' K st'.
Proof. unfold sbind. intros ->. reflexivity. Qed.

Lemma skip_bytes_app bs rest pos ma :
  skip_bytes (N.of_nat (length bs)) (mkRd (bs ++ rest) pos None ma)
  = (Ok tt, mkRd rest (pos + N.of_nat (length bs)) None ma).
Proof. unfold skip_bytes. cbn [rd_inp]. rewrite blen_app_ge, consume_app. reflexivity. Qed.

(* the zig-zag image of an i32 fits u32: an int is skipped as a raw unsigned varint *)
Lemma zigzag_i32_u32 z : i32_range z -> zigzag z < 2 ^ 32.
Proof.
  unfold i32_range, I32_MIN, I32_MAX, zigzag. intro H.
  change (2 ^ 32) with 4294967296. destruct (Z.leb_spec 0 z); lia.
Qed.

Lemma i32_i64_range z : i32_range z -> i64_range z.
Proof. unfold i32_range, i64_range, I32_MIN, I32_MAX, I64_MIN, I64_MAX. lia. Qed.

Lemma read_varint_u32_int : forall z rest pos ma, i32_range z ->
  read_varint VU32 (mkRd (spec_long z ++ rest) pos None ma)
  = (Ok (Z.of_N (zigzag z)), mkRd rest (pos + N.of_nat (length (spec_long z))) None ma).
Proof.
  intros z rest pos ma H. unfold read_varint. cbn [rd_chunks rd_inp decode_var].
  pose proof (i32_i64_range z H) as H64.
  rewrite (spec_long_is_encode_long z H64). unfold encode_long, encode_i64.
  rewrite (decode_encode_u64 (zigzag z) rest (zigzag_range z H64)).
  pose proof (zigzag_i32_u32 z H) as Hz.
  destruct (N.ltb_spec (zigzag z) (2 ^ 32)); [|lia].
  rewrite consume_app. reflexivity.
Qed.

Lemma read_varint_u64_long' : forall z rest pos ma, i64_range z ->
  read_varint VU64 (mkRd (spec_long z ++ rest) pos None ma)
  = (Ok (Z.of_N (zigzag z)), mkRd rest (pos + N.of_nat (length (spec_long z))) None ma).
Proof.
  intros z rest pos ma H. unfold read_varint. cbn [rd_chunks rd_inp decode_var].
  rewrite (spec_long_is_encode_long z H). unfold encode_long, encode_i64.
  rewrite (decode_encode_u64 (zigzag z) rest (zigzag_range z H)).
  rewrite consume_app. reflexivity.
Qed.

(* ------------------------------------------------------------------ *)
(** * 3. The block reader, for both values of [ignored] *)

Section BlocksG.
Variable cfg : dcfg.

Lemma read_block_len_hdr_g f ign neg m bsz tail pos ma :
  ign && neg = false -> fits_long (S m) -> fits_long bsz ->
  read_block_len (S f) ign (mkRd (blk_hdr neg (S m) bsz ++ tail) pos None ma)
  = (Ok (Some (N.of_nat (S m))),
     mkRd tail (pos + N.of_nat (length (blk_hdr neg (S m) bsz))) None ma).
Proof.
  intros Hin Hm Hb. destruct ign; [|apply read_block_len_hdr; assumption].
  destruct neg; [discriminate Hin|].
  cbn [read_block_len]. unfold blk_hdr.
  rewrite (sbind_ok _ _ _ _ _ (read_varint_long _ _ pos ma (fits_long_range _ Hm))).
  destruct (Z.ltb_spec (Z.of_nat (S m)) 0); [lia|].
  destruct (Z.eqb_spec (Z.of_nat (S m)) 0); [lia|].
  unfold sret. replace (Z.to_N (Z.of_nat (S m))) with (N.of_nat (S m)) by lia. reflexivity.
Qed.

Lemma read_block_len_end_g f ign rest pos ma :
  read_block_len (S f) ign (mkRd (spec_long 0 ++ rest) pos None ma)
  = (Ok None, mkRd rest (pos + N.of_nat (length (spec_long 0))) None ma).
Proof.
  cbn [read_block_len].
  assert (R : i64_range 0) by (unfold i64_range, I64_MIN, I64_MAX; lia).
  rewrite (sbind_ok _ _ _ _ _ (read_varint_long _ _ pos ma R)). reflexivity.
Qed.

(* a block written with a negative count is jumped over: read_block_len ... continue *)
Lemma read_block_len_skip f m (items : bytes) tail pos ma :
  fits_long (S m) -> fits_long (length items) ->
  read_block_len (S f) true (mkRd (blk_hdr true (S m) (length items) ++ items ++ tail) pos None ma)
  = read_block_len f true
      (mkRd tail (pos + N.of_nat (length (blk_hdr true (S m) (length items))) + N.of_nat (length items))
            None ma).
Proof.
  intros Hm Hb. cbn [read_block_len]. unfold blk_hdr. rewrite <- app_assoc.
  assert (R : i64_range (- Z.of_nat (S m)))
    by (unfold fits_long, i64_range, I64_MIN, I64_MAX in *; lia).
  rewrite (sbind_ok _ _ _ _ _ (read_varint_long _ _ pos ma R)).
  destruct (Z.ltb_spec (- Z.of_nat (S m)) 0); [|lia].
  rewrite (sbind_ok _ _ _ _ _ (read_varint_long _ _ _ ma (fits_long_range _ Hb))).
  destruct (Z.ltb_spec (Z.of_nat (length items)) 0); [lia|].
  replace (Z.to_N (Z.of_nat (length items))) with (N.of_nat (length items)) by lia.
  rewrite (sbind_ok _ _ _ _ _ (skip_bytes_app items tail _ ma)).
  rewrite app_length, Nat2N.inj_add, N.add_assoc. reflexivity.
Qed.

Lemma has_more_in_block_g f ign m nread fin st :
  has_more f cfg ign (mkBlk (N.of_nat (S m)) nread fin) st
  = (Ok (true, mkBlk (N.of_nat m) nread fin), st).
Proof.
  unfold has_more. cbn [b_cur b_nread b_finished].
  destruct (N.eqb_spec (N.of_nat (S m)) 0); [lia|].
  unfold sret. replace (N.of_nat (S m) - 1) with (N.of_nat m) by lia. reflexivity.
Qed.

Lemma has_more_end_g f ign nread fin rest pos ma :
  has_more (S f) cfg ign (mkBlk 0 nread fin) (mkRd (spec_long 0 ++ rest) pos None ma)
  = (Ok (false, mkBlk 0 nread true), mkRd rest (pos + N.of_nat (length (spec_long 0))) None ma).
Proof.
  unfold has_more. cbn [b_cur b_nread b_finished]. change (0 =? 0) with true. cbv iota.
  rewrite (sbind_ok _ _ _ _ _ (read_block_len_end_g f ign rest pos ma)). reflexivity.
Qed.

Lemma has_more_hdr_g f ign neg m bsz nread fin tail pos ma :
  ign && neg = false ->
  fits_long (S m) -> fits_long bsz -> nread + N.of_nat (S m) <= c_max_seq cfg ->
  exists nread',
    has_more (S f) cfg ign (mkBlk 0 nread fin) (mkRd (blk_hdr neg (S m) bsz ++ tail) pos None ma)
    = (Ok (true, mkBlk (N.of_nat m) nread' false),
       mkRd tail (pos + N.of_nat (length (blk_hdr neg (S m) bsz))) None ma)
    /\ nread' <= nread + N.of_nat (S m).
Proof.
  intros Hin Hm Hb Hmax. unfold has_more. cbn [b_cur b_nread b_finished].
  change (0 =? 0) with true. cbv iota.
  rewrite (sbind_ok _ _ _ _ _ (read_block_len_hdr_g f ign neg m bsz tail pos ma Hin Hm Hb)).
  set (nr := N.min (nread + N.of_nat (S m)) (2 ^ 64 - 1)).
  assert (Hnr : nr <= nread + N.of_nat (S m)) by (unfold nr; lia).
  destruct (N.ltb_spec (c_max_seq cfg) nr); [lia|].
  exists nr. split; [|exact Hnr]. unfold sret.
  replace (N.of_nat (S m) - 1) with (N.of_nat m) by lia. reflexivity.
Qed.

Lemma has_more_skip f m (items : bytes) nread fin tail pos ma :
  fits_long (S m) -> fits_long (length items) ->
  has_more (S f) cfg true (mkBlk 0 nread fin)
    (mkRd (blk_hdr true (S m) (length items) ++ items ++ tail) pos None ma)
  = has_more f cfg true (mkBlk 0 nread fin)
      (mkRd tail (pos + N.of_nat (length (blk_hdr true (S m) (length items))) + N.of_nat (length items))
            None ma).
Proof.
  intros Hm Hb. unfold has_more. cbn [b_cur b_nread b_finished].
  change (0 =? 0) with true. cbv iota.
  apply sbind_eq. apply read_block_len_skip; assumption.
Qed.

End BlocksG.

(* the items a block reader presents: with [ignored] the negative-count blocks are jumped over *)
Definition visited {A} (ign : bool) (blocks : list (bool * list A)) : list A :=
  flat_map (fun blk => if ign && fst blk then [] else snd blk) blocks.

Lemma visited_cons {A} ign neg (its : list A) blocks :
  visited ign ((neg, its) :: blocks) = (if ign && neg then [] else its) ++ visited ign blocks.
Proof. reflexivity. Qed.

Lemma visited_false {A} (blocks : list (bool * list A)) : visited false blocks = flat_map snd blocks.
Proof. reflexivity. Qed.

(* ------------------------------------------------------------------ *)
(** * 4. Arrays and maps, generic in the item target *)

Section ItemG.
Variable Sc : fschema.
Variable cfg : dcfg.

(* the item under key [k] is decoded by target [t] with a result related by [R] *)
Definition node_g (t : dtarget) (R : evalue -> dval -> Prop) (n' : fnode) (d' : nat) (e : evalue) : Prop :=
  forall fuel rest pos ma, (de_fuel e <= fuel)%nat ->
    exists d, de Sc cfg fuel n' d' false false t (mkRd (encode_e Sc n' e ++ rest) pos None ma)
              = (Ok d, mkRd rest (pos + N.of_nat (length (encode_e Sc n' e))) None ma)
              /\ R e d.

Definition item_g (t : dtarget) (R : evalue -> dval -> Prop) (k d' : nat) (e : evalue) : Prop :=
  exists n', fnode_at Sc k = Some n' /\ node_g t R n' d' e.

End ItemG.

Section ArraysG.
Variable Sc : fschema.
Variable cfg : dcfg.
Variable t1 : dtarget.
Variable ign : bool.
Variable R : evalue -> dval -> Prop.

Lemma arr_step_g : forall f k d' b1 acc tail pos1 ma it,
  item_g Sc cfg t1 R k d' it -> (de_fuel it <= f)%nat ->
  exists d,
    arr_body Sc cfg t1 ign f k d' acc (true, b1) (mkRd (enc_at Sc k it ++ tail) pos1 None ma)
    = seq_array_loop Sc cfg f k d' ign (PRepeat t1) b1 (d :: acc)
        (mkRd tail (pos1 + N.of_nat (length (enc_at Sc k it))) None ma)
    /\ R it d.
Proof.
  intros f k d' b1 acc tail pos1 ma it (n' & Hn & Hit) Hf.
  unfold arr_body. cbn [fst snd].
  unfold node_at, enc_at. rewrite Hn, sbind_sret.
  destruct (Hit f tail pos1 ma Hf) as (d & Hde & Hdv).
  rewrite (sbind_ok _ _ _ _ _ Hde). exists d. split; [reflexivity|exact Hdv].
Qed.

Lemma arr_items_g : forall k d' M its,
  Forall (fun it => item_g Sc cfg t1 R k d' it /\ (de_fuel it <= M)%nat) its ->
  forall fuel acc nread fin tail pos ma, (M <= fuel)%nat ->
  exists ds,
    seq_array_loop Sc cfg (length its + fuel) k d' ign (PRepeat t1)
      (mkBlk (N.of_nat (length its)) nread fin) acc
      (mkRd (flat_map (enc_at Sc k) its ++ tail) pos None ma)
    = seq_array_loop Sc cfg fuel k d' ign (PRepeat t1) (mkBlk 0 nread fin) (rev ds ++ acc)
        (mkRd tail (pos + N.of_nat (length (flat_map (enc_at Sc k) its))) None ma)
    /\ Forall2 R its ds.
Proof.
  intros k d' M. induction its as [|it its IH]; intros HF fuel acc nread fin tail pos ma Hfuel.
  - exists []. split; [|constructor]. cbn [length flat_map app rev Nat.add].
    change (N.of_nat 0) with 0. rewrite N.add_0_r. reflexivity.
  - inversion HF as [|? ? [Hit HM] HF']; subst.
    cbn [length flat_map Nat.add]. rewrite <- app_assoc.
    rewrite seq_array_loop_g_eq.
    rewrite (sbind_ok _ _ _ _ _ (has_more_in_block_g cfg (length its + fuel) ign (length its) nread fin _)).
    destruct (arr_step_g (length its + fuel) k d' (mkBlk (N.of_nat (length its)) nread fin) acc
                (flat_map (enc_at Sc k) its ++ tail) pos ma it Hit ltac:(lia)) as (d & Hs & Hd).
    rewrite Hs.
    destruct (IH HF' fuel (d :: acc) nread fin tail (pos + N.of_nat (length (enc_at Sc k it))) ma Hfuel)
      as (ds & Hl & Hds).
    exists (d :: ds). split.
    + rewrite Hl. cbn [rev]. rewrite <- app_assoc. cbn [app].
      rewrite app_length, Nat2N.inj_add, N.add_assoc. reflexivity.
    + constructor; assumption.
Qed.

Definition blk_ok_g (k d' M : nat) (blk : bool * list evalue) : Prop :=
  snd blk <> [] /\ fits_long (length (snd blk)) /\
  fits_long (length (flat_map (enc_at Sc k) (snd blk))) /\
  Forall (fun it => item_g Sc cfg t1 R k d' it /\ (de_fuel it <= M)%nat) (snd blk).

Lemma arr_blocks_g : forall k d' M blocks,
  Forall (blk_ok_g k d' M) blocks ->
  forall fh f acc nread fin rest pos ma,
  nread + N.of_nat (length (flat_map snd blocks)) <= c_max_seq cfg ->
  (length blocks + 1 <= fh)%nat ->
  (length blocks + length (flat_map snd blocks) + 2 + M <= f)%nat ->
  exists ds b',
    sbind (has_more fh cfg ign (mkBlk 0 nread fin)) (arr_body Sc cfg t1 ign f k d' acc)
      (mkRd ((flat_map (enc_block (enc_at Sc k)) blocks ++ spec_long 0) ++ rest) pos None ma)
    = (Ok (rev acc ++ ds, b'),
       mkRd rest (pos + N.of_nat (length (flat_map (enc_block (enc_at Sc k)) blocks ++ spec_long 0))) None ma)
    /\ Forall2 R (visited ign blocks) ds.
Proof.
  intros k d' M. induction blocks as [|blk blocks IH];
    intros HF fh f acc nread fin rest pos ma Hmax Hfh Hf.
  - cbn [flat_map app length] in *.
    destruct fh as [|fh1]; [lia|].
    rewrite (sbind_ok _ _ _ _ _ (has_more_end_g cfg fh1 ign nread fin rest pos ma)).
    unfold arr_body. cbn [fst snd].
    exists [], (mkBlk 0 nread true). split; [rewrite app_nil_r; reflexivity|constructor].
  - inversion HF as [|? ? (Hne & Hcnt & Hbsz & Hits) HF']; subst.
    destruct blk as [neg its]. cbn [fst snd] in *.
    destruct its as [|it its]; [congruence|].
    inversion Hits as [|? ? [Hit HM] Hits']; subst.
    cbn [flat_map]. rewrite enc_block_hdr. cbn [fst snd].
    cbn [flat_map fst snd] in Hmax, Hf.
    rewrite app_length in Hmax, Hf. cbn [length] in Hmax, Hf, Hcnt, Hfh.
    rewrite visited_cons.
    rewrite <- !app_assoc.
    destruct (ign && neg) eqn:Hin.
    + (* jumped over *)
      apply andb_prop in Hin. destruct Hin as [Hi Hn]. subst neg.
      destruct fh as [|fh1]; [lia|].
      revert IH. rewrite Hi. intro IH.
      rewrite (sbind_eq _ _ _ _ _ (has_more_skip cfg fh1 (length its) _ nread fin _ pos ma Hcnt Hbsz)).
      rewrite (app_assoc _ (spec_long 0) rest).
      destruct (IH HF' fh1 f acc nread fin rest
                  (pos + N.of_nat (length (blk_hdr true (S (length its))
                                             (length (flat_map (enc_at Sc k) (it :: its))))) +
                   N.of_nat (length (flat_map (enc_at Sc k) (it :: its)))) ma
                  ltac:(lia) ltac:(lia) ltac:(lia))
        as (ds & b' & Hl & Hds).
      rewrite Hl. exists ds, b'. split; [|exact Hds].
      f_equal. f_equal. rewrite !app_length. cbn [length]. lia.
    + (* presented *)
      destruct fh as [|fh1]; [lia|].
      destruct (has_more_hdr_g cfg fh1 ign neg (length its)
                  (length (flat_map (enc_at Sc k) (it :: its))) nread fin
                  (flat_map (enc_at Sc k) (it :: its) ++
                     flat_map (enc_block (enc_at Sc k)) blocks ++ spec_long 0 ++ rest)
                  pos ma Hin Hcnt Hbsz ltac:(lia)) as (nread' & Hhm & Hnr).
      set (hdr := blk_hdr neg (S (length its)) (length (flat_map (enc_at Sc k) (it :: its)))) in *.
      rewrite (sbind_ok _ _ _ _ _ Hhm). clear Hhm.
      cbn [flat_map]. rewrite <- !app_assoc.
      destruct (arr_step_g f k d' (mkBlk (N.of_nat (length its)) nread' false) acc
                  (flat_map (enc_at Sc k) its ++
                     flat_map (enc_block (enc_at Sc k)) blocks ++ spec_long 0 ++ rest)
                  (pos + N.of_nat (length hdr)) ma it Hit ltac:(lia)) as (d & Hs & Hd).
      rewrite Hs. clear Hs.
      assert (exists f2, f = (length its + S f2)%nat) as [f2 Ef] by (exists (f - length its - 1)%nat; lia).
      rewrite Ef.
      destruct (arr_items_g k d' M its Hits' (S f2) (d :: acc) nread' false
                  (flat_map (enc_block (enc_at Sc k)) blocks ++ spec_long 0 ++ rest)
                  (pos + N.of_nat (length hdr) + N.of_nat (length (enc_at Sc k it))) ma ltac:(lia))
        as (ds1 & Hl1 & Hds1).
      rewrite Hl1. clear Hl1.
      rewrite seq_array_loop_g_eq.
      rewrite (app_assoc _ (spec_long 0) rest).
      destruct (IH HF' f2 f2 (rev ds1 ++ d :: acc) nread' false rest
                  (pos + N.of_nat (length hdr) + N.of_nat (length (enc_at Sc k it)) +
                   N.of_nat (length (flat_map (enc_at Sc k) its))) ma ltac:(lia) ltac:(lia) ltac:(lia))
        as (ds2 & b' & Hl2 & Hds2).
      rewrite Hl2. clear Hl2.
      exists (d :: ds1 ++ ds2), b'. split.
      * f_equal.
        -- f_equal. f_equal. rewrite rev_app_distr, rev_involutive. cbn [rev].
           rewrite <- !app_assoc. reflexivity.
        -- f_equal. unfold hdr. cbn [flat_map length]. rewrite ?app_length. lia.
      * cbn [app]. constructor; [exact Hd|]. apply Forall2_app; assumption.
Qed.

End ArraysG.

Section MapsG.
Variable Sc : fschema.
Variable cfg : dcfg.
Variable tk tv : dtarget.
Variable ign : bool.
Variable RK : bytes -> dval -> Prop.
Variable RV : evalue -> dval -> Prop.

Definition key_spec : Prop :=
  forall key tail pos ma, fits_long (length key) -> utf8_valid key = true ->
    exists dk, keyrd tk (mkRd (ld key ++ tail) pos None ma)
               = (Ok dk, mkRd tail (pos + N.of_nat (length (ld key))) None ma) /\ RK key dk.

Hypothesis Hkey : key_spec.

Definition Rkv (kv : bytes * evalue) (dd : dval * dval) : Prop :=
  RK (fst kv) (fst dd) /\ RV (snd kv) (snd dd).

Definition kv_ok_g (k d' M : nat) (kv : bytes * evalue) : Prop :=
  fits_long (length (fst kv)) /\ utf8_valid (fst kv) = true /\
  item_g Sc cfg tv RV k d' (snd kv) /\ (de_fuel (snd kv) <= M)%nat.

Lemma map_loop_map_eq f k d' b acc :
  map_loop Sc cfg (S (S f)) (MSMap k d' ign b) tk tv acc
  = sbind (sbind (has_more f cfg ign b) (mk_key tk k d' ign)) (ml_body Sc cfg (S f) tk tv acc).
Proof. rewrite map_loop_g_eq, map_next_key_map_g_eq. reflexivity. Qed.

Lemma map_step_g : forall f k d' M b1 acc tail pos1 ma kv,
  kv_ok_g k d' M kv -> (M <= f)%nat ->
  exists dd,
    sbind (mk_key tk k d' ign (true, b1)) (ml_body Sc cfg (S f) tk tv acc)
      (mkRd (enc_kv Sc k kv ++ tail) pos1 None ma)
    = map_loop Sc cfg (S f) (MSMap k d' ign b1) tk tv (dd :: acc)
        (mkRd tail (pos1 + N.of_nat (length (enc_kv Sc k kv))) None ma)
    /\ Rkv kv dd.
Proof.
  intros f k d' M b1 acc tail pos1 ma [key v] (Hkl & Hku & (n' & Hn & Hit) & HM) Hf.
  cbn [fst snd] in *. unfold enc_kv. cbn [fst snd].
  unfold mk_key. cbn [fst snd]. rewrite <- app_assoc.
  destruct (Hkey key (enc_at Sc k v ++ tail) pos1 ma Hkl Hku) as (dk & Hrd & Hrk).
  rewrite sbind_assoc. rewrite (sbind_ok _ _ _ _ _ Hrd). rewrite sbind_sret.
  unfold ml_body. rewrite map_next_value_map_g_eq.
  unfold node_at, enc_at. rewrite Hn, sbind_sret.
  destruct (Hit f tail (pos1 + N.of_nat (length (ld key))) ma ltac:(lia)) as (d & Hde & Hdv).
  rewrite sbind_assoc. rewrite (sbind_ok _ _ _ _ _ Hde). rewrite sbind_sret. cbn [fst snd].
  exists (dk, d). split.
  - rewrite app_length, Nat2N.inj_add, N.add_assoc. reflexivity.
  - split; assumption.
Qed.

Lemma map_items_g : forall k d' M its,
  Forall (kv_ok_g k d' M) its ->
  forall fuel acc nread fin tail pos ma, (M <= fuel)%nat ->
  exists kvs,
    map_loop Sc cfg (length its + S fuel) (MSMap k d' ign (mkBlk (N.of_nat (length its)) nread fin))
      tk tv acc (mkRd (flat_map (enc_kv Sc k) its ++ tail) pos None ma)
    = map_loop Sc cfg (S fuel) (MSMap k d' ign (mkBlk 0 nread fin)) tk tv (rev kvs ++ acc)
        (mkRd tail (pos + N.of_nat (length (flat_map (enc_kv Sc k) its))) None ma)
    /\ Forall2 Rkv its kvs.
Proof.
  intros k d' M. induction its as [|it its IH]; intros HF fuel acc nread fin tail pos ma Hfuel.
  - exists []. split; [|constructor]. cbn [length flat_map app rev Nat.add].
    change (N.of_nat 0) with 0. rewrite N.add_0_r. reflexivity.
  - inversion HF as [|? ? Hit HF']; subst.
    cbn [length flat_map Nat.add]. rewrite <- app_assoc. rewrite Nat.add_succ_r.
    rewrite map_loop_map_eq. rewrite sbind_assoc.
    rewrite (sbind_ok _ _ _ _ _ (has_more_in_block_g cfg (length its + fuel) ign (length its) nread fin _)).
    destruct (map_step_g (length its + fuel) k d' M (mkBlk (N.of_nat (length its)) nread fin) acc
                (flat_map (enc_kv Sc k) its ++ tail) pos ma it Hit ltac:(lia)) as (dd & Hs & Hd).
    rewrite Hs. rewrite <- Nat.add_succ_r.
    destruct (IH HF' fuel (dd :: acc) nread fin tail (pos + N.of_nat (length (enc_kv Sc k it))) ma Hfuel)
      as (kvs & Hl & Hkvs).
    exists (dd :: kvs). split.
    + rewrite Hl. cbn [rev]. rewrite <- app_assoc. cbn [app].
      rewrite app_length, Nat2N.inj_add, N.add_assoc. reflexivity.
    + constructor; assumption.
Qed.

Definition mblk_ok_g (k d' M : nat) (blk : bool * list (bytes * evalue)) : Prop :=
  snd blk <> [] /\ fits_long (length (snd blk)) /\
  fits_long (length (flat_map (enc_kv Sc k) (snd blk))) /\
  Forall (kv_ok_g k d' M) (snd blk).

Lemma map_blocks_g : forall k d' M blocks,
  Forall (mblk_ok_g k d' M) blocks ->
  forall fh f acc nread fin rest pos ma,
  nread + N.of_nat (length (flat_map snd blocks)) <= c_max_seq cfg ->
  (length blocks + 1 <= fh)%nat ->
  (length blocks + length (flat_map snd blocks) + 2 + M <= f)%nat ->
  exists kvs,
    sbind (sbind (has_more fh cfg ign (mkBlk 0 nread fin)) (mk_key tk k d' ign))
          (ml_body Sc cfg (S f) tk tv acc)
      (mkRd ((flat_map (enc_block (enc_kv Sc k)) blocks ++ spec_long 0) ++ rest) pos None ma)
    = (Ok (rev acc ++ kvs),
       mkRd rest (pos + N.of_nat (length (flat_map (enc_block (enc_kv Sc k)) blocks ++ spec_long 0))) None ma)
    /\ Forall2 Rkv (visited ign blocks) kvs.
Proof.
  intros k d' M. induction blocks as [|blk blocks IH];
    intros HF fh f acc nread fin rest pos ma Hmax Hfh Hf.
  - cbn [flat_map app length] in *.
    destruct fh as [|fh1]; [lia|].
    rewrite sbind_assoc.
    rewrite (sbind_ok _ _ _ _ _ (has_more_end_g cfg fh1 ign nread fin rest pos ma)).
    unfold mk_key. cbn [fst snd]. rewrite sbind_sret. unfold ml_body.
    exists []. split; [rewrite app_nil_r; reflexivity|constructor].
  - inversion HF as [|? ? (Hne & Hcnt & Hbsz & Hits) HF']; subst.
    destruct blk as [neg its]. cbn [fst snd] in *.
    destruct its as [|it its]; [congruence|].
    inversion Hits as [|? ? Hit Hits']; subst.
    cbn [flat_map]. rewrite enc_block_hdr. cbn [fst snd].
    cbn [flat_map fst snd] in Hmax, Hf.
    rewrite app_length in Hmax, Hf. cbn [length] in Hmax, Hf, Hcnt, Hfh.
    rewrite visited_cons.
    rewrite <- !app_assoc.
    destruct (ign && neg) eqn:Hin.
    + apply andb_prop in Hin. destruct Hin as [Hi Hn]. subst neg.
      destruct fh as [|fh1]; [lia|].
      revert IH. rewrite Hi. intro IH.
      rewrite (sbind_eq _ _ _ _ _
                 (sbind_eq _ _ _ _ _ (has_more_skip cfg fh1 (length its) _ nread fin _ pos ma Hcnt Hbsz))).
      rewrite (app_assoc _ (spec_long 0) rest).
      destruct (IH HF' fh1 f acc nread fin rest
                  (pos + N.of_nat (length (blk_hdr true (S (length its))
                                             (length (flat_map (enc_kv Sc k) (it :: its))))) +
                   N.of_nat (length (flat_map (enc_kv Sc k) (it :: its)))) ma
                  ltac:(lia) ltac:(lia) ltac:(lia))
        as (kvs & Hl & Hkvs).
      rewrite Hl. exists kvs. split; [|exact Hkvs].
      f_equal. f_equal. rewrite !app_length. cbn [length]. lia.
    + destruct fh as [|fh1]; [lia|].
      destruct (has_more_hdr_g cfg fh1 ign neg (length its)
                  (length (flat_map (enc_kv Sc k) (it :: its))) nread fin
                  (flat_map (enc_kv Sc k) (it :: its) ++
                     flat_map (enc_block (enc_kv Sc k)) blocks ++ spec_long 0 ++ rest)
                  pos ma Hin Hcnt Hbsz ltac:(lia)) as (nread' & Hhm & Hnr).
      set (hdr := blk_hdr neg (S (length its)) (length (flat_map (enc_kv Sc k) (it :: its)))) in *.
      rewrite sbind_assoc. rewrite (sbind_ok _ _ _ _ _ Hhm). clear Hhm.
      cbn [flat_map]. rewrite <- !app_assoc.
      destruct (map_step_g f k d' M (mkBlk (N.of_nat (length its)) nread' false) acc
                  (flat_map (enc_kv Sc k) its ++
                     flat_map (enc_block (enc_kv Sc k)) blocks ++ spec_long 0 ++ rest)
                  (pos + N.of_nat (length hdr)) ma it Hit ltac:(lia)) as (dd & Hs & Hd).
      rewrite Hs. clear Hs.
      assert (exists f2, f = (length its + S f2)%nat) as [f2 Ef] by (exists (f - length its - 1)%nat; lia).
      rewrite Ef. rewrite <- Nat.add_succ_r.
      destruct (map_items_g k d' M its Hits' (S f2) (dd :: acc) nread' false
                  (flat_map (enc_block (enc_kv Sc k)) blocks ++ spec_long 0 ++ rest)
                  (pos + N.of_nat (length hdr) + N.of_nat (length (enc_kv Sc k it))) ma ltac:(lia))
        as (kvs1 & Hl1 & Hkvs1).
      rewrite Hl1. clear Hl1.
      rewrite map_loop_map_eq.
      rewrite (app_assoc _ (spec_long 0) rest).
      destruct (IH HF' f2 f2 (rev kvs1 ++ dd :: acc) nread' false rest
                  (pos + N.of_nat (length hdr) + N.of_nat (length (enc_kv Sc k it)) +
                   N.of_nat (length (flat_map (enc_kv Sc k) its))) ma ltac:(lia) ltac:(lia) ltac:(lia))
        as (kvs2 & Hl2 & Hkvs2).
      rewrite Hl2. clear Hl2.
      exists (dd :: kvs1 ++ kvs2). split.
      * replace (rev (rev kvs1 ++ dd :: acc) ++ kvs2) with (rev acc ++ dd :: kvs1 ++ kvs2)
          by (rewrite rev_app_distr, rev_involutive; cbn [rev]; rewrite <- !app_assoc; reflexivity).
        f_equal. f_equal. unfold hdr. cbn [flat_map length]. rewrite ?app_length. lia.
      * cbn [app]. constructor; [exact Hd|]. apply Forall2_app; assumption.
Qed.

End MapsG.
